(* C10 — operator costs follow the documented cost models.
   Only statements here; every proof is `exact <lemma>` from Proofs/CostProofs.v.

   Full statement: for every operator, argument list and cost model (pre-hard-fork and
   NEW_COST_MODEL), a successful call charges exactly the cost given by that operator's documented
   formula over its argument sizes, accumulator magnitudes and result size; sha256tree charges
   base + per-pair + per-byte over the fully expanded tree, shared sub-trees or not.

   The documented formulas are Model/CostSpec.v (spec_X f args v), transcribed from
   docs/cost-model.md, docs/sha256tree.md and the constant blocks; the constants are pinned to the
   source by Pins/C10consts.v. Proved for every non-cryptographic operator of ChiaDialect
   (C10_<op>: op_X f args m = Ok (c, v) -> c = spec_X f args v, all flag sets incl. MALACHITE,
   all budgets), with two qualifications:
   * logand / logior / logxor under NEW_COST_MODEL: the document and the code disagree (finding
     F5). C10_logic holds on the class [logic_docs_agree]; C10_logic_old (pre-hard-fork) is
     unconditional; C10_refuted_logic exhibits the repo's own test vector (logior 0x400000 0x01:
     676 charged, 670 documented) and (logand nil): 367 vs 364.
   * ash / lsh charge for the magnitude of the RESULT; relating the result atom to the shifted
     number needs int_of_bytes (bytes_of_int z) = z, taken as an explicit premise
     (C10_ash, C10_lsh) — hence level "other".
   Not here: the cryptographic operators (ws-crypto, Props/C32.v / OpsCrypto cost lemmas), and
   op_unknown (C09). *)
From Clvm Require Import Model.CostSpec Proofs.CostProofs.
Open Scope N_scope.

Theorem C10_add : forall f a m c v, op_add f a m = Ok (c, v) -> c = spec_add f a v. Proof. exact add_cost. Qed.
Theorem C10_subtract : forall f a m c v, op_subtract f a m = Ok (c, v) -> c = spec_subtract f a v. Proof. exact subtract_cost. Qed.
Theorem C10_multiply : forall f a m c v, op_multiply f a m = Ok (c, v) -> c = spec_multiply f a v. Proof. exact multiply_cost. Qed.
Theorem C10_div : forall f a m c v, op_div f a m = Ok (c, v) -> c = spec_div f a v. Proof. exact div_cost. Qed.
Theorem C10_divmod : forall f a m c v, op_divmod f a m = Ok (c, v) -> c = spec_divmod f a v. Proof. exact divmod_cost. Qed.
Theorem C10_mod : forall f a m c v, op_mod f a m = Ok (c, v) -> c = spec_mod f a v. Proof. exact mod_cost. Qed.
Theorem C10_modpow : forall f a m c v, op_modpow f a m = Ok (c, v) -> c = spec_modpow f a v. Proof. exact modpow_cost. Qed.
Theorem C10_gr : forall f a m c v, op_gr f a m = Ok (c, v) -> c = spec_gr f a v. Proof. exact gr_cost. Qed.
Theorem C10_gr_bytes : forall f a m c v, op_gr_bytes f a m = Ok (c, v) -> c = spec_gr_bytes f a v. Proof. exact gr_bytes_cost. Qed.
Theorem C10_strlen : forall f a m c v, op_strlen f a m = Ok (c, v) -> c = spec_strlen f a v. Proof. exact strlen_cost. Qed.
Theorem C10_substr : forall f a m c v, op_substr f a m = Ok (c, v) -> c = spec_substr f a v. Proof. exact substr_cost. Qed.
Theorem C10_concat : forall f a m c v, op_concat f a m = Ok (c, v) -> c = spec_concat f a v. Proof. exact concat_cost. Qed.
Theorem C10_ash : (forall z, int_of_bytes (bytes_of_int z) = z) ->
  forall f a m c v, op_ash f a m = Ok (c, v) -> c = spec_ash f a v. Proof. exact ash_cost. Qed.
Theorem C10_lsh : (forall z, int_of_bytes (bytes_of_int z) = z) ->
  forall f a m c v, op_lsh f a m = Ok (c, v) -> c = spec_lsh f a v. Proof. exact lsh_cost. Qed.
Theorem C10_lognot : forall f a m c v, op_lognot f a m = Ok (c, v) -> c = spec_lognot f a v. Proof. exact lognot_cost. Qed.
Theorem C10_not : forall f a m c v, op_not f a m = Ok (c, v) -> c = spec_not f a v. Proof. exact not_cost. Qed.
Theorem C10_any : forall f a m c v, op_any f a m = Ok (c, v) -> c = spec_any f a v. Proof. exact any_cost. Qed.
Theorem C10_all : forall f a m c v, op_all f a m = Ok (c, v) -> c = spec_all f a v. Proof. exact all_cost. Qed.
Theorem C10_sha256 : forall H f a m c v, (forall b, blen (H b) = 32) ->
  op_sha256 H f a m = Ok (c, v) -> c = spec_sha256 f a v. Proof. exact sha256_cost. Qed.
Theorem C10_sha256tree : forall H f a m c v,
  op_sha256_tree H f a m = Ok (c, v) -> c = spec_sha256_tree f a v. Proof. exact sha256_tree_cost. Qed.
Theorem C10_if : forall f a m c v, op_if f a m = Ok (c, v) -> c = spec_if f a v. Proof. exact if_cost. Qed.
Theorem C10_cons : forall f a m c v, op_cons f a m = Ok (c, v) -> c = spec_cons f a v. Proof. exact cons_cost. Qed.
Theorem C10_first : forall f a m c v, op_first f a m = Ok (c, v) -> c = spec_first f a v. Proof. exact first_cost. Qed.
Theorem C10_rest : forall f a m c v, op_rest f a m = Ok (c, v) -> c = spec_rest f a v. Proof. exact rest_cost. Qed.
Theorem C10_listp : forall f a m c v, op_listp f a m = Ok (c, v) -> c = spec_listp f a v. Proof. exact listp_cost. Qed.
Theorem C10_eq : forall f a m c v, op_eq f a m = Ok (c, v) -> c = spec_eq f a v. Proof. exact eq_cost. Qed.

(* logand / logior / logxor: outside the known class F5 *)
Theorem C10_logic : forall iv opf f a m c v,
  logic_docs_agree iv opf f a -> binop_reduction iv opf f a m = Ok (c, v) -> c = spec_logic iv opf f a v.
Proof. exact logic_cost. Qed.
Theorem C10_logic_old : forall iv opf f a m c v,
  f_new_cost_model f = false -> binop_reduction iv opf f a m = Ok (c, v) -> c = spec_logic iv opf f a v.
Proof. exact logic_cost_old. Qed.

(* F5 *)
Theorem C10_refuted_logic :
  let a := Cons (Atom [64; 0; 0]) (Cons (Atom [1]) (Atom [])) in
  let f := flags_of_N 0x2000 in
  op_logior f a U64_MAX = Ok (676, Atom [64; 0; 1]) /\ spec_logior f a (Atom [64; 0; 1]) = 670 /\
  ~ logic_docs_agree 0%Z Z.lor f a.
Proof. exact f5_logior. Qed.
Theorem C10_refuted_logand :
  let a := Cons (Atom []) (Atom []) in
  let f := flags_of_N 0x2000 in
  op_logand f a U64_MAX = Ok (367, Atom []) /\ spec_logand f a (Atom []) = 364.
Proof. exact f5_logand. Qed.

(* non-vacuity: a successful multiply under both models with the documented numbers *)
Example C10_witness :
  let a := Cons (Atom [0; 255]) (Cons (Atom [127; 1]) (Cons (Atom [2]) (Atom []))) in
  op_multiply (flags_of_N 0) a U64_MAX = Ok (1950, Atom [0; 253; 3; 254]) /\
  spec_multiply (flags_of_N 0) a (Atom [0; 253; 3; 254]) = 1950 /\
  op_multiply (flags_of_N 0x2000) a U64_MAX = Ok (3870, Atom [0; 253; 3; 254]) /\
  spec_multiply (flags_of_N 0x2000) a (Atom [0; 253; 3; 254]) = 3870.
Proof. vm_compute. repeat split. Qed.

Print Assumptions C10_add.
Print Assumptions C10_subtract.
Print Assumptions C10_multiply.
Print Assumptions C10_div.
Print Assumptions C10_divmod.
Print Assumptions C10_mod.
Print Assumptions C10_modpow.
Print Assumptions C10_gr.
Print Assumptions C10_gr_bytes.
Print Assumptions C10_strlen.
Print Assumptions C10_substr.
Print Assumptions C10_concat.
Print Assumptions C10_ash.
Print Assumptions C10_lsh.
Print Assumptions C10_lognot.
Print Assumptions C10_not.
Print Assumptions C10_any.
Print Assumptions C10_all.
Print Assumptions C10_sha256.
Print Assumptions C10_sha256tree.
Print Assumptions C10_if.
Print Assumptions C10_cons.
Print Assumptions C10_first.
Print Assumptions C10_rest.
Print Assumptions C10_listp.
Print Assumptions C10_eq.
Print Assumptions C10_logic.
Print Assumptions C10_logic_old.
Print Assumptions C10_refuted_logic.
Print Assumptions C10_refuted_logand.
Print Assumptions C10_witness.
