(* C11 — operator results do not depend on the cost model.
   Only statements here; every proof is `exact <lemma>` from Proofs/CostModelIndep.v (run level:
   induction over the big-step evaluator of Model/BigStep.v, which Proofs/BigStepEquiv.v proves
   equivalent to the machine of Model/Machine.v) and Proofs/OpContracts*.v (operator level).

   Full statement: for every program, flag set F and budget, if the program succeeds both under
   F and under F plus NEW_COST_MODEL, the two result trees are identical and only the costs may
   differ; likewise every operator that succeeds under both models on the same arguments returns
   the same value.

   Proved, for every set of cryptographic primitives P:
     C11_run          ChiaDialect under F and under F + NEW_COST_MODEL: both runs succeed -> same
                      value; for ANY two budgets and fuel bounds (so in particular the same budget)
     C11_run_general  the same for any two flag sets that agree on everything except
                      NEW_COST_MODEL and LIMITS (ChiaDialect::new clears LIMITS under the new model)
     C11_run_runtime  the same for RuntimeDialect
     C11_bigstep      run_program succeeds with (cost, value) iff the big-step evaluator does
     C11_op           every operator function of the dispatch tables: both calls succeed (any two
                      budgets) -> same value
     C11_unknown      the same for the unknown-operator rule
     C11_dispatch     the same for ChiaDialect::op as a whole outside guards (dispatch included:
                      the table entries that read flags read none that the cost model changes,
                      except modpow's DISABLE_OP rule, which only turns a success into an error)
   A softfork guard is a black box in C11_run: a completed guard yields nil under both models
   whatever its body computes - inside a guard the two models do run different operator sets
   (extension 0 is BLS under the old model and the cost-exempt pre-hard-fork set, which includes
   keccak, under the new one), so no statement about the values INSIDE guards is made or true.
   [same_but_cost_model f f'] = f and f' agree on every flag except NEW_COST_MODEL and LIMITS. *)
From Clvm Require Import Model.Machine Model.Dialect Model.BigStep Model.OpsUnknown Proofs.OpContractDefs
  Proofs.DialectContracts Proofs.OpContractsMore2 Proofs.BigStepEquiv Proofs.CostModelIndep.
Open Scope N_scope.

Theorem C11_run : forall P f fuel1 fuel2 p e M1 M2 c1 v1 c2 v2,
  run_program (chia_dialect P f) fuel1 p e M1 = Ok (c1, v1) ->
  run_program (chia_dialect P (with_new_cost_model f)) fuel2 p e M2 = Ok (c2, v2) -> v1 = v2.
Proof. exact chia_run_new_cost_model. Qed.

Theorem C11_run_general : forall P f f', same_but_cost_model f f' ->
  forall fuel1 fuel2 p e M1 M2 c1 v1 c2 v2,
  run_program (chia_dialect P f) fuel1 p e M1 = Ok (c1, v1) ->
  run_program (chia_dialect P f') fuel2 p e M2 = Ok (c2, v2) -> v1 = v2.
Proof. exact chia_run_cm_indep. Qed.

Theorem C11_run_runtime : forall P f f', same_but_cost_model f f' ->
  forall fuel1 fuel2 p e M1 M2 c1 v1 c2 v2,
  run_program (runtime_dialect P f) fuel1 p e M1 = Ok (c1, v1) ->
  run_program (runtime_dialect P f') fuel2 p e M2 = Ok (c2, v2) -> v1 = v2.
Proof. exact runtime_run_cm_indep. Qed.

(* the big-step evaluator used for C11_run computes what run_program computes *)
Theorem C11_bigstep : forall d p e max_cost r,
  (exists fuel, run_program d fuel p e max_cost = Ok r) <->
  (exists fuel, run_program_big d fuel p e max_cost = Ok r).
Proof. exact run_program_big_equiv. Qed.

Theorem C11_op : forall P, Forall op_cm_indep (all_ops P).
Proof. exact all_ops_cm. Qed.

Theorem C11_unknown : forall o, op_cm_indep (unknown_operator o).
Proof. exact unknown_operator_cm_indep. Qed.

Theorem C11_dispatch : forall P know4 f0 f0' o a m m' c v c' v', same_but_cost_model f0 f0' ->
  chia_op P know4 f0 o a m OsDefault = Ok (c, v) ->
  chia_op P know4 f0' o a m' OsDefault = Ok (c', v') -> v = v'.
Proof. exact chia_op_cm. Qed.

(* non-vacuity: (+ (q . 1) (q . 2)) and a calibrated guard succeed under both models with
   different costs and the same value; with_new_cost_model sets exactly that flag *)
Example C11_witness : forall P,
  let f := flags_of_N 0 in
  let q x := Cons (Atom [1]) x in
  let add := Cons (Atom [16]) (Cons (q (Atom [1])) (Cons (q (Atom [2])) (Atom []))) in
  let guard c := Cons (Atom [36]) (Cons (q (Atom c)) (Cons (q (Atom [])) (Cons (q (q (Atom [1]))) (Cons (q (Atom [])) (Atom []))))) in
  with_new_cost_model f = flags_of_N BIT_NEW_COST_MODEL /\
  same_but_cost_model f (with_new_cost_model f) /\
  run_program (chia_dialect P f) 100 add (Atom []) 0 = Ok (796, Atom [3]) /\
  (exists c, run_program (chia_dialect P (with_new_cost_model f)) 100 add (Atom []) 0 = Ok (c, Atom [3]) /\ c <> 796) /\
  run_program (chia_dialect P f) 100 (guard [0; 160]) (Atom []) 0 = Ok (241, Atom []) /\
  run_program (chia_dialect P (with_new_cost_model f)) 100 (guard [0; 160]) (Atom []) 0 = Ok (601, Atom []).
Proof.
  intros P. split; [vm_compute; reflexivity|]. split; [repeat split|].
  split; [vm_compute; reflexivity|]. split; [eexists; split; [vm_compute; reflexivity|discriminate]|].
  split; vm_compute; reflexivity.
Qed.

Print Assumptions C11_run.
Print Assumptions C11_run_general.
Print Assumptions C11_run_runtime.
Print Assumptions C11_bigstep.
Print Assumptions C11_op.
Print Assumptions C11_unknown.
Print Assumptions C11_dispatch.
Print Assumptions C11_witness.
