(* C12 — allocator resource accounting is representation-independent. (work in progress) *)
From Clvm Require Import Model.AllocHist Proofs.AllocBasics.
Open Scope N_scope.

Theorem C12_init_counts : forall limit a, new_limited limit = Ok a -> counts a = (2, 0, 1).
Proof. exact init_counts. Qed.

Theorem C12_refuted :
  exists h, option_map a_f2 (a_final false 1000 h) = Some true /\
            option_map a_counts (a_final false 1000 h) <> Some (rs_counts (r_final 1000 h)).
Proof.
  exists f2_history. destruct f2_counts_differ as (Ha & Hr & Hf). split; [exact Hf|].
  rewrite Ha, Hr. intros H. discriminate H.
Qed.

Print Assumptions C12_init_counts.
Print Assumptions C12_refuted.
