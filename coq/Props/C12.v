(* C12 — allocator resource accounting is representation-independent.
   Only statements here; every proof is `exact <lemma>`.

   Full statement: across ANY history of allocator operations the three reported counts evolve as
   in the reference AllocRef.v (every atom a separately stored byte string): +1 atom and +len bytes
   per new atom, +1 pair per pair, +1 atom and NO bytes per substring, +1 atom and new_size bytes
   per concatenation; a full restore resets the counts to the checkpoint, a transparent restore
   (and the value-preserving restore) leaves them unchanged.

   Proved here:
   (a) the WHOLE-HISTORY theorem C12_history: start arena (Alloc.v, a_init limit) and reference
       (AllocRef.v, r_init limit) and run the same list of operations h (AllocHist.a_run / r_run;
       arguments name earlier results by index). For every limit >= 1 and EVERY h whose arguments have
       the API's types (wf_op2: bytes are bytes, u64 / i64 in range), if on the arena side
         - no operation panicked                       (a_dead st = false),
         - new_substr never took finding F2's branch: neither the copy (a_f2 st = false) nor, in the
           repaired variant fx = true, that branch's OutOfMemory          (substr_clean),
       then the arena's (atom_count, pair_count, heap_size) equal the reference's three counts, the
       reference did not panic either, the heap limits agree, and every live arena node denotes the
       reference's tree at the same index. Proof: the lock-step simulation Proofs/AllocSim.v (node
       lists in the relation "denotes", checkpoint lists corresponding, counts equal), one case per
       operation and outcome, on top of the invariants AllocInv.AINV and AllocStraddle.NSI.
       C12_history_unrepaired: for the code without the heap-limit check in that branch (fx = false)
       the second premise is just a_f2 st = false.  C12_step: the single simulation step.
       C12_no_straddle / C12_maybe_restore_total: no atom ever straddles the heap mark of a live
       checkpoint (invariant of every step), hence maybe_restore_with_node never reports "invalid atom
       byte range" - the premise no_straddle of C12_maybe_restore_keeps holds in every history.
   (b) the accounting rule PER OPERATION (for every allocator state satisfying the invariant AOK, which
       AllocInv.ainv_run shows to hold after every history, see Props/C13.v), for every public
       operation and every representation of its arguments (inline small atom, heap atom, substring,
       pair), including the optimised-away allocations (inline atoms, empty / single-argument concat)
       and all outcomes of maybe_restore_with_node. The rule is exactly the transition function of the
       reference.
   Level claimed: other (F2 refutes the statement as written).

   Refuted as stated (finding F2): new_substr on an inline small atom whose slice is not a canonical
   small integer copies the slice to the heap, so heap_size grows by the slice length although
   substrings share their parent's bytes: C12_refuted. All theorems below exclude exactly that
   branch ([SubSmallHeap]) — with or without the heap-limit fix the bytes are still counted. *)
From Coq Require Import Lia.
From Clvm Require Import Model.AllocHist Proofs.AllocBasics Proofs.AllocHeap Proofs.AllocOps
  Proofs.AllocRestore Proofs.AllocReads Proofs.AllocInv Proofs.AllocSim Proofs.AllocStraddle.
Open Scope N_scope.

Theorem C12_init_counts : forall limit a, new_limited limit = Ok a -> counts a = (2, 0, 1).
Proof. exact init_counts. Qed.

(* new atom: one atom, len bytes (also when stored inline in the pointer) *)
Theorem C12_new_atom : forall a b, AOK a -> wf_bytes b = true ->
  match new_atom a b with
  | Err e => (e = OutOfMemory /\ heap_limit a < heap_size a + blen b) \/
             (e = TooManyAtoms /\ heap_size a + blen b <= heap_limit a /\ atom_count a = MAX_NUM_ATOMS)
  | Ok (a', n) => heap_size a + blen b <= heap_limit a /\ atom_count a < MAX_NUM_ATOMS /\
                  AOK a' /\ ext (hp a) (hp a') /\ vnode (hp a') n /\ denote (hp a') n = Some (Atom b) /\
                  bump a a' 1 0 (blen b)
  end.
Proof. exact new_atom_spec. Qed.

(* integers: one atom, as many bytes as the minimal encoding has *)
Theorem C12_new_number : forall a z, AOK a -> stores a (new_number a z) z.
Proof. exact new_number_stores. Qed.

Theorem C12_new_pair : forall a l r, AOK a -> vnode (hp a) l -> vnode (hp a) r ->
  match new_pair a l r with
  | Err e => e = TooManyPairs /\ pair_count a = MAX_NUM_PAIRS
  | Ok (a', n) => pair_count a < MAX_NUM_PAIRS /\ AOK a' /\ ext (hp a) (hp a') /\ vnode (hp a') n /\
                  n = PairP (pairs_len a) /\ nth_N (pairs (hp a')) (pairs_len a) = Some (l, r) /\
                  bump a a' 0 1 0
  end.
Proof. exact new_pair_spec. Qed.

(* substring: one atom, no bytes — in every representation case except F2's branch *)
Theorem C12_new_substr : forall fx a n b s e, AOK a -> vnode (hp a) n -> denote (hp a) n = Some (Atom b) ->
  match new_substr_gen fx a n s e with
  | Err er => (er = TooManyAtoms /\ atom_count a = MAX_NUM_ATOMS) \/
              (atom_count a < MAX_NUM_ATOMS /\
               ((er = InvalidAllocArg 1 /\ blen b < s) \/ (er = InvalidAllocArg 2 /\ s <= blen b < e) \/
                (er = InvalidAllocArg 3 /\ e < s /\ e <= blen b) \/
                (er = OutOfMemory /\ fx = true /\ s <= e <= blen b /\ heap_limit a < heap_size a + (e - s))))
  | Ok (a', m, path) =>
      atom_count a < MAX_NUM_ATOMS /\ s <= e /\ e <= blen b /\
      match path with
      | SubSmallHeap =>
          fx = true ->
          ext (hp a) (hp a') /\ vnode (hp a') m /\ denote (hp a') m = Some (Atom (sub_bytes b s e)) /\
          AOK a' /\ bump a a' 1 0 (e - s)
      | _ => ext (hp a) (hp a') /\ vnode (hp a') m /\ denote (hp a') m = Some (Atom (sub_bytes b s e)) /\
             AOK a' /\ bump a a' 1 0 0
      end
  end.
Proof. exact new_substr_spec. Qed.

(* concatenation: one atom, new_size bytes (= the total length), also when it is optimised away *)
Theorem C12_new_concat : forall a size nodes, AOK a -> Forall (vnode (hp a)) nodes ->
  match new_concat a size nodes with
  | Err e => (e = TooManyAtoms /\ atom_count a = MAX_NUM_ATOMS) \/
             (atom_count a < MAX_NUM_ATOMS /\
              ((e = OutOfMemory /\ heap_limit a < heap_size a + size) \/
               (heap_size a + size <= heap_limit a /\ exists k, e = InternalError k \/ e = Panic 6)))
  | Ok (a', n) => atom_count a < MAX_NUM_ATOMS /\ heap_size a + size <= heap_limit a /\
                  AOK a' /\ ext (hp a) (hp a') /\ vnode (hp a') n /\ bump a a' 1 0 size /\
                  (forall ts, Forall2 (fun n t => denote (hp a) n = Some t) nodes ts ->
                     exists bs, all_atoms ts = Some bs /\ blen bs = size /\ denote (hp a') n = Some (Atom bs))
  end.
Proof. exact new_concat_spec. Qed.

(* a full restore resets the counts to what the checkpoint recorded *)
Theorem C12_full_restore_resets : forall a c, AOK a -> tcp_le (c_inner c) (hp a) -> WF (trunc (hp a) (c_inner c)) ->
  c_atoms (c_inner c) + c_ga c <= MAX_NUM_ATOMS -> c_pairs (c_inner c) + c_gp c <= MAX_NUM_PAIRS ->
  c_u8s (c_inner c) + c_gh c <= heap_limit a ->
  exists a1, restore_checkpoint a c = Ok a1 /\ hp a1 = trunc (hp a) (c_inner c) /\ AOK a1 /\
             heap_limit a1 = heap_limit a /\
             counts a1 = (c_atoms (c_inner c) + c_ga c, c_pairs (c_inner c) + c_gp c, c_u8s (c_inner c) + c_gh c).
Proof. exact restore_spec. Qed.

(* ... and what a checkpoint records are the counts at the time it was taken *)
Theorem C12_checkpoint_records : forall a, counts_ok a ->
  let c := checkpoint_of a in
  (c_atoms (c_inner c) + c_ga c, c_pairs (c_inner c) + c_gp c, c_u8s (c_inner c) + c_gh c) = counts a /\
  c_u8s (c_inner c) = u8_len a /\ c_atoms (c_inner c) = atoms_len a /\ c_pairs (c_inner c) = pairs_len a.
Proof. exact checkpoint_of_counts. Qed.

(* a transparent restore leaves the counts unchanged *)
Theorem C12_transparent_restore_keeps : forall a c, AOK a -> tcp_le c (hp a) -> WF (trunc (hp a) c) ->
  exists a1, restore_transparent_checkpoint a c = Ok a1 /\ hp a1 = trunc (hp a) c /\ AOK a1 /\
             bump a a1 0 0 0 /\ ghost_atoms a1 = ghost_atoms a + (atoms_len a - c_atoms c) /\
             ghost_heap a1 = ghost_heap a + (u8_len a - c_u8s c) /\ ghost_pairs a1 = ghost_pairs a + (pairs_len a - c_pairs c).
Proof. exact restore_t_spec. Qed.

(* the value-preserving restore: counts unchanged in every outcome, the value keeps its tree *)
Theorem C12_maybe_restore_keeps : forall a c x,
  AOK a -> tcp_le c (hp a) -> WF (trunc (hp a) c) -> vnode (hp a) x -> no_straddle a c ->
  exists a' r, maybe_restore_with_node a c x = (a', Ok r) /\ counts a' = counts a /\
    match r with
    | Aborted => a' = a
    | NoReplace => vnode (hp a') x /\ denote (hp a') x = denote (hp a) x
    | Replace n => vnode (hp a') n /\ denote (hp a') n = denote (hp a) x
    end.
Proof. exact maybe_restore_ok. Qed.

(* ------------------------------------------------------------------ whole histories *)
Theorem C12_history : forall fx limit h st, 1 <= limit -> Forall wf_op2 h ->
  a_final fx limit h = Some st -> a_dead st = false -> a_f2 st = false ->
  (forall st0, a_init limit = Ok st0 -> substr_clean fx st0 h) ->
  a_counts st = rs_counts (r_final limit h) /\ r_dead (r_final limit h) = false /\
  heap_limit (a_al st) = r_limit (r_st (r_final limit h)) /\
  Forall2 (fun n t => denote (hp (a_al st)) n = Some t) (a_nodes st) (r_nodes (r_final limit h)).
Proof. exact history_counts_ns. Qed.

Theorem C12_history_unrepaired : forall limit h st, 1 <= limit -> Forall wf_op2 h ->
  a_final false limit h = Some st -> a_dead st = false -> a_f2 st = false ->
  a_counts st = rs_counts (r_final limit h).
Proof. exact history_counts_unrepaired. Qed.

(* no atom straddles the heap mark of a live checkpoint: preserved by every step from every state
   satisfying the invariant; so maybe_restore_with_node never reports "invalid atom byte range" *)
Theorem C12_no_straddle : forall fx st o, AINV st -> NSI st -> NSI (fst (a_step fx st o)).
Proof. exact ns_step. Qed.

Theorem C12_maybe_restore_total : forall fx st k i, AINV st -> NSI st ->
  snd (a_step fx st (OMaybeRestore k i)) <> ObErr (InternalError 5).
Proof. exact mr_no_ie5. Qed.

(* one step of the simulation, from any related pair of states *)
Theorem C12_step : forall fx st rs o, SIM st rs -> wf_op2 o ->
  a_dead (fst (a_step fx st o)) = false -> a_f2 (fst (a_step fx st o)) = false ->
  step_ok fx o (snd (a_step fx st o)) ->
  SIM (fst (a_step fx st o)) (fst (r_step rs o)).
Proof. exact sim_step. Qed.

Theorem C12_init : forall limit st, 1 <= limit -> a_init limit = Ok st -> SIM st (r_init limit).
Proof. exact sim_init. Qed.

(* finding F2: the statement as written is refuted by the faithful model of the unchanged code *)
Theorem C12_refuted :
  exists h, option_map a_f2 (a_final false 1000 h) = Some true /\
            option_map a_counts (a_final false 1000 h) <> Some (rs_counts (r_final 1000 h)).
Proof.
  exists f2_history. destruct f2_counts_differ as (Ha & Hr & Hf). split; [exact Hf|].
  rewrite Ha, Hr. intros H. discriminate H.
Qed.

(* non-vacuity: a history using every kind of operation on which arena and reference agree *)
Example C12_witness :
  let h := [ONewAtom [1; 2; 3; 4; 5]; ONewSmall 7; OCheckpoint; ONewPair 0 1; ONewSubstr 0 1 3;
            ONewConcat 7 [0; 3]; OTCheckpoint; ONewNumber (-129); ORestoreT 0; ORestore 1; ONewU64 300] in
  option_map a_counts (a_final false 100 h) = Some (rs_counts (r_final 100 h)) /\
  option_map a_counts (a_final false 100 h) = Some (5, 0, 9) /\
  option_map a_f2 (a_final false 100 h) = Some false.
Proof. vm_compute. repeat split. Qed.

(* the premises of C12_history hold on a history with every kind of operation, including three
   maybe_restore_with_node calls (outcomes Aborted, Replace and NoReplace), under
   both variants of new_substr *)
Definition hist_witness : list op :=
  [ONewAtom [1; 2; 3; 4; 5]; ONewSmall 7; OCheckpoint; ONewPair 0 1; ONewSubstr 0 1 3;
   ONewConcat 7 [0; 3]; OTCheckpoint; ONewNumber (-129); OMaybeRestore 0 5; OTCheckpoint;
   ONewAtom (repeat 9 600%nat); ONewAtom (repeat 8 600%nat); ONewAtom [200; 1; 2]; OMaybeRestore 0 8;
   ONewAtom (repeat 7 1100%nat); OMaybeRestore 0 2;
   ORestoreT 1; OAddGhostPair 3; ORemoveGhostPair 2; OAddGhostAtom 1; OAtomEq 0 1; ONewI64 (-1);
   ORestore 1; ONewU64 300].

Example C12_history_witness : forall fx,
  Forall wf_op2 hist_witness /\
  option_map a_dead (a_final fx 5000 hist_witness) = Some false /\
  option_map a_f2 (a_final fx 5000 hist_witness) = Some false /\
  (forall st0, a_init 5000 = Ok st0 -> substr_clean fx st0 hist_witness) /\
  option_map a_counts (a_final fx 5000 hist_witness) = Some (rs_counts (r_final 5000 hist_witness)).
Proof.
  intros fx. split.
  { repeat (apply Forall_cons; [cbn [wf_op2]; try exact I; try reflexivity; try lia|]). apply Forall_nil. }
  destruct fx.
  - split; [vm_compute; reflexivity|]. split; [vm_compute; reflexivity|]. split; [|vm_compute; reflexivity].
    intros st0 H. vm_compute in H. apply Ok_inj in H. subst st0. vm_compute.
    repeat split; try (right; discriminate); discriminate.
  - split; [vm_compute; reflexivity|]. split; [vm_compute; reflexivity|]. split; [|vm_compute; reflexivity].
    intros st0 H. vm_compute in H. apply Ok_inj in H. subst st0. vm_compute.
    repeat split; try (left; reflexivity); discriminate.
Qed.

Print Assumptions C12_init_counts.
Print Assumptions C12_new_atom.
Print Assumptions C12_new_number.
Print Assumptions C12_new_pair.
Print Assumptions C12_new_substr.
Print Assumptions C12_new_concat.
Print Assumptions C12_full_restore_resets.
Print Assumptions C12_checkpoint_records.
Print Assumptions C12_transparent_restore_keeps.
Print Assumptions C12_maybe_restore_keeps.
Print Assumptions C12_refuted.
Print Assumptions C12_witness.
Print Assumptions C12_history.
Print Assumptions C12_history_unrepaired.
Print Assumptions C12_no_straddle.
Print Assumptions C12_maybe_restore_total.
Print Assumptions C12_step.
Print Assumptions C12_init.
Print Assumptions C12_history_witness.
