(* C12 — allocator resource accounting is representation-independent.
   Only statements here; every proof is `exact <lemma>`.

   Full statement: across ANY history of allocator operations the three reported counts evolve as
   in the reference AllocRef.v (every atom a separately stored byte string): +1 atom and +len bytes
   per new atom, +1 pair per pair, +1 atom and NO bytes per substring, +1 atom and new_size bytes
   per concatenation; a full restore resets the counts to the checkpoint, a transparent restore
   (and the value-preserving restore) leaves them unchanged.

   Proved here (for every allocator state satisfying the invariant AOK, which AllocInv.ainv_run shows
   to hold after every history, see Props/C13.v): the accounting rule PER OPERATION, for every public
   operation and every representation of its arguments (inline small atom, heap atom, substring,
   pair), including the optimised-away allocations (inline atoms, empty / single-argument concat)
   and all outcomes of maybe_restore_with_node. The rule is exactly the transition function of the
   reference, so the counts of arena and reference agree step by step.
   NOT proved as a single theorem: the fold of these per-step equalities over an op list against
   AllocHist.r_run (needs the lock-step simulation of node contents); that composition is checked
   by the differential runs of lib/props/c12.py (arena model = extracted reference = Python
   reference = implementation on every generated history). Level claimed: other.

   Refuted as stated (finding F2): new_substr on an inline small atom whose slice is not a canonical
   small integer copies the slice to the heap, so heap_size grows by the slice length although
   substrings share their parent's bytes: C12_refuted. All theorems below exclude exactly that
   branch ([SubSmallHeap]) — with or without the heap-limit fix the bytes are still counted. *)
From Clvm Require Import Model.AllocHist Proofs.AllocBasics Proofs.AllocHeap Proofs.AllocOps
  Proofs.AllocRestore Proofs.AllocReads.
Open Scope N_scope.

Theorem C12_init_counts : forall limit a, new_limited limit = Ok a -> counts a = (2, 0, 1).
Proof. exact init_counts. Qed.

(* new atom: one atom, len bytes (also when stored inline in the pointer) *)
Theorem C12_new_atom : forall a b, AOK a -> wf_bytes b = true ->
  match new_atom a b with
  | Err e => (e = OutOfMemory /\ heap_limit a < heap_size a + blen b) \/
             (e = TooManyAtoms /\ heap_size a + blen b <= heap_limit a /\ atom_count a = MAX_NUM_ATOMS)
  | Ok (a', n) => heap_size a + blen b <= heap_limit a /\ atom_count a < MAX_NUM_ATOMS /\
                  AOK a' /\ ext (hp a) (hp a') /\ vnode (hp a') n /\ denote (hp a') n = Some (Atom b) /\
                  bump a a' 1 0 (blen b)
  end.
Proof. exact new_atom_spec. Qed.

(* integers: one atom, as many bytes as the minimal encoding has *)
Theorem C12_new_number : forall a z, AOK a -> stores a (new_number a z) z.
Proof. exact new_number_stores. Qed.

Theorem C12_new_pair : forall a l r, AOK a -> vnode (hp a) l -> vnode (hp a) r ->
  match new_pair a l r with
  | Err e => e = TooManyPairs /\ pair_count a = MAX_NUM_PAIRS
  | Ok (a', n) => pair_count a < MAX_NUM_PAIRS /\ AOK a' /\ ext (hp a) (hp a') /\ vnode (hp a') n /\
                  n = PairP (pairs_len a) /\ nth_N (pairs (hp a')) (pairs_len a) = Some (l, r) /\
                  bump a a' 0 1 0
  end.
Proof. exact new_pair_spec. Qed.

(* substring: one atom, no bytes — in every representation case except F2's branch *)
Theorem C12_new_substr : forall fx a n b s e, AOK a -> vnode (hp a) n -> denote (hp a) n = Some (Atom b) ->
  match new_substr_gen fx a n s e with
  | Err er => (er = TooManyAtoms /\ atom_count a = MAX_NUM_ATOMS) \/
              (atom_count a < MAX_NUM_ATOMS /\
               ((er = InvalidAllocArg 1 /\ blen b < s) \/ (er = InvalidAllocArg 2 /\ s <= blen b < e) \/
                (er = InvalidAllocArg 3 /\ e < s /\ e <= blen b) \/
                (er = OutOfMemory /\ fx = true /\ s <= e <= blen b /\ heap_limit a < heap_size a + (e - s))))
  | Ok (a', m, path) =>
      atom_count a < MAX_NUM_ATOMS /\ s <= e /\ e <= blen b /\
      match path with
      | SubSmallHeap =>
          fx = true ->
          ext (hp a) (hp a') /\ vnode (hp a') m /\ denote (hp a') m = Some (Atom (sub_bytes b s e)) /\
          AOK a' /\ bump a a' 1 0 (e - s)
      | _ => ext (hp a) (hp a') /\ vnode (hp a') m /\ denote (hp a') m = Some (Atom (sub_bytes b s e)) /\
             AOK a' /\ bump a a' 1 0 0
      end
  end.
Proof. exact new_substr_spec. Qed.

(* concatenation: one atom, new_size bytes (= the total length), also when it is optimised away *)
Theorem C12_new_concat : forall a size nodes, AOK a -> Forall (vnode (hp a)) nodes ->
  match new_concat a size nodes with
  | Err e => (e = TooManyAtoms /\ atom_count a = MAX_NUM_ATOMS) \/
             (atom_count a < MAX_NUM_ATOMS /\
              ((e = OutOfMemory /\ heap_limit a < heap_size a + size) \/
               (heap_size a + size <= heap_limit a /\ exists k, e = InternalError k \/ e = Panic 6)))
  | Ok (a', n) => atom_count a < MAX_NUM_ATOMS /\ heap_size a + size <= heap_limit a /\
                  AOK a' /\ ext (hp a) (hp a') /\ vnode (hp a') n /\ bump a a' 1 0 size /\
                  (forall ts, Forall2 (fun n t => denote (hp a) n = Some t) nodes ts ->
                     exists bs, all_atoms ts = Some bs /\ blen bs = size /\ denote (hp a') n = Some (Atom bs))
  end.
Proof. exact new_concat_spec. Qed.

(* a full restore resets the counts to what the checkpoint recorded *)
Theorem C12_full_restore_resets : forall a c, AOK a -> tcp_le (c_inner c) (hp a) -> WF (trunc (hp a) (c_inner c)) ->
  c_atoms (c_inner c) + c_ga c <= MAX_NUM_ATOMS -> c_pairs (c_inner c) + c_gp c <= MAX_NUM_PAIRS ->
  c_u8s (c_inner c) + c_gh c <= heap_limit a ->
  exists a1, restore_checkpoint a c = Ok a1 /\ hp a1 = trunc (hp a) (c_inner c) /\ AOK a1 /\
             heap_limit a1 = heap_limit a /\
             counts a1 = (c_atoms (c_inner c) + c_ga c, c_pairs (c_inner c) + c_gp c, c_u8s (c_inner c) + c_gh c).
Proof. exact restore_spec. Qed.

(* ... and what a checkpoint records are the counts at the time it was taken *)
Theorem C12_checkpoint_records : forall a, counts_ok a ->
  let c := checkpoint_of a in
  (c_atoms (c_inner c) + c_ga c, c_pairs (c_inner c) + c_gp c, c_u8s (c_inner c) + c_gh c) = counts a /\
  c_u8s (c_inner c) = u8_len a /\ c_atoms (c_inner c) = atoms_len a /\ c_pairs (c_inner c) = pairs_len a.
Proof. exact checkpoint_of_counts. Qed.

(* a transparent restore leaves the counts unchanged *)
Theorem C12_transparent_restore_keeps : forall a c, AOK a -> tcp_le c (hp a) -> WF (trunc (hp a) c) ->
  exists a1, restore_transparent_checkpoint a c = Ok a1 /\ hp a1 = trunc (hp a) c /\ AOK a1 /\
             bump a a1 0 0 0 /\ ghost_atoms a1 = ghost_atoms a + (atoms_len a - c_atoms c) /\
             ghost_heap a1 = ghost_heap a + (u8_len a - c_u8s c) /\ ghost_pairs a1 = ghost_pairs a + (pairs_len a - c_pairs c).
Proof. exact restore_t_spec. Qed.

(* the value-preserving restore: counts unchanged in every outcome, the value keeps its tree *)
Theorem C12_maybe_restore_keeps : forall a c x,
  AOK a -> tcp_le c (hp a) -> WF (trunc (hp a) c) -> vnode (hp a) x -> no_straddle a c ->
  exists a' r, maybe_restore_with_node a c x = (a', Ok r) /\ counts a' = counts a /\
    match r with
    | Aborted => a' = a
    | NoReplace => vnode (hp a') x /\ denote (hp a') x = denote (hp a) x
    | Replace n => vnode (hp a') n /\ denote (hp a') n = denote (hp a) x
    end.
Proof. exact maybe_restore_ok. Qed.

(* finding F2: the statement as written is refuted by the faithful model of the unchanged code *)
Theorem C12_refuted :
  exists h, option_map a_f2 (a_final false 1000 h) = Some true /\
            option_map a_counts (a_final false 1000 h) <> Some (rs_counts (r_final 1000 h)).
Proof.
  exists f2_history. destruct f2_counts_differ as (Ha & Hr & Hf). split; [exact Hf|].
  rewrite Ha, Hr. intros H. discriminate H.
Qed.

(* non-vacuity: a history using every kind of operation on which arena and reference agree *)
Example C12_witness :
  let h := [ONewAtom [1; 2; 3; 4; 5]; ONewSmall 7; OCheckpoint; ONewPair 0 1; ONewSubstr 0 1 3;
            ONewConcat 7 [0; 3]; OTCheckpoint; ONewNumber (-129); ORestoreT 0; ORestore 1; ONewU64 300] in
  option_map a_counts (a_final false 100 h) = Some (rs_counts (r_final 100 h)) /\
  option_map a_counts (a_final false 100 h) = Some (5, 0, 9) /\
  option_map a_f2 (a_final false 100 h) = Some false.
Proof. vm_compute. repeat split. Qed.

Print Assumptions C12_init_counts.
Print Assumptions C12_new_atom.
Print Assumptions C12_new_number.
Print Assumptions C12_new_pair.
Print Assumptions C12_new_substr.
Print Assumptions C12_new_concat.
Print Assumptions C12_full_restore_resets.
Print Assumptions C12_checkpoint_records.
Print Assumptions C12_transparent_restore_keeps.
Print Assumptions C12_maybe_restore_keeps.
Print Assumptions C12_refuted.
Print Assumptions C12_witness.
