(* C26 — the Python bindings reproduce the Rust core.
   Only statements here; every proof is `exact <lemma>` from Proofs/PyGlueProofs.v.

   Full statement: for every serialized program, environment, budget and flag word,
   run_serialized_chia_program returns the same cost and result tree, or the same error message,
   as the Rust run_program with the same flags and allocator limit; the wheel's ser_x / deser_x
   functions and the LazyNode atom/pair views reproduce the Rust serializers and trees exactly.

   What is proved here is the GLUE LOGIC of wheel/src/api.rs and adapt_response.rs
   (Model/PyGlue.v), with the interpreter `core_run` and the non-classic decoders as parameters
   (any functions): the theorems say what the bindings pass to the core and what they do with its
   answer. Level: translation validation of the glue + differential run (wheel vs Rust harness vs
   this model) for everything else; pyo3 itself (argument conversion, GIL release, LazyNode as a
   Python class) is outside the model and only exercised by the run.
     C26_flags            ClvmFlags::from_bits_truncate: the dialect sees exactly the defined flags
                          of the 32-bit word
     C26_undefined_bits   no undefined bit survives the conversion
     C26_heap_limit       LIMIT_HEAP (bit 2 of the word) selects a heap limit of 500 000 000 bytes,
                          otherwise u32::MAX
     C26_run              on serialized program/environment (classic format, C15) the API result is
                          the adapted answer of the core run with the truncated flags and that heap
                          limit: Ok(cost, tree) -> (cost, LazyNode), Err(e, node) ->
                          ValueError((message, LazyNode))
     C26_run_undecodable  an undecodable program raises ValueError(message) without running
     C26_deser_auto_2026 / C26_deser_auto_other   format dispatch on the magic prefix
   NOT proved (decided by the differential run): agreement of the native functions with the Rust
   functions they wrap (ser_legacy/ser_backrefs/ser_2026 and the deser functions), LazyNode.atom/.pair views, the
   exact error strings. *)
From Clvm Require Import Model.PyGlue Proofs.PyGlueProofs.
Open Scope N_scope.

Theorem C26_flags : forall w, flags_of_N (from_bits_truncate w) = flags_of_N w.
Proof. exact flags_truncate. Qed.

Theorem C26_undefined_bits : forall w b, N.land ALL_FLAG_BITS b = 0 -> N.land (from_bits_truncate w) b = 0.
Proof. exact truncate_defined_only. Qed.

Theorem C26_heap_limit : forall w,
  api_heap_limit (from_bits_truncate w) = if N.testbit w 2 then 500000000 else 4294967295.
Proof. exact heap_limit_spec. Qed.

Theorem C26_run : forall (core_run : N -> N -> sexp -> sexp -> N -> (N * sexp) + (errkind * sexp))
    p a pe ae max_cost flags,
  wf_sexp p = true -> wf_sexp a = true -> ser p = Some pe -> ser a = Some ae ->
  flags < 2 ^ 32 -> max_cost < 2 ^ 64 ->
  run_serialized_chia_program core_run pe ae max_cost flags =
    adapt_response (core_run (from_bits_truncate flags)
                             (if N.testbit flags 2 then 500000000 else 4294967295) p a max_cost).
Proof. exact api_run_spec. Qed.

Theorem C26_run_undecodable : forall (core_run : N -> N -> sexp -> sexp -> N -> (N * sexp) + (errkind * sexp))
    pe ae max_cost flags e,
  flags < 2 ^ 32 -> max_cost < 2 ^ 64 -> node_from_bytes pe = Err e ->
  run_serialized_chia_program core_run pe ae max_cost flags = ApiRaise e.
Proof. exact api_run_undecodable. Qed.

Theorem C26_deser_auto_2026 : forall (V : Type) (de_2026_body de_backrefs : bytes -> res V) body,
  deser_auto de_2026_body de_backrefs (MAGIC_2026 ++ body) =
    match de_2026_body body with Ok v => inl v | Err e => inr (MsgEval e) end.
Proof. exact @deser_auto_2026. Qed.

Theorem C26_deser_auto_other : forall (V : Type) (de_2026_body de_backrefs : bytes -> res V) blob,
  (forall body, blob <> MAGIC_2026 ++ body) ->
  deser_auto de_2026_body de_backrefs blob =
    match de_backrefs blob with Ok v => inl v | Err e => inr (MsgEval e) end.
Proof. exact @deser_auto_other. Qed.

(* non-vacuity: a flag word with undefined bits; MEMPOOL_MODE has LIMIT_HEAP *)
Example C26_witness :
  from_bits_truncate 0xFFFFFFFF = 0x3F7F /\ api_heap_limit (from_bits_truncate 0xFFFFFFFF) = 500000000 /\
  from_bits_truncate 0x80000080 = 0 /\ api_heap_limit (from_bits_truncate 0x80000080) = 4294967295 /\
  api_heap_limit (from_bits_truncate MEMPOOL_MODE_BITS) = 500000000 /\
  run_serialized_chia_program (fun bits heap p a c => inl (bits + heap, Cons p a)) [0x01] [0x80] 7 0x80000084
    = ApiOk 500000004 (Cons (Atom [1]) (Atom [])) /\
  run_serialized_chia_program (fun bits heap p a c => inl (0, p)) [0xfe; 0x01] [0x80] 7 0 = ApiRaise SerializationError /\
  run_serialized_chia_program (fun bits heap p a c => inl (0, p)) [0x01] [0x80] 7 (2 ^ 32) = ApiOverflow.
Proof. vm_compute. repeat split. Qed.

Print Assumptions C26_flags.
Print Assumptions C26_undefined_bits.
Print Assumptions C26_heap_limit.
Print Assumptions C26_run.
Print Assumptions C26_run_undecodable.
Print Assumptions C26_deser_auto_2026.
Print Assumptions C26_deser_auto_other.
Print Assumptions C26_witness.
