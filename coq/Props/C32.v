(* C32 — cryptographic operators agree with independent implementations.

   Full statement: for every argument list, the hashing operators (sha256, keccak256, coinid),
   the BLS12-381 operators (point_add, pubkey_for_exp, g1/g2 add, subtract, multiply, negate,
   map, pairing identity, bls_verify) and the secp256k1/secp256r1 verify operators return the
   same results and accept/reject decisions as independent implementations of the same
   standards, including invalid encodings, points outside the subgroup and malformed
   signatures.

   What a proof about clvm_rs can and cannot say: that blst, k256, p256, sha2 and sha3 implement
   their standards is outside any model of clvm_rs. Level "other". Proved here, for ALL
   primitives P (no assumption about them), ALL argument trees, flag sets and budgets:

   (a) the WRAPPERS (theorems C32_wrap_...): each operator is the composition of the primitive with the
       operator's argument rules — exactly which argument lists succeed, the value and the cost
       in terms of the primitive, and the possible error kinds.
   (b) executable specifications used as the independent implementation: SHA-256
       (Model/Sha256.v) and Keccak-256 (Model/Keccak.v), validated on known digests by
       vm_compute (C32_sha256_vectors, C32_keccak256_vectors), and run against the
       implementation by the check.
   Not proved / not specified in Gallina: the BLS12-381 group law, subgroup check, pairing,
   hash-to-curve and ECDSA verification themselves. For those the check (lib/props/c32.py)
   compares the implementation with an independent implementation written for this purpose
   (lib/ec_ref.py: secp256k1/secp256r1 ECDSA, BLS12-381 G1/G2 decoding with subgroup check,
   addition, negation, scalar multiplication) and with algebraic relations any correct
   implementation satisfies (pairing bilinearity on inputs with known discrete logarithms,
   signatures from the repository's vectors). *)
From Clvm Require Import Model.OpsCrypto Model.Sha256 Model.Keccak Proofs.CryptoWrap.
Open Scope N_scope.

(* mod_group_order is reduction into [0, r) *)
Theorem C32_mod_group_order : forall z,
  mod_group_order z = (z mod GROUP_ORDER)%Z /\ (0 <= mod_group_order z < GROUP_ORDER)%Z.
Proof. intros z. split; [apply mod_group_order_spec|apply mod_group_order_range]. Qed.

(* the amount rule of coinid: exactly the canonical encodings of 0 <= v < 2^64 *)
Theorem C32_coinid_amount : forall b, wf_bytes b = true ->
  coinid_amount_ok b = true <->
  (canonical_int b = true /\ (0 <= int_of_bytes b < 18446744073709551616)%Z).
Proof. exact coinid_amount_ok_spec. Qed.

(* coinid succeeds exactly on (parent puzzle amount) with 32-byte parent and puzzle hash and a
   canonical u64 amount, and returns H(parent ++ puzzle ++ amount) *)
Theorem C32_wrap_coinid : forall H f a m r, wf_sexp a = true ->
  op_coinid H f a m = Ok r <->
  exists parent puzzle amount t,
    a = Cons (Atom parent) (Cons (Atom puzzle) (Cons (Atom amount) (Atom t))) /\
    blen parent = 32 /\ blen puzzle = 32 /\
    canonical_int amount = true /\ (0 <= int_of_bytes amount < 18446744073709551616)%Z /\
    let h := H (parent ++ puzzle ++ amount) in
    r = (coinid_cost f + blen h * MALLOC_COST_PER_BYTE, Atom h).
Proof. exact wrap_coinid. Qed.

Theorem C32_wrap_coinid_err : forall H f a m e, op_coinid H f a m = Err e -> e = InvalidOpArg 0.
Proof. exact wrap_coinid_err. Qed.

(* pubkey_for_exp: one atom argument, exponent reduced modulo the group order *)
Theorem C32_wrap_pubkey_for_exp : forall P f a m r,
  op_pubkey_for_exp P f a m = Ok r <->
  exists b t,
    a = Cons (Atom b) (Atom t) /\ pubkey_cost b <= m /\
    r = (pubkey_cost b + 48 * MALLOC_COST_PER_BYTE,
         Atom (p_g1_gen_mul P (int_of_bytes b mod GROUP_ORDER)%Z)).
Proof. exact wrap_pubkey_for_exp. Qed.

Theorem C32_wrap_pubkey_for_exp_err : forall P f a m e,
  op_pubkey_for_exp P f a m = Err e -> e = InvalidOpArg 0 \/ e = CostExceeded.
Proof. exact wrap_pubkey_for_exp_err. Qed.

(* (b) the executable hash specifications reproduce published digests *)
Example C32_sha256_vectors :
  sha256 [] = [0xe3;0xb0;0xc4;0x42;0x98;0xfc;0x1c;0x14;0x9a;0xfb;0xf4;0xc8;0x99;0x6f;0xb9;0x24;
               0x27;0xae;0x41;0xe4;0x64;0x9b;0x93;0x4c;0xa4;0x95;0x99;0x1b;0x78;0x52;0xb8;0x55] /\
  sha256 [97;98;99] =
              [0xba;0x78;0x16;0xbf;0x8f;0x01;0xcf;0xea;0x41;0x41;0x40;0xde;0x5d;0xae;0x22;0x23;
               0xb0;0x03;0x61;0xa3;0x96;0x17;0x7a;0x9c;0xb4;0x10;0xff;0x61;0xf2;0x00;0x15;0xad].
Proof. vm_compute. split; reflexivity. Qed.

(* Keccak-256 (NOT SHA3-256): "" and "abc", and a two-block message (200 x 'a') whose digest was
   obtained from the sha3 crate through the harness *)
Example C32_keccak256_vectors :
  keccak256 [] = [0xc5;0xd2;0x46;0x01;0x86;0xf7;0x23;0x3c;0x92;0x7e;0x7d;0xb2;0xdc;0xc7;0x03;0xc0;
                  0xe5;0x00;0xb6;0x53;0xca;0x82;0x27;0x3b;0x7b;0xfa;0xd8;0x04;0x5d;0x85;0xa4;0x70] /\
  keccak256 [97;98;99] =
                 [0x4e;0x03;0x65;0x7a;0xea;0x45;0xa9;0x4f;0xc7;0xd4;0x7b;0xa8;0x26;0xc8;0xd6;0x67;
                  0xc0;0xd1;0xe6;0xe3;0x3a;0x64;0xa0;0x36;0xec;0x44;0xf5;0x8f;0xa1;0x2d;0x6c;0x45].
Proof. vm_compute. split; reflexivity. Qed.

(* non-vacuity: a coin id computed by the model with the Gallina SHA-256 (amount 0x0100 = 256) *)
Example C32_coinid_witness :
  exists h, op_coinid sha256 no_flags
    (Cons (Atom (repeat 1 32)) (Cons (Atom (repeat 2 32)) (Cons (Atom [1; 0]) (Atom [])))) 0
    = Ok (COINID_COST + 320, Atom h) /\ length h = 32%nat.
Proof. eexists. vm_compute. split; reflexivity. Qed.

Print Assumptions C32_mod_group_order.
Print Assumptions C32_coinid_amount.
Print Assumptions C32_wrap_coinid.
Print Assumptions C32_wrap_coinid_err.
Print Assumptions C32_wrap_pubkey_for_exp.
Print Assumptions C32_wrap_pubkey_for_exp_err.
Print Assumptions C32_sha256_vectors.
Print Assumptions C32_keccak256_vectors.
Print Assumptions C32_coinid_witness.
