(* C32 — cryptographic operators agree with independent implementations.

   Full statement: for every argument list, the hashing operators (sha256, keccak256, coinid),
   the BLS12-381 operators (point_add, pubkey_for_exp, g1/g2 add, subtract, multiply, negate,
   map, pairing identity, bls_verify) and the secp256k1/secp256r1 verify operators return the
   same results and accept/reject decisions as independent implementations of the same
   standards, including invalid encodings, points outside the subgroup and malformed
   signatures.

   What a proof about clvm_rs can and cannot say: that blst, k256, p256, sha2 and sha3 implement
   their standards is outside any model of clvm_rs. Level "other". Proved here, for ALL
   primitives P (no assumption about them), ALL argument trees, flag sets and budgets:

   (a) the WRAPPERS (theorems C32_wrap_...): each operator is the composition of the primitive with the
       operator's argument rules — exactly which argument lists succeed, the value and the cost
       in terms of the primitive, and the possible error kinds.
   (b) executable specifications used as the independent implementation: SHA-256
       (Model/Sha256.v) and Keccak-256 (Model/Keccak.v), validated on known digests by
       vm_compute (C32_sha256_vectors, C32_keccak256_vectors), and run against the
       implementation by the check.
   Not proved / not specified in Gallina: the BLS12-381 group law, subgroup check, pairing,
   hash-to-curve and ECDSA verification themselves. For those the check (lib/props/c32.py)
   compares the implementation with an independent implementation written for this purpose
   (lib/ec_ref.py: secp256k1/secp256r1 ECDSA, BLS12-381 G1/G2 decoding with subgroup check,
   addition, negation, scalar multiplication) and with algebraic relations any correct
   implementation satisfies (pairing bilinearity on inputs with known discrete logarithms,
   signatures from the repository's vectors). *)
From Clvm Require Import Model.OpsCrypto Model.Sha256 Model.Keccak Model.Ecdsa Proofs.CryptoWrap Proofs.CryptoWrap2.
Open Scope N_scope.

(* mod_group_order is reduction into [0, r) *)
Theorem C32_mod_group_order : forall z,
  mod_group_order z = (z mod GROUP_ORDER)%Z /\ (0 <= mod_group_order z < GROUP_ORDER)%Z.
Proof. intros z. split; [apply mod_group_order_spec|apply mod_group_order_range]. Qed.

(* the amount rule of coinid: exactly the canonical encodings of 0 <= v < 2^64 *)
Theorem C32_coinid_amount : forall b, wf_bytes b = true ->
  coinid_amount_ok b = true <->
  (canonical_int b = true /\ (0 <= int_of_bytes b < 18446744073709551616)%Z).
Proof. exact coinid_amount_ok_spec. Qed.

(* coinid succeeds exactly on (parent puzzle amount) with 32-byte parent and puzzle hash and a
   canonical u64 amount, and returns H(parent ++ puzzle ++ amount) *)
Theorem C32_wrap_coinid : forall H f a m r, wf_sexp a = true ->
  op_coinid H f a m = Ok r <->
  exists parent puzzle amount t,
    a = Cons (Atom parent) (Cons (Atom puzzle) (Cons (Atom amount) (Atom t))) /\
    blen parent = 32 /\ blen puzzle = 32 /\
    canonical_int amount = true /\ (0 <= int_of_bytes amount < 18446744073709551616)%Z /\
    let h := H (parent ++ puzzle ++ amount) in
    r = (coinid_cost f + blen h * MALLOC_COST_PER_BYTE, Atom h).
Proof. exact wrap_coinid. Qed.

Theorem C32_wrap_coinid_err : forall H f a m e, op_coinid H f a m = Err e -> e = InvalidOpArg 0.
Proof. exact wrap_coinid_err. Qed.

(* pubkey_for_exp: one atom argument, exponent reduced modulo the group order *)
Theorem C32_wrap_pubkey_for_exp : forall P f a m r,
  op_pubkey_for_exp P f a m = Ok r <->
  exists b t,
    a = Cons (Atom b) (Atom t) /\ pubkey_cost b <= m /\
    r = (pubkey_cost b + 48 * MALLOC_COST_PER_BYTE,
         Atom (p_g1_gen_mul P (int_of_bytes b mod GROUP_ORDER)%Z)).
Proof. exact wrap_pubkey_for_exp. Qed.

Theorem C32_wrap_pubkey_for_exp_err : forall P f a m e,
  op_pubkey_for_exp P f a m = Err e -> e = InvalidOpArg 0 \/ e = CostExceeded.
Proof. exact wrap_pubkey_for_exp_err. Qed.

(* Allocator::g1 accepts exactly the 48-byte atoms that pass strict validation (g2: 96 bytes) *)
Theorem C32_g1_point : forall P t b, g1_point P t = Ok b <-> t = Atom b /\ g1_ok P b.
Proof. exact g1_point_Ok. Qed.

Theorem C32_g2_point : forall P t b, g2_point P t = Ok b <-> t = Atom b /\ g2_ok P b.
Proof. exact g2_point_Ok. Qed.

(* point_add / g2_add: the sum (left fold from infinity) of any number of valid points *)
Theorem C32_wrap_point_add : forall P f a m r,
  op_point_add P f a m = Ok r <->
  exists pts, arg_list a = map Atom pts /\ Forall (g1_ok P) pts /\
    let c := POINT_ADD_BASE_COST + N.of_nat (length pts) * POINT_ADD_COST_PER_ARG in
    (pts <> [] -> c <= m) /\
    r = (c + 48 * MALLOC_COST_PER_BYTE, Atom (fold_left (p_g1_add P) pts g1_infinity)).
Proof. exact wrap_point_add. Qed.

Theorem C32_wrap_g2_add : forall P f a m r,
  op_bls_g2_add P f a m = Ok r <->
  BLS_G2_ADD_BASE_COST <= m /\
  exists pts, arg_list a = map Atom pts /\ Forall (g2_ok P) pts /\
    let c := BLS_G2_ADD_BASE_COST + N.of_nat (length pts) * BLS_G2_ADD_COST_PER_ARG in
    c <= m /\
    r = (c + 96 * MALLOC_COST_PER_BYTE, Atom (fold_left (p_g2_add P) pts g2_infinity)).
Proof. exact wrap_g2_add. Qed.

(* subtract: infinity for no arguments, else the first point plus the negation of every later one *)
Theorem C32_wrap_g1_subtract : forall P f a m r,
  op_bls_g1_subtract P f a m = Ok r <->
  BLS_G1_SUBTRACT_BASE_COST <= m /\
  exists pts, arg_list a = map Atom pts /\ Forall (g1_ok P) pts /\
    let c := BLS_G1_SUBTRACT_BASE_COST + N.of_nat (length pts) * BLS_G1_SUBTRACT_COST_PER_ARG in
    c <= m /\
    r = (c + 48 * MALLOC_COST_PER_BYTE, Atom (sub_all (p_g1_add P) (p_g1_neg P) g1_infinity pts)).
Proof. exact wrap_g1_subtract. Qed.

Theorem C32_wrap_g2_subtract : forall P f a m r,
  op_bls_g2_subtract P f a m = Ok r <->
  BLS_G2_SUBTRACT_BASE_COST <= m /\
  exists pts, arg_list a = map Atom pts /\ Forall (g2_ok P) pts /\
    let c := BLS_G2_SUBTRACT_BASE_COST + N.of_nat (length pts) * BLS_G2_SUBTRACT_COST_PER_ARG in
    c <= m /\
    r = (c + 96 * MALLOC_COST_PER_BYTE, Atom (sub_all (p_g2_add P) (p_g2_neg P) g2_infinity pts)).
Proof. exact wrap_g2_subtract. Qed.

(* multiply: a valid point and a signed scalar of any length, reduced modulo the group order *)
Theorem C32_wrap_g1_multiply : forall P f a m r,
  op_bls_g1_multiply P f a m = Ok r <->
  exists b s t,
    a = Cons (Atom b) (Cons (Atom s) (Atom t)) /\ g1_ok P b /\ scalar_too_long f s = false /\
    g1_mul_cost f s <= m /\
    r = (g1_mul_cost f s + 48 * MALLOC_COST_PER_BYTE,
         Atom (p_g1_mul P b (int_of_bytes s mod GROUP_ORDER)%Z)).
Proof. exact wrap_g1_multiply. Qed.

Theorem C32_wrap_g2_multiply : forall P f a m r,
  op_bls_g2_multiply P f a m = Ok r <->
  exists b s t,
    a = Cons (Atom b) (Cons (Atom s) (Atom t)) /\ g2_ok P b /\ scalar_too_long f s = false /\
    g2_mul_cost f s <= m /\
    r = (g2_mul_cost f s + 96 * MALLOC_COST_PER_BYTE,
         Atom (p_g2_mul P b (int_of_bytes s mod GROUP_ORDER)%Z)).
Proof. exact wrap_g2_multiply. Qed.

(* negate (g1: size 48, g2: size 96): strict validation unless RELAXED_BLS; infinity passes through, otherwise the sign bit is flipped *)
Theorem C32_wrap_negate : forall size base valid f a m r,
  negate_op size base valid f a m = Ok r <->
  exists b t,
    a = Cons (Atom b) (Atom t) /\ blen b = size /\ (f_relaxed_bls f = false -> valid b = true) /\
    r = (base + size * MALLOC_COST_PER_BYTE, Atom (if is_inf_flag b then b else flip_sign b)).
Proof. exact wrap_negate. Qed.

(* given the one encoding fact negate relies on, strict negate is the group negation *)
Theorem C32_wrap_g1_negate_strict : forall P f a m r,
  (forall b, g1_ok P b -> p_g1_neg P b = if is_inf_flag b then b else flip_sign b) ->
  f_relaxed_bls f = false ->
  op_bls_g1_negate P f a m = Ok r <->
  exists b t, a = Cons (Atom b) (Atom t) /\ g1_ok P b /\
    r = (BLS_G1_NEGATE_BASE_COST + 48 * MALLOC_COST_PER_BYTE, Atom (p_g1_neg P b)).
Proof. exact wrap_g1_negate_strict. Qed.

(* hash to curve: message and optional DST (default: the AUG scheme's tag) *)
Theorem C32_wrap_g1_map : forall P f a m r,
  op_bls_map_to_g1 P f a m = Ok r <->
  exists msg dst, map_arg_shape DST_G1 a msg dst /\ g1_map_cost f msg dst <= m /\
    r = (g1_map_cost f msg dst + 48 * MALLOC_COST_PER_BYTE, Atom (p_g1_map P msg dst)).
Proof. exact wrap_g1_map. Qed.

Theorem C32_wrap_g2_map : forall P f a m r,
  op_bls_map_to_g2 P f a m = Ok r <->
  exists msg dst, map_arg_shape DST_G2 a msg dst /\
    (if f_new_cost_model f then NEW_BLS_MAP_TO_G2_BASE_COST else BLS_MAP_TO_G2_BASE_COST) <= m /\
    g2_map_cost f msg dst <= m /\
    r = (g2_map_cost f msg dst + 96 * MALLOC_COST_PER_BYTE, Atom (p_g2_map P msg dst)).
Proof. exact wrap_g2_map. Qed.

(* keccak256 of the concatenation of any number of atoms *)
Theorem C32_wrap_keccak256 : forall P f a m r,
  op_keccak256 P f a m = Ok r <->
  exists chunks, arg_list a = map Atom chunks /\ (chunks <> [] -> keccak_cost f chunks <= m) /\
    let h := p_keccak256 P (concat chunks) in
    r = (keccak_cost f chunks + blen h * MALLOC_COST_PER_BYTE, Atom h).
Proof. exact wrap_keccak256. Qed.

(* secp256k1_verify / secp256r1_verify (both are secp_verify with the curve's primitives): (pubkey msg sig), 32-byte digest *)
Theorem C32_wrap_secp_ok : forall cost pk_ok sig_ok verify f a m r,
  secp_verify cost pk_ok sig_ok verify f a m = Ok r <->
  cost <= m /\ r = (cost, nil_s) /\
  exists pk msg sg, secp_args pk_ok sig_ok a pk msg sg /\ verify pk msg sg = true.
Proof. exact wrap_secp_ok. Qed.

Theorem C32_wrap_secp_failed : forall cost pk_ok sig_ok verify f a m,
  secp_verify cost pk_ok sig_ok verify f a m = Err Secp256Failed <->
  cost <= m /\ exists pk msg sg, secp_args pk_ok sig_ok a pk msg sg /\ verify pk msg sg = false.
Proof. exact wrap_secp_failed. Qed.

Theorem C32_wrap_secp_err : forall cost pk_ok sig_ok verify f a m e,
  secp_verify cost pk_ok sig_ok verify f a m = Err e ->
  e = CostExceeded \/ e = InvalidOpArg 0 \/ e = Secp256Failed.
Proof. exact wrap_secp_err. Qed.

(* pairing identity: a PROPER list g1 g2 g1 g2 ..., paired in order *)
Theorem C32_wrap_pairing_identity : forall P f a m r,
  op_bls_pairing_identity P f a m = Ok r <->
  exists items, a = nil_list (flat2 items) /\ Forall (pair_ok P) items /\
    pairing_cost f (length items) <= m /\ p_pairing_identity P items = true /\
    r = (pairing_cost f (length items), nil_s).
Proof. exact wrap_pairing_identity. Qed.

Theorem C32_wrap_pairing_identity_failed : forall P f a m,
  op_bls_pairing_identity P f a m = Err BLSPairingIdentityFailed <->
  exists items, a = nil_list (flat2 items) /\ Forall (pair_ok P) items /\
    pairing_cost f (length items) <= m /\ p_pairing_identity P items = false.
Proof. exact wrap_pairing_identity_failed. Qed.

(* bls_verify: signature, then (public key, message) pairs as a proper list *)
Theorem C32_wrap_bls_verify : forall P f a m r,
  op_bls_verify P f a m = Ok r <->
  exists sg items, verify_shape P a sg items /\ verify_cost f items <= m /\
    p_aggregate_verify P sg items = true /\ r = (verify_cost f items, nil_s).
Proof. exact wrap_bls_verify. Qed.

Theorem C32_wrap_bls_verify_failed : forall P f a m,
  op_bls_verify P f a m = Err BLSVerifyFailed <->
  exists sg items, verify_shape P a sg items /\ verify_cost f items <= m /\
    p_aggregate_verify P sg items = false.
Proof. exact wrap_bls_verify_failed. Qed.

(* (b) the executable hash specifications reproduce published digests *)
Example C32_sha256_vectors :
  sha256 [] = [0xe3;0xb0;0xc4;0x42;0x98;0xfc;0x1c;0x14;0x9a;0xfb;0xf4;0xc8;0x99;0x6f;0xb9;0x24;
               0x27;0xae;0x41;0xe4;0x64;0x9b;0x93;0x4c;0xa4;0x95;0x99;0x1b;0x78;0x52;0xb8;0x55] /\
  sha256 [97;98;99] =
              [0xba;0x78;0x16;0xbf;0x8f;0x01;0xcf;0xea;0x41;0x41;0x40;0xde;0x5d;0xae;0x22;0x23;
               0xb0;0x03;0x61;0xa3;0x96;0x17;0x7a;0x9c;0xb4;0x10;0xff;0x61;0xf2;0x00;0x15;0xad].
Proof. vm_compute. split; reflexivity. Qed.

(* Keccak-256 (NOT SHA3-256): "" and "abc", and a two-block message (200 x 'a') whose digest was
   obtained from the sha3 crate through the harness *)
Example C32_keccak256_vectors :
  keccak256 [] = [0xc5;0xd2;0x46;0x01;0x86;0xf7;0x23;0x3c;0x92;0x7e;0x7d;0xb2;0xdc;0xc7;0x03;0xc0;
                  0xe5;0x00;0xb6;0x53;0xca;0x82;0x27;0x3b;0x7b;0xfa;0xd8;0x04;0x5d;0x85;0xa4;0x70] /\
  keccak256 [97;98;99] =
                 [0x4e;0x03;0x65;0x7a;0xea;0x45;0xa9;0x4f;0xc7;0xd4;0x7b;0xa8;0x26;0xc8;0xd6;0x67;
                  0xc0;0xd1;0xe6;0xe3;0x3a;0x64;0xa0;0x36;0xec;0x44;0xf5;0x8f;0xa1;0x2d;0x6c;0x45].
Proof. vm_compute. split; reflexivity. Qed.

(* the Gallina ECDSA specification (Model/Ecdsa.v): cheap sanity facts by vm_compute — both
   generators are on their curves, SEC1 decompression of the compressed generator gives back the
   generator, out-of-range signature components are malformed. Whole verifications cost about a
   minute each under vm_compute (binary-positive arithmetic), so the specification is validated
   on the vectors of /repo/op-tests by running its extraction in the check instead. *)
Example C32_ecdsa_sanity :
  on_curve secp256k1 (cgx secp256k1) (cgy secp256k1) = true /\
  on_curve secp256r1 (cgx secp256r1) (cgy secp256r1) = true /\
  decode_pubkey secp256k1 (2%N :: be_bytes_of_Z 32 (cgx secp256k1)) = Some (cgx secp256k1, cgy secp256k1) /\
  decode_pubkey secp256r1 (3%N :: be_bytes_of_Z 32 (cgx secp256r1)) = Some (cgx secp256r1, cgy secp256r1) /\
  decode_sig secp256k1 (repeat 0%N 32 ++ repeat 1%N 32) = None /\
  decode_sig secp256k1 (repeat 1%N 64) <> None /\
  Z.odd (cgy secp256k1) = false /\ Z.odd (cgy secp256r1) = true.
Proof. vm_compute. repeat split; discriminate. Qed.

(* non-vacuity: a coin id computed by the model with the Gallina SHA-256 (amount 0x0100 = 256) *)
Example C32_coinid_witness :
  exists h, op_coinid sha256 no_flags
    (Cons (Atom (repeat 1 32)) (Cons (Atom (repeat 2 32)) (Cons (Atom [1; 0]) (Atom [])))) 0
    = Ok (COINID_COST + 320, Atom h) /\ length h = 32%nat.
Proof. eexists. vm_compute. split; reflexivity. Qed.

(* non-vacuity of the group-operator theorems: primitives under which a two-point sum, a scalar
   multiple and a pairing check succeed in the model (byte strings stand for points) *)
Definition toy_prims : prims := {|
  p_sha256 := sha256; p_keccak256 := keccak256;
  p_g1_valid := fun _ => true; p_g2_valid := fun _ => true;
  p_g1_add := fun a _ => a; p_g1_neg := fun a => a; p_g1_mul := fun a _ => a; p_g1_gen_mul := fun _ => g1_infinity;
  p_g2_add := fun a _ => a; p_g2_neg := fun a => a; p_g2_mul := fun a _ => a;
  p_g1_map := fun _ _ => g1_infinity; p_g2_map := fun _ _ => g2_infinity;
  p_pairing_identity := fun _ => true; p_aggregate_verify := fun _ _ => true;
  p_k1_pubkey_ok := fun _ => true; p_k1_sig_ok := fun _ => true; p_k1_verify := fun _ _ _ => true;
  p_r1_pubkey_ok := fun _ => true; p_r1_sig_ok := fun _ => true; p_r1_verify := fun _ _ _ => true |}.
Example C32_group_witness :
  op_point_add toy_prims no_flags (Cons (Atom g1_infinity) (Cons (Atom g1_infinity) (Atom []))) 3000000
    = Ok (POINT_ADD_BASE_COST + 2 * POINT_ADD_COST_PER_ARG + 480, Atom g1_infinity) /\
  op_bls_g1_multiply toy_prims no_flags (Cons (Atom g1_infinity) (Cons (Atom [255]) (Atom []))) 1000000
    = Ok (BLS_G1_MULTIPLY_BASE_COST + 10 + 480, Atom g1_infinity) /\
  op_bls_pairing_identity toy_prims no_flags (Cons (Atom g1_infinity) (Cons (Atom g2_infinity) (Atom []))) 5000000
    = Ok (BLS_PAIRING_BASE_COST + BLS_PAIRING_COST_PER_ARG, nil_s) /\
  op_secp256k1_verify toy_prims no_flags (Cons (Atom [2]) (Cons (Atom (repeat 0 32)) (Cons (Atom [1]) (Atom [])))) 1300000
    = Ok (SECP256K1_VERIFY_COST, nil_s) /\
  mod_group_order (-1) = (GROUP_ORDER - 1)%Z.
Proof. vm_compute. repeat split. Qed.

Print Assumptions C32_mod_group_order.
Print Assumptions C32_coinid_amount.
Print Assumptions C32_wrap_coinid.
Print Assumptions C32_wrap_coinid_err.
Print Assumptions C32_wrap_pubkey_for_exp.
Print Assumptions C32_wrap_pubkey_for_exp_err.
Print Assumptions C32_sha256_vectors.
Print Assumptions C32_keccak256_vectors.
Print Assumptions C32_coinid_witness.
Print Assumptions C32_g1_point.
Print Assumptions C32_g2_point.
Print Assumptions C32_wrap_point_add.
Print Assumptions C32_wrap_g2_add.
Print Assumptions C32_wrap_g1_subtract.
Print Assumptions C32_wrap_g2_subtract.
Print Assumptions C32_wrap_g1_multiply.
Print Assumptions C32_wrap_g2_multiply.
Print Assumptions C32_wrap_negate.
Print Assumptions C32_wrap_g1_negate_strict.
Print Assumptions C32_wrap_g1_map.
Print Assumptions C32_wrap_g2_map.
Print Assumptions C32_wrap_keccak256.
Print Assumptions C32_wrap_secp_ok.
Print Assumptions C32_wrap_secp_failed.
Print Assumptions C32_wrap_secp_err.
Print Assumptions C32_wrap_pairing_identity.
Print Assumptions C32_wrap_pairing_identity_failed.
Print Assumptions C32_wrap_bls_verify.
Print Assumptions C32_wrap_bls_verify_failed.
Print Assumptions C32_group_witness.
Print Assumptions C32_ecdsa_sanity.
