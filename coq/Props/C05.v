(* C05 — fast paths and diagnostic build features are unobservable.
   Only statements here; every proof is `exact <lemma>`.

   Full statement: building the library with the no-fastpath feature (generic bignum code only),
   or with the counters or pre-eval features (with an observe-only callback), does not change any
   run's result, cost, error or allocator counts, nor any operator's result and cost for any
   argument list.

   What is proved here (level "other": lemmas about two of the four anchored mechanisms):

   C05_path / C05_path_zero / C05_path_small
       the inline small-integer path lookup (traverse_path_fast, src/traverse_path.rs:79, used
       by run_program.rs:307-320 for atoms the allocator stores inline) equals the generic
       byte-string lookup on the canonical encoding of the same number: node, cost and error,
       for every index below 2^32 (inline atoms are below 2^26) and every environment. The
       cost includes the leading zero byte a canonical positive integer carries at 7, 15, 23,
       31 path bits; dropping one of these cases from the fast path falsifies C05_path.
   C05_table / C05_table_len
       the precomputed sha256(1 || n) table of src/more_ops.rs:599 (PRECOMPUTED_HASHES, re-read
       from the source by translator/gen_tables.py on every run, used by op_sha256's fast path
       :666 and by treehash.rs) has 37 entries and entry i is the Gallina SHA-256 of
       (1 :: canonical bytes of i): finite, complete, by computation (Proofs/TableProofs.v,
       shared with C22).

   NOT theorems (documentation): the arithmetic operators of Model/OpsArith.v are defined once,
   on unbounded integers (Z) - that single definition is what both the u64/i64 fast paths with
   their checked_add/checked_sub fall-backs and the generic bignum paths of more_ops.rs
   :665,710,819,980,1265 must compute; the model has no second, "fast" definition to compare it
   with, so there is nothing to prove inside Coq. Likewise the model has no pre-eval /
   counters instrumentation. Both are decided on the implementation: the harness is built three
   times (default, no-fastpath, counters+pre-eval) and every observation is compared across the
   binaries and with the model (lib/props/c05.py). *)
From Clvm Require Import Model.Path Model.IntEnc Model.OpUtils Model.Sha256 Gen.Tables
  Proofs.PathFast Proofs.TableProofs Proofs.C05Table.
Open Scope N_scope.

Theorem C05_path : forall v env, 0 < v < 2 ^ 32 ->
  traverse_path_fast v env = traverse_path (bytes_of_int (Z.of_N v)) env.
Proof. exact path_fast_eq. Qed.

Theorem C05_path_zero : forall env, traverse_path_fast 0 env = traverse_path [] env.
Proof. exact path_fast_zero. Qed.

Theorem C05_path_small : forall b v env, wf_bytes b = true -> small_number (Atom b) = Some v ->
  traverse_path_fast v env = traverse_path b env.
Proof. exact path_fast_small. Qed.

Theorem C05_table : forall i h, nth_error src_precomputed_hashes i = Some h ->
  h = sha256 (1 :: bytes_of_int (Z.of_N (N.of_nat i))).
Proof. exact precomputed_nth. Qed.

Theorem C05_table_len : length src_precomputed_hashes = 37%nat.
Proof. exact table_length. Qed.

(* the boundary cases the cost rule is about: 0x80 (7 bits), 0x8000 (15), 0x800000 (23) carry
   the zero byte, their neighbours do not; a path into an atom fails in both *)
Example C05_witness :
  let env := Cons (Atom [3]) (Cons (Atom [2]) (Atom [1])) in
  traverse_path_fast 5 env = Ok (52, Atom [2]) /\ traverse_path [5] env = Ok (52, Atom [2]) /\
  traverse_path_fast 7 env = Ok (52, Atom [1]) /\
  traverse_path_fast 8 env = Err PathIntoAtom /\ traverse_path [8] env = Err PathIntoAtom /\
  bytes_of_int 128 = [0; 128] /\ bytes_of_int 32768 = [0; 128; 0] /\ bytes_of_int 127 = [127] /\
  (let deep := (fix d (n : nat) := match n with O => Atom [] | S k => Cons (d k) (Atom [9]) end) 24%nat in
   traverse_path_fast 128 deep = traverse_path [0; 128] deep /\
   res_map fst (traverse_path_fast 128 deep) = Ok 76 /\ res_map fst (traverse_path_fast 64 deep) = Ok 68 /\
   res_map fst (traverse_path_fast 32768 deep) = Ok 108 /\ res_map fst (traverse_path_fast 8388608 deep) = Ok 140).
Proof. vm_compute. repeat split. Qed.

Print Assumptions C05_path.
Print Assumptions C05_path_zero.
Print Assumptions C05_path_small.
Print Assumptions C05_table.
Print Assumptions C05_table_len.
Print Assumptions C05_witness.
