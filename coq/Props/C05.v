(* C05 — fast paths and diagnostic build features are unobservable.
   Only statements here; every proof is `exact <lemma>`.

   Full statement: building the library with the no-fastpath feature (generic bignum code only),
   or with the counters or pre-eval features (with an observe-only callback), does not change any
   run's result, cost, error or allocator counts, nor any operator's result and cost for any
   argument list.

   What is proved here (level "other": theorems about three of the four anchored mechanisms, on the model):

   C05_path / C05_path_zero / C05_path_small
       the inline small-integer path lookup (traverse_path_fast, src/traverse_path.rs:79, used
       by run_program.rs:307-320 for atoms the allocator stores inline) equals the generic
       byte-string lookup on the canonical encoding of the same number: node, cost and error,
       for every index below 2^32 (inline atoms are below 2^26) and every environment. The
       cost includes the leading zero byte a canonical positive integer carries at 7, 15, 23,
       31 path bits; dropping one of these cases from the fast path falsifies C05_path.
   C05_table / C05_table_len
       the precomputed sha256(1 || n) table of src/more_ops.rs:599 (PRECOMPUTED_HASHES, re-read
       from the source by translator/gen_tables.py on every run, used by op_sha256's fast path
       :666 and by treehash.rs) has 37 entries and entry i is the Gallina SHA-256 of
       (1 :: canonical bytes of i): finite, complete, by computation (Proofs/TableProofs.v,
       shared with C22).

   C05_gr_fast / C05_sha256_fast / C05_multiply_fast / C05_add_fast / C05_subtract_fast
   C05_gr_nofast / C05_sha256_nofast / C05_multiply_nofast / C05_add_nofast / C05_subtract_nofast
       the five operator bodies of src/more_ops.rs that contain a
       `#[cfg(not(feature = "no-fastpath"))]` region (:665 op_sha256, :710 op_add, :819
       op_subtract, :980 op_multiply, :1265 op_gr) are transcribed twice in Model/OpsFast.v - as
       the default build compiles them (fast path present) and as the no-fastpath build does -
       over argument lists in which every operand carries its allocator REPRESENTATION
       (RSmall v: inline atom, v < 2^26; RBuf b: heap atom holding ANY bytes, small canonical
       integers included; RPair), with the machine integers of the fast paths written out (u64
       total with checked_add, i64 total with checked_sub, `impl Limbs for u64/i64`,
       new_u64/new_i64, len_for_value, the index into PRECOMPUTED_HASHES, num_bytes = 2 if n > 0
       else 1, a CostExceeded inside the closure is returned, a non-inline operand or an
       overflow restarts the generic loop from the saved input with the base cost). Each of the
       ten transcriptions equals the one tree-store operator of Model/OpsArith.v / OpsStr.v on
       the denoted argument list (RSmall v -> the canonical bytes of v): the same cost and atom
       or the same error, for EVERY flag set, budget, argument list and terminator. Hence the
       two builds agree with each other on every operator call, whatever mixture of inline and
       heap atoms the arguments are.
   C05_new_u64 / C05_new_i64
       the result node: Allocator::new_u64 / new_i64 (fast paths) and Allocator::new_number
       (generic path) leave the allocator model of Model/Alloc.v in the same state and return
       the same node (same counters, same inline/heap choice, same errors).

   NOT theorems: (1) that Model/OpsFast.v is what rustc compiles from more_ops.rs under either
   feature set - tied by the correspondence run (family `fastops`: the real operator functions
   of the default and the no-fastpath harness binaries, called on arguments built inline or on
   the heap, against both transcriptions) and by the translator re-reading the table and the
   literal of op_sha256's NIL return; (2) u64 cost arithmetic is on unbounded N (as in
   Model/OpsArith.v: it cannot wrap below 2^32-byte atoms and a cost below 2^63);
   (3) whole runs: that the evaluator reaches the operators with the same arguments in both
   builds follows from (1) and the path theorems only informally; (4) the counters / pre-eval
   features: the model has no instrumentation. (3) and (4) are decided on the implementation:
   the harness is built three times (default, no-fastpath, counters+pre-eval) and every
   observation is compared across the binaries and with the model (lib/props/c05.py). *)
From Clvm Require Import Model.Path Model.IntEnc Model.OpUtils Model.Sha256 Model.OpsFast Gen.Tables
  Proofs.PathFast Proofs.TableProofs Proofs.C05Table Proofs.OpsFastProofs.
From Clvm Require Model.Alloc.
Open Scope N_scope.

Theorem C05_path : forall v env, 0 < v < 2 ^ 32 ->
  traverse_path_fast v env = traverse_path (bytes_of_int (Z.of_N v)) env.
Proof. exact path_fast_eq. Qed.

Theorem C05_path_zero : forall env, traverse_path_fast 0 env = traverse_path [] env.
Proof. exact path_fast_zero. Qed.

Theorem C05_path_small : forall b v env, wf_bytes b = true -> small_number (Atom b) = Some v ->
  traverse_path_fast v env = traverse_path b env.
Proof. exact path_fast_small. Qed.

Theorem C05_table : forall i h, nth_error src_precomputed_hashes i = Some h ->
  h = sha256 (1 :: bytes_of_int (Z.of_N (N.of_nat i))).
Proof. exact precomputed_nth. Qed.

Theorem C05_table_len : length src_precomputed_hashes = 37%nat.
Proof. exact table_length. Qed.

(* ---- operator fast paths (Model/OpsFast.v) ---- *)
Theorem C05_gr_fast : forall f i m, rinput_ok i = true ->
  op_gr_fast f i m = op_gr f (denote_input i) m.
Proof. exact op_gr_fast_eq. Qed.
Theorem C05_gr_nofast : forall f i m, rinput_ok i = true ->
  op_gr_nofast f i m = op_gr f (denote_input i) m.
Proof. exact op_gr_nofast_eq. Qed.

Theorem C05_sha256_fast : forall f i m, rinput_ok i = true ->
  op_sha256_fast sha256 f i m = op_sha256 sha256 f (denote_input i) m.
Proof. exact op_sha256_fast_eq. Qed.
Theorem C05_sha256_nofast : forall f i m,
  op_sha256_nofast sha256 f i m = op_sha256 sha256 f (denote_input i) m.
Proof. exact op_sha256_nofast_eq. Qed.

Theorem C05_multiply_fast : forall f i m, rinput_ok i = true ->
  op_multiply_fast f i m = op_multiply f (denote_input i) m.
Proof. exact op_multiply_fast_eq. Qed.
Theorem C05_multiply_nofast : forall f i m, rinput_ok i = true ->
  op_multiply_nofast f i m = op_multiply f (denote_input i) m.
Proof. exact op_multiply_nofast_eq. Qed.

Theorem C05_add_fast : forall f i m, rinput_ok i = true ->
  op_add_fast f i m = op_add f (denote_input i) m.
Proof. exact op_add_fast_eq. Qed.
Theorem C05_add_nofast : forall f i m, rinput_ok i = true ->
  op_add_nofast f i m = op_add f (denote_input i) m.
Proof. exact op_add_nofast_eq. Qed.

Theorem C05_subtract_fast : forall f i m, rinput_ok i = true ->
  op_subtract_fast f i m = op_subtract f (denote_input i) m.
Proof. exact op_subtract_fast_eq. Qed.
Theorem C05_subtract_nofast : forall f i m, rinput_ok i = true ->
  op_subtract_nofast f i m = op_subtract f (denote_input i) m.
Proof. exact op_subtract_nofast_eq. Qed.

Theorem C05_new_u64 : forall a v, Alloc.u8_len a <= Alloc.U32_MAX -> v < 2 ^ 64 ->
  Alloc.new_u64 a v = Alloc.new_number a (Z.of_N v).
Proof. exact new_u64_is_new_number. Qed.
Theorem C05_new_i64 : forall a z, Alloc.u8_len a <= Alloc.U32_MAX -> (- 2 ^ 63 <= z < 2 ^ 63)%Z ->
  Alloc.new_i64 a z = Alloc.new_number a z.
Proof. exact new_i64_is_new_number. Qed.

(* non-vacuity: inputs that satisfy the invariant and take each branch. A heap atom holding a
   small canonical integer (RBuf [5]) takes the fast path of `>` and of sha256 (small_number
   reads the bytes) but forces the fall-back of + and - (NodeVisitor::Buffer); the totals
   2^32 - 1 + ... and 0 - v - ... leave the u32 / non-negative range inside the fast loops; the
   budget check inside the closure returns CostExceeded; (sha256 1 36) is the last table entry,
   (sha256 1 37) the first generic one. *)
Example C05_ops_witness :
  let nf := flags_of_N 0 in let nc := flags_of_N 0x2000 in
  let big := 67108863 in
  let many := repeat (RSmall big) 70 in
  rinput_ok ([RSmall 7; RBuf [5]], TSmall 0) = true /\
  op_gr_fast nf ([RSmall 7; RBuf [5]], TSmall 0) 0 = Ok (502, one_s) /\
  op_gr_fast nc ([RBuf [0; 128]; RSmall 128], TBuf [9]) 0 = Ok (1016, nil_s) /\
  op_gr_fast nf ([RBuf [0; 5]; RSmall 4], TSmall 0) 0 = Ok (504, one_s) /\
  op_gr_fast nf ([RSmall 4; RPair nil_s nil_s], TSmall 0) 0 = Err (InvalidOpArg 0) /\
  op_add_fast nf ([RSmall big; RSmall big], TSmall 0) 1000 = Ok (803, Atom [7; 255; 255; 254]) /\
  op_add_fast nc (many, TSmall 0) 100000 = op_add nc (denote_input (many, TSmall 0)) 100000 /\
  res_map snd (op_add_fast nc (many, TSmall 0) 100000) = Ok (Atom (bytes_of_int (70 * 67108863))) /\
  op_add_fast nf ([RSmall 1; RBuf [255]], TSmall 0) 1000 = Ok (745, Atom []) /\
  op_add_fast nf ([RSmall 1; RSmall 2; RBuf [1; 2; 3; 4; 5; 6; 7; 8; 9]], TSmall 0) 1000 = Err CostExceeded /\
  op_add_fast nf ([RSmall 1; RSmall 2], TSmall 0) 700 = Err CostExceeded /\
  op_subtract_fast nf ([RSmall 1; RSmall big; RSmall big], TSmall 0) 2000 = Ok (1126, Atom [248; 0; 0; 3]) /\
  op_subtract_fast nc ([RSmall 0; RSmall 128; RSmall 1], TBuf []) 3000 = Ok (1631, Atom [255; 127]) /\
  op_subtract_fast nf ([RSmall 1; RPair nil_s nil_s], TSmall 0) 400 = Err CostExceeded /\
  op_multiply_fast nf ([RSmall 256; RBuf [0; 0; 2]; RSmall 3], TSmall 0) 10000 = Ok (1930, Atom [6; 0]) /\
  op_multiply_nofast nf ([RSmall 256; RBuf [0; 0; 2]; RSmall 3], TSmall 0) 10000 = Ok (1930, Atom [6; 0]) /\
  op_sha256_fast sha256 nf ([RBuf [1]; RSmall 36], TSmall 0) 1000 =
    op_sha256 sha256 nf (Cons (Atom [1]) (Cons (Atom [36]) nil_s)) 1000 /\
  res_map fst (op_sha256_fast sha256 nf ([RBuf [1]; RSmall 36], TSmall 0) 1000) = Ok 679 /\
  res_map fst (op_sha256_fast sha256 nf ([RSmall 1; RSmall 0], TSmall 0) 1000) = Ok 677 /\
  res_map fst (op_sha256_fast sha256 nf ([RSmall 1; RSmall 37], TSmall 0) 1000) = Ok 679 /\
  op_sha256_fast sha256 nf ([RSmall 1; RSmall 36], TSmall 0) 358 = Err CostExceeded /\
  op_sha256_fast sha256 nf ([], TSmall 0) 0 = op_sha256 sha256 nf nil_s 0.
Proof. vm_compute. repeat split. Qed.

(* the boundary cases the cost rule is about: 0x80 (7 bits), 0x8000 (15), 0x800000 (23) carry
   the zero byte, their neighbours do not; a path into an atom fails in both *)
Example C05_witness :
  let env := Cons (Atom [3]) (Cons (Atom [2]) (Atom [1])) in
  traverse_path_fast 5 env = Ok (52, Atom [2]) /\ traverse_path [5] env = Ok (52, Atom [2]) /\
  traverse_path_fast 7 env = Ok (52, Atom [1]) /\
  traverse_path_fast 8 env = Err PathIntoAtom /\ traverse_path [8] env = Err PathIntoAtom /\
  bytes_of_int 128 = [0; 128] /\ bytes_of_int 32768 = [0; 128; 0] /\ bytes_of_int 127 = [127] /\
  (let deep := (fix d (n : nat) := match n with O => Atom [] | S k => Cons (d k) (Atom [9]) end) 24%nat in
   traverse_path_fast 128 deep = traverse_path [0; 128] deep /\
   res_map fst (traverse_path_fast 128 deep) = Ok 76 /\ res_map fst (traverse_path_fast 64 deep) = Ok 68 /\
   res_map fst (traverse_path_fast 32768 deep) = Ok 108 /\ res_map fst (traverse_path_fast 8388608 deep) = Ok 140).
Proof. vm_compute. repeat split. Qed.

Print Assumptions C05_path.
Print Assumptions C05_path_zero.
Print Assumptions C05_path_small.
Print Assumptions C05_table.
Print Assumptions C05_table_len.
Print Assumptions C05_witness.
Print Assumptions C05_gr_fast.
Print Assumptions C05_gr_nofast.
Print Assumptions C05_sha256_fast.
Print Assumptions C05_sha256_nofast.
Print Assumptions C05_multiply_fast.
Print Assumptions C05_multiply_nofast.
Print Assumptions C05_add_fast.
Print Assumptions C05_add_nofast.
Print Assumptions C05_subtract_fast.
Print Assumptions C05_subtract_nofast.
Print Assumptions C05_new_u64.
Print Assumptions C05_new_i64.
Print Assumptions C05_ops_witness.
