(* C20 — serde_2026 round-trips, is total, and is recognisable.
   Only statements here; proofs are in Proofs/S2026Proofs.v (totality), S2026Probe.v (probe =
   bytes consumed), S2026Emit.v (instruction stream), S2026Bytes.v (byte layer of the round trip),
   S2026Total.v (serializer totality, composition), S2026Magic.v (back-reference decoders).

   Full statement of the property, in the model's terms (t a tree, L a level, s strict/lenient,
   M = max_atom_len, b a byte string):
     (R)  ser_2026 L t = Ok e  ->  de_2026 Atom Cons s M e = Ok (t, [])        (M >= every atom length)
     (N)  ser_2026 L t = Ok e  ->  probe_2026 s M e = Ok |e|
     (S)  ser_2026 L t returns normally: Ok, or SerializationError exactly when the tree has more
          than MAX_INDEX distinct atoms or distinct pairs (the serializer's one check)
     (T)  de_2026 .. s M b and probe_2026 s M b return Ok or Err SerializationError: no panic site, the
          fuel of the counted loops always suffices; the only allocation whose size is read from the
          input is bounded by M
     (P)  de_2026 .. s M b = Ok (v, rest)  ->  probe_2026 s M b = Ok (|b| - |rest|)
     (C)  the classic and the back-reference decoders reject magic ++ r.
   ALL of it is proved below, for all inputs:
     (R) C20_roundtrip (strict and lenient: s is universally quantified), and the stronger stream form
         C20_roundtrip_stream: de_2026 s M (e ++ rest) = Ok (t, rest) for every trailing input;
     (N) C20_len;   (S) C20_serializer_total;   (R)+(N)+(S) in one statement: C20_serialize_all;
     (T) C20_decoder_total / C20_probe_total / C20_alloc_bounded;   (P) C20_probe_consumed;
     (C) C20_magic_classic, C20_magic_backref (both decoders of Model/BackRef.v: the current
         node_from_stream_backrefs and the legacy node_from_stream_backrefs_old; the pair counters stay
         0), and C20_magic_backref_probe for serialized_length_from_bytes.
   Limits under which (R)/(N)/(S) are stated, and why they are the format's own:
     * every atom is a string of bytes (wf_sexp: each element < 256 — a well-formedness condition of
       the model's byte type, always true of a Rust u8) shorter than 2^55: lengths are written as
       56-bit varints and write_varint panics beyond that range ("Value too large to encode"; the
       serializer does not check it — an atom of 2^55 bytes cannot exist: the allocator's heap is
       limited to u32::MAX bytes). Within that limit the serializer is proved panic-free and its
       emit fuel 3*|pairs|+2 is proved sufficient, so OutOfFuel / Panic never occur (S);
     * at most MAX_INDEX = 2^31-1 distinct atoms and distinct pairs: that is the check the
       serializer performs (SerializationError otherwise) and (S) shows it is the only failure;
       group counts, atom indices, pair back-references and the instruction count (<= 3*|pairs|+1)
       then all lie inside the varint range;
     * (R): max_atom_len M >= every atom length (the decoder rejects longer atoms by design);
     * (N), (P): |blob| < 2^64 (a Rust slice length is a usize).
   C20_instructions_roundtrip_partial / C20_instr_step_is_exec / C20_len_from_roundtrip are the
   intermediate results of the earlier rounds, kept (they are used by the proofs).
   The decoder theorems (T), (P) hold for every value algebra (V, mk_atom, mk_pair); (R) is
   stated for V = sexp. *)
From Clvm Require Import Model.S2026 Model.Classic Model.BackRef Proofs.S2026Proofs Proofs.S2026Probe Proofs.S2026Emit
  Proofs.S2026Bytes Proofs.S2026Total Proofs.S2026Magic.
From Coq Require Import Lia.
Open Scope Z_scope.

(* (T) the decoder: on every byte string and for every max_atom_len, strict or lenient, the outcome
   is Ok (and then at least one byte was consumed) or SerializationError — in particular never
   [Panic _] (the stack.pop().unwrap() sites, stack[0], varint_size) and never [OutOfFuel] *)
Theorem C20_decoder_total : forall (V : Type) (mk_atom : bytes -> V) (mk_pair : V -> V -> V)
    (strict : bool) (max_atom_len : Z) (blob : bytes), wf_bytes blob = true ->
  match de_2026 mk_atom mk_pair strict max_atom_len blob with
  | Ok (_, rest) => (length rest < length blob)%nat
  | Err e => e = SerializationError
  end.
Proof. intros V mk_atom mk_pair strict m blob. exact (de_2026_total mk_atom mk_pair strict m blob). Qed.

(* (T) the probe: Ok n with 6 <= n <= |buf|, or SerializationError *)
Theorem C20_probe_total : forall strict max_atom_len buf, wf_bytes buf = true ->
  match probe_2026 strict max_atom_len buf with
  | Ok n => 6 <= n <= Z.of_nat (length buf)
  | Err e => e = SerializationError
  end.
Proof. exact probe_2026_total. Qed.

(* (T) the argument of buf.resize(len, 0) — the only allocation sized by the input — is between 1
   and max_atom_len, and a group header is at least one byte *)
Theorem C20_alloc_bounded : forall strict max_atom_len bs len count r, wf_bytes bs = true ->
  read_group_header strict max_atom_len bs = Ok (len, count, r) ->
  wf_bytes r = true /\ (length r < length bs)%nat /\ 1 <= len <= max_atom_len /\ 1 <= count.
Proof. exact read_group_header_ok. Qed.

(* (P) whenever decoding succeeds the probe returns the number of bytes the decoder consumed *)
Theorem C20_probe_consumed : forall (V : Type) (mk_atom : bytes -> V) (mk_pair : V -> V -> V)
    strict max_atom_len blob v rest,
  wf_bytes blob = true -> Z.of_nat (length blob) < 2 ^ 64 ->
  de_2026 mk_atom mk_pair strict max_atom_len blob = Ok (v, rest) ->
  probe_2026 strict max_atom_len blob = Ok (Z.of_nat (length blob) - Z.of_nat (length rest)).
Proof.
  intros V mk_atom mk_pair strict m blob v rest. exact (probe_consumed mk_atom mk_pair strict m blob v rest).
Qed.

(* (C) *)
Theorem C20_magic_classic : forall r, node_from_stream (magic ++ r) = Err SerializationError.
Proof. exact classic_rejects_magic. Qed.

(* (C) both back-reference decoders: outcome = (pair count afterwards, result) *)
Theorem C20_magic_backref : forall r,
  node_from_stream_backrefs (magic ++ r) = (0%N, Err SerializationError) /\
  node_from_stream_backrefs_old (magic ++ r) = (0%N, Err SerializationError).
Proof. intros r. exact (conj (backrefs_reject_magic r) (backrefs_old_reject_magic r)). Qed.

(* ... and the back-reference length probe and the back-reference grammar itself *)
Theorem C20_magic_backref_probe : forall r,
  serialized_length_from_bytes (magic ++ r) = Err SerializationError /\
  de_br_spec (magic ++ r) = Err SerializationError.
Proof. intros r. exact (conj (br_probe_rejects_magic r) (br_spec_rejects_magic r)). Qed.

(* (R) the round trip, strict and lenient *)
Theorem C20_roundtrip : forall (level : N) (t : sexp) (e : bytes) (strict : bool) (max_atom_len : Z),
  wf_sexp t = true -> (forall a, In a (atoms_of t) -> Z.of_nat (length a) <= max_atom_len) ->
  ser_2026 level t = Ok e ->
  de_2026 Atom Cons strict max_atom_len e = Ok (t, []).
Proof. exact ser_de_roundtrip_exact. Qed.

(* (R) as a stream: whatever follows the blob is left unread; the blob is a byte string *)
Theorem C20_roundtrip_stream : forall (level : N) (t : sexp) (e : bytes) (strict : bool) (max_atom_len : Z) (rest : bytes),
  wf_sexp t = true -> wf_bytes rest = true ->
  (forall a, In a (atoms_of t) -> Z.of_nat (length a) <= max_atom_len) ->
  ser_2026 level t = Ok e ->
  wf_bytes e = true /\ de_2026 Atom Cons strict max_atom_len (e ++ rest) = Ok (t, rest).
Proof. exact ser_de_roundtrip. Qed.

(* (N) the length probe on serializer output *)
Theorem C20_len : forall (level : N) (t : sexp) (e : bytes) (strict : bool) (max_atom_len : Z),
  wf_sexp t = true -> (forall a, In a (atoms_of t) -> Z.of_nat (length a) <= max_atom_len) ->
  ser_2026 level t = Ok e -> Z.of_nat (length e) < 2 ^ 64 ->
  probe_2026 strict max_atom_len e = Ok (Z.of_nat (length e)).
Proof. exact ser_probe_len. Qed.

(* (S) the serializer returns normally on every tree whose atoms fit the varint range: never a
   panic site, never OutOfFuel; it fails exactly on its MAX_INDEX check *)
Theorem C20_serializer_total : forall (level : N) (t : sexp),
  wf_sexp t = true -> (forall a, In a (atoms_of t) -> Z.of_nat (length a) < 2 ^ 55) ->
  match ser_2026 level t with
  | Ok _ => Z.of_nat (length (it_atoms (intern_tree t))) <= max_index /\
            Z.of_nat (length (it_pairs (intern_tree t))) <= max_index
  | Err e => e = SerializationError /\
             (max_index < Z.of_nat (length (it_atoms (intern_tree t))) \/
              max_index < Z.of_nat (length (it_pairs (intern_tree t))))
  end.
Proof. intros level t Hwf Hlen. exact (ser_2026_total level t (conj Hwf Hlen)). Qed.

(* (R) + (N) + (S) in one statement, for every tree, level and max_atom_len *)
Theorem C20_serialize_all : forall (level : N) (t : sexp) (max_atom_len : Z),
  wf_sexp t = true -> (forall a, In a (atoms_of t) -> Z.of_nat (length a) < 2 ^ 55) ->
  (forall a, In a (atoms_of t) -> Z.of_nat (length a) <= max_atom_len) ->
  match ser_2026 level t with
  | Ok e => wf_bytes e = true /\
            (forall strict, de_2026 Atom Cons strict max_atom_len e = Ok (t, [])) /\
            (Z.of_nat (length e) < 2 ^ 64 ->
             forall strict, probe_2026 strict max_atom_len e = Ok (Z.of_nat (length e)))
  | Err er => er = SerializationError /\
              (max_index < Z.of_nat (length (it_atoms (intern_tree t))) \/
               max_index < Z.of_nat (length (it_pairs (intern_tree t))))
  end.
Proof. intros level t m Hwf Hlen Hm. exact (ser_2026_all level t m (conj Hwf Hlen) Hm). Qed.

(* intermediate result for (R): instructions emitted for the interned tree of t rebuild t *)
Theorem C20_instructions_roundtrip_partial : forall t table instrs,
  lookup_atoms (it_atoms (intern_tree t)) (sorted_no_nil (intern_tree t)) = Ok table ->
  emit_instructions (intern_tree t) (sorted_no_nil (intern_tree t)) = Ok instrs ->
  exists dp, exec_all (map Atom table) instrs ([], []) = Some (dp, [t]).
Proof. exact emit_exec_intern. Qed.

Theorem C20_instr_step_is_exec : forall strict atoms st bs inst r,
  rv strict bs = Ok (inst, r) -> - 2 ^ 55 <= inst ->
  instr_step Atom Cons strict atoms st bs =
    match exec1 atoms st inst with Some st' => Ok (st', r) | None => Err SerializationError end.
Proof. exact instr_step_exec1. Qed.

(* (N) from (R): a blob that decodes completely has the probe value |blob| *)
Theorem C20_len_from_roundtrip : forall strict max_atom_len (e : bytes) (t : sexp),
  wf_bytes e = true -> Z.of_nat (length e) < 2 ^ 64 ->
  de_2026 Atom Cons strict max_atom_len e = Ok (t, []) ->
  probe_2026 strict max_atom_len e = Ok (Z.of_nat (length e)).
Proof.
  intros strict m e t Hwf Hlen Hd.
  rewrite (probe_consumed Atom Cons strict m e t [] Hwf Hlen Hd). cbn [length]. f_equal. lia.
Qed.

(* non-vacuity and (R)/(N) on concrete trees: ((1 . "bb") . ((1 . "bb") . ())) shares a pair, nil
   is not in the atom table; a blob with a lenient-only (overlong) varint *)
Example C20_roundtrip_witness :
  let ab := Cons (Atom [1%N]) (Atom [98%N; 98%N]) in
  let t := Cons ab (Cons ab (Atom [])) in
  exists e, ser_2026 0 t = Ok e /\
    e = (magic ++ [2; 1; 1; 2; 98; 98; 7; 2; 3; 1; 126; 0; 1; 1])%N /\
    de_2026 Atom Cons true 2 e = Ok (t, []) /\ de_2026 Atom Cons false 2 e = Ok (t, []) /\
    de_2026 Atom Cons true 1 e = Err SerializationError /\
    probe_2026 true 2 e = Ok 20 /\ probe_2026 false 2 (e ++ [7%N]) = Ok 20.
Proof. exists (magic ++ [2; 1; 1; 2; 98; 98; 7; 2; 3; 1; 126; 0; 1; 1])%N. vm_compute. repeat split; reflexivity. Qed.

(* the hypotheses of C20_roundtrip / C20_serializer_total / C20_serialize_all hold of that tree
   (max_atom_len = 2), and the serializer succeeds on it *)
Example C20_hypotheses_witness :
  let ab := Cons (Atom [1%N]) (Atom [98%N; 98%N]) in
  let t := Cons ab (Cons ab (Atom [])) in
  wf_sexp t = true /\ (forall a, In a (atoms_of t) -> Z.of_nat (length a) < 2 ^ 55) /\
  (forall a, In a (atoms_of t) -> Z.of_nat (length a) <= 2) /\ (exists e, ser_2026 7 t = Ok e).
Proof.
  cbv zeta. split; [reflexivity|]. split; [|split].
  - intros a Ha. cbn in Ha. repeat (destruct Ha as [<-|Ha]; [vm_compute; reflexivity|]). destruct Ha.
  - intros a Ha. cbn in Ha. repeat (destruct Ha as [<-|Ha]; [vm_compute; discriminate|]). destruct Ha.
  - eexists. vm_compute. reflexivity.
Qed.

Example C20_lenient_witness :
  de_2026 Atom Cons false 5 (magic ++ [128; 0; 1; 0])%N = Ok (Atom [], []) /\
  de_2026 Atom Cons true 5 (magic ++ [128; 0; 1; 0])%N = Err SerializationError /\
  probe_2026 false 5 (magic ++ [128; 0; 1; 0])%N = Ok 10.
Proof. vm_compute. repeat split; reflexivity. Qed.

Print Assumptions C20_decoder_total.
Print Assumptions C20_probe_total.
Print Assumptions C20_alloc_bounded.
Print Assumptions C20_probe_consumed.
Print Assumptions C20_magic_classic.
Print Assumptions C20_magic_backref.
Print Assumptions C20_magic_backref_probe.
Print Assumptions C20_roundtrip.
Print Assumptions C20_roundtrip_stream.
Print Assumptions C20_len.
Print Assumptions C20_serializer_total.
Print Assumptions C20_serialize_all.
Print Assumptions C20_instructions_roundtrip_partial.
Print Assumptions C20_instr_step_is_exec.
Print Assumptions C20_len_from_roundtrip.
Print Assumptions C20_roundtrip_witness.
Print Assumptions C20_hypotheses_witness.
Print Assumptions C20_lenient_witness.
