(* C20 — serde_2026 round-trips, is total, and is recognisable.
   Only statements here; proofs are in Proofs/S2026Proofs.v and Proofs/S2026Probe.v.

   Full statement of the property, in the model's terms (t a tree, L a level, s strict/lenient,
   M = max_atom_len, b a byte string):
     (R)  ser_2026 L t = Ok e  ->  de_2026 Atom Cons s M e = Ok (t, [])        (M >= every atom length)
     (N)  ser_2026 L t = Ok e  ->  probe_2026 s M e = Ok |e|
     (T)  de_2026 .. s M b and probe_2026 s M b return Ok or Err SerializationError: no panic site, the
          fuel of the counted loops always suffices; the only allocation whose size is read from the
          input is bounded by M
     (P)  de_2026 .. s M b = Ok (v, rest)  ->  probe_2026 s M b = Ok (|b| - |rest|)
     (C)  the classic and the back-reference decoders reject magic ++ r.
   Proved below, for all inputs: (T) C20_decoder_total / C20_probe_total / C20_alloc_bounded,
   (P) C20_probe_consumed, (C) for the classic decoder C20_magic_classic, and for the back-reference
   decoders only their first-byte dispatch (C20_magic_backref_dispatch_partial: the byte 0xfd is
   neither the cons marker nor the back-reference marker and parse_atom, which both decoders share
   with the classic one, rejects what follows) — the back-reference decoders are not modelled in
   this tree.
   Partial results towards (R)/(N): the core of the round trip — the instruction list the
   serializer emits for the interned tree of t, run through the decoder's instruction semantics
   over the atom table the serializer writes (in whatever order the sort puts it), leaves exactly
   [t] on the stack (C20_instructions_roundtrip_partial; C20_instr_step_is_exec ties that semantics
   to the decoder's byte-level step), and (N) follows from (R) (C20_len_from_roundtrip).
   NOT proved: the byte layer of (R) — that the decoder reads back the atom table written in length
   groups and the varint-encoded instruction list (each piece is a C21 varint round trip; the
   composition is not done), and that the serializer's fuel suffices. The serializer is modelled byte
   for byte (interning, reference counts, atom sort, grouping, instruction emission) and compared
   with the implementation; (R)/(N) are decided on the implementation by the check's search;
   C20_roundtrip_witness shows them on a concrete tree.  Hence level "other".
   The theorems hold for every value algebra (V, mk_atom, mk_pair) of the decoder. *)
From Clvm Require Import Model.S2026 Model.Classic Proofs.S2026Proofs Proofs.S2026Probe Proofs.S2026Emit.
From Coq Require Import Lia.
Local Open Scope Z_scope.

(* (T) the decoder: on every byte string and for every max_atom_len, strict or lenient, the outcome
   is Ok (and then at least one byte was consumed) or SerializationError — in particular never
   [Panic _] (the stack.pop().unwrap() sites, stack[0], varint_size) and never [OutOfFuel] *)
Theorem C20_decoder_total : forall (V : Type) (mk_atom : bytes -> V) (mk_pair : V -> V -> V)
    (strict : bool) (max_atom_len : Z) (blob : bytes), wf_bytes blob = true ->
  match de_2026 mk_atom mk_pair strict max_atom_len blob with
  | Ok (_, rest) => (length rest < length blob)%nat
  | Err e => e = SerializationError
  end.
Proof. intros V mk_atom mk_pair strict m blob. exact (de_2026_total mk_atom mk_pair strict m blob). Qed.

(* (T) the probe: Ok n with 6 <= n <= |buf|, or SerializationError *)
Theorem C20_probe_total : forall strict max_atom_len buf, wf_bytes buf = true ->
  match probe_2026 strict max_atom_len buf with
  | Ok n => 6 <= n <= Z.of_nat (length buf)
  | Err e => e = SerializationError
  end.
Proof. exact probe_2026_total. Qed.

(* (T) the argument of buf.resize(len, 0) — the only allocation sized by the input — is between 1
   and max_atom_len, and a group header is at least one byte *)
Theorem C20_alloc_bounded : forall strict max_atom_len bs len count r, wf_bytes bs = true ->
  read_group_header strict max_atom_len bs = Ok (len, count, r) ->
  wf_bytes r = true /\ (length r < length bs)%nat /\ 1 <= len <= max_atom_len /\ 1 <= count.
Proof. exact read_group_header_ok. Qed.

(* (P) whenever decoding succeeds the probe returns the number of bytes the decoder consumed *)
Theorem C20_probe_consumed : forall (V : Type) (mk_atom : bytes -> V) (mk_pair : V -> V -> V)
    strict max_atom_len blob v rest,
  wf_bytes blob = true -> Z.of_nat (length blob) < 2 ^ 64 ->
  de_2026 mk_atom mk_pair strict max_atom_len blob = Ok (v, rest) ->
  probe_2026 strict max_atom_len blob = Ok (Z.of_nat (length blob) - Z.of_nat (length rest)).
Proof.
  intros V mk_atom mk_pair strict m blob v rest. exact (probe_consumed mk_atom mk_pair strict m blob v rest).
Qed.

(* (C) *)
Theorem C20_magic_classic : forall r, node_from_stream (magic ++ r) = Err SerializationError.
Proof. exact classic_rejects_magic. Qed.

Theorem C20_magic_backref_dispatch_partial : forall r,
  match magic ++ r with
  | b :: rest => b <> 0xff%N /\ b <> 0xfe%N /\ parse_atom_node b rest = Err SerializationError
  | [] => False
  end.
Proof. exact parse_atom_rejects_magic. Qed.

(* towards (R): instructions emitted for the interned tree of t rebuild t *)
Theorem C20_instructions_roundtrip_partial : forall t table instrs,
  lookup_atoms (it_atoms (intern_tree t)) (sorted_no_nil (intern_tree t)) = Ok table ->
  emit_instructions (intern_tree t) (sorted_no_nil (intern_tree t)) = Ok instrs ->
  exists dp, exec_all (map Atom table) instrs ([], []) = Some (dp, [t]).
Proof. exact emit_exec_intern. Qed.

Theorem C20_instr_step_is_exec : forall strict atoms st bs inst r,
  rv strict bs = Ok (inst, r) -> - 2 ^ 55 <= inst ->
  instr_step Atom Cons strict atoms st bs =
    match exec1 atoms st inst with Some st' => Ok (st', r) | None => Err SerializationError end.
Proof. exact instr_step_exec1. Qed.

(* (N) from (R): a blob that decodes completely has the probe value |blob| *)
Theorem C20_len_from_roundtrip : forall strict max_atom_len (e : bytes) (t : sexp),
  wf_bytes e = true -> Z.of_nat (length e) < 2 ^ 64 ->
  de_2026 Atom Cons strict max_atom_len e = Ok (t, []) ->
  probe_2026 strict max_atom_len e = Ok (Z.of_nat (length e)).
Proof.
  intros strict m e t Hwf Hlen Hd.
  rewrite (probe_consumed Atom Cons strict m e t [] Hwf Hlen Hd). cbn [length]. f_equal. lia.
Qed.

(* non-vacuity and (R)/(N) on concrete trees: ((1 . "bb") . ((1 . "bb") . ())) shares a pair, nil
   is not in the atom table; a blob with a lenient-only (overlong) varint *)
Example C20_roundtrip_witness :
  let ab := Cons (Atom [1%N]) (Atom [98%N; 98%N]) in
  let t := Cons ab (Cons ab (Atom [])) in
  exists e, ser_2026 0 t = Ok e /\
    e = (magic ++ [2; 1; 1; 2; 98; 98; 7; 2; 3; 1; 126; 0; 1; 1])%N /\
    de_2026 Atom Cons true 2 e = Ok (t, []) /\ de_2026 Atom Cons false 2 e = Ok (t, []) /\
    de_2026 Atom Cons true 1 e = Err SerializationError /\
    probe_2026 true 2 e = Ok 20 /\ probe_2026 false 2 (e ++ [7%N]) = Ok 20.
Proof. exists (magic ++ [2; 1; 1; 2; 98; 98; 7; 2; 3; 1; 126; 0; 1; 1])%N. vm_compute. repeat split; reflexivity. Qed.

Example C20_lenient_witness :
  de_2026 Atom Cons false 5 (magic ++ [128; 0; 1; 0])%N = Ok (Atom [], []) /\
  de_2026 Atom Cons true 5 (magic ++ [128; 0; 1; 0])%N = Err SerializationError /\
  probe_2026 false 5 (magic ++ [128; 0; 1; 0])%N = Ok 10.
Proof. vm_compute. repeat split; reflexivity. Qed.

Print Assumptions C20_decoder_total.
Print Assumptions C20_probe_total.
Print Assumptions C20_alloc_bounded.
Print Assumptions C20_probe_consumed.
Print Assumptions C20_magic_classic.
Print Assumptions C20_magic_backref_dispatch_partial.
Print Assumptions C20_instructions_roundtrip_partial.
Print Assumptions C20_instr_step_is_exec.
Print Assumptions C20_len_from_roundtrip.
Print Assumptions C20_roundtrip_witness.
Print Assumptions C20_lenient_witness.
