(* C20 — placeholder while the proofs are built: statements follow. *)
From Clvm Require Import Model.S2026.
Example C20_magic_literal : magic = [253; 255; 50; 48; 50; 54]%N.
Proof. reflexivity. Qed.
Print Assumptions C20_magic_literal.
