(* C18 — back-reference decoders agree with each other and with the length probe.
   Only statements here; proofs are `exact <lemma>` from Proofs/BackRef*.v. *)
From Clvm Require Import Model.BackRef Proofs.BackRefBasics.
Open Scope N_scope.

(* ((1 2 3 4) 1 2 3 4) compressed: ffff01ff02ff03ff0480fe02 (test vector of de_br.rs) *)
Example C18_witness :
  let b := [0xff; 0xff; 1; 0xff; 2; 0xff; 3; 0xff; 4; 0x80; 0xfe; 2] in
  let l := Cons (Atom [1]) (Cons (Atom [2]) (Cons (Atom [3]) (Cons (Atom [4]) (Atom [])))) in
  de_br_spec b = Ok (Cons l l, []) /\
  node_from_stream_backrefs b = (16, Ok (Cons l l, [])) /\
  node_from_stream_backrefs_old b = (16, Ok (Cons l l, [])) /\
  serialized_length_from_bytes b = Ok 12 /\
  (* a path into an atom: both decoders and the probe reject, with equal pair counts *)
  node_from_stream_backrefs [0xff; 1; 0xfe; 4] = (1, Err SerializationBackrefError) /\
  node_from_stream_backrefs_old [0xff; 1; 0xfe; 4] = (1, Err PathIntoAtom) /\
  serialized_length_from_bytes [0xff; 1; 0xfe; 4] = Err PathIntoAtom.
Proof. vm_compute. repeat split. Qed.

Print Assumptions C18_witness.
