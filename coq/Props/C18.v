(* C18 — back-reference decoders agree with each other and with the length probe.
   Only statements here; every proof is `exact <lemma>` from Proofs/BackRef*.v.

   Statement (properties.jsonl): for every byte string the current and legacy back-reference
   decoders return without panicking, accept exactly the same inputs, produce identical trees
   and leave identical pair counts; serialized_length_from_bytes succeeds on exactly those inputs
   and reports the number of bytes the decoder consumed.

   Proved, for EVERY byte string (no well-formedness or size hypothesis), about the Gallina
   models in Model/BackRef.v (node_from_stream_backrefs with traverse_path_with_vec and the
   ghost-pair accounting; node_from_stream_backrefs_old; serialized_length_from_bytes):
     - both decoders refine the recursive grammar de_br_spec: same accept set, same tree, same
       remaining input (hence same consumed length); errors are the same kind except that a
       path into an atom is PathIntoAtom in the legacy decoder / probe and
       SerializationBackrefError in the current decoder (as in the Rust);
     - pair_vec.len() + ghost_pairs of the current decoder = pair_vec.len() of the legacy
       decoder after the run, on accepted AND rejected inputs (what the upstream fuzz target
       deserialize_br asserts);
     - the probe = consumed length of the decoders on accepted inputs and fails with the same
       error kind as the legacy decoder otherwise;
     - no panic site (pop of an empty Vec, args[arg_index], ghost_pairs underflow in
       remove_ghost_pair, the three panic!()s of the legacy decoder, the probe's two
       "internal" SerializationError sites) is reachable, and the loop bound 2|b|+2 that is
       part of the definitions is never exhausted.
   Outside the model (so the level claimed is "other", not "proof"): the allocator's caps
   (MAX_NUM_PAIRS / MAX_NUM_ATOMS / heap limit: DESIGN.md section 3; the pair cap is hit by both
   decoders at the same step because their pair counts agree at every step — R_new in
   Proofs/BackRefNew.v — but the cap itself is not in the model), the byte/bit loop of
   traverse_path(_with_vec), which Model/Path.v abstracts to the bit list of the path value,
   and real memory use / native stack depth. *)
From Clvm Require Import Model.BackRef Proofs.BackRefMain.
Open Scope N_scope.

(* legacy decoder = recursive grammar, on every byte string *)
Theorem C18_old_refines_spec : forall bs, snd (node_from_stream_backrefs_old bs) = de_br_spec bs.
Proof. exact old_refines_spec. Qed.

(* current decoder = recursive grammar up to the one error kind *)
Theorem C18_new_refines_spec : forall bs,
  match de_br_spec bs, snd (node_from_stream_backrefs bs) with
  | Ok a, Ok b => a = b
  | Err e1, Err e2 => e1 = e2 \/ (e1 = PathIntoAtom /\ e2 = SerializationBackrefError)
  | _, _ => False
  end.
Proof. exact new_refines_spec. Qed.

(* the two decoders: same accept set, identical tree and remaining input, identical pair
   count — the pair counts agree on rejected inputs too *)
Theorem C18_decoders_agree : forall bs,
  fst (node_from_stream_backrefs bs) = fst (node_from_stream_backrefs_old bs) /\
  match snd (node_from_stream_backrefs_old bs), snd (node_from_stream_backrefs bs) with
  | Ok a, Ok b => a = b
  | Err e1, Err e2 => e1 = e2 \/ (e1 = PathIntoAtom /\ e2 = SerializationBackrefError)
  | _, _ => False
  end.
Proof. exact decoders_agree. Qed.

(* the length probe: the decoder's consumed length, or the decoder's error *)
Theorem C18_probe_agrees : forall bs,
  serialized_length_from_bytes bs =
    match snd (node_from_stream_backrefs_old bs) with
    | Ok (_, rest) => Ok (blen bs - blen rest)
    | Err e => Err e
    end.
Proof. exact probe_agrees. Qed.

Theorem C18_probe_accepts_iff : forall bs n,
  serialized_length_from_bytes bs = Ok n <->
  exists t rest, snd (node_from_stream_backrefs bs) = Ok (t, rest) /\ n = blen bs - blen rest.
Proof. exact probe_accepts_iff. Qed.

(* no panic, fuel suffices (fuel = 2|bs|+2 is inside the three definitions) *)
Theorem C18_no_panic : forall bs e,
  snd (node_from_stream_backrefs bs) = Err e \/ snd (node_from_stream_backrefs_old bs) = Err e \/
  serialized_length_from_bytes bs = Err e ->
  ~ (e = OutOfFuel \/ exists n, e = Panic n).
Proof. exact no_panic. Qed.

(* ((1 2 3 4) 1 2 3 4) compressed: ffff01ff02ff03ff0480fe02 (test vector of de_br.rs) *)
Example C18_witness :
  let b := [0xff; 0xff; 1; 0xff; 2; 0xff; 3; 0xff; 4; 0x80; 0xfe; 2] in
  let l := Cons (Atom [1]) (Cons (Atom [2]) (Cons (Atom [3]) (Cons (Atom [4]) (Atom [])))) in
  de_br_spec b = Ok (Cons l l, []) /\
  node_from_stream_backrefs b = (16, Ok (Cons l l, [])) /\
  node_from_stream_backrefs_old b = (16, Ok (Cons l l, [])) /\
  serialized_length_from_bytes b = Ok 12 /\
  (* a path into an atom: both decoders and the probe reject, with equal pair counts *)
  node_from_stream_backrefs [0xff; 1; 0xfe; 4] = (1, Err SerializationBackrefError) /\
  node_from_stream_backrefs_old [0xff; 1; 0xfe; 4] = (1, Err PathIntoAtom) /\
  serialized_length_from_bytes [0xff; 1; 0xfe; 4] = Err PathIntoAtom /\
  (* back-references onto the stack spine, twice: the second one reuses the cached list *)
  node_from_stream_backrefs [0xff; 0xff; 2; 3; 0xff; 0xfe; 1; 0xfe; 1] =
    node_from_stream_backrefs_old [0xff; 0xff; 2; 3; 0xff; 0xfe; 1; 0xfe; 1].
Proof. vm_compute. repeat split. Qed.

Print Assumptions C18_old_refines_spec.
Print Assumptions C18_new_refines_spec.
Print Assumptions C18_decoders_agree.
Print Assumptions C18_probe_agrees.
Print Assumptions C18_probe_accepts_iff.
Print Assumptions C18_no_panic.
Print Assumptions C18_witness.
