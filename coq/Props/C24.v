(* C24 — interning preserves the tree and deduplicates maximally.
   Only statements here; every proof is `exact <lemma>` from Proofs/InternProofs.v.

   Statement of the property: for every tree, intern_tree returns a tree with identical
   serialization and tree hash whose atoms are pairwise distinct byte strings and whose pairs are
   pairwise distinct sub-trees; the number of interned atoms and pairs equals the number of distinct
   atom values and distinct sub-trees, and never exceeds the source's.

   All of it is proved below about Model/Intern.v, for every tree, without any premise on a hash
   function: the Rust keys atoms by content and pairs by the interned children, no hash of the
   content is compared.  [tree_of it] is the tree an InternedTree denotes (root looked up in the
   atom vector / in the list [pair_trees it] of the sub-trees of the pair vector); equal
   serialization and tree hash are consequences of [tree_of (intern_tree t) = Some t]
   (C24_same_serialization, C24_same_tree_hash: the latter for the table-order hasher of the
   interned structure and ANY function H in place of sha256).
   Outside the model: the limits of the new allocator (atom/pair counts, heap limit u32::MAX), see
   DESIGN.md section 3; the source is a tree, the memo keyed by source NodePtr is shown to be
   unobservable instead (C24_memo_unobservable). *)
From Clvm Require Import Model.Intern Model.Classic Proofs.InternProofs.

(* reconstructing the tree from the interned structure gives the source tree *)
Theorem C24_tree_preserved : forall t, tree_of (intern_tree t) = Some t.
Proof. exact intern_tree_of. Qed.

Theorem C24_same_serialization : forall t,
  match tree_of (intern_tree t) with Some t' => ser t' = ser t | None => False end.
Proof. intros t. rewrite intern_tree_of. reflexivity. Qed.

Theorem C24_same_tree_hash : forall (H : bytes -> bytes) t,
  itree_hash H (intern_tree t) = Some (treehash H t).
Proof. intros H t. apply itree_hash_tree_of. apply intern_tree_of. Qed.

(* atoms are pairwise distinct byte strings *)
Theorem C24_atoms_distinct : forall t, NoDup (it_atoms (intern_tree t)).
Proof. exact intern_atoms_NoDup. Qed.

(* pairs are pairwise distinct sub-trees: the list of the sub-trees of the pair vector exists,
   has one entry per pair, and has no duplicates *)
Theorem C24_pairs_distinct : forall t, exists pts,
  pair_trees (intern_tree t) = Some pts /\ length pts = length (it_pairs (intern_tree t)) /\ NoDup pts.
Proof.
  intros t. exists (distinct_pairs t). split; [apply intern_pair_trees|].
  split; [symmetry; apply intern_pairs_length|apply intern_pairs_NoDup].
Qed.

(* the interned atoms are exactly the atom values of t, the interned pairs exactly its pair
   sub-trees (so nothing is invented and nothing is lost) *)
Theorem C24_atoms_exact : forall t b, In b (it_atoms (intern_tree t)) <-> In b (atoms_of t).
Proof. exact intern_atoms_In. Qed.

Theorem C24_pairs_exact : forall t s pts, pair_trees (intern_tree t) = Some pts ->
  (In s pts <-> In s (subpairs_of t)).
Proof.
  intros t s pts Hp. rewrite intern_pair_trees in Hp. inversion Hp; subst. apply intern_pairs_In.
Qed.

(* counts: equal to the number of distinct atom values / distinct pair sub-trees (= the length of
   ANY duplicate-free enumeration of them), and never more than the source's *)
Theorem C24_counts : forall t,
  (forall la, NoDup la -> (forall b, In b la <-> In b (atoms_of t)) ->
     length (it_atoms (intern_tree t)) = length la) /\
  (forall lp, NoDup lp -> (forall s, In s lp <-> In s (subpairs_of t)) ->
     length (it_pairs (intern_tree t)) = length lp) /\
  (length (it_atoms (intern_tree t)) <= n_nodes t - n_pairs t)%nat /\
  (length (it_pairs (intern_tree t)) <= n_pairs t)%nat.
Proof. exact intern_counts. Qed.

(* the order of the two vectors: first occurrence in the left-to-right post-order walk *)
Theorem C24_table_order : forall t,
  it_atoms (intern_tree t) = dedup_into bytes_eqb [] (atoms_of t) /\
  pair_trees (intern_tree t) = Some (dedup_into sexp_eqb [] (subpairs_of t)).
Proof.
  intros t. split; [exact (proj1 (proj2 (intern_tree_spec t)))|apply intern_pair_trees].
Qed.

(* walking a shared (already interned) source node again returns the same interned node and
   leaves both vectors unchanged: the node_to_interned memo cannot be observed *)
Theorem C24_memo_unobservable : forall t st pts n,
  Inv (is_atoms st) (is_pairs st) pts -> node_tree (is_atoms st) pts n = Some t ->
  intern_rec t st = (n, st).
Proof. exact intern_again. Qed.

(* non-vacuity: ((A . B) . (A . B)) with A = 01, B = 02 02: 2 atoms, 2 pairs, root = pairs[1] *)
Example C24_witness :
  let ab := Cons (Atom [1%N]) (Atom [2%N; 2%N]) in
  intern_tree (Cons ab ab) =
    {| it_atoms := [[1%N]; [2%N; 2%N]]; it_pairs := [(IA 0, IA 1); (IP 0, IP 0)]; it_root := IP 1 |} /\
  tree_of (intern_tree (Cons ab ab)) = Some (Cons ab ab).
Proof. vm_compute. split; reflexivity. Qed.

(* the invariant of C24_memo_unobservable is met by every state the traversal reaches *)
Example C24_inv_reachable : forall t,
  Inv (it_atoms (intern_tree t)) (it_pairs (intern_tree t)) (distinct_pairs t).
Proof. intros t. exact (proj1 (intern_tree_spec t)). Qed.

Print Assumptions C24_tree_preserved.
Print Assumptions C24_same_serialization.
Print Assumptions C24_same_tree_hash.
Print Assumptions C24_atoms_distinct.
Print Assumptions C24_pairs_distinct.
Print Assumptions C24_atoms_exact.
Print Assumptions C24_pairs_exact.
Print Assumptions C24_counts.
Print Assumptions C24_table_order.
Print Assumptions C24_memo_unobservable.
Print Assumptions C24_witness.
