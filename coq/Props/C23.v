(* C23 — native sha256tree never costs more than its ChiaLisp equivalent.
   Only statements here; every proof is `exact <lemma>`.

   Full statement: for every tree t and both cost models (pre-hard-fork and NEW_COST_MODEL),
   run_program of (sha256tree (q . t)) costs less than run_program of the standard recursive
   ChiaLisp sha256tree program (tools/src/bin/sha256tree-benching.rs) applied to t, under the
   same flags.

   Model/ShaTreeCost.v defines the two programs as trees ([native_prog t], [sha256tree_prog]; the
   latter is pinned to the tool's hex string) and two cost functions
     native_cost ncm t = OP_COST + QUOTE_COST + (the closed formula of C10_sha256tree)
     clvm_cost ncm t   = a structural recurrence over t
   written with the named constants of the machine and operator models; Pins/C23consts.v
   compares every one of them with the source on every run.

   C23_native_is_run    the machine (Model/Machine.v under ChiaDialect with ENABLE_SHA256_TREE,
                        with or without NEW_COST_MODEL, any budget that fits, any sufficient fuel)
                        runs (sha256tree (q . t)) to (native_cost, tree hash).
   C23_clvm_is_run      the machine runs the ChiaLisp program on t to (clvm_cost, tree hash):
                        symbolic execution of the recursive program on the stack machine, by
                        induction on t (Proofs/ShaTreeExec.v, ShaTreeRun.v). The only premise
                        about the hash function: its results are 32 bytes long (they are
                        arguments of sha256 in the program and are charged per byte).
   C23_native_lt_clvm   the inequality between the two cost functions, all trees, both models.
   C23                  the statement itself: whenever the ChiaLisp run fits the budget (0 =
                        unlimited = 2^64-1), both runs succeed, return the same hash, and the
                        native run is cheaper.
   C23_gap              how large the difference is (>= 1000 per atom + 500 per pair - 4).
   C23_per_byte_equal   the per-byte costs of sha256tree and sha256 are equal in both models:
                        the reason why the inequality survives arbitrarily large atoms.

   Scope: the flag words are exactly ENABLE_SHA256_TREE (0x400) and ENABLE_SHA256_TREE |
   NEW_COST_MODEL (0x2400); the machine is the tree-store machine (allocator caps and the
   stack limit are outside it, see Model/Machine.v). The check runs the implementation under
   further unrelated flags (ENABLE_GC as the tool does, mempool flags, ...) and with shared
   sub-trees. *)
From Clvm Require Import Model.ShaTreeCost Proofs.ShaTreeCostIneq Proofs.ShaTreeExec Proofs.ShaTreeRun.
Open Scope N_scope.

Theorem C23_native_lt_clvm : forall ncm t, native_cost ncm t < clvm_cost ncm t.
Proof. exact native_lt_clvm. Qed.

Theorem C23_native_is_run : forall P ncm t m fuel,
  native_cost ncm t <= eff_budget m -> (3 < fuel)%nat ->
  run_chia P fuel (c23_flags ncm) (native_prog t) nil_s m
  = Ok (native_cost ncm t, Atom (treehash (p_sha256 P) t)).
Proof. exact native_is_run. Qed.

Theorem C23_clvm_is_run : forall P ncm t m fuel,
  (forall b, blen (p_sha256 P b) = 32) ->
  clvm_cost ncm t <= eff_budget m -> (clvm_steps t < fuel)%nat ->
  run_chia P fuel (c23_flags ncm) sha256tree_prog t m
  = Ok (clvm_cost ncm t, Atom (treehash (p_sha256 P) t)).
Proof. exact clvm_is_run. Qed.

Theorem C23 : forall P ncm t m fuel,
  (forall b, blen (p_sha256 P b) = 32) ->
  clvm_cost ncm t <= eff_budget m -> (clvm_steps t < fuel)%nat ->
  exists cn cc h,
    run_chia P fuel (c23_flags ncm) (native_prog t) nil_s m = Ok (cn, h) /\
    run_chia P fuel (c23_flags ncm) sha256tree_prog t m = Ok (cc, h) /\
    cn < cc.
Proof. exact native_cheaper_run. Qed.

Theorem C23_gap : forall ncm t,
  native_cost ncm t + 1000 * (tree_pairs t + 1) + 500 * tree_pairs t <= clvm_cost ncm t + 4.
Proof. exact native_gap. Qed.

Theorem C23_per_byte_equal : forall ncm, tree_byte ncm = sha_byte ncm.
Proof. exact per_byte_equal. Qed.

(* the figures of docs/sha256tree.md for a complete tree with 2^9 leaves of 1000 bytes *)
Example C23_witness :
  let t := (fix c (d : nat) := match d with O => Atom (repeat 0xff 1000) | S k => Cons (c k) (c k) end) 9%nat in
  native_cost false t = 1260695 /\ clvm_cost false t = 2584188 /\
  native_cost true t = 3310743 /\ clvm_cost true t = 6256571.
Proof. vm_compute. repeat split. Qed.

Print Assumptions C23_native_is_run.
Print Assumptions C23_clvm_is_run.
Print Assumptions C23.
Print Assumptions C23_native_lt_clvm.
Print Assumptions C23_gap.
Print Assumptions C23_per_byte_equal.
Print Assumptions C23_witness.
