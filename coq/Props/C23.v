(* C23 — native sha256tree never costs more than its ChiaLisp equivalent.
   Only statements here; every proof is `exact <lemma>`.

   Full statement: for every tree t and both cost models (pre-hard-fork and NEW_COST_MODEL),
   run_program of (sha256tree (q . t)) costs less than run_program of the standard recursive
   ChiaLisp sha256tree program (tools/src/bin/sha256tree-benching.rs) applied to t, under the
   same flags.

   Model/ShaTreeCost.v defines the two programs as trees ([native_prog t], [sha256tree_prog]; the
   latter is pinned to the tool's hex string) and two cost functions
     native_cost ncm t = OP_COST + QUOTE_COST + (the closed formula of C10_sha256tree)
     clvm_cost ncm t   = a structural recurrence over t
   written with the named constants of the machine and operator models; Pins/C23consts.v
   compares every one of them with the source on every run.

   C23_native_is_run    the machine (Model/Machine.v under ChiaDialect with ANY flag word that
                        contains ENABLE_SHA256_TREE; the cost model is the word's NEW_COST_MODEL
                        bit; any budget that fits; any sufficient fuel) runs
                        (sha256tree (q . t)) to (native_cost, tree hash).
   C23_clvm_is_run      the machine runs the ChiaLisp program on t to (clvm_cost, tree hash):
                        symbolic execution of the recursive program on the stack machine, by
                        induction on t (Proofs/ShaTreeExec.v, ShaTreeRun.v), incl. the Restore
                        operations ENABLE_GC adds. The only premise about the hash function:
                        its results are 32 bytes long (they are arguments of sha256 in the
                        program and are charged per byte).
   C23_native_lt_clvm   the inequality between the two cost functions, all trees, both models.
   C23                  the statement itself: whenever the ChiaLisp run fits the budget (0 =
                        unlimited = 2^64-1), both runs succeed, return the same hash, and the
                        native run is cheaper.
   C23_sha256_premise   the 32-byte premise holds for the executable SHA-256 of Model/Sha256.v.
   C23_gap              how large the difference is (>= 1000 per atom + 500 per pair - 4).
   C23_per_byte_equal   the per-byte costs of sha256tree and sha256 are equal in both models:
                        the reason why the inequality survives arbitrarily large atoms.

   Scope: every flag word / flag record that enables the operator (without ENABLE_SHA256_TREE
   opcode 63 is an unknown operator and the comparison is void); the machine is the tree-store
   machine (allocator caps and the stack limit are outside it, see Model/Machine.v; a tree has
   no sharing - the check runs the implementation on shared and unshared inputs). *)
From Clvm Require Import Model.ShaTreeCost Proofs.ShaTreeCostIneq Proofs.ShaTreeExec Proofs.ShaTreeRun
  Proofs.ShaTreeCostTests Model.Sha256 Proofs.Sha256Len.
Open Scope N_scope.

Theorem C23_native_lt_clvm : forall ncm t, native_cost ncm t < clvm_cost ncm t.
Proof. exact native_lt_clvm. Qed.

Theorem C23_native_is_run : forall P w t m fuel, f_sha256_tree (flags_of_N w) = true ->
  native_cost (word_ncm w) t <= eff_budget m -> (native_steps (word_gc w) < fuel)%nat ->
  run_chia P fuel w (native_prog t) nil_s m
  = Ok (native_cost (word_ncm w) t, Atom (treehash (p_sha256 P) t)).
Proof. exact native_is_run. Qed.

Theorem C23_clvm_is_run : forall P w t m fuel, f_sha256_tree (flags_of_N w) = true ->
  (forall b, blen (p_sha256 P b) = 32) ->
  clvm_cost (word_ncm w) t <= eff_budget m -> (clvm_steps (word_gc w) t < fuel)%nat ->
  run_chia P fuel w sha256tree_prog t m
  = Ok (clvm_cost (word_ncm w) t, Atom (treehash (p_sha256 P) t)).
Proof. exact clvm_is_run. Qed.

Theorem C23 : forall P w t m fuel, f_sha256_tree (flags_of_N w) = true ->
  (forall b, blen (p_sha256 P b) = 32) ->
  clvm_cost (word_ncm w) t <= eff_budget m -> (clvm_steps (word_gc w) t < fuel)%nat ->
  exists cn cc h,
    run_chia P fuel w (native_prog t) nil_s m = Ok (cn, h) /\
    run_chia P fuel w sha256tree_prog t m = Ok (cc, h) /\
    cn < cc.
Proof. exact native_cheaper_run. Qed.

(* the same for a dialect built from any flag record (what ChiaDialect::new receives) *)
Theorem C23_flagset : forall P fl, f_sha256_tree fl = true -> forall t m fuel,
  (forall b, blen (p_sha256 P b) = 32) ->
  clvm_cost (f_new_cost_model fl) t <= eff_budget m -> (clvm_steps (f_enable_gc fl) t < fuel)%nat ->
  exists cn cc h,
    run_program (chia_dialect P fl) fuel (native_prog t) nil_s m = Ok (cn, h) /\
    run_program (chia_dialect P fl) fuel sha256tree_prog t m = Ok (cc, h) /\
    cn < cc.
Proof. exact native_cheaper_run_fl. Qed.

Theorem C23_gap : forall ncm t,
  native_cost ncm t + 1000 * (tree_pairs t + 1) + 500 * tree_pairs t <= clvm_cost ncm t + 4.
Proof. exact native_gap. Qed.

Theorem C23_per_byte_equal : forall ncm, tree_byte ncm = sha_byte ncm.
Proof. exact per_byte_equal. Qed.

(* the figures of docs/sha256tree.md for a complete tree with 2^9 leaves of 1000 bytes *)
Example C23_witness :
  let t := (fix c (d : nat) := match d with O => Atom (repeat 0xff 1000) | S k => Cons (c k) (c k) end) 9%nat in
  native_cost false t = 1260695 /\ clvm_cost false t = 2584188 /\
  native_cost true t = 3310743 /\ clvm_cost true t = 6256571.
Proof. vm_compute. repeat split. Qed.

(* the premise about the hash function holds for the SHA-256 the extracted model runs *)
Theorem C23_sha256_premise : forall m, blen (sha256 m) = 32.
Proof. exact sha256_blen. Qed.

(* the hypotheses of C23 are satisfiable on a non-trivial input (flag word: ENABLE_SHA256_TREE |
   NEW_COST_MODEL | ENABLE_GC, as the tool sets them), and the fuel bound is exact *)
Example C23_hypotheses_satisfiable :
  let P := test_prims toy_hash in
  let w := 0x2420 in
  let t := Cons (Atom [1; 2]) (Cons (Atom []) (Atom [7])) in
  (forall b, blen (p_sha256 P b) = 32) /\
  f_sha256_tree (flags_of_N w) = true /\
  (clvm_cost (word_ncm w) t <=? eff_budget 0) = true /\
  run_chia P (S (clvm_steps (word_gc w) t)) w sha256tree_prog t 0
    = Ok (clvm_cost true t, Atom (treehash toy_hash t)) /\
  run_chia P (clvm_steps (word_gc w) t) w sha256tree_prog t 0 = Err OutOfFuel /\
  run_chia P (S (native_steps (word_gc w))) w (native_prog t) nil_s 0
    = Ok (native_cost true t, Atom (treehash toy_hash t)) /\
  run_chia P (native_steps (word_gc w)) w (native_prog t) nil_s 0 = Err OutOfFuel.
Proof. split; [exact toy_hash_len|]. vm_compute. repeat split. Qed.

Print Assumptions C23_native_is_run.
Print Assumptions C23_clvm_is_run.
Print Assumptions C23.
Print Assumptions C23_flagset.
Print Assumptions C23_sha256_premise.
Print Assumptions C23_native_lt_clvm.
Print Assumptions C23_gap.
Print Assumptions C23_per_byte_equal.
Print Assumptions C23_witness.
Print Assumptions C23_hypotheses_satisfiable.
