(* C23 — native sha256tree never costs more than its ChiaLisp equivalent.
   Only statements here; every proof is `exact <lemma>`.

   Full statement: for every tree t and both cost models (pre-hard-fork and NEW_COST_MODEL),
   run_program of (sha256tree (q . t)) costs less than run_program of the standard recursive
   ChiaLisp sha256tree program (tools/src/bin/sha256tree-benching.rs) applied to t, under the
   same flags.

   Model/ShaTreeCost.v defines the two programs as trees and two cost functions:
     native_cost ncm t = OP_COST + QUOTE_COST + (the closed formula of C10_sha256tree)
     clvm_cost ncm t   = a structural recurrence over t, derived by hand from Model/Machine.v
   written with the named constants of the machine and operator models; Pins/C23consts.v
   compares every one of them (and the program's hex string) with the source on every run.

   C23_native_lt_clvm   the inequality between the two functions, all trees, both models.
   C23_gap              how large the difference is (>= 1000 per atom + 500 per pair - 4).
   C23_per_byte_equal   the per-byte costs of sha256tree and sha256 are equal in both models:
                        the reason why the inequality survives arbitrarily large atoms.

   That the two functions ARE what the machine charges is, at this commit, established by
   computation on small trees of every shape (Proofs/ShaTreeCostTests.v: tests, not theorems)
   and, on every run of the check, against the implementation (family "shacost"). *)
From Clvm Require Import Model.ShaTreeCost Proofs.ShaTreeCostIneq.
Open Scope N_scope.

Theorem C23_native_lt_clvm : forall ncm t, native_cost ncm t < clvm_cost ncm t.
Proof. exact native_lt_clvm. Qed.

Theorem C23_gap : forall ncm t,
  native_cost ncm t + 1000 * (tree_pairs t + 1) + 500 * tree_pairs t <= clvm_cost ncm t + 4.
Proof. exact native_gap. Qed.

Theorem C23_per_byte_equal : forall ncm, tree_byte ncm = sha_byte ncm.
Proof. exact per_byte_equal. Qed.

(* the figures of docs/sha256tree.md for a complete tree with 2^9 leaves of 1000 bytes *)
Example C23_witness :
  let t := (fix c (d : nat) := match d with O => Atom (repeat 0xff 1000) | S k => Cons (c k) (c k) end) 9%nat in
  native_cost false t = 1260695 /\ clvm_cost false t = 2584188 /\
  native_cost true t = 3310743 /\ clvm_cost true t = 6256571.
Proof. vm_compute. repeat split. Qed.

Print Assumptions C23_native_lt_clvm.
Print Assumptions C23_gap.
Print Assumptions C23_per_byte_equal.
Print Assumptions C23_witness.
