(* C19 — incremental serializer histories produce valid serializations.
   Only statements here; every proof is `exact <lemma>` from Proofs/IncrementalUndo.v,
   Proofs/IncrementalDecode.v, Proofs/IncrementalSalt.v.

   Statement (properties.jsonl): for any tree split at any sentinel positions and any history of
   add and undo calls, (1) an undo restores exactly the bytes the serializer held before the undone
   call; (2) once serialization completes, the bytes decode with back-references to the tree
   assembled from the retained additions; (3) the bytes depend only on the trees and the history,
   not on the random hashing salt.

   The model (Model/Incremental.v) is incremental.rs as a state machine: read_op_stack,
   write_stack, the parse stack that incremental.rs maintains through TreeCache::push /
   pop2_and_cons, a Cursor<Vec<u8>> (write at the position: overwrite / zero-fill; restore =
   set_position + truncate), and UndoState. TreeCache::find_path is an ORACLE — a parameter of
   every add, a function of the whole state and the node — behind the two early exits that do not
   depend on the search (NIL; nodes that hold the sentinel). tree_cache.rs' tables, parent lists,
   salted hashing and breadth-first search are NOT modelled (DESIGN.md section 6).

   Proved, for ALL states reachable by add/restore calls with arbitrary nodes and oracles:
     (1) C19_undo: restoring ANY undo state that is still live (not only the latest: the API
         allows it and upstream's test_incremental_restore does it) gives back exactly the state
         in which it was taken — hence the same bytes (C19_undo_bytes), the same size, and the same
         results of every later call (C19_undo_behaves). C19_append_only: add only appends and
         size() is the length; C19_restore_truncates: restore leaves a prefix.
         "Live": returned by an add that has not itself been undone. (Restoring a state whose add
         has been undone is a misuse: the cursor is put beyond the end of the Vec.)
     (2) C19_decode: if every path the oracle returns denotes, in the stack the decoder has at that
         point, the tree of the node being written (premise orc_valid; for sentinel-free nodes —
         the model's find_path asks the oracle for no other), then whenever add reports completion
         the bytes are an encoding in the sense of C17 (relation enc) of the tree assembled from
         the retained additions (sentinels substituted in the order they are reached), the parse
         stack holds exactly that tree, and by C17_emit_ok the bytes decode to it in the grammar,
         in both decoders and in the length probe (C19_decode_both). Undone additions do not
         matter: the theorem is about the additions that are retained.
     (3) C19_salt: add/restore/histories use the tree cache through find_path's answers only:
         oracles that answer alike (for instance one tree cache under two salts) give the same
         bytes after every call.
     (4) C19_add_total: in reachable states add never hits a panic site of the model or runs out
         of fuel (any oracle), given atoms and paths below 2^34 bytes.
   NOT proved (level claimed: other): that TreeCache::find_path satisfies orc_valid, and that its
   answers do not depend on the salt. Both are decided by the check on every run: every emitted
   path is validated against the model's stack; every history runs under three serializers (three
   salts and hasher states) and in two processes. The validation FAILS on the unchanged code
   (finding F10, see notes/known_findings_proposed_c19.json): TreeCache::update hands the parent
   links of the sentinel's entry to the root of the next addition, which is wrong when one
   addition holds the sentinel more than once, when the addition is undone, and when a node that
   holds the sentinel is added or occurs more than once. *)
From Clvm Require Import Model.Incremental Proofs.BackRefEmit Proofs.IncrementalUndo Proofs.IncrementalSalt
  Proofs.IncrementalDecode Proofs.IncrementalWitness Proofs.IncrementalTotal.
Open Scope N_scope.

(* ---- (1) undo *)
Theorem C19_undo : forall s live u s0, reach s live -> In (u, s0) live -> restore u s = s0.
Proof. exact restore_live. Qed.

Theorem C19_undo_bytes : forall s live orc node d u s', reach s live ->
  add orc s node = Ok (d, u, s') ->
  restore u s' = s /\ get_ref (restore u s') = get_ref s /\ size (restore u s') = size s.
Proof. exact add_then_restore. Qed.

Theorem C19_undo_behaves : forall s live u s0 orc node, reach s live -> In (u, s0) live ->
  add orc (restore u s) node = add orc s0 node.
Proof. exact restored_behaves. Qed.

Theorem C19_append_only : forall s live orc node d u s', reach s live ->
  add orc s node = Ok (d, u, s') ->
  (exists suf, get_ref s' = get_ref s ++ suf) /\ size s' = blen (get_ref s').
Proof. exact add_appends. Qed.

Theorem C19_restore_truncates : forall s live u s0, reach s live -> In (u, s0) live ->
  is_prefix (get_ref (restore u s)) (get_ref s) /\
  get_ref (restore u s) = firstn (N.to_nat (u_pos u)) (get_ref s).
Proof. exact restore_truncates. Qed.

(* ---- totality: in a reachable state whose serialization is not complete, add cannot fail for
   any oracle — no panic site of the model (asserts 32, 33) and no fuel exhaustion — as long as
   atoms and returned paths are shorter than 2^34 bytes (write_atom's limit). The premise on
   write_stk holds when every added tree had small atoms (it holds sub-trees of additions only,
   and add preserves it). *)
Theorem C19_add_total : forall s live orc node, reach s live -> read_ops s <> [] ->
  orc_small orc -> small node -> Forall small (write_stk s) ->
  exists d u s', add orc s node = Ok (d, u, s') /\ Forall small (write_stk s').
Proof. exact add_total. Qed.

(* ---- (2) decode, at the format level of C17.
   reach_ok: the states reachable by add (valid oracle, atoms byte-valued) and restore of any live
   undo state, together with the additions that are retained; orc_valid: every answer of the
   oracle is a path that denotes, in the list of the trees on the parse stack, the tree of the
   node being written; assembled A T: T is the first addition with every sentinel replaced, left
   to right, by the next addition (whose own sentinels are replaced first). *)
Theorem C19_decode : forall s A live orc node u s', reach_ok s A live ->
  orc_valid orc -> wf_stree node = true -> add orc s node = Ok (true, u, s') ->
  exists T, assembled (A ++ [node]) T /\ tc_stk s' = [T] /\ read_ops s' = [] /\
            enc PT [] T (get_ref s').
Proof. exact decode_complete. Qed.

Theorem C19_decode_both : forall s A live orc node u s' rest, reach_ok s A live ->
  orc_valid orc -> wf_stree node = true -> add orc s node = Ok (true, u, s') ->
  exists T, assembled (A ++ [node]) T /\
    de_br_spec (get_ref s' ++ rest) = Ok (T, rest) /\
    snd (node_from_stream_backrefs (get_ref s' ++ rest)) = Ok (T, rest) /\
    snd (node_from_stream_backrefs_old (get_ref s' ++ rest)) = Ok (T, rest) /\
    serialized_length_from_bytes (get_ref s' ++ rest) = Ok (size s') /\
    into_inner s' = Ok (get_ref s').
Proof. exact decode_both. Qed.

(* the same for a completed state reached in any way (for instance by a restore) *)
Theorem C19_decode_at_rest : forall s A live, reach_ok s A live -> read_ops s = [] ->
  exists T, assembled A T /\ tc_stk s = [T] /\ enc PT [] T (get_ref s).
Proof. exact decode_at_rest. Qed.

(* add reports completion exactly when nothing is left to read; the invariant of every state at
   rest (no panic site of the model has been passed) *)
Theorem C19_done_iff : forall s A live orc node d u s', reach_ok s A live ->
  orc_valid orc -> wf_stree node = true -> add orc s node = Ok (d, u, s') ->
  (d = true <-> read_ops s' = []).
Proof.
  intros s A live orc node d u s' Hr Hv Hw Ha.
  exact (proj2 (add_dec orc s node d u s' A Hv Hw (proj1 (reach_ok_inv s A live Hr)) Ha)).
Qed.

(* the reachable states of the decode theorem are reachable states of the undo theorem *)
Theorem C19_reach_ok_reach : forall s A live, reach_ok s A live -> reach s (forget live).
Proof. exact reach_ok_reach. Qed.

(* the executable assemble agrees with the relation *)
Theorem C19_assemble : forall adds t, assemble adds = Some t -> assembled adds t.
Proof. exact assemble_assembled. Qed.

(* the premises are satisfiable by an oracle that emits back-references: "the top of the stack" *)
Theorem C19_decode_witness :
  orc_valid top_orc /\ orc_valid (fun _ _ => None) /\
  add top_orc ser_new w_n0 = Ok (false, w_u1, w_s1) /\
  reach_ok w_s1 ([] ++ [w_n0]) [(w_u1, ser_new, [])] /\
  add top_orc w_s1 w_x = Ok (true, w_u2, w_s2) /\
  get_ref w_s2 = [255; 132; 1; 2; 3; 4; 254; 2] /\
  assembled [w_n0; w_x] (Cons (Atom [1; 2; 3; 4]) (Atom [1; 2; 3; 4])).
Proof.
  exact (conj top_orc_valid (conj none_orc_valid (conj w_step1 (conj w_reach (conj w_step2 (conj w_bytes w_assembled)))))).
Qed.

(* ---- (3) salt: the part about incremental.rs *)
Theorem C19_salt : forall (Salt : Type) (tree_cache : Salt -> oracle) (salt1 salt2 : Salt),
  (forall s n, tree_cache salt1 s n = tree_cache salt2 s n) ->
  forall ops s undos obs,
    run_history (tree_cache salt1) ops s undos obs = run_history (tree_cache salt2) ops s undos obs.
Proof. intros Salt tc s1 s2 H. exact (run_history_ext (tc s1) (tc s2) H). Qed.

(* ---- examples: upstream's test_restore as a history of the model, with the oracle that answers
   like the implementation did (one back-reference, fe02, at position 8 of the second completion) *)
Definition ex_item : stree :=
  SCons (SCons (SAtom [1]) (SAtom [2])) (SCons (SAtom [3]) (SAtom [4])).
Definition ex_orc : oracle :=
  fun s n => if (size s =? 8) && negb (is_hole n) && (ssize n =? 7)%nat then Some [2] else None.

Example C19_witness_history :
  run_history ex_orc
    [HAdd (SCons ex_item SHole); HAdd (SAtom []); HRestore 1; HAdd ex_item; HRestore 1; HAdd (SAtom [5; 57])]
    ser_new [] [] =
  Ok ({| read_ops := []; write_stk := [];
         tc_stk := [Cons (to_sexp ex_item) (Atom [5; 57])];
         out := {| c_vec := [255; 255; 255; 1; 2; 255; 3; 4; 130; 5; 57]; c_pos := 11 |} |},
      [[255; 255; 255; 1; 2; 255; 3; 4];
       [255; 255; 255; 1; 2; 255; 3; 4; 128];
       [255; 255; 255; 1; 2; 255; 3; 4];
       [255; 255; 255; 1; 2; 255; 3; 4; 254; 2];
       [255; 255; 255; 1; 2; 255; 3; 4];
       [255; 255; 255; 1; 2; 255; 3; 4; 130; 5; 57]]).
Proof. vm_compute. reflexivity. Qed.

(* why "live" matters: restoring an undo state whose add has been undone (here: undo #0, then the
   dead state #1) puts the cursor beyond the end of the truncated Vec; the next write zero-fills
   the gap. The implementation produces the same bytes (lib/gen_incr.py misuse_histories). *)
Example C19_dead_undo_state_is_misuse :
  let x := SAtom [102; 111; 111; 98; 97; 114] in let y := SAtom [98; 97; 114; 102; 111; 111] in
  res_map snd (run_history (fun _ _ => None)
    [HAdd (SCons x SHole); HAdd (SCons y SHole); HRestore 0; HRestore 1; HAdd (SAtom [])] ser_new [] []) =
  Ok [[255; 134; 102; 111; 111; 98; 97; 114];
      [255; 134; 102; 111; 111; 98; 97; 114; 255; 134; 98; 97; 114; 102; 111; 111];
      []; [];
      [0; 0; 0; 0; 0; 0; 0; 0; 128]].
Proof. vm_compute. reflexivity. Qed.

Print Assumptions C19_undo.
Print Assumptions C19_undo_bytes.
Print Assumptions C19_undo_behaves.
Print Assumptions C19_append_only.
Print Assumptions C19_restore_truncates.
Print Assumptions C19_add_total.
Print Assumptions C19_decode.
Print Assumptions C19_decode_both.
Print Assumptions C19_decode_at_rest.
Print Assumptions C19_done_iff.
Print Assumptions C19_reach_ok_reach.
Print Assumptions C19_assemble.
Print Assumptions C19_decode_witness.
Print Assumptions C19_salt.
Print Assumptions C19_witness_history.
Print Assumptions C19_dead_undo_state_is_misuse.
