(* C13 — allocator limits are enforced exactly.
   Only statements here; every proof is `exact <lemma>`.

   Full statement: from any allocator state that respects the caps, after ANY history of public
   operations atom_count <= 62 500 000, pair_count <= 62 500 000 and heap_size <= heap_limit; an
   operation fails with TooManyAtoms / TooManyPairs / OutOfMemory exactly when completing it would
   exceed the cap; a failed allocation leaves contents and counts unchanged.

   Proved: C13_caps for every history — parametric in [fx] (does new_substr's copy-to-heap branch
   check the heap limit?): for the repaired code (fx = true) unconditionally, for the code as it
   is (fx = false) for every history that does not take that branch. C13_current instantiates it
   with what the translator reads from /repo on this run (Gen/AllocConsts.src_f2_fixed). The
   per-operation exactness lemmas are C12_new_atom / C12_new_pair / C12_new_substr /
   C12_new_concat (Props/C12.v, they carry both directions: each Err case states the exceeded
   cap, each Ok case that no cap was exceeded, in the order the implementation checks them) and
   C13_add_ghost_atom / C13_add_ghost_pair below; C13_failed_unchanged: an operation that returns
   an error leaves the whole state as it was. C13_refuted: finding F2 on the unchanged code.
   The histories run the model functions [a_step]; "programs" (run_program inside such an
   allocator) are covered by the correspondence/monitor runs only. The degenerate start
   new_limited(0) has heap_size 1 > 0 before any operation (hypothesis 1 <= limit).
   C13_limit_monotone: the heap limit only ever removes successes - a history that meets no OutOfMemory
   under limit L (on the reference accounting) has the same observations on the reference under every
   L' >= L, and the real arena ends with the same counts and the same node contents under both limits
   (through C12_history); this is also the LIMIT_HEAP clause of C07 (the flag only lowers the wheel's
   allocator limit) and the "as long as neither run hits a limit" side condition of C03.
   Hypotheses: byte arguments are bytes (< 256); the history did not hit a Rust panic (API misuse:
   atom accessor on a pair, remove_ghost_pair below zero, new_small_number above 2^26 - 1). *)
From Clvm Require Import Model.AllocHist Proofs.AllocBasics Proofs.AllocHeap Proofs.AllocOps
  Proofs.AllocInv Gen.AllocConsts.
From Clvm Require Import Model.Alloc Model.AllocRef Proofs.AllocSim Proofs.AllocStraddle Proofs.LimitMonotone.
From Coq Require Import Lia.
Open Scope N_scope.

Theorem C13_caps : forall fx limit h st, 1 <= limit -> Forall wf_op h ->
  a_final fx limit h = Some st -> a_dead st = false -> (fx = true \/ a_f2 st = false) ->
  atom_count (a_al st) <= 62500000 /\ pair_count (a_al st) <= 62500000 /\
  heap_size (a_al st) <= heap_limit (a_al st) /\ heap_limit (a_al st) <= 4294967295.
Proof. exact caps_after_history. Qed.

Theorem C13_current : forall limit h st, 1 <= limit -> Forall wf_op h ->
  a_final src_f2_fixed limit h = Some st -> a_dead st = false -> (src_f2_fixed = true \/ a_f2 st = false) ->
  atom_count (a_al st) <= 62500000 /\ pair_count (a_al st) <= 62500000 /\
  heap_size (a_al st) <= heap_limit (a_al st) /\ heap_limit (a_al st) <= 4294967295.
Proof. exact (caps_after_history src_f2_fixed). Qed.

(* the invariant itself (well-formed heap, valid nodes, restorable checkpoints) from any good state *)
Theorem C13_invariant : forall fx h st, AINV st -> Forall wf_op h ->
  a_dead (fst (a_run fx st h)) = false -> (fx = true \/ a_f2 (fst (a_run fx st h)) = false) ->
  AINV (fst (a_run fx st h)) /\ keeps st (fst (a_run fx st h)).
Proof. exact ainv_run. Qed.

Theorem C13_add_ghost_atom : forall a n, AOK a ->
  match add_ghost_atom a n with
  | Err e => e = TooManyAtoms /\ MAX_NUM_ATOMS < atom_count a + n
  | Ok a' => atom_count a + n <= MAX_NUM_ATOMS /\ AOK a' /\ hp a' = hp a /\ bump a a' n 0 0
  end.
Proof. exact add_ghost_atom_spec. Qed.

Theorem C13_add_ghost_pair : forall a n, AOK a ->
  match add_ghost_pair a n with
  | Err e => e = TooManyPairs /\ MAX_NUM_PAIRS < pair_count a + n
  | Ok a' => pair_count a + n <= MAX_NUM_PAIRS /\ AOK a' /\ hp a' = hp a /\ bump a a' 0 n 0
  end.
Proof. exact add_ghost_pair_spec. Qed.

Theorem C13_failed_unchanged : forall fx st o st' e,
  a_step fx st o = (st', ObErr e) -> is_panic e = false ->
  (forall k i, o <> OMaybeRestore k i) -> st' = st.
Proof. exact a_step_err_unchanged. Qed.

(* finding F2 on the unchanged code: heap limit 3, new_small_number(0x80), new_substr(it, 1, 2)
   succeeds and leaves heap_size 4 *)
Theorem C13_refuted :
  exists limit h st, 1 <= limit /\ Forall wf_op h /\ a_final false limit h = Some st /\ a_dead st = false /\
                     heap_limit (a_al st) < heap_size (a_al st).
Proof. exact f2_cap_refuted. Qed.

(* non-vacuity of C13_caps: a history that reaches all three caps' neighbourhood *)
Example C13_witness :
  let h := [OAddGhostAtom 62499996; ONewAtom [1; 2; 3]; ONewAtom [4]; ONewAtom [5]; ONewAtom [6; 7; 8; 9; 10; 11]] in
  option_map a_counts (a_final true 10 h) = Some (62500000, 0, 5) /\
  option_map a_dead (a_final true 10 h) = Some false /\
  option_map (fun st => snd (a_step true st (ONewAtom []))) (a_final true 10 h) = Some (ObErr TooManyAtoms).
Proof. vm_compute. repeat split. Qed.

Theorem C13_limit_monotone_ref : forall L L' h, L <= L' -> no_oom (snd (r_run (r_init L) h)) = true ->
  r_final L' h = relim_st L' (r_final L h) /\ snd (r_run (r_init L') h) = snd (r_run (r_init L) h).
Proof. exact r_final_mono. Qed.

Theorem C13_limit_monotone : forall fx L L' h st st',
  1 <= L -> L <= L' -> Forall wf_op2 h ->
  no_oom (snd (r_run (r_init L) h)) = true ->
  a_final fx L h = Some st -> a_dead st = false -> a_f2 st = false ->
  (forall st0, a_init L = Ok st0 -> substr_clean fx st0 h) ->
  a_final fx L' h = Some st' -> a_dead st' = false -> a_f2 st' = false ->
  (forall st0, a_init L' = Ok st0 -> substr_clean fx st0 h) ->
  a_counts st' = a_counts st /\
  exists ts, Forall2 (fun n t => denote (hp (a_al st)) n = Some t) (a_nodes st) ts /\
             Forall2 (fun n t => denote (hp (a_al st')) n = Some t) (a_nodes st') ts.
Proof. exact arena_limit_monotone. Qed.

(* non-vacuity: a history with heap atoms, a concat, a substring, checkpoints and a GC roll-back fits
   limit 3000 without OutOfMemory and gives the same counts under 3000 and 4294967295; under limit 700
   it does meet OutOfMemory (so the premise is not trivially true) *)
Definition lim_hist : list op :=
  [ONewAtom [1; 2; 3; 4; 5]; ONewSmall 7; OCheckpoint; ONewPair 0 1; ONewSubstr 0 1 3; ONewConcat 7 [0; 3];
   OTCheckpoint; ONewAtom (repeat 9 600%nat); ONewAtom (repeat 8 600%nat); ONewAtom [200; 1; 2]; OMaybeRestore 0 7;
   ONewI64 (-1); ORestore 1; ONewU64 300].

Example C13_limit_witness :
  no_oom (snd (r_run (r_init 3000) lim_hist)) = true /\ no_oom (snd (r_run (r_init 700) lim_hist)) = false /\
  option_map a_dead (a_final true 3000 lim_hist) = Some false /\ option_map a_f2 (a_final true 3000 lim_hist) = Some false /\
  option_map a_dead (a_final true 4294967295 lim_hist) = Some false /\
  option_map a_counts (a_final true 3000 lim_hist) = option_map a_counts (a_final true 4294967295 lim_hist) /\
  snd (r_run (r_init 700) lim_hist) <> snd (r_run (r_init 3000) lim_hist).
Proof. repeat split; try (vm_compute; reflexivity). vm_compute. discriminate. Qed.

Print Assumptions C13_limit_monotone_ref.
Print Assumptions C13_limit_monotone.
Print Assumptions C13_limit_witness.
Print Assumptions C13_caps.
Print Assumptions C13_current.
Print Assumptions C13_invariant.
Print Assumptions C13_add_ghost_atom.
Print Assumptions C13_add_ghost_pair.
Print Assumptions C13_failed_unchanged.
Print Assumptions C13_refuted.
Print Assumptions C13_witness.
