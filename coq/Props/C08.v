(* C08 — soft-fork safety: nodes unaware of an extension accept what aware nodes accept.
   Only statements here; every proof is `exact <lemma>` from Proofs/SoftforkSafety.v (which rests
   on the guard theorem of Proofs/MachineGuard.v and the frame lemma of Proofs/MachineFrame.v).

   Full statement: in consensus mode (no NO_UNKNOWN_OPS) under the pre-hard-fork cost model,
   whenever a program succeeds on a dialect that implements the softfork extensions and the
   4-byte secp256k1/secp256r1 operators, it also succeeds on an otherwise identical dialect that
   treats those extensions and opcodes as unknown, with the same result, the same cost and the
   same allocator atom, pair and heap counts afterwards.

   The aware dialect is [chia_dialect P flags] (ChiaDialect), the unaware one
   [hiding_dialect P flags] (softfork_extension always Default, the 4-byte opcodes are unknown
   operators), both over arbitrary cryptographic primitives P, on the machine of
   Model/Machine.v (run_program.rs on the tree store).

   Proved, for every flag set without NEW_COST_MODEL and NO_UNKNOWN_OPS, every program,
   environment, budget:
     C08_run          run aware = Ok (cost, value)  ->  run hiding = Ok (cost, value)
                      (same fuel bound; the hiding run takes fewer loop iterations)
   and its ingredients
     C08_secp_cost    the unknown-operator cost rule charges opcode 13d61f00 exactly
                      SECP256K1_VERIFY_COST and 1c3a8f00 exactly SECP256R1_VERIFY_COST, for every
                      argument list and both cost models (budget at least 1)
     C08_secp_value   a successful secp call returns nil and its fixed cost
     C08_op           every operator success of the aware dialect is the same success of the
                      hiding dialect (any operator set)
     C08_hiding_guard on the hiding dialect a softfork call with a well-formed cost argument is
                      skipped in one step: nil, cost + declared cost - for every extension
     C08_guard_agree  on the aware dialect a guard that completes ends in exactly that state at
                      exactly that cost (C31_guard; no operator set is cost-exempt without
                      NEW_COST_MODEL)
     C08_counters     the allocator-counter clause on the allocator models of C12: after enter
                      (checkpoint) - any guard body that restores only its own checkpoints - leave
                      (full restore) the arena's three counts are exactly those at guard entry,
                      i.e. what the unaware node has, which skips the guard without allocating
                      (= C31_counters; run_program.rs' checkpoint / unconditional restore sites are
                      pinned by the translator)
   Not proved: the composition of the interpreter model with the allocator model (observed on the
   implementation by lib/props/c08.py, which compares the three counts of both dialects). *)
From Clvm Require Import Model.Machine Model.Dialect Model.OpsUnknown Model.OpsCrypto
  Proofs.MachineGuard Proofs.CryptoWrap2 Proofs.SoftforkSafety.
From Clvm Require Import Model.Alloc Model.AllocRef Model.AllocHist Proofs.AllocBasics Proofs.AllocSim Proofs.AllocStraddle Proofs.GuardCounters.
Open Scope N_scope.

Theorem C08_run : forall P flags,
  f_new_cost_model flags = false -> f_no_unknown_ops flags = false ->
  forall fuel p e M r,
  run_program (chia_dialect P flags) fuel p e M = Ok r ->
  run_program (hiding_dialect P flags) fuel p e M = Ok r.
Proof. exact chia_run_hide. Qed.

Theorem C08_secp_cost : forall lens ncm m, 1 <= m ->
  unknown_cost [0x13; 0xd6; 0x1f; 0x00] lens ncm m = Ok SECP256K1_VERIFY_COST /\
  unknown_cost [0x1c; 0x3a; 0x8f; 0x00] lens ncm m = Ok SECP256R1_VERIFY_COST.
Proof. exact unknown_cost_secp. Qed.

Theorem C08_secp_value : forall cost pk_ok sig_ok verify f a m r,
  secp_verify cost pk_ok sig_ok verify f a m = Ok r -> cost <= m /\ r = (cost, nil_s).
Proof. exact secp_ok_value. Qed.

Theorem C08_op : forall P f0 o a m ext r, f_no_unknown_ops f0 = false ->
  chia_op P true f0 o a m ext = Ok r -> chia_op P false f0 o a m ext = Ok r.
Proof. exact chia_op_hide. Qed.

Theorem C08_hiding_guard : forall P flags, f_no_unknown_ops flags = false ->
  forall M cost args operator e0 vs es rest gs fa declared,
  is_kw operator 36 = true -> first args = Ok fa ->
  uint_atom 8 (f_canonical_ints (dialect_flags flags)) fa = Ok declared ->
  let st := {| vals := args :: operator :: vs; envs := e0 :: es; ops := OApply :: rest; guards := gs |} in
  step (hiding_dialect P flags) M cost st =
    if effective_max st M <? cost then Err CostExceeded
    else if effective_max st M - cost <? declared then Err CostExceeded
    else if declared =? 0 then Err CostExceeded
    else Ok (inl (cost + declared, {| vals := nil_s :: vs; envs := es; ops := rest; guards := gs |})).
Proof. exact hiding_guard_step. Qed.

Theorem C08_guard_agree : forall P flags,
  f_new_cost_model flags = false -> f_no_unknown_ops flags = false ->
  forall M cost st vs es rest gs declared ext prg env,
  guard_call (chia_dialect P flags) st vs es rest gs declared ext prg env ->
  forall n c' st', nsteps (chia_dialect P flags) M n (cost, st) (c', st') ->
  (length (ops st') <= length rest)%nat ->
  exists k, (k <= n)%nat /\
    nsteps (chia_dialect P flags) M k (cost, st)
      (cost + declared, {| vals := nil_s :: vs; envs := es; ops := rest; guards := gs |}) /\
    nsteps (chia_dialect P flags) M (n - k)
      (cost + declared, {| vals := nil_s :: vs; envs := es; ops := rest; guards := gs |}) (c', st') /\
    step (hiding_dialect P flags) M cost st =
      Ok (inl (cost + declared, {| vals := nil_s :: vs; envs := es; ops := rest; guards := gs |})).
Proof. exact chia_guard_agree. Qed.

(* non-vacuity: a calibrated BLS guard (extension 0) around (q . 1) and a guard for the unknown
   extension 7 run to the same (cost, nil) on both dialects; a guard declaring 161 instead of 160
   fails on the aware dialect only (the implication has no converse). *)
Definition q_ (x : sexp) : sexp := Cons (Atom [1]) x.
Definition sf_ (declared : bytes) (ext : bytes) (body : sexp) : sexp :=
  Cons (Atom [36]) (Cons (q_ (Atom declared)) (Cons (q_ (Atom ext)) (Cons (q_ body) (Cons (q_ nil_s) nil_s)))).

Example C08_witness : forall P,
  let f := flags_of_N 0 in
  run_program (chia_dialect P f) 100 (sf_ [0; 160] [] (q_ (Atom [1]))) nil_s 0 = Ok (241, nil_s) /\
  run_program (hiding_dialect P f) 100 (sf_ [0; 160] [] (q_ (Atom [1]))) nil_s 0 = Ok (241, nil_s) /\
  run_program (chia_dialect P f) 100 (sf_ [0; 160] [7] (q_ (Atom [1]))) nil_s 0 = Ok (241, nil_s) /\
  run_program (hiding_dialect P f) 100 (sf_ [0; 160] [7] (q_ (Atom [1]))) nil_s 0 = Ok (241, nil_s) /\
  run_program (chia_dialect P f) 100 (sf_ [0; 161] [] (q_ (Atom [1]))) nil_s 0 = Err SoftforkCostMismatch /\
  run_program (hiding_dialect P f) 100 (sf_ [0; 161] [] (q_ (Atom [1]))) nil_s 0 = Ok (242, nil_s).
Proof. intros P. vm_compute. repeat split. Qed.

Print Assumptions C08_run.
Print Assumptions C08_secp_cost.
Print Assumptions C08_secp_value.
Print Assumptions C08_op.
Print Assumptions C08_hiding_guard.
Print Assumptions C08_guard_agree.
Print Assumptions C08_witness.

Theorem C08_counters : forall fx limit pre body st_pre st_end,
  1 <= limit ->
  let rs := r_final limit pre in
  let rs1 := fst (r_step rs OCheckpoint) in
  let rs2 := fst (r_run rs1 body) in
  let k := N.of_nat (length (r_cps rs2) - length (r_cps rs1)) in
  let h := pre ++ OCheckpoint :: body ++ [ORestore k] in
  Forall wf_op2 h ->
  a_final fx limit pre = Some st_pre -> a_dead st_pre = false -> a_f2 st_pre = false ->
  (forall st0, a_init limit = Ok st0 -> substr_clean fx st0 pre) ->
  a_final fx limit h = Some st_end -> a_dead st_end = false -> a_f2 st_end = false ->
  (forall st0, a_init limit = Ok st0 -> substr_clean fx st0 h) ->
  body_local (length (r_cps rs1)) rs1 body = true -> r_dead rs2 = false ->
  a_counts st_end = a_counts st_pre.
Proof. exact arena_guard_counts. Qed.
Print Assumptions C08_counters.
