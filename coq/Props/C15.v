From Clvm Require Import Model.Classic.
