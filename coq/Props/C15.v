(* C15 — classic serialization round-trips and is canonical.
   Only statements here; every proof is `exact <lemma>` from Proofs/Classic*.v.

   [wf_sexp t] says every list element of every atom is a byte (< 256): the model's byte strings
   are lists of N. [ser t = Some e] says the tree is serializable at all (every atom < 2^34
   bytes, C15_ser_defined).

   Full statement = C15_roundtrip /\ C15_canonical /\ C15_trusted_length /\ C15_untrusted_length
   /\ C15_cache_length /\ C15_converse. Proved: the first three, the cache length, and
   node_to_bytes = ser. NOT proved (so the property is claimed below proof level):
     C15_converse : parse bs = Ok (t, rest) -> is_canonical_serialization consumed = BTrue ->
                    ser t = Some consumed
     C15_untrusted_length (serialized_length_from_bytes also steps over back-references and is
                    not modelled in Model/Classic.v)
   Both are decided on the implementation by the check's search ("agree" and "tree" families). *)
From Clvm Require Import Model.Classic Proofs.ClassicProofs Proofs.ClassicWriter.
Open Scope N_scope.

Theorem C15_ser_defined : forall t, atoms_small t = true <-> ser t <> None.
Proof. exact ser_defined. Qed.

(* node_to_bytes (limit 2 000 000) produces exactly [ser t] *)
Theorem C15_node_to_bytes : forall t e, ser t = Some e -> blen e <= 2000000 -> node_to_bytes t = Ok e.
Proof. exact node_to_bytes_ser. Qed.

(* decoding the serialization (followed by anything) gives the identical tree and stops exactly
   at its end; stated for the stack decoder node_from_stream and for the recursive grammar *)
Theorem C15_roundtrip : forall t e rest, wf_sexp t = true -> ser t = Some e ->
  node_from_stream (e ++ rest) = Ok (t, rest).
Proof. exact node_from_stream_ser. Qed.

Theorem C15_roundtrip_grammar : forall t e rest, wf_sexp t = true -> ser t = Some e ->
  parse (e ++ rest) = Ok (t, rest).
Proof. exact parse_ser. Qed.

Theorem C15_canonical : forall t e, wf_sexp t = true -> ser t = Some e ->
  is_canonical_serialization e = BTrue.
Proof. exact is_canonical_ser. Qed.

Theorem C15_trusted_length : forall t e rest, wf_sexp t = true -> ser t = Some e ->
  serialized_length_trusted (e ++ rest) = Ok (blen e).
Proof. exact trusted_length_ser. Qed.

(* object-cache length: u32 arithmetic in serialized_length_atom, saturating u64 adds; equal to
   the byte count whenever that is below 2^32 - 5 *)
Theorem C15_cache_length : forall t e, ser t = Some e -> blen e < 4294967291 ->
  cache_serialized_length t = Ok (blen e).
Proof. exact cache_serialized_length_spec. Qed.

(* non-vacuity: atoms on both sides of the 1-byte/2-byte prefix boundary *)
Example C15_witness :
  let t := Cons (Atom (repeat 7 63)) (Cons (Atom (repeat 0x80 64)) (Atom [])) in
  wf_sexp t = true /\ (exists e, ser t = Some e /\ blen e = 133 /\ is_canonical_serialization e = BTrue
     /\ node_from_stream (e ++ [9]) = Ok (t, [9])).
Proof. split; [vm_compute; reflexivity|]. eexists. split; [vm_compute; reflexivity|]. vm_compute. repeat split. Qed.

Print Assumptions C15_ser_defined.
Print Assumptions C15_node_to_bytes.
Print Assumptions C15_roundtrip.
Print Assumptions C15_roundtrip_grammar.
Print Assumptions C15_canonical.
Print Assumptions C15_trusted_length.
Print Assumptions C15_cache_length.
Print Assumptions C15_witness.
