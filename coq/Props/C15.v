(* C15 — classic serialization round-trips and is canonical.
   Only statements here; every proof is `exact <lemma>` from Proofs/Classic*.v.

   [wf_sexp t] / [wf_bytes b] say every list element is a byte (< 256): the model's byte strings
   are lists of N. [ser t = Some e] says the tree is serializable at all (every atom < 2^34
   bytes, C15_ser_defined).

   Full statement = C15_node_to_bytes (the limited writer produces [ser t]) /\ C15_roundtrip /\
   C15_canonical /\ C15_trusted_length /\ C15_untrusted_length /\ C15_cache_length /\ C15_converse.
   All conjuncts are proved, for every tree / every byte string:
     C15_untrusted_length  serialized_length_from_bytes (src/serde/tools.rs:112, the shadow-tree
                           probe that also validates back-references; modelled in Model/BackRef.v)
                           returns the byte count of the serialization, whatever follows it;
     C15_lengths_on_accepted  more generally both length functions return the consumed byte count
                           on every input the classic decoder accepts;
     C15_converse          any byte string that node_from_stream decodes and whose consumed prefix
                           is_canonical_serialization accepts re-serializes to exactly that prefix
                           (C15_consumed_prefix: what the decoder leaves is a suffix of its input;
                           C15_converse_split is the same statement with the split given).
   C15_cache_length holds below 2^32 - 5 bytes (u32 arithmetic of serialized_length_atom; beyond it
   the function reports Overflow or wraps: outside "fits the size limit"). *)
From Clvm Require Import Model.Classic Model.BackRef Proofs.ClassicProofs Proofs.ClassicWriter
  Proofs.ClassicConverse Proofs.ClassicUntrusted.
Open Scope N_scope.

Theorem C15_ser_defined : forall t, atoms_small t = true <-> ser t <> None.
Proof. exact ser_defined. Qed.

(* node_to_bytes (limit 2 000 000) produces exactly [ser t] *)
Theorem C15_node_to_bytes : forall t e, ser t = Some e -> blen e <= 2000000 -> node_to_bytes t = Ok e.
Proof. exact node_to_bytes_ser. Qed.

(* decoding the serialization (followed by anything) gives the identical tree and stops exactly
   at its end; stated for the stack decoder node_from_stream and for the recursive grammar *)
Theorem C15_roundtrip : forall t e rest, wf_sexp t = true -> ser t = Some e ->
  node_from_stream (e ++ rest) = Ok (t, rest).
Proof. exact node_from_stream_ser. Qed.

Theorem C15_roundtrip_grammar : forall t e rest, wf_sexp t = true -> ser t = Some e ->
  parse (e ++ rest) = Ok (t, rest).
Proof. exact parse_ser. Qed.

Theorem C15_canonical : forall t e, wf_sexp t = true -> ser t = Some e ->
  is_canonical_serialization e = BTrue.
Proof. exact is_canonical_ser. Qed.

Theorem C15_trusted_length : forall t e rest, wf_sexp t = true -> ser t = Some e ->
  serialized_length_trusted (e ++ rest) = Ok (blen e).
Proof. exact trusted_length_ser. Qed.

(* object-cache length: u32 arithmetic in serialized_length_atom, saturating u64 adds; equal to
   the byte count whenever that is below 2^32 - 5 *)
Theorem C15_cache_length : forall t e, ser t = Some e -> blen e < 4294967291 ->
  cache_serialized_length t = Ok (blen e).
Proof. exact cache_serialized_length_spec. Qed.

(* the untrusted length probe (back-reference aware) on a classic serialization *)
Theorem C15_untrusted_length : forall t e rest, wf_sexp t = true -> ser t = Some e ->
  serialized_length_from_bytes (e ++ rest) = Ok (blen e).
Proof. exact untrusted_length_ser. Qed.

Theorem C15_lengths_on_accepted : forall bs t rest, node_from_stream bs = Ok (t, rest) ->
  serialized_length_from_bytes bs = Ok (blen bs - blen rest) /\
  serialized_length_trusted bs = Ok (blen bs - blen rest).
Proof. exact lengths_agree_on_accepted. Qed.

(* converse: decoded + judged canonical => the consumed bytes are the serialization of the tree *)
Theorem C15_consumed_prefix : forall bs t rest, node_from_stream bs = Ok (t, rest) ->
  bs = firstn (length bs - length rest) bs ++ rest.
Proof. exact node_from_stream_suffix. Qed.

Theorem C15_converse : forall bs t rest, wf_bytes bs = true -> node_from_stream bs = Ok (t, rest) ->
  is_canonical_serialization (firstn (length bs - length rest) bs) = BTrue ->
  ser t = Some (firstn (length bs - length rest) bs).
Proof. exact canonical_converse_consumed. Qed.

Theorem C15_converse_split : forall e rest t, wf_bytes e = true ->
  node_from_stream (e ++ rest) = Ok (t, rest) -> is_canonical_serialization e = BTrue ->
  ser t = Some e.
Proof. exact canonical_converse. Qed.

(* non-vacuity: atoms on both sides of the 1-byte/2-byte prefix boundary *)
Example C15_witness :
  let t := Cons (Atom (repeat 7 63)) (Cons (Atom (repeat 0x80 64)) (Atom [])) in
  wf_sexp t = true /\ (exists e, ser t = Some e /\ blen e = 133 /\ is_canonical_serialization e = BTrue
     /\ node_from_stream (e ++ [9]) = Ok (t, [9]) /\ serialized_length_from_bytes (e ++ [9]) = Ok 133).
Proof. split; [vm_compute; reflexivity|]. eexists. split; [vm_compute; reflexivity|]. vm_compute. repeat split. Qed.

(* the converse's hypotheses are met by a non-trivial input (trailing byte left over), and the
   canonical hypothesis is not redundant: a zero-padded two-byte prefix decodes to the same atom
   but is not canonical and is not what the serializer writes *)
Example C15_converse_witness :
  let bs := [0xff; 0x83; 1; 2; 3; 0xff; 0x80; 0x05; 0x77] in
  let t := Cons (Atom [1; 2; 3]) (Cons (Atom []) (Atom [5])) in
  wf_bytes bs = true /\ node_from_stream bs = Ok (t, [0x77]) /\
  is_canonical_serialization (firstn (length bs - 1) bs) = BTrue /\
  node_from_stream [0xc0; 0x03; 1; 2; 3] = Ok (Atom [1; 2; 3], []) /\
  is_canonical_serialization [0xc0; 0x03; 1; 2; 3] = BFalse /\
  ser (Atom [1; 2; 3]) = Some [0x83; 1; 2; 3].
Proof. vm_compute. repeat split. Qed.

Print Assumptions C15_ser_defined.
Print Assumptions C15_node_to_bytes.
Print Assumptions C15_roundtrip.
Print Assumptions C15_roundtrip_grammar.
Print Assumptions C15_canonical.
Print Assumptions C15_trusted_length.
Print Assumptions C15_cache_length.
Print Assumptions C15_untrusted_length.
Print Assumptions C15_lengths_on_accepted.
Print Assumptions C15_consumed_prefix.
Print Assumptions C15_converse.
Print Assumptions C15_converse_split.
Print Assumptions C15_witness.
Print Assumptions C15_converse_witness.
