open Bstr
open Datatypes
open Nat

type sexp =
| Atom of bytes
| Cons of sexp * sexp

(** val sexp_eqb : sexp -> sexp -> bool **)

let rec sexp_eqb a b =
  match a with
  | Atom x -> (match b with
               | Atom y -> bytes_eqb x y
               | Cons (_, _) -> false)
  | Cons (l1, r1) ->
    (match b with
     | Atom _ -> false
     | Cons (l2, r2) -> (&&) (sexp_eqb l1 l2) (sexp_eqb r1 r2))

(** val n_nodes : sexp -> nat **)

let rec n_nodes = function
| Atom _ -> S O
| Cons (l, r) -> S (add (n_nodes l) (n_nodes r))
