(* Operation histories over the allocator: the same list of operations is run on the arena model
   (Alloc.v) and on the reference (AllocRef.v). Arguments name earlier results by index:
   - [nodes]: every operation that returns a node appends it (oldest first); a restore to a
     checkpoint cuts the list back to its length at checkpoint time (later nodes are dead, exactly
     the NodePtrs the Rust API forbids to use after restore_checkpoint);
   - [cps]: live checkpoints, newest first; restoring to entry k drops the k newer entries (a
     checkpoint taken later than the one restored to can no longer be used: "you can only restore
     backwards in time"); entry k itself stays usable.
   maybe_restore_with_node is treated the way run_program uses it: whatever its outcome, the nodes
   created after the checkpoint are given up except the one passed in (or its replacement).
   An argument index that names nothing (or a checkpoint of the other kind) makes the operation a
   no-op with observation OSkip on both sides. After a panic the history is dead. *)
From Clvm Require Export Model.Alloc Model.AllocRef.
Open Scope N_scope.

Inductive op :=
| ONewAtom (b : bytes)
| ONewSmall (v : N)
| ONewU64 (v : N)
| ONewI64 (v : Z)
| ONewNumber (z : Z)
| ONewMalachite (z : Z)
| ONewPair (i j : N)
| ONewSubstr (i s e : N)
| ONewConcat (size : N) (is : list N)
| OAddGhostAtom (n : N)
| OAddGhostPair (n : N)
| ORemoveGhostPair (n : N)
| OCheckpoint
| OTCheckpoint
| ORestore (k : N)
| ORestoreT (k : N)
| OMaybeRestore (k i : N)
| OAtom (i : N)
| OAtomLen (i : N)
| OAtomEq (i j : N)
| OSmallNumber (i : N)
| ONumber (i : N)
| OSexp (i : N)
| ONodeView (i : N).

Inductive obs :=
| ObNode (t : option sexp)                 (* a node was returned; the tree it denotes *)
| ObMaybe (k : N) (t : option sexp)        (* maybe_restore: 0 NoReplace, 1 Replace, 2 Aborted *)
| ObUnit
| ObBytes (b : bytes)
| ObNum (n : N)
| ObBool (b : bool)
| ObOptN (o : option N)
| ObInt (z : Z)
| ObAtomV                                  (* sexp(): Atom *)
| ObPairV (l r : option sexp)              (* sexp()/node(): Pair, the trees of the children *)
| ObBufV (b : bytes)                       (* node(): Buffer *)
| ObU32V (v : N)                           (* node(): U32 *)
| ObErr (e : errkind)
| ObSkip
| ObDead.

Definition is_panic (e : errkind) : bool := match e with Panic _ => true | _ => false end.

Fixpoint get_all {A} (l : list A) (is : list N) : option (list A) :=
  match is with
  | [] => Some []
  | i :: r => match nth_N l i, get_all l r with Some x, Some xs => Some (x :: xs) | _, _ => None end
  end.

(* ------------------------------------------------------------------ arena side *)

Inductive cpent := CFull (c : checkpoint) (nl : N) | CTrans (c : tcheckpoint) (nl : N).

Record ast := mkA {
  a_al : alloc;
  a_nodes : list nodeptr;
  a_cps : list cpent;
  a_f2 : bool;             (* new_substr copied a slice of an inline atom to the heap (finding F2) *)
  a_dead : bool }.

Definition a_init (limit : N) : res ast :=
  do al <- new_limited limit; Ok (mkA al [] [] false false).

Definition a_fail (st : ast) (e : errkind) : ast * obs :=
  if is_panic e then (mkA (a_al st) (a_nodes st) (a_cps st) (a_f2 st) true, ObErr e)
  else (st, ObErr e).

Definition a_ret_node (st : ast) (r : res (alloc * nodeptr)) : ast * obs :=
  match r with
  | Ok (al, n) => (mkA al (a_nodes st ++ [n]) (a_cps st) (a_f2 st) false, ObNode (denote (hp al) n))
  | Err e => a_fail st e
  end.

Definition a_ret_unit (st : ast) (r : res alloc) : ast * obs :=
  match r with
  | Ok al => (mkA al (a_nodes st) (a_cps st) (a_f2 st) false, ObUnit)
  | Err e => a_fail st e
  end.

Definition a_ret_read (st : ast) (r : res obs) : ast * obs :=
  match r with Ok o => (st, o) | Err e => a_fail st e end.

Definition a_step_live (fx : bool) (st : ast) (o : op) : ast * obs :=
  let al := a_al st in
  let nodes := a_nodes st in
  match o with
  | ONewAtom b => a_ret_node st (new_atom al b)
  | ONewSmall v => a_ret_node st (new_small_number al v)
  | ONewU64 v => a_ret_node st (new_u64 al v)
  | ONewI64 v => a_ret_node st (new_i64 al v)
  | ONewNumber z => a_ret_node st (new_number al z)
  | ONewMalachite z => a_ret_node st (new_malachite_number al z)
  | ONewPair i j =>
      match nth_N nodes i, nth_N nodes j with
      | Some x, Some y => a_ret_node st (new_pair al x y)
      | _, _ => (st, ObSkip)
      end
  | ONewSubstr i s e =>
      match nth_N nodes i with
      | Some x =>
          match new_substr_gen fx al x s e with
          | Ok (al', n, path) =>
              (mkA al' (nodes ++ [n]) (a_cps st)
                   (a_f2 st || match path with SubSmallHeap => true | _ => false end) false,
               ObNode (denote (hp al') n))
          | Err e => a_fail st e
          end
      | None => (st, ObSkip)
      end
  | ONewConcat size is =>
      match get_all nodes is with
      | Some xs => a_ret_node st (new_concat al size xs)
      | None => (st, ObSkip)
      end
  | OAddGhostAtom n => a_ret_unit st (add_ghost_atom al n)
  | OAddGhostPair n => a_ret_unit st (add_ghost_pair al n)
  | ORemoveGhostPair n => a_ret_unit st (remove_ghost_pair al n)
  | OCheckpoint =>
      (mkA al nodes (CFull (checkpoint_of al) (nlen nodes) :: a_cps st) (a_f2 st) false, ObUnit)
  | OTCheckpoint =>
      (mkA al nodes (CTrans (transparent_checkpoint al) (nlen nodes) :: a_cps st) (a_f2 st) false, ObUnit)
  | ORestore k =>
      match nth_N (a_cps st) k with
      | Some (CFull c nl) =>
          match restore_checkpoint al c with
          | Ok al' => (mkA al' (take_N nl nodes) (skipn (N.to_nat k) (a_cps st)) (a_f2 st) false, ObUnit)
          | Err e => a_fail st e
          end
      | _ => (st, ObSkip)
      end
  | ORestoreT k =>
      match nth_N (a_cps st) k with
      | Some (CTrans c nl) =>
          match restore_transparent_checkpoint al c with
          | Ok al' => (mkA al' (take_N nl nodes) (skipn (N.to_nat k) (a_cps st)) (a_f2 st) false, ObUnit)
          | Err e => a_fail st e
          end
      | _ => (st, ObSkip)
      end
  | OMaybeRestore k i =>
      match nth_N (a_cps st) k, nth_N nodes i with
      | Some (CTrans c nl), Some x =>
          let '(al', r) := maybe_restore_with_node al c x in
          let cps' := skipn (N.to_nat k) (a_cps st) in
          match r with
          | Ok Aborted =>
              (mkA al' (take_N nl nodes ++ [x]) cps' (a_f2 st) false, ObMaybe 2 (denote (hp al') x))
          | Ok NoReplace =>
              (mkA al' (take_N nl nodes ++ [x]) cps' (a_f2 st) false, ObMaybe 0 (denote (hp al') x))
          | Ok (Replace n) =>
              (mkA al' (take_N nl nodes ++ [n]) cps' (a_f2 st) false, ObMaybe 1 (denote (hp al') n))
          | Err e =>
              if is_panic e then a_fail st e
              else (mkA al' (take_N nl nodes) cps' (a_f2 st) false, ObErr e)
          end
      | _, _ => (st, ObSkip)
      end
  | OAtom i =>
      match nth_N nodes i with
      | Some x => a_ret_read st (do b <- atom al x; Ok (ObBytes b))
      | None => (st, ObSkip)
      end
  | OAtomLen i =>
      match nth_N nodes i with
      | Some x => a_ret_read st (do n <- atom_len al x; Ok (ObNum n))
      | None => (st, ObSkip)
      end
  | OAtomEq i j =>
      match nth_N nodes i, nth_N nodes j with
      | Some x, Some y => a_ret_read st (do b <- atom_eq al x y; Ok (ObBool b))
      | _, _ => (st, ObSkip)
      end
  | OSmallNumber i =>
      match nth_N nodes i with
      | Some x => a_ret_read st (do o <- small_number al x; Ok (ObOptN o))
      | None => (st, ObSkip)
      end
  | ONumber i =>
      match nth_N nodes i with
      | Some x => a_ret_read st (do z <- number al x; Ok (ObInt z))
      | None => (st, ObSkip)
      end
  | OSexp i =>
      match nth_N nodes i with
      | Some x => a_ret_read st
          (do v <- sexp_of al x;
           Ok (match v with
               | SAtom => ObAtomV
               | SPair l r => ObPairV (denote (hp al) l) (denote (hp al) r)
               end))
      | None => (st, ObSkip)
      end
  | ONodeView i =>
      match nth_N nodes i with
      | Some x => a_ret_read st
          (do v <- node_of al x;
           Ok (match v with
               | NBuffer b => ObBufV b
               | NU32 v => ObU32V v
               | NPair l r => ObPairV (denote (hp al) l) (denote (hp al) r)
               end))
      | None => (st, ObSkip)
      end
  end.

Definition a_step (fx : bool) (st : ast) (o : op) : ast * obs :=
  if a_dead st then (st, ObDead) else a_step_live fx st o.

Fixpoint a_run (fx : bool) (st : ast) (h : list op) : ast * list obs :=
  match h with
  | [] => (st, [])
  | o :: r => let '(st1, ob) := a_step fx st o in
              let '(st2, obs) := a_run fx st1 r in (st2, ob :: obs)
  end.

(* ------------------------------------------------------------------ reference side *)

Inductive rcpent := RFull (c : N * N * N) (nl : N) | RTrans (nl : N).

Record rst := mkRS { r_st : rstate; r_nodes : list sexp; r_cps : list rcpent; r_dead : bool }.

Definition r_init (limit : N) : rst := mkRS (r_new limit) [] [] false.

Definition r_fail (st : rst) (e : errkind) : rst * obs :=
  if is_panic e then (mkRS (r_st st) (r_nodes st) (r_cps st) true, ObErr e) else (st, ObErr e).

Definition r_ret_node (st : rst) (r : res (rstate * sexp)) : rst * obs :=
  match r with
  | Ok (s, t) => (mkRS s (r_nodes st ++ [t]) (r_cps st) false, ObNode (Some t))
  | Err e => r_fail st e
  end.
Definition r_ret_unit (st : rst) (r : res rstate) : rst * obs :=
  match r with
  | Ok s => (mkRS s (r_nodes st) (r_cps st) false, ObUnit)
  | Err e => r_fail st e
  end.
Definition r_ret_read (st : rst) (r : res obs) : rst * obs :=
  match r with Ok o => (st, o) | Err e => r_fail st e end.

Definition r_step_live (st : rst) (o : op) : rst * obs :=
  let s := r_st st in
  let nodes := r_nodes st in
  match o with
  | ONewAtom b => r_ret_node st (r_new_atom s b)
  | ONewSmall v => r_ret_node st (r_new_small_number s v)
  | ONewU64 v => r_ret_node st (r_new_int s (Z.of_N v))
  | ONewI64 v => r_ret_node st (r_new_int s v)
  | ONewNumber z => r_ret_node st (r_new_int s z)
  | ONewMalachite z => r_ret_node st (r_new_int s z)
  | ONewPair i j =>
      match nth_N nodes i, nth_N nodes j with
      | Some x, Some y => r_ret_node st (r_new_pair s x y)
      | _, _ => (st, ObSkip)
      end
  | ONewSubstr i b e =>
      match nth_N nodes i with
      | Some x => r_ret_node st (r_new_substr s x b e)
      | None => (st, ObSkip)
      end
  | ONewConcat size is =>
      match get_all nodes is with
      | Some xs => r_ret_node st (r_new_concat s size xs)
      | None => (st, ObSkip)
      end
  | OAddGhostAtom n => r_ret_unit st (r_add_ghost_atom s n)
  | OAddGhostPair n => r_ret_unit st (r_add_ghost_pair s n)
  | ORemoveGhostPair n =>
      r_ret_unit st (if r_pairs s <? n then Err (Panic 10)
                     else Ok (mkR (r_atoms s) (r_pairs s - n) (r_heap s) (r_limit s)))
  | OCheckpoint => (mkRS s nodes (RFull (r_counts s) (nlen nodes) :: r_cps st) false, ObUnit)
  | OTCheckpoint => (mkRS s nodes (RTrans (nlen nodes) :: r_cps st) false, ObUnit)
  | ORestore k =>
      match nth_N (r_cps st) k with
      | Some (RFull c nl) =>
          (mkRS (r_set_counts s c) (take_N nl nodes) (skipn (N.to_nat k) (r_cps st)) false, ObUnit)
      | _ => (st, ObSkip)
      end
  | ORestoreT k =>
      match nth_N (r_cps st) k with
      | Some (RTrans nl) => (mkRS s (take_N nl nodes) (skipn (N.to_nat k) (r_cps st)) false, ObUnit)
      | _ => (st, ObSkip)
      end
  | OMaybeRestore k i =>
      (* the reference neither frees nor copies anything: the value is simply kept *)
      match nth_N (r_cps st) k, nth_N nodes i with
      | Some (RTrans nl), Some x =>
          (mkRS s (take_N nl nodes ++ [x]) (skipn (N.to_nat k) (r_cps st)) false, ObMaybe 2 (Some x))
      | _, _ => (st, ObSkip)
      end
  | OAtom i =>
      match nth_N nodes i with
      | Some x => r_ret_read st (do b <- r_atom x; Ok (ObBytes b))
      | None => (st, ObSkip)
      end
  | OAtomLen i =>
      match nth_N nodes i with
      | Some x => r_ret_read st (do b <- r_atom x; Ok (ObNum (blen b)))
      | None => (st, ObSkip)
      end
  | OAtomEq i j =>
      match nth_N nodes i, nth_N nodes j with
      | Some x, Some y => r_ret_read st (do b <- r_atom_eq x y; Ok (ObBool b))
      | _, _ => (st, ObSkip)
      end
  | OSmallNumber i =>
      match nth_N nodes i with
      | Some x => (st, ObOptN (r_small_number x))
      | None => (st, ObSkip)
      end
  | ONumber i =>
      match nth_N nodes i with
      | Some x => r_ret_read st (do z <- r_number x; Ok (ObInt z))
      | None => (st, ObSkip)
      end
  | OSexp i =>
      match nth_N nodes i with
      | Some (Atom _) => (st, ObAtomV)
      | Some (Cons l r) => (st, ObPairV (Some l) (Some r))
      | None => (st, ObSkip)
      end
  | ONodeView i =>
      match nth_N nodes i with
      | Some (Atom b) => (st, ObBufV b)
      | Some (Cons l r) => (st, ObPairV (Some l) (Some r))
      | None => (st, ObSkip)
      end
  end.

Definition r_step (st : rst) (o : op) : rst * obs :=
  if r_dead st then (st, ObDead) else r_step_live st o.

Fixpoint r_run (st : rst) (h : list op) : rst * list obs :=
  match h with
  | [] => (st, [])
  | o :: r => let '(st1, ob) := r_step st o in
              let '(st2, obs) := r_run st1 r in (st2, ob :: obs)
  end.

(* what arena and reference observations are compared on: the outcome of maybe_restore and the
   Buffer/U32 distinction are representation details, and so is which InternalError message a
   malformed concat hits first *)
Definition norm_obs (o : obs) : obs :=
  match o with
  | ObMaybe _ t => ObNode t
  | ObU32V v => ObBufV (be_bytes (N.to_nat (len_for_value v)) v)
  | ObErr (InternalError _) => ObErr (InternalError 0)
  | _ => o
  end.
