(* ECDSA prehash verification over secp256k1 and secp256r1, executable: an independent
   specification of what k256 / p256 are used for by secp_ops.rs. Written from SEC 1 v2
   (2.3.4 octet-string-to-point, 4.1.4 verification) and the curve parameters of SEC 2;
   Jacobian coordinates, inversion by Fermat (all moduli are prime), square roots by
   x^((p+1)/4) (both field primes are 3 mod 4). secp256k1 additionally rejects "high-S"
   signatures (s > n/2), the libsecp256k1 / BIP-146 convention that k256's verifier enforces
   and the repository's vector generator (python package secp256k1) shares; secp256r1 does not.
   Validated by vm_compute on vectors of /repo/op-tests (Props/C32.v) and run against the
   implementation by the check C32. *)
From Clvm Require Export Model.Bstr.
Open Scope Z_scope.

Record curve := { cp : Z; ca : Z; cb : Z; cgx : Z; cgy : Z; cn : Z; c_low_s : bool }.

Fixpoint pow_pos (p a : Z) (e : positive) : Z :=
  match e with
  | xH => a mod p
  | xO e' => let t := pow_pos p a e' in (t * t) mod p
  | xI e' => let t := pow_pos p a e' in (((t * t) mod p) * a) mod p
  end.
Definition powm (p a e : Z) : Z :=
  match e with Z0 => 1 mod p | Zpos q => pow_pos p a q | Zneg _ => 0 end.
Definition inv_mod (p a : Z) : Z := powm p a (p - 2).

(* Jacobian coordinates: (X, Y, Z) stands for (X/Z^2, Y/Z^3); Z = 0 is the point at infinity *)
Definition jac := (Z * Z * Z)%type.
Definition jinf : jac := (1, 1, 0).

Definition jdouble (c : curve) (P : jac) : jac :=
  let '(X1, Y1, Z1) := P in
  if (Z1 =? 0) || (Y1 =? 0) then jinf else
  let p := cp c in
  let YY := (Y1 * Y1) mod p in
  let S := (4 * X1 * YY) mod p in
  let ZZ := (Z1 * Z1) mod p in
  let M := (3 * X1 * X1 + ca c * ZZ * ZZ) mod p in
  let X3 := (M * M - 2 * S) mod p in
  let Y3 := (M * (S - X3) - 8 * YY * YY) mod p in
  let Z3 := (2 * Y1 * Z1) mod p in
  (X3, Y3, Z3).

Definition jadd (c : curve) (P Q : jac) : jac :=
  let '(X1, Y1, Z1) := P in
  let '(X2, Y2, Z2) := Q in
  if Z1 =? 0 then Q else if Z2 =? 0 then P else
  let p := cp c in
  let Z1Z1 := (Z1 * Z1) mod p in
  let Z2Z2 := (Z2 * Z2) mod p in
  let U1 := (X1 * Z2Z2) mod p in
  let U2 := (X2 * Z1Z1) mod p in
  let S1 := (Y1 * Z2 * Z2Z2) mod p in
  let S2 := (Y2 * Z1 * Z1Z1) mod p in
  if U1 =? U2 then (if S1 =? S2 then jdouble c P else jinf) else
  let H := (U2 - U1) mod p in
  let R := (S2 - S1) mod p in
  let H2 := (H * H) mod p in
  let H3 := (H * H2) mod p in
  let X3 := (R * R - H3 - 2 * U1 * H2) mod p in
  let Y3 := (R * (U1 * H2 - X3) - S1 * H3) mod p in
  let Z3 := (H * Z1 * Z2) mod p in
  (X3, Y3, Z3).

Fixpoint jmul_pos (c : curve) (P : jac) (k : positive) : jac :=
  match k with
  | xH => P
  | xO k' => jdouble c (jmul_pos c P k')
  | xI k' => jadd c (jdouble c (jmul_pos c P k')) P
  end.
Definition jmul (c : curve) (P : jac) (k : Z) : jac :=
  match k with Zpos q => jmul_pos c P q | _ => jinf end.

Definition to_affine (c : curve) (P : jac) : option (Z * Z) :=
  let '(X, Y, Zc) := P in
  if Zc =? 0 then None else
  let p := cp c in
  let zi := inv_mod p Zc in
  let zi2 := (zi * zi) mod p in
  Some ((X * zi2) mod p, (Y * zi2 * zi) mod p).

Definition on_curve (c : curve) (x y : Z) : bool :=
  let p := cp c in ((y * y) mod p =? (x * x * x + ca c * x + cb c) mod p).

Definition zbe (b : bytes) : Z := Z.of_N (be_value b).
(* big-endian bytes of a non-negative number in exactly n bytes (used by examples and tests) *)
Fixpoint be_bytes_of_Z (n : nat) (v : Z) : bytes :=
  match n with O => [] | S k => be_bytes_of_Z k (v / 256) ++ [Z.to_N (v mod 256)] end.

(* SEC 1 2.3.4, compressed (02/03 || X) and uncompressed (04 || X || Y) forms only *)
Definition decode_pubkey (c : curve) (b : bytes) : option (Z * Z) :=
  let p := cp c in
  match b with
  | tag :: rest =>
      if ((tag =? 2) || (tag =? 3))%N && (length rest =? 32)%nat then
        let x := zbe rest in
        if p <=? x then None else
        let rhs := (x * x * x + ca c * x + cb c) mod p in
        let y := powm p rhs ((p + 1) / 4) in
        if negb ((y * y) mod p =? rhs) then None else
        let want_odd := (tag =? 3)%N in
        Some (x, if Bool.eqb (Z.odd y) want_odd then y else (p - y) mod p)
      else if (tag =? 4)%N && (length rest =? 64)%nat then
        let x := zbe (firstn 32 rest) in
        let y := zbe (skipn 32 rest) in
        if (p <=? x) || (p <=? y) || negb (on_curve c x y) then None else Some (x, y)
      else None
  | [] => None
  end.

Definition decode_sig (c : curve) (b : bytes) : option (Z * Z) :=
  if negb (length b =? 64)%nat then None else
  let r := zbe (firstn 32 b) in
  let s := zbe (skipn 32 b) in
  if (1 <=? r) && (r <? cn c) && (1 <=? s) && (s <? cn c) then Some (r, s) else None.

(* SEC 1 4.1.4 on a 32-byte digest (no truncation: the group orders have 256 bits) *)
Definition ecdsa_verify (c : curve) (pk msg sg : bytes) : bool :=
  match decode_pubkey c pk, decode_sig c sg with
  | Some (qx, qy), Some (r, s) =>
      if c_low_s c && (cn c / 2 <? s) then false else
      let n := cn c in
      let e := zbe msg in
      let w := inv_mod n s in
      let u1 := (e * w) mod n in
      let u2 := (r * w) mod n in
      let X := jadd c (jmul c (cgx c, cgy c, 1) u1) (jmul c (qx, qy, 1) u2) in
      match to_affine c X with
      | Some (x, _) => x mod n =? r
      | None => false
      end
  | _, _ => false
  end.

Definition pubkey_ok (c : curve) (pk : bytes) : bool :=
  match decode_pubkey c pk with Some _ => true | None => false end.
Definition sig_ok (c : curve) (sg : bytes) : bool :=
  match decode_sig c sg with Some _ => true | None => false end.

Definition secp256k1 : curve := {|
  cp := 0xFFFFFFFFFFFFFFFFFFFFFFFFFFFFFFFFFFFFFFFFFFFFFFFFFFFFFFFEFFFFFC2F;
  ca := 0; cb := 7;
  cgx := 0x79BE667EF9DCBBAC55A06295CE870B07029BFCDB2DCE28D959F2815B16F81798;
  cgy := 0x483ADA7726A3C4655DA4FBFC0E1108A8FD17B448A68554199C47D08FFB10D4B8;
  cn := 0xFFFFFFFFFFFFFFFFFFFFFFFFFFFFFFFEBAAEDCE6AF48A03BBFD25E8CD0364141;
  c_low_s := true |}.

Definition secp256r1 : curve := {|
  cp := 0xFFFFFFFF00000001000000000000000000000000FFFFFFFFFFFFFFFFFFFFFFFF;
  ca := 0xFFFFFFFF00000001000000000000000000000000FFFFFFFFFFFFFFFFFFFFFFFC;
  cb := 0x5AC635D8AA3A93E7B3EBBD55769886BC651D06B0CC53B0F63BCE3C3E27D2604B;
  cgx := 0x6B17D1F2E12C4247F8BCE6E563A440F277037D812DEB33A0F4A13945D898C296;
  cgy := 0x4FE342E2FE1A7F9B8EE7EB4A7C0F9E162BCE33576B315ECECBB6406837BF51F5;
  cn := 0xFFFFFFFF00000000FFFFFFFFFFFFFFFFBCE6FAADA7179E84F3B9CAC2FC632551;
  c_low_s := false |}.
