(* op_utils.rs on the tree store: argument-list helpers and integer readers. An operator is a
   function  flagset -> sexp (argument list) -> N (max_cost) -> res (N * sexp)  (cost, value). *)
From Clvm Require Export Model.Err Model.Sexp Model.IntEnc Model.Flags.
Open Scope N_scope.

Definition opfn := flagset -> sexp -> N -> res (N * sexp).

Definition MALLOC_COST_PER_BYTE : N := 10.

Definition bad_arg {A} : res A := Err (InvalidOpArg 0).

(* cost.rs check_cost *)
Definition check_cost (cost max_cost : N) : res unit :=
  if max_cost <? cost then Err CostExceeded else Ok tt.

(* match_args::<N>: exactly n leading pairs, whatever the terminator is *)
Fixpoint match_args (n : nat) (args : sexp) : option (list sexp) :=
  match n, args with
  | O, Atom _ => Some []
  | O, Cons _ _ => None
  | S k, Cons a r => match match_args k r with Some l => Some (a :: l) | None => None end
  | S _, Atom _ => None
  end.

Definition get_args (n : nat) (args : sexp) : res (list sexp) :=
  match match_args n args with Some l => Ok l | None => bad_arg end.

Definition get_args1 (args : sexp) : res sexp :=
  match args with Cons a (Atom _) => Ok a | _ => bad_arg end.
Definition get_args2 (args : sexp) : res (sexp * sexp) :=
  match args with Cons a (Cons b (Atom _)) => Ok (a, b) | _ => bad_arg end.
Definition get_args3 (args : sexp) : res (sexp * sexp * sexp) :=
  match args with Cons a (Cons b (Cons c (Atom _))) => Ok (a, b, c) | _ => bad_arg end.
Definition get_args4 (args : sexp) : res (sexp * sexp * sexp * sexp) :=
  match args with Cons a (Cons b (Cons c (Cons d (Atom _)))) => Ok (a, b, c, d) | _ => bad_arg end.

(* get_varargs::<N>: at most n arguments; returns the ones present *)
Fixpoint get_varargs (n : nat) (args : sexp) : res (list sexp) :=
  match args with
  | Atom _ => Ok []
  | Cons a r =>
      match n with
      | O => bad_arg
      | S k => do l <- get_varargs k r; Ok (a :: l)
      end
  end.

(* the spine of an argument list: elements of the leading pairs (terminator ignored) *)
Fixpoint arg_list (args : sexp) : list sexp :=
  match args with Atom _ => [] | Cons a r => a :: arg_list r end.

Definition nilp (t : sexp) : bool := match t with Atom [] => true | _ => false end.

Definition first (t : sexp) : res sexp := match t with Cons a _ => Ok a | Atom _ => bad_arg end.
Definition rest (t : sexp) : res sexp := match t with Cons _ b => Ok b | Atom _ => bad_arg end.

(* op_utils::atom / atom_len: the bytes of an atom argument *)
Definition atom_of (t : sexp) : res bytes := match t with Atom b => Ok b | Cons _ _ => bad_arg end.

Fixpoint strip_zeros (b : bytes) : bytes :=
  match b with 0 :: r => strip_zeros r | _ => b end.

(* uint_atom::<SIZE> *)
Definition uint_atom (size : nat) (canonical : bool) (t : sexp) : res N :=
  match t with
  | Cons _ _ => bad_arg
  | Atom [] => Ok 0
  | Atom ((x :: r) as b) =>
      if 128 <=? x then bad_arg
      else
        let stripped :=
          if canonical then
            (if x =? 0 then
               match r with
               | y :: _ => if 128 <=? y then Some r else None
               | [] => None
               end
             else Some b)
          else Some (strip_zeros b) in
        match stripped with
        | None => bad_arg
        | Some buf => if (size <? length buf)%nat then bad_arg else Ok (be_value buf)
        end
  end.

(* int_atom: the number and the byte length *)
Definition int_atom (t : sexp) : res (Z * N) :=
  match t with Atom b => Ok (int_of_bytes b, blen b) | Cons _ _ => bad_arg end.

(* i32_atom: at most 4 bytes, sign-extended *)
Definition i32_atom (t : sexp) : res Z :=
  match t with
  | Cons _ _ => bad_arg
  | Atom b => if (4 <? length b)%nat then bad_arg else Ok (int_of_bytes b)
  end.

(* Allocator::small_number on the tree store: the atom is the canonical encoding of v < 2^26 *)
Definition small_number (t : sexp) : option N :=
  match t with
  | Cons _ _ => None
  | Atom b =>
      if (4 <? length b)%nat then None
      else if canonical_int b then
        match b with
        | x :: _ => if 128 <=? x then None
                    else let v := be_value b in if v <? 67108864 then Some v else None
        | [] => Some 0
        end
      else None
  end.

(* new_atom_and_cost / new_number + malloc cost *)
Definition atom_and_cost (cost : N) (b : bytes) : res (N * sexp) :=
  Ok (cost + blen b * MALLOC_COST_PER_BYTE, Atom b).
Definition number_result (cost : N) (z : Z) : res (N * sexp) :=
  atom_and_cost cost (bytes_of_int z).
