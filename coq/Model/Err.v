(* Outcomes shared by all models: EvalErr variants (message classes for the two String-carrying
   variants), plus explicit outcomes for Rust panics, integer overflow sites and fuel exhaustion. *)
From Clvm Require Export Model.Bstr.

Inductive errkind :=
| SerializationError | SerializationBackrefError | OutOfMemory | PathIntoAtom
| TooManyPairs | TooManyAtoms | CostExceeded | UnknownSoftforkExtension | SoftforkCostMismatch
| InternalError (site : N) | Raise | InvalidNilTerminator | DivisionByZero
| ValueStackLimit | EnvStackLimit | ShiftTooLarge | Reserved | Invalid | Unimplemented
| InvalidOpArg (msg : N) | InvalidAllocArg (msg : N)
| BLSPairingIdentityFailed | BLSVerifyFailed | Secp256Failed | SoftforkStackDepth
| Panic (site : N) | Overflow (site : N) | OutOfFuel | Unsupported.

Inductive res (A : Type) := Ok (a : A) | Err (e : errkind).
Arguments Ok {A} a.
Arguments Err {A} e.

Definition bind {A B} (m : res A) (f : A -> res B) : res B :=
  match m with Ok a => f a | Err e => Err e end.
Notation "'do' x <- m ; k" := (bind m (fun x => k)) (at level 200, x name, m at level 100, k at level 200).
Notation "'do' ' p <- m ; k" := (bind m (fun x => match x with p => k end))
  (at level 200, p pattern, m at level 100, k at level 200).

Definition res_map {A B} (f : A -> B) (m : res A) : res B :=
  match m with Ok a => Ok (f a) | Err e => Err e end.
