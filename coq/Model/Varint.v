(* Model of src/serde_2026/varint.rs: write_varint, varint_size, read_varint.
   Executable definitions only.  i64/u64 arithmetic never wraps here: at most 56 value
   bits are in play (leading_ones <= 7), which the proofs establish. *)
From Clvm Require Export Model.Bstr.
Open Scope Z_scope.

Inductive vres :=
| VOk (v : Z) (rest : bytes)
| VErr                       (* EvalErr::SerializationError *)
| VPanic.                    (* panic!("Value too large to encode") *)

Definition total_value_bits (k : Z) : Z := 7 + 7 * k.
Definition class_min (k : Z) : Z := - (Z.shiftl 1 (total_value_bits k - 1)).
Definition class_max (k : Z) : Z := Z.shiftl 1 (total_value_bits k - 1) - 1.
Definition fits_class (k v : Z) : bool := negb ((v <? class_min k) || (v >? class_max k)).

(* the `for leading_ones in 0..8` loop; n counts the remaining iterations *)
Fixpoint find_class (n : nat) (k v : Z) : option Z :=
  match n with
  | O => None
  | S n' => if fits_class k v then Some k else find_class n' (k + 1) v
  end.

(* varint_size: Some (leading_ones + 1) or None for the panic *)
Definition varint_size (v : Z) : option Z :=
  match find_class 8 0 v with Some k => Some (k + 1) | None => None end.

(* the bytes written after the first one: for i in (0..k).rev() : (u >> (i*8)) as u8 *)
Fixpoint tail_bytes (k : nat) (u : Z) : bytes :=
  match k with
  | O => []
  | S i => Z.to_N ((Z.shiftr u (Z.of_nat i * 8)) mod 256) :: tail_bytes i u
  end.

Definition first_prefix (k : Z) : Z :=
  if 0 <? k then ((Z.shiftl 1 k - 1) * 2 ^ (8 - k)) mod 256 else 0.

Definition write_varint (v : Z) : option bytes :=
  match find_class 8 0 v with
  | None => None                                  (* panic *)
  | Some k =>
      let tvb := total_value_bits k in
      let u := if v <? 0 then v + Z.shiftl 1 tvb else v in
      let high := (Z.shiftr u (k * 8)) mod 256 in
      let first := Z.lor (first_prefix k) high in
      Some (Z.to_N first :: tail_bytes (Z.to_nat k) u)
  end.

(* (!first_byte).leading_zeros(): number of leading one bits of a byte *)
Fixpoint leading_ones_from (n : nat) (bit : Z) (b : Z) : Z :=
  match n with
  | O => 0
  | S n' => if Z.testbit b bit then 1 + leading_ones_from n' (bit - 1) b else 0
  end.
Definition leading_ones (b : Z) : Z := leading_ones_from 8 7 b.

Definition read_varint (strict : bool) (bs : bytes) : vres :=
  match bs with
  | [] => VErr
  | b0 :: r =>
      let b0 := Z.of_N b0 in
      let k := leading_ones b0 in
      if 8 <=? k then VErr else
      let bits_in_first := 7 - k in
      let tvb := total_value_bits k in
      let mask := Z.shiftl 1 bits_in_first - 1 in
      match take_exact (Z.to_nat k) r with
      | None => VErr
      | Some (extra, rest) =>
          let u := fold_left (fun acc b => Z.lor (Z.shiftl acc 8) (Z.of_N b)) extra (Z.land b0 mask) in
          let sign_bit := Z.shiftl 1 (tvb - 1) in
          let v := if u >=? sign_bit then u - Z.shiftl 1 tvb else u in
          if strict then
            match varint_size v with
            | None => VPanic
            | Some sz => if negb (sz =? k + 1) then VErr else VOk v rest
            end
          else VOk v rest
      end
  end.
