(* Tree-hash implementations that are explicit stack machines, beside the stream hashers of
   Model/Classic.v:  src/treehash.rs tree_hash_costed (the sha256tree operator, sha_tree_op.rs,
   calls it after get_args),  src/serde/object_cache.rs ObjectCache + treehash (also what
   InternedTree::tree_hash runs on the interned allocator),  wheel/python/clvm_rs/tree_hash.py
   Treehasher.sha256_treehash.   Executable definitions only; H stands for sha256.

   Panic sites: 30 hashes.pop().unwrap() in TreeOp::Cons, 31 assert!(hashes.len() == 1),
   32 PRECOMPUTED_HASHES[val] (guarded by the length test), 33 "f returned None for atom" /
   allocator index, 34 Python IndexError (pop from empty list), 35 hash_stack[0].
   u64 cost additions are not wrapped here (the cost stays far below 2^64 for any tree that fits
   an allocator: at most 2^32 bytes and 2^27 pairs). *)
From Clvm Require Export Model.Err Model.Sexp Model.IntEnc Model.Intern.
Local Open Scope N_scope.

(* a source tree with the allocator's atom representation made visible: NodeVisitor::Buffer /
   NodeVisitor::U32 (an inline small atom IS the canonical encoding of its value) / Pair *)
Inductive rtree := RBuf (b : bytes) | RSmall (v : N) | RPair (l r : rtree).

Definition small_bytes (v : N) : bytes := bytes_of_int (Z.of_N v).

Fixpoint erase (t : rtree) : sexp :=
  match t with
  | RBuf b => Atom b
  | RSmall v => Atom (small_bytes v)
  | RPair l r => Cons (erase l) (erase r)
  end.

Definition SHA256TREE_BASE_COST : N := 270.
Definition SHA256TREE_PAIR_COST : N := 460.
Definition SHA256TREE_COST_PER_BYTE : N := 2.
Definition NEW_SHA256TREE_COST_PER_BYTE : N := 6.
Definition MALLOC_COST_PER_BYTE : N := 10.

Section Hashers.
  Variable H : bytes -> bytes.
  Variable table : list bytes.                   (* PRECOMPUTED_HASHES *)

  Inductive top := TSExp (t : rtree) | TCons.

  Definition get_n {A} (l : list A) (i : N) : option A :=
    if i <? N.of_nat (length l) then nth_error l (N.to_nat i) else None.

  (* the while-let loop of tree_hash_costed; [max] is cost_remaining *)
  Fixpoint thc_loop (fuel : nat) (cpb max : N) (ops : list top) (hashes : list bytes) (cost : N)
    : res (N * list bytes) :=
    match fuel with
    | O => Err OutOfFuel
    | S f =>
        match ops with
        | [] => Ok (cost, hashes)
        | TSExp (RBuf b) :: ops' =>
            let cost := cost + (blen b + 1) * cpb in
            if max <? cost then Err CostExceeded
            else thc_loop f cpb max ops' (H (1 :: b) :: hashes) cost
        | TSExp (RSmall v) :: ops' =>
            let cost := cost + (blen (small_bytes v) + 1) * cpb in
            if max <? cost then Err CostExceeded
            else if v <? N.of_nat (length table) then
              match get_n table v with
              | Some h => thc_loop f cpb max ops' (h :: hashes) cost
              | None => Err (Panic 32)
              end
            else thc_loop f cpb max ops' (H (1 :: small_bytes v) :: hashes) cost
        | TSExp (RPair l r) :: ops' =>
            let cost := cost + SHA256TREE_PAIR_COST in
            if max <? cost then Err CostExceeded
            else thc_loop f cpb max (TSExp r :: TSExp l :: TCons :: ops') hashes cost
        | TCons :: ops' =>
            match hashes with
            | first :: rest :: hs => thc_loop f cpb max ops' (H (2 :: first ++ rest) :: hs) cost
            | _ => Err (Panic 30)
            end
        end
    end.

  Fixpoint steps (t : rtree) : nat :=
    match t with RPair l r => S (S (steps l + steps r)) | _ => 1%nat end.

  (* tree_hash_costed: Ok (cost, hash) — the atom allocated for the result is outside the model *)
  Definition tree_hash_costed (new_cost_model : bool) (t : rtree) (max : N) : res (N * bytes) :=
    let cpb := if new_cost_model then NEW_SHA256TREE_COST_PER_BYTE else SHA256TREE_COST_PER_BYTE in
    do '(cost, hashes) <- thc_loop (S (steps t)) cpb max [TSExp t] [] SHA256TREE_BASE_COST;
    match hashes with
    | [h] =>
        let cost := cost + MALLOC_COST_PER_BYTE * 32 in
        if max <? cost then Err CostExceeded else Ok (cost, h)
    | _ => Err (Panic 31)
    end.

  (* ---------------------------------------------------------------- ObjectCache<Bytes32> + treehash
     over an arena whose nodes are [inode]s (atoms vector, pairs vector: Model/Intern.v); the
     cache is the HashMap<NodePtr, Bytes32> as an association list *)
  Fixpoint lookup (n : inode) (c : list (inode * bytes)) : option bytes :=
    match c with
    | [] => None
    | (m, h) :: r => if inode_eqb n m then Some h else lookup n r
    end.

  Fixpoint oc_loop (it : itree) (fuel : nat) (cache : list (inode * bytes)) (stack : list inode)
    : res (list (inode * bytes)) :=
    match fuel with
    | O => Err OutOfFuel
    | S f =>
        match stack with
        | [] => Ok cache
        | n :: st =>
            match lookup n cache with
            | Some _ => oc_loop it f cache st
            | None =>
                match n with
                | IA i =>
                    match nth_error (it_atoms it) i with
                    | Some b => oc_loop it f ((n, H (1 :: b)) :: cache) st
                    | None => Err (Panic 33)
                    end
                | IP j =>
                    match nth_error (it_pairs it) j with
                    | None => Err (Panic 33)
                    | Some (l, r) =>
                        match lookup l cache, lookup r cache with
                        | Some hl, Some hr => oc_loop it f ((n, H (2 :: hl ++ hr)) :: cache) st
                        | _, _ => oc_loop it f cache (r :: l :: n :: st)
                        end
                    end
                end
            end
        end
    end.

  (* get_or_calculate(allocator, root, None) on a fresh cache; every pair is expanded at most once *)
  Definition oc_fuel (it : itree) : nat := 3 * length (it_pairs it) + 2.
  Definition oc_treehash (it : itree) : res bytes :=
    do cache <- oc_loop it (oc_fuel it) [] [it_root it];
    match lookup (it_root it) cache with Some h => Ok h | None => Err (Panic 33) end.

  (* ---------------------------------------------------------------- Python Treehasher
     op_stack of handle_obj / handle_pair, obj_stack, hash_stack; _cached_sha256_treehash is the
     association list [cache] (objects that refuse setattr: see py_loop's [can_cache]) *)
  Inductive pyop := PObj | PPair.

  Fixpoint py_loop (it : itree) (can_cache : bool) (fuel : nat) (ops : list pyop) (objs : list inode)
           (hashes : list bytes) (cache : list (inode * bytes)) : res (list bytes) :=
    match fuel with
    | O => Err OutOfFuel
    | S f =>
        match ops with
        | [] => Ok hashes
        | PObj :: ops' =>
            match objs with
            | [] => Err (Panic 34)
            | obj :: objs' =>
                match lookup obj cache with
                | Some r => py_loop it can_cache f ops' objs' (r :: hashes) cache
                | None =>
                    match obj with
                    | IA i =>
                        match nth_error (it_atoms it) i with
                        | None => Err (Panic 33)
                        | Some b =>
                            let r := H (1 :: b) in
                            py_loop it can_cache f ops' objs' (r :: hashes)
                                    (if can_cache then (obj, r) :: cache else cache)
                        end
                    | IP j =>
                        match nth_error (it_pairs it) j with
                        | None => Err (Panic 33)
                        | Some (p0, p1) =>
                            py_loop it can_cache f (PObj :: PObj :: PPair :: ops') (p1 :: p0 :: obj :: objs')
                                    hashes cache
                        end
                    end
                end
            end
        | PPair :: ops' =>
            match hashes with
            | p0 :: p1 :: hs =>
                let r := H (2 :: p0 ++ p1) in
                match objs with
                | [] => Err (Panic 34)
                | obj :: objs' =>
                    py_loop it can_cache f ops' objs' (r :: hs) (if can_cache then (obj, r) :: cache else cache)
                end
            | _ => Err (Panic 34)
            end
        end
    end.

  Definition py_treehash (it : itree) (can_cache : bool) (fuel : nat) : res bytes :=
    do hashes <- py_loop it can_cache fuel [PObj] [it_root it] [] [];
    match rev hashes with h :: _ => Ok h | [] => Err (Panic 35) end.
End Hashers.

(* an arena for a plain tree, without any sharing (every node its own entry): what a freshly parsed
   allocator looks like; used to run the arena hashers on arbitrary trees *)
Fixpoint arena_rec (t : sexp) (st : istate) : inode * istate :=
  match t with
  | Atom b => (IA (length (is_atoms st)), {| is_atoms := is_atoms st ++ [b]; is_pairs := is_pairs st |})
  | Cons l r =>
      let '(nl, st1) := arena_rec l st in
      let '(nr, st2) := arena_rec r st1 in
      (IP (length (is_pairs st2)), {| is_atoms := is_atoms st2; is_pairs := is_pairs st2 ++ [(nl, nr)] |})
  end.
Definition arena_of (t : sexp) : itree :=
  let '(n, st) := arena_rec t istate0 in
  {| it_atoms := is_atoms st; it_pairs := is_pairs st; it_root := n |}.
