(* u64 / usize machine arithmetic as the Rust uses it: checked_* (option), wrapping_*, and the
   plain operators, whose wrap-around is the distinct outcome [Err (Overflow site)] (a debug
   build panics "attempt to add/multiply with overflow" there; a release build would wrap). *)
From Clvm Require Export Model.Err.
Open Scope N_scope.

Definition two64 : N := 18446744073709551616.
Definition U64_MAX : N := 18446744073709551615.
Definition U32_MAX : N := 4294967295.

Definition checked_add (a b : N) : option N := if a + b <? two64 then Some (a + b) else None.
Definition checked_mul (a b : N) : option N := if a * b <? two64 then Some (a * b) else None.
Definition wrapping_mul (a b : N) : N := (a * b) mod two64.

(* `.ok_or(EvalErr::CostExceeded)?` *)
Definition ok_or_cost {A} (o : option A) : res A :=
  match o with Some x => Ok x | None => Err CostExceeded end.

(* plain `+` / `*` on u64 *)
Definition plain_add (site : N) (a b : N) : res N :=
  if a + b <? two64 then Ok (a + b) else Err (Overflow site).
Definition plain_mul (site : N) (a b : N) : res N :=
  if a * b <? two64 then Ok (a * b) else Err (Overflow site).
