(* The arena allocator of src/allocator.rs (struct Allocator and its public operations), modelled
   at the level of its three vectors, its three ghost counters and its heap limit.
   Executable definitions only.

   usize values are unbounded N (a 64-bit usize cannot overflow here: every quantity is bounded by
   2^32 + 3 * 62_500_000 * 4); `as u32` casts are written out ([u32]). Every Rust panic site
   (indexing, slicing, assert!/debug_assert!, usize/u32 subtraction underflow in the dev profile
   the harness is built with) is the explicit outcome [Err (Panic site)]:
     1 restore_transparent_checkpoint's assert!s        6 atom()/atom_len()/number() on a pair
     2 atom_vec[i] out of range                          7 usize/u32 subtraction underflow
     3 pair_vec[i] out of range                          8 new_small_number's debug_assert!
     4 u8_vec[s..e] out of range                         9 new_limited's assert!
     5 atom_eq() on a pair                              10 remove_ghost_pair's debug_assert!
                                                         11 Atom::U32 / to_be_bytes slice with len 5
   InternalError sites (the message strings of allocator.rs):
     1 "substr expected atom, got pair"   2 "concat passed invalid new_size"
     3 "concat expected atom, got pair"   4 "ghost atom accounting error"
     5 "invalid atom byte range"          6 "ghost heap accounting error"
   InvalidAllocArg messages: 1 "substr start out of bounds" 2 "substr end out of bounds"
     3 "substr invalid bounds". *)
From Clvm Require Export Model.Err Model.IntEnc Model.Sexp.
Open Scope N_scope.

Definition MAX_NUM_ATOMS : N := 62500000.
Definition MAX_NUM_PAIRS : N := 62500000.
Definition NODE_PTR_IDX_BITS : N := 26.
Definition NODE_PTR_IDX_MASK : N := 67108863.           (* (1 << 26) - 1 *)
Definition U32_MAX : N := 4294967295.
Definition u32 (x : N) : N := x mod 4294967296.         (* `as u32` *)
Definition CLONE_ATOM_LIMIT : N := 48.
Definition MIN_SAVINGS : N := 1024.

Inductive nodeptr := PairP (i : N) | BytesP (i : N) | SmallP (v : N).

Definition nodeptr_eqb (x y : nodeptr) : bool :=
  match x, y with
  | PairP i, PairP j | BytesP i, BytesP j | SmallP i, SmallP j => i =? j
  | _, _ => false
  end.

(* the three vectors *)
Record heap := mkHeap {
  u8 : bytes;                              (* u8_vec *)
  atoms : list (N * N);                    (* atom_vec: AtomBuf { start, end } *)
  pairs : list (nodeptr * nodeptr) }.      (* pair_vec: IntPair { first, rest } *)

Record alloc := mkAlloc {
  hp : heap;
  heap_limit : N;
  ghost_atoms : N;
  ghost_pairs : N;
  ghost_heap : N }.

Definition nlen {A} (l : list A) : N := N.of_nat (length l).
Definition nth_N {A} (l : list A) (i : N) : option A := nth_error l (N.to_nat i).
Definition take_N {A} (n : N) (l : list A) : list A := firstn (N.to_nat n) l.

Definition u8_len (a : alloc) : N := blen (u8 (hp a)).
Definition atoms_len (a : alloc) : N := nlen (atoms (hp a)).
Definition pairs_len (a : alloc) : N := nlen (pairs (hp a)).

(* u8_vec[s..e]: panics unless s <= e <= len *)
Definition slice (b : bytes) (s e : N) : option bytes :=
  if (s <=? e) && (e <=? blen b) then Some (firstn (N.to_nat (e - s)) (skipn (N.to_nat s) b))
  else None.

(* ------------------------------------------------------------------ free functions *)

(* fits_in_small_atom (allocator.rs:317). v[1] is only read when v.len() >= 2 (short-circuit
   evaluation); `b & 0x80 != 0` is `128 <= b` for a byte *)
Definition fits_in_small_atom (v : bytes) : option N :=
  match v with
  | [] => Some 0
  | x0 :: rest =>
      if (4 <? blen v)
         || ((blen v =? 1) && (x0 =? 0))
         || (128 <=? x0)
         || ((x0 =? 0) && match rest with y :: _ => y <? 128 | [] => false end)
         || ((blen v =? 4) && (3 <? x0))
      then None
      else Some (be_value v)
  end.

(* len_for_value (allocator.rs:342) *)
Definition len_for_value (v : N) : N :=
  if v =? 0 then 0
  else if v <? 0x80 then 1
  else if v <? 0x8000 then 2
  else if v <? 0x800000 then 3
  else if v <? 0x80000000 then 4
  else 5.

(* the bytes a SmallAtom stands for: &val.to_be_bytes()[4 - len..]  (panics when len = 5) *)
Definition small_bytes (v : N) : res bytes :=
  let len := len_for_value v in
  if 4 <? len then Err (Panic 11) else Ok (be_bytes (N.to_nat len) v).

(* ------------------------------------------------------------------ construction *)

Definition new_limited (limit : N) : res alloc :=
  if U32_MAX <? limit then Err (Panic 9)
  else Ok {| hp := mkHeap [] [] []; heap_limit := limit;
             ghost_atoms := 2; ghost_pairs := 0; ghost_heap := 1 |}.

Definition new_alloc : res alloc := new_limited U32_MAX.

Definition nil_node : nodeptr := SmallP 0.
Definition one_node : nodeptr := SmallP 1.

(* field updates *)
Definition set_ghosts (a : alloc) (ga gp gh : N) : alloc :=
  {| hp := hp a; heap_limit := heap_limit a; ghost_atoms := ga; ghost_pairs := gp; ghost_heap := gh |}.
Definition set_hp (a : alloc) (h : heap) : alloc :=
  {| hp := h; heap_limit := heap_limit a; ghost_atoms := ghost_atoms a;
     ghost_pairs := ghost_pairs a; ghost_heap := ghost_heap a |}.
Definition push_u8 (h : heap) (b : bytes) : heap := mkHeap (u8 h ++ b) (atoms h) (pairs h).
Definition push_atom (h : heap) (s e : N) : heap := mkHeap (u8 h) (atoms h ++ [(s, e)]) (pairs h).
Definition push_pair (h : heap) (l r : nodeptr) : heap := mkHeap (u8 h) (atoms h) (pairs h ++ [(l, r)]).

(* ------------------------------------------------------------------ counters *)

Definition atom_count (a : alloc) : N := atoms_len a + ghost_atoms a.
Definition pair_count (a : alloc) : N := pairs_len a + ghost_pairs a.
Definition heap_size (a : alloc) : N := u8_len a + ghost_heap a.
Definition counts (a : alloc) : N * N * N := (atom_count a, pair_count a, heap_size a).

(* check_atom_limit (allocator.rs:1232): note the `==` *)
Definition check_atom_limit (a : alloc) : res unit :=
  if atoms_len a + ghost_atoms a =? MAX_NUM_ATOMS then Err TooManyAtoms else Ok tt.

(* ------------------------------------------------------------------ checkpoints *)

Record tcheckpoint := mkTcp { c_u8s : N; c_pairs : N; c_atoms : N }.
Record checkpoint := mkCp { c_inner : tcheckpoint; c_ga : N; c_gp : N; c_gh : N }.

Definition transparent_checkpoint (a : alloc) : tcheckpoint :=
  {| c_u8s := u32 (u8_len a); c_pairs := u32 (pairs_len a); c_atoms := u32 (atoms_len a) |}.

Definition checkpoint_of (a : alloc) : checkpoint :=
  {| c_inner := transparent_checkpoint a;
     c_ga := ghost_atoms a; c_gp := ghost_pairs a; c_gh := ghost_heap a |}.

Definition trunc (h : heap) (cp : tcheckpoint) : heap :=
  mkHeap (take_N (c_u8s cp) (u8 h)) (take_N (c_atoms cp) (atoms h)) (take_N (c_pairs cp) (pairs h)).

Definition restore_transparent_checkpoint (a : alloc) (cp : tcheckpoint) : res alloc :=
  if (u8_len a <? c_u8s cp) || (pairs_len a <? c_pairs cp) || (atoms_len a <? c_atoms cp)
  then Err (Panic 1)
  else Ok {| hp := trunc (hp a) cp; heap_limit := heap_limit a;
             ghost_atoms := ghost_atoms a + (atoms_len a - c_atoms cp);
             ghost_pairs := ghost_pairs a + (pairs_len a - c_pairs cp);
             ghost_heap := ghost_heap a + (u8_len a - c_u8s cp) |}.

Definition restore_checkpoint (a : alloc) (cp : checkpoint) : res alloc :=
  do a1 <- restore_transparent_checkpoint a (c_inner cp);
  Ok (set_ghosts a1 (c_ga cp) (c_gp cp) (c_gh cp)).

(* ------------------------------------------------------------------ allocation *)

(* new_atom (allocator.rs:619): heap limit first (with `start` already cast to u32), then the
   atom limit, then the inline small-atom path or the heap path *)
Definition new_atom (a : alloc) (v : bytes) : res (alloc * nodeptr) :=
  let start := u32 (u8_len a) in
  if heap_limit a <? start + ghost_heap a + blen v then Err OutOfMemory else
  let idx := atoms_len a in
  do _ <- check_atom_limit a;
  match fits_in_small_atom v with
  | Some r =>
      Ok (set_ghosts a (ghost_atoms a + 1) (ghost_pairs a) (ghost_heap a + blen v), SmallP r)
  | None =>
      let e := u32 (u8_len a + blen v) in
      Ok (set_hp a (push_atom (push_u8 (hp a) v) start e), BytesP idx)
  end.

Definition new_small_number (a : alloc) (v : N) : res (alloc * nodeptr) :=
  if NODE_PTR_IDX_MASK <? v then Err (Panic 8) else
  let len := len_for_value v in
  if heap_limit a <? u8_len a + ghost_heap a + len then Err OutOfMemory else
  do _ <- check_atom_limit a;
  Ok (set_ghosts a (ghost_atoms a + 1) (ghost_pairs a) (ghost_heap a + len), SmallP v).

(* new_u64: buf = [0] ++ val.to_be_bytes(); &buf[start..] with start from the threshold chain *)
Definition u64_start (val : N) : nat :=
  if val =? 0 then 9
  else if val <? 0x80 then 8
  else if val <? 0x8000 then 7
  else if val <? 0x800000 then 6
  else if val <? 0x80000000 then 5
  else if val <? 0x8000000000 then 4
  else if val <? 0x800000000000 then 3
  else if val <? 0x80000000000000 then 2
  else if val <? 0x8000000000000000 then 1
  else 0.
Definition u64_bytes (val : N) : bytes := skipn (u64_start val) (0 :: be_bytes 8 val).
Definition new_u64 (a : alloc) (val : N) : res (alloc * nodeptr) := new_atom a (u64_bytes val).

(* new_i64: non-negative values go through new_u64; negative ones slice val.to_be_bytes() *)
Definition i64_start (val : Z) : nat :=
  if (-0x80 <=? val)%Z then 7
  else if (-0x8000 <=? val)%Z then 6
  else if (-0x800000 <=? val)%Z then 5
  else if (-0x80000000 <=? val)%Z then 4
  else if (-0x8000000000 <=? val)%Z then 3
  else if (-0x800000000000 <=? val)%Z then 2
  else if (-0x80000000000000 <=? val)%Z then 1
  else 0.
Definition i64_bytes (val : Z) : bytes :=
  if (0 <=? val)%Z then u64_bytes (Z.to_N val)
  else skipn (i64_start val) (be_bytes 8 (Z.to_N (val + 18446744073709551616))).
Definition new_i64 (a : alloc) (val : Z) : res (alloc * nodeptr) := new_atom a (i64_bytes val).

(* BigInt::to_signed_bytes_be of num-bigint / malachite-bigint: the minimal two's-complement
   encoding, except that zero is the single byte 0 (library behaviour, part of the trusted base) *)
Definition to_signed_bytes_be (z : Z) : bytes :=
  match z with Z0 => [0] | _ => bytes_of_int z end.

(* "make number minimal by removing leading zeros" (allocator.rs:715) *)
Fixpoint strip_leading_zeros (s : bytes) : bytes :=
  match s with
  | 0 :: rest =>
      match rest with
      | y :: _ => if 128 <=? y then s else strip_leading_zeros rest
      | [] => strip_leading_zeros rest
      end
  | _ => s
  end.

(* new_number / new_malachite_number (same text for both bignum back-ends) *)
Definition new_number (a : alloc) (v : Z) : res (alloc * nodeptr) :=
  if (0 <=? v)%Z && (v <=? Z.of_N NODE_PTR_IDX_MASK)%Z then new_small_number a (Z.to_N v)
  else new_atom a (strip_leading_zeros (to_signed_bytes_be v)).
Definition new_malachite_number := new_number.

Definition new_pair (a : alloc) (first rest : nodeptr) : res (alloc * nodeptr) :=
  let idx := pairs_len a in
  if MAX_NUM_PAIRS <? ghost_pairs a then Err (Panic 7) else
  if MAX_NUM_PAIRS - ghost_pairs a <=? idx then Err TooManyPairs else
  Ok (set_hp a (push_pair (hp a) first rest), PairP idx).

Definition add_ghost_pair (a : alloc) (amount : N) : res alloc :=
  if MAX_NUM_PAIRS <? ghost_pairs a + pairs_len a then Err (Panic 7) else
  if MAX_NUM_PAIRS - ghost_pairs a - pairs_len a <? amount then Err TooManyPairs else
  Ok (set_ghosts a (ghost_atoms a) (ghost_pairs a + amount) (ghost_heap a)).

Definition remove_ghost_pair (a : alloc) (amount : N) : res alloc :=
  if ghost_pairs a <? amount then Err (Panic 10) else
  Ok (set_ghosts a (ghost_atoms a) (ghost_pairs a - amount) (ghost_heap a)).

Definition add_ghost_atom (a : alloc) (amount : N) : res alloc :=
  if MAX_NUM_ATOMS <? ghost_atoms a + atoms_len a then Err (Panic 7) else
  if MAX_NUM_ATOMS - ghost_atoms a - atoms_len a <? amount then Err TooManyAtoms else
  Ok (set_ghosts a (ghost_atoms a + amount) (ghost_pairs a) (ghost_heap a)).

(* atom_vec[i] *)
Definition get_atom (a : alloc) (i : N) : res (N * N) :=
  match nth_N (atoms (hp a)) i with Some se => Ok se | None => Err (Panic 2) end.
Definition get_pair (a : alloc) (i : N) : res (nodeptr * nodeptr) :=
  match nth_N (pairs (hp a)) i with Some p => Ok p | None => Err (Panic 3) end.
(* &u8_vec[atom.start..atom.end] *)
Definition buf_bytes (a : alloc) (se : N * N) : res bytes :=
  match slice (u8 (hp a)) (fst se) (snd se) with Some b => Ok b | None => Err (Panic 4) end.
(* atom.end - atom.start in u32 *)
Definition buf_len (se : N * N) : res N :=
  if snd se <? fst se then Err (Panic 7) else Ok (snd se - fst se).

Definition bounds_check (start e len : N) : res unit :=
  if len <? start then Err (InvalidAllocArg 1)
  else if len <? e then Err (InvalidAllocArg 2)
  else if e <? start then Err (InvalidAllocArg 3)
  else Ok tt.

(* which branch of new_substr ran (the last one is finding F2's branch) *)
Inductive substr_path := SubBytes | SubSmallSmall | SubSmallHeap.

(* F2FIX: false = the code as it is; true = with the heap-limit check added to the branch that
   copies a slice of an inline atom to the heap (notes/fix_F2_limit.diff) *)
Definition new_substr_gen (f2fix : bool) (a : alloc) (node : nodeptr) (start e : N)
  : res (alloc * nodeptr * substr_path) :=
  do _ <- check_atom_limit a;
  match node with
  | PairP _ => Err (InternalError 1)
  | BytesP i =>
      do atom <- get_atom a i;
      do atom_len <- buf_len atom;
      do _ <- bounds_check start e atom_len;
      let idx := atoms_len a in
      Ok (set_hp a (push_atom (hp a) (fst atom + start) (fst atom + e)), BytesP idx, SubBytes)
  | SmallP val =>
      let len := len_for_value val in
      do _ <- bounds_check start e len;
      do buf <- small_bytes val;
      match slice buf start e with
      | None => Err (Panic 4)
      | Some sub =>
          match fits_in_small_atom sub with
          | Some nv =>
              Ok (set_ghosts a (ghost_atoms a + 1) (ghost_pairs a) (ghost_heap a), SmallP nv, SubSmallSmall)
          | None =>
              if f2fix && (heap_limit a <? u8_len a + ghost_heap a + blen sub) then Err OutOfMemory else
              let st := u8_len a in
              let en := st + blen sub in
              let idx := atoms_len a in
              Ok (set_hp a (push_atom (push_u8 (hp a) sub) (u32 st) (u32 en)), BytesP idx, SubSmallHeap)
          end
      end
  end.

(* atom_len (allocator.rs:1038) *)
Definition atom_len (a : alloc) (node : nodeptr) : res N :=
  match node with
  | BytesP i => do atom <- get_atom a i; buf_len atom
  | SmallP v => Ok (len_for_value v)
  | PairP _ => Err (Panic 6)
  end.

(* the loop of new_concat over [nodes]: [acc] is the u8 vector being extended (extend_from_within
   reads from it), [counter] the running length. An Err is returned after `truncate(start)`,
   i.e. with the vector as it was. *)
Fixpoint concat_loop (a : alloc) (new_size : N) (nodes : list nodeptr) (acc : bytes) (counter : N)
  : res (bytes * N) :=
  match nodes with
  | [] => Ok (acc, counter)
  | PairP _ :: _ => Err (InternalError 3)
  | BytesP i :: rest =>
      do term <- get_atom a i;
      do tl <- buf_len term;
      if new_size <? counter + tl then Err (InternalError 2) else
      match slice acc (fst term) (snd term) with
      | None => Err (Panic 4)
      | Some b => concat_loop a new_size rest (acc ++ b) (counter + tl)
      end
  | SmallP v :: rest =>
      do buf <- small_bytes v;
      concat_loop a new_size rest (acc ++ buf) (counter + len_for_value v)
  end.

Definition new_concat (a : alloc) (new_size : N) (nodes : list nodeptr) : res (alloc * nodeptr) :=
  do _ <- check_atom_limit a;
  let start := u8_len a in
  if heap_limit a <? start + ghost_heap a + new_size then Err OutOfMemory else
  match nodes with
  | [] =>
      if negb (new_size =? 0) then Err (InternalError 2) else
      Ok (set_ghosts a (ghost_atoms a + 1) (ghost_pairs a) (ghost_heap a), nil_node)
  | [n] =>
      do l <- atom_len a n;
      if negb (l =? new_size) then Err (InternalError 2) else
      Ok (set_ghosts a (ghost_atoms a + 1) (ghost_pairs a) (ghost_heap a + new_size), n)
  | _ =>
      do '(acc, counter) <- concat_loop a new_size nodes (u8 (hp a)) 0;
      if negb (counter =? new_size) then Err (InternalError 2) else
      let e := u32 (blen acc) in
      let idx := atoms_len a in
      Ok (set_hp a (push_atom (mkHeap acc (atoms (hp a)) (pairs (hp a))) (u32 start) e), BytesP idx)
  end.

(* ------------------------------------------------------------------ readers *)

Definition atom (a : alloc) (node : nodeptr) : res bytes :=
  match node with
  | BytesP i => do se <- get_atom a i; buf_bytes a se
  | SmallP v => small_bytes v
  | PairP _ => Err (Panic 6)
  end.

(* bytes_eq_int (allocator.rs:993) *)
Definition bytes_eq_int (a : alloc) (atom : N * N) (val : N) : res bool :=
  let len := len_for_value val in
  do l <- buf_len atom;
  if negb (l =? len) then Ok false else
  if val =? 0 then Ok true else
  do b <- buf_bytes a atom;
  match b with
  | [] => Err (Panic 4)
  | x :: _ => if 128 <=? x then Ok false else Ok (val =? u32 (be_value b))
  end.

Definition atom_eq (a : alloc) (lhs rhs : nodeptr) : res bool :=
  match lhs, rhs with
  | PairP _, _ | _, PairP _ => Err (Panic 5)
  | BytesP i, BytesP j =>
      do l <- get_atom a i; do r <- get_atom a j;
      do lb <- buf_bytes a l; do rb <- buf_bytes a r;
      Ok (bytes_eqb lb rb)
  | SmallP v, SmallP w => Ok (v =? w)
  | SmallP v, BytesP j => do r <- get_atom a j; bytes_eq_int a r v
  | BytesP i, SmallP w => do l <- get_atom a i; bytes_eq_int a l w
  end.

Definition small_number (a : alloc) (node : nodeptr) : res (option N) :=
  match node with
  | SmallP v => Ok (Some v)
  | BytesP i => do se <- get_atom a i; do b <- buf_bytes a se; Ok (fits_in_small_atom b)
  | PairP _ => Ok None
  end.

(* number() / malachite_number(): number_from_u8 is 0 for the empty string, else from_signed_bytes_be *)
Definition number (a : alloc) (node : nodeptr) : res Z :=
  match node with
  | BytesP i => do se <- get_atom a i; do b <- buf_bytes a se; Ok (int_of_bytes b)
  | SmallP v => Ok (Z.of_N v)
  | PairP _ => Err (Panic 6)
  end.

Inductive sexp_view := SAtom | SPair (l r : nodeptr).
Definition sexp_of (a : alloc) (node : nodeptr) : res sexp_view :=
  match node with
  | PairP i => do p <- get_pair a i; Ok (SPair (fst p) (snd p))
  | _ => Ok SAtom
  end.

Inductive node_view := NBuffer (b : bytes) | NU32 (v : N) | NPair (l r : nodeptr).
Definition node_of (a : alloc) (node : nodeptr) : res node_view :=
  match node with
  | BytesP i => do se <- get_atom a i; do b <- buf_bytes a se; Ok (NBuffer b)
  | SmallP v => Ok (NU32 v)
  | PairP i => do p <- get_pair a i; Ok (NPair (fst p) (snd p))
  end.

(* ------------------------------------------------------------------ value-preserving restore *)

Inductive node_status := StBefore | StAfterNewBytes | StAfterOldBytes (s e : N).

Definition checkpoint_node_status (a : alloc) (cp : tcheckpoint) (node : nodeptr) : res node_status :=
  match node with
  | PairP i => Ok (if i <? c_pairs cp then StBefore else StAfterNewBytes)
  | BytesP i =>
      if i <? c_atoms cp then Ok StBefore else
      do atom <- get_atom a i;
      Ok (if fst atom <? c_u8s cp then StAfterOldBytes (fst atom) (snd atom) else StAfterNewBytes)
  | SmallP _ => Ok StBefore
  end.

Inductive maybe_restore := NoReplace | Replace (n : nodeptr) | Aborted.

(* maybe_restore_with_node (allocator.rs:548). Returns the allocator as the call leaves it together
   with the result: the InternalError / new_atom error exits happen AFTER the restore. *)
Definition maybe_restore_with_node (a : alloc) (cp : tcheckpoint) (ret : nodeptr)
  : alloc * res maybe_restore :=
  if (u8_len a <? c_u8s cp) || (atoms_len a <? c_atoms cp) || (pairs_len a <? c_pairs cp)
  then (a, Err (Panic 7)) else
  let saved := (u8_len a - c_u8s cp) + (atoms_len a - c_atoms cp) * 8 + (pairs_len a - c_pairs cp) * 8 in
  if saved <? MIN_SAVINGS then (a, Ok Aborted) else
  match checkpoint_node_status a cp ret with
  | Err e => (a, Err e)
  | Ok StBefore =>
      match restore_transparent_checkpoint a cp with
      | Err e => (a, Err e)
      | Ok a1 => (a1, Ok NoReplace)
      end
  | Ok (StAfterOldBytes s e) =>
      match restore_transparent_checkpoint a cp with
      | Err er => (a, Err er)
      | Ok a1 =>
          if ghost_atoms a1 =? 0 then (a1, Err (InternalError 4)) else
          let a2 := set_ghosts a1 (ghost_atoms a1 - 1) (ghost_pairs a1) (ghost_heap a1) in
          if (e <? s) || (u8_len a2 <? e) then (a2, Err (InternalError 5)) else
          let idx := atoms_len a2 in
          (set_hp a2 (push_atom (hp a2) s e), Ok (Replace (BytesP idx)))
      end
  | Ok StAfterNewBytes =>
      match node_of a ret with
      | Err e => (a, Err e)
      | Ok (NBuffer buf) =>
          if CLONE_ATOM_LIMIT <? blen buf then (a, Ok Aborted) else
          let len := blen buf in
          match restore_transparent_checkpoint a cp with
          | Err er => (a, Err er)
          | Ok a1 =>
              if ghost_atoms a1 =? 0 then (a1, Err (InternalError 4)) else
              let a2 := set_ghosts a1 (ghost_atoms a1 - 1) (ghost_pairs a1) (ghost_heap a1) in
              if ghost_heap a2 <? len then (a2, Err (InternalError 6)) else
              let a3 := set_ghosts a2 (ghost_atoms a2) (ghost_pairs a2) (ghost_heap a2 - len) in
              match new_atom a3 buf with
              | Err e => (a3, Err e)
              | Ok (a4, n) => (a4, Ok (Replace n))
              end
          end
      | Ok _ => (a, Ok Aborted)
      end
  end.

(* ------------------------------------------------------------------ denotation *)

(* the tree a node stands for; fuel bounds the pair depth (children of pair i have index < i) *)
Fixpoint denote_fuel (fuel : nat) (h : heap) (n : nodeptr) : option sexp :=
  match n with
  | SmallP v =>
      if NODE_PTR_IDX_MASK <? v then None
      else Some (Atom (be_bytes (N.to_nat (len_for_value v)) v))
  | BytesP i =>
      match nth_N (atoms h) i with
      | Some (s, e) => match slice (u8 h) s e with Some b => Some (Atom b) | None => None end
      | None => None
      end
  | PairP i =>
      match fuel with
      | O => None
      | S f =>
          match nth_N (pairs h) i with
          | Some (l, r) =>
              match denote_fuel f h l, denote_fuel f h r with
              | Some tl, Some tr => Some (Cons tl tr)
              | _, _ => None
              end
          | None => None
          end
      end
  end.

Definition node_fuel (n : nodeptr) : nat :=
  match n with PairP i => S (N.to_nat i) | _ => O end.
Definition denote (h : heap) (n : nodeptr) : option sexp := denote_fuel (node_fuel n) h n.
