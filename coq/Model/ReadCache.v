(* src/serde/read_cache_lookup.rs: ReadCacheLookup mirrors the decoder's parse stack by tree
   hashes, reference-counts the hashes that are currently reachable, and searches breadth-first
   for the shortest paths from the stack root to a given hash. Executable definitions only.

   HashMaps are association lists keyed by the 32-byte hashes; the Rust never iterates a HashMap
   or the HashSet [seen_ids] (only get / entry / contains / insert), so no iteration order of a
   hashed container can influence the result. The Vecs that ARE iterated (the parent list of a
   hash, partial_paths, possible_responses) are kept in the Rust's push order.
   Panic sites: 11 read_stack.pop().expect("stack empty"); 12 count -= 1 below zero (u32);
   13 count += 1 above u32::MAX. *)
From Clvm Require Export Model.Err Model.Sexp Model.Classic.
Open Scope N_scope.

Section ReadCache.
  Variable H : bytes -> bytes.                        (* sha256 *)

  Definition hash_blob (b : bytes) : bytes := H b.
  (* hash_blobs(&[&[2], a, b]) *)
  Definition hash_pair2 (a b : bytes) : bytes := H (2 :: a ++ b).

  (* ---- association lists standing for HashMap<Bytes32, _> *)
  Fixpoint alist_get {V} (m : list (bytes * V)) (k : bytes) : option V :=
    match m with
    | [] => None
    | (k', v) :: r => if bytes_eqb k' k then Some v else alist_get r k
    end.

  (* *map.entry(k).or_insert(d) = f(old) ; new keys are appended (position is never observed) *)
  Fixpoint alist_update {V} (m : list (bytes * V)) (k : bytes) (d : V) (f : V -> V) : list (bytes * V) :=
    match m with
    | [] => [(k, f d)]
    | (k', v) :: r => if bytes_eqb k' k then (k', f v) :: r else (k', v) :: alist_update r k d f
    end.

  Record rcl := {
    root_hash : bytes;
    read_stack : list (bytes * bytes);                (* top first *)
    count : list (bytes * N);
    parent_lookup : list (bytes * list (bytes * bool))
  }.

  Definition rcl_new : rcl :=
    let root := hash_blob [1] in
    {| root_hash := root; read_stack := []; count := [(root, 1)]; parent_lookup := [] |}.

  Definition count_of (c : list (bytes * N)) (k : bytes) : N :=
    match alist_get c k with Some n => n | None => 0 end.

  Definition count_inc (c : list (bytes * N)) (k : bytes) : res (list (bytes * N)) :=
    if 4294967295 <=? count_of c k then Err (Panic 13)
    else Ok (alist_update c k 0 (fun n => n + 1)).

  Definition count_dec (c : list (bytes * N)) (k : bytes) : res (list (bytes * N)) :=
    if count_of c k =? 0 then Err (Panic 12)
    else Ok (alist_update c k 0 (fun n => n - 1)).

  Definition parent_add (p : list (bytes * list (bytes * bool))) (k : bytes) (e : bytes * bool) :=
    alist_update p k [] (fun l => l ++ [e]).

  (* push(id) *)
  Definition rcl_push (s : rcl) (id : bytes) : res rcl :=
    let new_root := hash_pair2 id (root_hash s) in
    do c1 <- count_inc (count s) id;
    do c2 <- count_inc c1 new_root;
    let p1 := parent_add (parent_lookup s) id (new_root, false) in
    let p2 := parent_add p1 (root_hash s) (new_root, true) in
    Ok {| root_hash := new_root; read_stack := (id, root_hash s) :: read_stack s;
          count := c2; parent_lookup := p2 |}.

  (* pop() *)
  Definition rcl_pop (s : rcl) : res ((bytes * bytes) * rcl) :=
    match read_stack s with
    | [] => Err (Panic 11)
    | item :: rest =>
        do c1 <- count_dec (count s) (fst item);
        do c2 <- count_dec c1 (root_hash s);
        Ok (item, {| root_hash := snd item; read_stack := rest; count := c2;
                     parent_lookup := parent_lookup s |})
    end.

  (* pop2_and_cons() *)
  Definition rcl_pop2_and_cons (s : rcl) : res rcl :=
    do '(rgt, s1) <- rcl_pop s;
    do '(lft, s2) <- rcl_pop s1;
    do c1 <- count_inc (count s2) (fst lft);
    do c2 <- count_inc c1 (fst rgt);
    let new_root := hash_pair2 (fst lft) (fst rgt) in
    let p1 := parent_add (parent_lookup s2) (fst lft) (new_root, false) in
    let p2 := parent_add p1 (fst rgt) (new_root, true) in
    rcl_push {| root_hash := root_hash s2; read_stack := read_stack s2; count := c2;
                parent_lookup := p2 |} new_root.

  (* ---- serialized_length.rs: atom_length_bits *)
  Definition atom_length_bits (num_bits : N) : option N :=
    if num_bits <? 8 then Some 1
    else
      let num_bytes := (num_bits + 7) / 8 in
      if num_bytes <? 0x40 then Some (1 + num_bytes)
      else if num_bytes <? 0x2000 then Some (2 + num_bytes)
      else if num_bytes <? 0x100000 then Some (3 + num_bytes)
      else if num_bytes <? 0x8000000 then Some (4 + num_bytes)
      else if num_bytes <? 0x400000000 then Some (5 + num_bytes)
      else None.

  (* ---- reversed_path_to_vec_u8. A path under construction is kept with the most recently
     pushed direction first, which is the order of traversal from the stack root (the Rust
     iterates its BitVec in reverse). Result: the minimal big-endian bytes of
     2^len + sum(bit_i * 2^i), in exactly (len + 8) / 8 bytes. *)
  Fixpoint path_value (trav : list bool) : N :=
    match trav with
    | [] => 1
    | b :: r => 2 * path_value r + (if b then 1 else 0)
    end.

  Fixpoint be_bytes (c : nat) (v : N) : bytes :=
    match c with
    | O => []
    | S c' => be_bytes c' (v / 256) ++ [v mod 256]
    end.

  Definition path_to_bytes (trav : list bool) : bytes :=
    be_bytes ((length trav + 8) / 8) (path_value trav).

  (* ---- find_paths *)
  Definition seen_contains (seen : list bytes) (k : bytes) : bool := existsb (bytes_eqb k) seen.

  (* the inner `for (parent, direction) in items` loop for one (node, path);
     returns None for the early `return possible_responses` *)
  Fixpoint scan_parents (cnt : list (bytes * N)) (max_path_length : N) (path : list bool)
           (items : list (bytes * bool)) (seen : list bytes) (acc : list (bytes * list bool))
    : option (list bytes * list (bytes * list bool)) :=
    match items with
    | [] => Some (seen, acc)
    | (parent, direction) :: r =>
        if (0 <? count_of cnt parent) && negb (seen_contains seen parent) then
          if max_path_length <? N.of_nat (length path) then None
          else
            let acc' := if N.of_nat (length path) <? max_path_length
                        then acc ++ [(parent, direction :: path)] else acc in
            scan_parents cnt max_path_length path r (parent :: seen) acc'
        else scan_parents cnt max_path_length path r (parent :: seen) acc
    end.

  (* one breadth-first level: `for (node, path) in partial_paths` *)
  Fixpoint scan_level (s : rcl) (max_bytes max_path_length : N)
           (partial : list (bytes * list bool)) (seen : list bytes)
           (responses : list bytes) (next : list (bytes * list bool))
    : (list bytes * list bytes * list (bytes * list bool)) + list bytes :=
    match partial with
    | [] => inl (seen, responses, next)
    | (node, path) :: r =>
        if bytes_eqb node (root_hash s) then
          let responses' :=
            match atom_length_bits (N.of_nat (length path) + 1) with
            | Some path_len => if path_len <=? max_bytes then responses ++ [path_to_bytes path] else responses
            | None => responses
            end in
          scan_level s max_bytes max_path_length r seen responses' next
        else
          match alist_get (parent_lookup s) node with
          | None => scan_level s max_bytes max_path_length r seen responses next
          | Some items =>
              match scan_parents (count s) max_path_length path items seen next with
              | None => inr responses                          (* early return *)
              | Some (seen', next') => scan_level s max_bytes max_path_length r seen' responses next'
              end
          end
    end.

  Fixpoint bfs (fuel : nat) (s : rcl) (max_bytes max_path_length : N)
           (partial : list (bytes * list bool)) (seen : list bytes) (responses : list bytes)
    : res (list bytes) :=
    match fuel with
    | O => Err OutOfFuel
    | S f =>
        match partial with
        | [] => Ok responses
        | _ =>
            match scan_level s max_bytes max_path_length partial seen responses [] with
            | inr resp => Ok resp
            | inl (seen', responses', next) =>
                match responses' with
                | [] => bfs f s max_bytes max_path_length next seen' responses'
                | _ => Ok responses'
                end
            end
        end
    end.

  Definition u64_max : N := 18446744073709551615.

  Definition bfs_fuel (s : rcl) : nat :=
    S (S (fold_right (fun kv acc => (length (snd kv) + acc)%nat) O (parent_lookup s))).

  Definition find_paths (s : rcl) (id : bytes) (serialized_length : N) : res (list bytes) :=
    if serialized_length <? 4 then Ok []
    else
      let max_bytes := serialized_length - 1 in
      (* (max_bytes.saturating_mul(8) - 1) as usize, 64-bit *)
      let max_path_length := N.min (max_bytes * 8) u64_max - 1 in
      bfs (bfs_fuel s) s max_bytes max_path_length [(id, [])] [id] [].

  (* Vec<u8> ordering: lexicographic *)
  Fixpoint bytes_lt (a b : bytes) : bool :=
    match a, b with
    | [], [] => false
    | [], _ :: _ => true
    | _ :: _, [] => false
    | x :: a', y :: b' => if x <? y then true else if y <? x then false else bytes_lt a' b'
    end.

  Fixpoint min_bytes (cur : bytes) (l : list bytes) : bytes :=
    match l with
    | [] => cur
    | x :: r => min_bytes (if bytes_lt x cur then x else cur) r
    end.

  (* find_path: sort, keep the smallest *)
  Definition find_path (s : rcl) (id : bytes) (serialized_length : N) : res (option bytes) :=
    do paths <- find_paths s id serialized_length;
    match paths with
    | [] => Ok None
    | x :: r => Ok (Some (min_bytes x r))
    end.
End ReadCache.
