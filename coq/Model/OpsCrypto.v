(* The cryptographic operators on the tree store, parametric in the primitives (Model/Prims.v):
   bls_ops.rs (g1_subtract, g1_multiply, g1_negate, g2_add, g2_subtract, g2_multiply, g2_negate,
   g1_map, g2_map, pairing_identity, bls_verify), more_ops.rs (point_add, pubkey_for_exp,
   coinid), keccak256_ops.rs, secp_ops.rs, op_utils.rs mod_group_order and the point
   decoding of allocator.rs (g1, g2, validate_g1, validate_g2).

   Each function follows the Rust statement by statement, so that the ORDER of the checks (and
   hence which error is reported when several apply, and whether the budget or the argument
   error comes first) is the Rust's.

   The validated-point cache (Allocator::validated_g1_points / validated_g2_points) is NOT
   modelled: Allocator::g1/g2 never consult it (they always decode and validate), and
   validate_g1/validate_g2 (used only by the two negate operators in strict mode) consult it
   only to skip a validation whose outcome is already known to be success: the cache holds
   byte strings that passed from_bytes, results of to_bytes of group operations, and the
   sign-flipped image of a validated non-infinity point. Under the assumption that those are
   valid encodings (a fact about the curve, not about clvm_rs) the cache cannot change any
   outcome. The check C32 exercises negate after cache-filling operations to test exactly this.

   A point is written as its compressed encoding. "total = point" (first operand of a
   subtraction) is therefore the operand's bytes: decoding is injective on valid encodings.

   Error kinds: Allocator::g1/g2 report InvalidAllocArg, everything else InvalidOpArg; message
   texts are not modelled (code 0), as in OpUtils.bad_arg.

   u64 arithmetic: every `cost +=` is followed by check_cost against max_cost < 2^64 or adds a
   product of an atom length (< 2^34) and a constant < 2^25 to a value already below max_cost,
   so no addition can wrap for any allocator-representable argument list; costs are unbounded N
   here, as in OpsCore.v. *)
From Clvm Require Export Model.OpUtils Model.Prims.
Open Scope N_scope.

(* ---- constants (pinned against the source by Pins/C32.v through Gen/CryptoConsts.v) ---- *)
Definition BLS_G1_SUBTRACT_BASE_COST : N := 101094.
Definition BLS_G1_SUBTRACT_COST_PER_ARG : N := 1343980.
Definition BLS_G1_MULTIPLY_BASE_COST : N := 705500.
Definition BLS_G1_MULTIPLY_COST_PER_BYTE : N := 10.
Definition NEW_BLS_G1_MULTIPLY_BASE_COST : N := 1900000.
Definition NEW_BLS_G1_MULTIPLY_COST_PER_BYTE : N := 24.
Definition BLS_G1_NEGATE_BASE_COST : N := 1396 - 480.
Definition BLS_G2_ADD_BASE_COST : N := 80000.
Definition BLS_G2_ADD_COST_PER_ARG : N := 1950000.
Definition BLS_G2_SUBTRACT_BASE_COST : N := 80000.
Definition BLS_G2_SUBTRACT_COST_PER_ARG : N := 1950000.
Definition BLS_G2_MULTIPLY_BASE_COST : N := 2100000.
Definition BLS_G2_MULTIPLY_COST_PER_BYTE : N := 5.
Definition NEW_BLS_G2_MULTIPLY_BASE_COST : N := 3000000.
Definition NEW_BLS_G2_MULTIPLY_COST_PER_BYTE : N := 23.
Definition BLS_G2_NEGATE_BASE_COST : N := 2164 - 960.
Definition BLS_MAP_TO_G1_BASE_COST : N := 195000.
Definition BLS_MAP_TO_G1_COST_PER_BYTE : N := 4.
Definition BLS_MAP_TO_G1_COST_PER_DST_BYTE : N := 4.
Definition NEW_BLS_MAP_TO_G1_COST_PER_BYTE : N := 3.
Definition NEW_BLS_MAP_TO_G1_COST_PER_DST_BYTE : N := 2.
Definition NEW_BLS_MAP_TO_G1_BASE_COST : N := 700000.
Definition BLS_MAP_TO_G2_BASE_COST : N := 815000.
Definition BLS_MAP_TO_G2_COST_PER_BYTE : N := 4.
Definition BLS_MAP_TO_G2_COST_PER_DST_BYTE : N := 4.
Definition NEW_BLS_MAP_TO_G2_COST_PER_BYTE : N := 3.
Definition NEW_BLS_MAP_TO_G2_COST_PER_DST_BYTE : N := 2.
Definition NEW_BLS_MAP_TO_G2_BASE_COST : N := 2700000.
Definition BLS_PAIRING_BASE_COST : N := 3000000.
Definition BLS_PAIRING_COST_PER_ARG : N := 1200000.
Definition NEW_BLS_PAIRING_BASE_COST : N := 1000000.
Definition NEW_BLS_PAIRING_COST_PER_ARG : N := 5000000.

Definition POINT_ADD_BASE_COST : N := 101094.
Definition POINT_ADD_COST_PER_ARG : N := 1343980.
Definition PUBKEY_BASE_COST : N := 1325730.
Definition PUBKEY_COST_PER_BYTE : N := 38.
(* SHA256_BASE_COST + SHA256_COST_PER_ARG * 3 + SHA256_COST_PER_BYTE * (32 + 32 + 8) - 153 *)
Definition COINID_COST : N := 87 + 134 * 3 + 2 * (32 + 32 + 8) - 153.
Definition NEW_COINID_COST : N := 1000 + 160 * 3 + 6 * (32 + 32 + 8) - 153.

Definition KECCAK256_BASE_COST : N := 50.
Definition KECCAK256_COST_PER_ARG : N := 160.
Definition KECCAK256_COST_PER_BYTE : N := 2.
Definition NEW_KECCAK256_BASE_COST : N := 2350.
Definition NEW_KECCAK256_COST_PER_ARG : N := 100.
Definition NEW_KECCAK256_COST_PER_BYTE : N := 10.

Definition SECP256R1_VERIFY_COST : N := 1850000.
Definition SECP256K1_VERIFY_COST : N := 1300000.

(* op_utils.rs GROUP_ORDER: 0x73eda753299d7d483339d80809a1d80553bda402fffe5bfeffffffff00000001 *)
Definition GROUP_ORDER : Z :=
  52435875175126190479447740508185965837690552500527637822603658699938581184513%Z.

(* b"BLS_SIG_BLS12381G1_XMD:SHA-256_SSWU_RO_AUG_" / ...G2... *)
Definition DST_G1 : bytes :=
  [66; 76; 83; 95; 83; 73; 71; 95; 66; 76; 83; 49; 50; 51; 56; 49; 71; 49; 95; 88; 77; 68; 58;
   83; 72; 65; 45; 50; 53; 54; 95; 83; 83; 87; 85; 95; 82; 79; 95; 65; 85; 71; 95].
Definition DST_G2 : bytes :=
  [66; 76; 83; 95; 83; 73; 71; 95; 66; 76; 83; 49; 50; 51; 56; 49; 71; 50; 95; 88; 77; 68; 58;
   83; 72; 65; 45; 50; 53; 54; 95; 83; 83; 87; 85; 95; 82; 79; 95; 65; 85; 71; 95].

(* G1Element::default().to_bytes() / G2Element::default().to_bytes(): compressed infinity *)
Definition g1_infinity : bytes := 192 :: repeat 0 47.
Definition g2_infinity : bytes := 192 :: repeat 0 95.

Definition alloc_arg {A} : res A := Err (InvalidAllocArg 0).

(* op_utils.rs mod_group_order: mod_floor, then the (dead, order > 0) sign correction *)
Definition mod_group_order (n : Z) : Z :=
  let remainder := (n mod GROUP_ORDER)%Z in
  if (remainder <? 0)%Z then (remainder + GROUP_ORDER)%Z else remainder.

(* Allocator::g1: pair / wrong size / from_bytes failure are all InvalidAllocArg. (A SmallAtom
   is at most 4 bytes, so its dedicated arm is the wrong-size case.) *)
Definition g1_point (P : prims) (t : sexp) : res bytes :=
  match t with
  | Cons _ _ => alloc_arg
  | Atom b =>
      if negb (blen b =? 48) then alloc_arg
      else if p_g1_valid P b then Ok b else alloc_arg
  end.

Definition g2_point (P : prims) (t : sexp) : res bytes :=
  match t with
  | Cons _ _ => alloc_arg
  | Atom b =>
      if negb (blen b =? 96) then alloc_arg
      else if p_g2_valid P b then Ok b else alloc_arg
  end.

(* ---------------- more_ops.rs ---------------- *)

Fixpoint point_add_loop (P : prims) (args : sexp) (cost : N) (total : bytes) (max_cost : N)
  : res (N * bytes) :=
  match args with
  | Atom _ => Ok (cost, total)
  | Cons arg rest =>
      let cost := cost + POINT_ADD_COST_PER_ARG in
      do _ <- check_cost cost max_cost;
      do point <- g1_point P arg;
      point_add_loop P rest cost (p_g1_add P total point) max_cost
  end.

Definition op_point_add (P : prims) : opfn := fun _ args max_cost =>
  do '(cost, total) <- point_add_loop P args POINT_ADD_BASE_COST g1_infinity max_cost;
  Ok (cost + 48 * MALLOC_COST_PER_BYTE, Atom total).

Definition op_pubkey_for_exp (P : prims) : opfn := fun _ args max_cost =>
  do n <- get_args1 args;
  do '(v0, v0_len) <- int_atom n;
  let cost := PUBKEY_BASE_COST + v0_len * PUBKEY_COST_PER_BYTE in
  do _ <- check_cost cost max_cost;
  Ok (cost + 48 * MALLOC_COST_PER_BYTE, Atom (p_g1_gen_mul P (mod_group_order v0))).

(* the amount rule of op_coinid, on the bytes of the atom *)
Definition coinid_amount_ok (amount : bytes) : bool :=
  match amount with
  | [] => true
  | a0 :: r =>
      if 128 <=? a0 then false                                   (* Amount is Negative *)
      else if bytes_eqb amount [0]
              || ((1 <? blen amount) && (a0 =? 0)
                  && match r with a1 :: _ => a1 <? 128 | [] => false end)
           then false                                            (* leading zeroes *)
      else if (9 <? blen amount) || ((blen amount =? 9) && negb (a0 =? 0))
           then false                                            (* exceeds max coin amount *)
      else true
  end.

(* finalize() returns a [u8; 32] by type, so the `.expect("sha256 hash is not 32 bytes")` cannot
   fire; the model returns H's output as it is *)
Definition op_coinid (H : bytes -> bytes) : opfn := fun f args _ =>
  let new_cost_model := f_new_cost_model f in
  do '(parent_coin, puzzle_hash, amount) <- get_args3 args;
  do parent_coin <- atom_of parent_coin;
  if negb (blen parent_coin =? 32) then bad_arg else
  do puzzle_hash <- atom_of puzzle_hash;
  if negb (blen puzzle_hash =? 32) then bad_arg else
  do amount <- atom_of amount;
  if negb (coinid_amount_ok amount) then bad_arg else
  let ret := H (parent_coin ++ puzzle_hash ++ amount) in
  let cost := if new_cost_model then NEW_COINID_COST else COINID_COST in
  atom_and_cost cost ret.

Definition op_coinid_p (P : prims) : opfn := op_coinid (p_sha256 P).

(* ---------------- keccak256_ops.rs ---------------- *)

(* returns the final cost and the concatenation of the arguments (the hasher's input) *)
Fixpoint keccak_loop (args : sexp) (cost cost_per_arg cost_per_byte max_cost : N)
  : res (N * bytes) :=
  match args with
  | Atom _ => Ok (cost, [])
  | Cons arg rest =>
      let cost := cost + cost_per_arg in
      do blob <- atom_of arg;
      let cost := cost + blen blob * cost_per_byte in
      do _ <- check_cost cost max_cost;
      do '(c, bs) <- keccak_loop rest cost cost_per_arg cost_per_byte max_cost;
      Ok (c, blob ++ bs)
  end.

Definition op_keccak256 (P : prims) : opfn := fun f args max_cost =>
  let '(base_cost, cost_per_arg, cost_per_byte) :=
    if f_new_cost_model f
    then (NEW_KECCAK256_BASE_COST, NEW_KECCAK256_COST_PER_ARG, NEW_KECCAK256_COST_PER_BYTE)
    else (KECCAK256_BASE_COST, KECCAK256_COST_PER_ARG, KECCAK256_COST_PER_BYTE) in
  do '(cost, input) <- keccak_loop args base_cost cost_per_arg cost_per_byte max_cost;
  atom_and_cost cost (p_keccak256 P input).

(* ---------------- secp_ops.rs ---------------- *)

Definition secp_verify (cost : N) (pubkey_ok sig_ok : bytes -> bool)
           (verify : bytes -> bytes -> bytes -> bool) : opfn := fun _ args max_cost =>
  do _ <- check_cost cost max_cost;
  do '(pubkey, msg, sig) <- get_args3 args;
  do pubkey <- atom_of pubkey;
  if negb (pubkey_ok pubkey) then bad_arg else
  do msg <- atom_of msg;
  if negb (blen msg =? 32) then bad_arg else
  do sig <- atom_of sig;
  if negb (sig_ok sig) then bad_arg else
  if verify pubkey msg sig then Ok (cost, nil_s) else Err Secp256Failed.

Definition op_secp256r1_verify (P : prims) : opfn :=
  secp_verify SECP256R1_VERIFY_COST (p_r1_pubkey_ok P) (p_r1_sig_ok P) (p_r1_verify P).

Definition op_secp256k1_verify (P : prims) : opfn :=
  secp_verify SECP256K1_VERIFY_COST (p_k1_pubkey_ok P) (p_k1_sig_ok P) (p_k1_verify P).

(* ---------------- bls_ops.rs ---------------- *)

(* the loop shared by g1_subtract / g2_subtract: decode first, then charge, then check *)
Fixpoint subtract_loop (point_of : sexp -> res bytes) (add : bytes -> bytes -> bytes)
         (neg : bytes -> bytes) (args : sexp) (cost per_arg : N) (total : bytes)
         (is_first : bool) (max_cost : N) : res (N * bytes) :=
  match args with
  | Atom _ => Ok (cost, total)
  | Cons arg rest =>
      do point <- point_of arg;
      let cost := cost + per_arg in
      do _ <- check_cost cost max_cost;
      let total := if is_first then point else add total (neg point) in
      subtract_loop point_of add neg rest cost per_arg total false max_cost
  end.

Definition op_bls_g1_subtract (P : prims) : opfn := fun _ args max_cost =>
  let cost := BLS_G1_SUBTRACT_BASE_COST in
  do _ <- check_cost cost max_cost;
  do '(cost, total) <- subtract_loop (g1_point P) (p_g1_add P) (p_g1_neg P) args cost
                         BLS_G1_SUBTRACT_COST_PER_ARG g1_infinity true max_cost;
  Ok (cost + 48 * MALLOC_COST_PER_BYTE, Atom total).

Definition op_bls_g1_multiply (P : prims) : opfn := fun f args max_cost =>
  do '(point, scalar) <- get_args2 args;
  let cost := if f_new_cost_model f then NEW_BLS_G1_MULTIPLY_BASE_COST
              else BLS_G1_MULTIPLY_BASE_COST in
  do _ <- check_cost cost max_cost;
  do total <- g1_point P point;
  do '(scalar, scalar_len) <- int_atom scalar;
  if f_limits f && negb (f_new_cost_model f) && (1024 <? scalar_len) then bad_arg else
  let cost_per_byte := if f_new_cost_model f then NEW_BLS_G1_MULTIPLY_COST_PER_BYTE
                       else BLS_G1_MULTIPLY_COST_PER_BYTE in
  let cost := cost + scalar_len * cost_per_byte in
  do _ <- check_cost cost max_cost;
  let scalar := mod_group_order scalar in
  Ok (cost + 48 * MALLOC_COST_PER_BYTE, Atom (p_g1_mul P total scalar)).

(* blob[0] ^= 0x20 *)
Definition flip_sign (blob : bytes) : bytes :=
  match blob with b0 :: r => N.lxor b0 32 :: r | [] => [] end.
(* (blob[0] & 0xe0) == 0xc0 *)
Definition is_inf_flag (blob : bytes) : bool :=
  match blob with b0 :: _ => N.land b0 224 =? 192 | [] => false end.

Definition negate_op (size base_cost : N) (valid : bytes -> bool) : opfn := fun f args _ =>
  let strict := negb (f_relaxed_bls f) in
  do point <- get_args1 args;
  do blob <- atom_of point;
  if negb (blen blob =? size) then bad_arg else
  if strict && negb (valid blob) then bad_arg else
  if is_inf_flag blob then Ok (base_cost + size * MALLOC_COST_PER_BYTE, point)
  else atom_and_cost base_cost (flip_sign blob).

Definition op_bls_g1_negate (P : prims) : opfn :=
  negate_op 48 BLS_G1_NEGATE_BASE_COST (p_g1_valid P).

(* the loop of g2_add: decode first, then charge, then check *)
Fixpoint g2_add_loop (P : prims) (args : sexp) (cost : N) (total : bytes) (max_cost : N)
  : res (N * bytes) :=
  match args with
  | Atom _ => Ok (cost, total)
  | Cons arg rest =>
      do point <- g2_point P arg;
      let cost := cost + BLS_G2_ADD_COST_PER_ARG in
      do _ <- check_cost cost max_cost;
      g2_add_loop P rest cost (p_g2_add P total point) max_cost
  end.

Definition op_bls_g2_add (P : prims) : opfn := fun _ args max_cost =>
  let cost := BLS_G2_ADD_BASE_COST in
  do _ <- check_cost cost max_cost;
  do '(cost, total) <- g2_add_loop P args cost g2_infinity max_cost;
  Ok (cost + 96 * MALLOC_COST_PER_BYTE, Atom total).

Definition op_bls_g2_subtract (P : prims) : opfn := fun _ args max_cost =>
  let cost := BLS_G2_SUBTRACT_BASE_COST in
  do _ <- check_cost cost max_cost;
  do '(cost, total) <- subtract_loop (g2_point P) (p_g2_add P) (p_g2_neg P) args cost
                         BLS_G2_SUBTRACT_COST_PER_ARG g2_infinity true max_cost;
  Ok (cost + 96 * MALLOC_COST_PER_BYTE, Atom total).

Definition op_bls_g2_multiply (P : prims) : opfn := fun f args max_cost =>
  do '(point, scalar) <- get_args2 args;
  let cost := if f_new_cost_model f then NEW_BLS_G2_MULTIPLY_BASE_COST
              else BLS_G2_MULTIPLY_BASE_COST in
  do _ <- check_cost cost max_cost;
  do total <- g2_point P point;
  do '(scalar, scalar_len) <- int_atom scalar;
  if f_limits f && negb (f_new_cost_model f) && (1024 <? scalar_len) then bad_arg else
  let cost_per_byte := if f_new_cost_model f then NEW_BLS_G2_MULTIPLY_COST_PER_BYTE
                       else BLS_G2_MULTIPLY_COST_PER_BYTE in
  let cost := cost + scalar_len * cost_per_byte in
  do _ <- check_cost cost max_cost;
  let scalar := mod_group_order scalar in
  Ok (cost + 96 * MALLOC_COST_PER_BYTE, Atom (p_g2_mul P total scalar)).

Definition op_bls_g2_negate (P : prims) : opfn :=
  negate_op 96 BLS_G2_NEGATE_BASE_COST (p_g2_valid P).

(* get_varargs::<2> + the 1..=2 argument-count test *)
Definition map_args (args : sexp) : res (sexp * option sexp) :=
  do l <- get_varargs 2 args;
  match l with
  | [msg] => Ok (msg, None)
  | [msg; dst] => Ok (msg, Some dst)
  | _ => bad_arg
  end.

Definition op_bls_map_to_g1 (P : prims) : opfn := fun f args max_cost =>
  do '(msg, dst) <- map_args args;
  let '(cost, cost_per_byte, cost_per_dst_byte) :=
    if f_new_cost_model f
    then (NEW_BLS_MAP_TO_G1_BASE_COST, NEW_BLS_MAP_TO_G1_COST_PER_BYTE,
          NEW_BLS_MAP_TO_G1_COST_PER_DST_BYTE)
    else (BLS_MAP_TO_G1_BASE_COST, BLS_MAP_TO_G1_COST_PER_BYTE,
          BLS_MAP_TO_G1_COST_PER_DST_BYTE) in
  do _ <- check_cost cost max_cost;
  do msg <- atom_of msg;
  let cost := cost + blen msg * cost_per_byte in
  do _ <- check_cost cost max_cost;
  do dst <- match dst with Some d => atom_of d | None => Ok DST_G1 end;
  let cost := cost + blen dst * cost_per_dst_byte in
  do _ <- check_cost cost max_cost;
  Ok (cost + 48 * MALLOC_COST_PER_BYTE, Atom (p_g1_map P msg dst)).

(* as g1_map, except that there is no check_cost after the message bytes are charged *)
Definition op_bls_map_to_g2 (P : prims) : opfn := fun f args max_cost =>
  do '(msg, dst) <- map_args args;
  let '(cost, cost_per_byte, cost_per_dst_byte) :=
    if f_new_cost_model f
    then (NEW_BLS_MAP_TO_G2_BASE_COST, NEW_BLS_MAP_TO_G2_COST_PER_BYTE,
          NEW_BLS_MAP_TO_G2_COST_PER_DST_BYTE)
    else (BLS_MAP_TO_G2_BASE_COST, BLS_MAP_TO_G2_COST_PER_BYTE,
          BLS_MAP_TO_G2_COST_PER_DST_BYTE) in
  do _ <- check_cost cost max_cost;
  do msg <- atom_of msg;
  let cost := cost + blen msg * cost_per_byte in
  do dst <- match dst with Some d => atom_of d | None => Ok DST_G2 end;
  let cost := cost + blen dst * cost_per_dst_byte in
  do _ <- check_cost cost max_cost;
  Ok (cost + 96 * MALLOC_COST_PER_BYTE, Atom (p_g2_map P msg dst)).

(* while !nilp(args): charge, check, g1(first(args)), rest, g2(first(args)), rest.
   A non-nil atom terminator is charged and then fails in first(). *)
Fixpoint pairing_loop (P : prims) (args : sexp) (cost cost_per_arg max_cost : N)
  : res (N * list (bytes * bytes)) :=
  match args with
  | Atom [] => Ok (cost, [])
  | Atom _ =>
      let cost := cost + cost_per_arg in
      do _ <- check_cost cost max_cost;
      bad_arg
  | Cons x r =>
      let cost := cost + cost_per_arg in
      do _ <- check_cost cost max_cost;
      do g1 <- g1_point P x;
      match r with
      | Atom _ => bad_arg
      | Cons y r2 =>
          do g2 <- g2_point P y;
          do '(c, items) <- pairing_loop P r2 cost cost_per_arg max_cost;
          Ok (c, (g1, g2) :: items)
      end
  end.

Definition op_bls_pairing_identity (P : prims) : opfn := fun f args max_cost =>
  let '(cost, cost_per_arg) :=
    if f_new_cost_model f then (NEW_BLS_PAIRING_BASE_COST, NEW_BLS_PAIRING_COST_PER_ARG)
    else (BLS_PAIRING_BASE_COST, BLS_PAIRING_COST_PER_ARG) in
  do _ <- check_cost cost max_cost;
  do '(cost, items) <- pairing_loop P args cost cost_per_arg max_cost;
  if negb (p_pairing_identity P items) then Err BLSPairingIdentityFailed
  else Ok (cost, nil_s).

(* while !nilp(args): g1(first(args)), rest, atom(first(args)), rest, charge, check *)
Fixpoint verify_loop (P : prims) (args : sexp)
         (cost cost_per_arg cost_per_byte cost_per_dst_byte max_cost : N)
  : res (N * list (bytes * bytes)) :=
  match args with
  | Atom [] => Ok (cost, [])
  | Atom _ => bad_arg
  | Cons x r =>
      do pk <- g1_point P x;
      match r with
      | Atom _ => bad_arg
      | Cons y r2 =>
          do msg <- atom_of y;
          let cost := cost + cost_per_arg in
          let cost := cost + blen msg * cost_per_byte in
          let cost := cost + blen DST_G2 * cost_per_dst_byte in
          do _ <- check_cost cost max_cost;
          do '(c, items) <- verify_loop P r2 cost cost_per_arg cost_per_byte cost_per_dst_byte
                              max_cost;
          Ok (c, (pk, msg) :: items)
      end
  end.

Definition op_bls_verify (P : prims) : opfn := fun f args max_cost =>
  let '(cost, cost_per_arg, cost_per_byte, cost_per_dst_byte) :=
    if f_new_cost_model f
    then (NEW_BLS_PAIRING_BASE_COST, NEW_BLS_PAIRING_COST_PER_ARG,
          NEW_BLS_MAP_TO_G2_COST_PER_BYTE, NEW_BLS_MAP_TO_G2_COST_PER_DST_BYTE)
    else (BLS_PAIRING_BASE_COST, BLS_PAIRING_COST_PER_ARG,
          BLS_MAP_TO_G2_COST_PER_BYTE, BLS_MAP_TO_G2_COST_PER_DST_BYTE) in
  do _ <- check_cost cost max_cost;
  do sig_node <- first args;
  do signature <- g2_point P sig_node;
  do args <- rest args;
  do '(cost, items) <- verify_loop P args cost cost_per_arg cost_per_byte cost_per_dst_byte
                         max_cost;
  if negb (p_aggregate_verify P signature items) then Err BLSVerifyFailed
  else Ok (cost, nil_s).
