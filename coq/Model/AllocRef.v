(* The reference the allocator is compared with (property C12): every atom is a separately stored
   byte string, a node IS its tree, and the only state is the three counts, which evolve by the
   rule of the statement: each new atom counts once, each new pair once, new bytes count toward
   the heap except substrings (which share their parent's bytes); a full restore resets the counts
   to the checkpoint and a transparent restore leaves them unchanged. The caps are those of C13;
   where two caps are exceeded at once the order of the checks is the implementation's. *)
From Clvm Require Export Model.Err Model.IntEnc Model.Sexp.
Open Scope N_scope.

Definition R_MAX_ATOMS : N := 62500000.
Definition R_MAX_PAIRS : N := 62500000.
Definition R_SMALL_LIMIT : N := 67108864.          (* 2^26 *)

Record rstate := mkR { r_atoms : N; r_pairs : N; r_heap : N; r_limit : N }.

Definition r_new (limit : N) : rstate := mkR 2 0 1 limit.
Definition r_counts (r : rstate) : N * N * N := (r_atoms r, r_pairs r, r_heap r).
Definition r_set_counts (r : rstate) (c : N * N * N) : rstate :=
  mkR (fst (fst c)) (snd (fst c)) (snd c) (r_limit r).

Definition r_bump (r : rstate) (da dp dh : N) : rstate :=
  mkR (r_atoms r + da) (r_pairs r + dp) (r_heap r + dh) (r_limit r).

Definition r_atoms_full (r : rstate) : bool := r_atoms r =? R_MAX_ATOMS.
Definition r_heap_over (r : rstate) (extra : N) : bool := r_limit r <? r_heap r + extra.

(* a new atom holding bytes b: heap cap, then atom cap *)
Definition r_new_atom (r : rstate) (b : bytes) : res (rstate * sexp) :=
  if r_heap_over r (blen b) then Err OutOfMemory
  else if r_atoms_full r then Err TooManyAtoms
  else Ok (r_bump r 1 0 (blen b), Atom b).

(* an integer is stored as its minimal two's-complement encoding *)
Definition r_new_int (r : rstate) (z : Z) : res (rstate * sexp) := r_new_atom r (bytes_of_int z).

Definition r_new_small_number (r : rstate) (v : N) : res (rstate * sexp) :=
  if R_SMALL_LIMIT <=? v then Err (Panic 8) else r_new_int r (Z.of_N v).

Definition r_new_pair (r : rstate) (l t : sexp) : res (rstate * sexp) :=
  if R_MAX_PAIRS <=? r_pairs r then Err TooManyPairs
  else Ok (r_bump r 0 1 0, Cons l t).

Definition r_add_ghost_atom (r : rstate) (n : N) : res rstate :=
  if R_MAX_ATOMS <? r_atoms r + n then Err TooManyAtoms else Ok (r_bump r n 0 0).
Definition r_add_ghost_pair (r : rstate) (n : N) : res rstate :=
  if R_MAX_PAIRS <? r_pairs r + n then Err TooManyPairs else Ok (r_bump r 0 n 0).

Definition sub_bytes (b : bytes) (s e : N) : bytes := firstn (N.to_nat (e - s)) (skipn (N.to_nat s) b).

(* a substring: one atom, no bytes *)
Definition r_new_substr (r : rstate) (t : sexp) (s e : N) : res (rstate * sexp) :=
  if r_atoms_full r then Err TooManyAtoms else
  match t with
  | Cons _ _ => Err (InternalError 1)
  | Atom b =>
      if blen b <? s then Err (InvalidAllocArg 1)
      else if blen b <? e then Err (InvalidAllocArg 2)
      else if e <? s then Err (InvalidAllocArg 3)
      else Ok (r_bump r 1 0 0, Atom (sub_bytes b s e))
  end.

Fixpoint all_atoms (ts : list sexp) : option bytes :=
  match ts with
  | [] => Some []
  | Atom b :: rest => match all_atoms rest with Some c => Some (b ++ c) | None => None end
  | Cons _ _ :: _ => None
  end.

(* a concatenation: one atom and new_size bytes (also when it is optimised away); the declared
   size must be the actual one *)
Definition r_new_concat (r : rstate) (new_size : N) (ts : list sexp) : res (rstate * sexp) :=
  if r_atoms_full r then Err TooManyAtoms else
  if r_heap_over r new_size then Err OutOfMemory else
  match ts with
  | [] => if new_size =? 0 then Ok (r_bump r 1 0 0, Atom []) else Err (InternalError 2)
  | [Cons _ _] => Err (Panic 6)
  | _ =>
      match all_atoms ts with
      | None => Err (InternalError 3)
      | Some b => if blen b =? new_size then Ok (r_bump r 1 0 new_size, Atom b)
                  else Err (InternalError 2)
      end
  end.

(* readers *)
Definition r_atom (t : sexp) : res bytes :=
  match t with Atom b => Ok b | Cons _ _ => Err (Panic 6) end.
Definition r_atom_eq (x y : sexp) : res bool :=
  match x, y with
  | Atom a, Atom b => Ok (bytes_eqb a b)
  | _, _ => Err (Panic 5)
  end.
(* the small-integer view: the bytes are the minimal encoding of a value in [0, 2^26) *)
Definition r_small_number (t : sexp) : option N :=
  match t with
  | Atom b =>
      let z := int_of_bytes b in
      if canonical_int b && (0 <=? z)%Z && (z <? Z.of_N R_SMALL_LIMIT)%Z then Some (Z.to_N z) else None
  | Cons _ _ => None
  end.
Definition r_number (t : sexp) : res Z :=
  match t with Atom b => Ok (int_of_bytes b) | Cons _ _ => Err (Panic 6) end.
