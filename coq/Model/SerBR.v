(* src/serde/ser_br.rs: node_to_stream_backrefs / node_to_bytes_backrefs(_limit).
   Executable definitions only.

   The two ObjectCaches (treehash, serialized_length; src/serde/object_cache.rs) memoise functions
   of the tree a node denotes (Classic.treehash / Classic.cache_serialized_length); the model
   computes them once per node, bottom-up, in an annotated copy of the tree.
   The writer is a parameter: an unlimited Cursor<Vec<u8>> or the LimitedWriter of ser.rs.
   Panic sites: 21 assert!(op == Some(ReadOp::Parse)); 22 the two .expect()s on the caches;
   the ReadCacheLookup sites 11-13 (Model/ReadCache.v). *)
From Clvm Require Export Model.Err Model.Sexp Model.Classic Model.ReadCache.
Open Scope N_scope.

(* a tree whose every node carries its tree hash and its classic serialized length *)
Inductive atree :=
| AAtom (b : bytes) (h : bytes) (len : N)
| ACons (l r : atree) (h : bytes) (len : N).

Definition ahash (t : atree) : bytes := match t with AAtom _ h _ => h | ACons _ _ h _ => h end.
Definition alen (t : atree) : N := match t with AAtom _ _ n => n | ACons _ _ _ n => n end.

Fixpoint erase (t : atree) : sexp :=
  match t with AAtom b _ _ => Atom b | ACons l r _ _ => Cons (erase l) (erase r) end.

Fixpoint n_anodes (t : atree) : nat :=
  match t with AAtom _ _ _ => 1%nat | ACons l r _ _ => S (n_anodes l + n_anodes r) end.

Inductive read_op := RParse | RCons.

Section SerBR.
  Variable H : bytes -> bytes.                        (* sha256 *)

  (* object_cache.rs: treehash and serialized_length of every node *)
  Fixpoint annotate (t : sexp) : res atree :=
    match t with
    | Atom b =>
        do n <- serialized_length_atom b;
        Ok (AAtom b (hash_atom H b) n)
    | Cons l r =>
        do al <- annotate l;
        do ar <- annotate r;
        Ok (ACons al ar (hash_pair H (ahash al) (ahash ar))
                  (sat_add64 (sat_add64 1 (alen al)) (alen ar)))
    end.

  (* an io::Write: write_all of one chunk; None = ErrorKind::OutOfMemory *)
  Context {W : Type}.
  Variable w_write : W -> bytes -> option W.

  Definition write_chunk (w : W) (chunk : bytes) : res W :=
    match w_write w chunk with Some w' => Ok w' | None => Err OutOfMemory end.

  (* write_atom.rs: the prefix in one write_all, the contents in another *)
  Definition write_atom (w : W) (b : bytes) : res W :=
    match atom_prefix (atom_0 b) (blen b) with
    | None => Err SerializationError
    | Some p => do w1 <- write_chunk w p; write_chunk w1 b
    end.

  (* while let Some(ReadOp::Cons) = read_op_stack.last() { pop; pop2_and_cons } *)
  Fixpoint drain_cons (ops : list read_op) (s : rcl) : res (list read_op * rcl) :=
    match ops with
    | RCons :: ops' => do s' <- rcl_pop2_and_cons H s; drain_cons ops' s'
    | _ => Ok (ops, s)
    end.

  Fixpoint ser_loop (fuel : nat) (write_stack : list atree) (ops : list read_op) (s : rcl) (w : W)
    : res W :=
    match fuel with
    | O => Err OutOfFuel
    | S f =>
        match write_stack with
        | [] => Ok w
        | node :: ws =>
            match ops with
            | RParse :: ops1 =>
                do found <- find_path s (ahash node) (alen node);
                do '(ws', ops2, s', w') <-
                  match found with
                  | Some path =>
                      do w1 <- write_chunk w [0xfe];
                      do w2 <- write_atom w1 path;
                      do s1 <- rcl_push H s (ahash node);
                      Ok (ws, ops1, s1, w2)
                  | None =>
                      match node with
                      | ACons l r _ _ =>
                          do w1 <- write_chunk w [0xff];
                          Ok (l :: r :: ws, RParse :: RParse :: RCons :: ops1, s, w1)
                      | AAtom b _ _ =>
                          do w1 <- write_atom w b;
                          do s1 <- rcl_push H s (ahash node);
                          Ok (ws, ops1, s1, w1)
                      end
                  end;
                do '(ops3, s3) <- drain_cons ops2 s';
                ser_loop f ws' ops3 s3 w'
            | _ => Err (Panic 21)
            end
        end
    end.

  Definition node_to_stream_backrefs (t : sexp) (w : W) : res W :=
    match annotate t with
    | Err e => Err e
    | Ok a => ser_loop (2 * n_anodes a + 1) [a] [RParse] (rcl_new H) w
    end.
End SerBR.

(* the two writers *)
Definition w_unlimited (out : bytes) (chunk : bytes) : option bytes := Some (out ++ chunk).

Definition node_to_bytes_backrefs (H : bytes -> bytes) (t : sexp) : res bytes :=
  node_to_stream_backrefs H w_unlimited t [].

Definition node_to_bytes_backrefs_limit (H : bytes -> bytes) (t : sexp) (limit : N) : res bytes :=
  res_map lw_out (node_to_stream_backrefs H lw_write t {| lw_out := []; lw_limit := limit |}).
