(* Bytes: the model's byte strings are lists of N, each element < 256 (wf_bytes). *)
From Coq Require Export List NArith ZArith Bool.
Export ListNotations.

Definition bytes := list N.
Definition wf_byte (x : N) : bool := (x <? 256)%N.
Definition wf_bytes (b : bytes) : bool := forallb wf_byte b.

Fixpoint bytes_eqb (a b : bytes) : bool :=
  match a, b with
  | [], [] => true
  | x :: a', y :: b' => (x =? y)%N && bytes_eqb a' b'
  | _, _ => false
  end.

(* split off exactly n elements; None when the input is too short (read_exact failing) *)
Fixpoint take_exact {A} (n : nat) (l : list A) : option (list A * list A) :=
  match n with
  | O => Some ([], l)
  | S n' => match l with
            | [] => None
            | x :: r => match take_exact n' r with
                        | Some (a, b) => Some (x :: a, b)
                        | None => None
                        end
            end
  end.

(* big-endian unsigned value of a byte string *)
Fixpoint be_acc (acc : N) (b : bytes) : N :=
  match b with [] => acc | x :: r => be_acc (256 * acc + x)%N r end.
Definition be_value (b : bytes) : N := be_acc 0 b.

(* number of leading one bits of a byte: u8::leading_ones / (!b).leading_zeros *)
Fixpoint leading_ones_from8 (n : nat) (bit : N) (b : N) : N :=
  match n with
  | O => 0%N
  | S n' => if N.testbit b bit then (1 + leading_ones_from8 n' (N.pred bit) b)%N else 0%N
  end.
Definition leading_ones8 (b : N) : N := leading_ones_from8 8 7%N b.

Definition blen (b : bytes) : N := N.of_nat (length b).

(* n <= length l, decided without converting n to nat first *)
Definition take_n (n : N) (l : bytes) : option (bytes * bytes) :=
  if (n <=? blen l)%N then Some (firstn (N.to_nat n) l, skipn (N.to_nat n) l) else None.
