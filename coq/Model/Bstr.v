(* Bytes: the model's byte strings are lists of N, each element < 256 (wf_bytes). *)
From Coq Require Export List NArith ZArith Bool.
Export ListNotations.

Definition bytes := list N.
Definition wf_byte (x : N) : bool := (x <? 256)%N.
Definition wf_bytes (b : bytes) : bool := forallb wf_byte b.

Fixpoint bytes_eqb (a b : bytes) : bool :=
  match a, b with
  | [], [] => true
  | x :: a', y :: b' => (x =? y)%N && bytes_eqb a' b'
  | _, _ => false
  end.

(* split off exactly n elements; None when the input is too short (read_exact failing) *)
Fixpoint take_exact {A} (n : nat) (l : list A) : option (list A * list A) :=
  match n with
  | O => Some ([], l)
  | S n' => match l with
            | [] => None
            | x :: r => match take_exact n' r with
                        | Some (a, b) => Some (x :: a, b)
                        | None => None
                        end
            end
  end.

(* big-endian unsigned value of a byte string *)
Fixpoint be_acc (acc : N) (b : bytes) : N :=
  match b with [] => acc | x :: r => be_acc (acc * 256 + x)%N r end.
Definition be_value (b : bytes) : N := be_acc 0 b.
