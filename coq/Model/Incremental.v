(* src/serde/incremental.rs: the incremental back-reference serializer (Serializer::new / add /
   restore / size / get_ref / into_inner) as a state machine. Executable definitions only.

   Trees. A NodePtr handed to add() denotes a tree in which the sentinel NodePtr may occur any
   number of times: [stree] with [SHole] at every occurrence of the sentinel (Serializer::new(None):
   no [SHole] anywhere). NodePtr identity matters to TreeCache only, which is not modelled:

   TreeCache (src/serde/tree_cache.rs) is seen abstractly.
     - update(), the node_map/atom_lookup/pair_lookup tables, the parent lists, serialized_nodes,
       the salt and the breadth-first path search of find_path are NOT modelled. find_path is an
       ORACLE: a function of the whole serializer state and the node that may return a path. The
       oracle is a parameter of every [add]; it is the only way a salt or a hasher state can
       influence the model. Every path the implementation emits is validated against the model's
       stack by the correspondence run (the premise [orc_valid] of C19_decode).
     - what incremental.rs itself drives is modelled: the early exits of find_path for NIL and for
       nodes without a serialized length (the sentinel and its ancestors), and the parse stack
       maintained by push / pop2_and_cons, kept here as the trees the decoder holds at those
       positions ([tc_stk], top first). The checkpoint taken by undo_state() and put back by
       restore() is that stack (serialized_nodes and sentinel_entry are oracle internals).
   The output is a Cursor<Vec<u8>>: [cursor_write] is Cursor::write_all at the current position
   (overwriting, zero-filling a gap), restore() sets the position and truncates the Vec.

   Panic sites:  31 assert!(!self.read_op_stack.is_empty())   (add after completion)
                 32 assert!(op == Some(ReadOp::Parse))
                 33 TreeCache::pop: self.stack.pop().expect("empty stack")
                 34 into_inner: assert!(self.read_op_stack.is_empty())                         *)
From Clvm Require Export Model.Err Model.Sexp Model.Classic Model.Path Model.BackRef.
Open Scope N_scope.

(* ------------------------------------------------------------------ trees with sentinels *)
Inductive stree := SAtom (b : bytes) | SCons (l r : stree) | SHole.

Fixpoint has_hole (t : stree) : bool :=
  match t with SAtom _ => false | SCons l r => has_hole l || has_hole r | SHole => true end.

Fixpoint n_holes (t : stree) : nat :=
  match t with SAtom _ => O | SCons l r => (n_holes l + n_holes r)%nat | SHole => 1%nat end.

(* the tree a sentinel-free node denotes *)
Fixpoint to_sexp (t : stree) : sexp :=
  match t with SAtom b => Atom b | SCons l r => Cons (to_sexp l) (to_sexp r) | SHole => nil_s end.

Fixpoint of_sexp (t : sexp) : stree :=
  match t with Atom b => SAtom b | Cons l r => SCons (of_sexp l) (of_sexp r) end.

Fixpoint ssize (t : stree) : nat :=
  match t with SCons l r => S (ssize l + ssize r) | _ => 1%nat end.

Fixpoint wf_stree (t : stree) : bool :=
  match t with SAtom b => wf_bytes b | SCons l r => wf_stree l && wf_stree r | SHole => true end.

(* the tree assembled from additions: the holes are filled in the order the serializer reaches
   them (left to right); an addition's own holes are filled before the walk continues.
   Result: the tree and the additions not used. None: a hole stays open (or no fuel). *)
Fixpoint fill (fuel : nat) (t : stree) (adds : list stree) : option (sexp * list stree) :=
  match fuel with
  | O => None
  | S f =>
      match t with
      | SAtom b => Some (Atom b, adds)
      | SCons l r =>
          match fill f l adds with
          | None => None
          | Some (l', adds1) =>
              match fill f r adds1 with
              | None => None
              | Some (r', adds2) => Some (Cons l' r', adds2)
              end
          end
      | SHole => match adds with [] => None | n :: rest => fill f n rest end
      end
  end.

Definition assemble (adds : list stree) : option sexp :=
  match fill (S (S (fold_right (fun t a => (ssize t + a)%nat) O adds))) SHole adds with
  | Some (t, []) => Some t
  | _ => None
  end.

(* ------------------------------------------------------------------ Cursor<Vec<u8>> *)
Record cursor := { c_vec : bytes; c_pos : N }.

(* write_all(d): nothing for an empty slice; otherwise the Vec is zero-filled up to the position
   when that lies beyond its end, then d overwrites / extends from the position on *)
Definition cursor_write (c : cursor) (d : bytes) : cursor :=
  match d with
  | [] => c
  | _ =>
      let p := N.to_nat (c_pos c) in
      let v := c_vec c in
      let padded := v ++ repeat 0 (p - length v) in
      {| c_vec := firstn p padded ++ d ++ skipn (p + length d) padded; c_pos := c_pos c + blen d |}
  end.

(* write_atom.rs on the cursor: the prefix in one write_all, the contents in another *)
Definition write_atom_c (c : cursor) (b : bytes) : res cursor :=
  match atom_prefix (atom_0 b) (blen b) with
  | None => Err SerializationError
  | Some p => Ok (cursor_write (cursor_write c p) b)
  end.

(* ------------------------------------------------------------------ the serializer *)
Inductive iread_op := IParse | ICons (node : stree).

Record ser := {
  read_ops : list iread_op;      (* read_op_stack, top first *)
  write_stk : list stree;        (* write_stack, top first *)
  tc_stk : list sexp;            (* tree_cache.stack, top first, as the trees the decoder holds *)
  out : cursor }.

Record undo_state := {
  u_read_ops : list iread_op;
  u_write_stk : list stree;
  u_tc_stk : list sexp;          (* TreeCacheCheckpoint.stack *)
  u_pos : N }.                   (* output_position *)

Definition oracle := ser -> stree -> option bytes.

Definition ser_new : ser :=
  {| read_ops := [IParse]; write_stk := []; tc_stk := []; out := {| c_vec := []; c_pos := 0 |} |}.

Definition get_ref (s : ser) : bytes := c_vec (out s).
Definition size (s : ser) : N := c_pos (out s).

(* TreeCache::find_path: the two exits that do not depend on the search *)
Definition find_path (orc : oracle) (s : ser) (node : stree) : option bytes :=
  match node with
  | SAtom [] => None                                   (* node == NodePtr::NIL *)
  | _ => if has_hole node then None                    (* serialized_length == 0 *)
         else orc s node
  end.

(* while let Some(ReadOp::Cons(node)) = read_op_stack.last() { pop; tree_cache.pop2_and_cons(node) } *)
Fixpoint pop_conses (ops : list iread_op) (tc : list sexp) : res (list iread_op * list sexp) :=
  match ops with
  | ICons _ :: ops' =>
      match tc with
      | rgt :: lft :: rest => pop_conses ops' (Cons lft rgt :: rest)
      | _ => Err (Panic 33)
      end
  | _ => Ok (ops, tc)
  end.

Definition undo_of (s : ser) : undo_state :=
  {| u_read_ops := read_ops s; u_write_stk := write_stk s; u_tc_stk := tc_stk s; u_pos := c_pos (out s) |}.

Definition is_hole (t : stree) : bool := match t with SHole => true | _ => false end.

(* the body of the loop for one node that is not the sentinel; s: the state after the pops of
   write_stack and read_op_stack. The oracle sees that state. *)
Definition emit_node (orc : oracle) (s : ser) (node : stree) : res ser :=
  match find_path orc s node with
  | Some path =>
      do c <- write_atom_c (cursor_write (out s) [0xfe]) path;
      Ok {| read_ops := read_ops s; write_stk := write_stk s; tc_stk := to_sexp node :: tc_stk s; out := c |}
  | None =>
      match node with
      | SCons l r =>
          Ok {| read_ops := IParse :: IParse :: ICons node :: read_ops s;
                write_stk := l :: r :: write_stk s; tc_stk := tc_stk s;
                out := cursor_write (out s) [0xff] |}
      | SAtom b =>
          do c <- write_atom_c (out s) b;
          Ok {| read_ops := read_ops s; write_stk := write_stk s; tc_stk := Atom b :: tc_stk s; out := c |}
      | SHole => Err (Panic 0)                         (* not reachable: add_loop stops at the sentinel *)
      end
  end.

(* the while-let loop of add(); result: (done, state) *)
Fixpoint add_loop (fuel : nat) (orc : oracle) (s : ser) : res (bool * ser) :=
  match fuel with
  | O => Err OutOfFuel
  | S f =>
      match write_stk s with
      | [] => Ok (true, s)
      | node :: ws =>
          if is_hole node then                         (* Some(node_to_write) == sentinel_node *)
            Ok (false, {| read_ops := read_ops s; write_stk := ws; tc_stk := tc_stk s; out := out s |})
          else
            match read_ops s with
            | IParse :: ops1 =>
                do s3 <- emit_node orc {| read_ops := ops1; write_stk := ws; tc_stk := tc_stk s; out := out s |} node;
                do '(ops3, tc3) <- pop_conses (read_ops s3) (tc_stk s3);
                add_loop f orc {| read_ops := ops3; write_stk := write_stk s3; tc_stk := tc3; out := out s3 |}
            | _ => Err (Panic 32)
            end
      end
  end.

Definition add_fuel (ws : list stree) : nat := S (fold_right (fun t a => (ssize t + a)%nat) O ws).

(* Serializer::add -> (done, undo_state) and the new state *)
Definition add (orc : oracle) (s : ser) (node : stree) : res (bool * undo_state * ser) :=
  match read_ops s with
  | [] => Err (Panic 31)
  | _ =>
      let s0 := {| read_ops := read_ops s; write_stk := node :: write_stk s; tc_stk := tc_stk s; out := out s |} in
      do '(d, s') <- add_loop (add_fuel (write_stk s0)) orc s0;
      Ok (d, undo_of s, s')
  end.

(* Serializer::restore *)
Definition restore (u : undo_state) (s : ser) : ser :=
  {| read_ops := u_read_ops u; write_stk := u_write_stk u; tc_stk := u_tc_stk u;
     out := {| c_vec := firstn (N.to_nat (u_pos u)) (c_vec (out s)); c_pos := u_pos u |} |}.

Definition into_inner (s : ser) : res bytes :=
  match read_ops s with [] => Ok (c_vec (out s)) | _ => Err (Panic 34) end.

(* ------------------------------------------------------------------ histories (driver, examples) *)
Inductive hop := HAdd (node : stree) | HRestore (k : nat).   (* k: number of the add call undone *)

(* runs a history with one oracle; returns the final state and the bytes seen after every call *)
Fixpoint run_history (orc : oracle) (ops : list hop) (s : ser) (undos : list undo_state) (obs : list bytes)
  : res (ser * list bytes) :=
  match ops with
  | [] => Ok (s, rev obs)
  | HAdd n :: r =>
      do '(_, u, s') <- add orc s n;
      run_history orc r s' (undos ++ [u]) (get_ref s' :: obs)
  | HRestore k :: r =>
      match nth_error undos k with
      | None => Err Unsupported
      | Some u => let s' := restore u s in run_history orc r s' undos (get_ref s' :: obs)
      end
  end.
