(* allocator.rs: the validated-point caches (validated_g1_points / validated_g2_points) and every
   operation that touches them:
     validate_g1 / validate_g2      consulted only by the strict g1_negate / g2_negate (bls_ops.rs):
                                    a cached encoding is accepted without decoding; otherwise it is
                                    decoded (from_bytes) and, only when that SUCCEEDS, inserted;
     add_validated_g1/2             bls_ops.rs inserts the sign-flipped image of a validated
                                    non-infinity point (strict mode only);
     new_g1 / new_g2                every group operation inserts the encoding of its RESULT;
     clear_validation_caches        run_program clears both caches after a successful run (a failed
                                    run leaves them as they are: the cache survives into later runs
                                    in the same allocator).
   One cache is a list of encodings; [valid] is G1Element::from_bytes(b).is_ok() (Prims.p_g1_valid /
   p_g2_valid), [is_inf]/[flip] the infinity test and the sign flip of the negate operators. *)
From Coq Require Import List NArith Bool.
From Clvm Require Export Model.Err Model.Sexp.
Import ListNotations.
Open Scope N_scope.

Definition bytes_eq_dec : forall a b : bytes, {a = b} + {a <> b} := list_eq_dec N.eq_dec.
Definition cache := list bytes.
Definition cache_mem (c : cache) (b : bytes) : bool :=
  existsb (fun x => if bytes_eq_dec x b then true else false) c.

Section Cache.
  Variable valid : bytes -> bool.
  Variable is_inf : bytes -> bool.
  Variable flip : bytes -> bytes.

  (* Allocator::validate_g1 *)
  Definition c_validate (c : cache) (b : bytes) : bool * cache :=
    if cache_mem c b then (true, c)
    else if valid b then (true, b :: c) else (false, c).

  Inductive cache_op :=
  | CNegateStrict (b : bytes)   (* validate; on success and non-infinity: add_validated (flip b) *)
  | CNewPoint (b : bytes)       (* new_g1/new_g2 of a group-operation result *)
  | CClear.

  (* observable outcome of the operation (only the strict negate has one) and the next cache *)
  Definition c_step (c : cache) (o : cache_op) : option bool * cache :=
    match o with
    | CNegateStrict b =>
        let '(ok, c1) := c_validate c b in
        if ok then (Some true, if is_inf b then c1 else flip b :: c1) else (Some false, c1)
    | CNewPoint b => (None, b :: c)
    | CClear => (None, [])
    end.

  Fixpoint c_run (c : cache) (h : list cache_op) : list (option bool) * cache :=
    match h with
    | [] => ([], c)
    | o :: r => let '(x, c1) := c_step c o in let '(xs, c2) := c_run c1 r in (x :: xs, c2)
    end.

  (* the same operation in an allocator without any cache *)
  Definition nocache_outcome (o : cache_op) : option bool :=
    match o with CNegateStrict b => Some (valid b) | _ => None end.
End Cache.
