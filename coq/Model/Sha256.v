(* SHA-256 over byte lists (FIPS 180-4), executable. Used as the concrete hash when the model is run;
   the theorems about tree hashing are stated for an arbitrary hash function. *)
From Clvm Require Export Model.Bstr.
Open Scope N_scope.

Definition w32 (x : N) := x mod 4294967296.
Definition add32 (a b : N) := w32 (a + b).
Definition rotr (n x : N) := N.lor (N.shiftr x n) (w32 (N.shiftl x (32 - n))).
Definition shr (n x : N) := N.shiftr x n.
Definition not32 (x : N) := N.lxor x 4294967295.
Definition ch x y z := N.lxor (N.land x y) (N.land (not32 x) z).
Definition maj x y z := N.lxor (N.lxor (N.land x y) (N.land x z)) (N.land y z).
Definition bsig0 x := N.lxor (N.lxor (rotr 2 x) (rotr 13 x)) (rotr 22 x).
Definition bsig1 x := N.lxor (N.lxor (rotr 6 x) (rotr 11 x)) (rotr 25 x).
Definition ssig0 x := N.lxor (N.lxor (rotr 7 x) (rotr 18 x)) (shr 3 x).
Definition ssig1 x := N.lxor (N.lxor (rotr 17 x) (rotr 19 x)) (shr 10 x).
Definition K : list N := [
0x428a2f98;0x71374491;0xb5c0fbcf;0xe9b5dba5;0x3956c25b;0x59f111f1;0x923f82a4;0xab1c5ed5;
0xd807aa98;0x12835b01;0x243185be;0x550c7dc3;0x72be5d74;0x80deb1fe;0x9bdc06a7;0xc19bf174;
0xe49b69c1;0xefbe4786;0x0fc19dc6;0x240ca1cc;0x2de92c6f;0x4a7484aa;0x5cb0a9dc;0x76f988da;
0x983e5152;0xa831c66d;0xb00327c8;0xbf597fc7;0xc6e00bf3;0xd5a79147;0x06ca6351;0x14292967;
0x27b70a85;0x2e1b2138;0x4d2c6dfc;0x53380d13;0x650a7354;0x766a0abb;0x81c2c92e;0x92722c85;
0xa2bfe8a1;0xa81a664b;0xc24b8b70;0xc76c51a3;0xd192e819;0xd6990624;0xf40e3585;0x106aa070;
0x19a4c116;0x1e376c08;0x2748774c;0x34b0bcb5;0x391c0cb3;0x4ed8aa4a;0x5b9cca4f;0x682e6ff3;
0x748f82ee;0x78a5636f;0x84c87814;0x8cc70208;0x90befffa;0xa4506ceb;0xbef9a3f7;0xc67178f2].
Definition H0 : list N := [0x6a09e667;0xbb67ae85;0x3c6ef372;0xa54ff53a;0x510e527f;0x9b05688c;0x1f83d9ab;0x5be0cd19].

Fixpoint words (bs : list N) : list N :=
  match bs with a::b::c::d::r => (a*16777216 + b*65536 + c*256 + d) :: words r | _ => [] end.
(* message schedule: keep a sliding window of the last 16 words, newest first *)
Fixpoint sched (n : nat) (win : list N) (acc : list N) : list N :=
  match n with O => rev acc | S k =>
    let w := add32 (add32 (ssig1 (nth 1 win 0)) (nth 6 win 0)) (add32 (ssig0 (nth 14 win 0)) (nth 15 win 0)) in
    sched k (w :: firstn 15 win) (w :: acc) end.
Definition round (st : list N) (kw : N * N) : list N :=
  match st with [a;b;c;d;e;f;g;h] =>
    let t1 := add32 (add32 (add32 h (bsig1 e)) (add32 (ch e f g) (fst kw))) (snd kw) in
    let t2 := add32 (bsig0 a) (maj a b c) in
    [add32 t1 t2; a; b; c; add32 d t1; e; f; g] | _ => st end.
Definition compress (st : list N) (blk : list N) : list N :=
  let w16 := words blk in
  let w := w16 ++ sched 48 (rev w16) [] in
  let st' := fold_left round (combine K w) st in
  map (fun p => add32 (fst p) (snd p)) (combine st st').
Fixpoint be (n : nat) (v : N) : list N := match n with O => [] | S k => be k (v / 256) ++ [v mod 256] end.
Definition pad (m : list N) : list N :=
  let l := N.of_nat (length m) in
  let k := (119 - l mod 64) mod 64 in
  m ++ [128] ++ repeat 0 (N.to_nat k) ++ be 8 (l * 8).
Fixpoint blocks (fuel : nat) (bs : list N) (st : list N) : list N :=
  match fuel with O => st | S k => match bs with [] => st | _ => blocks k (skipn 64 bs) (compress st (firstn 64 bs)) end end.
Definition sha256 (m : list N) : list N :=
  let p := pad m in concat (map (be 4) (blocks (S (length p / 64)) p H0)).
