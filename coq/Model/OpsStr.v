(* more_ops.rs on the tree store: the byte-string operators op_gr_bytes op_strlen op_substr
   op_concat, and the two hashing operators op_sha256 and op_sha256_tree (sha_tree_op.rs +
   treehash.rs tree_hash_costed), which take the hash function as a parameter
   [H : bytes -> bytes]. Conventions: header of OpsArith.v. *)
From Clvm Require Export Model.OpsArith.
Open Scope N_scope.

(* `v0 > v1` on byte slices: lexicographic, a proper prefix is smaller *)
Fixpoint bytes_gtb (a b : bytes) : bool :=
  match a, b with
  | [], _ => false
  | _ :: _, [] => true
  | x :: a', y :: b' => if y <? x then true else if x <? y then false else bytes_gtb a' b'
  end.

(* op_gr_bytes (more_ops.rs:1277) *)
Definition op_gr_bytes : opfn := fun _ args _ =>
  do '(n0, n1) <- get_args2 args;
  do v0 <- atom_of n0;
  do v1 <- atom_of n1;
  let cost := GRS_BASE_COST + (blen v0 + blen v1) * GRS_COST_PER_BYTE in
  Ok (cost, if bytes_gtb v0 v1 then one_s else nil_s).

(* op_strlen (:1292) *)
Definition op_strlen : opfn := fun _ args _ =>
  do n <- get_args1 args;
  do b <- atom_of n;
  let size := blen b in
  let cost := STRLEN_BASE_COST + size * STRLEN_COST_PER_BYTE in
  Ok (malloc_cost cost (bytes_of_int (Z.of_N size))).

(* `size as i32`: truncation of a usize to 32 bits, read as signed *)
Definition as_i32 (n : N) : Z :=
  let w := n mod 4294967296 in
  if w <? 2147483648 then Z.of_N w else (Z.of_N w - 4294967296)%Z.

(* op_substr (:1305): get_varargs::<3>; 2 or 3 arguments; atom_len(a0); i32_atom(start);
   end = i32_atom(end) or `size as i32`; the index test; new_substr. No check_cost. *)
Definition op_substr : opfn := fun f args _ =>
  let new_cost_model := f_new_cost_model f in
  do l <- get_varargs 3 args;
  match l with
  | a0 :: start :: tl =>
      do b <- atom_of a0;
      let size := blen b in
      do start <- i32_atom start;
      do end_ <- match tl with
                 | e :: _ => i32_atom e
                 | [] => Ok (as_i32 size)
                 end;
      if (end_ <? 0)%Z || (start <? 0)%Z || (size <? Z.to_N end_) || (end_ <? start)%Z then bad_arg
      else
        let s := Z.to_nat start in
        let r := firstn (Z.to_nat end_ - s) (skipn s b) in
        let cost := if new_cost_model then NEW_SUBSTR_COST else 1 in
        Ok (cost, Atom r)
  | _ => bad_arg
  end.

(* op_concat (:1334): per argument: pair -> error; cost += 135; cost += len * (3 + 10);
   check_cost; nil arguments are skipped (does not change the concatenation). No final check. *)
Fixpoint concat_loop (args : sexp) (cost : N) (terms : list bytes) (max_cost : N) : res (N * list bytes) :=
  match args with
  | Atom _ => Ok (cost, terms)
  | Cons arg rest =>
      match arg with
      | Cons _ _ => bad_arg
      | Atom b =>
          let len := blen b in
          let cost := cost + CONCAT_COST_PER_ARG in
          let cost := cost + len * (CONCAT_COST_PER_BYTE + MALLOC_COST_PER_BYTE) in
          do _ <- check_cost cost max_cost;
          concat_loop rest cost (b :: terms) max_cost
      end
  end.

(* terms are collected in reverse *)
Definition concat_rev (terms : list bytes) : bytes :=
  fold_left (fun acc t => t ++ acc) terms [].

Definition op_concat : opfn := fun _ args max_cost =>
  do '(cost, terms) <- concat_loop args CONCAT_BASE_COST [] max_cost;
  Ok (cost, Atom (concat_rev terms)).

(* op_sha256 (:639). The early return for `input == NodePtr::NIL` and the precomputed-table fast
   path give what the generic loop gives (no argument: the hash of the empty string, cost =
   base). Per argument: cost += per_arg; pair -> error; cost += len * per_byte; check_cost;
   hasher.update. *)
Definition op_sha256 (H : bytes -> bytes) : opfn := fun f args max_cost =>
  let '(base_cost, cost_per_arg, cost_per_byte) :=
    if f_new_cost_model f then (NEW_SHA256_BASE_COST, NEW_SHA256_COST_PER_ARG, NEW_SHA256_COST_PER_BYTE)
    else (SHA256_BASE_COST, SHA256_COST_PER_ARG, SHA256_COST_PER_BYTE) in
  let fix loop (args : sexp) (cost : N) (terms : list bytes) : res (N * list bytes) :=
    match args with
    | Atom _ => Ok (cost, terms)
    | Cons arg rest =>
        let cost := cost + cost_per_arg in
        match arg with
        | Cons _ _ => bad_arg
        | Atom b =>
            let cost := cost + blen b * cost_per_byte in
            do _ <- check_cost cost max_cost;
            loop rest cost (b :: terms)
        end
    end in
  do '(cost, terms) <- loop args base_cost [];
  atom_and_cost cost (H (concat_rev terms)).

(* treehash.rs *)
Definition SHA256TREE_BASE_COST : N := 270.
Definition SHA256TREE_PAIR_COST : N := 460.
Definition SHA256TREE_COST_PER_BYTE : N := 2.
Definition NEW_SHA256TREE_COST_PER_BYTE : N := 6.

(* tree_hash_costed (treehash.rs:48). The Rust walks with an explicit stack: a pair costs 460,
   check_cost, then the RIGHT sub-tree is visited before the LEFT one (ops.push(left) then
   ops.push(right), popped in reverse); an atom costs (len + 1) * per_byte, check_cost. The
   structural recursion below charges and checks in exactly that order. `hashes.pop().unwrap()`
   and `assert!(hashes.len() == 1)` cannot fail: the structural recursion is the proof (every
   visited sub-tree leaves exactly one hash). The walk does not look for shared sub-trees. *)
Fixpoint tree_hash_walk (H : bytes -> bytes) (cost_per_byte : N) (t : sexp) (cost max_cost : N)
    : res (N * bytes) :=
  match t with
  | Atom b =>
      let cost := cost + (blen b + 1) * cost_per_byte in
      do _ <- check_cost cost max_cost;
      Ok (cost, H (1 :: b))
  | Cons l r =>
      let cost := cost + SHA256TREE_PAIR_COST in
      do _ <- check_cost cost max_cost;
      do '(cost, hr) <- tree_hash_walk H cost_per_byte r cost max_cost;
      do '(cost, hl) <- tree_hash_walk H cost_per_byte l cost max_cost;
      Ok (cost, H (2 :: hl ++ hr))
  end.

Definition tree_hash_costed (H : bytes -> bytes) (f : flagset) (node : sexp) (cost_remaining : N)
    : res (N * sexp) :=
  let cost_per_byte :=
    if f_new_cost_model f then NEW_SHA256TREE_COST_PER_BYTE else SHA256TREE_COST_PER_BYTE in
  do '(cost, h) <- tree_hash_walk H cost_per_byte node SHA256TREE_BASE_COST cost_remaining;
  let cost := cost + MALLOC_COST_PER_BYTE * 32 in
  do _ <- check_cost cost cost_remaining;
  Ok (cost, Atom h).

(* op_sha256_tree (sha_tree_op.rs:8) *)
Definition op_sha256_tree (H : bytes -> bytes) : opfn := fun f args max_cost =>
  do n <- get_args1 args;
  tree_hash_costed H f n max_cost.
