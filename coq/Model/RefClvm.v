(* The REFERENCE for property C01: CLVM as the historical language definition describes it (the
   Python `clvm` package: run_program.py, core_ops.py, more_ops.py, operators.py, costs.py),
   written from that definition and NOT from the Rust. The package itself cannot be installed
   offline (DESIGN.md section 3/4: a stated gap of the trusted base); the reference is validated
   against the repository's operator vectors (op-tests/*.txt, classic cost model) by the check.

   Style (deliberately different from Model/Machine.v + Model/Ops*.v):
   * a recursive big-step evaluator [ref_eval] (no stacks, no operation codes), arguments are
     evaluated into a Coq list;
   * every operator is a CLOSED FORM over the list of its arguments ([ref_op]): the cost is
     base + per_arg * n + per_byte * (total length) (+ 10 per byte of the result), the value is a
     sum / product / fold over Z; no accumulator loop, no budget inside the operators;
   * its own path lookup (structural recursion over the bits of the path as a [positive]);
   * its own unknown-operator rule;
   * the cost table is a list of LITERALS below ([rc_*]); Props/C01.v pins each of them to the
     constant the translator re-reads from the Rust source on every run.
   Shared with the model: only the vocabulary of values (Sexp.v, Bstr.v, Err.v) and the reading
   of atoms as integers (IntEnc.v: int_of_bytes / bytes_of_int / uint_of_bytes).

   Every deliberate deviation of today's consensus rules from the historical package is a field
   of [ref_adapters]; [historical_adapters] is the package as published, [current_adapters] is
   what C01 compares the implementation with. *)
From Clvm Require Export Model.Err Model.Sexp Model.IntEnc.
Open Scope N_scope.

(* ---------------------------------------------------------------------------------------- *)
(* adapters *)

(* `/` on a negative operand: the package rounds towards minus infinity except that a quotient
   of -1 with a non-zero remainder is reported as 0 ("to preserve a buggy behavior from the
   initial implementation"); clvm_rs first rejected negative operands (soft fork), then adopted
   plain floor division (hard fork, "fixed div"). *)
Inductive div_mode := DivLegacyMinusOne | DivRejectNegative | DivFloor.

Record ref_adapters := {
  (* floor division of negative operands ( `/` only; divmod always had floor semantics) *)
  ad_div : div_mode;
  (* softfork (opcode 36) as a cost guard: with exactly four arguments and a known extension
     (0, 1) the program argument is evaluated in the environment argument, its cost + 140 must
     equal the declared cost, the result is nil; the declared cost must fit 64 bits.
     false = the package: an operator that costs its first argument (any positive integer) and
     returns nil *)
  ad_softfork_guard : bool;
  (* an operand list `(op a b . t)` whose terminator t is not nil is an error
     (run_program.rs "ensure a correct nil terminator"); the package fails there too ("first of
     non-cons"); false = earlier clvm_rs releases, which stopped at any atom *)
  ad_nil_terminator : bool;
  (* operators applied to a LITERAL operand list through `((X) . operands)` ignore a non-nil
     terminator of that list (op_utils.rs: every argument reader stops at the first atom);
     false = the package: the list readers of more_ops.py (as_iter) fail on it, the counting
     readers of core_ops.py (list_len) do not *)
  ad_literal_operands_any_terminator : bool;
  (* in `((X . t) . operands)` t may be any atom (run_program.rs get_args::<1>);
     false = the package: t must be nil ("in ((X)...) syntax X must be lone atom") *)
  ad_head_any_terminator : bool;
  (* unknown operators: the product base * (multiplier + 1) must stay below 2^32 and the opcode
     may have at most 5 bytes (the same in the package; false = no cap, for documentation) *)
  ad_unknown_u32_cap : bool
}.

Definition historical_adapters : ref_adapters := {|
  ad_div := DivLegacyMinusOne; ad_softfork_guard := false; ad_nil_terminator := true;
  ad_literal_operands_any_terminator := false; ad_head_any_terminator := false;
  ad_unknown_u32_cap := true |}.

Definition current_adapters : ref_adapters := {|
  ad_div := DivFloor; ad_softfork_guard := true; ad_nil_terminator := true;
  ad_literal_operands_any_terminator := true; ad_head_any_terminator := true;
  ad_unknown_u32_cap := true |}.

(* A seventh deviation cannot be a switch of an executable definition: the implementation's
   resource caps (STACK_SIZE_LIMIT, the allocator's atom / pair / heap limits, atoms shorter
   than 2^31 bytes). The reference has none; C01 is about runs that hit none of them
   (DESIGN.md section 3, "adapter_stack_and_allocator_limits"). *)

(* ---------------------------------------------------------------------------------------- *)
(* the historical cost table (clvm/costs.py), as literals *)
Definition rc_if : N := 33.
Definition rc_cons : N := 50.
Definition rc_first : N := 30.
Definition rc_rest : N := 30.
Definition rc_listp : N := 19.
Definition rc_malloc_per_byte : N := 10.
Definition rc_arith_base : N := 99.
Definition rc_arith_per_byte : N := 3.
Definition rc_arith_per_arg : N := 320.
Definition rc_log_base : N := 100.
Definition rc_log_per_byte : N := 3.
Definition rc_log_per_arg : N := 264.
Definition rc_grs_base : N := 117.
Definition rc_grs_per_byte : N := 1.
Definition rc_eq_base : N := 117.
Definition rc_eq_per_byte : N := 1.
Definition rc_gr_base : N := 498.
Definition rc_gr_per_byte : N := 2.
Definition rc_divmod_base : N := 1116.
Definition rc_divmod_per_byte : N := 6.
Definition rc_div_base : N := 988.
Definition rc_div_per_byte : N := 4.
Definition rc_sha256_base : N := 87.
Definition rc_sha256_per_arg : N := 134.
Definition rc_sha256_per_byte : N := 2.
Definition rc_mul_base : N := 92.
Definition rc_mul_per_op : N := 885.
Definition rc_mul_linear_per_byte : N := 6.
Definition rc_mul_square_divider : N := 128.
Definition rc_strlen_base : N := 173.
Definition rc_strlen_per_byte : N := 1.
Definition rc_path_base : N := 40.
Definition rc_path_per_leg : N := 4.
Definition rc_path_per_zero_byte : N := 4.
Definition rc_concat_base : N := 142.
Definition rc_concat_per_arg : N := 135.
Definition rc_concat_per_byte : N := 3.
Definition rc_bool_base : N := 200.
Definition rc_bool_per_arg : N := 300.
Definition rc_ashift_base : N := 596.
Definition rc_ashift_per_byte : N := 3.
Definition rc_lshift_base : N := 277.
Definition rc_lshift_per_byte : N := 3.
Definition rc_lognot_base : N := 331.
Definition rc_lognot_per_byte : N := 3.
Definition rc_apply : N := 90.
Definition rc_quote : N := 20.
Definition rc_op : N := 1.          (* "return 1" of eval_op: every operator evaluation *)
Definition rc_substr : N := 1.
Definition rc_guard : N := 140.     (* not historical: the cost of entering a softfork guard *)

(* ---------------------------------------------------------------------------------------- *)
(* small vocabulary *)

Definition fail {A} : res A := Err (InvalidOpArg 0).

(* the elements of a list-shaped tree and the atom it ends in *)
Fixpoint items (t : sexp) : list sexp :=
  match t with Cons a r => a :: items r | Atom _ => [] end.
Fixpoint ending (t : sexp) : bytes :=
  match t with Cons _ r => ending r | Atom b => b end.
Fixpoint list_tree (l : list sexp) : sexp :=
  match l with [] => nil_s | a :: r => Cons a (list_tree r) end.

Definition is_nil (t : sexp) : bool := match t with Atom [] => true | _ => false end.
Definition truth (b : bool) : sexp := if b then one_s else nil_s.

(* all arguments are atoms: their byte strings *)
Fixpoint atoms (l : list sexp) : option (list bytes) :=
  match l with
  | [] => Some []
  | Atom b :: r => match atoms r with Some bs => Some (b :: bs) | None => None end
  | Cons _ _ :: _ => None
  end.

Definition count {A} (l : list A) : N := N.of_nat (length l).
Definition total_len (bs : list bytes) : N := fold_right (fun b s => blen b + s) 0 bs.
Definition zsum (zs : list Z) : Z := fold_right Z.add 0%Z zs.
Definition ints (bs : list bytes) : list Z := map int_of_bytes bs.

(* limbs_for_int: (bit_length + 7) >> 3 *)
Definition ref_limbs (z : Z) : N := N.shiftr (N.size (Z.abs_N z) + 7) 3.

(* malloc_cost: 10 per byte of the encoded result *)
Definition int_result (cost : N) (z : Z) : res (N * sexp) :=
  let b := bytes_of_int z in Ok (cost + rc_malloc_per_byte * blen b, Atom b).
Definition bytes_result (cost : N) (b : bytes) : res (N * sexp) :=
  Ok (cost + rc_malloc_per_byte * blen b, Atom b).

(* lexicographic order on byte strings (Python's bytes comparison) *)
Fixpoint lex_cmp (a b : bytes) : comparison :=
  match a, b with
  | [], [] => Eq
  | [], _ :: _ => Lt
  | _ :: _, [] => Gt
  | x :: a', y :: b' => match N.compare x y with Eq => lex_cmp a' b' | c => c end
  end.

(* an atom read as an unsigned integer of at most [size] bytes: not negative (first byte below
   0x80), leading zero bytes do not count *)
Fixpoint drop_zeros (b : bytes) : bytes :=
  match b with 0 :: r => drop_zeros r | _ => b end.

Definition small_uint (size : nat) (t : sexp) : option N :=
  match t with
  | Cons _ _ => None
  | Atom [] => Some 0
  | Atom ((x :: _) as b) =>
      if 128 <=? x then None
      else
        let m := drop_zeros b in
        if (length m <=? size)%nat then Some (uint_of_bytes m) else None
  end.

(* ---------------------------------------------------------------------------------------- *)
(* path lookup: the path is a number; its bits below the most significant one are read from the
   least significant end, 0 = first, 1 = rest *)
Fixpoint walk (p : positive) (t : sexp) : option sexp :=
  match p with
  | xH => Some t
  | xO q => match t with Cons l _ => walk q l | Atom _ => None end
  | xI q => match t with Cons _ r => walk q r | Atom _ => None end
  end.

Fixpoint zero_prefix (b : bytes) : N :=
  match b with 0 :: r => 1 + zero_prefix r | _ => 0 end.

Definition ref_path (path : bytes) (env : sexp) : res (N * sexp) :=
  let c0 := rc_path_base + rc_path_per_leg + rc_path_per_zero_byte * zero_prefix path in
  match uint_of_bytes path with
  | N0 => Ok (c0, nil_s)
  | Npos p =>
      match walk p env with
      | Some v => Ok (c0 + rc_path_per_leg * N.log2 (Npos p), v)
      | None => Err PathIntoAtom
      end
  end.

(* ---------------------------------------------------------------------------------------- *)
(* operators as closed forms *)
Section Ops.
  Variable H : bytes -> bytes.          (* SHA-256 *)
  Variable ad : ref_adapters.
  (* the domain of the comparison: [dom opcode arguments = false] marks an operator application
     outside it, on which the reference has no opinion ([Unsupported], like an operator outside
     the classic set). The executable reference runs with the full domain (fun _ _ => true);
     the theorems of C01 hold for every domain that excludes atoms the allocator cannot hold
     (2^31 bytes and more) and the wrap class of finding F6 (Proofs/RefClvmEval.v: dom_sound). *)
  Variable dom : bytes -> list sexp -> bool.

  (* + : the sum; - : the first minus the others (no argument: 0) *)
  Definition ref_add (args : list sexp) : res (N * sexp) :=
    match atoms args with
    | None => fail
    | Some bs =>
        int_result (rc_arith_base + rc_arith_per_arg * count bs + rc_arith_per_byte * total_len bs)
                   (zsum (ints bs))
    end.

  Definition ref_sub (args : list sexp) : res (N * sexp) :=
    match atoms args with
    | None => fail
    | Some bs =>
        int_result (rc_arith_base + rc_arith_per_arg * count bs + rc_arith_per_byte * total_len bs)
                   (match ints bs with [] => 0 | z :: r => z - zsum r end)%Z
    end.

  (* * : the product; the cost of each multiplication depends on the size of the product so
     far (its limbs), so the cost is a fold along the arguments *)
  Definition mul_step (st : N * Z * N) (b : bytes) : N * Z * N :=
    let '(cost, v, vs) := st in
    let rs := blen b in
    let v' := (v * int_of_bytes b)%Z in
    (cost + rc_mul_per_op + (rs + vs) * rc_mul_linear_per_byte + (rs * vs) / rc_mul_square_divider,
     v', ref_limbs v').

  Definition ref_mul (args : list sexp) : res (N * sexp) :=
    match atoms args with
    | None => fail
    | Some [] => int_result rc_mul_base 1%Z
    | Some (b :: r) =>
        let '(cost, v, _) := fold_left mul_step r (rc_mul_base, int_of_bytes b, blen b) in
        int_result cost v
    end.

  Definition ref_div (args : list sexp) : res (N * sexp) :=
    match args with
    | [Atom a; Atom b] =>
        let n := int_of_bytes a in
        let d := int_of_bytes b in
        if (d =? 0)%Z then Err DivisionByZero
        else
          let cost := rc_div_base + rc_div_per_byte * (blen a + blen b) in
          match ad_div ad with
          | DivFloor => int_result cost (n / d)%Z
          | DivRejectNegative =>
              if ((n <? 0) || (d <? 0))%Z then fail else int_result cost (n / d)%Z
          | DivLegacyMinusOne =>
              let q := (n / d)%Z in
              int_result cost (if ((q =? -1) && negb (n mod d =? 0))%Z then 0%Z else q)
          end
    | _ => fail
    end.

  Definition ref_divmod (args : list sexp) : res (N * sexp) :=
    match args with
    | [Atom a; Atom b] =>
        let n := int_of_bytes a in
        let d := int_of_bytes b in
        if (d =? 0)%Z then Err DivisionByZero
        else
          let q := bytes_of_int (n / d)%Z in
          let r := bytes_of_int (n mod d)%Z in
          Ok (rc_divmod_base + rc_divmod_per_byte * (blen a + blen b)
              + rc_malloc_per_byte * (blen q + blen r), Cons (Atom q) (Atom r))
    | _ => fail
    end.

  Definition ref_gr (args : list sexp) : res (N * sexp) :=
    match args with
    | [Atom a; Atom b] =>
        Ok (rc_gr_base + rc_gr_per_byte * (blen a + blen b),
            truth (int_of_bytes b <? int_of_bytes a)%Z)
    | _ => fail
    end.

  Definition ref_gr_bytes (args : list sexp) : res (N * sexp) :=
    match args with
    | [Atom a; Atom b] =>
        Ok (rc_grs_base + rc_grs_per_byte * (blen a + blen b),
            truth (match lex_cmp a b with Gt => true | _ => false end))
    | _ => fail
    end.

  Definition ref_eq (args : list sexp) : res (N * sexp) :=
    match args with
    | [Atom a; Atom b] =>
        Ok (rc_eq_base + rc_eq_per_byte * (blen a + blen b),
            truth (match lex_cmp a b with Eq => true | _ => false end))
    | _ => fail
    end.

  Definition ref_sha256 (args : list sexp) : res (N * sexp) :=
    match atoms args with
    | None => fail
    | Some bs =>
        bytes_result (rc_sha256_base + rc_sha256_per_arg * count bs + rc_sha256_per_byte * total_len bs)
                     (H (concat bs))
    end.

  Definition ref_concat (args : list sexp) : res (N * sexp) :=
    match atoms args with
    | None => fail
    | Some bs =>
        bytes_result (rc_concat_base + rc_concat_per_arg * count bs + rc_concat_per_byte * total_len bs)
                     (concat bs)
    end.

  Definition ref_strlen (args : list sexp) : res (N * sexp) :=
    match args with
    | [Atom a] => int_result (rc_strlen_base + rc_strlen_per_byte * blen a) (Z.of_N (blen a))
    | _ => fail
    end.

  (* an index argument: an atom of at most four bytes, read as a signed number *)
  Definition index_arg (t : sexp) : option Z :=
    match t with
    | Atom b => if (length b <=? 4)%nat then Some (int_of_bytes b) else None
    | Cons _ _ => None
    end.

  (* s[i1:i2] with 0 <= i1 <= i2 <= len s *)
  Definition slice (s : bytes) (i1 i2 : Z) : res (N * sexp) :=
    if ((0 <=? i1) && (i1 <=? i2) && (i2 <=? Z.of_N (blen s)))%Z
    then Ok (rc_substr, Atom (skipn (Z.to_nat i1) (firstn (Z.to_nat i2) s)))
    else fail.

  Definition ref_substr (args : list sexp) : res (N * sexp) :=
    match args with
    | [Atom s; a1] =>
        match index_arg a1 with Some i1 => slice s i1 (Z.of_N (blen s)) | None => fail end
    | [Atom s; a1; a2] =>
        match index_arg a1, index_arg a2 with
        | Some i1, Some i2 => slice s i1 i2
        | _, _ => fail
        end
    | _ => fail
    end.

  (* shifts: a positive count shifts left, a negative one right (rounding towards minus
     infinity); Z.shiftl does both. |count| <= 65535, count given in at most four bytes *)
  Definition shift_arg (t : sexp) : res Z :=
    match index_arg t with
    | None => fail
    | Some s => if (65535 <? Z.abs s)%Z then Err ShiftTooLarge else Ok s
    end.

  Definition ref_ash (args : list sexp) : res (N * sexp) :=
    match args with
    | [Atom a; cnt] =>
        do s <- shift_arg cnt;
        let r := Z.shiftl (int_of_bytes a) s in
        int_result (rc_ashift_base + rc_ashift_per_byte * (blen a + ref_limbs r)) r
    | _ => fail
    end.

  Definition ref_lsh (args : list sexp) : res (N * sexp) :=
    match args with
    | [Atom a; cnt] =>
        do s <- shift_arg cnt;
        let r := Z.shiftl (Z.of_N (uint_of_bytes a)) s in
        int_result (rc_lshift_base + rc_lshift_per_byte * (blen a + ref_limbs r)) r
    | _ => fail
    end.

  (* logand / logior / logxor: the fold of the binary operation from its neutral element *)
  Definition ref_logop (f : Z -> Z -> Z) (neutral : Z) (args : list sexp) : res (N * sexp) :=
    match atoms args with
    | None => fail
    | Some bs =>
        int_result (rc_log_base + rc_log_per_arg * count bs + rc_log_per_byte * total_len bs)
                   (fold_left f (ints bs) neutral)
    end.

  Definition ref_lognot (args : list sexp) : res (N * sexp) :=
    match args with
    | [Atom a] => int_result (rc_lognot_base + rc_lognot_per_byte * blen a) (- int_of_bytes a - 1)%Z
    | _ => fail
    end.

  Definition ref_not (args : list sexp) : res (N * sexp) :=
    match args with
    | [a] => Ok (rc_bool_base, truth (is_nil a))
    | _ => fail
    end.

  Definition ref_any (args : list sexp) : res (N * sexp) :=
    Ok (rc_bool_base + rc_bool_per_arg * count args, truth (existsb (fun a => negb (is_nil a)) args)).

  Definition ref_all (args : list sexp) : res (N * sexp) :=
    Ok (rc_bool_base + rc_bool_per_arg * count args, truth (forallb (fun a => negb (is_nil a)) args)).

  Definition ref_if (args : list sexp) : res (N * sexp) :=
    match args with
    | [c; a; b] => Ok (rc_if, if is_nil c then b else a)
    | _ => fail
    end.

  Definition ref_cons (args : list sexp) : res (N * sexp) :=
    match args with [a; b] => Ok (rc_cons, Cons a b) | _ => fail end.
  Definition ref_first (args : list sexp) : res (N * sexp) :=
    match args with [Cons a _] => Ok (rc_first, a) | _ => fail end.
  Definition ref_rest (args : list sexp) : res (N * sexp) :=
    match args with [Cons _ b] => Ok (rc_rest, b) | _ => fail end.
  Definition ref_listp (args : list sexp) : res (N * sexp) :=
    match args with
    | [a] => Ok (rc_listp, truth (match a with Cons _ _ => true | Atom _ => false end))
    | _ => fail
    end.

  (* unknown operators (operators.py default_unknown_op). The last byte's two top bits select
     the cost function, the bytes before it are the multiplier - 1:
       0: 1
       1: like +      99 + 320 n + 3 * (total length)
       2: like *      92 + for every argument after the first 885 + 6 * (len + size) +
                      len * size / 128, where size is the total length of the arguments before
       3: like concat 142 + 135 n + 3 * (total length)
     empty opcodes and opcodes starting with ffff are reserved; value nil *)
  Fixpoint unknown_mul_cost (size : N) (lens : list N) : N :=
    match lens with
    | [] => 0
    | l :: r => rc_mul_per_op + (l + size) * rc_mul_linear_per_byte + (l * size) / rc_mul_square_divider
                + unknown_mul_cost (size + l) r
    end.

  Definition unknown_base_cost (fn : N) (args : list sexp) : option N :=
    if fn =? 0 then Some 1
    else
      match atoms args with
      | None => None
      | Some bs =>
          if fn =? 1 then
            Some (rc_arith_base + rc_arith_per_arg * count bs + rc_arith_per_byte * total_len bs)
          else if fn =? 2 then
            Some (rc_mul_base + match map blen bs with [] => 0 | l0 :: r => unknown_mul_cost l0 r end)
          else
            Some (rc_concat_base + rc_concat_per_arg * count bs + rc_concat_per_byte * total_len bs)
      end.

  Definition reserved_prefix (opc : bytes) : bool :=
    match opc with x :: y :: _ => (x =? 255) && (y =? 255) | _ => false end.

  Definition ref_unknown (opc : bytes) (args : list sexp) : res (N * sexp) :=
    match rev opc with
    | [] => Err Reserved
    | lastb :: rprefix =>
        let prefix := rev rprefix in
        if reserved_prefix opc then Err Reserved
        else if ad_unknown_u32_cap ad && (4 <? length prefix)%nat then Err Invalid
        else
          match unknown_base_cost ((lastb / 64) mod 4) args with
          | None => fail
          | Some base =>
              let cost := base * (uint_of_bytes prefix + 1) in
              if ad_unknown_u32_cap ad && (4294967296 <=? cost) then Err Invalid
              else Ok (cost, nil_s)
          end
    end.

  (* does a literal operand list with a non-nil terminator make this operator fail?
     (historical package only: the readers built on as_iter) *)
  Definition strict_reader (op : N) : bool :=
    negb ((op =? 3) || (op =? 4) || (op =? 5) || (op =? 6) || (op =? 7) || (op =? 8) || (op =? 9)
          || (op =? 13)).

  (* operators outside the classic set that today's dialect knows: the reference has no opinion
     ([Unsupported]); C01 is about runs that never apply one. [kec] = inside a softfork guard of
     extension 1, where opcode 62 is keccak256 (outside, with default flags, 62..65 are unknown
     operators as they always were) *)
  Definition non_classic (kec : bool) (opc : bytes) : bool :=
    bytes_eqb opc [19; 214; 31; 0]          (* secp256k1_verify 0x13d61f00 *)
    || bytes_eqb opc [28; 58; 143; 0]       (* secp256r1_verify 0x1c3a8f00 *)
    || match opc with
       | [b] => (b =? 29) || (b =? 30) || ((48 <=? b) && (b <=? 61)) || (kec && (b =? 62))
       | _ => false
       end.

  (* every operator except quote, apply and softfork (the evaluator's own): the classic
     one-byte opcodes and their closed forms; everything else is an unknown operator *)
  Definition ref_raise (_ : list sexp) : res (N * sexp) := Err Raise.

  Definition ref_table : list (N * (list sexp -> res (N * sexp))) :=
    [ (3, ref_if); (4, ref_cons); (5, ref_first); (6, ref_rest); (7, ref_listp); (8, ref_raise);
      (9, ref_eq); (10, ref_gr_bytes); (11, ref_sha256); (12, ref_substr); (13, ref_strlen);
      (14, ref_concat); (16, ref_add); (17, ref_sub); (18, ref_mul); (19, ref_div);
      (20, ref_divmod); (21, ref_gr); (22, ref_ash); (23, ref_lsh);
      (24, ref_logop Z.land (-1)%Z); (25, ref_logop Z.lor 0%Z); (26, ref_logop Z.lxor 0%Z);
      (27, ref_lognot); (32, ref_not); (33, ref_any); (34, ref_all) ].

  Definition classic_codes : list N :=
    [3; 4; 5; 6; 7; 8; 9; 10; 11; 12; 13; 14; 16; 17; 18; 19; 20; 21; 22; 23; 24; 25; 26; 27; 32; 33; 34].
  Definition classic_code (opc : bytes) : bool :=
    match opc with [b] => existsb (N.eqb b) classic_codes | _ => false end.

  Fixpoint lookup {A} (k : N) (t : list (N * A)) : option A :=
    match t with
    | [] => None
    | (k', v) :: r => if k =? k' then Some v else lookup k r
    end.

  Definition ref_op (kec : bool) (opc : bytes) (args : list sexp) (ending_atom : bytes) : res (N * sexp) :=
    if non_classic kec opc || negb (dom opc args) then Err Unsupported
    else
      let known (op : N) (f : list sexp -> res (N * sexp)) :=
        if negb (ad_literal_operands_any_terminator ad) && strict_reader op
           && negb (match ending_atom with [] => true | _ => false end)
        then fail else f args in
      let unknown := known (if (last opc 0 / 64) mod 4 =? 0 then 3 else 255) (ref_unknown opc) in
      match opc with
      | [b] => match lookup b ref_table with Some f => known b f | None => unknown end
      | _ => unknown
      end.

  (* -------------------------------------------------------------------------------------- *)
  (* the evaluator *)

  (* a budget: [None] = none; a result whose cost exceeds it is a failure. Applied to every
     sub-evaluation: costs only add up, so some sub-evaluation exceeds the budget iff the whole
     evaluation does (Proofs/RefClvm.v: ref_eval_budget). It makes the extracted reference stop
     early on programs that run away. *)
  Definition cap (lim : option N) (r : res (N * sexp)) : res (N * sexp) :=
    match lim, r with
    | Some m, Ok (c, _) => if m <? c then Err CostExceeded else r
    | _, _ => r
    end.

  Definition tighter (lim : option N) (m : N) : option N :=
    match lim with None => Some m | Some l => Some (N.min l m) end.

  (* one level of evaluation over the evaluator [rec] for the sub-evaluations *)
  Section Rec.
    Variable rec : option N -> bool -> sexp -> sexp -> res (N * sexp).

    (* the softfork operator on its operand list *)
    Definition ref_softfork (lim : option N) (args : sexp) : res (N * sexp) :=
      match items args with
      | [] => fail
      | declared :: more =>
          if ad_softfork_guard ad then
            match small_uint 8 declared with
            | None => fail
            | Some d =>
                if d =? 0 then Err CostExceeded
                else
                  match more with
                  | [ext; prog; env] =>
                      match small_uint 4 ext with
                      | Some x =>
                          if (x =? 0) || (x =? 1) then
                            match rec (tighter lim d) (x =? 1) prog env with
                            | Ok (c, _) =>
                                if c + rc_guard =? d then Ok (d, nil_s)
                                else Err SoftforkCostMismatch
                            | Err err => Err err
                            end
                          else Ok (d, nil_s)
                      | None => Ok (d, nil_s)
                      end
                  | _ => Ok (d, nil_s)
                  end
            end
          else
            match declared with
            | Atom b =>
                let d := int_of_bytes b in
                if (d <? 1)%Z then fail else Ok (Z.to_N d, nil_s)
            | Cons _ _ => fail
            end
      end.

    (* apply operator [opc] to the operand list [args] (a tree: the evaluated operands, or the
       literal list of the ((X) . args) form) *)
    Definition ref_apply (lim : option N) (kec : bool) (opc : bytes) (args : sexp) : res (N * sexp) :=
      if bytes_eqb opc [2] then
        match items args with
        | [prog; env] =>
            do '(c, v) <- rec lim kec prog env;
            Ok (rc_apply + c, v)
        | _ => fail
        end
      else if bytes_eqb opc [36] then ref_softfork lim args
      else ref_op kec opc (items args) (ending args).

    (* operands are evaluated last to first and collected into a list *)
    Fixpoint ref_operands (lim : option N) (kec : bool) (l e : sexp) : res (N * list sexp) :=
      match l with
      | Atom [] => Ok (0, [])
      | Atom _ => if ad_nil_terminator ad then Err InvalidNilTerminator else Ok (0, [])
      | Cons a r =>
          do '(cr, vr) <- ref_operands lim kec r e;
          do '(ca, va) <- rec lim kec a e;
          Ok (ca + cr, va :: vr)
      end.

    Definition ref_body (lim : option N) (kec : bool) (p e : sexp) : res (N * sexp) :=
      cap lim
        match p with
        | Atom path => ref_path path e
        | Cons (Atom opc) operands =>
            if bytes_eqb opc [1] then Ok (rc_quote, operands)
            else
              do '(ca, vals) <- ref_operands lim kec operands e;
              do '(co, v) <- ref_apply lim kec opc (list_tree vals);
              Ok (rc_op + ca + co, v)
        | Cons (Cons x t) operands =>
            match x, t with
            | Atom opc, Atom tb =>
                if ad_head_any_terminator ad || (match tb with [] => true | _ => false end) then
                  do '(c, v) <- ref_apply lim kec opc operands;
                  Ok (rc_apply + c, v)
                else fail
            | _, _ => fail
            end
        end.
  End Rec.

  (* [fuel] bounds the nesting depth of evaluations (not their number) *)
  Fixpoint ref_eval (fuel : nat) (lim : option N) (kec : bool) (p e : sexp) {struct fuel}
    : res (N * sexp) :=
    match fuel with
    | O => Err OutOfFuel
    | S n => ref_body (ref_eval n) lim kec p e
    end.

  Definition ref_budget (max_cost : N) : N :=
    if max_cost =? 0 then 18446744073709551615 else max_cost.

  (* the budget as C02 specifies it: failure iff the cost exceeds it; 0 = 2^64 - 1 *)
  Definition ref_run (fuel : nat) (p e : sexp) (max_cost : N) : res (N * sexp) :=
    ref_eval fuel (Some (ref_budget max_cost)) false p e.
End Ops.
