(* The cryptographic primitives the operators of bls_ops.rs, secp_ops.rs, keccak256_ops.rs and
   more_ops.rs (coinid, point_add, pubkey_for_exp) call, as functions on BYTE STRINGS.

   Group elements are represented by their compressed encodings (chia_bls to_bytes /
   from_bytes): 48 bytes for G1, 96 bytes for G2. The interpreter-level theorems quantify over
   an arbitrary [prims] value with no assumptions; only C32 is about the primitives.

   What each field stands for in /repo (chia-bls 0.38 over blst, k256/p256 0.14, sha2, sha3):

   p_sha256 m            Sha256::new().update(m).finalize()                       (32 bytes)
   p_keccak256 m         Keccak256::new().update(m).finalize()                    (32 bytes)
   p_g1_valid b          G1Element::from_bytes(b).is_ok() for a 48-byte b: canonical flag bits,
                         x < p, on the curve, and (infinity or in the prime-order subgroup).
                         This is the STRICT check; there is no separate relaxed check in the
                         code: under RELAXED_BLS op_bls_g1_negate/g2_negate skip validation
                         altogether (every other operator always validates strictly).
   p_g2_valid b          G2Element::from_bytes(b).is_ok() for a 96-byte b
   p_g1_add a b          to_bytes(from_bytes(a) += from_bytes(b))   (blst_p1_add_or_double)
   p_g1_neg a            to_bytes(-from_bytes(a))                   (blst_p1_cneg)
   p_g1_mul a k          to_bytes(from_bytes(a).scalar_multiply(be(k))), 0 <= k < group order
   p_g1_gen_mul k        to_bytes(G1Element::from_integer(be(k))),       0 <= k < group order
   p_g2_add/neg/mul      the same for G2Element
   p_g1_map msg dst      to_bytes(hash_to_g1_with_dst(msg, dst))
   p_g2_map msg dst      to_bytes(hash_to_g2_with_dst(msg, dst))
   p_pairing_identity l  aggregate_pairing(l) on decoded (g1, g2) pairs
   p_aggregate_verify s l  aggregate_verify(from_bytes(s), l) on decoded (pk, msg) pairs
   p_k1_pubkey_ok b      k256 VerifyingKey::from_sec1_bytes(b).is_ok()
   p_k1_sig_ok b         k256 Signature::from_slice(b).is_ok()   (64 bytes, 0 < r,s < n)
   p_k1_verify pk m sig  verifier.verify_prehash(m, sig).is_ok()  (m is 32 bytes)
   p_r1_*                the same with p256

   The group functions are only ever applied to encodings that passed p_g1_valid / p_g2_valid
   (or to results of other group functions); what they return elsewhere is irrelevant.
   Two facts about the encoding are used when the model writes "the point" as its bytes:
   to_bytes(from_bytes(b)) = b for every valid b (blst rejects x >= p and non-canonical
   infinity, so decoding is injective), and G1Element::default()/G2Element::default() encode
   as 0xc0 followed by zeros ([g1_infinity], [g2_infinity] in OpsCrypto.v). *)
From Clvm Require Export Model.Bstr.

Record prims := {
  p_sha256 : bytes -> bytes;
  p_keccak256 : bytes -> bytes;
  p_g1_valid : bytes -> bool;
  p_g2_valid : bytes -> bool;
  p_g1_add : bytes -> bytes -> bytes;
  p_g1_neg : bytes -> bytes;
  p_g1_mul : bytes -> Z -> bytes;
  p_g1_gen_mul : Z -> bytes;
  p_g2_add : bytes -> bytes -> bytes;
  p_g2_neg : bytes -> bytes;
  p_g2_mul : bytes -> Z -> bytes;
  p_g1_map : bytes -> bytes -> bytes;
  p_g2_map : bytes -> bytes -> bytes;
  p_pairing_identity : list (bytes * bytes) -> bool;
  p_aggregate_verify : bytes -> list (bytes * bytes) -> bool;
  p_k1_pubkey_ok : bytes -> bool;
  p_k1_sig_ok : bytes -> bool;
  p_k1_verify : bytes -> bytes -> bytes -> bool;
  p_r1_pubkey_ok : bytes -> bool;
  p_r1_sig_ok : bytes -> bool;
  p_r1_verify : bytes -> bytes -> bytes -> bool
}.
