(* chia_dialect.rs, runtime_dialect.rs + f_table.rs: the three dialects as [dialect] records
   over a set of cryptographic primitives P. *)
From Clvm Require Export Model.Machine Model.OpsCore Model.OpsArith Model.OpsStr Model.OpsBits
  Model.OpsUnknown Model.Prims Model.OpsCrypto.
Open Scope N_scope.

(* ChiaDialect::gc_candidate: inline one-byte opcodes of the list, when ENABLE_GC is set *)
Definition GC_CANDIDATES : list N :=
  [2; 7; 9; 10; 11; 13; 16; 17; 18; 19; 20; 21; 22; 23; 24; 25; 26; 27; 29; 30; 32; 33; 34;
   48; 49; 50; 51; 56; 58; 59; 60; 61; 62; 63].

Definition gc_candidate (f : flagset) (o : sexp) : bool :=
  if f_enable_gc f then
    match small_number o with
    | Some v => existsb (N.eqb v) GC_CANDIDATES
    | None => false
    end
  else false.

Section Chia.
  Variable P : prims.

  (* the `match op { ... }` of ChiaDialect::op for one-byte opcodes; None = unknown_operator *)
  Definition chia_table (flags : flagset) (op : N) : option (res opfn) :=
    match op with
    | 3 => Some (Ok op_if)
    | 4 => Some (Ok op_cons)
    | 5 => Some (Ok op_first)
    | 6 => Some (Ok op_rest)
    | 7 => Some (Ok op_listp)
    | 8 => Some (Ok op_raise)
    | 9 => Some (Ok op_eq)
    | 10 => Some (Ok op_gr_bytes)
    | 11 => Some (Ok (op_sha256 (p_sha256 P)))
    | 12 => Some (Ok op_substr)
    | 13 => Some (Ok op_strlen)
    | 14 => Some (Ok op_concat)
    | 16 => Some (Ok op_add)
    | 17 => Some (Ok op_subtract)
    | 18 => Some (Ok op_multiply)
    | 19 => Some (Ok op_div)
    | 20 => Some (Ok op_divmod)
    | 21 => Some (Ok op_gr)
    | 22 => Some (Ok op_ash)
    | 23 => Some (Ok op_lsh)
    | 24 => Some (Ok op_logand)
    | 25 => Some (Ok op_logior)
    | 26 => Some (Ok op_logxor)
    | 27 => Some (Ok op_lognot)
    | 29 => Some (Ok (op_point_add P))
    | 30 => Some (Ok (op_pubkey_for_exp P))
    | 32 => Some (Ok op_not)
    | 33 => Some (Ok op_any)
    | 34 => Some (Ok op_all)
    | 48 => Some (Ok (op_coinid_p P))
    | 49 => Some (Ok (op_bls_g1_subtract P))
    | 50 => Some (Ok (op_bls_g1_multiply P))
    | 51 => Some (Ok (op_bls_g1_negate P))
    | 52 => Some (Ok (op_bls_g2_add P))
    | 53 => Some (Ok (op_bls_g2_subtract P))
    | 54 => Some (Ok (op_bls_g2_multiply P))
    | 55 => Some (Ok (op_bls_g2_negate P))
    | 56 => Some (Ok (op_bls_map_to_g1 P))
    | 57 => Some (Ok (op_bls_map_to_g2 P))
    | 58 => Some (Ok (op_bls_pairing_identity P))
    | 59 => Some (Ok (op_bls_verify P))
    | 60 => if f_disable_op flags && negb (f_new_cost_model flags)
            then Some (Err Unimplemented) else Some (Ok op_modpow)
    | 61 => Some (Ok op_mod)
    | 62 => if f_keccak_outside_guard flags then Some (Ok (op_keccak256 P)) else None
    | 63 => if f_sha256_tree flags then Some (Ok (op_sha256_tree (p_sha256 P))) else None
    | 64 => if f_secp_ops flags then Some (Ok (op_secp256k1_verify P)) else None
    | 65 => if f_secp_ops flags then Some (Ok (op_secp256r1_verify P)) else None
    | _ => None
    end.

  Definition SECP256K1_OPCODE : bytes := [0x13; 0xd6; 0x1f; 0x00].
  Definition SECP256R1_OPCODE : bytes := [0x1c; 0x3a; 0x8f; 0x00].

  (* ChiaDialect::op; [f0] is the dialect's own (normalised) flag set; [know4] = false gives the
     dialect that treats the 4-byte secp opcodes as unknown (the "hiding" dialect of C08) *)
  Definition chia_op (know4 : bool) (f0 : flagset) (o args : sexp) (max_cost : N) (ext : opset)
    : res (N * sexp) :=
    let flags := op_flags f0 ext in
    match o with
    | Cons _ _ => Err (Panic 10)            (* run_program only passes atoms *)
    | Atom b =>
        if (length b =? 4)%nat then
          if know4 && bytes_eqb b SECP256K1_OPCODE then op_secp256k1_verify P flags args max_cost
          else if know4 && bytes_eqb b SECP256R1_OPCODE then op_secp256r1_verify P flags args max_cost
          else unknown_operator b flags args max_cost
        else if negb (length b =? 1)%nat then unknown_operator b flags args max_cost
        else
          match small_number o with
          | None => unknown_operator b flags args max_cost
          | Some op =>
              match chia_table flags op with
              | None => unknown_operator b flags args max_cost
              | Some (Err e) => Err e
              | Some (Ok f) => f flags args max_cost
              end
          end
    end.

  Definition chia_dialect (flags : flagset) : dialect :=
    let f0 := dialect_flags flags in
    {| d_flags := f0; d_quote := 1; d_apply := 2; d_softfork := 36;
       d_ext := softfork_extension f0;
       d_allow_unknown := negb (f_no_unknown_ops f0);
       d_gc := gc_candidate f0;
       d_op := chia_op true f0 |}.

  (* the extension-hiding dialect of C08: no softfork extension is known, the 4-byte opcodes are
     unknown operators *)
  Definition hiding_dialect (flags : flagset) : dialect :=
    let f0 := dialect_flags flags in
    {| d_flags := f0; d_quote := 1; d_apply := 2; d_softfork := 36;
       d_ext := fun _ => OsDefault;
       d_allow_unknown := negb (f_no_unknown_ops f0);
       d_gc := gc_candidate f0;
       d_op := chia_op false f0 |}.

  (* RuntimeDialect built from the standard operator-name table (f_table.rs), quote 1, apply 2 *)
  Definition runtime_table (op : N) : option opfn :=
    match op with
    | 3 => Some op_if | 4 => Some op_cons | 5 => Some op_first | 6 => Some op_rest
    | 7 => Some op_listp | 8 => Some op_raise | 9 => Some op_eq | 10 => Some op_gr_bytes
    | 11 => Some (op_sha256 (p_sha256 P)) | 12 => Some op_substr | 13 => Some op_strlen
    | 14 => Some op_concat | 16 => Some op_add | 17 => Some op_subtract | 18 => Some op_multiply
    | 19 => Some op_div | 20 => Some op_divmod | 21 => Some op_gr | 22 => Some op_ash
    | 23 => Some op_lsh | 24 => Some op_logand | 25 => Some op_logior | 26 => Some op_logxor
    | 27 => Some op_lognot | 29 => Some (op_point_add P) | 30 => Some (op_pubkey_for_exp P)
    | 32 => Some op_not | 33 => Some op_any | 34 => Some op_all
    | 49 => Some (op_bls_g1_subtract P) | 50 => Some (op_bls_g1_multiply P)
    | 51 => Some (op_bls_g1_negate P) | 52 => Some (op_bls_g2_add P)
    | 53 => Some (op_bls_g2_subtract P) | 54 => Some (op_bls_g2_multiply P)
    | 55 => Some (op_bls_g2_negate P) | 56 => Some (op_bls_map_to_g1 P)
    | 57 => Some (op_bls_map_to_g2 P) | 58 => Some (op_bls_pairing_identity P)
    | 59 => Some (op_bls_verify P) | 60 => Some op_modpow | 61 => Some op_mod
    | _ => None
    end.

  Definition runtime_op (flags : flagset) (o args : sexp) (max_cost : N) (_ : opset) : res (N * sexp) :=
    match o with
    | Cons _ _ => Err (Panic 11)
    | Atom b =>
        match b with
        | [x] =>
            match runtime_table x with
            | Some f => f flags args max_cost
            | None => unknown_operator b flags args max_cost
            end
        | _ => unknown_operator b flags args max_cost
        end
    end.

  (* RuntimeDialect::new does not normalise the flags; softfork_extension is always Default *)
  Definition runtime_dialect (flags : flagset) : dialect :=
    {| d_flags := flags; d_quote := 1; d_apply := 2; d_softfork := 36;
       d_ext := fun _ => OsDefault;
       d_allow_unknown := negb (f_no_unknown_ops flags);
       d_gc := fun _ => false;
       d_op := runtime_op flags |}.
End Chia.

(* extraction entry points: flag word -> run *)
Definition run_chia (P : prims) (fuel : nat) (flagword : N) (p e : sexp) (max_cost : N) :=
  run_program (chia_dialect P (flags_of_N flagword)) fuel p e max_cost.
Definition run_hiding (P : prims) (fuel : nat) (flagword : N) (p e : sexp) (max_cost : N) :=
  run_program (hiding_dialect P (flags_of_N flagword)) fuel p e max_cost.
Definition run_runtime (P : prims) (fuel : nat) (flagword : N) (p e : sexp) (max_cost : N) :=
  run_program (runtime_dialect P (flags_of_N flagword)) fuel p e max_cost.
