(* run_program.rs on the tree store: the CLVM evaluation loop with its three stacks, softfork
   guards and cost accounting. A node is its tree, so allocation is implicit; the allocator's
   caps (atom/pair counts, heap limit) and STACK_SIZE_LIMIT (20,000,000 stack entries) are not
   modelled: every theorem about this machine is a statement about runs that hit none of them.
   Cost arithmetic is on unbounded N; the Rust's u64 additions cannot wrap while the running
   cost stays below the effective budget (< 2^64) and every operator's cost is below 2^63. *)
From Clvm Require Export Model.OpUtils Model.Path.
Open Scope N_scope.

Definition QUOTE_COST : N := 20.
Definition APPLY_COST : N := 90.
Definition GUARD_COST : N := 140.
Definition NEW_GUARD_COST : N := 500.
Definition OP_COST : N := 1.
Definition COST_MAX : N := 18446744073709551615.     (* Cost::MAX *)
Definition SOFTFORK_DEPTH_LIMIT : nat := 20.

Inductive operation := OApply | OCons | OExitGuard | OSwapEval | ORestore.

Record guard := { g_expected : N; g_opset : opset }.

(* the Dialect trait *)
Record dialect := {
  d_flags : flagset;
  d_quote : N;
  d_apply : N;
  d_softfork : N;
  d_ext : N -> opset;                                   (* softfork_extension *)
  d_allow_unknown : bool;                               (* allow_unknown_ops *)
  d_gc : sexp -> bool;                                  (* gc_candidate (of the operator atom) *)
  d_op : sexp -> sexp -> N -> opset -> res (N * sexp)   (* op(operator, args, max_cost, extensions) *)
}.

Record mstate := {
  vals : list sexp;          (* val_stack, top first *)
  envs : list sexp;          (* env_stack, top first *)
  ops : list operation;      (* op_stack, top first *)
  guards : list guard        (* softfork_stack, top first *)
}.

Definition push (v : sexp) (s : mstate) : mstate :=
  {| vals := v :: vals s; envs := envs s; ops := ops s; guards := guards s |}.
Definition push_env (e : sexp) (s : mstate) : mstate :=
  {| vals := vals s; envs := e :: envs s; ops := ops s; guards := guards s |}.
Definition push_op (o : operation) (s : mstate) : mstate :=
  {| vals := vals s; envs := envs s; ops := o :: ops s; guards := guards s |}.

(* RunProgramContext::pop: an empty value stack is an internal error *)
Definition pop (s : mstate) : res (sexp * mstate) :=
  match vals s with
  | v :: r => Ok (v, {| vals := r; envs := envs s; ops := ops s; guards := guards s |})
  | [] => Err (InternalError 1)
  end.

Definition is_kw (t : sexp) (kw : N) : bool :=
  match small_number t with Some v => v =? kw | None => false end.

(* the while-let loop of eval_op_atom: push SwapEval + the operand for every leading pair *)
Fixpoint push_operands (operands : sexp) (s : mstate) : res mstate :=
  match operands with
  | Cons a r => push_operands r (push a (push_op OSwapEval s))
  | Atom [] => Ok (push nil_s s)
  | Atom _ => Err InvalidNilTerminator
  end.

Definition eval_op_atom (d : dialect) (s : mstate) (operator_node operand_list env : sexp)
  : res (N * mstate) :=
  if is_kw operator_node (d_quote d) then Ok (QUOTE_COST, push operand_list s)
  else
    let s1 := if d_gc d operator_node then push_op ORestore s else s in
    let s2 := push operator_node (push_op OApply (push_env env s1)) in
    do s3 <- push_operands operand_list s2;
    Ok (OP_COST, s3).

Definition eval_pair (d : dialect) (s : mstate) (program env : sexp) : res (N * mstate) :=
  match program with
  | Atom b =>
      do '(c, v) <- traverse_path b env;
      Ok (c, push v s)
  | Cons op_node op_list =>
      match op_node with
      | Cons new_operator tl =>
          (* get_args::<1>(op_node) and "X must be lone atom" *)
          match tl, new_operator with
          | Atom _, Atom _ =>
              Ok (APPLY_COST, push_op OApply (push op_list (push new_operator (push_env env s))))
          | _, _ => bad_arg
          end
      | Atom _ => eval_op_atom d s op_node op_list env
      end
  end.

Definition swap_eval_op (d : dialect) (s : mstate) : res (N * mstate) :=
  do '(v2, s1) <- pop s;
  do '(program, s2) <- pop s1;
  match envs s2 with
  | [] => Err (InternalError 2)
  | env :: _ => eval_pair d (push_op OCons (push v2 s2)) program env
  end.

Definition cons_op (s : mstate) : res (N * mstate) :=
  do '(v1, s1) <- pop s;
  do '(v2, s2) <- pop s1;
  Ok (0, push (Cons v1 v2) s2).

(* parse_softfork_arguments *)
Definition parse_softfork_arguments (d : dialect) (args : sexp) : res (opset * sexp * sexp) :=
  do '(_, extension, program, env) <- get_args4 args;
  do e <- uint_atom 4 (f_canonical_ints (d_flags d)) extension;
  let ext := d_ext d e in
  if opset_eqb ext OsDefault then Err UnknownSoftforkExtension
  else Ok (ext, program, env).

Definition current_extensions (s : mstate) : opset :=
  match guards s with g :: _ => g_opset g | [] => OsDefault end.

(* the softfork branch of apply_op: [s] is the state after the three pops *)
Definition enter_guard (d : dialect) (s : mstate) (operand_list : sexp) (current_cost max_cost : N)
  : res (N * mstate) :=
  do fst_arg <- first operand_list;
  do expected_cost <- uint_atom 8 (f_canonical_ints (d_flags d)) fst_arg;
  if max_cost <? expected_cost then Err CostExceeded
  else if expected_cost =? 0 then Err CostExceeded
  else
    match parse_softfork_arguments d operand_list with
    | Err err =>
        if d_allow_unknown d then Ok (expected_cost, push nil_s s) else Err err
    | Ok (ext, prg, env) =>
        if f_limit_softfork (d_flags d) && (SOFTFORK_DEPTH_LIMIT <=? length (guards s))%nat
        then Err SoftforkStackDepth
        else
          let expected :=
            match ext with
            | OsPreHardFork =>
                match guards s with
                | g :: _ => g_expected g
                | [] => current_cost + max_cost
                end
            | _ => current_cost + expected_cost
            end in
          let s4 := {| vals := vals s; envs := envs s; ops := OExitGuard :: ops s;
                       guards := {| g_expected := expected; g_opset := ext |} :: guards s |} in
          let guard_cost := if f_new_cost_model (d_flags d) then NEW_GUARD_COST else GUARD_COST in
          do '(c, s5) <- eval_pair d s4 prg env;
          Ok (c + guard_cost, s5)
    end.

Definition apply_op (d : dialect) (s : mstate) (current_cost max_cost : N) : res (N * mstate) :=
  do '(operand_list, s1) <- pop s;
  do '(operator, s2) <- pop s1;
  match envs s2 with
  | [] => Err (InternalError 3)
  | _ :: envs' =>
      let s3 := {| vals := vals s2; envs := envs'; ops := ops s2; guards := guards s2 |} in
      if is_kw operator (d_apply d) then
        do '(new_operator, env) <- get_args2 operand_list;
        do '(c, s4) <- eval_pair d s3 new_operator env;
        Ok (c + APPLY_COST, s4)
      else if is_kw operator (d_softfork d) then
        enter_guard d s3 operand_list current_cost max_cost
      else
        do '(c, v) <- d_op d operator operand_list max_cost (current_extensions s3);
        Ok (c, push v s3)
  end.

Definition cost_exempt (g : guard) : bool := opset_eqb (g_opset g) OsPreHardFork.

Definition exit_guard (s : mstate) (current_cost : N) : res (N * mstate) :=
  match guards s with
  | [] => Err (Panic 1)
  | g :: gs =>
      if negb (cost_exempt g) && negb (current_cost =? g_expected g) then Err SoftforkCostMismatch
      else
        match vals s with
        | [] => Err (Panic 2)
        | _ :: vs => Ok (0, {| vals := nil_s :: vs; envs := envs s; ops := ops s; guards := gs |})
        end
  end.

Definition effective_max (s : mstate) (max_cost : N) : N :=
  match guards s with g :: _ => g_expected g | [] => max_cost end.

(* one iteration of the loop of run_program: [inl] = the loop goes on with the new cost and
   state, [inr] = the op stack was empty and the loop is left *)
Definition step (d : dialect) (max_cost : N) (cost : N) (s : mstate)
  : res ((N * mstate) + (N * mstate)) :=
  let emax := effective_max s max_cost in
  if emax <? cost then Err CostExceeded
  else
    match ops s with
    | [] => Ok (inr (cost, s))
    | o :: rest_ops =>
        let s' := {| vals := vals s; envs := envs s; ops := rest_ops; guards := guards s |} in
        do '(c, s'') <-
          match o with
          | OApply => apply_op d s' cost (emax - cost)
          | OExitGuard => exit_guard s' cost
          | OCons => cons_op s'
          | OSwapEval => swap_eval_op d s'
          | ORestore =>
              (* maybe_restore_with_node: on the tree store every outcome leaves the value *)
              match vals s' with
              | [] => Err (InternalError 5)
              | _ :: _ => Ok (0, s')
              end
          end;
        Ok (inl (cost + c, s''))
    end.

Fixpoint run_loop (d : dialect) (fuel : nat) (max_cost : N) (cost : N) (s : mstate)
  : res (N * sexp) :=
  match fuel with
  | O => Err OutOfFuel
  | S fuel' =>
      do r <- step d max_cost cost s;
      match r with
      | inl (cost', s') => run_loop d fuel' max_cost cost' s'
      | inr (cost', s') => do '(v, _) <- pop s'; Ok (cost', v)
      end
  end.

Definition init_state : mstate := {| vals := []; envs := []; ops := []; guards := [] |}.

Definition run_program (d : dialect) (fuel : nat) (program env : sexp) (max_cost : N)
  : res (N * sexp) :=
  let max_cost := if max_cost =? 0 then COST_MAX else max_cost in
  do '(c, s) <- eval_pair d init_state program env;
  run_loop d fuel max_cost c s.
