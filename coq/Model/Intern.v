(* Model of src/serde/intern.rs: intern_tree / intern_tree_limited and InternedTree.
   Executable definitions only.

   The Rust walks the source DAG with an explicit stack: a pair is re-pushed until both children
   have an entry in [node_to_interned], the left child being pushed last (popped first). That is
   a post-order, left-before-right traversal. An atom is looked up in [atom_to_interned], a
   HashMap keyed by the atom's CONTENT (impl Hash/PartialEq for Atom go through as_ref(), so the
   inline small-int and the heap representation of equal bytes are the same key); a pair is looked
   up in [pair_to_interned], keyed by the pair of INTERNED child nodes.  New atoms / pairs are
   appended to the vectors [atoms] / [pairs] in the order they are first met.

   The model keeps exactly those two vectors: [is_atoms] (the contents) and [is_pairs] (for every
   interned pair its two interned children).  An interned node is its position in one of the two
   vectors ([IA i] = atoms[i], [IP j] = pairs[j]); the two maps are the association lists
   "content -> position" / "child pair -> position", i.e. a search of the vector.
   The third map, [node_to_interned] (keyed by SOURCE NodePtr), only avoids walking a shared
   source node twice; on a source *tree* a repeated node is a repeated sub-tree, and walking it
   again changes nothing (Proofs/InternProofs.v, [intern_again]): the memo is not observable
   in the result.  Allocator limits of the new allocator (heap_limit, atom and pair counts) are
   outside this model (DESIGN.md section 3). *)
From Clvm Require Export Model.Err Model.Sexp.

Inductive inode := IA (i : nat) | IP (i : nat).

Definition inode_eqb (a b : inode) : bool :=
  match a, b with
  | IA i, IA j => Nat.eqb i j
  | IP i, IP j => Nat.eqb i j
  | _, _ => false
  end.

(* position of the first element satisfying p *)
Fixpoint find_index {A} (p : A -> bool) (l : list A) : option nat :=
  match l with
  | [] => None
  | x :: r => if p x then Some O else
                match find_index p r with Some i => Some (S i) | None => None end
  end.

Record istate := { is_atoms : list bytes; is_pairs : list (inode * inode) }.

Definition istate0 : istate := {| is_atoms := []; is_pairs := [] |}.

(* SExp::Atom arm: atom_to_interned.entry(atom) *)
Definition intern_atom (b : bytes) (st : istate) : inode * istate :=
  match find_index (bytes_eqb b) (is_atoms st) with
  | Some i => (IA i, st)
  | None => (IA (length (is_atoms st)),
             {| is_atoms := is_atoms st ++ [b]; is_pairs := is_pairs st |})
  end.

Definition pair_key_eqb (k e : inode * inode) : bool :=
  inode_eqb (fst k) (fst e) && inode_eqb (snd k) (snd e).

(* SExp::Pair arm once both children are interned: pair_to_interned.entry((l, r)) *)
Definition intern_pair (l r : inode) (st : istate) : inode * istate :=
  match find_index (pair_key_eqb (l, r)) (is_pairs st) with
  | Some i => (IP i, st)
  | None => (IP (length (is_pairs st)),
             {| is_atoms := is_atoms st; is_pairs := is_pairs st ++ [(l, r)] |})
  end.

(* the traversal: left sub-tree, right sub-tree, then the pair itself *)
Fixpoint intern_rec (t : sexp) (st : istate) : inode * istate :=
  match t with
  | Atom b => intern_atom b st
  | Cons l r =>
      let '(nl, st1) := intern_rec l st in
      let '(nr, st2) := intern_rec r st1 in
      intern_pair nl nr st2
  end.

(* InternedTree: atoms in insertion order, pairs in post-order, root *)
Record itree := { it_atoms : list bytes; it_pairs : list (inode * inode); it_root : inode }.

Definition intern_tree (t : sexp) : itree :=
  let '(n, st) := intern_rec t istate0 in
  {| it_atoms := is_atoms st; it_pairs := is_pairs st; it_root := n |}.

(* ------------------------------------------------------------------ what an InternedTree denotes *)

Definition node_tree (atoms : list bytes) (pts : list sexp) (n : inode) : option sexp :=
  match n with
  | IA i => match nth_error atoms i with Some b => Some (Atom b) | None => None end
  | IP j => nth_error pts j
  end.

(* the sub-tree of every pair, built in vector order (children come before parents);
   None when a child index points at or behind the pair itself or outside the atom vector *)
Fixpoint build_pairs (atoms : list bytes) (pts : list sexp) (ps : list (inode * inode))
  : option (list sexp) :=
  match ps with
  | [] => Some pts
  | (l, r) :: ps' =>
      match node_tree atoms pts l, node_tree atoms pts r with
      | Some a, Some b => build_pairs atoms (pts ++ [Cons a b]) ps'
      | _, _ => None
      end
  end.

Definition pair_trees (it : itree) : option (list sexp) := build_pairs (it_atoms it) [] (it_pairs it).

Definition tree_of (it : itree) : option sexp :=
  match pair_trees it with
  | Some pts => node_tree (it_atoms it) pts (it_root it)
  | None => None
  end.

(* ------------------------------------------------------------------ hashing an InternedTree
   every unique node is hashed once (ObjectCache memoises by interned NodePtr); this is the
   table-order formulation: atoms first, then pairs in vector order *)
Section Hash.
  Variable H : bytes -> bytes.

  Definition node_hash (ah ph : list bytes) (n : inode) : option bytes :=
    match n with IA i => nth_error ah i | IP j => nth_error ph j end.

  Fixpoint hash_pairs (ah ph : list bytes) (ps : list (inode * inode)) : option (list bytes) :=
    match ps with
    | [] => Some ph
    | (l, r) :: ps' =>
        match node_hash ah ph l, node_hash ah ph r with
        | Some a, Some b => hash_pairs ah (ph ++ [H (2%N :: a ++ b)]) ps'
        | _, _ => None
        end
    end.

  Definition itree_hash (it : itree) : option bytes :=
    let ah := map (fun b => H (1%N :: b)) (it_atoms it) in
    match hash_pairs ah [] (it_pairs it) with
    | Some ph => node_hash ah ph (it_root it)
    | None => None
    end.
End Hash.

(* ------------------------------------------------------------------ specification vocabulary:
   all atom occurrences and all pair sub-trees of a tree (with multiplicity, traversal order),
   and "remove later duplicates" *)
Fixpoint atoms_of (t : sexp) : list bytes :=
  match t with Atom b => [b] | Cons l r => atoms_of l ++ atoms_of r end.

Fixpoint subpairs_of (t : sexp) : list sexp :=
  match t with Atom _ => [] | Cons l r => subpairs_of l ++ subpairs_of r ++ [Cons l r] end.

Section Dedup.
  Context {A : Type} (eqb : A -> A -> bool).
  Definition add_new (x : A) (l : list A) : list A := if existsb (eqb x) l then l else l ++ [x].
  Definition dedup_into (l xs : list A) : list A := fold_left (fun acc x => add_new x acc) xs l.
End Dedup.
