(* traverse_path.rs: environment lookup by a path atom, with its cost. *)
From Clvm Require Export Model.Err Model.Sexp.
Open Scope N_scope.

Definition TRAVERSE_BASE_COST : N := 40.
Definition TRAVERSE_COST_PER_ZERO_BYTE : N := 4.
Definition TRAVERSE_COST_PER_BIT : N := 4.

Fixpoint first_non_zero (b : bytes) : nat :=
  match b with 0 :: r => S (first_non_zero r) | _ => O end.

(* the path bits below the sentinel (most significant set bit), least significant first:
   the order in which traverse_path consumes them *)
Fixpoint bits_lsb_first (n : nat) (v : N) : list bool :=
  match n with O => [] | S k => N.odd v :: bits_lsb_first k (N.div2 v) end.

Definition path_bits (b : bytes) : list bool :=
  let v := be_value b in
  bits_lsb_first (N.to_nat (N.size v) - 1) v.

Fixpoint follow (bits : list bool) (t : sexp) (cost : N) : res (N * sexp) :=
  match bits with
  | [] => Ok (cost, t)
  | bit :: r =>
      match t with
      | Atom _ => Err PathIntoAtom
      | Cons l rr => follow r (if bit then rr else l) (cost + TRAVERSE_COST_PER_BIT)
      end
  end.

(* traverse_path: any byte string (leading zero bytes cost 4 each; all-zero / empty -> nil) *)
Definition traverse_path (path : bytes) (env : sexp) : res (N * sexp) :=
  let z := N.of_nat (first_non_zero path) in
  let cost := TRAVERSE_BASE_COST + z * TRAVERSE_COST_PER_ZERO_BYTE + TRAVERSE_COST_PER_BIT in
  if be_value path =? 0 then Ok (cost, nil_s)
  else follow (path_bits path) env cost.

(* traverse_path_fast: the path is a small integer stored inline (canonical encoding) *)
Definition traverse_path_fast (idx : N) (env : sexp) : res (N * sexp) :=
  if idx =? 0 then Ok (TRAVERSE_BASE_COST + TRAVERSE_COST_PER_BIT, nil_s)
  else
    let nbits := N.size idx - 1 in
    match follow (bits_lsb_first (N.to_nat nbits) idx) env 0 with
    | Err e => Err e
    | Ok (_, t) =>
        let cost := TRAVERSE_BASE_COST + TRAVERSE_COST_PER_BIT + nbits * TRAVERSE_COST_PER_BIT in
        let cost := if (nbits =? 7) || (nbits =? 15) || (nbits =? 23) || (nbits =? 31)
                    then cost + TRAVERSE_COST_PER_ZERO_BYTE else cost in
        Ok (cost, t)
    end.
