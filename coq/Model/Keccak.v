(* Keccak-256 over byte lists, executable: the original Keccak submission's padding (domain
   byte 0x01, NOT SHA3-256's 0x06), rate 136 bytes, capacity 512 bits, 24 rounds of
   Keccak-f[1600]. Written from the Keccak reference ("The Keccak reference", v3.0, section 1.2;
   FIPS 202 section 3 describes the same permutation); validated by vm_compute against known
   digests in Pins/C32.v and against the sha3 crate by the check C32.
   The state is the list of 25 lanes, lane (x, y) at index x + 5 y; lanes are N < 2^64. *)
From Clvm Require Export Model.Bstr.
Open Scope N_scope.

Definition mask64 : N := 18446744073709551615.
Definition w64 (x : N) : N := N.land x mask64.
Definition rotl64 (n x : N) : N :=
  if n =? 0 then x else N.lor (w64 (N.shiftl x n)) (N.shiftr x (64 - n)).
Definition not64 (x : N) : N := N.lxor x mask64.

Definition lane (st : list N) (i : nat) : N := nth i st 0.
Definition idx25 : list nat := seq 0 25.
Definition idx5 : list nat := seq 0 5.

(* rotation offsets r[x][y] at index x + 5 y *)
Definition rho_offsets : list N :=
  [ 0;  1; 62; 28; 27;
   36; 44;  6; 55; 20;
    3; 10; 43; 25; 39;
   41; 45; 15; 21;  8;
   18;  2; 61; 56; 14].

Definition round_constants : list N :=
  [0x0000000000000001; 0x0000000000008082; 0x800000000000808A; 0x8000000080008000;
   0x000000000000808B; 0x0000000080000001; 0x8000000080008081; 0x8000000000008009;
   0x000000000000008A; 0x0000000000000088; 0x0000000080008009; 0x000000008000000A;
   0x000000008000808B; 0x800000000000008B; 0x8000000000008089; 0x8000000000008003;
   0x8000000000008002; 0x8000000000000080; 0x000000000000800A; 0x800000008000000A;
   0x8000000080008081; 0x8000000000008080; 0x0000000080000001; 0x8000000080008008].

Definition theta (st : list N) : list N :=
  let c := map (fun x => N.lxor (lane st x) (N.lxor (lane st (x + 5)) (N.lxor (lane st (x + 10))
                           (N.lxor (lane st (x + 15)) (lane st (x + 20)))))) idx5 in
  let d := map (fun x => N.lxor (lane c (Nat.modulo (x + 4) 5))
                                (rotl64 1 (lane c (Nat.modulo (x + 1) 5)))) idx5 in
  map (fun i => N.lxor (lane st i) (lane d (Nat.modulo i 5))) idx25.

(* B[y, 2x+3y] = rot(A[x,y], r[x,y]); read backwards: B[X,Y] comes from x = X + 3Y, y = X *)
Definition rho_pi (st : list N) : list N :=
  map (fun i =>
         let X := Nat.modulo i 5 in
         let Y := Nat.div i 5 in
         let x := Nat.modulo (X + 3 * Y) 5 in
         let src := (x + 5 * X)%nat in
         rotl64 (nth src rho_offsets 0) (lane st src)) idx25.

Definition chi (st : list N) : list N :=
  map (fun i =>
         let x := Nat.modulo i 5 in
         let y5 := (5 * Nat.div i 5)%nat in
         N.lxor (lane st i)
                (N.land (not64 (lane st (Nat.modulo (x + 1) 5 + y5)))
                        (lane st (Nat.modulo (x + 2) 5 + y5)))) idx25.

Definition iota (rc : N) (st : list N) : list N :=
  match st with a :: r => N.lxor a rc :: r | [] => [] end.

Definition keccak_round (st : list N) (rc : N) : list N := iota rc (chi (rho_pi (theta st))).
Definition keccak_f (st : list N) : list N := fold_left keccak_round round_constants st.

(* little-endian lanes of a byte string (8 bytes per lane; a trailing partial lane is dropped —
   blocks are always 136 bytes) *)
Fixpoint le_lanes (b : bytes) : list N :=
  match b with
  | b0 :: b1 :: b2 :: b3 :: b4 :: b5 :: b6 :: b7 :: r =>
      (b0 + 256 * (b1 + 256 * (b2 + 256 * (b3 + 256 * (b4 + 256 * (b5 + 256 * (b6 + 256 * b7)))))))
      :: le_lanes r
  | _ => []
  end.

Fixpoint le_bytes (n : nat) (v : N) : bytes :=
  match n with O => [] | S k => v mod 256 :: le_bytes k (v / 256) end.

Fixpoint xor_into (st blk : list N) : list N :=
  match st, blk with
  | s :: st', b :: blk' => N.lxor s b :: xor_into st' blk'
  | _, [] => st
  | [], _ => []
  end.

Definition RATE : nat := 136.

(* pad10*1 with the Keccak domain bit: m || 0x01 || 0x00.. || 0x80 (0x81 when one byte is missing) *)
Definition keccak_pad (m : bytes) : bytes :=
  let l := length m in
  let q := (RATE - Nat.modulo l RATE)%nat in      (* 1..136 padding bytes *)
  if Nat.eqb q 1 then m ++ [129]
  else m ++ [1] ++ repeat 0 (q - 2) ++ [128].

Fixpoint absorb (fuel : nat) (b : bytes) (st : list N) : list N :=
  match fuel with
  | O => st
  | S k =>
      match b with
      | [] => st
      | _ => absorb k (skipn RATE b) (keccak_f (xor_into st (le_lanes (firstn RATE b))))
      end
  end.

Definition keccak256 (m : bytes) : bytes :=
  let p := keccak_pad m in
  let st := absorb (S (Nat.div (length p) RATE)) p (repeat 0 25) in
  concat (map (le_bytes 8) (firstn 4 st)).
