(* C23: the two ways of computing a tree hash inside the VM, and what each costs.

   [native_prog t]     = (sha256tree (q . t))                        opcode 63, env ()
   [sha256tree_prog]   = the standard recursive ChiaLisp program of
                         tools/src/bin/sha256tree-benching.rs (hex ff02ffff01ff02ff02...), run with
                         the tree as its environment:
       (a (q . MAIN) (c (q . FUNC) 1))
       MAIN = (a 2 (c 2 (c 3 ())))
       FUNC = (a (i (l 5) (q . PAIR_BRANCH) (q . ATOM_BRANCH)) 1)
       PAIR_BRANCH = (sha256 (q . 2) (a 2 (c 2 (c 9 ()))) (a 2 (c 2 (c 13 ()))))
       ATOM_BRANCH = (sha256 (q . 1) 5)

   [native_cost ncm t] and [clvm_cost ncm t] are closed forms / a structural recurrence for the
   cost run_program charges for the two programs (ncm = NEW_COST_MODEL). They are written with
   the NAMED constants of the machine and operator models (pinned to the source by
   Pins/C23consts.v), derived by hand from Model/Machine.v:

     evaluating an atom p (a path)      TRAVERSE_BASE_COST + TRAVERSE_COST_PER_BIT
                                        + TRAVERSE_COST_PER_BIT * (bits below the top bit of p)
                                        (the one-byte paths used here have no leading zero byte;
                                         the empty atom () costs the same as path 1)
     evaluating (q . x)                 QUOTE_COST
     evaluating (op a1 .. an), op <> a  OP_COST + sum of the arguments + the operator's cost
     evaluating (a P E)                 OP_COST + P + E + APPLY_COST + the cost of the body P
                                        evaluates to, in the environment E evaluates to.

   The recurrence is tied to the machine three times: by computation on small trees
   (Proofs/ShaTreeCostTests.v), by the symbolic-execution theorems (Props/C23.v) and, on every
   run of the check, to the implementation through the "shacost" family. *)
From Clvm Require Export Model.Dialect Model.CostSpec Model.Classic.
Open Scope N_scope.

(* ---- the programs ---- *)
Definition sl (l : list sexp) : sexp := fold_right Cons nil_s l.       (* proper list *)
Definition kw (n : N) : sexp := Atom [n].
Definition qq (x : sexp) : sexp := Cons (kw 1) x.                      (* (q . x) *)

(* (a 2 (c 2 (c <path> ()))): call the function at path 2 with argument <path> *)
Definition rec_call (path : N) : sexp :=
  sl [kw 2; kw 2; sl [kw 4; kw 2; sl [kw 4; kw path; nil_s]]].
Definition ATOM_BRANCH : sexp := sl [kw 11; qq (kw 1); kw 5].
Definition PAIR_BRANCH : sexp := sl [kw 11; qq (kw 2); rec_call 9; rec_call 13].
Definition FUNC : sexp :=
  sl [kw 2; sl [kw 3; sl [kw 7; kw 5]; qq PAIR_BRANCH; qq ATOM_BRANCH]; kw 1].
Definition MAIN : sexp := rec_call 3.
Definition sha256tree_prog : sexp := sl [kw 2; qq MAIN; sl [kw 4; qq FUNC; kw 1]].

Definition native_prog (t : sexp) : sexp := sl [kw 63; qq t].

(* the environment FUNC runs in: (FUNC t) *)
Definition func_env (t : sexp) : sexp := sl [FUNC; t].

(* the classic serialization of the standard program, as printed in the tool *)
Definition sha256tree_prog_hex : bytes :=
  [0xff;0x02;0xff;0xff;0x01;0xff;0x02;0xff;0x02;0xff;0xff;0x04;0xff;0x02;0xff;0xff;0x04;0xff;0x03;
   0xff;0x80;0x80;0x80;0x80;0xff;0xff;0x04;0xff;0xff;0x01;0xff;0x02;0xff;0xff;0x03;0xff;0xff;0x07;
   0xff;0x05;0x80;0xff;0xff;0x01;0xff;0x0b;0xff;0xff;0x01;0x02;0xff;0xff;0x02;0xff;0x02;0xff;0xff;
   0x04;0xff;0x02;0xff;0xff;0x04;0xff;0x09;0xff;0x80;0x80;0x80;0x80;0xff;0xff;0x02;0xff;0x02;0xff;
   0xff;0x04;0xff;0x02;0xff;0xff;0x04;0xff;0x0d;0xff;0x80;0x80;0x80;0x80;0x80;0xff;0xff;0x01;0xff;
   0x0b;0xff;0xff;0x01;0x01;0xff;0x05;0x80;0x80;0xff;0x01;0x80;0xff;0x01;0x80;0x80].

(* ---- cost-model selectors ---- *)
Definition sha_base (ncm : bool) : N := if ncm then NEW_SHA256_BASE_COST else SHA256_BASE_COST.
Definition sha_arg (ncm : bool) : N := if ncm then NEW_SHA256_COST_PER_ARG else SHA256_COST_PER_ARG.
Definition sha_byte (ncm : bool) : N := if ncm then NEW_SHA256_COST_PER_BYTE else SHA256_COST_PER_BYTE.
Definition if_cost (ncm : bool) : N := if ncm then NEW_IF_COST else IF_COST.
Definition listp_cost (ncm : bool) : N := if ncm then NEW_LISTP_COST else LISTP_COST.
Definition tree_byte (ncm : bool) : N :=
  if ncm then NEW_SHA256TREE_COST_PER_BYTE else SHA256TREE_COST_PER_BYTE.

(* ---- native ---- *)
(* (63 (q . t)): OP_COST for the operator form, QUOTE_COST for the argument, then the operator:
   the closed formula of C10_sha256tree (CostSpec.spec_sha256_tree) *)
Definition native_op_cost (ncm : bool) (t : sexp) : N :=
  SHA256TREE_BASE_COST + SHA256TREE_PAIR_COST * tree_pairs t + tree_byte ncm * tree_atom_bytes t
  + MALLOC_COST_PER_BYTE * 32.
Definition native_cost (ncm : bool) (t : sexp) : N := OP_COST + QUOTE_COST + native_op_cost ncm t.

(* ---- the ChiaLisp program ---- *)
(* a one-byte path with [bits] bits below its top bit (1 -> 0; 2,3 -> 1; 5 -> 2; 9,13 -> 3) *)
Definition path_cost (bits : N) : N :=
  TRAVERSE_BASE_COST + TRAVERSE_COST_PER_BIT + bits * TRAVERSE_COST_PER_BIT.
(* the empty atom as a program: all-zero path, no zero byte *)
Definition nil_path_cost : N := TRAVERSE_BASE_COST + TRAVERSE_COST_PER_BIT.

(* (c 2 (c <path> ())) *)
Definition arglist_cost (bits : N) : N :=
  OP_COST + path_cost 1 + (OP_COST + path_cost bits + nil_path_cost + CONS_COST) + CONS_COST.
(* (a 2 (c 2 (c <path> ()))) without the body it calls *)
Definition call_cost (bits : N) : N := OP_COST + path_cost 1 + arglist_cost bits + APPLY_COST.

(* sha256 of [nargs] atoms with [nbytes] bytes in total and a 32-byte result *)
Definition sha_cost (ncm : bool) (nargs nbytes : N) : N :=
  sha_base ncm + nargs * sha_arg ncm + nbytes * sha_byte ncm + 32 * MALLOC_COST_PER_BYTE.

(* FUNC = (a (i (l 5) (q . P) (q . A)) 1) without the branch it selects *)
Definition func_overhead (ncm : bool) : N :=
  OP_COST
  + (OP_COST + (OP_COST + path_cost 2 + listp_cost ncm) + QUOTE_COST + QUOTE_COST + if_cost ncm)
  + path_cost 0
  + APPLY_COST.

Fixpoint func_cost (ncm : bool) (t : sexp) : N :=
  func_overhead ncm +
  match t with
  | Atom b =>   (* (sha256 (q . 1) 5) *)
      OP_COST + QUOTE_COST + path_cost 2 + sha_cost ncm 2 (1 + blen b)
  | Cons l r => (* (sha256 (q . 2) (a 2 (c 2 (c 9 ()))) (a 2 (c 2 (c 13 ())))) *)
      OP_COST + QUOTE_COST
      + (call_cost 3 + func_cost ncm l)
      + (call_cost 3 + func_cost ncm r)
      + sha_cost ncm 3 65
  end.

(* (a (q . MAIN) (c (q . FUNC) 1)), then MAIN = (a 2 (c 2 (c 3 ()))) *)
Definition top_cost : N :=
  OP_COST + QUOTE_COST + (OP_COST + QUOTE_COST + path_cost 0 + CONS_COST) + APPLY_COST.
Definition clvm_cost (ncm : bool) (t : sexp) : N := top_cost + call_cost 1 + func_cost ncm t.

(* flag words: ENABLE_SHA256_TREE, + NEW_COST_MODEL *)
Definition c23_flags (ncm : bool) : N := if ncm then 0x2400 else 0x400.

(* what the extracted model prints for the "shacost" family *)
Definition shacost (t : sexp) : N * N * N * N :=
  (native_cost false t, clvm_cost false t, native_cost true t, clvm_cost true t).
