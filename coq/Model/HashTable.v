(* PRECOMPUTED_HASHES as the translator reads it from src/more_ops.rs on every run (Gen/Tables.v):
   the table the extracted model of tree_hash_costed is run with. *)
From Coq Require Import List NArith.
From Clvm Require Import Gen.Tables.
Definition precomputed_hashes : list (list N) := src_precomputed_hashes.
