(* Back-reference ("compressed") serialization format: model of src/serde/de_br.rs (both
   decoders), of traverse_path_with_vec, and of the shadow-tree length probe
   serialized_length_from_bytes (src/serde/tools.rs). Executable definitions only.

   A Cursor is the list of bytes that remain. The allocator is represented by what the decoders
   observe of it: the trees their nodes denote, and the two counters behind
   Allocator::pair_count() = pair_vec.len() + ghost_pairs  (here: [pairs] + [ghost]).
   The allocator's caps (MAX_NUM_PAIRS, MAX_NUM_ATOMS, heap limit) are outside this model
   (DESIGN.md section 3).  Rust panic sites are the outcomes [Err (Panic n)]:
     1  values.pop().expect("Top of the stack")           / panic!("unexpected atom")
     2  values.pop().expect("No cons without two vals.")  / panic!("internal error")
     3  args[arg_index]                                   (traverse_path_with_vec)
     4  remove_ghost_pair: ghost_pairs -= amount underflow (debug_assert / overflow check)   *)
From Clvm Require Export Model.Err Model.Sexp Model.Classic Model.Path.
Open Scope N_scope.

(* ------------------------------------------------------------------ the format (specification) *)

(* the parse stack, top first, as the CLVM list the paths of the format refer to *)
Definition stack_list (stk : list sexp) : sexp := fold_right Cons nil_s stk.

(* parse_atom.rs: parse_atom_ptr / parse_path (a path is an atom in classic encoding; unlike
   parse_atom there is no special case for 0x01 / 0x80 — 0x80 goes through decode_size) *)
Definition parse_atom_ptr (first : N) (rest : bytes) : res (bytes * bytes) :=
  if first <=? 0x7f then Ok ([first], rest)
  else
    do '(size, rest') <- decode_size first rest;
    match take_n size rest' with
    | None => Err SerializationError
    | Some (blob, rest'') => Ok (blob, rest'')
    end.

Definition parse_path (bs : bytes) : res (bytes * bytes) :=
  match bs with
  | [] => Err SerializationError
  | b :: r => parse_atom_ptr b r
  end.

(* what 0xfe means: the node at [path] in the stack-as-a-list (traverse_path.rs, Model/Path.v) *)
Definition backref_lookup (path : bytes) (stk : list sexp) : res sexp :=
  do '(_, t) <- traverse_path path (stack_list stk); Ok t.

(* de_br_spec: the recursive grammar. The rgt child of a pair is parsed with the lft child
   already on the stack. Result: the tree and the input that remains. *)
Fixpoint parse_br (fuel : nat) (bs : bytes) (stk : list sexp) : res (sexp * bytes) :=
  match fuel with
  | O => Err OutOfFuel
  | S f =>
      match bs with
      | [] => Err SerializationError
      | b :: r =>
          if b =? 0xff then
            do '(l, r1) <- parse_br f r stk;
            do '(rt, r2) <- parse_br f r1 (l :: stk);
            Ok (Cons l rt, r2)
          else if b =? 0xfe then
            do '(path, r1) <- parse_path r;
            do t <- backref_lookup path stk;
            Ok (t, r1)
          else read_atom_node b r
      end
  end.

Definition de_br_spec (bs : bytes) : res (sexp * bytes) := parse_br (S (length bs)) bs [].

(* ------------------------------------------------------------------ the ParseOp loop shared by
   node_from_stream_backrefs, node_from_stream_backrefs_old and serialized_length_from_bytes.
   The loop returns the state it stopped in together with the status, so that the pair count
   lft behind by a failing run is an output of the model. A failing step leaves the state
   as it was before the step. *)
Section BrMachine.
  Context {St : Type}.
  Variable on_atom : N -> bytes -> St -> res (St * bytes).   (* first byte, input after it *)
  Variable on_backref : bytes -> St -> res (St * bytes).     (* input after the 0xfe *)
  Variable on_cons : St -> res St.

  Fixpoint br_loop (fuel : nat) (ops : list parse_op) (st : St) (bs : bytes) : St * res bytes :=
    match fuel with
    | O => (st, Err OutOfFuel)
    | S f =>
        match ops with
        | [] => (st, Ok bs)
        | OpSExp :: ops' =>
            match bs with
            | [] => (st, Err SerializationError)
            | b :: r =>
                if b =? 0xff then br_loop f (OpSExp :: OpSExp :: OpCons :: ops') st r
                else if b =? 0xfe then
                  match on_backref r st with
                  | Ok (st', r') => br_loop f ops' st' r'
                  | Err e => (st, Err e)
                  end
                else
                  match on_atom b r st with
                  | Ok (st', r') => br_loop f ops' st' r'
                  | Err e => (st, Err e)
                  end
            end
        | OpCons :: ops' =>
            match on_cons st with
            | Ok st' => br_loop f ops' st' bs
            | Err e => (st, Err e)
            end
        end
    end.
End BrMachine.

(* outcome of a decoder run: pair count afterwards, and tree + remaining input or the error *)
Definition br_outcome := (N * res (sexp * bytes))%type.

(* ------------------------------------------------------------------ abstract stack decoder
   (proof device and executable cross-check: the stack is a list of trees, the counter is the
   number of pairs the legacy decoder allocates: one per push, two per cons) *)
Definition abs_state := (list sexp * N)%type.

Definition abs_on_atom (b : N) (r : bytes) (st : abs_state) : res (abs_state * bytes) :=
  let '(stk, c) := st in
  do '(a, r') <- read_atom_node b r; Ok ((a :: stk, c + 1), r').

Definition abs_on_backref (r : bytes) (st : abs_state) : res (abs_state * bytes) :=
  let '(stk, c) := st in
  do '(path, r1) <- parse_path r;
  do t <- backref_lookup path stk;
  Ok ((t :: stk, c + 1), r1).

Definition abs_on_cons (st : abs_state) : res abs_state :=
  let '(stk, c) := st in
  match stk with
  | rgt :: lft :: rest => Ok (Cons lft rgt :: rest, c + 2)
  | _ => Err (Panic 2)
  end.

Definition abs_loop := br_loop abs_on_atom abs_on_backref abs_on_cons.

Definition abs_finish (x : abs_state * res bytes) : br_outcome :=
  let '((stk, c), o) := x in
  (c, match o with
      | Err e => Err e
      | Ok rest => match stk with v :: _ => Ok (v, rest) | [] => Err (Panic 1) end
      end).

Definition de_br_abs (bs : bytes) : br_outcome :=
  abs_finish (abs_loop (de_fuel bs) [OpSExp] ([], 0) bs).

(* ------------------------------------------------------------------ legacy decoder:
   node_from_stream_backrefs_old. [values] is one CLVM list in the allocator. *)
Definition old_state := (sexp * N)%type.                   (* values, pair_vec.len() *)

Definition old_on_atom (b : N) (r : bytes) (st : old_state) : res (old_state * bytes) :=
  let '(values, p) := st in
  do '(a, r') <- read_atom_node b r;
  Ok ((Cons a values, p + 1), r').                          (* new_pair(new_atom, values) *)

Definition old_on_backref (r : bytes) (st : old_state) : res (old_state * bytes) :=
  let '(values, p) := st in
  do '(path, r1) <- parse_path r;
  do '(_, back_reference) <- traverse_path path values;
  Ok ((Cons back_reference values, p + 1), r1).

Definition old_on_cons (st : old_state) : res old_state :=
  let '(values, p) := st in
  match values with
  | Cons rgt rest =>
      match rest with
      | Cons lft rest' => Ok (Cons (Cons lft rgt) rest', p + 2)
      | Atom _ => Err (Panic 2)
      end
  | Atom _ => Err (Panic 2)
  end.

Definition old_loop := br_loop old_on_atom old_on_backref old_on_cons.

Definition old_finish (x : old_state * res bytes) : br_outcome :=
  let '((values, p), o) := x in
  (p, match o with
      | Err e => Err e
      | Ok rest => match values with Cons v1 _ => Ok (v1, rest) | Atom _ => Err (Panic 1) end
      end).

Definition node_from_stream_backrefs_old (bs : bytes) : br_outcome :=
  old_finish (old_loop (de_fuel bs) [OpSExp] (nil_s, 0) bs).

(* ------------------------------------------------------------------ current decoder:
   node_from_stream_backrefs with traverse_path_with_vec.
   The Vec is kept in push order (index i = nth i): entry = (value, cached stack list). *)
Definition vec := list (sexp * option sexp).

(* Vec::pop *)
Definition vpop {A} (l : list A) : option (A * list A) :=
  match rev l with
  | [] => None
  | x :: r => Some (x, rev r)
  end.

(* position of the walk: still on the Vec (arg_index) or inside a tree (sexp_to_parse) *)
Inductive wstate := WVec (arg_index : nat) | WSexp (t : sexp).

(* the bit loop of traverse_path_with_vec; the bits are consumed in the order of
   traverse_path (Path.path_bits: least significant first, below the sentinel bit) *)
Fixpoint walk_vec (bits : list bool) (args : vec) (w : wstate) : res wstate :=
  match bits with
  | [] => Ok w
  | bit :: r =>
      match w with
      | WSexp t =>
          match t with
          | Atom _ => Err SerializationBackrefError
          | Cons lft rgt => walk_vec r args (WSexp (if bit then rgt else lft))
          end
      | WVec i =>
          if bit then
            match i with
            | O => walk_vec r args (WSexp nil_s)           (* end of the stack: continue in NIL *)
            | S j => walk_vec r args (WVec j)
            end
          else
            match nth_error args i with
            | Some (v, _) => walk_vec r args (WSexp v)
            | None => Err (Panic 3)
            end
      end
  end.

(* the final loop: build (or reuse) the stack list of the first entries;
   [node] = backref_node so far. Returns the updated entries. *)
Fixpoint materialise (pre : vec) (node : sexp) (pairs ghost : N) : res (vec * sexp * N * N) :=
  match pre with
  | [] => Ok ([], node, pairs, ghost)
  | (v, Some cached) :: r =>
      do '(r', n', p', g') <- materialise r cached pairs ghost;
      Ok ((v, Some cached) :: r', n', p', g')
  | (v, None) :: r =>
      if ghost <? 1 then Err (Panic 4)                     (* remove_ghost_pair(1) *)
      else
        let node1 := Cons v node in                        (* new_pair(x.0, backref_node) *)
        do '(r', n', p', g') <- materialise r node1 (pairs + 1) (ghost - 1);
        Ok ((v, Some node1) :: r', n', p', g')
  end.

Definition traverse_path_with_vec (path : bytes) (args : vec) (pairs ghost : N)
  : res (sexp * vec * N * N) :=
  let start := match args with [] => WSexp nil_s | _ => WVec (length args - 1) end in
  if be_value path =? 0 then Ok (nil_s, args, pairs, ghost)   (* all-zero or empty path *)
  else
    do w <- walk_vec (path_bits path) args start;
    match w with
    | WSexp t => Ok (t, args, pairs, ghost)
    | WVec i =>
        do '(pre', node, p', g') <- materialise (firstn (S i) args) nil_s pairs ghost;
        Ok (node, pre' ++ skipn (S i) args, p', g')
    end.

Definition new_state := (vec * N * N)%type.                 (* values, pair_vec.len(), ghost_pairs *)

Definition new_on_atom (b : N) (r : bytes) (st : new_state) : res (new_state * bytes) :=
  let '(vals, p, g) := st in
  do '(a, r') <- read_atom_node b r;
  Ok ((vals ++ [(a, None)], p, g + 1), r').                 (* add_ghost_pair(1); push *)

Definition new_on_backref (r : bytes) (st : new_state) : res (new_state * bytes) :=
  let '(vals, p, g) := st in
  do '(path, r1) <- parse_path r;
  do '(back_reference, vals', p', g') <- traverse_path_with_vec path vals p g;
  Ok ((vals' ++ [(back_reference, None)], p', g' + 1), r1).

Definition new_on_cons (st : new_state) : res new_state :=
  let '(vals, p, g) := st in
  match vpop vals with
  | None => Err (Panic 2)
  | Some (rgt, vals1) =>
      match vpop vals1 with
      | None => Err (Panic 2)
      | Some (lft, vals2) =>
          Ok (vals2 ++ [(Cons (fst lft) (fst rgt), None)], p + 1, g + 1)
      end
  end.

Definition new_loop := br_loop new_on_atom new_on_backref new_on_cons.

Definition new_finish (x : new_state * res bytes) : br_outcome :=
  let '((vals, p, g), o) := x in
  (p + g, match o with
          | Err e => Err e
          | Ok rest => match vpop vals with Some (v, _) => Ok (fst v, rest) | None => Err (Panic 1) end
          end).

Definition node_from_stream_backrefs (bs : bytes) : br_outcome :=
  new_finish (new_loop (de_fuel bs) [OpSExp] ([], 0, 0) bs).

(* ------------------------------------------------------------------ tools.rs:
   serialized_length_from_bytes. A private allocator holds a shadow tree in which every atom is
   nil; back-references are validated against it. *)
Definition probe_on_atom (b : N) (r : bytes) (values : sexp) : res (sexp * bytes) :=
  if (b =? 0x80) || (b <=? 0x7f) then Ok (Cons nil_s values, r)
  else
    do '(size, r1) <- decode_size b r;
    match take_n size r1 with
    | None => Err SerializationError
    | Some (_, r2) => Ok (Cons nil_s values, r2)
    end.

Definition probe_on_backref (r : bytes) (values : sexp) : res (sexp * bytes) :=
  do '(path, r1) <- parse_path r;
  do '(_, back_reference) <- traverse_path path values;
  Ok (Cons back_reference values, r1).

Definition probe_on_cons (values : sexp) : res sexp :=
  match values with
  | Cons v1 v2 =>
      match v2 with
      | Cons v3 v4 => Ok (Cons (Cons v3 v1) v4)
      | Atom _ => Err SerializationError
      end
  | Atom _ => Err SerializationError
  end.

Definition probe_loop := br_loop probe_on_atom probe_on_backref probe_on_cons.

(* returns f.position() *)
Definition serialized_length_from_bytes (bs : bytes) : res N :=
  match probe_loop (de_fuel bs) [OpSExp] nil_s bs with
  | (_, Err e) => Err e
  | (values, Ok rest) =>
      match values with
      | Cons _ _ => Ok (blen bs - blen rest)
      | Atom _ => Err SerializationError
      end
  end.
