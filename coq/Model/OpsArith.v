(* more_ops.rs on the tree store: the cost constants and the arithmetic operators
   op_add op_subtract op_multiply op_div op_divmod op_mod op_modpow (+ the separately
   transcribed `_malachite` twins) and op_gr.

   Conventions (see also the header of OpsStr.v / OpsBits.v / OpsUnknown.v):
   * every operator has the Rust's name and the type [opfn]; the checks come in the Rust's order
     and [check_cost] is called exactly where the Rust calls it;
   * the `#[cfg(not(feature = "no-fastpath"))]` fast paths (u64/i64 accumulation in op_add /
     op_subtract, the Buffer/U32 split in op_multiply, small_number compare in op_gr, the
     precomputed table in op_sha256) compute the same function as the generic bignum path; the
     generic semantics is modelled once (the coordinator compares the separately built
     default / no-fastpath harness binaries, property C05);
   * on the tree store an atom IS its byte string, so `NodeVisitor::Buffer(buf)` and
     `NodeVisitor::U32(val)` are the same case: `buf.len()` = `len_for_value(val)` = [blen b] and
     `number_from_u8(buf)` = `val` = [int_of_bytes b] (small atoms are canonical encodings);
   * allocation failures (`new_number`, `new_atom`, `new_pair`, `new_concat`, `new_substr`
     returning OutOfMemory / TooManyAtoms / TooManyPairs) belong to the store, not to the
     operator model (the tree store has no limits);
   * u64 cost arithmetic: `checked_*` / `wrapping_mul` are modelled exactly (Model/U64.v);
     plain `+` / `*` are modelled on unbounded N here. They cannot wrap as long as every atom
     is shorter than 2^32 bytes and the running cost stays below 2^63 (each single increment is
     below 2^63 then: the largest is l0 * l1 < 2^64 / divider, resp. len * 13 < 2^36); the
     only operator whose u64 plain arithmetic is modelled with explicit [Overflow] outcomes is
     op_unknown (OpsUnknown.v), because property C09 is about exactly that arithmetic;
   * values are converted to integers only after the preceding [check_cost] succeeded (pure
     reordering; keeps the extracted model fast on multi-megabyte operands that exceed the
     budget). *)
From Clvm Require Export Model.OpUtils Model.U64.
Open Scope N_scope.

(* ---- constants (more_ops.rs:23-120), pinned against the source by Pins/C10.v ---- *)
Definition ARITH_BASE_COST : N := 99.
Definition ARITH_COST_PER_ARG : N := 320.
Definition ARITH_COST_PER_BYTE : N := 3.
Definition NEW_ARITH_COST_PER_ARG : N := 500.
Definition NEW_ARITH_COST_PER_BYTE : N := 4.
Definition LOG_BASE_COST : N := 100.
Definition LOG_COST_PER_ARG : N := 264.
Definition LOG_COST_PER_BYTE : N := 3.
Definition LOGNOT_BASE_COST : N := 331.
Definition LOGNOT_COST_PER_BYTE : N := 3.
Definition MUL_BASE_COST : N := 92.
Definition MUL_COST_PER_OP : N := 885.
Definition MUL_LINEAR_COST_PER_BYTE : N := 6.
Definition MUL_SQUARE_COST_PER_BYTE_DIVIDER : N := 128.
Definition NEW_MUL_BASE_COST : N := 2000.
Definition NEW_MUL_SQUARE_COST_PER_BYTE_DIVIDER : N := 16.
Definition GR_BASE_COST : N := 498.
Definition GR_COST_PER_BYTE : N := 2.
Definition NEW_GR_BASE_COST : N := 1000.
Definition NEW_GR_COST_PER_BYTE : N := 4.
Definition GRS_BASE_COST : N := 117.
Definition GRS_COST_PER_BYTE : N := 1.
Definition STRLEN_BASE_COST : N := 173.
Definition STRLEN_COST_PER_BYTE : N := 1.
Definition CONCAT_BASE_COST : N := 142.
Definition CONCAT_COST_PER_ARG : N := 135.
Definition CONCAT_COST_PER_BYTE : N := 3.
Definition DIVMOD_BASE_COST : N := 1116.
Definition DIVMOD_COST_PER_BYTE : N := 6.
Definition DIV_BASE_COST : N := 988.
Definition DIV_COST_PER_BYTE : N := 4.
Definition NEW_DIV_BASE_COST : N := 1000.
Definition NEW_DIV_LINEAR_COST_PER_BYTE : N := 50.
Definition NEW_DIV_SQUARE_COST_PER_BYTE_DIVIDER : N := 10.
Definition SHA256_BASE_COST : N := 87.
Definition SHA256_COST_PER_ARG : N := 134.
Definition SHA256_COST_PER_BYTE : N := 2.
Definition NEW_SHA256_BASE_COST : N := 1000.
Definition NEW_SHA256_COST_PER_ARG : N := 160.
Definition NEW_SHA256_COST_PER_BYTE : N := 6.
Definition ASHIFT_BASE_COST : N := 596.
Definition ASHIFT_COST_PER_BYTE : N := 3.
Definition LSHIFT_BASE_COST : N := 277.
Definition LSHIFT_COST_PER_BYTE : N := 3.
Definition BOOL_BASE_COST : N := 200.
Definition BOOL_COST_PER_ARG : N := 300.
Definition NEW_SUBSTR_COST : N := 2000.
Definition MODPOW_BASE_COST : N := 17000.
Definition MODPOW_COST_PER_BYTE_BASE_VALUE : N := 38.
Definition MODPOW_COST_PER_BYTE_EXPONENT : N := 3.
Definition MODPOW_COST_PER_BYTE_MOD : N := 21.
Definition NEW_MODPOW_PER_ITERATION_COST : N := 4000.
Definition NEW_MODPOW_EXPONENT_MULTIPLIER : N := 8.

(* `impl Limbs for Number`: bits().div_ceil(8), the magnitude bytes of |z| *)
Definition limbs (z : Z) : N := (N.size (Z.abs_N z) + 7) / 8.

(* malloc_cost *)
Definition malloc_cost (cost : N) (b : bytes) : N * sexp := (cost + blen b * MALLOC_COST_PER_BYTE, Atom b).

(* ---------------------------------------------------------------------------------------- *)
(* op_add (more_ops.rs:695). Generic path. Per argument: cost += per_arg; a pair is an error;
   cost += (new model: max(acc.limbs, len), old: len) * per_byte; check_cost; accumulate.
   No check after the malloc cost.

   Pre-hard-fork the Rust keeps three accumulators: acc[0], acc[1] (heap atoms, the index is
   chosen by rand::rng()) and small_acc (inline atoms); the result is their sum and the cost
   does not read them. [add_loop_split] models that with an oracle [orc i] in {0,1,2} for the
   i-th argument (covering both the random index and the atom representation);
   Proofs/OpsMoreLemmas.v proves it equal to the single-accumulator loop for every oracle, and
   the exported, deterministic [op_add] uses the single accumulator. Under NEW_COST_MODEL the
   Rust itself uses the single accumulator small_acc. *)
Fixpoint add_loop (ncm : bool) (per_arg per_byte : N) (args : sexp) (cost : N) (acc : Z)
    (max_cost : N) : res (N * Z) :=
  match args with
  | Atom _ => Ok (cost, acc)
  | Cons arg rest =>
      let cost := cost + per_arg in
      match arg with
      | Cons _ _ => bad_arg
      | Atom b =>
          let cost := cost + (if ncm then N.max (limbs acc) (blen b) else blen b) * per_byte in
          do _ <- check_cost cost max_cost;
          add_loop ncm per_arg per_byte rest cost (acc + int_of_bytes b)%Z max_cost
      end
  end.

(* old cost model only: three accumulators and an oracle *)
Fixpoint add_loop_split (orc : nat -> N) (i : nat) (per_arg per_byte : N) (args : sexp) (cost : N)
    (a0 a1 s : Z) (max_cost : N) : res (N * Z) :=
  match args with
  | Atom _ => Ok (cost, (a0 + a1 + s)%Z)
  | Cons arg rest =>
      let cost := cost + per_arg in
      match arg with
      | Cons _ _ => bad_arg
      | Atom b =>
          let cost := cost + blen b * per_byte in
          do _ <- check_cost cost max_cost;
          let v := int_of_bytes b in
          if orc i =? 0 then add_loop_split orc (S i) per_arg per_byte rest cost (a0 + v)%Z a1 s max_cost
          else if orc i =? 1 then add_loop_split orc (S i) per_arg per_byte rest cost a0 (a1 + v)%Z s max_cost
          else add_loop_split orc (S i) per_arg per_byte rest cost a0 a1 (s + v)%Z max_cost
      end
  end.

Definition arith_costs (f : flagset) : N * N * N :=
  if f_new_cost_model f then (ARITH_BASE_COST, NEW_ARITH_COST_PER_ARG, NEW_ARITH_COST_PER_BYTE)
  else (ARITH_BASE_COST, ARITH_COST_PER_ARG, ARITH_COST_PER_BYTE).

Definition op_add : opfn := fun f args max_cost =>
  let '(base_cost, cost_per_arg, cost_per_byte) := arith_costs f in
  do '(cost, total) <- add_loop (f_new_cost_model f) cost_per_arg cost_per_byte args base_cost 0%Z max_cost;
  Ok (malloc_cost cost (bytes_of_int total)).

Definition op_add_split (orc : nat -> N) : opfn := fun f args max_cost =>
  let '(base_cost, cost_per_arg, cost_per_byte) := arith_costs f in
  do '(cost, total) <-
    (if f_new_cost_model f
     then add_loop true cost_per_arg cost_per_byte args base_cost 0%Z max_cost
     else add_loop_split orc O cost_per_arg cost_per_byte args base_cost 0%Z 0%Z 0%Z max_cost);
  Ok (malloc_cost cost (bytes_of_int total)).

(* ---------------------------------------------------------------------------------------- *)
(* op_subtract (more_ops.rs:798). Generic path. Per argument: cost += per_arg; check_cost;
   pair -> error; cost += (...) * per_byte; check_cost; first argument is added, the others
   are subtracted. *)
Fixpoint sub_loop (ncm : bool) (per_arg per_byte : N) (args : sexp) (cost : N) (acc : Z)
    (is_first : bool) (max_cost : N) : res (N * Z) :=
  match args with
  | Atom _ => Ok (cost, acc)
  | Cons arg rest =>
      let cost := cost + per_arg in
      do _ <- check_cost cost max_cost;
      match arg with
      | Cons _ _ => bad_arg
      | Atom b =>
          let cost := cost + (if ncm then N.max (limbs acc) (blen b) else blen b) * per_byte in
          do _ <- check_cost cost max_cost;
          sub_loop ncm per_arg per_byte rest cost
            (if is_first then acc + int_of_bytes b else acc - int_of_bytes b)%Z false max_cost
      end
  end.

Fixpoint sub_loop_split (orc : nat -> N) (i : nat) (per_arg per_byte : N) (args : sexp) (cost : N)
    (a0 a1 s : Z) (is_first : bool) (max_cost : N) : res (N * Z) :=
  match args with
  | Atom _ => Ok (cost, (a0 + a1 + s)%Z)
  | Cons arg rest =>
      let cost := cost + per_arg in
      do _ <- check_cost cost max_cost;
      match arg with
      | Cons _ _ => bad_arg
      | Atom b =>
          let cost := cost + blen b * per_byte in
          do _ <- check_cost cost max_cost;
          let v := (if is_first then int_of_bytes b else - int_of_bytes b)%Z in
          if orc i =? 0 then sub_loop_split orc (S i) per_arg per_byte rest cost (a0 + v)%Z a1 s false max_cost
          else if orc i =? 1 then sub_loop_split orc (S i) per_arg per_byte rest cost a0 (a1 + v)%Z s false max_cost
          else sub_loop_split orc (S i) per_arg per_byte rest cost a0 a1 (s + v)%Z false max_cost
      end
  end.

Definition op_subtract : opfn := fun f args max_cost =>
  let '(base_cost, cost_per_arg, cost_per_byte) := arith_costs f in
  do '(cost, total) <- sub_loop (f_new_cost_model f) cost_per_arg cost_per_byte args base_cost 0%Z true max_cost;
  Ok (malloc_cost cost (bytes_of_int total)).

Definition op_subtract_split (orc : nat -> N) : opfn := fun f args max_cost =>
  let '(base_cost, cost_per_arg, cost_per_byte) := arith_costs f in
  do '(cost, total) <-
    (if f_new_cost_model f
     then sub_loop true cost_per_arg cost_per_byte args base_cost 0%Z true max_cost
     else sub_loop_split orc O cost_per_arg cost_per_byte args base_cost 0%Z 0%Z 0%Z true max_cost);
  Ok (malloc_cost cost (bytes_of_int total)).

(* ---------------------------------------------------------------------------------------- *)
(* op_multiply (more_ops.rs:942). First argument: int_atom; LIMITS && !new && l0 > 256 ->
   error; new model: cost += l0 * 6; check_cost. Every further argument: cost += 885; pair ->
   error; LIMITS && !new && l1 > 256 -> error; cost += (l0 + l1) * 6; cost += l0 * l1 / divider;
   check_cost; total *= n1; l0 = total.limbs(); LIMITS && !new && l0 > 1024 -> error. *)
Fixpoint mul_loop (limits ncm : bool) (square_divider : N) (args : sexp) (cost : N) (total : Z)
    (l0 : N) (max_cost : N) : res (N * Z) :=
  match args with
  | Atom _ => Ok (cost, total)
  | Cons arg rest =>
      let cost := cost + MUL_COST_PER_OP in
      match arg with
      | Cons _ _ => bad_arg
      | Atom b =>
          let l1 := blen b in
          if limits && negb ncm && (256 <? l1) then bad_arg
          else
            let cost := cost + (l0 + l1) * MUL_LINEAR_COST_PER_BYTE in
            let cost := cost + (l0 * l1) / square_divider in
            do _ <- check_cost cost max_cost;
            let total := (total * int_of_bytes b)%Z in
            let l0 := limbs total in
            if limits && negb ncm && (1024 <? l0) then bad_arg
            else mul_loop limits ncm square_divider rest cost total l0 max_cost
      end
  end.

Definition op_multiply : opfn := fun f args max_cost =>
  let ncm := f_new_cost_model f in
  let limits := f_limits f in
  let cost := if ncm then NEW_MUL_BASE_COST else MUL_BASE_COST in
  let square_divider :=
    if ncm then NEW_MUL_SQUARE_COST_PER_BYTE_DIVIDER else MUL_SQUARE_COST_PER_BYTE_DIVIDER in
  match args with
  | Atom _ => Ok (malloc_cost cost (bytes_of_int 1%Z))
  | Cons arg rest =>
      match arg with
      | Cons _ _ => bad_arg
      | Atom b =>
          let l0 := blen b in
          if limits && negb ncm && (256 <? l0) then bad_arg
          else
            do cost <- (if ncm then
                          let cost := cost + l0 * MUL_LINEAR_COST_PER_BYTE in
                          do _ <- check_cost cost max_cost; Ok cost
                        else Ok cost);
            do '(cost, total) <- mul_loop limits ncm square_divider rest cost (int_of_bytes b) l0 max_cost;
            Ok (malloc_cost cost (bytes_of_int total))
      end
  end.

(* ---------------------------------------------------------------------------------------- *)
(* compute_new_div_cost (more_ops.rs:122): plain `+`/`*` for the linear part, checked_mul for
   the square term *)
Definition compute_new_div_cost (a0_len a1_len : N) : res N :=
  let cost := NEW_DIV_BASE_COST in
  let cost := cost + (a0_len + a1_len) * NEW_DIV_LINEAR_COST_PER_BYTE in
  do square_term <- ok_or_cost (checked_mul a0_len a1_len);
  Ok (cost + square_term / NEW_DIV_SQUARE_COST_PER_BYTE_DIVIDER).

(* compute_modpow_cost (more_ops.rs:131): the new model is all checked_*; the old model plain *)
Definition compute_modpow_cost (bsize esize msize : N) (new_cost_model : bool) : res N :=
  let cost := MODPOW_BASE_COST in
  if new_cost_model then
    let m := msize in
    do e8 <- ok_or_cost (checked_mul esize NEW_MODPOW_EXPONENT_MULTIPLIER);
    do mm <- ok_or_cost (checked_mul m m);
    do mm4 <- ok_or_cost (checked_add mm NEW_MODPOW_PER_ITERATION_COST);
    do t <- ok_or_cost (checked_mul e8 mm4);
    do cost <- ok_or_cost (checked_add cost t);
    do bm <- ok_or_cost (checked_mul bsize m);
    ok_or_cost (checked_add cost bm)
  else
    let cost := cost + bsize * MODPOW_COST_PER_BYTE_BASE_VALUE in
    let cost := cost + (esize * esize) * MODPOW_COST_PER_BYTE_EXPONENT in
    let cost := cost + (msize * msize) * MODPOW_COST_PER_BYTE_MOD in
    Ok cost.

(* modpow by square-and-multiply over the bits of the exponent, reducing after every step;
   equal to (b ^ e) mod m with Coq's floor modulus (lemma modpow_spec): num-bigint's
   BigInt::modpow gives the result the sign of the modulus, like mod_floor *)
Fixpoint modpow_pos (b : Z) (e : positive) (m : Z) : Z :=
  match e with
  | xH => (b mod m)%Z
  | xO e' => let r := modpow_pos b e' m in ((r * r) mod m)%Z
  | xI e' => let r := modpow_pos b e' m in ((((r * r) mod m) * b) mod m)%Z
  end.
Definition modpow (b e m : Z) : Z :=
  match e with
  | Z0 => (1 mod m)%Z
  | Zpos p => modpow_pos b p m
  | Zneg _ => 0%Z    (* never called: a negative exponent is rejected before *)
  end.

(* the common operand-size rules of div / divmod / mod (DISABLE_OP: dividend > 2048 bytes;
   LIMITS: dividend > 256 or divisor > 1024; both only pre-hard-fork) — used by specifications,
   the operators below spell the tests out as the Rust does *)
Definition div_size_ok (f : flagset) (a0_len a1_len : N) : bool :=
  negb (f_disable_op f && negb (f_new_cost_model f) && (2048 <? a0_len)) &&
  negb (f_limits f && negb (f_new_cost_model f) && ((256 <? a0_len) || (1024 <? a1_len))).

(* int_atom without building the number yet: pair -> error; (bytes, atom length). The callers
   build the number after check_cost. *)
Definition int_atom_lazy (t : sexp) : res (bytes * N) :=
  match t with Atom b => Ok (b, blen b) | Cons _ _ => bad_arg end.

(* ---- the num-bigint transcriptions: Number = Z, div_floor = Z.div, mod_floor = Z.modulo ---- *)

(* op_div (more_ops.rs:1033), the part after the backend switch *)
Definition op_div_num : opfn := fun f args max_cost =>
  do '(v0, v1) <- get_args2 args;
  do '(b0, a0_len) <- int_atom_lazy v0;
  do '(b1, a1_len) <- int_atom_lazy v1;
  if f_disable_op f && negb (f_new_cost_model f) && (2048 <? a0_len) then bad_arg
  else if f_limits f && negb (f_new_cost_model f) && ((256 <? a0_len) || (1024 <? a1_len)) then bad_arg
  else
    do cost <- (if f_new_cost_model f then compute_new_div_cost a0_len a1_len
                else Ok (DIV_BASE_COST + (a0_len + a1_len) * DIV_COST_PER_BYTE));
    do _ <- check_cost cost max_cost;
    let a1 := int_of_bytes b1 in
    if (a1 =? 0)%Z then Err DivisionByZero
    else
      let q := (int_of_bytes b0 / a1)%Z in
      Ok (malloc_cost cost (bytes_of_int q)).

(* op_divmod (:1106) *)
Definition op_divmod_num : opfn := fun f args max_cost =>
  do '(v0, v1) <- get_args2 args;
  do '(b0, a0_len) <- int_atom_lazy v0;
  do '(b1, a1_len) <- int_atom_lazy v1;
  if f_disable_op f && negb (f_new_cost_model f) && (2048 <? a0_len) then bad_arg
  else if f_limits f && negb (f_new_cost_model f) && ((256 <? a0_len) || (1024 <? a1_len)) then bad_arg
  else
    do cost <- (if f_new_cost_model f then compute_new_div_cost a0_len a1_len
                else Ok (DIVMOD_BASE_COST + (a0_len + a1_len) * DIVMOD_COST_PER_BYTE));
    do _ <- check_cost cost max_cost;
    let a1 := int_of_bytes b1 in
    if (a1 =? 0)%Z then Err DivisionByZero
    else
      let a0 := int_of_bytes b0 in
      let q1 := bytes_of_int (a0 / a1)%Z in
      let r1 := bytes_of_int (a0 mod a1)%Z in
      let c := (blen q1 + blen r1) * MALLOC_COST_PER_BYTE in
      Ok (cost + c, Cons (Atom q1) (Atom r1)).

(* op_mod (:1187) *)
Definition op_mod_num : opfn := fun f args max_cost =>
  do '(v0, v1) <- get_args2 args;
  do '(b0, a0_len) <- int_atom_lazy v0;
  do '(b1, a1_len) <- int_atom_lazy v1;
  if f_disable_op f && negb (f_new_cost_model f) && (2048 <? a0_len) then bad_arg
  else if f_limits f && negb (f_new_cost_model f) && ((256 <? a0_len) || (1024 <? a1_len)) then bad_arg
  else
    do cost <- (if f_new_cost_model f then compute_new_div_cost a0_len a1_len
                else Ok (DIV_BASE_COST + (a0_len + a1_len) * DIV_COST_PER_BYTE));
    do _ <- check_cost cost max_cost;
    let a1 := int_of_bytes b1 in
    if (a1 =? 0)%Z then Err DivisionByZero
    else
      let q := bytes_of_int (int_of_bytes b0 mod a1)%Z in
      let c := blen q * MALLOC_COST_PER_BYTE in
      Ok (cost + c, Atom q).

(* op_modpow (:1707): the cost is computed and checked BEFORE the LIMITS size rule *)
Definition op_modpow_num : opfn := fun f args max_cost =>
  let new_cost_model := f_new_cost_model f in
  do '(base, exponent, modulus) <- get_args3 args;
  do '(bb, bsize) <- int_atom_lazy base;
  do '(eb, esize) <- int_atom_lazy exponent;
  do '(mb, msize) <- int_atom_lazy modulus;
  do cost <- compute_modpow_cost bsize esize msize new_cost_model;
  do _ <- check_cost cost max_cost;
  if f_limits f && negb new_cost_model && ((256 <? bsize) || (256 <? esize) || (256 <? msize)) then bad_arg
  else
    let e := int_of_bytes eb in
    if (e <? 0)%Z then bad_arg
    else
      let m := int_of_bytes mb in
      if (m =? 0)%Z then Err DivisionByZero
      else
        let ret := modpow (int_of_bytes bb) e m in
        Ok (malloc_cost cost (bytes_of_int ret)).

(* ---- the malachite transcriptions, over what the wrappers ask of the second library ---- *)
Record bigint_lib := {
  bl_of_bytes : bytes -> Z;          (* malachite_number_from_u8 (Buffer) / val.into() (U32) *)
  bl_to_bytes : Z -> bytes;          (* new_malachite_number: minimal two's-complement bytes *)
  bl_is_zero : Z -> bool;            (* sign() == malachite_bigint::Sign::NoSign *)
  bl_is_neg : Z -> bool;             (* sign() == malachite_bigint::Sign::Minus *)
  bl_div_floor : Z -> Z -> Z;
  bl_mod_floor : Z -> Z -> Z;
  bl_modpow : Z -> Z -> Z -> Z
}.

Section Malachite.
  Variable L : bigint_lib.

  (* malachite_int_atom (op_utils.rs:269): Buffer -> (number, buf.len()); U32 ->
     (val, len_for_value(val)); pair -> error *)
  Definition malachite_int_atom_lazy (t : sexp) : res (bytes * N) :=
    match t with Cons _ _ => bad_arg | Atom b => Ok (b, blen b) end.

  (* op_div_malachite (more_ops.rs:1068) *)
  Definition op_div_malachite_with : opfn := fun f args max_cost =>
    do '(v0, v1) <- get_args2 args;
    do '(b0, a0_len) <- malachite_int_atom_lazy v0;
    do '(b1, a1_len) <- malachite_int_atom_lazy v1;
    if f_disable_op f && negb (f_new_cost_model f) && (2048 <? a0_len) then bad_arg
    else if f_limits f && negb (f_new_cost_model f) && ((256 <? a0_len) || (1024 <? a1_len)) then bad_arg
    else
      do cost <- (if f_new_cost_model f then compute_new_div_cost a0_len a1_len
                  else Ok (DIV_BASE_COST + (a0_len + a1_len) * DIV_COST_PER_BYTE));
      do _ <- check_cost cost max_cost;
      let a1 := bl_of_bytes L b1 in
      if bl_is_zero L a1 then Err DivisionByZero
      else
        let q := bl_div_floor L (bl_of_bytes L b0) a1 in
        Ok (malloc_cost cost (bl_to_bytes L q)).

  (* op_divmod_malachite (:1145) *)
  Definition op_divmod_malachite_with : opfn := fun f args max_cost =>
    do '(v0, v1) <- get_args2 args;
    do '(b0, a0_len) <- malachite_int_atom_lazy v0;
    do '(b1, a1_len) <- malachite_int_atom_lazy v1;
    if f_disable_op f && negb (f_new_cost_model f) && (2048 <? a0_len) then bad_arg
    else if f_limits f && negb (f_new_cost_model f) && ((256 <? a0_len) || (1024 <? a1_len)) then bad_arg
    else
      do cost <- (if f_new_cost_model f then compute_new_div_cost a0_len a1_len
                  else Ok (DIVMOD_BASE_COST + (a0_len + a1_len) * DIVMOD_COST_PER_BYTE));
      do _ <- check_cost cost max_cost;
      let a1 := bl_of_bytes L b1 in
      if bl_is_zero L a1 then Err DivisionByZero
      else
        let a0 := bl_of_bytes L b0 in
        let q1 := bl_to_bytes L (bl_div_floor L a0 a1) in
        let r1 := bl_to_bytes L (bl_mod_floor L a0 a1) in
        let c := (blen q1 + blen r1) * MALLOC_COST_PER_BYTE in
        Ok (cost + c, Cons (Atom q1) (Atom r1)).

  (* op_mod_malachite (:1222) *)
  Definition op_mod_malachite_with : opfn := fun f args max_cost =>
    do '(v0, v1) <- get_args2 args;
    do '(b0, a0_len) <- malachite_int_atom_lazy v0;
    do '(b1, a1_len) <- malachite_int_atom_lazy v1;
    if f_disable_op f && negb (f_new_cost_model f) && (2048 <? a0_len) then bad_arg
    else if f_limits f && negb (f_new_cost_model f) && ((256 <? a0_len) || (1024 <? a1_len)) then bad_arg
    else
      do cost <- (if f_new_cost_model f then compute_new_div_cost a0_len a1_len
                  else Ok (DIV_BASE_COST + (a0_len + a1_len) * DIV_COST_PER_BYTE));
      do _ <- check_cost cost max_cost;
      let a1 := bl_of_bytes L b1 in
      if bl_is_zero L a1 then Err DivisionByZero
      else
        let q := bl_to_bytes L (bl_mod_floor L (bl_of_bytes L b0) a1) in
        let c := blen q * MALLOC_COST_PER_BYTE in
        Ok (cost + c, Atom q).

  (* op_modpow_malachite (:1744) *)
  Definition op_modpow_malachite_with : opfn := fun f args max_cost =>
    let new_cost_model := f_new_cost_model f in
    do '(base, exponent, modulus) <- get_args3 args;
    do '(bb, bsize) <- malachite_int_atom_lazy base;
    do '(eb, esize) <- malachite_int_atom_lazy exponent;
    do '(mb, msize) <- malachite_int_atom_lazy modulus;
    do cost <- compute_modpow_cost bsize esize msize new_cost_model;
    do _ <- check_cost cost max_cost;
    if f_limits f && negb new_cost_model && ((256 <? bsize) || (256 <? esize) || (256 <? msize)) then bad_arg
    else
      let e := bl_of_bytes L eb in
      if bl_is_neg L e then bad_arg
      else
        let m := bl_of_bytes L mb in
        if bl_is_zero L m then Err DivisionByZero
        else
          let ret := bl_modpow L (bl_of_bytes L bb) e m in
          Ok (malloc_cost cost (bl_to_bytes L ret)).
End Malachite.

(* malachite computes the same integer functions (this is what the correspondence run with the
   MALACHITE flag tests; C06's general theorem takes it as the explicit premise lib_ok) *)
Definition malachite_lib : bigint_lib := {|
  bl_of_bytes := int_of_bytes;
  bl_to_bytes := bytes_of_int;
  bl_is_zero := fun z => (z =? 0)%Z;
  bl_is_neg := fun z => (z <? 0)%Z;
  bl_div_floor := Z.div;
  bl_mod_floor := Z.modulo;
  bl_modpow := modpow |}.

Definition op_div_malachite : opfn := op_div_malachite_with malachite_lib.
Definition op_divmod_malachite : opfn := op_divmod_malachite_with malachite_lib.
Definition op_mod_malachite : opfn := op_mod_malachite_with malachite_lib.
Definition op_modpow_malachite : opfn := op_modpow_malachite_with malachite_lib.

(* the backend switch: `if flags.contains(ClvmFlags::MALACHITE) { return op_x_malachite(..) }` *)
Definition op_div : opfn := fun f args max_cost =>
  if f_malachite f then op_div_malachite f args max_cost else op_div_num f args max_cost.
Definition op_divmod : opfn := fun f args max_cost =>
  if f_malachite f then op_divmod_malachite f args max_cost else op_divmod_num f args max_cost.
Definition op_mod : opfn := fun f args max_cost =>
  if f_malachite f then op_mod_malachite f args max_cost else op_mod_num f args max_cost.
Definition op_modpow : opfn := fun f args max_cost =>
  if f_malachite f then op_modpow_malachite f args max_cost else op_modpow_num f args max_cost.

(* ---------------------------------------------------------------------------------------- *)
(* op_gr (more_ops.rs:1257): get_args first, then both int_atom; no check_cost *)
Definition op_gr : opfn := fun f args _ =>
  do '(v0, v1) <- get_args2 args;
  let '(base_cost, cost_per_byte) :=
    if f_new_cost_model f then (NEW_GR_BASE_COST, NEW_GR_COST_PER_BYTE)
    else (GR_BASE_COST, GR_COST_PER_BYTE) in
  do '(n0, v0_len) <- int_atom v0;
  do '(n1, v1_len) <- int_atom v1;
  let cost := base_cost + (v0_len + v1_len) * cost_per_byte in
  Ok (cost, if (n1 <? n0)%Z then one_s else nil_s).
