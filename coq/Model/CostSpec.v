(* C10: the documented cost of every operator, one formula per operator and cost model,
   transcribed FROM THE DOCUMENTS (docs/cost-model.md, docs/sha256tree.md) and the constant
   blocks of more_ops.rs / core_ops.rs / treehash.rs — not from the operator code.

   A formula reads: the argument SIZES (atom lengths, leading zeros included), accumulator
   MAGNITUDES ([limbs] of the running value) and the RESULT size (every operator that allocates
   its result pays MALLOC_COST_PER_BYTE per result byte). Where docs/cost-model.md says
   "magnitude" of an ARGUMENT (add/multiply/divmod/modpow sections) the in-code documentation
   (more_ops.rs:691-694, 1030-1032: "argument sizes use the raw atom length") and the property
   statement ("argument sizes, accumulator magnitudes and result size") are followed: arguments
   count with their atom length. Where the document is unambiguous and the code differs
   (logand/logior/logxor under NEW_COST_MODEL, finding F5) the document is transcribed.

   spec_X f args v: the cost of a successful call of op_X under flags f on the argument list
   args with result v. *)
From Clvm Require Export Model.OpsCore Model.OpsArith Model.OpsStr Model.OpsBits.
Open Scope N_scope.

(* the atoms of an argument list *)
Fixpoint arg_atoms (args : sexp) : list bytes :=
  match args with
  | Cons (Atom b) r => b :: arg_atoms r
  | Cons (Cons _ _) r => arg_atoms r
  | Atom _ => []
  end.

Definition sum_lens (bs : list bytes) : N := fold_right (fun b s => blen b + s) 0 bs.
Definition n_args (args : sexp) : N := N.of_nat (length (arg_list args)).

Definition result_len (v : sexp) : N := match v with Atom b => blen b | Cons _ _ => 0 end.
Definition malloc (v : sexp) : N := result_len v * MALLOC_COST_PER_BYTE.

(* ---- add / subtract ----
   old: BASE + n_args * PER_ARG + sum(atom_len) * PER_BYTE
   new: BASE + sum over each argument: PER_ARG + max(accumulator.limbs, arg size) * PER_BYTE *)
Fixpoint new_arith_steps (sub : bool) (bs : list bytes) (acc : Z) (is_first : bool) : N :=
  match bs with
  | [] => 0
  | b :: r =>
      NEW_ARITH_COST_PER_ARG + N.max (limbs acc) (blen b) * NEW_ARITH_COST_PER_BYTE
      + new_arith_steps sub r
          (if sub && negb is_first then acc - int_of_bytes b else acc + int_of_bytes b)%Z false
  end.

Definition spec_arith (sub : bool) (f : flagset) (args v : sexp) : N :=
  let bs := arg_atoms args in
  (if f_new_cost_model f then ARITH_BASE_COST + new_arith_steps sub bs 0%Z true
   else ARITH_BASE_COST + n_args args * ARITH_COST_PER_ARG + sum_lens bs * ARITH_COST_PER_BYTE)
  + malloc v.
Definition spec_add := spec_arith false.
Definition spec_subtract := spec_arith true.

(* ---- multiply ----
   BASE (+ new: first_arg size * LINEAR) + sum over each subsequent (accumulator, arg):
   PER_OP + (l0 + l1) * LINEAR + (l0 * l1) / DIVIDER; l0 = the first argument's size for the
   first product, afterwards the accumulator's magnitude *)
Fixpoint mul_steps (divider : N) (bs : list bytes) (total : Z) (l0 : N) : N :=
  match bs with
  | [] => 0
  | b :: r =>
      let l1 := blen b in
      let total := (total * int_of_bytes b)%Z in
      MUL_COST_PER_OP + (l0 + l1) * MUL_LINEAR_COST_PER_BYTE + (l0 * l1) / divider
      + mul_steps divider r total (limbs total)
  end.

Definition spec_multiply (f : flagset) (args v : sexp) : N :=
  (match arg_atoms args with
   | [] => if f_new_cost_model f then NEW_MUL_BASE_COST else MUL_BASE_COST
   | b :: r =>
       if f_new_cost_model f then
         NEW_MUL_BASE_COST + blen b * MUL_LINEAR_COST_PER_BYTE
         + mul_steps NEW_MUL_SQUARE_COST_PER_BYTE_DIVIDER r (int_of_bytes b) (blen b)
       else MUL_BASE_COST + mul_steps MUL_SQUARE_COST_PER_BYTE_DIVIDER r (int_of_bytes b) (blen b)
   end) + malloc v.

(* ---- div / divmod / mod ----
   old: BASE + (a0 + a1) * PER_BYTE; new (all three): DIV_BASE + (a0 + a1) * LINEAR + a0 * a1 / DIVIDER *)
Definition two_lens (args : sexp) : N * N :=
  match arg_atoms args with a :: b :: _ => (blen a, blen b) | _ => (0, 0) end.

Definition spec_div_family (old_base old_per_byte : N) (f : flagset) (args : sexp) : N :=
  let '(a0, a1) := two_lens args in
  if f_new_cost_model f then
    NEW_DIV_BASE_COST + (a0 + a1) * NEW_DIV_LINEAR_COST_PER_BYTE + (a0 * a1) / NEW_DIV_SQUARE_COST_PER_BYTE_DIVIDER
  else old_base + (a0 + a1) * old_per_byte.

Definition spec_div (f : flagset) (args v : sexp) : N :=
  spec_div_family DIV_BASE_COST DIV_COST_PER_BYTE f args + malloc v.
Definition spec_mod (f : flagset) (args v : sexp) : N :=
  spec_div_family DIV_BASE_COST DIV_COST_PER_BYTE f args + malloc v.
Definition spec_divmod (f : flagset) (args v : sexp) : N :=
  spec_div_family DIVMOD_BASE_COST DIVMOD_COST_PER_BYTE f args
  + match v with Cons q r => (result_len q + result_len r) * MALLOC_COST_PER_BYTE | Atom _ => 0 end.

(* ---- modpow ----
   old: BASE + b * 38 + e^2 * 3 + m^2 * 21
   new: BASE + e * EXPONENT_MULTIPLIER * (m^2 + PER_ITERATION_COST) + b * m *)
Definition spec_modpow (f : flagset) (args v : sexp) : N :=
  (match arg_atoms args with
   | bb :: eb :: mb :: _ =>
       let b := blen bb in let e := blen eb in let m := blen mb in
       if f_new_cost_model f then
         MODPOW_BASE_COST + e * NEW_MODPOW_EXPONENT_MULTIPLIER * (m * m + NEW_MODPOW_PER_ITERATION_COST) + b * m
       else MODPOW_BASE_COST + b * MODPOW_COST_PER_BYTE_BASE_VALUE + e * e * MODPOW_COST_PER_BYTE_EXPONENT
            + m * m * MODPOW_COST_PER_BYTE_MOD
   | _ => 0
   end) + malloc v.

(* ---- > and >s : base + (len0 + len1) * per_byte; no allocation ---- *)
Definition spec_gr (f : flagset) (args v : sexp) : N :=
  let '(l0, l1) := two_lens args in
  if f_new_cost_model f then NEW_GR_BASE_COST + (l0 + l1) * NEW_GR_COST_PER_BYTE
  else GR_BASE_COST + (l0 + l1) * GR_COST_PER_BYTE.
Definition spec_gr_bytes (f : flagset) (args v : sexp) : N :=
  let '(l0, l1) := two_lens args in GRS_BASE_COST + (l0 + l1) * GRS_COST_PER_BYTE.

(* ---- strlen, substr, concat ---- *)
Definition spec_strlen (f : flagset) (args v : sexp) : N :=
  STRLEN_BASE_COST + sum_lens (firstn 1 (arg_atoms args)) * STRLEN_COST_PER_BYTE + malloc v.
Definition spec_substr (f : flagset) (args v : sexp) : N :=
  if f_new_cost_model f then NEW_SUBSTR_COST else 1.
Definition spec_concat (f : flagset) (args v : sexp) : N :=
  CONCAT_BASE_COST + n_args args * CONCAT_COST_PER_ARG + sum_lens (arg_atoms args) * CONCAT_COST_PER_BYTE
  + malloc v.

(* ---- shifts: base + (argument size + result magnitude) * per_byte ---- *)
Definition spec_shift (base per_byte : N) (args v : sexp) : N :=
  let l0 := sum_lens (firstn 1 (arg_atoms args)) in
  let l1 := match v with Atom b => limbs (int_of_bytes b) | Cons _ _ => 0 end in
  base + (l0 + l1) * per_byte + malloc v.
Definition spec_ash (f : flagset) (args v : sexp) : N := spec_shift ASHIFT_BASE_COST ASHIFT_COST_PER_BYTE args v.
Definition spec_lsh (f : flagset) (args v : sexp) : N := spec_shift LSHIFT_BASE_COST LSHIFT_COST_PER_BYTE args v.

(* ---- logand / logior / logxor ----
   BASE + n_args * PER_ARG + effective_bytes * PER_BYTE. old: effective = sum of atom lengths.
   new (docs/cost-model.md): the first argument is charged its own atom_len; a later argument
   is charged max(atom_len, accumulator.limbs) when accumulator and argument have different
   signs, else atom_len. *)
Definition negz (z : Z) : bool := (z <? 0)%Z.
Fixpoint new_logic_bytes (op_f : Z -> Z -> Z) (bs : list bytes) (acc : Z) (is_first : bool) : N :=
  match bs with
  | [] => 0
  | b :: r =>
      let n0 := int_of_bytes b in
      (if is_first then blen b
       else if Bool.eqb (negz acc) (negz n0) then blen b else N.max (blen b) (limbs acc))
      + new_logic_bytes op_f r (op_f acc n0) false
  end.

Definition spec_logic (initial : Z) (op_f : Z -> Z -> Z) (f : flagset) (args v : sexp) : N :=
  let bs := arg_atoms args in
  LOG_BASE_COST + n_args args * LOG_COST_PER_ARG
  + (if f_new_cost_model f then new_logic_bytes op_f bs initial true else sum_lens bs) * LOG_COST_PER_BYTE
  + malloc v.
Definition spec_logand := spec_logic (-1)%Z Z.land.
Definition spec_logior := spec_logic 0%Z Z.lor.
Definition spec_logxor := spec_logic 0%Z Z.lxor.

(* what the code charges instead (binop_reduction): always max(atom_len, accumulator.limbs) *)
Fixpoint code_logic_bytes (op_f : Z -> Z -> Z) (bs : list bytes) (acc : Z) : N :=
  match bs with
  | [] => 0
  | b :: r => N.max (blen b) (limbs acc) + code_logic_bytes op_f r (op_f acc (int_of_bytes b))
  end.

(* the class on which document and code agree under the new model (outside: finding F5) *)
Definition logic_docs_agree (initial : Z) (op_f : Z -> Z -> Z) (f : flagset) (args : sexp) : Prop :=
  f_new_cost_model f = true ->
  new_logic_bytes op_f (arg_atoms args) initial true = code_logic_bytes op_f (arg_atoms args) initial.

Definition spec_lognot (f : flagset) (args v : sexp) : N :=
  LOGNOT_BASE_COST + sum_lens (firstn 1 (arg_atoms args)) * LOGNOT_COST_PER_BYTE + malloc v.

(* ---- not / any / all ---- *)
Definition spec_not (f : flagset) (args v : sexp) : N := BOOL_BASE_COST.
Definition spec_any (f : flagset) (args v : sexp) : N := BOOL_BASE_COST + n_args args * BOOL_COST_PER_ARG.
Definition spec_all := spec_any.

(* ---- sha256: base + n_args * per_arg + total_bytes * per_byte (+ 32 result bytes) ---- *)
Definition spec_sha256 (f : flagset) (args v : sexp) : N :=
  (if f_new_cost_model f then
     NEW_SHA256_BASE_COST + n_args args * NEW_SHA256_COST_PER_ARG + sum_lens (arg_atoms args) * NEW_SHA256_COST_PER_BYTE
   else SHA256_BASE_COST + n_args args * SHA256_COST_PER_ARG + sum_lens (arg_atoms args) * SHA256_COST_PER_BYTE)
  + malloc v.

(* ---- sha256tree (docs/sha256tree.md): base + per pair + per byte over the fully expanded
   tree (every atom is hashed with a one-byte prefix) + the 32-byte result ---- *)
Fixpoint tree_pairs (t : sexp) : N :=
  match t with Atom _ => 0 | Cons l r => 1 + tree_pairs l + tree_pairs r end.
Fixpoint tree_atom_bytes (t : sexp) : N :=
  match t with Atom b => blen b + 1 | Cons l r => tree_atom_bytes l + tree_atom_bytes r end.

Definition spec_sha256_tree (f : flagset) (args v : sexp) : N :=
  match args with
  | Cons t _ =>
      SHA256TREE_BASE_COST + SHA256TREE_PAIR_COST * tree_pairs t
      + (if f_new_cost_model f then NEW_SHA256TREE_COST_PER_BYTE else SHA256TREE_COST_PER_BYTE) * tree_atom_bytes t
      + MALLOC_COST_PER_BYTE * 32
  | Atom _ => 0
  end.

(* ---- core operators: flat costs, eq per byte ---- *)
Definition spec_if (f : flagset) (args v : sexp) : N := if f_new_cost_model f then NEW_IF_COST else IF_COST.
Definition spec_cons (f : flagset) (args v : sexp) : N := CONS_COST.
Definition spec_first (f : flagset) (args v : sexp) : N := FIRST_COST.
Definition spec_rest (f : flagset) (args v : sexp) : N := REST_COST.
Definition spec_listp (f : flagset) (args v : sexp) : N := if f_new_cost_model f then NEW_LISTP_COST else LISTP_COST.
Definition spec_eq (f : flagset) (args v : sexp) : N :=
  let '(l0, l1) := two_lens args in EQ_BASE_COST + (l0 + l1) * EQ_COST_PER_BYTE.
