(* Model of src/serde_2026/{mod,ser,de,strategy}.rs (the varint codec is Model/Varint.v).
   Executable definitions only.

   Conventions. A reader (Cursor / impl Read) is the list of bytes that remain. i64 / usize values
   are Z (usize is 64 bits wide); every checked conversion of the Rust is written out.  Rust panic
   sites are explicit [Err (Panic n)]:
     20  varint_size's panic! inside read_varint (strict)
     21, 22  the two stack.pop().unwrap() of a cons instruction
     23  stack[0]
     10  write_varint's panic!("Value too large to encode")
     11  HashMap index state.atom_remap[&idx]        12  state.pairs[pi] / unreachable!() arms
     13  tree.atoms[old_idx]
   The counted loops `for _ in 0..n` run over a count that comes from the input (up to 2^55): they
   are modelled by [count_loop] with explicit fuel; every iteration consumes at least one input byte,
   so fuel = 1 + remaining input always suffices (Proofs/S2026Proofs.v) and n is never converted
   to nat.  Decoded values: the decoder is generic in the value algebra (V, mk_atom, mk_pair) — the
   allocator and its limits are outside the model; theorems use V = sexp. *)
From Clvm Require Export Model.Err Model.Sexp Model.Varint Model.Intern.
Local Open Scope Z_scope.

Definition magic : bytes := [0xfd; 0xff; 0x32; 0x30; 0x32; 0x36]%N.
Definition usize_max : Z := 18446744073709551615.
Definition i64_min : Z := -9223372036854775808.
Definition max_index : Z := 2147483647.                  (* MAX_INDEX = i32::MAX *)

(* read_varint(reader, strict)? *)
Definition rv (strict : bool) (bs : bytes) : res (Z * bytes) :=
  match read_varint strict bs with
  | VOk v r => Ok (v, r)
  | VErr => Err SerializationError
  | VPanic => Err (Panic 20)
  end.

Definition checked_usize (v : Z) : res Z :=
  if v <? 0 then Err SerializationError
  else if usize_max <? v then Err SerializationError else Ok v.

Definition checked_bounded_usize (v max : Z) : res Z :=
  do u <- checked_usize v; if max <? u then Err SerializationError else Ok u.

Section CountLoop.
  Context {S : Type}.
  Variable step : S -> bytes -> res (S * bytes).
  (* for _ in 0..n { step } *)
  Fixpoint count_loop (fuel : nat) (n : Z) (s : S) (bs : bytes) : res (S * bytes) :=
    if n <=? 0 then Ok (s, bs)
    else match fuel with
         | O => Err OutOfFuel
         | Datatypes.S f => do '(s', bs') <- step s bs; count_loop f (n - 1) s' bs'
         end.
End CountLoop.

(* the (length, count) header of one atom group; [len] is the argument of buf.resize(len, 0),
   the only allocation whose size is read from the input *)
Definition read_group_header (strict : bool) (max_atom_len : Z) (bs : bytes) : res (Z * Z * bytes) :=
  do '(length_val, r1) <- rv strict bs;
  do '(len, count, r2) <-
    (if length_val <? 0 then
       if length_val =? i64_min then Err SerializationError
       else
         do len <- checked_bounded_usize (- length_val) max_atom_len;
         do '(c, r2) <- rv strict r1;
         do count <- checked_usize c;
         Ok (len, count, r2)
     else
       do len <- checked_bounded_usize length_val max_atom_len; Ok (len, 1, r1));
  if (len =? 0) || (count =? 0) then Err SerializationError else Ok (len, count, r2).

Definition lt2 {A} (l : list A) : bool := match l with _ :: _ :: _ => false | _ => true end.
Definition pop {A} (l : list A) : option (A * list A) := match l with x :: r => Some (x, r) | [] => None end.
(* slice.get(i) for 0 <= i *)
Definition get_z {A} (l : list A) (i : Z) : option A :=
  if i <? Z.of_nat (length l) then nth_error l (Z.to_nat i) else None.

Section Decoder.
  Context {V : Type}.
  Variable mk_atom : bytes -> V.
  Variable mk_pair : V -> V -> V.
  Variable strict : bool.
  Variable max_atom_len : Z.

  (* reader.read_exact(&mut buf); atoms.push(allocator.new_atom(&buf)?) *)
  Definition atom_step (len : Z) (atoms : list V) (bs : bytes) : res (list V * bytes) :=
    match take_n (Z.to_N len) bs with
    | Some (a, r) => Ok (atoms ++ [mk_atom a], r)
    | None => Err SerializationError
    end.

  Definition group_step (atoms : list V) (bs : bytes) : res (list V * bytes) :=
    do '(len, count, r) <- read_group_header strict max_atom_len bs;
    count_loop (atom_step len) (S (length r)) count atoms r.

  (* one instruction; the state is (pairs, stack), stack top first *)
  Definition instr_step (atoms : list V) (st : list V * list V) (bs : bytes)
    : res (list V * list V * bytes) :=
    do '(inst, r) <- rv strict bs;
    let '(pairs, stack) := st in
    if inst =? 0 then Ok (pairs, mk_atom [] :: stack, r)
    else if inst =? 1 then
      if lt2 stack then Err SerializationError
      else match pop stack with
           | None => Err (Panic 21)
           | Some (rgt, s1) =>
               match pop s1 with
               | None => Err (Panic 22)
               | Some (lft, s2) => let p := mk_pair lft rgt in Ok (pairs ++ [p], p :: s2, r)
               end
           end
    else if inst =? -1 then
      if lt2 stack then Err SerializationError
      else match pop stack with
           | None => Err (Panic 21)
           | Some (lft, s1) =>
               match pop s1 with
               | None => Err (Panic 22)
               | Some (rgt, s2) => let p := mk_pair lft rgt in Ok (pairs ++ [p], p :: s2, r)
               end
           end
    else if 2 <=? inst then
      match get_z atoms (inst - 2) with
      | Some a => Ok (pairs, a :: stack, r)
      | None => Err SerializationError
      end
    else
      (* n.checked_neg().and_then(|x| x.checked_sub(2)) *)
      if inst =? i64_min then Err SerializationError
      else if (- inst) - 2 <? i64_min then Err SerializationError
      else match get_z pairs ((- inst) - 2) with
           | Some p => Ok (pairs, p :: stack, r)
           | None => Err SerializationError
           end.

  (* deserialize_2026_body_from_stream: returns the root and the remaining input *)
  Definition de_body (bs : bytes) : res (V * bytes) :=
    do '(gc, r0) <- rv strict bs;
    do group_count <- checked_usize gc;
    do '(atoms, r1) <- count_loop group_step (S (length r0)) group_count [] r0;
    do '(ic, r2) <- rv strict r1;
    do icount <- checked_usize ic;
    if icount =? 0 then Err SerializationError
    else
      do '(st, r3) <- count_loop (instr_step atoms) (S (length r2)) icount ([], []) r2;
      match snd st with
      | [v] => Ok (v, r3)
      | [] => Err SerializationError            (* stack.len() != 1 *)
      | _ :: _ :: _ => Err SerializationError
      end.

  (* deserialize_2026_from_stream: magic prefix, then the body *)
  Definition de_2026 (blob : bytes) : res (V * bytes) :=
    match take_exact 6 blob with
    | None => Err SerializationError                     (* read_exact: UnexpectedEof *)
    | Some (p, body) => if bytes_eqb p magic then de_body body else Err SerializationError
    end.
End Decoder.

(* ------------------------------------------------------------------ serialized_length_serde_2026 *)

Definition u64_lim : Z := 18446744073709551616.

(* one atom group of the probe: [total] = data.len(), position = total - remaining *)
Definition probe_group (strict : bool) (max_atom_len : Z) (total : Z) (u : unit) (bs : bytes)
  : res (unit * bytes) :=
  do '(length_val, r1) <- rv strict bs;
  do '(skip, r2) <-
    (if length_val <? 0 then
       if length_val =? i64_min then Err SerializationError
       else
         do atom_len <- checked_bounded_usize (- length_val) max_atom_len;
         do '(c, r2) <- rv strict r1;
         do count <- checked_usize c;
         if (atom_len =? 0) || (count =? 0) then Err SerializationError
         else if u64_lim <=? atom_len * count then Err SerializationError     (* checked_mul *)
         else Ok (atom_len * count, r2)
     else
       do atom_len <- checked_bounded_usize length_val max_atom_len;
       if atom_len =? 0 then Err SerializationError else Ok (atom_len, r1));
  let pos := total - Z.of_nat (length r2) in
  let new_pos := pos + skip in
  if u64_lim <=? new_pos then Err SerializationError                          (* checked_add *)
  else if total <? new_pos then Err SerializationError
  else Ok (tt, skipn (Z.to_nat skip) r2).

Definition probe_instr (strict : bool) (u : unit) (bs : bytes) : res (unit * bytes) :=
  do '(_, r) <- rv strict bs; Ok (tt, r).

Definition starts_with (p b : bytes) : bool :=
  match take_exact (length p) b with Some (q, _) => bytes_eqb q p | None => false end.

Definition probe_2026 (strict : bool) (max_atom_len : Z) (buf : bytes) : res Z :=
  if negb (starts_with magic buf) then Err SerializationError
  else
    let data := skipn 6 buf in
    let total := Z.of_nat (length data) in
    do '(gc, r0) <- rv strict data;
    do group_count <- checked_usize gc;
    do '(_, r1) <- count_loop (probe_group strict max_atom_len total) (S (length r0)) group_count tt r0;
    do '(ic, r2) <- rv strict r1;
    do icount <- checked_usize ic;
    if icount =? 0 then Err SerializationError
    else
      do '(_, r3) <- count_loop (probe_instr strict) (S (length r2)) icount tt r2;
      Ok (6 + (total - Z.of_nat (length r3))).

(* ------------------------------------------------------------------ ser.rs *)

Definition wv (v : Z) : res bytes :=
  match write_varint v with Some e => Ok e | None => Err (Panic 10) end.

(* node_to_index: atoms i >= 0, pairs -(i+1); the model keeps the interned node itself.
   atom_ref_counts: references by the root and as a pair child *)
Definition is_atom_ref (i : nat) (n : inode) : bool :=
  match n with IA j => Nat.eqb i j | IP _ => false end.

Definition ref_count (it : itree) (i : nat) : Z :=
  (if is_atom_ref i (it_root it) then 1 else 0) +
  fold_left (fun acc p => acc + (if is_atom_ref i (fst p) then 1 else 0)
                              + (if is_atom_ref i (snd p) then 1 else 0)) (it_pairs it) 0.

(* the sort key of atom a: (index, reference count, length) *)
Definition skey := (nat * Z * Z)%type.

(* the comparator of sort_atoms as "a goes before b" (a total order: the index breaks ties) *)
Definition before (a b : skey) : bool :=
  let '(ia, ca, la) := a in
  let '(ib, cb, lb) := b in
  let ra := 1 <? ca in
  let rb := 1 <? cb in
  if negb (Bool.eqb ra rb) then ra
  else if negb (ca =? cb) then cb <? ca
  else if negb (la =? lb) then la <? lb
  else Nat.leb ia ib.

Fixpoint insert_key (k : skey) (l : list skey) : list skey :=
  match l with
  | [] => [k]
  | x :: r => if before k x then k :: x :: r else x :: insert_key k r
  end.

Definition sort_keys (l : list skey) : list skey := fold_right insert_key [] l.

Fixpoint keys_from (it : itree) (i : nat) (atoms : list bytes) : list skey :=
  match atoms with
  | [] => []
  | a :: r => (i, ref_count it i, Z.of_nat (length a)) :: keys_from it (S i) r
  end.

(* sort_atoms: sorted old indices without nil *)
Definition nil_old_idx (it : itree) : option nat :=
  find_index (fun a => match a with [] => true | _ => false end) (it_atoms it).

Definition sorted_no_nil (it : itree) : list nat :=
  let sorted := map (fun k => fst (fst k)) (sort_keys (keys_from it 0 (it_atoms it))) in
  filter (fun old => match nil_old_idx it with Some n => negb (Nat.eqb old n) | None => true end) sorted.

(* write_atom_table: groups of contiguous equal lengths *)
Fixpoint group_atoms (l : list bytes) : list (Z * list bytes) :=
  match l with
  | [] => []
  | a :: r =>
      let la := Z.of_nat (length a) in
      match group_atoms r with
      | (len, g) :: gs => if la =? len then (len, a :: g) :: gs else (la, [a]) :: (len, g) :: gs
      | [] => [(la, [a])]
      end
  end.

Fixpoint lookup_atoms (atoms : list bytes) (idxs : list nat) : res (list bytes) :=
  match idxs with
  | [] => Ok []
  | i :: r =>
      match nth_error atoms i with
      | None => Err (Panic 13)
      | Some a => do rest <- lookup_atoms atoms r; Ok (a :: rest)
      end
  end.

Definition write_group (g : Z * list bytes) : res bytes :=
  let '(len, atoms) := g in
  match atoms with
  | [a] => do e <- wv len; Ok (e ++ a)
  | _ =>
      do e1 <- wv (- len);
      do e2 <- wv (Z.of_nat (length atoms));
      Ok (e1 ++ e2 ++ concat atoms)
  end.

Fixpoint write_groups (gs : list (Z * list bytes)) : res bytes :=
  match gs with
  | [] => Ok []
  | g :: r => do e <- write_group g; do rest <- write_groups r; Ok (e ++ rest)
  end.

Definition write_atom_table (table : list bytes) : res bytes :=
  let gs := group_atoms table in
  do e <- wv (Z.of_nat (length gs));
  do body <- write_groups gs;
  Ok (e ++ body).

(* emit_instructions with the LeftFirst strategy (the only one: compression_for_level maps every
   level to Fast). [order] is construction_order: the pair indices in the order their cons was
   emitted (ci = position). Instructions are accumulated in reverse. *)
Inductive eop := EBuild (n : inode) | ECons (pi : nat).

Definition atom_instr (it : itree) (sorted : list nat) (i : nat) : res Z :=
  if match nil_old_idx it with Some n => Nat.eqb i n | None => false end then Ok 0
  else match find_index (Nat.eqb i) sorted with
       | Some new_idx => Ok (Z.of_nat new_idx + 2)
       | None => Err (Panic 11)
       end.

Fixpoint emit_loop (it : itree) (sorted : list nat) (fuel : nat) (work : list eop)
         (order : list nat) (acc : list Z) : res (list Z) :=
  match fuel with
  | O => Err OutOfFuel
  | S f =>
      match work with
      | [] => Ok (rev acc)
      | ECons pi :: w => emit_loop it sorted f w (order ++ [pi]) (1 :: acc)
      | EBuild (IA i) :: w => do x <- atom_instr it sorted i; emit_loop it sorted f w order (x :: acc)
      | EBuild (IP pi) :: w =>
          match find_index (Nat.eqb pi) order with
          | Some ci => emit_loop it sorted f w order (- (Z.of_nat ci + 2) :: acc)
          | None =>
              match nth_error (it_pairs it) pi with
              | None => Err (Panic 12)
              | Some (l, r) => emit_loop it sorted f (EBuild l :: EBuild r :: ECons pi :: w) order acc
              end
          end
      end
  end.

Definition emit_instructions (it : itree) (sorted : list nat) : res (list Z) :=
  match it_pairs it with
  | [] => match it_root it with
          | IA i => do x <- atom_instr it sorted i; Ok [x]
          | IP _ => Err (Panic 12)
          end
  | _ => emit_loop it sorted (3 * length (it_pairs it) + 2) [EBuild (it_root it)] [] []
  end.

Fixpoint write_varints (l : list Z) : res bytes :=
  match l with
  | [] => Ok []
  | x :: r => do e <- wv x; do rest <- write_varints r; Ok (e ++ rest)
  end.

(* serialize_2026_body_to_stream (any level) *)
Definition ser_body_of (it : itree) : res bytes :=
  if (max_index <? Z.of_nat (length (it_atoms it))) || (max_index <? Z.of_nat (length (it_pairs it)))
  then Err SerializationError
  else
    let sorted := sorted_no_nil it in
    do table <- lookup_atoms (it_atoms it) sorted;
    do tbytes <- write_atom_table table;
    do instrs <- emit_instructions it sorted;
    do n <- wv (Z.of_nat (length instrs));
    do ibytes <- write_varints instrs;
    Ok (tbytes ++ n ++ ibytes).

Definition ser_body (level : N) (t : sexp) : res bytes := ser_body_of (intern_tree t).

(* serialize_2026 *)
Definition ser_2026 (level : N) (t : sexp) : res bytes :=
  do b <- ser_body level t; Ok (magic ++ b).
