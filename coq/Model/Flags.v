(* chia_dialect.rs: ClvmFlags as a record of booleans (one field per flag bit), the operator
   sets of softfork extensions, and the conversion from the 32-bit flag word. *)
From Coq Require Export NArith Bool.
Open Scope N_scope.

Record flagset := {
  f_canonical_ints : bool;      (* 0x0001 *)
  f_no_unknown_ops : bool;      (* 0x0002 *)
  f_limit_heap : bool;          (* 0x0004 *)
  f_relaxed_bls : bool;         (* 0x0008 *)
  f_limit_softfork : bool;      (* 0x0010 *)
  f_enable_gc : bool;           (* 0x0020 *)
  f_limits : bool;              (* 0x0040 *)
  f_keccak_outside_guard : bool;(* 0x0100 *)
  f_disable_op : bool;          (* 0x0200 *)
  f_sha256_tree : bool;         (* 0x0400 *)
  f_secp_ops : bool;            (* 0x0800 *)
  f_malachite : bool;           (* 0x1000 *)
  f_new_cost_model : bool       (* 0x2000 *)
}.

Definition BIT_CANONICAL_INTS := 0x0001.
Definition BIT_NO_UNKNOWN_OPS := 0x0002.
Definition BIT_LIMIT_HEAP := 0x0004.
Definition BIT_RELAXED_BLS := 0x0008.
Definition BIT_LIMIT_SOFTFORK := 0x0010.
Definition BIT_ENABLE_GC := 0x0020.
Definition BIT_LIMITS := 0x0040.
Definition BIT_KECCAK_OUTSIDE_GUARD := 0x0100.
Definition BIT_DISABLE_OP := 0x0200.
Definition BIT_SHA256_TREE := 0x0400.
Definition BIT_SECP_OPS := 0x0800.
Definition BIT_MALACHITE := 0x1000.
Definition BIT_NEW_COST_MODEL := 0x2000.

Definition has (w bit : N) : bool := negb (N.land w bit =? 0).

Definition flags_of_N (w : N) : flagset := {|
  f_canonical_ints := has w BIT_CANONICAL_INTS;
  f_no_unknown_ops := has w BIT_NO_UNKNOWN_OPS;
  f_limit_heap := has w BIT_LIMIT_HEAP;
  f_relaxed_bls := has w BIT_RELAXED_BLS;
  f_limit_softfork := has w BIT_LIMIT_SOFTFORK;
  f_enable_gc := has w BIT_ENABLE_GC;
  f_limits := has w BIT_LIMITS;
  f_keccak_outside_guard := has w BIT_KECCAK_OUTSIDE_GUARD;
  f_disable_op := has w BIT_DISABLE_OP;
  f_sha256_tree := has w BIT_SHA256_TREE;
  f_secp_ops := has w BIT_SECP_OPS;
  f_malachite := has w BIT_MALACHITE;
  f_new_cost_model := has w BIT_NEW_COST_MODEL |}.

Definition no_flags : flagset := flags_of_N 0.

(* MEMPOOL_MODE = NO_UNKNOWN_OPS | LIMIT_HEAP | DISABLE_OP | CANONICAL_INTS | LIMIT_SOFTFORK *)
Definition MEMPOOL_MODE_BITS : N :=
  N.lor BIT_NO_UNKNOWN_OPS (N.lor BIT_LIMIT_HEAP (N.lor BIT_DISABLE_OP (N.lor BIT_CANONICAL_INTS BIT_LIMIT_SOFTFORK))).

(* ChiaDialect::new: NEW_COST_MODEL removes LIMITS *)
Definition dialect_flags (f : flagset) : flagset :=
  if f_new_cost_model f then
    {| f_canonical_ints := f_canonical_ints f; f_no_unknown_ops := f_no_unknown_ops f;
       f_limit_heap := f_limit_heap f; f_relaxed_bls := f_relaxed_bls f;
       f_limit_softfork := f_limit_softfork f; f_enable_gc := f_enable_gc f;
       f_limits := false; f_keccak_outside_guard := f_keccak_outside_guard f;
       f_disable_op := f_disable_op f; f_sha256_tree := f_sha256_tree f;
       f_secp_ops := f_secp_ops f; f_malachite := f_malachite f;
       f_new_cost_model := true |}
  else f.

(* the flag set an operator sees inside a guard: ChiaDialect::op ors in
   ENABLE_KECCAK_OPS_OUTSIDE_GUARD for the Keccak and PreHardFork operator sets *)
Definition with_keccak (f : flagset) : flagset :=
  {| f_canonical_ints := f_canonical_ints f; f_no_unknown_ops := f_no_unknown_ops f;
     f_limit_heap := f_limit_heap f; f_relaxed_bls := f_relaxed_bls f;
     f_limit_softfork := f_limit_softfork f; f_enable_gc := f_enable_gc f;
     f_limits := f_limits f; f_keccak_outside_guard := true;
     f_disable_op := f_disable_op f; f_sha256_tree := f_sha256_tree f;
     f_secp_ops := f_secp_ops f; f_malachite := f_malachite f;
     f_new_cost_model := f_new_cost_model f |}.

Inductive opset := OsDefault | OsBls | OsKeccak | OsPreHardFork.

Definition opset_eqb (a b : opset) : bool :=
  match a, b with
  | OsDefault, OsDefault | OsBls, OsBls | OsKeccak, OsKeccak | OsPreHardFork, OsPreHardFork => true
  | _, _ => false
  end.

Definition op_flags (f : flagset) (ext : opset) : flagset :=
  match ext with
  | OsDefault | OsBls => f
  | OsKeccak | OsPreHardFork => with_keccak f
  end.

(* ChiaDialect::softfork_extension *)
Definition softfork_extension (f : flagset) (ext : N) : opset :=
  if f_new_cost_model f then
    (if (ext =? 0) || (ext =? 1) then OsPreHardFork else OsDefault)
  else
    (if ext =? 0 then OsBls else if ext =? 1 then OsKeccak else OsDefault).
