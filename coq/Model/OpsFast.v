(* more_ops.rs, the five operator bodies that contain a `#[cfg(not(feature = "no-fastpath"))]`
   region (op_sha256 :639, op_add :695, op_subtract :798, op_multiply :942, op_gr :1257),
   transcribed at the level at which the fast paths are visible: every operand carries its
   allocator REPRESENTATION.

     RSmall v   an inline atom (ObjectType::SmallAtom, NodeVisitor::U32(v)); the allocator only
                creates these for v <= NODE_PTR_IDX_MASK = 2^26 - 1;
     RBuf b     a heap atom (ObjectType::Bytes, NodeVisitor::Buffer(b)); b is ANY byte string:
                new_concat / new_substr produce heap atoms that hold small canonical integers;
     RPair l r  a pair (the operators only look at the fact that it is one).

   Two transcriptions of each operator:
     op_X_fast    the body compiled by the default build (fast-path region present);
     op_X_nofast  the body compiled with the no-fastpath feature (region removed).
   Both still distinguish NodeVisitor::Buffer from NodeVisitor::U32 where the Rust does (the
   generic loops of op_add / op_subtract have one arm per representation, int_atom reads
   a.number() / a.atom_len() which also branch on the representation).
   Proofs/OpsFastProofs.v proves each equal to the tree-store operator of Model/OpsArith.v /
   Model/OpsStr.v on the denoted argument list.

   Conventions as in Model/OpsArith.v: costs on unbounded N where the Rust uses plain + and *;
   allocation failures belong to the store; the pre-hard-fork three-accumulator split of the
   generic add / subtract loops (acc[rng], small_acc) is the single accumulator (its sum; the
   cost never reads the accumulators before the hard fork; Proofs/OpsMoreLemmas.v).
   Machine integers of the fast paths are explicit: u64 total with checked_add, i64 total with
   checked_sub, `impl Limbs for u64 / i64`, new_u64 / new_i64 (Model/Alloc.v u64_bytes,
   i64_bytes). A CostExceeded raised inside the fast closure is returned by the `?` after the
   closure call: it does not fall back. *)
From Clvm Require Export Model.OpsArith Model.OpsStr.
From Clvm Require Model.Alloc Model.HashTable Gen.FastPath.
Open Scope N_scope.

Inductive rarg := RSmall (v : N) | RBuf (b : bytes) | RPair (l r : sexp).
(* the atom that ends the argument list (a list is its elements and its terminator) *)
Inductive rterm := TSmall (v : N) | TBuf (b : bytes).
Definition rinput : Type := list rarg * rterm.

(* ---- what the representation stands for (Allocator::atom: the canonical bytes of v) ---- *)
Definition denote_arg (a : rarg) : sexp :=
  match a with
  | RSmall v => Atom (bytes_of_int (Z.of_N v))
  | RBuf b => Atom b
  | RPair l r => Cons l r
  end.
Definition denote_term (t : rterm) : sexp :=
  match t with TSmall v => Atom (bytes_of_int (Z.of_N v)) | TBuf b => Atom b end.
Definition denote_input (i : rinput) : sexp :=
  fold_right (fun a r => Cons (denote_arg a) r) (denote_term (snd i)) (fst i).

(* the representation invariant the allocator guarantees *)
Definition rarg_ok (a : rarg) : bool :=
  match a with
  | RSmall v => v <? 67108864
  | RBuf b => wf_bytes b
  | RPair _ _ => true
  end.
Definition rterm_ok (t : rterm) : bool :=
  match t with TSmall v => v <? 67108864 | TBuf b => wf_bytes b end.
Definition rinput_ok (i : rinput) : bool := forallb rarg_ok (fst i) && rterm_ok (snd i).

(* ---- allocator reads on a representation ---- *)
(* Allocator::small_number *)
Definition r_small_number (a : rarg) : option N :=
  match a with
  | RSmall v => Some v
  | RBuf b => Alloc.fits_in_small_atom b
  | RPair _ _ => None
  end.
(* op_utils::int_atom: (a.number(n), a.atom_len(n)) *)
Definition r_int_atom (a : rarg) : res (Z * N) :=
  match a with
  | RSmall v => Ok (Z.of_N v, Alloc.len_for_value v)
  | RBuf b => Ok (int_of_bytes b, blen b)
  | RPair _ _ => bad_arg
  end.
(* match_args::<2> / get_args::<2> *)
Definition r_match_args2 (i : rinput) : option (rarg * rarg) :=
  match fst i with [a; b] => Some (a, b) | _ => None end.
(* `input == NodePtr::NIL`: NodePtr equality, i.e. the inline atom 0 *)
Definition r_is_nil_ptr (i : rinput) : bool :=
  match i with ([], TSmall v) => v =? 0 | _ => false end.

(* ---- machine integers ---- *)
(* impl Limbs for u64: 0 for 0, else (64 - leading_zeros).div_ceil(8); 64 - leading_zeros is
   the bit length *)
Definition limbs_u64 (v : N) : N := if v =? 0 then 0 else (N.size v + 7) / 8.
(* impl Limbs for i64: 0 for 0, else unsigned_abs().limbs() *)
Definition limbs_i64 (z : Z) : N := if (z =? 0)%Z then 0 else limbs_u64 (Z.abs_N z).
Definition I64_MIN : Z := (-9223372036854775808)%Z.
Definition I64_MAX : Z := 9223372036854775807%Z.
Definition checked_sub_i64 (a b : Z) : option Z :=
  let r := (a - b)%Z in if ((I64_MIN <=? r) && (r <=? I64_MAX))%Z then Some r else None.

(* Allocator::new_number (allocator.rs:704): the atom bytes of the result node *)
Definition number_bytes (v : Z) : bytes :=
  if ((0 <=? v) && (v <=? Z.of_N Alloc.NODE_PTR_IDX_MASK))%Z
  then be_bytes (N.to_nat (Alloc.len_for_value (Z.to_N v))) (Z.to_N v)
  else Alloc.strip_leading_zeros (Alloc.to_signed_bytes_be v).

(* ======================================================================================== *)
(* op_gr *)
Definition gr_costs (f : flagset) : N * N :=
  if f_new_cost_model f then (NEW_GR_BASE_COST, NEW_GR_COST_PER_BYTE)
  else (GR_BASE_COST, GR_COST_PER_BYTE).

Definition op_gr_nofast (f : flagset) (i : rinput) (max_cost : N) : res (N * sexp) :=
  match r_match_args2 i with
  | None => bad_arg
  | Some (v0, v1) =>
      let '(base_cost, cost_per_byte) := gr_costs f in
      do '(n0, v0_len) <- r_int_atom v0;
      do '(n1, v1_len) <- r_int_atom v1;
      let cost := base_cost + (v0_len + v1_len) * cost_per_byte in
      Ok (cost, if (n1 <? n0)%Z then one_s else nil_s)
  end.

Definition op_gr_fast (f : flagset) (i : rinput) (max_cost : N) : res (N * sexp) :=
  match r_match_args2 i with
  | None => bad_arg
  | Some (v0, v1) =>
      let '(base_cost, cost_per_byte) := gr_costs f in
      match r_small_number v0, r_small_number v1 with
      | Some lhs, Some rhs =>
          let cost := base_cost + (Alloc.len_for_value lhs + Alloc.len_for_value rhs) * cost_per_byte in
          Ok (cost, if rhs <? lhs then one_s else nil_s)
      | _, _ =>
          do '(n0, v0_len) <- r_int_atom v0;
          do '(n1, v1_len) <- r_int_atom v1;
          let cost := base_cost + (v0_len + v1_len) * cost_per_byte in
          Ok (cost, if (n1 <? n0)%Z then one_s else nil_s)
      end
  end.

(* ======================================================================================== *)
(* op_sha256. The generic loop reads every argument through op_utils::atom, i.e. its bytes:
   that part is the tree-store loop on the denoted list. *)
Definition sha256_costs (f : flagset) : N * N * N :=
  if f_new_cost_model f then (NEW_SHA256_BASE_COST, NEW_SHA256_COST_PER_ARG, NEW_SHA256_COST_PER_BYTE)
  else (SHA256_BASE_COST, SHA256_COST_PER_ARG, SHA256_COST_PER_BYTE).

Definition op_sha256_nofast (H : bytes -> bytes) (f : flagset) (i : rinput) (max_cost : N)
    : res (N * sexp) :=
  let '(base_cost, cost_per_arg, cost_per_byte) := sha256_costs f in
  if r_is_nil_ptr i then atom_and_cost base_cost FastPath.src_sha256_nil_literal
  else op_sha256 H f (denote_input i) max_cost.

Definition op_sha256_fast (H : bytes -> bytes) (f : flagset) (i : rinput) (max_cost : N)
    : res (N * sexp) :=
  let '(base_cost, cost_per_arg, cost_per_byte) := sha256_costs f in
  if r_is_nil_ptr i then atom_and_cost base_cost FastPath.src_sha256_nil_literal
  else
    let generic := op_sha256 H f (denote_input i) max_cost in
    match r_match_args2 i with
    | Some (v0, v1) =>
        match r_small_number v0 with
        | Some one =>
            if one =? 1 then
              match r_small_number v1 with
              | Some val =>
                  if val <? N.of_nat (length HashTable.precomputed_hashes) then
                    let num_bytes := if 0 <? val then 2 else 1 in
                    let cost := base_cost + (num_bytes * cost_per_byte + 2 * cost_per_arg) in
                    do _ <- check_cost cost max_cost;
                    match nth_error HashTable.precomputed_hashes (N.to_nat val) with
                    | Some h => atom_and_cost cost h
                    | None => Err (Panic 60)          (* PRECOMPUTED_HASHES[val] out of range *)
                    end
                  else generic
              | None => generic
              end
            else generic
        | None => generic
        end
    | None => generic
    end.

(* ======================================================================================== *)
(* op_add *)

(* the generic loop, one arm per representation *)
Fixpoint add_loop_r (ncm : bool) (per_arg per_byte : N) (args : list rarg) (cost : N) (acc : Z)
    (max_cost : N) : res (N * Z) :=
  match args with
  | [] => Ok (cost, acc)
  | arg :: rest =>
      let cost := cost + per_arg in
      match arg with
      | RBuf b =>
          let cost := cost + (if ncm then N.max (limbs acc) (blen b) else blen b) * per_byte in
          do _ <- check_cost cost max_cost;
          add_loop_r ncm per_arg per_byte rest cost (acc + int_of_bytes b)%Z max_cost
      | RSmall val =>
          let l := Alloc.len_for_value val in
          let cost := cost + (if ncm then N.max (limbs acc) l else l) * per_byte in
          do _ <- check_cost cost max_cost;
          add_loop_r ncm per_arg per_byte rest cost (acc + Z.of_N val)%Z max_cost
      | RPair _ _ => bad_arg
      end
  end.

Definition op_add_nofast (f : flagset) (i : rinput) (max_cost : N) : res (N * sexp) :=
  let '(base_cost, cost_per_arg, cost_per_byte) := arith_costs f in
  do '(cost, total) <- add_loop_r (f_new_cost_model f) cost_per_arg cost_per_byte (fst i) base_cost 0%Z max_cost;
  Ok (malloc_cost cost (number_bytes total)).

(* the closure: Ok (Some (cost, total)) / Ok None (fall back) / Err CostExceeded *)
Fixpoint add_fast_loop (ncm : bool) (per_arg per_byte : N) (args : list rarg) (cost total : N)
    (max_cost : N) : res (option (N * N)) :=
  match args with
  | [] => Ok (Some (cost, total))
  | arg :: rest =>
      let cost := cost + per_arg in
      match arg with
      | RSmall val =>
          let l := Alloc.len_for_value val in
          let cost := cost + (if ncm then N.max (limbs_u64 total) l else l) * per_byte in
          do _ <- check_cost cost max_cost;
          match checked_add total val with
          | None => Ok None
          | Some new_total => add_fast_loop ncm per_arg per_byte rest cost new_total max_cost
          end
      | _ => Ok None
      end
  end.

Definition op_add_fast (f : flagset) (i : rinput) (max_cost : N) : res (N * sexp) :=
  let '(base_cost, cost_per_arg, cost_per_byte) := arith_costs f in
  do fast_total <- add_fast_loop (f_new_cost_model f) cost_per_arg cost_per_byte (fst i) base_cost 0 max_cost;
  match fast_total with
  | Some (cost, total) => Ok (malloc_cost cost (Alloc.u64_bytes total))
  | None => (* input = saved_input; cost = base_cost *) op_add_nofast f i max_cost
  end.

(* ======================================================================================== *)
(* op_subtract *)
Fixpoint sub_loop_r (ncm : bool) (per_arg per_byte : N) (args : list rarg) (cost : N) (acc : Z)
    (is_first : bool) (max_cost : N) : res (N * Z) :=
  match args with
  | [] => Ok (cost, acc)
  | arg :: rest =>
      let cost := cost + per_arg in
      do _ <- check_cost cost max_cost;
      match arg with
      | RBuf b =>
          let cost := cost + (if ncm then N.max (limbs acc) (blen b) else blen b) * per_byte in
          do _ <- check_cost cost max_cost;
          sub_loop_r ncm per_arg per_byte rest cost
            (if is_first then acc + int_of_bytes b else acc - int_of_bytes b)%Z false max_cost
      | RSmall val =>
          let l := Alloc.len_for_value val in
          let cost := cost + (if ncm then N.max (limbs acc) l else l) * per_byte in
          do _ <- check_cost cost max_cost;
          sub_loop_r ncm per_arg per_byte rest cost
            (if is_first then acc + Z.of_N val else acc - Z.of_N val)%Z false max_cost
      | RPair _ _ => bad_arg
      end
  end.

Definition op_subtract_nofast (f : flagset) (i : rinput) (max_cost : N) : res (N * sexp) :=
  let '(base_cost, cost_per_arg, cost_per_byte) := arith_costs f in
  do '(cost, total) <- sub_loop_r (f_new_cost_model f) cost_per_arg cost_per_byte (fst i) base_cost 0%Z true max_cost;
  Ok (malloc_cost cost (number_bytes total)).

Fixpoint sub_fast_loop (ncm : bool) (per_arg per_byte : N) (args : list rarg) (cost : N) (total : Z)
    (is_first : bool) (max_cost : N) : res (option (N * Z)) :=
  match args with
  | [] => Ok (Some (cost, total))
  | arg :: rest =>
      let cost := cost + per_arg in
      match arg with
      | RSmall val =>
          let l := Alloc.len_for_value val in
          let cost := cost + (if ncm then N.max (limbs_i64 total) l else l) * per_byte in
          do _ <- check_cost cost max_cost;
          if is_first then sub_fast_loop ncm per_arg per_byte rest cost (Z.of_N val) false max_cost
          else
            match checked_sub_i64 total (Z.of_N val) with
            | None => Ok None
            | Some new_total => sub_fast_loop ncm per_arg per_byte rest cost new_total false max_cost
            end
      | _ => Ok None
      end
  end.

Definition op_subtract_fast (f : flagset) (i : rinput) (max_cost : N) : res (N * sexp) :=
  let '(base_cost, cost_per_arg, cost_per_byte) := arith_costs f in
  do fast_total <- sub_fast_loop (f_new_cost_model f) cost_per_arg cost_per_byte (fst i) base_cost 0%Z true max_cost;
  match fast_total with
  | Some (cost, total) => Ok (malloc_cost cost (Alloc.i64_bytes total))
  | None => op_subtract_nofast f i max_cost
  end.

(* ======================================================================================== *)
(* op_multiply: [fast] selects the per-operand match on a.node(arg) (default build) or the
   int_atom call (no-fastpath build) *)
Fixpoint mul_loop_r (fast limits ncm : bool) (square_divider : N) (args : list rarg) (cost : N)
    (total : Z) (l0 : N) (max_cost : N) : res (N * Z) :=
  match args with
  | [] => Ok (cost, total)
  | arg :: rest =>
      let cost := cost + MUL_COST_PER_OP in
      do '(cost, total) <-
        (if fast then
           match arg with
           | RBuf b =>
               let l1 := blen b in
               if limits && negb ncm && (256 <? l1) then bad_arg
               else
                 let cost := cost + (l0 + l1) * MUL_LINEAR_COST_PER_BYTE in
                 let cost := cost + (l0 * l1) / square_divider in
                 do _ <- check_cost cost max_cost;
                 Ok (cost, (total * int_of_bytes b)%Z)
           | RSmall val =>
               let l1 := Alloc.len_for_value val in
               let cost := cost + (l0 + l1) * MUL_LINEAR_COST_PER_BYTE in
               let cost := cost + (l0 * l1) / square_divider in
               do _ <- check_cost cost max_cost;
               Ok (cost, (total * Z.of_N val)%Z)
           | RPair _ _ => bad_arg
           end
         else
           do '(n1, l1) <- r_int_atom arg;
           if limits && negb ncm && (256 <? l1) then bad_arg
           else
             let cost := cost + (l0 + l1) * MUL_LINEAR_COST_PER_BYTE in
             let cost := cost + (l0 * l1) / square_divider in
             do _ <- check_cost cost max_cost;
             Ok (cost, (total * n1)%Z));
      let l0 := limbs total in
      if limits && negb ncm && (1024 <? l0) then bad_arg
      else mul_loop_r fast limits ncm square_divider rest cost total l0 max_cost
  end.

Definition op_multiply_r (fast : bool) (f : flagset) (i : rinput) (max_cost : N) : res (N * sexp) :=
  let ncm := f_new_cost_model f in
  let limits := f_limits f in
  let cost := if ncm then NEW_MUL_BASE_COST else MUL_BASE_COST in
  let square_divider :=
    if ncm then NEW_MUL_SQUARE_COST_PER_BYTE_DIVIDER else MUL_SQUARE_COST_PER_BYTE_DIVIDER in
  match fst i with
  | [] => Ok (malloc_cost cost (number_bytes 1%Z))
  | arg :: rest =>
      do '(total, l0) <- r_int_atom arg;
      if limits && negb ncm && (256 <? l0) then bad_arg
      else
        do cost <- (if ncm then
                      let cost := cost + l0 * MUL_LINEAR_COST_PER_BYTE in
                      do _ <- check_cost cost max_cost; Ok cost
                    else Ok cost);
        do '(cost, total) <- mul_loop_r fast limits ncm square_divider rest cost total l0 max_cost;
        Ok (malloc_cost cost (number_bytes total))
  end.
Definition op_multiply_fast := op_multiply_r true.
Definition op_multiply_nofast := op_multiply_r false.
