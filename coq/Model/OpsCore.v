(* core_ops.rs on the tree store. *)
From Clvm Require Export Model.OpUtils.
Open Scope N_scope.

Definition FIRST_COST : N := 30.
Definition IF_COST : N := 33.
Definition NEW_IF_COST : N := 330.
Definition CONS_COST : N := 50.
Definition REST_COST : N := 30.
Definition LISTP_COST : N := 19.
Definition NEW_LISTP_COST : N := 200.
Definition EQ_BASE_COST : N := 117.
Definition EQ_COST_PER_BYTE : N := 1.

Definition op_if : opfn := fun f args _ =>
  do '(c, a, b) <- get_args3 args;
  Ok (if f_new_cost_model f then NEW_IF_COST else IF_COST, if nilp c then b else a).

Definition op_cons : opfn := fun _ args _ =>
  do '(a, b) <- get_args2 args; Ok (CONS_COST, Cons a b).

Definition op_first : opfn := fun _ args _ =>
  do n <- get_args1 args; do v <- first n; Ok (FIRST_COST, v).

Definition op_rest : opfn := fun _ args _ =>
  do n <- get_args1 args; do v <- rest n; Ok (REST_COST, v).

Definition op_listp : opfn := fun f args _ =>
  do n <- get_args1 args;
  Ok (if f_new_cost_model f then NEW_LISTP_COST else LISTP_COST,
      match n with Cons _ _ => one_s | Atom _ => nil_s end).

Definition op_raise : opfn := fun _ _ _ => Err Raise.

Definition op_eq : opfn := fun _ args _ =>
  do '(s0, s1) <- get_args2 args;
  do b0 <- atom_of s0;
  do b1 <- atom_of s1;
  Ok (EQ_BASE_COST + (blen b0 + blen b1) * EQ_COST_PER_BYTE,
      if bytes_eqb b0 b1 then one_s else nil_s).
