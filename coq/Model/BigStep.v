(* A recursive (big-step) evaluator for the language that the stack machine of Model/Machine.v
   (run_program.rs) interprets, over the same [dialect] record, charging the same costs and
   making the same budget checks at the same points. Proofs/BigStepEquiv.v proves that it
   succeeds exactly when the machine does, with the same cost and value.

   [eval fuel gs cost p e]: evaluate program p in environment e, inside the open softfork guards
   [gs] (innermost first: the current operator set is that of the top guard, the nesting depth is
   the length, the effective budget is the top guard's expected cost, else the run's budget M),
   starting at accumulated cost [cost]; returns the accumulated cost afterwards and the value.
   [fuel] bounds the recursion depth through `a` and guard bodies (and arguments).

     atom                 path lookup in e
     (q . x)              x, QUOTE_COST
     ((X) . args)         X applied to args, NOT evaluated; APPLY_COST
     (op . args)          OP_COST; args must be nil-terminated (checked first); they are evaluated
                          LAST TO FIRST, consed into a list, then op is applied; when op is a
                          gc candidate one more budget check follows (the Restore step)
   applying an operator to an argument list (after a budget check):
     a                    (a p e): evaluate p in e, APPLY_COST
     softfork             the guard: declared cost within the budget and not 0; extension
                          parsing; an unknown extension is skipped with nil and the declared cost
                          when unknown extensions are allowed; nesting limit; the body runs
                          inside the new guard (budget = expected cost) after GUARD_COST /
                          NEW_GUARD_COST; then budget check, cost equality unless the operator set
                          is cost-exempt; the value is nil
     anything else        d_op with the remaining budget and the current operator set *)
From Clvm Require Export Model.Machine.
Open Scope N_scope.

Definition gs_emax (gs : list guard) (M : N) : N :=
  match gs with g :: _ => g_expected g | [] => M end.
Definition gs_ext (gs : list guard) : opset :=
  match gs with g :: _ => g_opset g | [] => OsDefault end.

(* the budget check at the head of every loop iteration *)
Definition chk (gs : list guard) (M cost : N) : res unit :=
  if gs_emax gs M <? cost then Err CostExceeded else Ok tt.

(* push_operands rejects an improper operand list before anything is evaluated *)
Fixpoint nil_terminated (l : sexp) : res unit :=
  match l with
  | Cons _ r => nil_terminated r
  | Atom [] => Ok tt
  | Atom _ => Err InvalidNilTerminator
  end.

Section Big.
  Variable d : dialect.
  Variable M : N.                      (* the run's budget (already 0 -> Cost::MAX) *)

  Section Rec.
    (* the evaluator with less fuel *)
    Variable ev : list guard -> N -> sexp -> sexp -> res (N * sexp).

    (* the SwapEval / Cons pairs: later operands first *)
    Fixpoint eval_args (gs : list guard) (cost : N) (ol env : sexp) : res (N * sexp) :=
      match ol with
      | Cons a r =>
          do '(c1, tl) <- eval_args gs cost r env;
          do _ <- chk gs M c1;
          do '(c2, v) <- ev gs c1 a env;
          do _ <- chk gs M c2;
          Ok (c2, Cons v tl)
      | Atom _ => Ok (cost, nil_s)
      end.

    Definition guard_big (gs : list guard) (cost : N) (args : sexp) : res (N * sexp) :=
      let max_cost := gs_emax gs M - cost in
      do fst_arg <- first args;
      do expected_cost <- uint_atom 8 (f_canonical_ints (d_flags d)) fst_arg;
      if max_cost <? expected_cost then Err CostExceeded
      else if expected_cost =? 0 then Err CostExceeded
      else
        match parse_softfork_arguments d args with
        | Err err => if d_allow_unknown d then Ok (cost + expected_cost, nil_s) else Err err
        | Ok (ext, prg, env) =>
            if f_limit_softfork (d_flags d) && (SOFTFORK_DEPTH_LIMIT <=? length gs)%nat
            then Err SoftforkStackDepth
            else
              let g := {| g_expected :=
                            match ext with
                            | OsPreHardFork =>
                                match gs with g :: _ => g_expected g | [] => cost + max_cost end
                            | _ => cost + expected_cost
                            end;
                          g_opset := ext |} in
              let guard_cost := if f_new_cost_model (d_flags d) then NEW_GUARD_COST else GUARD_COST in
              do '(c1, _) <- ev (g :: gs) (cost + guard_cost) prg env;
              do _ <- chk (g :: gs) M c1;
              if negb (cost_exempt g) && negb (c1 =? g_expected g) then Err SoftforkCostMismatch
              else Ok (c1, nil_s)
        end.

    Definition apply_big (gs : list guard) (cost : N) (operator args : sexp) : res (N * sexp) :=
      do _ <- chk gs M cost;
      if is_kw operator (d_apply d) then
        do '(new_operator, env) <- get_args2 args;
        ev gs (cost + APPLY_COST) new_operator env
      else if is_kw operator (d_softfork d) then guard_big gs cost args
      else
        do '(c, v) <- d_op d operator args (gs_emax gs M - cost) (gs_ext gs);
        Ok (cost + c, v).

    Definition eval_body (gs : list guard) (cost : N) (p e : sexp) : res (N * sexp) :=
      match p with
      | Atom b =>
          do '(c, v) <- traverse_path b e;
          Ok (cost + c, v)
      | Cons (Cons new_operator tl) op_list =>
          match tl, new_operator with
          | Atom _, Atom _ => apply_big gs (cost + APPLY_COST) new_operator op_list
          | _, _ => bad_arg
          end
      | Cons (Atom b) op_list =>
          if is_kw (Atom b) (d_quote d) then Ok (cost + QUOTE_COST, op_list)
          else
            do _ <- nil_terminated op_list;
            do '(c1, args) <- eval_args gs (cost + OP_COST) op_list e;
            do '(c2, v) <- apply_big gs c1 (Atom b) args;
            if d_gc d (Atom b) then do _ <- chk gs M c2; Ok (c2, v) else Ok (c2, v)
      end.
  End Rec.

  Fixpoint eval (fuel : nat) (gs : list guard) (cost : N) (p e : sexp) : res (N * sexp) :=
    match fuel with
    | O => Err OutOfFuel
    | S f => eval_body (eval f) gs cost p e
    end.

  Definition run_big (fuel : nat) (p e : sexp) : res (N * sexp) :=
    do '(c, v) <- eval fuel [] 0 p e;
    do _ <- chk [] M c;
    Ok (c, v).
End Big.

Definition run_program_big (d : dialect) (fuel : nat) (program env : sexp) (max_cost : N)
  : res (N * sexp) :=
  run_big d (if max_cost =? 0 then COST_MAX else max_cost) fuel program env.
