(* CLVM integers: atoms read as big-endian two's-complement numbers (number.rs number_from_u8,
   allocator.rs number()/new_number()), and the minimal ("canonical") encoding of a number. *)
From Clvm Require Export Model.Bstr.
Open Scope N_scope.

(* big-endian bytes of v in exactly n bytes (low n bytes of v). Written with land/shiftr
   (= mod 256 / div 256, see Proofs/IntEncBasics.v) so that the extracted code is linear in the
   size of v: atoms of tens of kilobytes are read as numbers by the arithmetic operators. *)
Fixpoint be_bytes_acc (n : nat) (v : N) (acc : bytes) : bytes :=
  match n with O => acc | S k => be_bytes_acc k (N.shiftr v 8) (N.land v 255 :: acc) end.
Definition be_bytes (n : nat) (v : N) : bytes := be_bytes_acc n v [].

(* number of bytes needed for the unsigned value v (0 for 0) *)
Definition nbytes_u (v : N) : nat := Nat.div (N.to_nat (N.size v) + 7) 8.

Definition pow256 (n : nat) : N := N.shiftl 1 (8 * N.of_nat n).     (* = 256 ^ n *)

(* big-endian unsigned value, linear time (= Bstr.be_value, see Proofs/IntEncBasics.v) *)
Definition be_nat (b : bytes) : N := fold_left (fun acc x => N.shiftl acc 8 + x) b 0.

(* signed value of a byte string; the empty string is 0 *)
Definition int_of_bytes (b : bytes) : Z :=
  match b with
  | [] => 0%Z
  | x :: _ => if 128 <=? x then (Z.of_N (be_nat b) - Z.of_N (pow256 (length b)))%Z
              else Z.of_N (be_nat b)
  end.

(* unsigned value (u64_from_bytes & co.) *)
Definition uint_of_bytes (b : bytes) : N := be_nat b.

(* the minimal two's-complement encoding *)
Definition bytes_of_int (z : Z) : bytes :=
  match z with
  | Z0 => []
  | Zpos p =>
      let v := Npos p in
      let bs := be_bytes (nbytes_u v) v in
      match bs with
      | x :: _ => if 128 <=? x then 0 :: bs else bs
      | [] => bs
      end
  | Zneg p =>
      let m := Pos.pred_N p in                         (* |z| - 1 *)
      let n := S (Nat.div (N.to_nat (N.size m)) 8) in
      be_bytes n (pow256 n - Npos p)
  end.

(* a byte string is the canonical encoding of the number it denotes *)
Definition canonical_int (b : bytes) : bool :=
  match b with
  | [] => true
  | [x] => negb (x =? 0)
  | x :: y :: _ => negb (((x =? 0) && (y <? 128)) || ((x =? 255) && (128 <=? y)))
  end.

(* strip redundant leading sign bytes (what the Rust number -> atom path produces) *)
Definition limbs64 (z : Z) : N :=                   (* number of 64-bit limbs of |z| *)
  (N.size (Z.abs_N z) + 63) / 64.
