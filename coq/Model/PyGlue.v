(* The glue of the wheel's native API (wheel/src/api.rs:40-62, 104-187, adapt_response.rs):
   conversion of the 32-bit flag word, choice of the heap limit, decoding of program and
   environment, adaptation of the interpreter's response, format dispatch of deser_auto and the
   error adaptation of deser_2026. The interpreter and the non-classic decoders are parameters
   (their models belong to other properties); node_from_bytes is the classic model.
   Executable definitions only. *)
From Clvm Require Export Model.Err Model.Sexp Model.Classic Model.Flags.
Open Scope N_scope.

(* ClvmFlags::all().bits() *)
Definition ALL_FLAG_BITS : N :=
  fold_right N.lor 0
    [BIT_CANONICAL_INTS; BIT_NO_UNKNOWN_OPS; BIT_LIMIT_HEAP; BIT_RELAXED_BLS; BIT_LIMIT_SOFTFORK;
     BIT_ENABLE_GC; BIT_LIMITS; BIT_KECCAK_OUTSIDE_GUARD; BIT_DISABLE_OP; BIT_SHA256_TREE;
     BIT_SECP_OPS; BIT_MALACHITE; BIT_NEW_COST_MODEL].

(* ClvmFlags::from_bits_truncate *)
Definition from_bits_truncate (w : N) : N := N.land w ALL_FLAG_BITS.

Definition API_LIMITED_HEAP : N := 500000000.
Definition API_DEFAULT_HEAP : N := 4294967295.           (* Allocator::new(): u32::MAX *)

Definition api_heap_limit (bits : N) : N :=
  if has bits BIT_LIMIT_HEAP then API_LIMITED_HEAP else API_DEFAULT_HEAP.

Inductive api_result :=
| ApiOk (cost : N) (t : sexp)                     (* (cost, LazyNode) *)
| ApiValueError (e : errkind) (t : sexp)          (* ValueError((message, LazyNode)) from adapt_response *)
| ApiRaise (e : errkind)                          (* ValueError(message) from eval_to_py: undecodable input *)
| ApiOverflow.                                    (* OverflowError: argument does not fit u32 / u64 *)

Section Run.
  (* run_program of the core on trees: flag bits, heap limit, program, environment, max cost;
     an error carries the node EvalErr::node_ptr returns *)
  Variable core_run : N -> N -> sexp -> sexp -> N -> (N * sexp) + (errkind * sexp).

  Definition adapt_response (r : (N * sexp) + (errkind * sexp)) : api_result :=
    match r with
    | inl (cost, t) => ApiOk cost t
    | inr (e, t) => ApiValueError e t
    end.

  Definition run_serialized_chia_program (program args : bytes) (max_cost flags : N) : api_result :=
    if (4294967296 <=? flags) || (18446744073709551616 <=? max_cost) then ApiOverflow
    else
      let bits := from_bits_truncate flags in
      let heap := api_heap_limit bits in
      match node_from_bytes program with
      | Err e => ApiRaise e
      | Ok p =>
          match node_from_bytes args with
          | Err e => ApiRaise e
          | Ok a => adapt_response (core_run bits heap p a max_cost)
          end
      end.
End Run.

(* ---------------------------------------------------------------- format dispatch *)

Definition MAGIC_2026 : bytes := [0xfd; 0xff; 0x32; 0x30; 0x32; 0x36].

Fixpoint strip_prefix (p b : bytes) : option bytes :=
  match p, b with
  | [], _ => Some b
  | x :: p', y :: b' => if x =? y then strip_prefix p' b' else None
  | _ :: _, [] => None
  end.

Inductive pymsg := MsgEval (e : errkind) | MsgMissingPrefix.

Section Dispatch.
  Context {V : Type}.
  Variable de_2026 : bytes -> res V.          (* deserialize_2026 (checks and strips the prefix) *)
  Variable de_2026_body : bytes -> res V.     (* deserialize_2026_body_from_stream *)
  Variable de_backrefs : bytes -> res V.      (* node_from_bytes_backrefs *)

  Definition deser_auto (blob : bytes) : V + pymsg :=
    match strip_prefix MAGIC_2026 blob with
    | Some body => match de_2026_body body with Ok v => inl v | Err e => inr (MsgEval e) end
    | None => match de_backrefs blob with Ok v => inl v | Err e => inr (MsgEval e) end
    end.

  Definition deser_2026 (blob : bytes) : V + pymsg :=
    match de_2026 blob with
    | Ok v => inl v
    | Err e => match strip_prefix MAGIC_2026 blob with
               | None => inr MsgMissingPrefix
               | Some _ => inr (MsgEval e)
               end
    end.
End Dispatch.
