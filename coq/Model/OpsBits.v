(* more_ops.rs on the tree store: shifts, bitwise logic and boolean operators
   op_ash op_lsh op_logand op_logior op_logxor op_lognot op_not op_any op_all.
   Conventions: header of OpsArith.v. *)
From Clvm Require Export Model.OpsArith.
Open Scope N_scope.

(* `if a1 > 0 { i0 << a1 } else { i0 >> -a1 }` on a BigInt: >> rounds towards minus infinity *)
Definition shift_number (i0 a1 : Z) : Z :=
  if (0 <? a1)%Z then Z.shiftl i0 a1 else Z.shiftr i0 (- a1).

(* op_ash (more_ops.rs:1365) *)
Definition op_ash : opfn := fun _ args _ =>
  do '(n0, n1) <- get_args2 args;
  do '(i0, l0) <- int_atom n0;
  do a1 <- i32_atom n1;
  if ((a1 <? -65535) || (65535 <? a1))%Z then Err ShiftTooLarge
  else
    let v := shift_number i0 a1 in
    let l1 := limbs v in
    let cost := ASHIFT_BASE_COST + (l0 + l1) * ASHIFT_COST_PER_BYTE in
    Ok (malloc_cost cost (bytes_of_int v)).

(* op_lsh (:1429): the first argument is read as an unsigned number *)
Definition op_lsh : opfn := fun _ args _ =>
  do '(n0, n1) <- get_args2 args;
  do b0 <- atom_of n0;
  do a1 <- i32_atom n1;
  if ((a1 <? -65535) || (65535 <? a1))%Z then Err ShiftTooLarge
  else
    let i0 := Z.of_N (uint_of_bytes b0) in
    let l0 := blen b0 in
    let v := shift_number i0 a1 in
    let l1 := limbs v in
    let cost := LSHIFT_BASE_COST + (l0 + l1) * LSHIFT_COST_PER_BYTE in
    Ok (malloc_cost cost (bytes_of_int v)).

(* binop_reduction (:1484). Per argument: int_atom (pair -> error); new model: cost +=
   max(len, pos_acc.limbs) * 3 and fold into the single accumulator; old model: cost += len * 3
   and fold negative arguments into neg_acc, the others into pos_acc; cost += 264; check_cost.
   Old model, at the end: pos_acc = op(pos_acc, neg_acc). *)
Fixpoint binop_loop (new_cost_model : bool) (op_f : Z -> Z -> Z) (args : sexp) (cost : N)
    (pos_acc neg_acc : Z) (max_cost : N) : res (N * (Z * Z)) :=
  match args with
  | Atom _ => Ok (cost, (pos_acc, neg_acc))
  | Cons arg rest =>
      match arg with
      | Cons _ _ => bad_arg
      | Atom b =>
          let len := blen b in
          let cost :=
            if new_cost_model then cost + N.max len (limbs pos_acc) * LOG_COST_PER_BYTE
            else cost + len * LOG_COST_PER_BYTE in
          let cost := cost + LOG_COST_PER_ARG in
          do _ <- check_cost cost max_cost;
          let n0 := int_of_bytes b in
          if new_cost_model then binop_loop new_cost_model op_f rest cost (op_f pos_acc n0) neg_acc max_cost
          else if (n0 <? 0)%Z then binop_loop new_cost_model op_f rest cost pos_acc (op_f neg_acc n0) max_cost
          else binop_loop new_cost_model op_f rest cost (op_f pos_acc n0) neg_acc max_cost
      end
  end.

Definition binop_reduction (initial_value : Z) (op_f : Z -> Z -> Z) : opfn := fun f args max_cost =>
  let new_cost_model := f_new_cost_model f in
  do '(cost, (pos_acc, neg_acc)) <-
    binop_loop new_cost_model op_f args LOG_BASE_COST initial_value initial_value max_cost;
  let pos_acc := if new_cost_model then pos_acc else op_f pos_acc neg_acc in
  Ok (malloc_cost cost (bytes_of_int pos_acc)).

Definition op_logand : opfn := binop_reduction (-1)%Z Z.land.
Definition op_logior : opfn := binop_reduction 0%Z Z.lor.
Definition op_logxor : opfn := binop_reduction 0%Z Z.lxor.

(* op_lognot (:1550) *)
Definition op_lognot : opfn := fun _ args _ =>
  do n <- get_args1 args;
  do '(n, len) <- int_atom n;
  let n := Z.lnot n in
  let cost := LOGNOT_BASE_COST + len * LOGNOT_COST_PER_BYTE in
  Ok (malloc_cost cost (bytes_of_int n)).

(* op_not (:1564) *)
Definition op_not : opfn := fun _ args _ =>
  do n <- get_args1 args;
  Ok (BOOL_BASE_COST, if nilp n then one_s else nil_s).

(* op_any (:1571) / op_all (:1588): per argument cost += 300; check_cost *)
Fixpoint bool_loop (args : sexp) (cost : N) (acc : bool) (is_any : bool) (max_cost : N) : res (N * bool) :=
  match args with
  | Atom _ => Ok (cost, acc)
  | Cons arg rest =>
      let cost := cost + BOOL_COST_PER_ARG in
      do _ <- check_cost cost max_cost;
      bool_loop rest cost (if is_any then acc || negb (nilp arg) else acc && negb (nilp arg)) is_any max_cost
  end.

Definition op_any : opfn := fun _ args max_cost =>
  do '(cost, is_any) <- bool_loop args BOOL_BASE_COST false true max_cost;
  Ok (cost, if is_any then one_s else nil_s).

Definition op_all : opfn := fun _ args max_cost =>
  do '(cost, is_all) <- bool_loop args BOOL_BASE_COST true false max_cost;
  Ok (cost, if is_all then one_s else nil_s).
