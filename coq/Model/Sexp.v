(* CLVM trees: the specification-level value type. An atom is its byte string. *)
From Clvm Require Export Model.Bstr.

Inductive sexp := Atom (b : bytes) | Cons (l r : sexp).

Definition nil_s : sexp := Atom [].
Definition one_s : sexp := Atom [1%N].

Fixpoint sexp_eqb (a b : sexp) : bool :=
  match a, b with
  | Atom x, Atom y => bytes_eqb x y
  | Cons l1 r1, Cons l2 r2 => sexp_eqb l1 l2 && sexp_eqb r1 r2
  | _, _ => false
  end.

Fixpoint wf_sexp (t : sexp) : bool :=
  match t with Atom b => wf_bytes b | Cons l r => wf_sexp l && wf_sexp r end.

Fixpoint n_pairs (t : sexp) : nat :=
  match t with Atom _ => O | Cons l r => S (n_pairs l + n_pairs r) end.
Fixpoint n_nodes (t : sexp) : nat :=
  match t with Atom _ => 1%nat | Cons l r => S (n_nodes l + n_nodes r) end.
