(* Classic CLVM serialization: model of src/serde/{write_atom,ser,parse_atom,de,tools,
   serialized_length,object_cache}.rs at the level of trees and remaining-input lists.
   Executable definitions only. A Cursor is modelled by the list of bytes that remain to be
   read; "seek past the end, then compare position with length" is the failure of [take_n]. *)
From Clvm Require Export Model.Err Model.Sexp.
Open Scope N_scope.

(* ------------------------------------------------------------------ write_atom.rs *)

(* write_atom_encoding_prefix_with_size; None models Err(SerializationError) for size >= 2^34 *)
Definition atom_prefix (atom_0 : N) (size : N) : option bytes :=
  if size =? 0 then Some [0x80]
  else if (size =? 1) && (atom_0 <? 0x80) then Some []
  else if size <? 0x40 then Some [N.lor 0x80 size]
  else if size <? 0x2000 then Some [N.lor 0xc0 (N.shiftr size 8); size mod 256]
  else if size <? 0x100000 then
    Some [N.lor 0xe0 (N.shiftr size 16); N.land (N.shiftr size 8) 0xff; N.land size 0xff]
  else if size <? 0x8000000 then
    Some [N.lor 0xf0 (N.shiftr size 24); N.land (N.shiftr size 16) 0xff;
          N.land (N.shiftr size 8) 0xff; N.land size 0xff]
  else if size <? 0x400000000 then
    Some [N.lor 0xf8 (N.shiftr size 32); N.land (N.shiftr size 24) 0xff;
          N.land (N.shiftr size 16) 0xff; N.land (N.shiftr size 8) 0xff; N.land size 0xff]
  else None.

Definition atom_0 (b : bytes) : N := match b with [] => 0 | x :: _ => x end.

(* specification-level serializer (no limit) *)
Definition ser_atom (b : bytes) : option bytes :=
  match atom_prefix (atom_0 b) (blen b) with Some p => Some (p ++ b) | None => None end.

Fixpoint ser (t : sexp) : option bytes :=
  match t with
  | Atom b => ser_atom b
  | Cons l r =>
      match ser l, ser r with
      | Some a, Some c => Some (0xff :: a ++ c)
      | _, _ => None
      end
  end.

(* ------------------------------------------------------------------ ser.rs: LimitedWriter + node_to_stream *)

Record lwriter := { lw_out : bytes; lw_limit : N }.

(* one write_all(chunk) on a LimitedWriter<Cursor<Vec<u8>>>; None = io::ErrorKind::OutOfMemory.
   write_all of an empty slice performs no write call. *)
Definition lw_write (w : lwriter) (chunk : bytes) : option lwriter :=
  match chunk with
  | [] => Some w
  | _ => if lw_limit w <? blen chunk then None
         else Some {| lw_out := lw_out w ++ chunk; lw_limit := lw_limit w - blen chunk |}
  end.

(* write_atom: prefix in one write_all, contents in another.
   After the fix: commit, an OutOfMemory io error maps to EvalErr::OutOfMemory everywhere. *)
Definition lw_write_atom (w : lwriter) (b : bytes) : res lwriter :=
  match atom_prefix (atom_0 b) (blen b) with
  | None => Err SerializationError
  | Some p =>
      match lw_write w p with
      | None => Err OutOfMemory
      | Some w1 => match lw_write w1 b with None => Err OutOfMemory | Some w2 => Ok w2 end
      end
  end.

(* node_to_stream: explicit stack of nodes still to write *)
Fixpoint node_to_stream (fuel : nat) (values : list sexp) (w : lwriter) : res lwriter :=
  match fuel with
  | O => Err OutOfFuel
  | S f =>
      match values with
      | [] => Ok w
      | Atom b :: vs => do w1 <- lw_write_atom w b; node_to_stream f vs w1
      | Cons l r :: vs =>
          match lw_write w [0xff] with
          | None => Err OutOfMemory
          | Some w1 => node_to_stream f (l :: r :: vs) w1
          end
      end
  end.

Definition node_to_bytes_limit (t : sexp) (limit : N) : res bytes :=
  res_map lw_out (node_to_stream (2 * n_nodes t + 1) [t] {| lw_out := []; lw_limit := limit |}).

Definition node_to_bytes (t : sexp) : res bytes := node_to_bytes_limit t 2000000.

(* ------------------------------------------------------------------ parse_atom.rs *)

Definition acc_size (bs : bytes) : N := fold_left (fun acc b => N.shiftl acc 8 + b) bs 0.

(* decode_size_with_offset: returns (prefix length, atom size, remaining input) *)
Definition decode_size_with_offset (initial_b : N) (rest : bytes) : res (N * N * bytes) :=
  if N.land initial_b 0x80 =? 0 then Err (InternalError 1)
  else
    let k := leading_ones8 initial_b in
    if 8 <=? k then Err SerializationError
    else
      let b := N.land initial_b (N.shiftr 0xff k) in
      match take_exact (N.to_nat (k - 1)) rest with
      | None => Err SerializationError                    (* read_exact: UnexpectedEof *)
      | Some (more, rest') =>
          if 6 <? k then Err SerializationError
          else
            let size := acc_size (b :: more) in
            if 0x400000000 <=? size then Err SerializationError else Ok (k, size, rest')
      end.

Definition decode_size (initial_b : N) (rest : bytes) : res (N * bytes) :=
  do '(_, size, rest') <- decode_size_with_offset initial_b rest; Ok (size, rest').

(* parse_atom_ptr + parse_atom (the allocator's limits are outside this model) *)
Definition parse_atom_node (first : N) (rest : bytes) : res (bytes * bytes) :=
  if first =? 0x01 then Ok ([1], rest)
  else if first =? 0x80 then Ok ([], rest)
  else if first <=? 0x7f then Ok ([first], rest)
  else
    do '(size, rest') <- decode_size first rest;
    match take_n size rest' with
    | None => Err SerializationError
    | Some (blob, rest'') => Ok (blob, rest'')
    end.

(* ------------------------------------------------------------------ de.rs: node_from_stream *)

Inductive parse_op := OpSExp | OpCons.

Section StackDecoder.
  (* the three decoders share the ParseOp loop; they differ in how an atom is read and in
     what a value is *)
  Context {V : Type}.
  Variable read_atom : N -> bytes -> res (V * bytes).
  Variable mk_pair : V -> V -> V.

  Fixpoint de_loop (fuel : nat) (ops : list parse_op) (vals : list V) (bs : bytes)
    : res (V * bytes) :=
    match fuel with
    | O => Err OutOfFuel
    | S f =>
        match ops with
        | [] => match vals with v :: _ => Ok (v, bs) | [] => Err (Panic 1) end
        | OpSExp :: ops' =>
            match bs with
            | [] => Err SerializationError
            | b :: r =>
                if b =? 0xff then de_loop f (OpSExp :: OpSExp :: OpCons :: ops') vals r
                else do '(a, r') <- read_atom b r; de_loop f ops' (a :: vals) r'
            end
        | OpCons :: ops' =>
            match vals with
            | v2 :: v1 :: vs => de_loop f ops' (mk_pair v1 v2 :: vs) bs
            | _ => Err (Panic 2)
            end
        end
    end.

  (* recursive reference parser with the same atom reader *)
  Fixpoint parse_rec (fuel : nat) (bs : bytes) : res (V * bytes) :=
    match fuel with
    | O => Err OutOfFuel
    | S f =>
        match bs with
        | [] => Err SerializationError
        | b :: r =>
            if b =? 0xff then
              do '(l, r1) <- parse_rec f r;
              do '(rt, r2) <- parse_rec f r1;
              Ok (mk_pair l rt, r2)
            else read_atom b r
        end
    end.
End StackDecoder.

Definition de_fuel (bs : bytes) : nat := 2 * length bs + 2.

Definition read_atom_node (b : N) (r : bytes) : res (sexp * bytes) :=
  do '(a, r') <- parse_atom_node b r; Ok (Atom a, r').

Definition node_from_stream (bs : bytes) : res (sexp * bytes) :=
  de_loop read_atom_node Cons (de_fuel bs) [OpSExp] [] bs.

Definition node_from_bytes (bs : bytes) : res sexp := res_map fst (node_from_stream bs).

(* the recursive specification of the classic format *)
Definition parse (bs : bytes) : res (sexp * bytes) :=
  parse_rec read_atom_node Cons (S (length bs)) bs.

(* ------------------------------------------------------------------ tools.rs *)

Section Hashing.
  Variable H : bytes -> bytes.                       (* sha256 *)

  Definition hash_atom (b : bytes) : bytes := H (1 :: b).
  Definition hash_pair (l r : bytes) : bytes := H (2 :: l ++ r).

  Fixpoint treehash (t : sexp) : bytes :=
    match t with
    | Atom b => hash_atom b
    | Cons l r => hash_pair (treehash l) (treehash r)
    end.

  (* tree_hash_from_stream's own atom reader *)
  Definition read_atom_hash (b : N) (r : bytes) : res (bytes * bytes) :=
    if b =? 0x80 then Ok (hash_atom [], r)
    else if b <=? 0x7f then Ok (hash_atom [b], r)
    else
      do '(size, r') <- decode_size b r;
      if blen r' <? size then Err SerializationError
      else Ok (hash_atom (firstn (N.to_nat size) r'), skipn (N.to_nat size) r').

  Definition tree_hash_from_stream (bs : bytes) : res (bytes * bytes) :=
    de_loop read_atom_hash hash_pair (de_fuel bs) [OpSExp] [] bs.
End Hashing.

(* serialized_length_from_bytes_trusted: counter loop; also steps over back-references *)
Fixpoint trusted_len_loop (fuel : nat) (counter : N) (bs : bytes) : res bytes :=
  match fuel with
  | O => Err OutOfFuel
  | S f =>
      if counter =? 0 then Ok bs
      else
        let counter := counter - 1 in
        match bs with
        | [] => Err SerializationError
        | b :: r =>
            if b =? 0xff then trusted_len_loop f (counter + 2) r
            else if b =? 0xfe then
              match r with
              | [] => Err SerializationError
              | fb :: r1 =>
                  if 0x7f <? fb then
                    do '(size, r2) <- decode_size fb r1;
                    match take_n size r2 with
                    | None => Err SerializationError
                    | Some (_, r3) => trusted_len_loop f counter r3
                    end
                  else trusted_len_loop f counter r1
              end
            else if (b =? 0x80) || (b <=? 0x7f) then trusted_len_loop f counter r
            else
              do '(size, r1) <- decode_size b r;
              match take_n size r1 with
              | None => Err SerializationError
              | Some (_, r2) => trusted_len_loop f counter r2
              end
        end
  end.

Definition serialized_length_trusted (bs : bytes) : res N :=
  do rest <- trusted_len_loop (de_fuel bs) 1 bs; Ok (blen bs - blen rest).

(* is_canonical_atom: Some rest' = true with the cursor advanced; None = false.
   prefix_len outside 1..6 would be the panic!("unexpected atom length prefix") *)
Inductive canon_res := CTrue (rest : bytes) | CFalse | CPanic.

Definition canon_min_value (prefix_len : N) : option N :=
  if prefix_len =? 1 then Some 1
  else if prefix_len =? 2 then Some 0x40
  else if prefix_len =? 3 then Some 0x2000
  else if prefix_len =? 4 then Some 0x100000
  else if prefix_len =? 5 then Some 0x8000000
  else if prefix_len =? 6 then Some 0x400000000
  else None.

Definition is_canonical_atom (first : N) (r : bytes) : canon_res :=
  if (first =? 0x80) || (first <=? 0x7f) then CTrue r
  else
    match decode_size_with_offset first r with
    | Err _ => CFalse
    | Ok (prefix_len, atom_len, r1) =>
        match canon_min_value prefix_len with
        | None => CPanic
        | Some min_value =>
            if atom_len =? 1 then
              match r1 with
              | [] => CFalse
              | v :: r2 => if v <? 0x80 then CFalse
                           else if min_value <=? atom_len then CTrue r2 else CFalse
              end
            else
              match take_n atom_len r1 with
              | None => CFalse           (* position beyond the end: caught by the caller *)
              | Some (_, r2) => if min_value <=? atom_len then CTrue r2 else CFalse
              end
        end
    end.

Inductive bool_or_panic := BTrue | BFalse | BPanic | BFuel.

Fixpoint canonical_loop (fuel : nat) (counter : N) (bs : bytes) : bool_or_panic :=
  match fuel with
  | O => BFuel
  | S f =>
      if counter =? 0 then (match bs with [] => BTrue | _ => BFalse end)
      else
        let counter := counter - 1 in
        match bs with
        | [] => BFalse
        | b :: r =>
            if b =? 0xff then canonical_loop f (counter + 2) r
            else if b =? 0xfe then
              match r with
              | [] => BFalse
              | b2 :: r1 =>
                  match is_canonical_atom b2 r1 with
                  | CTrue r2 => canonical_loop f counter r2
                  | CFalse => BFalse
                  | CPanic => BPanic
                  end
              end
            else
              match is_canonical_atom b r with
              | CTrue r2 => canonical_loop f counter r2
              | CFalse => BFalse
              | CPanic => BPanic
              end
        end
  end.

Definition is_canonical_serialization (bs : bytes) : bool_or_panic :=
  canonical_loop (de_fuel bs) 1 bs.

(* ------------------------------------------------------------------ serialized_length.rs / object_cache.rs *)

Definition u32 (x : N) : N := x mod 4294967296.

(* serialized_length_atom: all arithmetic in u32 (buf.len() as u32 truncates; the additions
   would overflow only for lb >= 2^32 - 5, reported as Overflow) *)
Definition serialized_length_atom (b : bytes) : res N :=
  let lb := u32 (blen b) in
  if (lb =? 0) || ((lb =? 1) && (atom_0 b <? 128)) then Ok 1
  else if lb <? 0x40 then Ok (1 + lb)
  else if lb <? 0x2000 then Ok (2 + lb)
  else if lb <? 0x100000 then Ok (3 + lb)
  else if lb <? 0x8000000 then Ok (4 + lb)
  else if 5 + lb <? 4294967296 then Ok (5 + lb) else Err (Overflow 1).

Definition sat_add64 (a b : N) : N := N.min (a + b) 18446744073709551615.

(* object_cache::serialized_length via ObjectCache: the cached recursion computes this *)
Fixpoint cache_serialized_length (t : sexp) : res N :=
  match t with
  | Atom b => serialized_length_atom b
  | Cons l r =>
      do a <- cache_serialized_length l;
      do c <- cache_serialized_length r;
      Ok (sat_add64 (sat_add64 1 a) c)
  end.

(* ------------------------------------------------------------------ de_tree.rs: parse_triples *)

Inductive triple :=
| TAtom (start end_ atom_offset : N)
| TPair (start end_ right_index : N).

Inductive op_ref := ParseObj | SaveEnd (index : nat) | SaveRightIndex (index : nat).

Fixpoint update_nth {A} (i : nat) (f : A -> option A) (l : list A) : option (list A) :=
  match l, i with
  | [], _ => None
  | x :: r, O => match f x with Some y => Some (y :: r) | None => None end
  | x :: r, S j => match update_nth j f r with Some r' => Some (x :: r') | None => None end
  end.

Section Triples.
  Variable H : bytes -> bytes.

  (* r and tree_hashes are kept in push order (index i = nth i) *)
  Fixpoint triples_loop (fuel : nat) (ops : list op_ref) (r : list triple) (th : list bytes)
           (cursor : N) (bs : bytes) : res (list triple * list bytes * bytes) :=
    match fuel with
    | O => Err OutOfFuel
    | S f =>
        match ops with
        | [] => Ok (r, th, bs)
        | ParseObj :: ops' =>
            match bs with
            | [] => Err SerializationError
            | b :: rest =>
                let start := cursor in
                let cursor := cursor + 1 in
                if b =? 0xff then
                  let index := length r in
                  triples_loop f (ParseObj :: SaveRightIndex index :: ParseObj :: SaveEnd index :: ops')
                               (r ++ [TPair start 0 0]) (th ++ [[]]) cursor rest
                else if b <=? 0x7f then
                  triples_loop f ops' (r ++ [TAtom start (start + 1) 0]) (th ++ [H [1; b]]) (start + 1) rest
                else
                  do '(atom_offset, atom_size, rest1) <- decode_size_with_offset b rest;
                  let end_ := start + atom_offset + atom_size in
                  match take_n atom_size rest1 with
                  | None => Err (InternalError 2)          (* copy terminated early *)
                  | Some (blob, rest2) =>
                      triples_loop f ops' (r ++ [TAtom start end_ atom_offset]) (th ++ [H (1 :: blob)]) end_ rest2
                  end
            end
        | SaveEnd index :: ops' =>
            match nth_error r index with
            | Some (TPair s _ ri) =>
                match nth_error th (S index), nth_error th (N.to_nat ri) with
                | Some hl, Some hr =>
                    match update_nth index (fun _ => Some (TPair s cursor ri)) r,
                          update_nth index (fun _ => Some (H (2 :: hl ++ hr))) th with
                    | Some r', Some th' => triples_loop f ops' r' th' cursor bs
                    | _, _ => Err (Panic 3)
                    end
                | _, _ => Err (Panic 4)
                end
            | _ => Err (Panic 5)
            end
        | SaveRightIndex index :: ops' =>
            let new_index := N.of_nat (length r) in
            match nth_error r index with
            | Some (TPair s e _) =>
                match update_nth index (fun _ => Some (TPair s e new_index)) r with
                | Some r' => triples_loop f ops' r' th cursor bs
                | None => Err (Panic 6)
                end
            | _ => Err (Panic 7)
            end
        end
    end.

  Definition parse_triples (bs : bytes) : res (list triple * list bytes * bytes) :=
    triples_loop (4 * length bs + 4) [ParseObj] [] [] 0 bs.

  (* reference: the triple array and the hash array of a tree serialized at offset [start],
     first free index [base] *)
End Triples.
