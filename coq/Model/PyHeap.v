(* clvm_tree_to_lazy_node (wheel/src/api.rs:193-298): Python objects with addresses, a `.pair`
   accessor that may build fresh children, an address oracle, and the algorithm transcribed.
   Executable definitions only.

   Python objects. An object is identified by its address (`obj.as_ptr() as usize`, what `id()`
   returns). Three behaviours of the atom/pair protocol are modelled:
     OAtom a b      `.atom` is b
     OStable a l r  `.pair` returns the SAME two child objects on every call; the parent keeps
                    them alive (Program: `_pair` cache; CLVMTree: `_pair` cache; plain Python
                    classes storing their children). Sharing (one object reachable twice) is
                    expressed by equal addresses.
     OFresh a x y   `.pair` builds two NEW objects for the trees x and y on every call and does
                    not keep them (LazyNode.pair in wheel/src/lazy_node.rs builds two fresh
                    LazyNode objects per call; so does any class whose pair property constructs
                    its children). The new objects are again of this kind.
   Address oracle. The n-th object created during the call gets the address [oracle n live]
   where [live] lists the addresses of
   all objects alive at that moment: those reachable from the caller's root object, from the
   object being visited (the Rust variable `pyobj`), from the `Visit` items of the work stack
   (they own a reference) and -- in the repaired algorithm -- from the keep-alive vector.
   [py_alloc_valid]: the oracle never returns a live address. Nothing else is assumed (CPython's
   allocator reuses the most recently freed block of the same size class, which is the
   adversarial case).
   Reference counting is modelled by ownership: an object not reachable from any of those owners
   is freed at once, i.e. its address no longer occurs in [live].
   The Rust Allocator behind the result is modelled by the tree a NodePtr denotes; atom_map and
   pair_map (interning by content) return a node denoting the same tree as a newly built one and
   are therefore not modelled. `identity_map[&k]` on a missing key is the panic [Panic 1]. *)
From Clvm Require Export Model.Err Model.Sexp.
From Clvm Require Gen.PyConsts.
Open Scope N_scope.

Inductive pobj :=
| OAtom (addr : N) (b : bytes)
| OStable (addr : N) (l r : pobj)
| OFresh (addr : N) (x y : sexp).

Definition addr_of (o : pobj) : N :=
  match o with OAtom a _ => a | OStable a _ _ => a | OFresh a _ _ => a end.

Fixpoint tree_of (o : pobj) : sexp :=
  match o with
  | OAtom _ b => Atom b
  | OStable _ l r => Cons (tree_of l) (tree_of r)
  | OFresh _ x y => Cons x y
  end.

(* the object and everything it keeps alive *)
Fixpoint subobjs (o : pobj) : list pobj :=
  match o with
  | OStable _ l r => o :: subobjs l ++ subobjs r
  | _ => [o]
  end.

Definition addrs_of (o : pobj) : list N := map addr_of (subobjs o).

(* a fresh object for tree t at address a *)
Definition mk_fresh (a : N) (t : sexp) : pobj :=
  match t with Atom b => OAtom a b | Cons x y => OFresh a x y end.

Inductive witem :=
| Visit (o : pobj)                            (* owns a reference to o *)
| BuildPair (id left_id right_id : N).        (* addresses only *)

Definition witem_objs (w : witem) : list pobj :=
  match w with Visit o => [o] | BuildPair _ _ _ => [] end.

Definition idmap := list (N * sexp).          (* HashMap<usize, NodePtr>: the first binding wins *)

Fixpoint lookup (k : N) (m : idmap) : option sexp :=
  match m with
  | [] => None
  | (k', v) :: r => if k =? k' then Some v else lookup k r
  end.

Section Algorithm.
  Variable oracle : nat -> list N -> N.
  Variable keepalive : bool.          (* false: the code as it is; true: the repaired code *)
  Variable root : pobj.

  Definition live (stack : list witem) (keep : list pobj) (cur : pobj) : list N :=
    flat_map addrs_of (root :: cur :: flat_map witem_objs stack ++ keep).

  (* pyobj.getattr("pair") for a pair object *)
  Definition get_pair (n : nat) (stack : list witem) (keep : list pobj) (o : pobj)
    : option (pobj * pobj * nat) :=
    match o with
    | OAtom _ _ => None
    | OStable _ l r => Some (l, r, n)
    | OFresh _ x y =>
        let lv := live stack keep o in
        let a1 := oracle n lv in
        let a2 := oracle (S n) (a1 :: lv) in
        Some (mk_fresh a1 x, mk_fresh a2 y, S (S n))
    end.

  Fixpoint loop (fuel : nat) (n : nat) (stack : list witem) (m : idmap) (keep : list pobj) : res idmap :=
    match fuel with
    | O => Err OutOfFuel
    | S f =>
        match stack with
        | [] => Ok m
        | Visit o :: stack' =>
            let id := addr_of o in
            match lookup id m with
            | Some _ => loop f n stack' m keep                       (* `continue`; o is dropped *)
            | None =>
                let keep' := if keepalive then o :: keep else keep in
                match o with
                | OAtom _ b => loop f n stack' ((id, Atom b) :: m) keep'
                | _ =>
                    match get_pair n stack' keep' o with
                    | None => Err (Panic 2)
                    | Some (l, r, n') =>
                        let left_id := addr_of l in
                        let right_id := addr_of r in
                        match lookup left_id m, lookup right_id m with
                        | Some tl, Some tr => loop f n' stack' ((id, Cons tl tr) :: m) keep'
                        | ld, rd =>
                            loop f n' ((match ld with None => [Visit l] | Some _ => [] end) ++
                                    (match rd with None => [Visit r] | Some _ => [] end) ++
                                    BuildPair id left_id right_id :: stack') m keep'
                        end
                    end
                end
            end
        | BuildPair id left_id right_id :: stack' =>
            match lookup left_id m, lookup right_id m with
            | Some tl, Some tr => loop f n stack' ((id, Cons tl tr) :: m) keep
            | _, _ => Err (Panic 1)
            end
        end
    end.

  Definition conv_fuel : nat := 3 * n_nodes (tree_of root) + 3.

  Definition clvm_tree_to_lazy_node : res sexp :=
    do m <- loop conv_fuel 0 [Visit root] [] [];
    match lookup (addr_of root) m with
    | Some t => Ok t
    | None => Err (Panic 1)
    end.
End Algorithm.

(* which algorithm /repo has now (read from wheel/src/api.rs by the translator on this run) *)
Definition current_keepalive : bool := Gen.PyConsts.api_src_keepalive.

Definition py_alloc_valid (oracle : nat -> list N -> N) : Prop := forall n lv, ~ In (oracle n lv) lv.

(* an allocator that hands out address 100 whenever it is free and an unused address otherwise
   (address reuse as in the witness of F3) *)
Definition max_addr (lv : list N) : N := fold_right N.max 0 lv.
Definition reusing_oracle (_ : nat) (lv : list N) : N :=
  if existsb (N.eqb 100) lv then 1 + max_addr lv else 100.

(* replay of a recorded allocation trace (the correspondence run records the addresses CPython
   handed out); an exhausted trace continues with unused addresses *)
Definition trace_oracle (trace : list N) (n : nat) (lv : list N) : N :=
  match nth_error trace n with Some a => a | None => 1 + max_addr lv end.

(* an object none of whose parts builds fresh children *)
Fixpoint stable (o : pobj) : bool :=
  match o with
  | OAtom _ _ => true
  | OStable _ l r => stable l && stable r
  | OFresh _ _ _ => false
  end.

(* equal addresses among the objects kept alive by o denote the same tree (one object) *)
Definition addr_consistent (objs : list pobj) : Prop :=
  forall o1 o2, In o1 (flat_map subobjs objs) -> In o2 (flat_map subobjs objs) ->
    addr_of o1 = addr_of o2 -> tree_of o1 = tree_of o2.
