(* more_ops.rs:355 op_unknown and chia_dialect.rs:92 unknown_operator on the tree store.

   The cost of an unknown operator reads only the opcode bytes and, per argument, whether it is
   an atom and how long it is. [unknown_cost] therefore works on the list of argument lengths
   ([None] = the argument is a pair), so that multi-megabyte operands can be evaluated (and
   proved about) without materialising them; [op_unknown] maps an argument list to its lengths.

   u64 arithmetic exactly as the Rust has it: `checked_add`/`checked_mul` + CostExceeded in the
   NEW_COST_MODEL branches, `wrapping_mul` for the pre-hard-fork multiplier (more_ops.rs:522),
   and the plain `+`, `*`, `+=` elsewhere, whose wrap-around is the outcome [Err (Overflow site)]
   (a debug build panics there; it needs operands of 4 GiB and more). `assert!(cost > 0)`
   cannot fail: every base cost is at least 1 (lemma unknown_base_pos). *)
From Clvm Require Export Model.OpsArith.
Open Scope N_scope.

(* while let Some((arg, rest)) = allocator.next(args): the leading pairs; atom_len per element *)
Definition arg_lens (args : sexp) : list (option N) :=
  map (fun a => match a with Atom b => Some (blen b) | Cons _ _ => None end) (arg_list args).

(* u32_from_u8 (op_utils.rs): at most 4 bytes, big-endian, unsigned *)
Definition u32_from_u8 (buf : bytes) : option N :=
  if (4 <? length buf)%nat then None else Some (be_value buf).

Definition starts_ffff (op : bytes) : bool :=
  match op with x :: y :: _ => (x =? 255) && (y =? 255) | _ => false end.

(* cost_function 1, pre-hard-fork: plain arithmetic *)
Fixpoint unk_add_old (lens : list (option N)) (cost max_cost : N) : res N :=
  match lens with
  | [] => Ok cost
  | None :: _ => bad_arg
  | Some len :: r =>
      do cost <- plain_add 1 cost ARITH_COST_PER_ARG;
      do t <- plain_mul 2 len ARITH_COST_PER_BYTE;
      do cost <- plain_add 3 cost t;
      do _ <- check_cost cost max_cost;
      unk_add_old r cost max_cost
  end.

(* cost_function 1, new model: checked arithmetic, running maximum of the sizes *)
Fixpoint unk_add_new (lens : list (option N)) (cost acc_size max_cost : N) : res N :=
  match lens with
  | [] => Ok cost
  | None :: _ => bad_arg
  | Some len :: r =>
      do cost <- ok_or_cost (checked_add cost NEW_ARITH_COST_PER_ARG);
      do t <- ok_or_cost (checked_mul (N.max acc_size len) NEW_ARITH_COST_PER_BYTE);
      do cost <- ok_or_cost (checked_add cost t);
      let acc_size := N.max acc_size len in
      do _ <- check_cost cost max_cost;
      unk_add_new r cost acc_size max_cost
  end.

(* cost_function 2, the arguments after the first. Pre-hard-fork: plain arithmetic incl.
   `l0 += len` *)
Fixpoint unk_mul_old (lens : list (option N)) (cost l0 max_cost : N) : res N :=
  match lens with
  | [] => Ok cost
  | None :: _ => bad_arg
  | Some len :: r =>
      do cost <- plain_add 4 cost MUL_COST_PER_OP;
      do s <- plain_add 5 l0 len;
      do t <- plain_mul 6 s MUL_LINEAR_COST_PER_BYTE;
      do cost <- plain_add 7 cost t;
      do p <- plain_mul 8 l0 len;
      do cost <- plain_add 9 cost (p / MUL_SQUARE_COST_PER_BYTE_DIVIDER);
      do l0 <- plain_add 10 l0 len;
      do _ <- check_cost cost max_cost;
      unk_mul_old r cost l0 max_cost
  end.

(* new model: checked; `l0 += len` is plain but runs after l0.checked_add(len) succeeded *)
Fixpoint unk_mul_new (lens : list (option N)) (cost l0 max_cost : N) : res N :=
  match lens with
  | [] => Ok cost
  | None :: _ => bad_arg
  | Some len :: r =>
      do cost <- ok_or_cost (checked_add cost MUL_COST_PER_OP);
      do s <- ok_or_cost (checked_add l0 len);
      do t <- ok_or_cost (checked_mul s MUL_LINEAR_COST_PER_BYTE);
      do cost <- ok_or_cost (checked_add cost t);
      do p <- ok_or_cost (checked_mul l0 len);
      do cost <- ok_or_cost (checked_add cost (p / NEW_MUL_SQUARE_COST_PER_BYTE_DIVIDER));
      let l0 := s in
      do _ <- check_cost cost max_cost;
      unk_mul_new r cost l0 max_cost
  end.

(* cost_function 3: plain arithmetic in both models *)
Fixpoint unk_concat (lens : list (option N)) (cost max_cost : N) : res N :=
  match lens with
  | [] => Ok cost
  | None :: _ => bad_arg
  | Some len :: r =>
      do cost <- plain_add 11 cost CONCAT_COST_PER_ARG;
      do t <- plain_mul 12 CONCAT_COST_PER_BYTE len;
      do cost <- plain_add 13 cost t;
      do _ <- check_cost cost max_cost;
      unk_concat r cost max_cost
  end.

(* the `match cost_function` block: the base cost *)
Definition unknown_base (cost_function : N) (lens : list (option N)) (new_cost_model : bool)
    (max_cost : N) : res N :=
  if cost_function =? 0 then Ok 1
  else if cost_function =? 1 then
    (if new_cost_model then unk_add_new lens ARITH_BASE_COST 0 max_cost
     else unk_add_old lens ARITH_BASE_COST max_cost)
  else if cost_function =? 2 then
    match lens with
    | [] => Ok (if new_cost_model then NEW_MUL_BASE_COST else MUL_BASE_COST)
    | None :: _ => bad_arg
    | Some l0 :: r =>
        if new_cost_model then
          do t <- ok_or_cost (checked_mul l0 MUL_LINEAR_COST_PER_BYTE);
          do cost <- ok_or_cost (checked_add NEW_MUL_BASE_COST t);
          do _ <- check_cost cost max_cost;
          unk_mul_new r cost l0 max_cost
        else unk_mul_old r MUL_BASE_COST l0 max_cost
    end
  else if cost_function =? 3 then unk_concat lens CONCAT_BASE_COST max_cost
  else Ok 1.

Definition cost_function_of (op : bytes) : N := N.shiftr (N.land (last op 0) 192) 6.

Definition unknown_cost (op : bytes) (lens : list (option N)) (new_cost_model : bool)
    (max_cost : N) : res N :=
  if match op with [] => true | _ => starts_ffff op end then Err Reserved
  else
    (* op is not empty here: `last op 0` is its last byte, `removelast op` = op[0..len-1] *)
    let cost_function := cost_function_of op in
    match u32_from_u8 (removelast op) with
    | None => Err Invalid
    | Some cost_multiplier =>
        do cost <- unknown_base cost_function lens new_cost_model max_cost;
        do _ <- check_cost cost max_cost;
        do cost <- (if new_cost_model then ok_or_cost (checked_mul cost (cost_multiplier + 1))
                    else Ok (wrapping_mul cost (cost_multiplier + 1)));
        if U32_MAX <? cost then Err Invalid else Ok cost
    end.

Definition op_unknown (o : bytes) : opfn := fun f args max_cost =>
  do cost <- unknown_cost o (arg_lens args) (f_new_cost_model f) max_cost;
  Ok (cost, nil_s).

(* chia_dialect.rs:92 *)
Definition unknown_operator (o : bytes) : opfn := fun f args max_cost =>
  if f_no_unknown_ops f then Err Unimplemented else op_unknown o f args max_cost.

(* ---- the published rule, on unbounded naturals (more_ops.rs:362-391 + property C09) ---- *)

Fixpoint all_atoms (lens : list (option N)) : option (list N) :=
  match lens with
  | [] => Some []
  | None :: _ => None
  | Some l :: r => match all_atoms r with Some ls => Some (l :: ls) | None => None end
  end.

(* "computed like operator add": old: per argument 320 + 3 * len; new: 500 + 4 * (largest size
   so far, this argument included) *)
Fixpoint spec_add_base (ncm : bool) (ls : list N) (acc_size : N) : N :=
  match ls with
  | [] => 0
  | len :: r =>
      if ncm then NEW_ARITH_COST_PER_ARG + N.max acc_size len * NEW_ARITH_COST_PER_BYTE
                  + spec_add_base ncm r (N.max acc_size len)
      else ARITH_COST_PER_ARG + len * ARITH_COST_PER_BYTE + spec_add_base ncm r acc_size
  end.

(* "computed like operator mul": per argument after the first 885 + (l0 + len) * 6 +
   l0 * len / divider, the running size growing as l0 += len *)
Fixpoint spec_mul_steps (divider : N) (ls : list N) (l0 : N) : N :=
  match ls with
  | [] => 0
  | len :: r => MUL_COST_PER_OP + (l0 + len) * MUL_LINEAR_COST_PER_BYTE + (l0 * len) / divider
                + spec_mul_steps divider r (l0 + len)
  end.

Definition spec_mul_base (ncm : bool) (ls : list N) : N :=
  match ls with
  | [] => if ncm then NEW_MUL_BASE_COST else MUL_BASE_COST
  | l0 :: r =>
      if ncm then NEW_MUL_BASE_COST + l0 * MUL_LINEAR_COST_PER_BYTE
                  + spec_mul_steps NEW_MUL_SQUARE_COST_PER_BYTE_DIVIDER r l0
      else MUL_BASE_COST + spec_mul_steps MUL_SQUARE_COST_PER_BYTE_DIVIDER r l0
  end.

Fixpoint spec_concat_base (ls : list N) : N :=
  match ls with
  | [] => 0
  | len :: r => CONCAT_COST_PER_ARG + CONCAT_COST_PER_BYTE * len + spec_concat_base r
  end.

(* None = the argument list is not acceptable for this cost function *)
Definition spec_base (cost_function : N) (lens : list (option N)) (ncm : bool) : option N :=
  if cost_function =? 1 then
    match all_atoms lens with Some ls => Some (ARITH_BASE_COST + spec_add_base ncm ls 0) | None => None end
  else if cost_function =? 2 then
    match all_atoms lens with Some ls => Some (spec_mul_base ncm ls) | None => None end
  else if cost_function =? 3 then
    match all_atoms lens with Some ls => Some (CONCAT_BASE_COST + spec_concat_base ls) | None => None end
  else Some 1.

(* Some c: evaluates to nil with cost c; None: fails *)
Definition unknown_spec (op : bytes) (lens : list (option N)) (ncm : bool) (max_cost : N) : option N :=
  match op with
  | [] => None
  | _ =>
      if starts_ffff op then None
      else if (5 <? length op)%nat then None
      else
        let multiplier := be_value (removelast op) in
        match spec_base (cost_function_of op) lens ncm with
        | None => None
        | Some base =>
            if max_cost <? base then None
            else
              let c := base * (multiplier + 1) in
              if U32_MAX <? c then None else Some c
        end
  end.

(* strict mode: every unknown operator fails *)
Definition unknown_operator_spec (strict : bool) (op : bytes) (lens : list (option N)) (ncm : bool)
    (max_cost : N) : option N :=
  if strict then None else unknown_spec op lens ncm max_cost.
