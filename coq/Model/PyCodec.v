(* The wheel's pure-Python helpers: model of wheel/python/clvm_rs/ser.py (serializer, stream
   decoder), casts.py (int_to_bytes / int_from_bytes), curry_and_treehash.py + program.py
   (curry, uncurry, curry hash). Executable definitions only.

   Conventions. A Python `bytes` is a `bytes` (list N); a CLVMStorage object is the tree it
   denotes (`sexp`) -- the optional `_cached_serialization` / `_cached_sha256_treehash`
   attributes are modelled as absent (they are caches of the functions modelled here; the
   CLVMTree cache is discussed in Props/C28.v). A BinaryIO positioned somewhere is the list of
   bytes that remain; `f.read(n)` returning fewer than n bytes is the failure of
   [take_exact]/[take_n]. A raised Python exception is the outcome [PyRaise exc].
   `Program.__eq__/__ne__` against a bytes constant (tree-hash comparison in Python) is
   modelled as structural comparison of trees. *)
From Clvm Require Export Model.Err Model.Sexp Model.Classic Model.IntEnc.
From Clvm Require Gen.PyConsts.
Open Scope N_scope.

Inductive pyexc :=
| BadEncoding            (* ValueError("bad encoding") *)
| BlobTooLarge           (* ValueError("blob too large") *)
| BlobTooLong            (* ValueError("blob too long ...") *)
| PopEmpty (site : N)    (* IndexError: pop from empty list *)
| AssertFailed (site : N)
| PyOverflow             (* OverflowError: int too big to convert *)
| BadHashArg             (* ValueError("arguments must be bytes of len 32: ...") *)
| PyOutOfFuel.           (* artefact of the fuel of the model's loops; proved unreachable *)

Inductive pyres (A : Type) := PyOk (a : A) | PyRaise (e : pyexc).
Arguments PyOk {A} a.
Arguments PyRaise {A} e.

Definition pybind {A B} (m : pyres A) (f : A -> pyres B) : pyres B :=
  match m with PyOk a => f a | PyRaise e => PyRaise e end.

(* ------------------------------------------------------------------ ser.py: serializer *)

Definition PY_MAX_SINGLE_BYTE : N := 0x7F.
Definition PY_CONS_BOX_MARKER : N := 0xFF.

(* size_blob_for_blob *)
Definition py_size_blob (size : N) : pyres bytes :=
  if size <? 0x40 then PyOk [N.lor 0x80 size]
  else if size <? 0x2000 then PyOk [N.lor 0xC0 (N.shiftr size 8); N.land (N.shiftr size 0) 0xFF]
  else if size <? 0x100000 then
    PyOk [N.lor 0xE0 (N.shiftr size 16); N.land (N.shiftr size 8) 0xFF; N.land (N.shiftr size 0) 0xFF]
  else if size <? 0x8000000 then
    PyOk [N.lor 0xF0 (N.shiftr size 24); N.land (N.shiftr size 16) 0xFF;
          N.land (N.shiftr size 8) 0xFF; N.land (N.shiftr size 0) 0xFF]
  else if size <? 0x400000000 then
    PyOk [N.lor 0xF8 (N.shiftr size 32); N.land (N.shiftr size 24) 0xFF;
          N.land (N.shiftr size 16) 0xFF; N.land (N.shiftr size 8) 0xFF; N.land (N.shiftr size 0) 0xFF]
  else PyRaise BlobTooLong.

(* atom_to_byte_iterator, the yielded chunks concatenated *)
Definition py_atom_to_bytes (as_atom : bytes) : pyres bytes :=
  match as_atom with
  | [] => PyOk [0x80]
  | [x] => if x <=? PY_MAX_SINGLE_BYTE then PyOk [x]
           else pybind (py_size_blob 1) (fun p => PyOk (p ++ [x]))
  | _ => pybind (py_size_blob (blen as_atom)) (fun p => PyOk (p ++ as_atom))
  end.

(* sexp_to_byte_iterator consumed by sexp_to_bytes / sexp_to_stream: todo_stack, output so far *)
Fixpoint py_ser_loop (fuel : nat) (todo : list sexp) (out : bytes) : pyres bytes :=
  match fuel with
  | O => PyRaise PyOutOfFuel
  | S f =>
      match todo with
      | [] => PyOk out
      | Cons l r :: todo' => py_ser_loop f (l :: r :: todo') (out ++ [PY_CONS_BOX_MARKER])
      | Atom a :: todo' => pybind (py_atom_to_bytes a) (fun e => py_ser_loop f todo' (out ++ e))
      end
  end.

Definition py_sexp_to_bytes (t : sexp) : pyres bytes := py_ser_loop (S (n_nodes t)) [t] [].

(* ------------------------------------------------------------------ ser.py: stream decoder *)

(* the `while b & bit_mask` loop of _atom_from_stream: (bit_count, b with those bits cleared) *)
Fixpoint py_count_bits (fuel : nat) (b bit_mask bit_count : N) : N * N :=
  match fuel with
  | O => (bit_count, b)
  | S f =>
      if N.land b bit_mask =? 0 then (bit_count, b)
      else py_count_bits f (N.land b (N.lxor 0xFF bit_mask)) (N.shiftr bit_mask 1) (bit_count + 1)
  end.

(* _atom_from_stream(f, b, new_atom_f). [limit] = the largest accepted size-field length
   (bit_count): None = no check (the code before the fix: of F4), Some 6 = the repaired code,
   which raises ValueError("bad encoding") when bit_count > 6 *)
Definition py_atom_from_stream (limit : option N) (b : N) (rest : bytes) : pyres (bytes * bytes) :=
  if b =? 0x80 then PyOk ([], rest)
  else if b <=? PY_MAX_SINGLE_BYTE then PyOk ([b], rest)
  else
    let '(bit_count, b') := py_count_bits 9 b 0x80 0 in
    match (match limit with Some m => m <? bit_count | None => false end) with
    | true => PyRaise BadEncoding
    | false =>
        match (if 1 <? bit_count then take_exact (N.to_nat (bit_count - 1)) rest else Some ([], rest)) with
        | None => PyRaise BadEncoding
        | Some (more, rest') =>
            let size := be_value (b' :: more) in                     (* int.from_bytes(size_blob, "big") *)
            if 0x400000000 <=? size then PyRaise BlobTooLarge
            else match take_n size rest' with
                 | None => PyRaise BadEncoding
                 | Some (blob, rest'') => PyOk (blob, rest'')
                 end
        end
    end.

(* sexp_from_stream: op_stack of _op_read_sexp / _op_cons (the last list element is the top) *)
Fixpoint py_de_loop (limit : option N) (fuel : nat) (ops : list parse_op) (vals : list sexp) (bs : bytes)
  : pyres (sexp * bytes) :=
  match fuel with
  | O => PyRaise PyOutOfFuel
  | S f =>
      match ops with
      | [] => match vals with v :: _ => PyOk (v, bs) | [] => PyRaise (PopEmpty 1) end
      | OpSExp :: ops' =>
          match bs with
          | [] => PyRaise BadEncoding
          | b :: r =>
              if b =? PY_CONS_BOX_MARKER then py_de_loop limit f (OpSExp :: OpSExp :: OpCons :: ops') vals r
              else pybind (py_atom_from_stream limit b r)
                          (fun ar => py_de_loop limit f ops' (Atom (fst ar) :: vals) (snd ar))
          end
      | OpCons :: ops' =>
          match vals with
          | v_right :: v_left :: vs => py_de_loop limit f ops' (Cons v_left v_right :: vs) bs
          | _ => PyRaise (PopEmpty 2)
          end
      end
  end.

Definition py_sexp_from_stream (limit : option N) (bs : bytes) : pyres (sexp * bytes) :=
  py_de_loop limit (de_fuel bs) [OpSExp] [] bs.

(* which variant /repo has now: what the translator read from ser.py on this run (None = no
   `bit_count > k` check). Theorems exist for None (refuted) and Some 6 (agreement);
   Pins/C28.v fails on any other value. *)
Definition py_current_limit : option N := Gen.PyConsts.py_src_size_field_limit.

(* ------------------------------------------------------------------ casts.py *)

(* int.from_bytes(blob, "big", signed=True) for a non-empty blob *)
Definition py_from_bytes_signed (blob : bytes) : Z :=
  match blob with
  | [] => 0%Z
  | x :: _ => if N.testbit x 7 then (Z.of_N (be_value blob) - Z.of_N (pow256 (length blob)))%Z
              else Z.of_N (be_value blob)
  end.

Definition py_int_from_bytes (blob : bytes) : Z :=
  if blen blob =? 0 then 0%Z else py_from_bytes_signed blob.

Definition py_bit_length (v : Z) : N := N.size (Z.abs_N v).

(* v.to_bytes(n, "big", signed=True): OverflowError unless -2^(8n-1) <= v < 2^(8n-1) *)
Definition py_to_bytes_signed (n : nat) (v : Z) : pyres bytes :=
  let half := Z.of_N (pow256 n / 2) in
  if ((- half <=? v) && (v <? half))%Z
  then PyOk (be_bytes n (Z.to_N (v mod Z.of_N (pow256 n))))
  else PyRaise PyOverflow.

(* while len(r) > 1 and r[0] == (0xFF if r[1] & 0x80 else 0): r = r[1:] *)
Fixpoint py_strip (r : bytes) : bytes :=
  match r with
  | x :: ((y :: _) as tl) =>
      if x =? (if negb (N.land y 0x80 =? 0) then 0xFF else 0) then py_strip tl else r
  | _ => r
  end.

Definition py_int_to_bytes (v : Z) : pyres bytes :=
  if (v =? 0)%Z then PyOk []
  else
    let byte_count := N.to_nat ((py_bit_length v + 8) / 8) in
    pybind (py_to_bytes_signed byte_count v) (fun r => PyOk (py_strip r)).

(* ------------------------------------------------------------------ curry_and_treehash.py, program.py *)

Definition PY_NULL : bytes := [].
Definition PY_ONE : bytes := [1].
Definition PY_Q_KW : bytes := [1].
Definition PY_A_KW : bytes := [2].
Definition PY_C_KW : bytes := [4].

(* Program.to([x, y, z]) *)
Definition py_list3 (x y z : sexp) : sexp := Cons x (Cons y (Cons z (Atom PY_NULL))).

(* CurryTreehasher.curry followed by Program.to: `fixed_args = 1; for arg in reversed(args): ...` *)
Definition py_fixed_args (args : list sexp) : sexp :=
  fold_left (fun fixed arg => py_list3 (Atom PY_C_KW) (Cons (Atom PY_Q_KW) arg) fixed)
            (rev args) (Atom [1]).             (* int_to_bytes(1) = b"\x01" *)

Definition py_curry (m : sexp) (args : list sexp) : sexp :=
  py_list3 (Atom PY_A_KW) (Cons (Atom PY_Q_KW) m) (py_fixed_args args).

(* at(obj, position): true = "f", false = "r" *)
Fixpoint py_at (v : sexp) (position : list bool) {struct position} : option sexp :=
  match position with
  | [] => Some v
  | c :: p => match v with
              | Atom _ => None
              | Cons l r => py_at (if c then l else r) p
              end
  end.

(* `at(...) != K` for a bytes constant K *)
Definition py_ne (o : option sexp) (k : bytes) : bool :=
  match o with
  | Some (Atom a) => negb (bytes_eqb a k)
  | _ => true
  end.

Definition py_f := true.
Definition py_r := false.

(* the while loop of CurryTreehasher.uncurry: None = `return sexp, None` *)
Fixpoint py_uncurry_loop (fuel : nat) (core : option sexp) (core_items : list sexp) : pyres (option (list sexp)) :=
  match fuel with
  | O => PyRaise PyOutOfFuel
  | S f =>
      if negb (py_ne core PY_ONE) then PyOk (Some core_items)
      else
        match core with
        | None => PyRaise (AssertFailed 2)
        | Some c =>
            if py_ne (py_at c [py_f]) PY_C_KW || py_ne (py_at c [py_r; py_f; py_f]) PY_Q_KW || py_ne (py_at c [py_r; py_r; py_r]) PY_NULL
            then PyOk None
            else
              match py_at c [py_r; py_f; py_r] with
              | None => PyRaise (AssertFailed 3)
              | Some new_item => py_uncurry_loop f (py_at c [py_r; py_r; py_f]) (core_items ++ [new_item])
              end
        end
  end.

Definition py_uncurry (s : sexp) : pyres (sexp * option (list sexp)) :=
  if py_ne (py_at s [py_f]) PY_A_KW || py_ne (py_at s [py_r; py_f; py_f]) PY_Q_KW || py_ne (py_at s [py_r; py_r; py_r]) PY_NULL
  then PyOk (s, None)
  else
    match py_at s [py_r; py_f; py_r] with
    | None => PyRaise (AssertFailed 1)
    | Some uncurried_function =>
        pybind (py_uncurry_loop (S (n_nodes s)) (py_at s [py_r; py_r; py_f]) [])
               (fun r => match r with
                         | None => PyOk (s, None)
                         | Some items => PyOk (uncurried_function, Some items)
                         end)
    end.

Section CurryHash.
  Variable H : bytes -> bytes.                       (* sha256 *)

  (* tree_hash.py shatree_atom / shatree_pair = Classic.hash_atom / hash_pair (prefixes 01, 02) *)
  Definition py_shatree_atom (a : bytes) : bytes := H (1 :: a).
  Definition py_shatree_pair (l r : bytes) : bytes := H (2 :: l ++ r).

  Definition q_kw_treehash := py_shatree_atom PY_Q_KW.
  Definition c_kw_treehash := py_shatree_atom PY_C_KW.
  Definition a_kw_treehash := py_shatree_atom PY_A_KW.
  Definition null_treehash := py_shatree_atom PY_NULL.
  Definition one_treehash := py_shatree_atom PY_ONE.

  Fixpoint py_curried_values_tree_hash (arguments : list bytes) : bytes :=
    match arguments with
    | [] => one_treehash
    | a0 :: rest =>
        let inner_curried_values := py_curried_values_tree_hash rest in
        py_shatree_pair c_kw_treehash
          (py_shatree_pair (py_shatree_pair q_kw_treehash a0)
                           (py_shatree_pair inner_curried_values null_treehash))
    end.

  Definition py_curry_and_treehash (hash_of_quoted_mod_hash : bytes) (hashed_arguments : list bytes) : pyres bytes :=
    if forallb (fun arg => Nat.eqb (length arg) 32) hashed_arguments then
      let curried_values := py_curried_values_tree_hash hashed_arguments in
      PyOk (py_shatree_pair a_kw_treehash
              (py_shatree_pair hash_of_quoted_mod_hash
                 (py_shatree_pair curried_values null_treehash)))
    else PyRaise BadHashArg.

  (* Program.curry_hash(self, *args) with self.tree_hash() = mod_hash *)
  Definition py_curry_hash (mod_hash : bytes) (hashed_arguments : list bytes) : pyres bytes :=
    py_curry_and_treehash (py_shatree_pair q_kw_treehash mod_hash) hashed_arguments.
End CurryHash.
