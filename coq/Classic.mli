open BinNat
open BinNums
open Bstr
open Datatypes
open Err
open List
open Nat
open Sexp

val atom_prefix : coq_N -> coq_N -> bytes option

val atom_0 : bytes -> coq_N

val ser_atom : bytes -> bytes option

val ser : sexp -> bytes option

type lwriter = { lw_out : bytes; lw_limit : coq_N }

val lw_write : lwriter -> bytes -> lwriter option

val lw_write_atom : lwriter -> bytes -> lwriter res

val node_to_stream : nat -> sexp list -> lwriter -> lwriter res

val node_to_bytes_limit : sexp -> coq_N -> bytes res

val node_to_bytes : sexp -> bytes res

val acc_size : bytes -> coq_N

val decode_size_with_offset : coq_N -> bytes -> ((coq_N * coq_N) * bytes) res

val decode_size : coq_N -> bytes -> (coq_N * bytes) res

val parse_atom_node : coq_N -> bytes -> (bytes * bytes) res

type parse_op =
| OpSExp
| OpCons

val de_loop :
  (coq_N -> bytes -> ('a1 * bytes) res) -> ('a1 -> 'a1 -> 'a1) -> nat ->
  parse_op list -> 'a1 list -> bytes -> ('a1 * bytes) res

val parse_rec :
  (coq_N -> bytes -> ('a1 * bytes) res) -> ('a1 -> 'a1 -> 'a1) -> nat ->
  bytes -> ('a1 * bytes) res

val de_fuel : bytes -> nat

val read_atom_node : coq_N -> bytes -> (sexp * bytes) res

val node_from_stream : bytes -> (sexp * bytes) res

val parse : bytes -> (sexp * bytes) res

val hash_atom : (bytes -> bytes) -> bytes -> bytes

val hash_pair : (bytes -> bytes) -> bytes -> bytes -> bytes

val treehash : (bytes -> bytes) -> sexp -> bytes

val read_atom_hash : (bytes -> bytes) -> coq_N -> bytes -> (bytes * bytes) res

val tree_hash_from_stream : (bytes -> bytes) -> bytes -> (bytes * bytes) res

val trusted_len_loop : nat -> coq_N -> bytes -> bytes res

val serialized_length_trusted : bytes -> coq_N res

type canon_res =
| CTrue of bytes
| CFalse
| CPanic

val canon_min_value : coq_N -> coq_N option

val is_canonical_atom : coq_N -> bytes -> canon_res

type bool_or_panic =
| BTrue
| BFalse
| BPanic
| BFuel

val canonical_loop : nat -> coq_N -> bytes -> bool_or_panic

val is_canonical_serialization : bytes -> bool_or_panic

val u32 : coq_N -> coq_N

val serialized_length_atom : bytes -> coq_N res

val sat_add64 : coq_N -> coq_N -> coq_N

val cache_serialized_length : sexp -> coq_N res

type triple =
| TAtom of coq_N * coq_N * coq_N
| TPair of coq_N * coq_N * coq_N

type op_ref =
| ParseObj
| SaveEnd of nat
| SaveRightIndex of nat

val update_nth : nat -> ('a1 -> 'a1 option) -> 'a1 list -> 'a1 list option

val triples_loop :
  (bytes -> bytes) -> nat -> op_ref list -> triple list -> bytes list ->
  coq_N -> bytes -> ((triple list * bytes list) * bytes) res

val parse_triples :
  (bytes -> bytes) -> bytes -> ((triple list * bytes list) * bytes) res
