open Datatypes

(** val add : nat -> nat -> nat **)

let rec add n m =
  match n with
  | O -> m
  | S p -> S (add p m)

(** val mul : nat -> nat -> nat **)

let rec mul n m =
  match n with
  | O -> O
  | S p -> add m (mul p m)
