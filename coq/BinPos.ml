open BinNums
open BinPosDef
open Datatypes
open Nat

module Pos =
 struct
  (** val succ : positive -> positive **)

  let rec succ = function
  | Coq_xI p -> Coq_xO (succ p)
  | Coq_xO p -> Coq_xI p
  | Coq_xH -> Coq_xO Coq_xH

  (** val add : positive -> positive -> positive **)

  let rec add x y =
    match x with
    | Coq_xI p ->
      (match y with
       | Coq_xI q -> Coq_xO (add_carry p q)
       | Coq_xO q -> Coq_xI (add p q)
       | Coq_xH -> Coq_xO (succ p))
    | Coq_xO p ->
      (match y with
       | Coq_xI q -> Coq_xI (add p q)
       | Coq_xO q -> Coq_xO (add p q)
       | Coq_xH -> Coq_xI p)
    | Coq_xH ->
      (match y with
       | Coq_xI q -> Coq_xO (succ q)
       | Coq_xO q -> Coq_xI q
       | Coq_xH -> Coq_xO Coq_xH)

  (** val add_carry : positive -> positive -> positive **)

  and add_carry x y =
    match x with
    | Coq_xI p ->
      (match y with
       | Coq_xI q -> Coq_xI (add_carry p q)
       | Coq_xO q -> Coq_xO (add_carry p q)
       | Coq_xH -> Coq_xI (succ p))
    | Coq_xO p ->
      (match y with
       | Coq_xI q -> Coq_xO (add_carry p q)
       | Coq_xO q -> Coq_xI (add p q)
       | Coq_xH -> Coq_xO (succ p))
    | Coq_xH ->
      (match y with
       | Coq_xI q -> Coq_xI (succ q)
       | Coq_xO q -> Coq_xO (succ q)
       | Coq_xH -> Coq_xI Coq_xH)

  (** val pred_double : positive -> positive **)

  let rec pred_double = function
  | Coq_xI p -> Coq_xI (Coq_xO p)
  | Coq_xO p -> Coq_xI (pred_double p)
  | Coq_xH -> Coq_xH

  (** val pred_N : positive -> coq_N **)

  let pred_N = function
  | Coq_xI p -> Npos (Coq_xO p)
  | Coq_xO p -> Npos (pred_double p)
  | Coq_xH -> N0

  type mask = Pos.mask =
  | IsNul
  | IsPos of positive
  | IsNeg

  (** val succ_double_mask : mask -> mask **)

  let succ_double_mask = function
  | IsNul -> IsPos Coq_xH
  | IsPos p -> IsPos (Coq_xI p)
  | IsNeg -> IsNeg

  (** val double_mask : mask -> mask **)

  let double_mask = function
  | IsPos p -> IsPos (Coq_xO p)
  | x0 -> x0

  (** val double_pred_mask : positive -> mask **)

  let double_pred_mask = function
  | Coq_xI p -> IsPos (Coq_xO (Coq_xO p))
  | Coq_xO p -> IsPos (Coq_xO (pred_double p))
  | Coq_xH -> IsNul

  (** val sub_mask : positive -> positive -> mask **)

  let rec sub_mask x y =
    match x with
    | Coq_xI p ->
      (match y with
       | Coq_xI q -> double_mask (sub_mask p q)
       | Coq_xO q -> succ_double_mask (sub_mask p q)
       | Coq_xH -> IsPos (Coq_xO p))
    | Coq_xO p ->
      (match y with
       | Coq_xI q -> succ_double_mask (sub_mask_carry p q)
       | Coq_xO q -> double_mask (sub_mask p q)
       | Coq_xH -> IsPos (pred_double p))
    | Coq_xH -> (match y with
                 | Coq_xH -> IsNul
                 | _ -> IsNeg)

  (** val sub_mask_carry : positive -> positive -> mask **)

  and sub_mask_carry x y =
    match x with
    | Coq_xI p ->
      (match y with
       | Coq_xI q -> succ_double_mask (sub_mask_carry p q)
       | Coq_xO q -> double_mask (sub_mask p q)
       | Coq_xH -> IsPos (pred_double p))
    | Coq_xO p ->
      (match y with
       | Coq_xI q -> double_mask (sub_mask_carry p q)
       | Coq_xO q -> succ_double_mask (sub_mask_carry p q)
       | Coq_xH -> double_pred_mask p)
    | Coq_xH -> IsNeg

  (** val mul : positive -> positive -> positive **)

  let rec mul x y =
    match x with
    | Coq_xI p -> add y (Coq_xO (mul p y))
    | Coq_xO p -> Coq_xO (mul p y)
    | Coq_xH -> y

  (** val iter : ('a1 -> 'a1) -> 'a1 -> positive -> 'a1 **)

  let rec iter f x = function
  | Coq_xI n' -> f (iter f (iter f x n') n')
  | Coq_xO n' -> iter f (iter f x n') n'
  | Coq_xH -> f x

  (** val div2 : positive -> positive **)

  let div2 = function
  | Coq_xI p0 -> p0
  | Coq_xO p0 -> p0
  | Coq_xH -> Coq_xH

  (** val div2_up : positive -> positive **)

  let div2_up = function
  | Coq_xI p0 -> succ p0
  | Coq_xO p0 -> p0
  | Coq_xH -> Coq_xH

  (** val compare_cont : comparison -> positive -> positive -> comparison **)

  let rec compare_cont r x y =
    match x with
    | Coq_xI p ->
      (match y with
       | Coq_xI q -> compare_cont r p q
       | Coq_xO q -> compare_cont Gt p q
       | Coq_xH -> Gt)
    | Coq_xO p ->
      (match y with
       | Coq_xI q -> compare_cont Lt p q
       | Coq_xO q -> compare_cont r p q
       | Coq_xH -> Gt)
    | Coq_xH -> (match y with
                 | Coq_xH -> r
                 | _ -> Lt)

  (** val compare : positive -> positive -> comparison **)

  let compare =
    compare_cont Eq

  (** val eqb : positive -> positive -> bool **)

  let rec eqb p q =
    match p with
    | Coq_xI p0 -> (match q with
                    | Coq_xI q0 -> eqb p0 q0
                    | _ -> false)
    | Coq_xO p0 -> (match q with
                    | Coq_xO q0 -> eqb p0 q0
                    | _ -> false)
    | Coq_xH -> (match q with
                 | Coq_xH -> true
                 | _ -> false)

  (** val coq_Nsucc_double : coq_N -> coq_N **)

  let coq_Nsucc_double = function
  | N0 -> Npos Coq_xH
  | Npos p -> Npos (Coq_xI p)

  (** val coq_Ndouble : coq_N -> coq_N **)

  let coq_Ndouble = function
  | N0 -> N0
  | Npos p -> Npos (Coq_xO p)

  (** val coq_lor : positive -> positive -> positive **)

  let rec coq_lor p q =
    match p with
    | Coq_xI p0 ->
      (match q with
       | Coq_xI q0 -> Coq_xI (coq_lor p0 q0)
       | Coq_xO q0 -> Coq_xI (coq_lor p0 q0)
       | Coq_xH -> p)
    | Coq_xO p0 ->
      (match q with
       | Coq_xI q0 -> Coq_xI (coq_lor p0 q0)
       | Coq_xO q0 -> Coq_xO (coq_lor p0 q0)
       | Coq_xH -> Coq_xI p0)
    | Coq_xH -> (match q with
                 | Coq_xO q0 -> Coq_xI q0
                 | _ -> q)

  (** val coq_land : positive -> positive -> coq_N **)

  let rec coq_land p q =
    match p with
    | Coq_xI p0 ->
      (match q with
       | Coq_xI q0 -> coq_Nsucc_double (coq_land p0 q0)
       | Coq_xO q0 -> coq_Ndouble (coq_land p0 q0)
       | Coq_xH -> Npos Coq_xH)
    | Coq_xO p0 ->
      (match q with
       | Coq_xI q0 -> coq_Ndouble (coq_land p0 q0)
       | Coq_xO q0 -> coq_Ndouble (coq_land p0 q0)
       | Coq_xH -> N0)
    | Coq_xH -> (match q with
                 | Coq_xO _ -> N0
                 | _ -> Npos Coq_xH)

  (** val ldiff : positive -> positive -> coq_N **)

  let rec ldiff p q =
    match p with
    | Coq_xI p0 ->
      (match q with
       | Coq_xI q0 -> coq_Ndouble (ldiff p0 q0)
       | Coq_xO q0 -> coq_Nsucc_double (ldiff p0 q0)
       | Coq_xH -> Npos (Coq_xO p0))
    | Coq_xO p0 ->
      (match q with
       | Coq_xI q0 -> coq_Ndouble (ldiff p0 q0)
       | Coq_xO q0 -> coq_Ndouble (ldiff p0 q0)
       | Coq_xH -> Npos p)
    | Coq_xH -> (match q with
                 | Coq_xO _ -> Npos Coq_xH
                 | _ -> N0)

  (** val coq_lxor : positive -> positive -> coq_N **)

  let rec coq_lxor p q =
    match p with
    | Coq_xI p0 ->
      (match q with
       | Coq_xI q0 -> coq_Ndouble (coq_lxor p0 q0)
       | Coq_xO q0 -> coq_Nsucc_double (coq_lxor p0 q0)
       | Coq_xH -> Npos (Coq_xO p0))
    | Coq_xO p0 ->
      (match q with
       | Coq_xI q0 -> coq_Nsucc_double (coq_lxor p0 q0)
       | Coq_xO q0 -> coq_Ndouble (coq_lxor p0 q0)
       | Coq_xH -> Npos (Coq_xI p0))
    | Coq_xH ->
      (match q with
       | Coq_xI q0 -> Npos (Coq_xO q0)
       | Coq_xO q0 -> Npos (Coq_xI q0)
       | Coq_xH -> N0)

  (** val shiftl : positive -> coq_N -> positive **)

  let shiftl p = function
  | N0 -> p
  | Npos n0 -> iter (fun x -> Coq_xO x) p n0

  (** val testbit : positive -> coq_N -> bool **)

  let rec testbit p n =
    match p with
    | Coq_xI p0 ->
      (match n with
       | N0 -> true
       | Npos n0 -> testbit p0 (pred_N n0))
    | Coq_xO p0 ->
      (match n with
       | N0 -> false
       | Npos n0 -> testbit p0 (pred_N n0))
    | Coq_xH -> (match n with
                 | N0 -> true
                 | Npos _ -> false)

  (** val iter_op : ('a1 -> 'a1 -> 'a1) -> positive -> 'a1 -> 'a1 **)

  let rec iter_op op p a =
    match p with
    | Coq_xI p0 -> op a (iter_op op p0 (op a a))
    | Coq_xO p0 -> iter_op op p0 (op a a)
    | Coq_xH -> a

  (** val to_nat : positive -> nat **)

  let to_nat x =
    iter_op Nat.add x (S O)

  (** val of_succ_nat : nat -> positive **)

  let rec of_succ_nat = function
  | O -> Coq_xH
  | S x -> succ (of_succ_nat x)
 end
