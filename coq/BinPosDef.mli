open BinNums

module Pos :
 sig
  type mask =
  | IsNul
  | IsPos of positive
  | IsNeg
 end
