(* Proofs about Model/Intern.v (C24; the hash lemma is also used by C22). *)
From Clvm Require Import Model.Intern Model.Classic Proofs.BytesLemmas.
From Coq Require Import Lia.

(* ------------------------------------------------------------------ small list facts *)
Lemma find_index_some {A} (p : A -> bool) l i :
  find_index p l = Some i -> exists x, nth_error l i = Some x /\ p x = true.
Proof.
  revert i. induction l as [|y l IH]; intros i Hf; cbn in Hf; [discriminate|].
  destruct (p y) eqn:Py.
  - inversion Hf; subst. exists y. split; [reflexivity|exact Py].
  - destruct (find_index p l) as [j|] eqn:E; [|discriminate]. inversion Hf; subst.
    cbn. apply IH. reflexivity.
Qed.

Lemma find_index_none {A} (p : A -> bool) l :
  find_index p l = None -> forall x, In x l -> p x = false.
Proof.
  induction l as [|y l IH]; intros Hf x Hin; [destruct Hin|].
  cbn in Hf. destruct (p y) eqn:Py; [discriminate|].
  destruct (find_index p l) eqn:E; [discriminate|].
  destruct Hin as [-> |Hin]; [exact Py|now apply IH].
Qed.

Lemma NoDup_snoc {A} (l : list A) x : NoDup l -> ~ In x l -> NoDup (l ++ [x]).
Proof.
  induction l as [|y l IH]; intros Hnd Hni; cbn.
  - constructor; [intros []|constructor].
  - inversion Hnd as [|? ? Hy Hl]; subst. constructor.
    + rewrite in_app_iff. intros [Hin|[-> |[]]]; [now apply Hy|apply Hni; now left].
    + apply IH; [exact Hl|]. intros Hin. apply Hni. now right.
Qed.

Lemma nth_error_snoc_len {A} (l : list A) x : nth_error (l ++ [x]) (length l) = Some x.
Proof. rewrite nth_error_app2 by lia. now rewrite Nat.sub_diag. Qed.

Lemma nth_error_ext {A} (l d : list A) i x : nth_error l i = Some x -> nth_error (l ++ d) i = Some x.
Proof.
  intros Hn. rewrite nth_error_app1; [exact Hn|]. apply nth_error_Some. now rewrite Hn.
Qed.

Lemma inode_eqb_eq a b : inode_eqb a b = true <-> a = b.
Proof.
  destruct a as [i|i], b as [j|j]; cbn; split; intros Hx; try discriminate.
  - apply Nat.eqb_eq in Hx. now subst.
  - inversion Hx; subst. apply Nat.eqb_refl.
  - apply Nat.eqb_eq in Hx. now subst.
  - inversion Hx; subst. apply Nat.eqb_refl.
Qed.

Lemma pair_key_eqb_eq k e : pair_key_eqb k e = true <-> k = e.
Proof.
  destruct k as [a b], e as [c d]. unfold pair_key_eqb. cbn [fst snd].
  rewrite andb_true_iff, !inode_eqb_eq. split; [intros [-> ->]; reflexivity|].
  intros Hx; inversion Hx; subst. split; reflexivity.
Qed.

Lemma sexp_eqb_eq a b : sexp_eqb a b = true <-> a = b.
Proof.
  revert b. induction a as [x|l IHl r IHr]; intros [y|l2 r2]; cbn; split; intros Hx; try discriminate.
  - apply bytes_eqb_eq in Hx. now subst.
  - inversion Hx; subst. now apply bytes_eqb_eq.
  - apply andb_prop in Hx. destruct Hx as [H1 H2]. apply IHl in H1. apply IHr in H2. now subst.
  - inversion Hx; subst. apply andb_true_intro. split; [now apply IHl|now apply IHr].
Qed.

(* ------------------------------------------------------------------ dedup *)
Section DedupFacts.
  Context {A : Type} (eqb : A -> A -> bool).
  Hypothesis eqb_eq : forall a b, eqb a b = true <-> a = b.

  Lemma existsb_eqb_In x l : existsb (eqb x) l = true <-> In x l.
  Proof.
    rewrite existsb_exists. split.
    - intros [y [Hin He]]. apply eqb_eq in He. now subst.
    - intros Hin. exists x. split; [exact Hin|now apply eqb_eq].
  Qed.

  Lemma add_new_In x l : In x l -> add_new eqb x l = l.
  Proof. intros Hin. unfold add_new. apply existsb_eqb_In in Hin. now rewrite Hin. Qed.

  Lemma add_new_notin x l : ~ In x l -> add_new eqb x l = l ++ [x].
  Proof.
    intros Hni. unfold add_new. destruct (existsb (eqb x) l) eqn:E; [|reflexivity].
    apply existsb_eqb_In in E. contradiction.
  Qed.

  Lemma add_new_ext x l : exists d, add_new eqb x l = l ++ d.
  Proof.
    unfold add_new. destruct (existsb (eqb x) l); [exists []; now rewrite app_nil_r|now exists [x]].
  Qed.

  Lemma dedup_into_app l xs ys : dedup_into eqb l (xs ++ ys) = dedup_into eqb (dedup_into eqb l xs) ys.
  Proof. unfold dedup_into. apply fold_left_app. Qed.

  Lemma dedup_into_ext xs : forall l, exists d, dedup_into eqb l xs = l ++ d.
  Proof.
    induction xs as [|x xs IH]; intros l; cbn.
    - exists []. now rewrite app_nil_r.
    - destruct (add_new_ext x l) as [d1 E1]. destruct (IH (add_new eqb x l)) as [d2 E2].
      exists (d1 ++ d2). unfold dedup_into in E2. rewrite E2, E1. now rewrite app_assoc.
  Qed.

  Lemma add_new_In_iff x l y : In y (add_new eqb x l) <-> In y l \/ y = x.
  Proof.
    unfold add_new. destruct (existsb (eqb x) l) eqn:E.
    - apply existsb_eqb_In in E. split; [now left|]. intros [Hy| ->]; assumption.
    - rewrite in_app_iff. cbn. split.
      + intros [Hy|[Hy|[]]]; [now left|right; now symmetry].
      + intros [Hy| ->]; [now left|right; now left].
  Qed.

  Lemma dedup_into_In xs : forall l y, In y (dedup_into eqb l xs) <-> In y l \/ In y xs.
  Proof.
    induction xs as [|x xs IH]; intros l y; cbn.
    - split; [now left|]. intros [Hy|[]]. exact Hy.
    - unfold dedup_into in IH. rewrite IH, add_new_In_iff. split.
      + intros [[Hy| ->]|Hy]; auto.
      + intros [Hy|[-> |Hy]]; auto.
  Qed.

  Lemma add_new_NoDup x l : NoDup l -> NoDup (add_new eqb x l).
  Proof.
    intros Hnd. unfold add_new. destruct (existsb (eqb x) l) eqn:E; [exact Hnd|].
    apply NoDup_snoc; [exact Hnd|]. intros Hin. apply existsb_eqb_In in Hin. congruence.
  Qed.

  Lemma dedup_into_NoDup xs : forall l, NoDup l -> NoDup (dedup_into eqb l xs).
  Proof.
    induction xs as [|x xs IH]; intros l Hnd; cbn; [exact Hnd|].
    apply IH. now apply add_new_NoDup.
  Qed.
End DedupFacts.

(* ------------------------------------------------------------------ denotation of nodes *)
Lemma node_tree_ext atoms pts da dp n t :
  node_tree atoms pts n = Some t -> node_tree (atoms ++ da) (pts ++ dp) n = Some t.
Proof.
  destruct n as [i|j]; cbn; intros Hn.
  - destruct (nth_error atoms i) as [b|] eqn:E; [|discriminate].
    now rewrite (nth_error_ext _ da _ _ E).
  - now apply nth_error_ext.
Qed.

Lemma build_pairs_snoc atoms ps : forall pts0 l r,
  build_pairs atoms pts0 (ps ++ [(l, r)]) =
    match build_pairs atoms pts0 ps with
    | Some pts =>
        match node_tree atoms pts l, node_tree atoms pts r with
        | Some a, Some b => Some (pts ++ [Cons a b])
        | _, _ => None
        end
    | None => None
    end.
Proof.
  induction ps as [|[l0 r0] ps IH]; intros pts0 l r; cbn.
  - destruct (node_tree atoms pts0 l), (node_tree atoms pts0 r); reflexivity.
  - destruct (node_tree atoms pts0 l0), (node_tree atoms pts0 r0); try reflexivity. apply IH.
Qed.

Lemma build_pairs_atoms_ext da atoms ps : forall pts0 pts,
  build_pairs atoms pts0 ps = Some pts -> build_pairs (atoms ++ da) pts0 ps = Some pts.
Proof.
  induction ps as [|[l r] ps IH]; intros pts0 pts Hb; cbn in *; [exact Hb|].
  destruct (node_tree atoms pts0 l) as [a|] eqn:El; [|discriminate].
  destruct (node_tree atoms pts0 r) as [b|] eqn:Er; [|discriminate].
  pose proof (node_tree_ext atoms pts0 da [] l a El) as El'. rewrite app_nil_r in El'.
  pose proof (node_tree_ext atoms pts0 da [] r b Er) as Er'. rewrite app_nil_r in Er'.
  rewrite El', Er'. now apply IH.
Qed.

(* the state invariant: [pts] is the list of sub-trees of the pair vector *)
Record Inv (atoms : list bytes) (pairs : list (inode * inode)) (pts : list sexp) : Prop := {
  inv_build : build_pairs atoms [] pairs = Some pts;
  inv_len : length pts = length pairs;
  inv_nd_atoms : NoDup atoms;
  inv_nd_pts : NoDup pts;
  inv_key : forall k l r, nth_error pairs k = Some (l, r) ->
    exists a b, node_tree atoms pts l = Some a /\ node_tree atoms pts r = Some b /\
                nth_error pts k = Some (Cons a b)
}.

Lemma Inv_nil : Inv [] [] [].
Proof.
  constructor; try reflexivity; try constructor.
  intros k l r Hk. destruct k; discriminate.
Qed.

Lemma Inv_pts_cons atoms pairs pts k t :
  Inv atoms pairs pts -> nth_error pts k = Some t ->
  exists l r a b, nth_error pairs k = Some (l, r) /\ node_tree atoms pts l = Some a /\
                  node_tree atoms pts r = Some b /\ t = Cons a b.
Proof.
  intros HI Hk.
  assert (Hlt : (k < length pairs)%nat).
  { rewrite <- (inv_len _ _ _ HI). apply nth_error_Some. now rewrite Hk. }
  destruct (nth_error pairs k) as [[l r]|] eqn:E; [|apply nth_error_Some in Hlt; contradiction].
  destruct (inv_key _ _ _ HI k l r E) as [a [b [Ha [Hb Hp]]]].
  exists l, r, a, b. repeat split; try assumption. congruence.
Qed.

Lemma node_tree_inj atoms pairs pts n m t :
  Inv atoms pairs pts -> node_tree atoms pts n = Some t -> node_tree atoms pts m = Some t -> n = m.
Proof.
  intros HI Hn Hm. destruct n as [i|i], m as [j|j]; cbn in Hn, Hm.
  - destruct (nth_error atoms i) as [b|] eqn:Ei; [|discriminate].
    destruct (nth_error atoms j) as [c|] eqn:Ej; [|discriminate].
    assert (b = c) by congruence. subst c.
    f_equal. apply (proj1 (NoDup_nth_error atoms) (inv_nd_atoms _ _ _ HI)).
    + apply nth_error_Some. now rewrite Ei.
    + congruence.
  - destruct (nth_error atoms i) as [b|] eqn:Ei; [|discriminate]. inversion Hn; subst.
    destruct (Inv_pts_cons _ _ _ _ _ HI Hm) as [? [? [? [? [_ [_ [_ Hc]]]]]]]. discriminate.
  - destruct (nth_error atoms j) as [b|] eqn:Ej; [|discriminate]. inversion Hm; subst.
    destruct (Inv_pts_cons _ _ _ _ _ HI Hn) as [? [? [? [? [_ [_ [_ Hc]]]]]]]. discriminate.
  - f_equal. apply (proj1 (NoDup_nth_error pts) (inv_nd_pts _ _ _ HI)).
    + apply nth_error_Some. now rewrite Hn.
    + congruence.
Qed.

(* ------------------------------------------------------------------ the two table steps *)
Lemma intern_atom_spec b st pts n st' :
  Inv (is_atoms st) (is_pairs st) pts -> intern_atom b st = (n, st') ->
  Inv (is_atoms st') (is_pairs st') pts /\
  is_atoms st' = add_new bytes_eqb b (is_atoms st) /\
  node_tree (is_atoms st') pts n = Some (Atom b).
Proof.
  intros HI Hs. unfold intern_atom in Hs.
  destruct (find_index (bytes_eqb b) (is_atoms st)) as [i|] eqn:E.
  - inversion Hs; subst. apply find_index_some in E. destruct E as [x [Hx Hb]].
    apply bytes_eqb_eq in Hb. subst x.
    split; [exact HI|]. split.
    + symmetry. apply (add_new_In _ bytes_eqb_eq). eapply nth_error_In; eauto.
    + cbn. now rewrite Hx.
  - inversion Hs; subst. cbn [is_atoms is_pairs].
    assert (Hni : ~ In b (is_atoms st)).
    { intros Hin. pose proof (find_index_none _ _ E b Hin) as Hf.
      assert (bytes_eqb b b = true) by now apply bytes_eqb_eq. congruence. }
    split; [|split].
    + constructor.
      * apply build_pairs_atoms_ext. exact (inv_build _ _ _ HI).
      * exact (inv_len _ _ _ HI).
      * apply NoDup_snoc; [exact (inv_nd_atoms _ _ _ HI)|exact Hni].
      * exact (inv_nd_pts _ _ _ HI).
      * intros k l r Hk. destruct (inv_key _ _ _ HI k l r Hk) as [a [c [Ha [Hc Hp]]]].
        exists a, c. split; [|split; [|exact Hp]].
        -- pose proof (node_tree_ext _ _ [b] [] _ _ Ha) as Hx. now rewrite app_nil_r in Hx.
        -- pose proof (node_tree_ext _ _ [b] [] _ _ Hc) as Hx. now rewrite app_nil_r in Hx.
    + symmetry. now apply (add_new_notin _ bytes_eqb_eq).
    + cbn. now rewrite nth_error_snoc_len.
Qed.

Lemma intern_pair_spec nl nr st pts l r n st' :
  Inv (is_atoms st) (is_pairs st) pts ->
  node_tree (is_atoms st) pts nl = Some l -> node_tree (is_atoms st) pts nr = Some r ->
  intern_pair nl nr st = (n, st') ->
  Inv (is_atoms st') (is_pairs st') (add_new sexp_eqb (Cons l r) pts) /\
  is_atoms st' = is_atoms st /\
  node_tree (is_atoms st') (add_new sexp_eqb (Cons l r) pts) n = Some (Cons l r).
Proof.
  intros HI Hl Hr Hs. unfold intern_pair in Hs.
  destruct (find_index (pair_key_eqb (nl, nr)) (is_pairs st)) as [k|] eqn:E.
  - inversion Hs; subst. apply find_index_some in E. destruct E as [e [He Hk]].
    apply pair_key_eqb_eq in Hk. subst e.
    destruct (inv_key _ _ _ HI k nl nr He) as [a [b [Ha [Hb Hp]]]].
    assert (a = l) by congruence. assert (b = r) by congruence. subst a b.
    rewrite (add_new_In _ sexp_eqb_eq) by (eapply nth_error_In; eauto).
    split; [exact HI|]. split; [reflexivity|exact Hp].
  - inversion Hs; subst. cbn [is_atoms is_pairs].
    assert (Hni : ~ In (Cons l r) pts).
    { intros Hin. apply In_nth_error in Hin. destruct Hin as [k Hk].
      destruct (Inv_pts_cons _ _ _ _ _ HI Hk) as [l' [r' [a [b [Hp [Ha [Hb Hc]]]]]]].
      inversion Hc; subst a b.
      assert (l' = nl) by (eapply node_tree_inj; eauto).
      assert (r' = nr) by (eapply node_tree_inj; eauto). subst l' r'.
      pose proof (find_index_none _ _ E (nl, nr) (nth_error_In _ _ Hp)) as Hf.
      assert (pair_key_eqb (nl, nr) (nl, nr) = true) by now apply pair_key_eqb_eq. congruence. }
    rewrite (add_new_notin _ sexp_eqb_eq) by exact Hni.
    split; [|split; [reflexivity|]].
    + constructor.
      * rewrite build_pairs_snoc, (inv_build _ _ _ HI), Hl, Hr. reflexivity.
      * rewrite !app_length, (inv_len _ _ _ HI). reflexivity.
      * exact (inv_nd_atoms _ _ _ HI).
      * apply NoDup_snoc; [exact (inv_nd_pts _ _ _ HI)|exact Hni].
      * intros k l0 r0 Hk.
        destruct (Nat.lt_ge_cases k (length (is_pairs st))) as [Hlt|Hge].
        -- rewrite nth_error_app1 in Hk by exact Hlt.
           destruct (inv_key _ _ _ HI k l0 r0 Hk) as [a [b [Ha [Hb Hp]]]].
           exists a, b. split; [|split].
           ++ pose proof (node_tree_ext _ _ [] [Cons l r] _ _ Ha) as Hx. now rewrite app_nil_r in Hx.
           ++ pose proof (node_tree_ext _ _ [] [Cons l r] _ _ Hb) as Hx. now rewrite app_nil_r in Hx.
           ++ now apply nth_error_ext.
        -- rewrite nth_error_app2 in Hk by exact Hge.
           destruct (k - length (is_pairs st))%nat as [|d] eqn:Ed; [|destruct d; discriminate].
           cbn in Hk. inversion Hk; subst l0 r0.
           assert (k = length pts) by (rewrite (inv_len _ _ _ HI); lia). subst k.
           exists l, r. split; [|split].
           ++ pose proof (node_tree_ext _ _ [] [Cons l r] _ _ Hl) as Hx. now rewrite app_nil_r in Hx.
           ++ pose proof (node_tree_ext _ _ [] [Cons l r] _ _ Hr) as Hx. now rewrite app_nil_r in Hx.
           ++ apply nth_error_snoc_len.
    + cbn. rewrite <- (inv_len _ _ _ HI). apply nth_error_snoc_len.
Qed.

(* ------------------------------------------------------------------ the traversal *)
Lemma intern_rec_spec : forall t st pts n st',
  Inv (is_atoms st) (is_pairs st) pts -> intern_rec t st = (n, st') ->
  Inv (is_atoms st') (is_pairs st') (dedup_into sexp_eqb pts (subpairs_of t)) /\
  is_atoms st' = dedup_into bytes_eqb (is_atoms st) (atoms_of t) /\
  node_tree (is_atoms st') (dedup_into sexp_eqb pts (subpairs_of t)) n = Some t.
Proof.
  induction t as [b|l IHl r IHr]; intros st pts n st' HI Hs.
  - cbn in Hs. cbn [subpairs_of atoms_of dedup_into fold_left].
    exact (intern_atom_spec b st pts n st' HI Hs).
  - cbn [intern_rec] in Hs.
    destruct (intern_rec l st) as [nl st1] eqn:E1.
    destruct (intern_rec r st1) as [nr st2] eqn:E2.
    destruct (IHl st pts nl st1 HI E1) as [HI1 [Ha1 Hn1]].
    destruct (IHr st1 _ nr st2 HI1 E2) as [HI2 [Ha2 Hn2]].
    set (pts1 := dedup_into sexp_eqb pts (subpairs_of l)) in *.
    set (pts2 := dedup_into sexp_eqb pts1 (subpairs_of r)) in *.
    assert (Hn1' : node_tree (is_atoms st2) pts2 nl = Some l).
    { destruct (dedup_into_ext bytes_eqb (atoms_of r) (is_atoms st1)) as [da Eda].
      destruct (dedup_into_ext sexp_eqb (subpairs_of r) pts1) as [dp Edp].
      rewrite Ha2, Eda. unfold pts2. rewrite Edp. now apply node_tree_ext. }
    destruct (intern_pair_spec nl nr st2 pts2 l r n st' HI2 Hn1' Hn2 Hs) as [HI3 [Ha3 Hn3]].
    cbn [subpairs_of atoms_of].
    rewrite !(dedup_into_app sexp_eqb), (dedup_into_app bytes_eqb).
    fold pts1. fold pts2. cbn [dedup_into fold_left].
    split; [exact HI3|]. split; [|exact Hn3].
    rewrite Ha3, Ha2, Ha1. reflexivity.
Qed.

(* the memo [node_to_interned] is unobservable: interning an already interned sub-tree again
   returns the same node and changes nothing *)
Lemma find_index_found {A} (p : A -> bool) l x :
  In x l -> p x = true -> exists i, find_index p l = Some i.
Proof.
  intros Hin Hp. destruct (find_index p l) as [i|] eqn:E; [now exists i|].
  pose proof (find_index_none _ _ E x Hin). congruence.
Qed.

Lemma intern_again : forall t st pts n,
  Inv (is_atoms st) (is_pairs st) pts -> node_tree (is_atoms st) pts n = Some t ->
  intern_rec t st = (n, st).
Proof.
  induction t as [b|l IHl r IHr]; intros st pts n HI Hn.
  - cbn. unfold intern_atom.
    destruct n as [i|j].
    + cbn in Hn. destruct (nth_error (is_atoms st) i) as [c|] eqn:Ei; [|discriminate].
      inversion Hn; subst c.
      destruct (find_index_found (bytes_eqb b) (is_atoms st) b (nth_error_In _ _ Ei)
                  (proj2 (bytes_eqb_eq b b) eq_refl)) as [i' Ef].
      rewrite Ef. destruct (find_index_some _ _ _ Ef) as [x [Hx Hb]].
      apply bytes_eqb_eq in Hb. subst x.
      assert (i' = i).
      { apply (proj1 (NoDup_nth_error (is_atoms st)) (inv_nd_atoms _ _ _ HI)).
        - apply nth_error_Some. now rewrite Hx.
        - congruence. }
      now subst.
    + cbn in Hn. destruct (Inv_pts_cons _ _ _ _ _ HI Hn) as [? [? [? [? [_ [_ [_ Hc]]]]]]]. discriminate.
  - destruct n as [i|k].
    + cbn in Hn. destruct (nth_error (is_atoms st) i); discriminate.
    + cbn in Hn. destruct (Inv_pts_cons _ _ _ _ _ HI Hn) as [nl [nr [a [b [Hp [Ha [Hb Hc]]]]]]].
      inversion Hc; subst a b.
      cbn [intern_rec]. rewrite (IHl st pts nl HI Ha), (IHr st pts nr HI Hb).
      unfold intern_pair.
      destruct (find_index_found (pair_key_eqb (nl, nr)) (is_pairs st) (nl, nr) (nth_error_In _ _ Hp)
                  (proj2 (pair_key_eqb_eq _ _) eq_refl)) as [k' Ef].
      rewrite Ef. destruct (find_index_some _ _ _ Ef) as [e [He Hk]].
      apply pair_key_eqb_eq in Hk. subst e.
      destruct (inv_key _ _ _ HI k' nl nr He) as [a [b [Ha' [Hb' Hp']]]].
      assert (a = l) by congruence. assert (b = r) by congruence. subst a b.
      assert (k' = k).
      { apply (proj1 (NoDup_nth_error pts) (inv_nd_pts _ _ _ HI)).
        - apply nth_error_Some. now rewrite Hp'.
        - congruence. }
      now subst.
Qed.

(* ------------------------------------------------------------------ intern_tree *)
Definition distinct_atoms (t : sexp) : list bytes := dedup_into bytes_eqb [] (atoms_of t).
Definition distinct_pairs (t : sexp) : list sexp := dedup_into sexp_eqb [] (subpairs_of t).

Lemma intern_tree_spec t :
  Inv (it_atoms (intern_tree t)) (it_pairs (intern_tree t)) (distinct_pairs t) /\
  it_atoms (intern_tree t) = distinct_atoms t /\
  node_tree (it_atoms (intern_tree t)) (distinct_pairs t) (it_root (intern_tree t)) = Some t.
Proof.
  unfold intern_tree. destruct (intern_rec t istate0) as [n st] eqn:E. cbn [it_atoms it_pairs it_root].
  exact (intern_rec_spec t istate0 [] n st Inv_nil E).
Qed.

Theorem intern_pair_trees t : pair_trees (intern_tree t) = Some (distinct_pairs t).
Proof. destruct (intern_tree_spec t) as [HI _]. exact (inv_build _ _ _ HI). Qed.

Theorem intern_tree_of t : tree_of (intern_tree t) = Some t.
Proof.
  unfold tree_of. rewrite intern_pair_trees. destruct (intern_tree_spec t) as [_ [_ Hn]]. exact Hn.
Qed.

Theorem intern_atoms_NoDup t : NoDup (it_atoms (intern_tree t)).
Proof. destruct (intern_tree_spec t) as [HI _]. exact (inv_nd_atoms _ _ _ HI). Qed.

Theorem intern_pairs_NoDup t : NoDup (distinct_pairs t).
Proof. destruct (intern_tree_spec t) as [HI _]. exact (inv_nd_pts _ _ _ HI). Qed.

Theorem intern_pairs_length t : length (it_pairs (intern_tree t)) = length (distinct_pairs t).
Proof. destruct (intern_tree_spec t) as [HI _]. symmetry. exact (inv_len _ _ _ HI). Qed.

Theorem intern_atoms_In t b : In b (it_atoms (intern_tree t)) <-> In b (atoms_of t).
Proof.
  destruct (intern_tree_spec t) as [_ [Ha _]]. rewrite Ha. unfold distinct_atoms.
  rewrite (dedup_into_In _ bytes_eqb_eq). split; [intros [[]|Hx]; exact Hx|now right].
Qed.

Theorem intern_pairs_In t s : In s (distinct_pairs t) <-> In s (subpairs_of t).
Proof.
  unfold distinct_pairs. rewrite (dedup_into_In _ sexp_eqb_eq). split; [intros [[]|Hx]; exact Hx|now right].
Qed.

(* "the number of distinct values": any duplicate-free enumeration of the same set has this length *)
Lemma NoDup_same_length {A} (l l' : list A) :
  NoDup l -> NoDup l' -> (forall x, In x l <-> In x l') -> length l = length l'.
Proof.
  intros Hl Hl' Hx. apply Nat.le_antisymm; apply NoDup_incl_length; try assumption;
    intros x Hin; now apply Hx.
Qed.

Lemma subpairs_length t : length (subpairs_of t) = n_pairs t.
Proof.
  induction t as [b|l IHl r IHr]; cbn; [reflexivity|].
  rewrite !app_length, IHl, IHr. cbn. lia.
Qed.

Lemma atoms_of_length t : length (atoms_of t) = (n_nodes t - n_pairs t)%nat.
Proof.
  induction t as [b|l IHl r IHr]; cbn; [reflexivity|].
  rewrite app_length, IHl, IHr.
  assert (forall s, (n_pairs s < n_nodes s)%nat) as Hlt.
  { induction s as [|s1 I1 s2 I2]; cbn; lia. }
  pose proof (Hlt l). pose proof (Hlt r). lia.
Qed.

Theorem intern_counts t :
  (forall la, NoDup la -> (forall b, In b la <-> In b (atoms_of t)) ->
     length (it_atoms (intern_tree t)) = length la) /\
  (forall lp, NoDup lp -> (forall s, In s lp <-> In s (subpairs_of t)) ->
     length (it_pairs (intern_tree t)) = length lp) /\
  (length (it_atoms (intern_tree t)) <= n_nodes t - n_pairs t)%nat /\
  (length (it_pairs (intern_tree t)) <= n_pairs t)%nat.
Proof.
  split; [|split; [|split]].
  - intros la Hnd Hin. apply NoDup_same_length; [apply intern_atoms_NoDup|exact Hnd|].
    intros b. rewrite intern_atoms_In. symmetry. apply Hin.
  - intros lp Hnd Hin. rewrite intern_pairs_length.
    apply NoDup_same_length; [apply intern_pairs_NoDup|exact Hnd|].
    intros s. rewrite intern_pairs_In. symmetry. apply Hin.
  - rewrite <- atoms_of_length. apply NoDup_incl_length; [apply intern_atoms_NoDup|].
    intros b Hb. now apply intern_atoms_In.
  - rewrite intern_pairs_length, <- subpairs_length.
    apply NoDup_incl_length; [apply intern_pairs_NoDup|].
    intros s Hs. now apply intern_pairs_In.
Qed.

(* ------------------------------------------------------------------ hashing *)
Section HashFacts.
  Variable H : bytes -> bytes.

  Lemma node_hash_tree atoms pts n t :
    node_tree atoms pts n = Some t ->
    node_hash (map (fun b => H (1%N :: b)) atoms) (map (treehash H) pts) n = Some (treehash H t).
  Proof.
    destruct n as [i|j]; cbn; intros Hn.
    - destruct (nth_error atoms i) as [b|] eqn:E; [|discriminate]. inversion Hn; subst.
      now rewrite (map_nth_error _ _ _ E).
    - now rewrite (map_nth_error _ _ _ Hn).
  Qed.

  Lemma hash_pairs_build atoms ps : forall pts0 pts,
    build_pairs atoms pts0 ps = Some pts ->
    hash_pairs H (map (fun b => H (1%N :: b)) atoms) (map (treehash H) pts0) ps = Some (map (treehash H) pts).
  Proof.
    induction ps as [|[l r] ps IH]; intros pts0 pts Hb; cbn in *.
    - now inversion Hb.
    - destruct (node_tree atoms pts0 l) as [a|] eqn:El; [|discriminate].
      destruct (node_tree atoms pts0 r) as [b|] eqn:Er; [|discriminate].
      rewrite (node_hash_tree _ _ _ _ El), (node_hash_tree _ _ _ _ Er).
      specialize (IH _ _ Hb). rewrite map_app in IH. exact IH.
  Qed.

  (* any interned structure that denotes t hashes to treehash t *)
  Theorem itree_hash_tree_of it t : tree_of it = Some t -> itree_hash H it = Some (treehash H t).
  Proof.
    unfold tree_of, itree_hash, pair_trees. intros Ht.
    destruct (build_pairs (it_atoms it) [] (it_pairs it)) as [pts|] eqn:Eb; [|discriminate].
    pose proof (hash_pairs_build _ _ [] pts Eb) as Hh. cbn [map] in Hh. rewrite Hh.
    now apply node_hash_tree.
  Qed.
End HashFacts.
