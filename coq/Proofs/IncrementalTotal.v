(* C19: no panic site of the model and no fuel exhaustion is reachable. In every state reachable
   by add / restore (ANY oracles), as long as the serialization is not complete, add returns Ok
   provided the atoms written and the paths the oracle returns are shorter than 2^34 bytes
   (write_atom's limit) — the assert on the read-op stack (32), TreeCache::pop on an empty stack
   (33) and OutOfFuel cannot happen; the only reachable assert is "add after completion" (31). *)
From Clvm Require Import Model.Incremental Proofs.IncrementalUndo Proofs.IncrementalDecode.
From Coq Require Import Lia.
Open Scope N_scope.
Arguments N.add : simpl never.
Arguments N.sub : simpl never.
Arguments N.mul : simpl never.
Arguments N.eqb : simpl never.
Arguments N.ltb : simpl never.
Arguments N.leb : simpl never.
Arguments cursor_write : simpl never.

Definition small_atom (b : bytes) : Prop := atom_prefix (atom_0 b) (blen b) <> None.

Fixpoint small (t : stree) : Prop :=
  match t with SAtom b => small_atom b | SCons l r => small l /\ small r | SHole => True end.

Definition orc_small (orc : oracle) : Prop := forall s n p, orc s n = Some p -> small_atom p.

Definition wsum (ws : list stree) : nat := fold_right (fun t a => (ssize t + a)%nat) O ws.

Lemma ssize_pos t : (1 <= ssize t)%nat.
Proof. destruct t; cbn [ssize]; lia. Qed.

Lemma write_atom_c_total c b : small_atom b -> exists c', write_atom_c c b = Ok c'.
Proof.
  unfold small_atom, write_atom_c. destruct (atom_prefix (atom_0 b) (blen b)); [eexists; reflexivity|congruence].
Qed.

Lemma pop_conses_total : forall ops tc m, shape ops (length tc) m ->
  exists ops3 tc3, pop_conses ops tc = Ok (ops3, tc3) /\ shape ops3 (length tc3) m /\ no_lead ops3.
Proof.
  induction ops as [|[|nd] ops IH]; intros tc m Hs; cbn [pop_conses].
  - eexists _, _. split; [reflexivity|]. split; [exact Hs|exact I].
  - eexists _, _. split; [reflexivity|]. split; [exact Hs|exact I].
  - cbn [shape] in Hs. destruct Hs as (k' & Hk & Hs).
    destruct tc as [|rgt [|lft rest]]; cbn [length] in Hk; try lia.
    assert (k' = length rest) by lia. subst k'.
    apply (IH (Cons lft rgt :: rest) m Hs).
Qed.

Lemma find_path_small orc s n p : orc_small orc -> find_path orc s n = Some p -> small_atom p.
Proof. intros Ho H. apply find_path_some in H. destruct H as [_ H]. exact (Ho _ _ _ H). Qed.

(* one node: emit_node succeeds and keeps the shape *)
Lemma emit_node_total orc s node : orc_small orc -> small node -> is_hole node = false ->
  shape (IParse :: read_ops s) (length (tc_stk s)) (S (length (write_stk s))) ->
  Forall small (write_stk s) ->
  exists s3, emit_node orc s node = Ok s3 /\
    shape (read_ops s3) (length (tc_stk s3)) (length (write_stk s3)) /\
    Forall small (write_stk s3) /\ (wsum (write_stk s3) < ssize node + wsum (write_stk s))%nat.
Proof.
  intros Ho Hsm Hnh Hs Hws. cbn [shape] in Hs. destruct Hs as (m' & Hm & Hs). injection Hm as <-.
  unfold emit_node. destruct (find_path orc s node) as [path|] eqn:Hfp.
  - destruct (write_atom_c_total (cursor_write (out s) [254]) path (find_path_small _ _ _ _ Ho Hfp)) as [c ->].
    cbn [bind]. eexists. split; [reflexivity|]. cbn [read_ops write_stk tc_stk length].
    split; [exact Hs|]. split; [exact Hws|]. pose proof (ssize_pos node). lia.
  - destruct node as [b|l r|]; [| |discriminate].
    + destruct (write_atom_c_total (out s) b Hsm) as [c ->]. cbn [bind].
      eexists. split; [reflexivity|]. cbn [read_ops write_stk tc_stk length ssize].
      split; [exact Hs|]. split; [exact Hws|]. lia.
    + eexists. split; [reflexivity|]. cbn [read_ops write_stk tc_stk length].
      cbn [small] in Hsm. destruct Hsm as [Hl Hr]. split.
      { cbn [shape]. eexists. split; [reflexivity|]. eexists. split; [reflexivity|].
        eexists. split; [reflexivity|]. exact Hs. }
      split; [constructor; [exact Hl|constructor; [exact Hr|exact Hws]]|].
      unfold wsum. cbn [fold_right ssize]. lia.
Qed.

Lemma add_loop_total : forall f orc s, orc_small orc ->
  (wsum (write_stk s) < f)%nat -> Forall small (write_stk s) -> no_lead (read_ops s) ->
  shape (read_ops s) (length (tc_stk s)) (length (write_stk s)) ->
  exists d s', add_loop f orc s = Ok (d, s') /\
    Forall small (write_stk s') /\ no_lead (read_ops s') /\
    shape (read_ops s') (length (tc_stk s')) (length (if d then write_stk s' else SHole :: write_stk s')).
Proof.
  induction f as [|f IH]; intros orc s Ho Hf Hws Hnl Hs; [lia|].
  cbn [add_loop]. destruct (write_stk s) as [|node ws] eqn:Ew.
  - eexists _, _. split; [reflexivity|]. rewrite Ew. split; [constructor|]. split; [exact Hnl|exact Hs].
  - inversion Hws as [|? ? Hsn Hws']; subst.
    destruct (is_hole node) eqn:Hh.
    + destruct node; try discriminate. eexists _, _. split; [reflexivity|].
      cbn [read_ops write_stk tc_stk]. split; [exact Hws'|]. split; [exact Hnl|exact Hs].
    + destruct (read_ops s) as [|[|n0] ops1] eqn:Er.
      * cbn [shape length] in Hs. destruct Hs as [_ Hm]. discriminate.
      * set (s2 := {| read_ops := ops1; write_stk := ws; tc_stk := tc_stk s; out := out s |}).
        destruct (emit_node_total orc s2 node Ho Hsn Hh Hs Hws') as (s3 & -> & Hs3 & Hws3 & Hm3).
        cbn [bind]. destruct (pop_conses_total _ _ _ Hs3) as (ops3 & tc3 & -> & Hs4 & Hnl4). cbn [bind].
        apply IH; cbn [read_ops write_stk tc_stk]; try assumption.
        unfold wsum in Hf. cbn [fold_right] in Hf. fold (wsum ws) in Hf.
        unfold s2 in Hm3. cbn [write_stk] in Hm3. lia.
      * destruct Hnl.
Qed.

(* the shape invariant of states at rest, for arbitrary oracles *)
Definition ShapeInv (s : ser) : Prop :=
  no_lead (read_ops s) /\ shape (read_ops s) (length (tc_stk s)) (length (virt s)).

Lemma add_loop_shape : forall f orc s d s', add_loop f orc s = Ok (d, s') ->
  no_lead (read_ops s) -> shape (read_ops s) (length (tc_stk s)) (length (write_stk s)) ->
  no_lead (read_ops s') /\
  shape (read_ops s') (length (tc_stk s')) (length (if d then write_stk s' else SHole :: write_stk s')) /\
  (d = true -> read_ops s' = []).
Proof.
  induction f as [|f IH]; intros orc s d s' Hl Hnl Hs; [discriminate|].
  cbn [add_loop] in Hl. destruct (write_stk s) as [|node ws] eqn:Ew.
  - injection Hl as <- <-. rewrite Ew. split; [exact Hnl|]. split; [exact Hs|]. intros _.
    destruct (read_ops s) as [|[|nd] r]; [reflexivity| |destruct Hnl].
    cbn [shape length] in Hs. destruct Hs as (m' & Hm & _). discriminate.
  - destruct (is_hole node) eqn:Hh.
    + destruct node; try discriminate. injection Hl as <- <-. cbn [read_ops write_stk tc_stk].
      split; [exact Hnl|]. split; [exact Hs|]. intros; discriminate.
    + destruct (read_ops s) as [|[|n0] ops1] eqn:Er; try discriminate.
      set (s2 := {| read_ops := ops1; write_stk := ws; tc_stk := tc_stk s; out := out s |}) in *.
      destruct (emit_node orc s2 node) as [s3|] eqn:He; [|discriminate]. cbn [bind] in Hl.
      destruct (pop_conses (read_ops s3) (tc_stk s3)) as [[ops3 tc3]|] eqn:Hp; [|discriminate].
      cbn [bind] in Hl.
      assert (Hs3 : shape (read_ops s3) (length (tc_stk s3)) (length (write_stk s3))).
      { cbn [shape length] in Hs. destruct Hs as (m' & Hm & Hs). injection Hm as <-.
        unfold emit_node in He. destruct (find_path orc s2 node) as [path|].
        - destruct (write_atom_c _ path); [|discriminate]. cbn [bind] in He. injection He as <-.
          cbn [read_ops write_stk tc_stk length]. exact Hs.
        - destruct node as [b|l r|]; [| |discriminate].
          + destruct (write_atom_c _ b); [|discriminate]. cbn [bind] in He. injection He as <-.
            cbn [read_ops write_stk tc_stk length]. exact Hs.
          + injection He as <-. cbn [read_ops write_stk tc_stk length shape].
            eexists. split; [reflexivity|]. eexists. split; [reflexivity|].
            eexists. split; [reflexivity|]. exact Hs. }
      destruct (pop_conses_spec _ _ _ _ _ Hp Hs3) as (Hs4 & Hnl4 & _).
      apply (IH orc _ d s' Hl); cbn [read_ops write_stk tc_stk]; assumption.
Qed.

Lemma add_shape orc s node d u s' : ShapeInv s -> add orc s node = Ok (d, u, s') -> ShapeInv s'.
Proof.
  intros [Hnl Hs] Ha. unfold add in Ha. destruct (read_ops s) as [|o ops] eqn:Er; [discriminate|].
  match type of Ha with context [add_loop ?f ?o ?s0] => destruct (add_loop f o s0) as [[d0 s0']|] eqn:Hl end;
    [|discriminate].
  cbn [bind] in Ha. injection Ha as -> <- ->.
  unfold virt in Hs. rewrite Er in Hs.
  apply add_loop_shape in Hl; cbn [read_ops write_stk tc_stk]; [|exact Hnl|exact Hs].
  destruct Hl as (Hnl' & Hs' & Hd). split; [exact Hnl'|]. unfold virt.
  destruct d.
  - rewrite (Hd eq_refl) in *. exact Hs'.
  - destruct (read_ops s') eqn:E; [|exact Hs']. cbn [shape length] in Hs'. destruct Hs' as [_ Hm]. discriminate.
Qed.

Theorem reach_shape : forall s live, reach s live -> ShapeInv s /\ Forall (fun x => ShapeInv (snd x)) live.
Proof.
  intros s live Hr. induction Hr as [|s live orc node d u s' Hr [HI HF] Ha|s live i u s0 Hr [HI HF] Hn].
  - split; [|constructor]. split; [exact I|]. cbn. eexists. split; [reflexivity|split; reflexivity].
  - split; [exact (add_shape _ _ _ _ _ _ HI Ha)|constructor; [exact HI|exact HF]].
  - rewrite (restore_live _ _ _ _ Hr (nth_error_In _ _ Hn)).
    split; [|apply Forall_skipn; exact HF].
    rewrite Forall_forall in HF. exact (HF (u, s0) (nth_error_In _ _ Hn)).
Qed.

(* totality of add *)
Theorem add_total : forall s live orc node, reach s live -> read_ops s <> [] ->
  orc_small orc -> small node -> Forall small (write_stk s) ->
  exists d u s', add orc s node = Ok (d, u, s') /\ Forall small (write_stk s').
Proof.
  intros s live orc node Hr Hne Ho Hsn Hws. destruct (reach_shape _ _ Hr) as [[Hnl Hs] _].
  unfold add. destruct (read_ops s) as [|o ops] eqn:Er; [contradiction|].
  unfold virt in Hs. rewrite Er in Hs.
  set (s0 := {| read_ops := o :: ops; write_stk := node :: write_stk s; tc_stk := tc_stk s; out := out s |}).
  destruct (add_loop_total (add_fuel (write_stk s0)) orc s0 Ho) as (d & s' & Hl & Hws' & _).
  - unfold add_fuel, wsum. lia.
  - cbn [write_stk s0]. constructor; assumption.
  - exact Hnl.
  - exact Hs.
  - rewrite Hl. cbn [bind]. eexists _, _, _. split; [reflexivity|exact Hws'].
Qed.
