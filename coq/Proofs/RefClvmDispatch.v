(* C01, operator level (part 4): ChiaDialect::op with no flags against [ref_op current_adapters],
   for every operator atom, argument tree and budget: the dispatch (chia_dialect.rs:155) selects
   for every classic opcode the operator whose closed form the reference lists, and sends every
   other opcode that is not outside the classic set to the unknown-operator rule. *)
From Coq Require Import Lia ZifyBool ZifyN ZifyNat.
From Clvm Require Import Model.Dialect Model.RefClvm Proofs.RefClvmBasics Proofs.RefClvmOps
  Proofs.RefClvmLoops Proofs.RefClvmUnknown Proofs.UnknownProofs.
Open Scope N_scope.

Section Dispatch.
  Variable P : prims.
  Notation H := (p_sha256 P).
  Notation cur := current_adapters.

  (* what an operator model owes the reference's closed form *)
  Definition op_agrees (op : opfn) (g : list sexp -> res (N * sexp)) : Prop :=
    forall fl args M, plain_flags fl ->
      (forall b, In (Atom b) (items args) -> blen b < 2147483648) ->
      covers M (g (items args)) -> agrees (op fl args M) (g (items args)).

  (* the model's operators in the order of the reference's table *)
  Definition model_table : list (N * opfn) :=
    [ (3, op_if); (4, op_cons); (5, op_first); (6, op_rest); (7, op_listp); (8, op_raise);
      (9, op_eq); (10, op_gr_bytes); (11, op_sha256 H); (12, op_substr); (13, op_strlen);
      (14, op_concat); (16, op_add); (17, op_subtract); (18, op_multiply); (19, op_div);
      (20, op_divmod); (21, op_gr); (22, op_ash); (23, op_lsh);
      (24, op_logand); (25, op_logior); (26, op_logxor);
      (27, op_lognot); (32, op_not); (33, op_any); (34, op_all) ].

  Definition row_agrees (m : N * opfn) (r : N * (list sexp -> res (N * sexp))) : Prop :=
    fst m = fst r /\ op_agrees (snd m) (snd r).

  Lemma raise_agrees : op_agrees op_raise ref_raise.
  Proof. intros fl args M _ _ _. unfold op_raise, ref_raise, agrees. eauto. Qed.

  Lemma tables_agree : Forall2 row_agrees model_table (ref_table H cur).
  Proof.
    unfold model_table, ref_table.
    repeat (apply Forall2_cons; [split; [reflexivity|]; intros fl args M Hfl Hsz Hc; cbn [snd] in *|]);
      try apply Forall2_nil.
    - apply if_agrees; assumption.
    - apply cons_agrees.
    - apply first_agrees.
    - apply rest_agrees.
    - apply listp_agrees; assumption.
    - apply raise_agrees; assumption.
    - apply eq_agrees.
    - apply gr_bytes_agrees.
    - apply sha256_agrees; assumption.
    - apply substr_agrees; assumption.
    - apply strlen_agrees.
    - apply concat_agrees; assumption.
    - apply add_agrees; assumption.
    - apply sub_agrees; assumption.
    - apply mul_agrees; assumption.
    - apply div_agrees; assumption.
    - apply divmod_agrees; assumption.
    - apply gr_agrees; assumption.
    - apply ash_agrees.
    - apply lsh_agrees.
    - apply logand_agrees; assumption.
    - apply logior_agrees; assumption.
    - apply logxor_agrees; assumption.
    - apply lognot_agrees.
    - apply not_agrees.
    - apply any_agrees; assumption.
    - apply all_agrees; assumption.
  Qed.

  Lemma lookup_tables k : forall (mt : list (N * opfn)) rt, Forall2 row_agrees mt rt ->
    match lookup k rt with
    | Some g => exists op, lookup k mt = Some op /\ op_agrees op g
    | None => lookup k mt = None
    end.
  Proof.
    induction 1 as [|[k1 op] [k2 g] mt rt [Hk Ha] _ IH]; [reflexivity|].
    cbn [fst snd] in *. subst k2. cbn [lookup]. destruct (k =? k1); [eauto|exact IH].
  Qed.

  (* ---- the model's dispatch on a one-byte opcode ---- *)
  Lemma small_number_byte b :
    small_number (Atom [b]) = if (b =? 0) || (128 <=? b) then None else Some b.
  Proof.
    unfold small_number. cbn [length Nat.ltb Nat.leb canonical_int].
    assert (E : be_value [b] = b) by (unfold be_value; cbn [be_acc]; lia). rewrite E.
    destruct (b =? 0) eqn:E0; cbn [negb orb]; [reflexivity|].
    destruct (128 <=? b) eqn:E1; [reflexivity|].
    assert (E2 : (b <? 67108864) = true) by lia. rewrite E2. reflexivity.
  Qed.

  Definition is_none {A} (o : option A) : bool := match o with None => true | Some _ => false end.
  Definition is_op (o : option (res opfn)) (k : N) (t : list (N * opfn)) : bool :=
    match o, lookup k t with
    | Some (Ok _), Some _ => true
    | _, _ => false
    end.

  (* the opcodes below 128 that the reference does not list and that are not outside the classic
     set are not assigned by chia_table (no flags; and no flags + keccak except opcode 62) *)
  Definition unassigned_ok (fl : flagset) (kec : bool) (k : N) : bool :=
    implb (is_none (lookup k model_table) && negb (non_classic kec [k])) (is_none (chia_table P fl k)).

  Lemma unassigned_plain : forallb (unassigned_ok no_flags false) (map N.of_nat (seq 0 128)) = true.
  Proof. vm_compute. reflexivity. Qed.
  Lemma unassigned_kec : forallb (unassigned_ok (with_keccak no_flags) true) (map N.of_nat (seq 0 128)) = true.
  Proof. vm_compute. reflexivity. Qed.

  Lemma below_128_in k : k < 128 -> In k (map N.of_nat (seq 0 128)).
  Proof.
    intros Hk. apply in_map_iff. exists (N.to_nat k). split; [lia|]. apply in_seq. lia.
  Qed.

  Lemma chia_table_unassigned fl kec k :
    (fl = no_flags /\ kec = false) \/ (fl = with_keccak no_flags /\ kec = true) ->
    k < 128 -> lookup k model_table = None -> non_classic kec [k] = false ->
    chia_table P fl k = None.
  Proof.
    intros Hfl Hk Hl Hn. apply below_128_in in Hk.
    assert (Hu : unassigned_ok fl kec k = true).
    { destruct Hfl as [[-> ->]|[-> ->]];
        [exact (proj1 (forallb_forall _ _) unassigned_plain k Hk)
        |exact (proj1 (forallb_forall _ _) unassigned_kec k Hk)]. }
    unfold unassigned_ok in Hu. rewrite Hl, Hn in Hu. cbn in Hu.
    destruct (chia_table P fl k); [discriminate|reflexivity].
  Qed.

  (* the listed opcodes are dispatched to the listed operators, whatever the (plain) flags *)
  Lemma chia_table_listed fl k op : lookup k model_table = Some op -> chia_table P fl k = Some (Ok op).
  Proof.
    unfold model_table. cbn [lookup].
    repeat match goal with |- context [N.eqb k ?c] =>
      destruct (N.eqb_spec k c) as [->|_]; [intros E; apply Some_inj in E; subst op; reflexivity|] end.
    intros E; discriminate E.
  Qed.

  Lemma lookup_listed_small k (op : opfn) : lookup k model_table = Some op -> 0 < k < 128.
  Proof.
    unfold model_table. cbn [lookup].
    repeat match goal with |- context [N.eqb k ?c] =>
      destruct (N.eqb_spec k c) as [->|_]; [intros _; lia|] end.
    intros E; discriminate E.
  Qed.

  Definition ext_kec (ext : opset) : bool := match ext with OsKeccak => true | _ => false end.

  Lemma ext_flags ext : ext <> OsPreHardFork ->
    plain_flags (op_flags no_flags ext) /\
    ((op_flags no_flags ext = no_flags /\ ext_kec ext = false) \/
     (op_flags no_flags ext = with_keccak no_flags /\ ext_kec ext = true)).
  Proof.
    destruct ext; intros Hx; try congruence; cbn [op_flags ext_kec];
      (split; [first [apply plain_no_flags|apply plain_with_keccak]|auto]).
  Qed.

  Lemma lookup_none_codes b :
    lookup b (ref_table H cur) = None -> existsb (N.eqb b) classic_codes = false.
  Proof.
    unfold ref_table, classic_codes. cbn [lookup existsb].
    repeat match goal with |- context [N.eqb b ?c] =>
      destruct (N.eqb_spec b c) as [->|_]; [intros E; discriminate E|] end.
    intros _; reflexivity.
  Qed.

  (* [dom]: the domain of the comparison (Model/RefClvm.v); the wrap class of finding F6 only
     matters for opcodes that are dispatched to the unknown-operator rule *)
  Lemma chia_op_agrees_dom dom ext opc args M :
    ext <> OsPreHardFork ->
    (classic_code opc = false -> M < two64) ->
    (classic_code opc = false -> ~ wraps64 opc (arg_lens args) false M) ->
    (forall b, In (Atom b) (items args) -> blen b < 2147483648) ->
    non_classic (ext_kec ext) opc || negb (dom opc (items args)) = false ->
    covers M (ref_op H cur dom (ext_kec ext) opc (items args) (ending args)) ->
    agrees (chia_op P true no_flags (Atom opc) args M ext)
           (ref_op H cur dom (ext_kec ext) opc (items args) (ending args)).
  Proof.
    intros Hext HM Hw Hsz Enc Hc.
    destruct (ext_flags ext Hext) as [Hpl Hfl].
    unfold ref_op in *. cbn [ad_literal_operands_any_terminator cur negb andb] in *.
    rewrite Enc in *.
    apply orb_false_iff in Enc. destruct Enc as [Enc _].
    unfold chia_op. set (fl := op_flags no_flags ext) in *.
    assert (Hunknown : classic_code opc = false -> covers M (ref_unknown cur opc (items args)) ->
                       agrees (unknown_operator opc fl args M) (ref_unknown cur opc (items args))).
    { intros Hcc Hc'. apply unknown_agrees; auto. }
    unfold non_classic in Enc. apply orb_false_iff in Enc. destruct Enc as [Enc E1].
    apply orb_false_iff in Enc. destruct Enc as [Ek1 Er1].
    destruct opc as [|b [|c opc']].
    - (* empty opcode *) cbn [length Nat.eqb negb andb]. apply Hunknown; [reflexivity|exact Hc].
    - (* one byte *)
      cbn [length Nat.eqb negb andb]. rewrite small_number_byte.
      pose proof (lookup_tables b _ _ tables_agree) as Hl.
      destruct (lookup b (ref_table H cur)) as [g|] eqn:Eg.
      + destruct Hl as (op & Hop & Hag).
        pose proof (lookup_listed_small _ _ Hop) as Hb.
        assert (E : ((b =? 0) || (128 <=? b)) = false) by lia. rewrite E.
        rewrite (chia_table_listed fl _ _ Hop). apply Hag; assumption.
      + assert (Hcc : classic_code [b] = false) by (apply lookup_none_codes, Eg).
        destruct ((b =? 0) || (128 <=? b)) eqn:Eb; [apply Hunknown; [exact Hcc|exact Hc]|].
        rewrite (chia_table_unassigned fl (ext_kec ext) b); [apply Hunknown; [exact Hcc|exact Hc]|exact Hfl|lia|exact Hl|].
        unfold non_classic. rewrite Ek1, Er1, E1. reflexivity.
    - (* two or more bytes *)
      change SECP256K1_OPCODE with [19; 214; 31; 0]. change SECP256R1_OPCODE with [28; 58; 143; 0].
      rewrite Ek1, Er1. cbn [andb].
      destruct (length (b :: c :: opc') =? 4)%nat; [apply Hunknown; [reflexivity|exact Hc]|].
      cbn [length Nat.eqb negb]. apply Hunknown; [reflexivity|exact Hc].
  Qed.

  Theorem chia_op_agrees dom ext opc args M :
    ext <> OsPreHardFork ->
    (classic_code opc = false -> M < two64) ->
    (classic_code opc = false -> ~ wraps64 opc (arg_lens args) false M) ->
    (forall b, In (Atom b) (items args) -> blen b < 2147483648) ->
    ref_op H cur dom (ext_kec ext) opc (items args) (ending args) <> Err Unsupported ->
    covers M (ref_op H cur dom (ext_kec ext) opc (items args) (ending args)) ->
    agrees (chia_op P true no_flags (Atom opc) args M ext)
           (ref_op H cur dom (ext_kec ext) opc (items args) (ending args)).
  Proof.
    intros Hext HM Hw Hsz Hcl Hc. apply chia_op_agrees_dom; try assumption.
    unfold ref_op in Hcl.
    destruct (non_classic (ext_kec ext) opc || negb (dom opc (items args))); [congruence|reflexivity].
  Qed.
End Dispatch.