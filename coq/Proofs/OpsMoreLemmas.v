(* Facts about the operator models that are not contracts: modpow is (b^e) mod m; the
   pre-hard-fork accumulator split of op_add / op_subtract (rand::rng()) is unobservable. *)
From Coq Require Import Lia ZArith.
From Clvm Require Import Model.OpsArith.
Open Scope Z_scope.

Lemma modpow_pos_spec b p m : m <> 0 -> modpow_pos b p m = (b ^ Zpos p) mod m.
Proof.
  intros Hm. induction p as [p IH|p IH|]; cbn [modpow_pos].
  - rewrite IH. rewrite Pos2Z.inj_xI.
    replace (2 * Z.pos p + 1) with (Z.pos p + Z.pos p + 1) by lia.
    rewrite !Z.pow_add_r by lia. rewrite Z.pow_1_r.
    rewrite <- Z.mul_mod by exact Hm. rewrite Z.mul_mod_idemp_l by exact Hm. reflexivity.
  - rewrite IH. rewrite Pos2Z.inj_xO.
    replace (2 * Z.pos p) with (Z.pos p + Z.pos p) by lia.
    rewrite Z.pow_add_r by lia. rewrite <- Z.mul_mod by exact Hm. reflexivity.
  - rewrite Z.pow_1_r. reflexivity.
Qed.

Lemma modpow_spec b e m : 0 <= e -> m <> 0 -> modpow b e m = (b ^ e) mod m.
Proof.
  intros He Hm. destruct e as [|p|p]; cbn [modpow].
  - reflexivity.
  - apply modpow_pos_spec. exact Hm.
  - lia.
Qed.

(* the accumulator split *)
Lemma add_loop_split_eq orc pa pb a : forall i cost a0 a1 s m,
  add_loop_split orc i pa pb a cost a0 a1 s m = add_loop false pa pb a cost (a0 + a1 + s) m.
Proof.
  induction a as [b|x _ r IH]; intros i cost a0 a1 s m; cbn [add_loop_split add_loop].
  - reflexivity.
  - destruct x as [b|]; [|reflexivity]. cbv zeta.
    destruct (check_cost _ m); cbn [bind]; [|reflexivity].
    destruct (orc i =? 0)%N; [|destruct (orc i =? 1)%N]; rewrite IH; f_equal; lia.
Qed.

Lemma sub_loop_split_eq orc pa pb a : forall i cost a0 a1 s fst m,
  sub_loop_split orc i pa pb a cost a0 a1 s fst m = sub_loop false pa pb a cost (a0 + a1 + s) fst m.
Proof.
  induction a as [b|x _ r IH]; intros i cost a0 a1 s fst m; cbn [sub_loop_split sub_loop].
  - reflexivity.
  - cbv zeta. destruct (check_cost _ m); cbn [bind]; [|reflexivity].
    destruct x as [b|]; [|reflexivity].
    destruct (check_cost _ m); cbn [bind]; [|reflexivity].
    destruct (orc i =? 0)%N; [|destruct (orc i =? 1)%N]; rewrite IH; f_equal; destruct fst; lia.
Qed.

Theorem op_add_split_indep orc f a m : op_add_split orc f a m = op_add f a m.
Proof.
  unfold op_add_split, op_add. destruct (arith_costs f) as [[bc pa] pb].
  destruct (f_new_cost_model f); [reflexivity|]. rewrite add_loop_split_eq. reflexivity.
Qed.

Theorem op_subtract_split_indep orc f a m : op_subtract_split orc f a m = op_subtract f a m.
Proof.
  unfold op_subtract_split, op_subtract. destruct (arith_costs f) as [[bc pa] pb].
  destruct (f_new_cost_model f); [reflexivity|]. rewrite sub_loop_split_eq. reflexivity.
Qed.
