(* C01, evaluator level: the reference's big-step evaluator [ref_eval current_adapters] against
   the big-step form [eval] of run_program (Model/BigStep.v, proved equivalent to the stack
   machine in Proofs/BigStepEquiv.v) for ChiaDialect with no flags.

   ref_complete : whenever the reference succeeds with (cost, value) within the budget, the
                  interpreter succeeds with the same cost and value (same fuel). *)
From Coq Require Import Lia ZifyBool ZifyN ZifyNat.
From Clvm Require Import Model.Dialect Model.BigStep Model.RefClvm Proofs.RefClvmBasics
  Proofs.IntEncBasics Proofs.RefClvmUnknown Proofs.RefClvmDispatch Proofs.UnknownProofs
  Proofs.BigStepEquiv Proofs.BytesLemmas.
Open Scope N_scope.
Arguments check_cost : simpl never.

(* a domain of comparison is sound when it excludes what the theorems must exclude *)
Definition dom_sound (dom : bytes -> list sexp -> bool) : Prop :=
  forall opc args, dom opc (items args) = true ->
    (forall b, In (Atom b) (items args) -> blen b < 2147483648) /\
    (classic_code opc = false -> forall m, m < two64 -> ~ wraps64 opc (arg_lens args) false m).

(* a sound executable domain: classic opcodes on atoms below 2^31 bytes (unknown operators are
   outside it: their wrap class is not decided here) *)
Definition dom_classic (opc : bytes) (args : list sexp) : bool :=
  classic_code opc &&
  forallb (fun a => match a with Atom b => blen b <? 2147483648 | Cons _ _ => true end) args.

Lemma dom_classic_sound : dom_sound dom_classic.
Proof.
  intros opc args Hd. unfold dom_classic in Hd. apply andb_true_iff in Hd. destruct Hd as [Hc Hs].
  split.
  - intros b Hb. rewrite forallb_forall in Hs. specialize (Hs _ Hb). cbn in Hs. lia.
  - intros Hcc. congruence.
Qed.

(* a larger sound executable domain: also unknown operators with the constant cost function
   (the no-op opcodes), of at most five proper bytes *)
Definition unknown_const_ok (opc : bytes) : bool :=
  wf_bytes opc && (length opc <=? 5)%nat && ((last opc 0 / 64) mod 4 =? 0).

Definition dom_const (opc : bytes) (args : list sexp) : bool :=
  (classic_code opc || unknown_const_ok opc) &&
  forallb (fun a => match a with Atom b => blen b <? 2147483648 | Cons _ _ => true end) args.

Lemma wf_removelast b : wf_bytes b = true -> wf_bytes (removelast b) = true.
Proof.
  induction b as [|x b IH]; [reflexivity|]. intros Hw. rewrite wf_bytes_cons in Hw.
  apply andb_true_iff in Hw. destruct Hw as [Hx Hb]. destruct b as [|y b]; [reflexivity|].
  cbn [removelast]. rewrite wf_bytes_cons, Hx. apply IH. exact Hb.
Qed.

Lemma length_removelast_le {A} (l : list A) : (length (removelast l) <= length l)%nat.
Proof.
  induction l as [|x l IH]; [cbn; lia|]. destruct l as [|y l]; [cbn; lia|].
  cbn [removelast length] in *. lia.
Qed.

Lemma removelast_length_lt {A} (l : list A) : l <> [] -> (length (removelast l) < length l)%nat.
Proof.
  induction l as [|x l IH]; [congruence|]. intros _. destruct l as [|y l]; [cbn; lia|].
  cbn [removelast length] in *. assert (y :: l <> []) by discriminate. specialize (IH H). lia.
Qed.

Lemma dom_const_sound : dom_sound dom_const.
Proof.
  intros opc args Hd. unfold dom_const in Hd. apply andb_true_iff in Hd. destruct Hd as [Hc Hs].
  split.
  - intros b Hb. rewrite forallb_forall in Hs. specialize (Hs _ Hb). cbn in Hs. lia.
  - intros Hcc m Hm. rewrite Hcc in Hc. cbn [orb] in Hc. unfold unknown_const_ok in Hc.
    apply andb_true_iff in Hc. destruct Hc as [Hc Hfn]. apply andb_true_iff in Hc. destruct Hc as [Hwf Hlen].
    assert (Hcf : cost_function_of opc = 0).
    { unfold cost_function_of. rewrite cost_fn_bits. lia. }
    intros [[s Hov]|[_ (base & Hb & Hbig)]].
    + (* no u64 operation of the constant cost function can overflow *)
      unfold unknown_cost in Hov. rewrite Hcf in Hov.
      destruct (match opc with [] => true | _ :: _ => starts_ffff opc end); [discriminate|].
      destruct (u32_from_u8 (removelast opc)) as [mult|]; [|discriminate].
      unfold unknown_base in Hov. cbn [N.eqb] in Hov. change (0 =? 0) with true in Hov. cbn [bind] in Hov.
      destruct (check_cost 1 m) as [[]|e] eqn:Ec; cbn [bind] in Hov.
      * destruct (U32_MAX <? wrapping_mul 1 (mult + 1)); discriminate.
      * unfold check_cost in Ec. destruct (m <? 1); [|discriminate]. apply Ok_inj in Ec || (injection Ec as <-; discriminate).
    + rewrite Hcf in Hb. unfold spec_base in Hb. change (0 =? 1) with false in Hb.
      change (0 =? 2) with false in Hb. change (0 =? 3) with false in Hb. cbv iota in Hb.
      apply Some_inj in Hb. subst base.
      pose proof (be_value_bound _ (wf_removelast _ Hwf)) as Hbv.
      pose proof (length_removelast_le opc) as Hl1.
      assert (Hl : (length (removelast opc) <= 4)%nat).
      { destruct opc as [|x opc']; [cbn; lia|].
        pose proof (removelast_length_lt (x :: opc') ltac:(discriminate)). lia. }
      assert (Hp : 256 ^ N.of_nat (length (removelast opc)) <= 256 ^ 4).
      { apply N.pow_le_mono_r; lia. }
      change (256 ^ 4) with 4294967296 in Hp. unfold two64 in Hbig. lia.
Qed.

(* ---- keywords: the machine recognises quote / apply / softfork through small_number ---- *)
Lemma be_value_2 x y : be_value [x; y] = x * 256 + y.
Proof. unfold be_value. cbn [be_acc]. lia. Qed.
Lemma be_value_3 x y z : be_value [x; y; z] = (x * 256 + y) * 256 + z.
Proof. unfold be_value. cbn [be_acc]. lia. Qed.
Lemma be_value_4 x y z w : be_value [x; y; z; w] = ((x * 256 + y) * 256 + z) * 256 + w.
Proof. unfold be_value. cbn [be_acc]. lia. Qed.

Lemma small_number_kw b k : 0 < k < 128 ->
  (match small_number (Atom b) with Some v => v =? k | None => false end) = bytes_eqb b [k].
Proof.
  intros Hk. destruct b as [|x [|y [|z [|w [|u r]]]]].
  - cbn. destruct (N.eqb_spec 0 k); [lia|reflexivity].
  - rewrite small_number_byte. cbn [bytes_eqb]. rewrite andb_true_r.
    destruct ((x =? 0) || (128 <=? x)) eqn:E; [|reflexivity].
    destruct (N.eqb_spec x k); [lia|reflexivity].
  - unfold small_number. cbn [length Nat.ltb Nat.leb canonical_int bytes_eqb]. rewrite be_value_2.
    rewrite andb_false_r.
    destruct (negb ((x =? 0) && (y <? 128) || (x =? 255) && (128 <=? y))) eqn:Ec; [|reflexivity].
    destruct (128 <=? x) eqn:E1; [reflexivity|].
    destruct (x * 256 + y <? 67108864); [|reflexivity].
    destruct (N.eqb_spec (x * 256 + y) k); [lia|reflexivity].
  - unfold small_number. cbn [length Nat.ltb Nat.leb canonical_int bytes_eqb]. rewrite be_value_3.
    rewrite !andb_false_r.
    destruct (negb ((x =? 0) && (y <? 128) || (x =? 255) && (128 <=? y))) eqn:Ec; [|reflexivity].
    destruct (128 <=? x) eqn:E1; [reflexivity|].
    destruct ((x * 256 + y) * 256 + z <? 67108864); [|reflexivity].
    destruct (N.eqb_spec ((x * 256 + y) * 256 + z) k); [lia|reflexivity].
  - unfold small_number. cbn [length Nat.ltb Nat.leb canonical_int bytes_eqb]. rewrite be_value_4.
    rewrite !andb_false_r.
    destruct (negb ((x =? 0) && (y <? 128) || (x =? 255) && (128 <=? y))) eqn:Ec; [|reflexivity].
    destruct (128 <=? x) eqn:E1; [reflexivity|].
    destruct (((x * 256 + y) * 256 + z) * 256 + w <? 67108864); [|reflexivity].
    destruct (N.eqb_spec (((x * 256 + y) * 256 + z) * 256 + w) k); [lia|reflexivity].
  - unfold small_number. cbn [length Nat.ltb Nat.leb bytes_eqb]. rewrite !andb_false_r. reflexivity.
Qed.

Lemma is_kw_bytes b k : 0 < k < 128 -> is_kw (Atom b) k = bytes_eqb b [k].
Proof. intros Hk. unfold is_kw. apply small_number_kw. exact Hk. Qed.

(* ---- unsigned integer arguments of softfork ---- *)
Lemma drop_zeros_strip b : drop_zeros b = strip_zeros b.
Proof. induction b as [|x b IH]; [reflexivity|]. cbn. destruct x; [exact IH|reflexivity]. Qed.

Lemma uint_atom_small size t :
  uint_atom size false t = match small_uint size t with Some v => Ok v | None => bad_arg end.
Proof.
  destruct t as [b|]; [|reflexivity]. destruct b as [|x r]; [reflexivity|].
  unfold uint_atom, small_uint. destruct (128 <=? x); [reflexivity|].
  change drop_zeros with strip_zeros. cbv zeta. unfold uint_of_bytes. rewrite be_nat_value.
  destruct (Nat.ltb_spec size (length (strip_zeros (x :: r)))),
           (Nat.leb_spec (length (strip_zeros (x :: r))) size); try reflexivity; lia.
Qed.

Lemma cap_ok lim r c v : cap lim r = Ok (c, v) ->
  r = Ok (c, v) /\ match lim with Some m => c <= m | None => True end.
Proof.
  unfold cap. destruct lim as [m|]; [|auto]. destruct r as [[c' v']|]; [|discriminate].
  destruct (m <? c') eqn:E; [discriminate|]. intros E2. apply Ok_inj in E2.
  injection E2 as <- <-. split; [reflexivity|lia].
Qed.

Section Complete.
  Variable P : prims.
  Variable dom : bytes -> list sexp -> bool.
  Hypothesis Hdom : dom_sound dom.
  Variable M : N.                                 (* the run's budget, already 0 -> 2^64-1 *)
  Hypothesis HM : M < two64.
  Notation H := (p_sha256 P).
  Notation cur := current_adapters.
  Notation d := (chia_dialect P no_flags).

  (* the open guards of a run with no flags: extensions 0 and 1 only, expected costs in u64 *)
  Definition gs_ok (gs : list guard) : Prop :=
    Forall (fun g => (g_opset g = OsBls \/ g_opset g = OsKeccak) /\ g_expected g < two64) gs.

  Lemma gs_ok_ext gs : gs_ok gs -> gs_ext gs <> OsPreHardFork.
  Proof.
    intros Hg. destruct gs as [|g gs]; [discriminate|]. cbn.
    inversion Hg as [|? ? [[E|E] _] _]; rewrite E; discriminate.
  Qed.
  Lemma gs_ok_emax gs : gs_ok gs -> gs_emax gs M < two64.
  Proof.
    intros Hg. destruct gs as [|g gs]; [exact HM|]. cbn. inversion Hg as [|? ? [_ E] _]. exact E.
  Qed.

  Lemma chk_le gs cost : cost <= gs_emax gs M -> chk gs M cost = Ok tt.
  Proof. intros Hc. unfold chk. destruct (gs_emax gs M <? cost) eqn:E; [lia|reflexivity]. Qed.

  Section Step.
    Variable n : nat.
    Hypothesis IH : forall lim kec p e c v, ref_eval H cur dom n lim kec p e = Ok (c, v) ->
      forall gs cost, gs_ok gs -> ext_kec (gs_ext gs) = kec -> cost + c <= gs_emax gs M ->
      eval d M n gs cost p e = Ok (cost + c, v).

    Lemma softfork_complete lim args co v : ref_softfork cur (ref_eval H cur dom n) lim args = Ok (co, v) ->
      forall gs cost, gs_ok gs -> cost + co <= gs_emax gs M ->
      guard_big d M (eval d M n) gs cost args = Ok (cost + co, v).
    Proof.
      intros E gs cost Hg Hc. unfold ref_softfork in E. cbn [ad_softfork_guard cur] in E.
      unfold guard_big. change (f_canonical_ints (d_flags d)) with false.
      destruct args as [t|declared more]; [discriminate|]. cbn [items first bind] in E |- *.
      rewrite uint_atom_small. destruct (small_uint 8 declared) as [dc|]; [|discriminate]. cbn [bind].
      destruct (dc =? 0) eqn:E0; [discriminate|].
      assert (Hfin : forall r, r = Ok (dc, nil_s) -> r = Ok (co, v) -> dc = co /\ v = nil_s).
      { intros r -> E2. apply Ok_inj in E2. injection E2 as <- <-. auto. }
      unfold parse_softfork_arguments. rewrite get_args4_items. cbn [items].
      change (f_canonical_ints (d_flags d)) with false.
      change (d_allow_unknown d) with true.
      change (f_limit_softfork (d_flags d)) with false.
      change (f_new_cost_model (d_flags d)) with false.
      (* the skipped forms: fewer / more arguments, bad or unknown extension *)
      assert (Hskip : Ok (dc, nil_s) = Ok (co, v) ->
                      (if gs_emax gs M - cost <? dc then Err CostExceeded
                       else Ok (cost + dc, nil_s)) = Ok (cost + co, v)).
      { intros E2. apply Ok_inj in E2. injection E2 as <- <-.
        destruct (gs_emax gs M - cost <? dc) eqn:E3; [lia|reflexivity]. }
      destruct (items more) as [|ext [|prog [|env [|x5 l5]]]] eqn:Em; cbn [bind];
        try (exact (Hskip E)).
      rewrite uint_atom_small. destruct (small_uint 4 ext) as [x|]; cbn [bind]; [|exact (Hskip E)].
      change (d_ext d x) with (softfork_extension no_flags x). unfold softfork_extension.
      change (f_new_cost_model no_flags) with false. cbv iota. cbn [andb].
      destruct (gs_emax gs M - cost <? dc) eqn:E3.
      { (* the declared cost is above the remaining budget: the reference's result would be too *)
        destruct ((x =? 0) || (x =? 1)).
        - destruct (ref_eval H cur dom n (tighter lim dc) (x =? 1) prog env) as [[cb vb]|]; [|discriminate].
          destruct (cb + rc_guard =? dc); [|discriminate]. apply Ok_inj in E. injection E as <- <-. lia.
        - apply Ok_inj in E. injection E as <- <-. lia. }
      destruct (x =? 0) eqn:Ex0.
      - (* extension 0: the BLS operator set *)
        cbn [orb] in E. assert (Ex1 : (x =? 1) = false) by lia. rewrite Ex1 in E.
        cbn [opset_eqb bind].
        destruct (ref_eval H cur dom n (tighter lim dc) false prog env) as [[cb vb]|] eqn:Eb; [|discriminate].
        destruct (cb + rc_guard =? dc) eqn:Ecb; [|discriminate]. apply Ok_inj in E. injection E as <- <-.
        unfold rc_guard in Ecb. unfold GUARD_COST.
        set (g := {| g_expected := cost + dc; g_opset := OsBls |}).
        assert (Hg' : gs_ok (g :: gs)).
        { constructor; [|exact Hg]. cbn. split; [auto|]. pose proof (gs_ok_emax gs Hg). lia. }
        rewrite (IH _ _ _ _ _ _ Eb (g :: gs) (cost + 140) Hg' eq_refl) by (cbn; lia).
        cbn [bind]. rewrite chk_le by (cbn; lia). cbn [bind cost_exempt g_opset g opset_eqb negb andb g_expected].
        assert (E4 : (cost + 140 + cb =? cost + dc) = true) by lia. rewrite E4. cbn [negb]. apply ok2; [lia|reflexivity].
      - destruct (x =? 1) eqn:Ex1.
        + cbn [orb] in E. cbn [opset_eqb bind].
          destruct (ref_eval H cur dom n (tighter lim dc) true prog env) as [[cb vb]|] eqn:Eb; [|discriminate].
          destruct (cb + rc_guard =? dc) eqn:Ecb; [|discriminate]. apply Ok_inj in E. injection E as <- <-.
          unfold rc_guard in Ecb. unfold GUARD_COST.
          set (g := {| g_expected := cost + dc; g_opset := OsKeccak |}).
          assert (Hg' : gs_ok (g :: gs)).
          { constructor; [|exact Hg]. cbn. split; [auto|]. pose proof (gs_ok_emax gs Hg). lia. }
          rewrite (IH _ _ _ _ _ _ Eb (g :: gs) (cost + 140) Hg' eq_refl) by (cbn; lia).
          cbn [bind]. rewrite chk_le by (cbn; lia). cbn [bind cost_exempt g_opset g opset_eqb negb andb g_expected].
          assert (E4 : (cost + 140 + cb =? cost + dc) = true) by lia. rewrite E4. cbn [negb]. apply ok2; [lia|reflexivity].
        + cbn [orb] in E. cbn [opset_eqb]. apply Ok_inj in E. injection E as <- <-. reflexivity.
    Qed.

    Lemma apply_complete lim kec opc args co v :
      ref_apply H cur dom (ref_eval H cur dom n) lim kec opc args = Ok (co, v) ->
      forall gs cost, gs_ok gs -> ext_kec (gs_ext gs) = kec -> cost + co <= gs_emax gs M ->
      apply_big d M (eval d M n) gs cost (Atom opc) args = Ok (cost + co, v).
    Proof.
      intros E gs cost Hg Hk Hc. unfold apply_big. rewrite chk_le by lia. cbn [bind].
      change (d_apply d) with 2. change (d_softfork d) with 36.
      rewrite !is_kw_bytes by lia. unfold ref_apply in E.
      destruct (bytes_eqb opc [2]).
      - rewrite get_args2_items.
        destruct (items args) as [|prog [|env [|x l]]]; try discriminate. cbn [bind] in E |- *.
        destruct (ref_eval H cur dom n lim kec prog env) as [[c' v']|] eqn:Ep; [|discriminate].
        cbn [bind] in E. apply Ok_inj in E. injection E as <- <-. unfold rc_apply in *. unfold APPLY_COST.
        rewrite (IH _ _ _ _ _ _ Ep gs (cost + 90) Hg Hk) by lia. apply ok2; [lia|reflexivity].
      - destruct (bytes_eqb opc [36]).
        + apply softfork_complete with (lim := lim); assumption.
        + change (d_op d) with (chia_op P true no_flags).
          assert (Hns : ref_op H cur dom kec opc (items args) (ending args) <> Err Unsupported) by congruence.
          assert (Hd : dom opc (items args) = true).
          { unfold ref_op in E. destruct (dom opc (items args)); [reflexivity|].
            rewrite orb_true_r in E. discriminate. }
          destruct (Hdom opc args Hd) as [Hsz Hw].
          pose proof (gs_ok_emax gs Hg) as Hemax.
          subst kec.
          pose proof (chia_op_agrees P dom (gs_ext gs) opc args (gs_emax gs M - cost)
                        (gs_ok_ext gs Hg) (fun _ => ltac:(lia))
                        (fun Hcc => Hw Hcc (gs_emax gs M - cost) ltac:(lia)) Hsz Hns) as Ha.
          rewrite E in Ha. cbn [agrees] in Ha. rewrite Ha; [reflexivity|].
          intros c0 v0 E0. apply Ok_inj in E0. injection E0 as <- <-. lia.
    Qed.

    Lemma operands_complete lim kec e : forall l ca vals,
      ref_operands cur (ref_eval H cur dom n) lim kec l e = Ok (ca, vals) ->
      forall gs cost, gs_ok gs -> ext_kec (gs_ext gs) = kec -> cost + ca <= gs_emax gs M ->
      nil_terminated l = Ok tt /\
      eval_args M (eval d M n) gs cost l e = Ok (cost + ca, list_tree vals).
    Proof.
      induction l as [b|a _ r IHr]; intros ca vals E gs cost Hg Hk Hc.
      - destruct b as [|x b]; cbn in E; [|discriminate].
        apply Ok_inj in E. injection E as <- <-. split; [reflexivity|].
        cbn. apply ok2; [lia|reflexivity].
      - cbn [ref_operands] in E.
        destruct (ref_operands cur (ref_eval H cur dom n) lim kec r e) as [[cr vr]|] eqn:Er; [|discriminate].
        cbn [bind] in E.
        destruct (ref_eval H cur dom n lim kec a e) as [[c1 v1]|] eqn:Ea; [|discriminate].
        cbn [bind] in E. apply Ok_inj in E. injection E as <- <-.
        destruct (IHr _ _ eq_refl gs cost Hg Hk ltac:(lia)) as [Hnt Hev].
        split; [exact Hnt|]. cbn [eval_args]. rewrite Hev. cbn [bind].
        rewrite chk_le by lia. cbn [bind].
        rewrite (IH _ _ _ _ _ _ Ea gs (cost + cr) Hg Hk) by lia. cbn [bind].
        rewrite chk_le by lia. cbn [bind list_tree]. apply ok2; [lia|reflexivity].
    Qed.

    Lemma body_complete lim kec p e c v :
      ref_body H cur dom (ref_eval H cur dom n) lim kec p e = Ok (c, v) ->
      forall gs cost, gs_ok gs -> ext_kec (gs_ext gs) = kec -> cost + c <= gs_emax gs M ->
      eval_body d M (eval d M n) gs cost p e = Ok (cost + c, v).
    Proof.
      intros E gs cost Hg Hk Hc. unfold ref_body in E. apply cap_ok in E. destruct E as [E _].
      unfold eval_body. destruct p as [path|[opc|x t] operands].
      - rewrite path_agrees, E. reflexivity.
      - change (d_quote d) with 1. rewrite is_kw_bytes by lia.
        destruct (bytes_eqb opc [1]).
        + apply Ok_inj in E. injection E as <- <-. reflexivity.
        + destruct (ref_operands cur (ref_eval H cur dom n) lim kec operands e) as [[ca vals]|] eqn:Eo;
            [|discriminate]. cbn [bind] in E.
          destruct (ref_apply H cur dom (ref_eval H cur dom n) lim kec opc (list_tree vals)) as [[co v']|] eqn:Ea;
            [|discriminate]. cbn [bind] in E. apply Ok_inj in E. injection E as <- <-.
          unfold rc_op in *. unfold OP_COST.
          destruct (operands_complete _ _ _ _ _ _ Eo gs (cost + 1) Hg Hk ltac:(lia)) as [Hnt Hev].
          rewrite Hnt, Hev. cbn [bind].
          rewrite (apply_complete _ _ _ _ _ _ Ea gs (cost + 1 + ca) Hg Hk) by lia. cbn [bind].
          change (d_gc d (Atom opc)) with false. cbv iota. apply ok2; [lia|reflexivity].
      - destruct x as [opc|]; [|discriminate]. destruct t as [tb|]; [|discriminate].
        cbn [ad_head_any_terminator cur orb] in E.
        destruct (ref_apply H cur dom (ref_eval H cur dom n) lim kec opc operands) as [[c' v']|] eqn:Ea;
          [|discriminate]. cbn [bind] in E. apply Ok_inj in E. injection E as <- <-.
        unfold rc_apply in *. unfold APPLY_COST.
        rewrite (apply_complete _ _ _ _ _ _ Ea gs (cost + 90) Hg Hk) by lia. apply ok2; [lia|reflexivity].
    Qed.
  End Step.

  Theorem ref_eval_complete : forall n lim kec p e c v,
    ref_eval H cur dom n lim kec p e = Ok (c, v) ->
    forall gs cost, gs_ok gs -> ext_kec (gs_ext gs) = kec -> cost + c <= gs_emax gs M ->
    eval d M n gs cost p e = Ok (cost + c, v).
  Proof.
    induction n as [|n IHn]; intros lim kec p e c v E; [discriminate|].
    cbn [ref_eval eval] in *. intros gs cost Hg Hk Hc.
    apply (body_complete n IHn lim kec p e c v E gs cost Hg Hk Hc).
  Qed.
End Complete.

(* run level: whenever the reference succeeds within the budget, so does run_program, with the
   same cost and value *)
Theorem ref_run_complete P dom fuel p e max_cost r :
  dom_sound dom -> max_cost < two64 ->
  ref_run (p_sha256 P) current_adapters dom fuel p e max_cost = Ok r ->
  exists fuel', run_chia P fuel' 0 p e max_cost = Ok r.
Proof.
  intros Hdom HM E. destruct r as [c v]. unfold ref_run in E.
  assert (Hb : ref_budget max_cost < two64).
  { unfold ref_budget. destruct (max_cost =? 0); [reflexivity|exact HM]. }
  assert (Hc : c <= ref_budget max_cost).
  { destruct fuel as [|n]; [discriminate|]. cbn [ref_eval] in E. unfold ref_body in E.
    apply cap_ok in E. apply E. }
  pose proof (ref_eval_complete P dom Hdom (ref_budget max_cost) Hb fuel _ _ _ _ _ _ E [] 0
                (Forall_nil _) eq_refl ltac:(cbn; lia)) as Hev.
  apply (proj2 (run_program_big_equiv (chia_dialect P no_flags) p e max_cost (c, v))).
  exists fuel. unfold run_program_big, run_big. change COST_MAX with 18446744073709551615.
  fold (ref_budget max_cost). rewrite Hev. cbn [bind]. rewrite N.add_0_l.
  unfold chk. cbn [gs_emax]. destruct (ref_budget max_cost <? c) eqn:E2; [lia|reflexivity].
Qed.
