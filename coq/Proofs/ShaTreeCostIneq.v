(* C23: the inequality native_cost < clvm_cost, for every tree and both cost models: pure
   arithmetic over the two closed forms of Model/ShaTreeCost.v, by induction on the tree. *)
From Coq Require Import Lia ZifyBool ZifyN ZifyNat.
From Clvm Require Import Model.ShaTreeCost.
Open Scope N_scope.

Ltac unfold_costs :=
  unfold top_cost, func_overhead, sha_cost, call_cost, arglist_cost, path_cost, nil_path_cost,
    sha_base, sha_arg, sha_byte, if_cost, listp_cost, tree_byte,
    NEW_SHA256_BASE_COST, SHA256_BASE_COST, NEW_SHA256_COST_PER_ARG, SHA256_COST_PER_ARG,
    NEW_SHA256_COST_PER_BYTE, SHA256_COST_PER_BYTE, NEW_IF_COST, IF_COST, NEW_LISTP_COST, LISTP_COST,
    NEW_SHA256TREE_COST_PER_BYTE, SHA256TREE_COST_PER_BYTE, SHA256TREE_PAIR_COST, SHA256TREE_BASE_COST,
    MALLOC_COST_PER_BYTE, OP_COST, QUOTE_COST, APPLY_COST, CONS_COST,
    TRAVERSE_BASE_COST, TRAVERSE_COST_PER_BIT, TRAVERSE_COST_PER_ZERO_BYTE in *.

(* per node the ChiaLisp program pays at least what the native walk pays, with a margin of 1000
   per tree (the margin absorbs the native operator's base and call costs) *)
Lemma func_cost_lower ncm t :
  SHA256TREE_PAIR_COST * tree_pairs t + tree_byte ncm * tree_atom_bytes t + 1000 <= func_cost ncm t.
Proof.
  induction t as [b|l IHl r IHr]; cbn [func_cost tree_pairs tree_atom_bytes].
  - destruct ncm; unfold_costs; lia.
  - destruct ncm; unfold_costs; lia.
Qed.

Theorem native_lt_clvm ncm t : native_cost ncm t < clvm_cost ncm t.
Proof.
  pose proof (func_cost_lower ncm t) as H.
  unfold native_cost, native_op_cost, clvm_cost. destruct ncm; unfold_costs; lia.
Qed.

(* how much cheaper: the difference grows with every node (at least 1000 per atom and 1500 per
   pair); it does not shrink with the size of the atoms only because the per-byte costs of
   sha256tree and sha256 are EQUAL in both models (docs/sha256tree.md "COST_PER_BYTE") *)
Lemma per_byte_equal ncm : tree_byte ncm = sha_byte ncm.
Proof. destruct ncm; reflexivity. Qed.

Theorem native_gap ncm t :
  native_cost ncm t + 1000 * (tree_pairs t + 1) + 500 * tree_pairs t <= clvm_cost ncm t + 4.
Proof.
  assert (H : SHA256TREE_PAIR_COST * tree_pairs t + tree_byte ncm * tree_atom_bytes t
              + 1000 * (tree_pairs t + 1) + 500 * tree_pairs t <= func_cost ncm t).
  { induction t as [b|l IHl r IHr]; cbn [func_cost tree_pairs tree_atom_bytes].
    - destruct ncm; unfold_costs; lia.
    - destruct ncm; unfold_costs; lia. }
  unfold native_cost, native_op_cost, clvm_cost. destruct ncm; unfold_costs; lia.
Qed.
