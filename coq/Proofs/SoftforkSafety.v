(* C08: a dialect that knows the softfork extensions and the 4-byte secp operators versus the
   "otherwise identical" dialect that hides them. Operator level: the unknown-operator cost rule
   charges the secp opcodes exactly the secp costs and a successful secp call returns nil.
   Guard level: the hiding dialect skips every guard in one step with nil and the declared cost;
   the aware dialect, when the guard completes and is not cost-exempt, ends in the same state at
   the same cost (guard theorem of Proofs/MachineGuard.v). Run level: every run that succeeds on
   the aware dialect succeeds on the hiding dialect with the same cost and value. *)
From Coq Require Import Lia ZifyBool ZifyN ZifyNat.
From Clvm Require Import Model.Machine Model.Dialect Model.U64 Proofs.MachineBasics Proofs.MachineTotal
  Proofs.MachineFrame Proofs.MachineGuard Proofs.CryptoWrap2 Proofs.UnknownProofs Proofs.BytesLemmas.
Open Scope N_scope.

(* ------------------------------------------------------------------ more fuel changes nothing *)
Lemma run_loop_fuel_mono d M fuel : forall fuel' cost s r, (fuel <= fuel')%nat ->
  run_loop d fuel M cost s = Ok r -> run_loop d fuel' M cost s = Ok r.
Proof.
  induction fuel as [|fuel IH]; intros fuel' cost s r Hle H; [discriminate|].
  destruct fuel' as [|fuel']; [lia|]. cbn [run_loop] in *.
  destruct (step d M cost s) as [[[c1 s1]|[c1 s1]]|]; cbn [bind] in *; try discriminate.
  - apply IH; [lia|exact H].
  - exact H.
Qed.

(* ------------------------------------------------------------------ the secp opcodes *)
Lemma unknown_cost_secp_k1 lens ncm m : 1 <= m ->
  unknown_cost SECP256K1_OPCODE lens ncm m = Ok SECP256K1_VERIFY_COST.
Proof.
  intros Hm. unfold unknown_cost.
  change (match SECP256K1_OPCODE with [] => true | _ :: _ => starts_ffff SECP256K1_OPCODE end) with false.
  cbv iota.
  change (u32_from_u8 (removelast SECP256K1_OPCODE)) with (Some 1299999).
  change (cost_function_of SECP256K1_OPCODE) with 0.
  unfold unknown_base. change (0 =? 0) with true. cbv iota. cbn [bind].
  unfold check_cost. destruct (m <? 1) eqn:E; [lia|]. cbn [bind].
  destruct ncm; vm_compute; reflexivity.
Qed.

Lemma unknown_cost_secp_r1 lens ncm m : 1 <= m ->
  unknown_cost SECP256R1_OPCODE lens ncm m = Ok SECP256R1_VERIFY_COST.
Proof.
  intros Hm. unfold unknown_cost.
  change (match SECP256R1_OPCODE with [] => true | _ :: _ => starts_ffff SECP256R1_OPCODE end) with false.
  cbv iota.
  change (u32_from_u8 (removelast SECP256R1_OPCODE)) with (Some 1849999).
  change (cost_function_of SECP256R1_OPCODE) with 0.
  unfold unknown_base. change (0 =? 0) with true. cbv iota. cbn [bind].
  unfold check_cost. destruct (m <? 1) eqn:E; [lia|]. cbn [bind].
  destruct ncm; vm_compute; reflexivity.
Qed.

Lemma unknown_cost_secp lens ncm m : 1 <= m ->
  unknown_cost [0x13; 0xd6; 0x1f; 0x00] lens ncm m = Ok SECP256K1_VERIFY_COST /\
  unknown_cost [0x1c; 0x3a; 0x8f; 0x00] lens ncm m = Ok SECP256R1_VERIFY_COST.
Proof. intros H. split; [exact (unknown_cost_secp_k1 lens ncm m H)|exact (unknown_cost_secp_r1 lens ncm m H)]. Qed.

Lemma secp_ok_value cost pk_ok sig_ok verify f a m r :
  secp_verify cost pk_ok sig_ok verify f a m = Ok r -> cost <= m /\ r = (cost, nil_s).
Proof. intros H. apply wrap_secp_ok in H. destruct H as (H1 & H2 & _). split; assumption. Qed.

(* a successful secp call and the unknown-operator rule on the same opcode and arguments: the
   same cost, the same (nil) value *)
Lemma secp_as_unknown cost pk_ok sig_ok verify op f a m r :
  (forall lens ncm m', 1 <= m' -> unknown_cost op lens ncm m' = Ok cost) -> 1 <= cost ->
  f_no_unknown_ops f = false ->
  secp_verify cost pk_ok sig_ok verify f a m = Ok r -> unknown_operator op f a m = Ok r.
Proof.
  intros Hu Hc Hf H. apply wrap_secp_ok in H. destruct H as (Hm & -> & _).
  rewrite (unknown_operator_lenient _ _ _ _ Hf). unfold op_unknown.
  rewrite Hu by lia. reflexivity.
Qed.

Lemma no_unknown_op_flags f0 ext : f_no_unknown_ops (op_flags f0 ext) = f_no_unknown_ops f0.
Proof. destruct ext; reflexivity. Qed.

(* every operator success of the aware dialect is the same success of the hiding dialect *)
Lemma chia_op_hide P f0 o a m ext r : f_no_unknown_ops f0 = false ->
  chia_op P true f0 o a m ext = Ok r -> chia_op P false f0 o a m ext = Ok r.
Proof.
  intros Hf. unfold chia_op. destruct o as [b|]; [|exact (fun x => x)].
  destruct (length b =? 4)%nat; [|exact (fun x => x)].
  cbn [andb].
  assert (Hf' : f_no_unknown_ops (op_flags f0 ext) = false) by (rewrite no_unknown_op_flags; exact Hf).
  destruct (bytes_eqb b SECP256K1_OPCODE) eqn:E1.
  - assert (b = SECP256K1_OPCODE) as ->.
    { apply bytes_eqb_eq. exact E1. }
    unfold op_secp256k1_verify. apply secp_as_unknown; [exact unknown_cost_secp_k1|vm_compute; discriminate|exact Hf'].
  - destruct (bytes_eqb b SECP256R1_OPCODE) eqn:E2; [|exact (fun x => x)].
    assert (b = SECP256R1_OPCODE) as ->.
    { apply bytes_eqb_eq. exact E2. }
    unfold op_secp256r1_verify. apply secp_as_unknown; [exact unknown_cost_secp_r1|vm_compute; discriminate|exact Hf'].
Qed.

(* ------------------------------------------------------------------ aware vs hiding, abstractly *)
Section Hiding.
  Variables d1 d2 : dialect.          (* d1 aware, d2 hiding *)
  Hypothesis Hflags : d_flags d1 = d_flags d2.
  Hypothesis Hq : d_quote d1 = d_quote d2.
  Hypothesis Ha : d_apply d1 = d_apply d2.
  Hypothesis Hs : d_softfork d1 = d_softfork d2.
  Hypothesis Hgc : forall o, d_gc d1 o = d_gc d2 o.
  Hypothesis Hext2 : forall x, d_ext d2 x = OsDefault.
  Hypothesis Hallow2 : d_allow_unknown d2 = true.
  Hypothesis Hext1 : forall x, d_ext d1 x <> OsPreHardFork.     (* no cost-exempt guards *)
  Hypothesis Hop : forall o a m ext r, d_op d1 o a m ext = Ok r -> d_op d2 o a m ext = Ok r.

  Lemma eval_pair_hide s p e : eval_pair d1 s p e = eval_pair d2 s p e.
  Proof.
    unfold eval_pair. destruct p as [b|opn opl]; [reflexivity|].
    destruct opn as [b|no tl]; [|reflexivity].
    unfold eval_op_atom. rewrite Hq, Hgc. reflexivity.
  Qed.

  Lemma parse_hide ol : exists err, parse_softfork_arguments d2 ol = Err err.
  Proof.
    unfold parse_softfork_arguments. destruct (get_args4 ol) as [[[[a b] c] e0]|err]; cbn [bind]; [|eauto].
    destruct (uint_atom 4 _ b) as [x|err]; cbn [bind]; [|eauto].
    rewrite Hext2. cbn [opset_eqb]. eauto.
  Qed.

  Lemma parse_known ol ext prg env : parse_softfork_arguments d1 ol = Ok (ext, prg, env) ->
    ext <> OsPreHardFork.
  Proof.
    unfold parse_softfork_arguments. destruct (get_args4 ol) as [[[[a b] c] e0]|err]; cbn [bind]; [|discriminate].
    destruct (uint_atom 4 _ b) as [x|err]; cbn [bind]; [|discriminate].
    destruct (opset_eqb _ _); [discriminate|]. intros H; injection H as <- _ _. apply Hext1.
  Qed.

  (* the aware dialect's guard call is, for the hiding dialect, a call with an unknown extension *)
  Lemma guard_call_hide st vs es rest gs declared ext prg env :
    guard_call d1 st vs es rest gs declared ext prg env ->
    guard_call_unknown d2 st vs es rest gs declared.
  Proof.
    intros (args & operator & e0 & fa & -> & Hna & Hsf & Hfa & Hdc & Hps).
    destruct (parse_hide args) as (err & Herr).
    exists args, operator, e0, fa, err. rewrite <- Ha, <- Hs, <- Hflags. repeat split; assumption.
  Qed.

  (* (ii) a completed guard on the aware dialect and the skipped guard on the hiding dialect end
     in the same state at the same cost *)
  Theorem guard_agree M cost st vs es rest gs declared ext prg env :
    guard_call d1 st vs es rest gs declared ext prg env ->
    forall n c' st', nsteps d1 M n (cost, st) (c', st') -> (length (ops st') <= length rest)%nat ->
    exists k, (k <= n)%nat /\
      nsteps d1 M k (cost, st) (cost + declared, after_guard vs es rest gs) /\
      nsteps d1 M (n - k) (cost + declared, after_guard vs es rest gs) (c', st') /\
      step d2 M cost st = Ok (inl (cost + declared, after_guard vs es rest gs)).
  Proof.
    intros Hcall n c' st' Hn Hshort.
    destruct (guard_frame d1 M cost st vs es rest gs declared ext prg env Hcall n c' st' Hn Hshort)
      as (k & ck & Hk & Hk1 & Hk2 & _ & Hcost).
    assert (Hne : ext <> OsPreHardFork).
    { destruct Hcall as (args & operator & e0 & fa & _ & _ & _ & _ & _ & Hps). eapply parse_known; exact Hps. }
    rewrite (Hcost Hne) in *. exists k. split; [exact Hk|]. split; [exact Hk1|]. split; [exact Hk2|].
    rewrite (guard_skip_step d2 M cost st vs es rest gs declared (guard_call_hide _ _ _ _ _ _ _ _ _ Hcall)).
    cbn zeta.
    (* the three budget checks passed in the aware run's first step *)
    destruct n as [|n].
    { cbn [nsteps] in Hn. injection Hn as <- <-.
      destruct Hcall as (args & operator & e0 & fa & -> & _). cbn [ops length] in Hshort. lia. }
    cbn [nsteps fst snd] in Hn. destruct Hn as (m & Sm & _).
    rewrite (guard_enter_step d1 M cost st vs es rest gs declared ext prg env Hcall) in Sm. cbn zeta in Sm.
    destruct (_ <? cost); [discriminate|]. destruct (_ <? declared); [discriminate|].
    destruct (declared =? 0); [discriminate|]. reflexivity.
  Qed.

  (* one step of the aware dialect outside every guard: the hiding dialect does the same step,
     or the step enters a guard *)
  Lemma step_hide M cost s x : guards s = [] -> step d1 M cost s = Ok x ->
    (step d2 M cost s = Ok x /\ match x with inl (_, s1) => guards s1 = [] | inr _ => True end) \/
    (exists vs es rest declared ext prg env, guard_call d1 s vs es rest [] declared ext prg env).
  Proof.
    intros Hg. unfold step.
    destruct (effective_max s M <? cost); [discriminate|].
    destruct (ops s) as [|o rest_ops] eqn:Eo.
    - intros H. left. split; [exact H|]. injection H as <-. exact I.
    - set (s0 := {| vals := vals s; envs := envs s; ops := rest_ops; guards := guards s |}).
      destruct o.
      + (* apply *)
        unfold apply_op, pop. cbn [s0 vals envs ops guards].
        destruct (vals s) as [|ol [|opr vs]] eqn:Ev; cbn [bind vals envs ops guards]; try discriminate.
        destruct (envs s) as [|e0 es] eqn:Ee; [discriminate|].
        cbn [bind vals envs ops guards].
        set (s3 := {| vals := vs; envs := es; ops := rest_ops; guards := guards s |}).
        rewrite <- Ha, <- Hs.
        destruct (is_kw opr (d_apply d1)) eqn:Ka.
        * destruct (get_args2 ol) as [[no env]|]; cbn [bind]; [|discriminate].
          rewrite <- eval_pair_hide.
          destruct (eval_pair d1 s3 no env) as [[c s4]|] eqn:EP; cbn [bind]; [|discriminate].
          intros H. left. split; [exact H|]. injection H as <-.
          rewrite (eval_pair_guards _ _ _ _ _ _ EP). exact Hg.
        * destruct (is_kw opr (d_softfork d1)) eqn:Ks.
          -- unfold enter_guard. rewrite <- Hflags.
             destruct (first ol) as [fa|] eqn:Ef; cbn [bind]; [|discriminate].
             destruct (uint_atom 8 _ fa) as [ec|] eqn:Eu; cbn [bind]; [|discriminate].
             destruct (_ <? ec); [discriminate|]. destruct (ec =? 0); [discriminate|].
             destruct (parse_softfork_arguments d1 ol) as [[[ext prg] env]|err] eqn:Ep.
             ++ intros _. right. exists vs, es, rest_ops, ec, ext, prg, env.
                exists ol, opr, e0, fa. split; [|repeat split; assumption].
                destruct s as [sv se so sg]. cbn in *. subst. reflexivity.
             ++ destruct (parse_hide ol) as (err2 & ->). rewrite Hallow2.
                destruct (d_allow_unknown d1); [|discriminate].
                intros H. left. split; [exact H|]. injection H as <-. exact Hg.
          -- destruct (d_op d1 opr ol _ _) as [[c v]|] eqn:Ed; cbn [bind]; [|discriminate].
             rewrite (Hop _ _ _ _ _ Ed). cbn [bind].
             intros H. left. split; [exact H|]. injection H as <-. exact Hg.
      + (* cons *)
        intros H. left. split; [exact H|].
        destruct (cons_op s0) as [[c s'']|] eqn:E; cbn [bind] in H; [|discriminate]. injection H as <-.
        unfold cons_op in E.
        destruct (pop s0) as [[v1 sa]|] eqn:P1; cbn [bind] in E; [|discriminate].
        destruct (pop sa) as [[v2 sb]|] eqn:P2; cbn [bind] in E; [|discriminate].
        injection E as _ <-. cbn [push guards]. rewrite (pop_guards _ _ _ P2), (pop_guards _ _ _ P1). exact Hg.
      + (* exit guard: impossible outside guards *)
        unfold exit_guard. cbn [s0 guards]. rewrite Hg. discriminate.
      + (* swap eval *)
        unfold swap_eval_op.
        destruct (pop s0) as [[v1 sa]|] eqn:P1; cbn [bind]; [|discriminate].
        destruct (pop sa) as [[v2 sb]|] eqn:P2; cbn [bind]; [|discriminate].
        destruct (envs sb) as [|env ?]; [discriminate|].
        rewrite <- eval_pair_hide.
        match goal with |- context [eval_pair d1 ?S v2 env] =>
          destruct (eval_pair d1 S v2 env) as [[c s4]|] eqn:EP; cbn [bind]; [|discriminate] end.
        intros H. left. split; [exact H|]. injection H as <-.
        rewrite (eval_pair_guards _ _ _ _ _ _ EP). cbn [push push_op guards].
        rewrite (pop_guards _ _ _ P2), (pop_guards _ _ _ P1). exact Hg.
      + (* restore *)
        intros H. left. split; [exact H|].
        destruct (vals s0); cbn [bind] in H; [discriminate|]. injection H as <-. exact Hg.
  Qed.

  (* (iii) every successful run of the aware dialect from a state outside all guards is a
     successful run of the hiding dialect, same cost and value, with at most the same fuel *)
  Theorem run_loop_hide M fuel : forall f cost s r, (f <= fuel)%nat -> guards s = [] ->
    run_loop d1 f M cost s = Ok r -> run_loop d2 f M cost s = Ok r.
  Proof.
    induction fuel as [|fuel IH]; intros f cost s r Hf Hg H.
    { destruct f; [discriminate|lia]. }
    destruct f as [|f]; [discriminate|].
    pose proof H as H0. cbn [run_loop] in H |- *.
    destruct (step d1 M cost s) as [x|] eqn:E; cbn [bind] in H; [|discriminate].
    destruct (step_hide M cost s x Hg E) as [[E2 Hx]|(vs & es & rest & declared & ext & prg & env & Hcall)].
    - rewrite E2. cbn [bind]. destruct x as [[c1 s1]|[c1 s1]]; [|exact H].
      apply IH; [lia|exact Hx|exact H].
    - destruct (guard_frame_run d1 M cost s vs es rest [] declared ext prg env Hcall (S f) r H0)
        as (f' & ck & Hf' & Hrun & Hcost).
      assert (Hne : ext <> OsPreHardFork).
      { destruct Hcall as (args & operator & e0 & fa & _ & _ & _ & _ & _ & Hps). eapply parse_known; exact Hps. }
      rewrite (Hcost Hne) in Hrun.
      rewrite (guard_skip_step d2 M cost s vs es rest [] declared (guard_call_hide _ _ _ _ _ _ _ _ _ Hcall)).
      cbn zeta.
      rewrite (guard_enter_step d1 M cost s vs es rest [] declared ext prg env Hcall) in E. cbn zeta in E.
      destruct (_ <? cost); [discriminate|]. destruct (_ <? declared); [discriminate|].
      destruct (declared =? 0); [discriminate|]. cbn [bind].
      apply (run_loop_fuel_mono d2 M f'); [lia|].
      apply IH; [lia|reflexivity|exact Hrun].
  Qed.

  Theorem run_program_hide fuel p e M r :
    run_program d1 fuel p e M = Ok r -> run_program d2 fuel p e M = Ok r.
  Proof.
    unfold run_program. rewrite <- eval_pair_hide.
    destruct (eval_pair d1 init_state p e) as [[c s]|] eqn:EP; cbn [bind]; [|discriminate].
    apply (run_loop_hide _ fuel); [lia|].
    rewrite (eval_pair_guards _ _ _ _ _ _ EP). reflexivity.
  Qed.
End Hiding.

(* ------------------------------------------------------------------ ChiaDialect and its hiding twin *)
Lemma dialect_flags_unknown f : f_no_unknown_ops (dialect_flags f) = f_no_unknown_ops f.
Proof. unfold dialect_flags. destruct (f_new_cost_model f); reflexivity. Qed.
Lemma dialect_flags_ncm f : f_new_cost_model (dialect_flags f) = f_new_cost_model f.
Proof. unfold dialect_flags. destruct (f_new_cost_model f) eqn:E; [reflexivity|exact E]. Qed.

Lemma chia_ext_not_exempt P flags : f_new_cost_model flags = false ->
  forall x, d_ext (chia_dialect P flags) x <> OsPreHardFork.
Proof.
  intros Hn x. cbn [chia_dialect d_ext]. unfold softfork_extension.
  rewrite dialect_flags_ncm, Hn. destruct (x =? 0); [discriminate|]. destruct (x =? 1); discriminate.
Qed.

Theorem chia_run_hide P flags : f_new_cost_model flags = false -> f_no_unknown_ops flags = false ->
  forall fuel p e M r,
  run_program (chia_dialect P flags) fuel p e M = Ok r ->
  run_program (hiding_dialect P flags) fuel p e M = Ok r.
Proof.
  intros Hn Hu. apply run_program_hide; try reflexivity.
  - cbn [hiding_dialect d_allow_unknown]. rewrite dialect_flags_unknown, Hu. reflexivity.
  - apply chia_ext_not_exempt; exact Hn.
  - intros o a m ext r. cbn [chia_dialect hiding_dialect d_op]. apply chia_op_hide.
    rewrite dialect_flags_unknown. exact Hu.
Qed.

Theorem chia_guard_agree P flags : f_new_cost_model flags = false -> f_no_unknown_ops flags = false ->
  forall M cost st vs es rest gs declared ext prg env,
  guard_call (chia_dialect P flags) st vs es rest gs declared ext prg env ->
  forall n c' st', nsteps (chia_dialect P flags) M n (cost, st) (c', st') ->
  (length (ops st') <= length rest)%nat ->
  exists k, (k <= n)%nat /\
    nsteps (chia_dialect P flags) M k (cost, st) (cost + declared, after_guard vs es rest gs) /\
    nsteps (chia_dialect P flags) M (n - k) (cost + declared, after_guard vs es rest gs) (c', st') /\
    step (hiding_dialect P flags) M cost st = Ok (inl (cost + declared, after_guard vs es rest gs)).
Proof.
  intros Hn Hu. apply guard_agree; try reflexivity.
  - cbn [hiding_dialect d_allow_unknown]. rewrite dialect_flags_unknown, Hu. reflexivity.
  - apply chia_ext_not_exempt; exact Hn.
  - intros o a m ext r. cbn [chia_dialect hiding_dialect d_op]. apply chia_op_hide.
    rewrite dialect_flags_unknown. exact Hu.
Qed.

(* (i) the hiding dialect skips every softfork call whose cost argument is well-formed: one step,
   nil, the declared cost - whatever the extension and the remaining arguments are *)
Theorem hiding_guard_step P flags : f_no_unknown_ops flags = false ->
  forall M cost args operator e0 vs es rest gs fa declared,
  is_kw operator 36 = true -> first args = Ok fa ->
  uint_atom 8 (f_canonical_ints (dialect_flags flags)) fa = Ok declared ->
  let st := {| vals := args :: operator :: vs; envs := e0 :: es; ops := OApply :: rest; guards := gs |} in
  step (hiding_dialect P flags) M cost st =
    if effective_max st M <? cost then Err CostExceeded
    else if effective_max st M - cost <? declared then Err CostExceeded
    else if declared =? 0 then Err CostExceeded
    else Ok (inl (cost + declared, after_guard vs es rest gs)).
Proof.
  intros Hu M cost args operator e0 vs es rest gs fa declared Hk Hfa Hdc st.
  assert (Hp : exists err, parse_softfork_arguments (hiding_dialect P flags) args = Err err).
  { apply parse_hide. reflexivity. }
  destruct Hp as (err & Hp).
  apply (guard_skip_step (hiding_dialect P flags) M cost st vs es rest gs declared).
  exists args, operator, e0, fa, err. split; [reflexivity|].
  cbn [hiding_dialect d_apply d_softfork d_flags d_allow_unknown].
  split; [|split; [exact Hk|split; [exact Hfa|split; [exact Hdc|split; [exact Hp|]]]]].
  - unfold is_kw in *. destruct (small_number operator) as [v|]; [|discriminate].
    apply N.eqb_eq in Hk. subst v. reflexivity.
  - rewrite dialect_flags_unknown, Hu. reflexivity.
Qed.
