(* C05: the inline small-integer path lookup (traverse_path_fast, src/traverse_path.rs:79, reached
   from run_program.rs:307-320 when the path atom is stored inline) returns what the generic
   byte-string lookup (traverse_path) returns on the canonical encoding of the same number:
   same node, same cost (incl. the leading zero byte a canonical positive integer carries when
   its top bit would otherwise be set: 7, 15, 23, 31 path bits), same error. *)
From Coq Require Import Lia ZifyBool ZifyN ZifyNat.
From Clvm Require Import Model.Path Model.IntEnc Proofs.BytesLemmas Proofs.IntEncBasics Proofs.IntEncProofs.
Open Scope N_scope.

Arguments N.add : simpl never.
Arguments N.sub : simpl never.
Arguments N.mul : simpl never.
Arguments N.ltb : simpl never.
Arguments N.leb : simpl never.
Arguments N.eqb : simpl never.

(* the walk itself does not depend on the running cost; it adds 4 per bit *)
Lemma follow_shift bits : forall t c,
  follow bits t c =
  match follow bits t 0 with
  | Ok (c', t') => Ok (c + c', t')
  | Err e => Err e
  end.
Proof.
  induction bits as [|bit r IH]; intros t c; cbn [follow].
  - f_equal. f_equal. lia.
  - destruct t as [b|l rr]; [reflexivity|].
    rewrite (IH _ (c + TRAVERSE_COST_PER_BIT)), (IH _ (0 + TRAVERSE_COST_PER_BIT)).
    destruct (follow r _ 0) as [[c' t']|]; [|reflexivity]. f_equal. f_equal. lia.
Qed.

Lemma follow_cost bits : forall t c' t',
  follow bits t 0 = Ok (c', t') -> c' = N.of_nat (length bits) * TRAVERSE_COST_PER_BIT.
Proof.
  induction bits as [|bit r IH]; intros t c' t' H; cbn [follow] in H.
  - inversion H. reflexivity.
  - destruct t as [b|l rr]; [discriminate|].
    rewrite follow_shift in H. destruct (follow r _ 0) as [[c1 t1]|] eqn:E; [|discriminate].
    apply IH in E. inversion H. subst. cbn [length]. lia.
Qed.

Lemma bits_lsb_first_length n : forall v, length (bits_lsb_first n v) = n.
Proof. induction n as [|n IH]; intros v; cbn [bits_lsb_first length]; [reflexivity|]. now rewrite IH. Qed.

(* ---- the canonical bytes of a positive number ---- *)
Lemma canon_pos_bytes v : v <> 0 ->
  exists x r,
    be_bytes (nbytes_u v) v = x :: r /\ x <> 0 /\ x < 256 /\ be_value (x :: r) = v /\
    bytes_of_int (Z.of_N v) = (if 128 <=? x then 0 :: x :: r else x :: r) /\
    (128 <=? x) = (N.size v =? 8 * N.of_nat (nbytes_u v)).
Proof.
  intros Hv. destruct (nbytes_u_spec v Hv) as (Hn1 & Hlo & Hhi).
  pose proof (be_bytes_length (nbytes_u v) v) as Hlen.
  pose proof (be_bytes_wf (nbytes_u v) v) as Hwf.
  pose proof (be_value_be_bytes (nbytes_u v) v) as Hval. rewrite N.mod_small in Hval by exact Hhi.
  remember (be_bytes (nbytes_u v) v) as bb eqn:E in *. symmetry in E.
  destruct bb as [|x r]; [cbn [length] in Hlen; lia|].
  exists x, r. pose proof Hwf as Hwf0. rewrite wf_bytes_cons in Hwf. apply andb_prop in Hwf. destruct Hwf as [Hx Hr].
  unfold wf_byte in Hx. apply N.ltb_lt in Hx.
  pose proof (be_value_lt r Hr) as Hrv. cbn [length] in Hlen.
  assert (Hrl : length r = (nbytes_u v - 1)%nat) by lia.
  split; [reflexivity|]. split.
  { intros ->. rewrite be_value_cons in Hval. rewrite <- pow256_pow, Hrl in Hval. rewrite Hrl in Hrv. lia. }
  split; [exact Hx|]. split; [exact Hval|]. split.
  - destruct v as [|p]; [contradiction|]. cbn [Z.of_N bytes_of_int]. rewrite E. reflexivity.
  - rewrite (first_byte_test x r Hwf0), Hval. cbn [length]. rewrite Hrl.
    replace (S (nbytes_u v - 1)) with (nbytes_u v) by lia.
    pose proof (size_lower v Hv) as Hl. pose proof (N.size_gt v) as Hu.
    assert (1 <= N.size v) as Hs by (rewrite N.size_log2 by exact Hv; lia).
    assert (Hk : (8 * nbytes_u v <= N.to_nat (N.size v) + 7 < 8 * nbytes_u v + 8)%nat) by (unfold nbytes_u; lia).
    rewrite pow256_pow2. set (n := nbytes_u v) in *. set (s := N.size v) in *.
    destruct (N.eqb_spec s (8 * N.of_nat n)) as [Es|Es].
    + apply N.leb_le. replace (8 * N.of_nat n) with (N.succ (s - 1)) by lia.
      rewrite N.pow_succ_r'. lia.
    + apply N.leb_gt. assert (s <= 8 * N.of_nat n - 1) as Hle by lia.
      assert (2 ^ s <= 2 ^ (8 * N.of_nat n - 1)) as Hp by (apply N.pow_le_mono_r; lia).
      replace (8 * N.of_nat n) with (N.succ (8 * N.of_nat n - 1)) by lia.
      rewrite N.pow_succ_r'. lia.
Qed.

Lemma first_non_zero_nz x r : x <> 0 -> first_non_zero (x :: r) = O.
Proof. intros H. destruct x; [contradiction|reflexivity]. Qed.

(* the fast path's test "7, 15, 23 or 31 bits" is the canonical encoding's leading zero byte,
   for every index below 2^32 (inline atoms are below 2^26) *)
Lemma zero_byte_test v : v <> 0 -> v < 2 ^ 32 ->
  let nbits := N.size v - 1 in
  ((nbits =? 7) || (nbits =? 15) || (nbits =? 23) || (nbits =? 31))%bool
  = (N.size v =? 8 * N.of_nat (nbytes_u v)).
Proof.
  intros Hv Hlt nbits.
  assert (1 <= N.size v) as Hs by (rewrite N.size_log2 by exact Hv; lia).
  assert (N.size v <= 32) as Hs32.
  { destruct (N.le_gt_cases (N.size v) 32) as [|Hgt]; [assumption|exfalso].
    pose proof (size_lower v Hv) as Hl.
    assert (2 ^ 32 <= 2 ^ (N.size v - 1)) by (apply N.pow_le_mono_r; lia). lia. }
  assert (Hk : (8 * nbytes_u v <= N.to_nat (N.size v) + 7 < 8 * nbytes_u v + 8)%nat) by (unfold nbytes_u; lia).
  subst nbits. set (n := nbytes_u v) in *. set (s := N.size v) in *.
  destruct (N.eqb_spec s (8 * N.of_nat n)); lia.
Qed.

Theorem path_fast_eq v env : 0 < v < 2 ^ 32 ->
  traverse_path_fast v env = traverse_path (bytes_of_int (Z.of_N v)) env.
Proof.
  intros [Hpos Hlt]. assert (Hv : v <> 0) by lia.
  destruct (canon_pos_bytes v Hv) as (x & r & E & Hx0 & Hx & Hval & Hb & Htop).
  pose proof (zero_byte_test v Hv Hlt) as Hz. cbv zeta in Hz.
  unfold traverse_path_fast, traverse_path. replace (v =? 0) with false by lia.
  assert (Hbv : be_value (bytes_of_int (Z.of_N v)) = v).
  { rewrite Hb. destruct (128 <=? x); [|exact Hval].
    rewrite be_value_cons, Hval. lia. }
  rewrite Hbv. replace (v =? 0) with false by lia.
  unfold path_bits. rewrite Hbv.
  assert (Hsz : (N.to_nat (N.size v) - 1)%nat = N.to_nat (N.size v - 1)) by lia.
  rewrite Hsz. set (bits := bits_lsb_first (N.to_nat (N.size v - 1)) v).
  rewrite (follow_shift bits env (_ + _)).
  destruct (follow bits env 0) as [[c' t']|] eqn:Ef; [|reflexivity].
  apply follow_cost in Ef. subst bits. rewrite bits_lsb_first_length in Ef.
  rewrite Hz, <- Htop, Hb.
  destruct (128 <=? x) eqn:E128.
  - change (first_non_zero (0 :: x :: r)) with (S (first_non_zero (x :: r))).
    rewrite (first_non_zero_nz x r Hx0).
    f_equal. f_equal. unfold TRAVERSE_BASE_COST, TRAVERSE_COST_PER_BIT, TRAVERSE_COST_PER_ZERO_BYTE in *. lia.
  - rewrite (first_non_zero_nz x r Hx0).
    f_equal. f_equal. unfold TRAVERSE_BASE_COST, TRAVERSE_COST_PER_BIT, TRAVERSE_COST_PER_ZERO_BYTE in *. lia.
Qed.

(* index 0: the inline nil atom against the empty byte string *)
Theorem path_fast_zero env : traverse_path_fast 0 env = traverse_path [] env.
Proof. reflexivity. Qed.

(* which is also the canonical encoding of 0 *)
Lemma bytes_of_int_zero : bytes_of_int (Z.of_N 0) = [].
Proof. reflexivity. Qed.

(* in the form the evaluator uses it (run_program.rs:307-320): an atom the allocator stores
   inline ([small_number] = Some v: canonical encoding of v < 2^26) is looked up by
   traverse_path_fast v, any other atom by traverse_path on its bytes - same answer *)
From Clvm Require Import Model.OpUtils.

Theorem path_fast_small b v env : wf_bytes b = true -> small_number (Atom b) = Some v ->
  traverse_path_fast v env = traverse_path b env.
Proof.
  intros Hwf Hs. unfold small_number in Hs.
  destruct (4 <? length b)%nat; [discriminate|].
  destruct (canonical_int b) eqn:Hc; [|discriminate].
  destruct b as [|x r]; [inversion Hs; reflexivity|].
  destruct (128 <=? x) eqn:Hx; [discriminate|].
  cbv zeta in Hs. destruct (be_value (x :: r) <? 67108864) eqn:Hlt; [|discriminate].
  inversion Hs as [Hv]. clear Hs.
  pose proof (canonical_unique (x :: r) Hwf Hc) as Hu.
  rewrite int_of_bytes_eq, Hx in Hu.
  destruct (N.eq_dec (be_value (x :: r)) 0) as [E0|E0].
  - rewrite E0 in Hu. discriminate Hu.
  - rewrite <- Hu at 2. apply path_fast_eq. split; [lia|].
    apply N.ltb_lt in Hlt. change (2 ^ 32) with 4294967296. lia.
Qed.
