(* C07: restriction flags only remove successes — the lock-step theorem of MachineRestrict
   instantiated with ChiaDialect under two flag sets f <= f'. *)
From Coq Require Import Lia ZifyBool ZifyN ZifyNat.
From Clvm Require Import Model.Dialect Proofs.OpContractDefs Proofs.OpContractsMore2 Proofs.OpContractsCrypto
  Proofs.DialectContracts Proofs.DialectContracts2 Proofs.MachineBasics Proofs.MachineRestrict.
Open Scope N_scope.

Definition anyerr (_ : errkind) : Prop := True.

Ltac crack_table_eq H :=
  repeat match type of H with
         | (if ?c then _ else _) = _ => destruct c eqn:?
         | match ?p with xH => _ | xO _ => _ | xI _ => _ end = _ => destruct p
         | match ?n with N0 => _ | Npos _ => _ end = _ => destruct n
         end; try discriminate H.

Lemma strip_zeros_nz x r : x <> 0 -> strip_zeros (x :: r) = x :: r.
Proof. intros H. cbn [strip_zeros]. destruct x; [contradiction|reflexivity]. Qed.

(* a canonical integer argument is read to the same value by the lenient parser *)
Lemma uint_atom_canon_le size t v : uint_atom size true t = Ok v -> uint_atom size false t = Ok v.
Proof.
  unfold uint_atom. destruct t as [b|]; [|discriminate]. destruct b as [|x r]; [exact (fun H => H)|].
  destruct (128 <=? x) eqn:L; [discriminate|].
  destruct (x =? 0) eqn:Z.
  - apply N.eqb_eq in Z. subst x. destruct r as [|y r']; [discriminate|].
    destruct (128 <=? y) eqn:Ly; [|discriminate].
    assert (Hy : y <> 0) by lia.
    change (strip_zeros (0 :: y :: r')) with (strip_zeros (y :: r')). rewrite (strip_zeros_nz y r' Hy). exact (fun H => H).
  - apply N.eqb_neq in Z. rewrite (strip_zeros_nz x r Z). exact (fun H => H).
Qed.

Lemma uint_atom_rel c1 c2 size t : (c2 = true -> c1 = true) ->
  rr anyerr (uint_atom size c1 t) (uint_atom size c2 t).
Proof.
  intros H. destruct c1, c2; try apply rr_refl.
  - destruct (uint_atom size true t) eqn:E; cbn; [|left; exact I]. apply uint_atom_canon_le; exact E.
  - discriminate (H eq_refl).
Qed.

Lemma flag_le_dialect f f' : flag_le f f' -> flag_le (dialect_flags f) (dialect_flags f').
Proof.
  unfold flag_le, dialect_flags. intros (A & B & C & D & E & F & G & H & I & J & K & L & M).
  rewrite <- M. destruct (f_new_cost_model f) eqn:N; cbn; repeat split; auto; congruence.
Qed.

Lemma flag_le_op_flags f f' ext : flag_le f f' -> flag_le (op_flags f ext) (op_flags f' ext).
Proof.
  unfold flag_le, op_flags, with_keccak. intros (A & B & C & D & E & F & G & H & I & J & K & L & M).
  destruct ext; cbn; repeat split; auto.
Qed.

(* the dispatch of the more restrictive flag set succeeds only where the other one does *)
Lemma chia_op_restrict P know4 f f' o a m ext r : flag_le f f' ->
  chia_op P know4 f' o a m ext = Ok r -> chia_op P know4 f o a m ext = Ok r.
Proof.
  intros Hle H. unfold chia_op in *. destruct o as [b|]; [|discriminate].
  pose proof (flag_le_op_flags f f' ext Hle) as Hf.
  pose proof (all_ops_restrict P) as HA. rewrite Forall_forall in HA.
  destruct (length b =? 4)%nat.
  - destruct (know4 && bytes_eqb b SECP256K1_OPCODE)%bool.
    { exact (secp256k1_verify_restrict P _ _ _ _ _ Hf H). }
    destruct (know4 && bytes_eqb b SECP256R1_OPCODE)%bool.
    { exact (secp256r1_verify_restrict P _ _ _ _ _ Hf H). }
    exact (unknown_operator_restrict b _ _ _ _ _ Hf H).
  - destruct (negb (length b =? 1)%nat); [exact (unknown_operator_restrict b _ _ _ _ _ Hf H)|].
    destruct (small_number (Atom b)) as [op|]; [|exact (unknown_operator_restrict b _ _ _ _ _ Hf H)].
    (* the two tables differ only at opcode 60 (DISABLE_OP) *)
    destruct Hf as (A & B & C & D & E & F & G & Hgc & Hk & Hs & Hsec & Hm & Hn).
    assert (Hf : flag_le (op_flags f ext) (op_flags f' ext)) by (repeat split; assumption).
    assert (T : forall fn, chia_table P (op_flags f' ext) op = Some (Ok fn) -> chia_table P (op_flags f ext) op = Some (Ok fn)).
    { intros fn. unfold chia_table. rewrite <- Hk, <- Hs, <- Hsec, <- Hn. intros T.
      crack_table_eq T; try exact T.
      all: destruct (f_disable_op (op_flags f ext) && negb (f_new_cost_model (op_flags f ext)))%bool eqn:X; [|exact T].
      all: exfalso; apply andb_prop in X as [X1 X2]; rewrite (F X1), X2 in *; discriminate. }
    assert (N0 : chia_table P (op_flags f' ext) op = None -> chia_table P (op_flags f ext) op = None).
    { unfold chia_table. rewrite <- Hk, <- Hs, <- Hsec, <- Hn. intros T0.
      crack_table_eq T0; try reflexivity; try exact T0.
      all: destruct (f_disable_op (op_flags f ext) && negb (f_new_cost_model (op_flags f ext)))%bool; discriminate. }
    destruct (chia_table P (op_flags f' ext) op) as [[fn|e]|] eqn:T'.
    + rewrite (T fn eq_refl). apply chia_table_in in T'. exact (HA _ T' _ _ _ _ _ Hf H).
    + discriminate.
    + rewrite (N0 eq_refl). exact (unknown_operator_restrict b _ _ _ _ _ Hf H).
Qed.

Theorem chia_restrict P f f' : flag_le f f' ->
  (f_canonical_ints f' = f_canonical_ints f \/ f_no_unknown_ops f' = true) ->
  forall fuel p e M r,
  run_program (chia_dialect P f') fuel p e M = Ok r -> run_program (chia_dialect P f) fuel p e M = Ok r.
Proof.
  intros Hle HF8 fuel p e M r H.
  pose proof (flag_le_dialect f f' Hle) as Hd.
  assert (R : rr anyerr (run_program (chia_dialect P f') fuel p e M) (run_program (chia_dialect P f) fuel p e M)).
  { apply run_program_rel; try reflexivity.
    - intros o. cbn [d_gc chia_dialect]. unfold gc_candidate.
      destruct Hd as (_ & _ & _ & _ & _ & _ & _ & Hgc & _). rewrite Hgc. reflexivity.
    - intros o a m ext. cbn [d_op chia_dialect].
      destruct (chia_op P true (dialect_flags f') o a m ext) as [x|err] eqn:E; cbn; [|left; exact I].
      exact (chia_op_restrict P true _ _ o a m ext x Hd E).
    - right. unfold guards_agree. cbn [chia_dialect d_softfork d_ext d_flags d_allow_unknown].
      destruct Hd as (A & B & C & D & E & F & G & Hgc & Hk & Hs & Hsec & Hm & Hn).
      repeat split.
      + intros x. unfold softfork_extension. rewrite Hn. reflexivity.
      + symmetry; exact Hn.
      + intros size t. apply uint_atom_rel. exact A.
      + destruct HF8 as [H8|H8].
        * left. unfold dialect_flags. destruct (f_new_cost_model f'), (f_new_cost_model f); cbn; exact H8.
        * right. unfold dialect_flags. destruct (f_new_cost_model f'); cbn; rewrite H8; reflexivity.
      + destruct (f_no_unknown_ops (dialect_flags f)) eqn:U.
        * left. rewrite (B eq_refl). reflexivity.
        * destruct (f_no_unknown_ops (dialect_flags f')); [right; split; [reflexivity|intros; exact I]|left; reflexivity].
      + destruct (f_limit_softfork (dialect_flags f)) eqn:U.
        * left. rewrite (D eq_refl). reflexivity.
        * destruct (f_limit_softfork (dialect_flags f')); [right; split; [reflexivity|exact I]|left; reflexivity]. }
  rewrite H in R. exact R.
Qed.

(* ------------------------------------------------------------------ corollaries *)
Definition set_relaxed_bls (f : flagset) : flagset :=
  {| f_canonical_ints := f_canonical_ints f; f_no_unknown_ops := f_no_unknown_ops f;
     f_limit_heap := f_limit_heap f; f_relaxed_bls := true;
     f_limit_softfork := f_limit_softfork f; f_enable_gc := f_enable_gc f;
     f_limits := f_limits f; f_keccak_outside_guard := f_keccak_outside_guard f;
     f_disable_op := f_disable_op f; f_sha256_tree := f_sha256_tree f;
     f_secp_ops := f_secp_ops f; f_malachite := f_malachite f;
     f_new_cost_model := f_new_cost_model f |}.

(* MEMPOOL_MODE = NO_UNKNOWN_OPS | LIMIT_HEAP | DISABLE_OP | CANONICAL_INTS | LIMIT_SOFTFORK *)
Definition add_mempool_mode (f : flagset) : flagset :=
  {| f_canonical_ints := true; f_no_unknown_ops := true;
     f_limit_heap := true; f_relaxed_bls := f_relaxed_bls f;
     f_limit_softfork := true; f_enable_gc := f_enable_gc f;
     f_limits := f_limits f; f_keccak_outside_guard := f_keccak_outside_guard f;
     f_disable_op := true; f_sha256_tree := f_sha256_tree f;
     f_secp_ops := f_secp_ops f; f_malachite := f_malachite f;
     f_new_cost_model := f_new_cost_model f |}.

Lemma chia_relaxed P f fuel p e M r :
  run_program (chia_dialect P f) fuel p e M = Ok r ->
  run_program (chia_dialect P (set_relaxed_bls f)) fuel p e M = Ok r.
Proof.
  apply chia_restrict.
  - unfold flag_le, set_relaxed_bls; cbn. repeat split; auto.
  - left. reflexivity.
Qed.

Lemma chia_mempool P f fuel p e M r :
  run_program (chia_dialect P (add_mempool_mode f)) fuel p e M = Ok r ->
  run_program (chia_dialect P f) fuel p e M = Ok r.
Proof.
  apply chia_restrict.
  - unfold flag_le, add_mempool_mode; cbn. repeat split; auto.
  - right. reflexivity.
Qed.

Lemma has_lor w m bit : has (N.lor w m) bit = has w bit || has m bit.
Proof.
  unfold has. rewrite N.land_lor_distr_l.
  destruct (N.land w bit =? 0) eqn:A; destruct (N.land m bit =? 0) eqn:B; cbn.
  - apply N.eqb_eq in A, B. rewrite A, B. reflexivity.
  - apply N.eqb_eq in A. apply N.eqb_neq in B. rewrite A, N.lor_0_l. apply negb_true_iff, N.eqb_neq. exact B.
  - apply N.eqb_neq in A. apply negb_true_iff, N.eqb_neq. intros H. apply N.lor_eq_0_iff in H. tauto.
  - apply N.eqb_neq in A. apply negb_true_iff, N.eqb_neq. intros H. apply N.lor_eq_0_iff in H. tauto.
Qed.

(* the record update is the flag word ORed with MEMPOOL_MODE *)
Lemma add_mempool_mode_bits w : flags_of_N (N.lor w MEMPOOL_MODE_BITS) = add_mempool_mode (flags_of_N w).
Proof.
  unfold flags_of_N, add_mempool_mode. cbn [f_canonical_ints f_no_unknown_ops f_limit_heap f_relaxed_bls
    f_limit_softfork f_enable_gc f_limits f_keccak_outside_guard f_disable_op f_sha256_tree f_secp_ops
    f_malachite f_new_cost_model].
  rewrite !has_lor.
  repeat match goal with |- context [has MEMPOOL_MODE_BITS ?b] =>
    let v := eval vm_compute in (has MEMPOOL_MODE_BITS b) in change (has MEMPOOL_MODE_BITS b) with v end.
  rewrite !orb_true_r, !orb_false_r. reflexivity.
Qed.

Lemma chia_mempool_word P w fuel p e M r :
  run_program (chia_dialect P (flags_of_N (N.lor w MEMPOOL_MODE_BITS))) fuel p e M = Ok r ->
  run_program (chia_dialect P (flags_of_N w)) fuel p e M = Ok r.
Proof. rewrite add_mempool_mode_bits. apply chia_mempool. Qed.

Lemma f8_witness P :
  let q x := Cons (Atom [1]) x in
  let guard := Cons (Atom [36]) (Cons (q (Atom [0; 160])) (Cons (q (Atom [0])) (Cons (q (q (Atom [1]))) (Cons (q (Atom [])) (Atom []))))) in
  flag_le (flags_of_N 0x2000) (flags_of_N 0x2001) /\
  run_program (chia_dialect P (flags_of_N 0x2000)) 100 guard (Atom []) 0 = Ok (601, Atom []) /\
  run_program (chia_dialect P (flags_of_N 0x2001)) 100 guard (Atom []) 0 = Ok (241, Atom []).
Proof. vm_compute. repeat split; discriminate. Qed.
