(* ChiaDialect::new clears LIMITS when NEW_COST_MODEL is set; RuntimeDialect::new does not. Every
   operator reads LIMITS only in the form `limits && !new_cost_model && ...`, so the
   normalisation is unobservable at operator level:  op (dialect_flags f) = op f.  (Used to make
   C30 unconditional in the flag set.) *)
From Coq Require Import Lia.
From Clvm Require Import Model.Dialect Proofs.OpContractDefs Proofs.OpContractsCore Proofs.OpContractsCrypto Proofs.OpContractsMore
  Proofs.OpContractsMore2 Proofs.DialectContracts.
Open Scope N_scope.

Definition op_limits_norm (op : opfn) : Prop := forall f a m, op (dialect_flags f) a m = op f a m.

Ltac crack_flags f :=
  destruct f as [ci nu lh rb ls gc lim kk dis sha secp mal ncm];
  unfold dialect_flags; cbn [f_new_cost_model]; destruct ncm; [|reflexivity];
  destruct lim; [|reflexivity].

Ltac flag_cbn :=
  cbn [f_canonical_ints f_no_unknown_ops f_limit_heap f_relaxed_bls f_limit_softfork f_enable_gc f_limits
       f_keccak_outside_guard f_disable_op f_sha256_tree f_secp_ops f_malachite f_new_cost_model andb negb orb].

(* operators that read no flag but NEW_COST_MODEL (or none at all) *)
Lemma reads_ncm_limits op : reads_ncm op -> op_limits_norm op.
Proof.
  intros H f a m. apply H. unfold dialect_flags. destruct (f_new_cost_model f) eqn:E; cbn; congruence.
Qed.

Lemma mul_loop_limits sq args : forall cost total l0 m,
  mul_loop false true sq args cost total l0 m = mul_loop true true sq args cost total l0 m.
Proof.
  induction args as [b|arg _ rest IH]; intros cost total l0 m; cbn [mul_loop]; [reflexivity|].
  destruct arg as [b|]; [|reflexivity]. cbn [andb negb].
  destruct (check_cost _ m); cbn [bind]; [|reflexivity]. apply IH.
Qed.

Lemma multiply_limits : op_limits_norm op_multiply.
Proof.
  intros f a m. crack_flags f. unfold op_multiply. flag_cbn.
  destruct a as [b|arg rest]; [reflexivity|]. destruct arg as [b|]; [|reflexivity].
  destruct (do _ <- check_cost _ m; Ok _); cbn [bind]; [|reflexivity].
  rewrite mul_loop_limits. reflexivity.
Qed.

Ltac direct_limits unf := intros f a m; crack_flags f; unf; flag_cbn; reflexivity.

Lemma div_limits : op_limits_norm op_div.
Proof. direct_limits ltac:(unfold op_div, op_div_num, op_div_malachite, op_div_malachite_with). Qed.
Lemma divmod_limits : op_limits_norm op_divmod.
Proof. direct_limits ltac:(unfold op_divmod, op_divmod_num, op_divmod_malachite, op_divmod_malachite_with). Qed.
Lemma mod_limits : op_limits_norm op_mod.
Proof. direct_limits ltac:(unfold op_mod, op_mod_num, op_mod_malachite, op_mod_malachite_with). Qed.
Lemma modpow_limits : op_limits_norm op_modpow.
Proof. direct_limits ltac:(unfold op_modpow, op_modpow_num, op_modpow_malachite, op_modpow_malachite_with). Qed.

(* ------------------------------------------------------------------ g1_multiply / g2_multiply *)
Lemma bls_g1_multiply_limits P : op_limits_norm (op_bls_g1_multiply P).
Proof. direct_limits ltac:(unfold op_bls_g1_multiply). Qed.
Lemma bls_g2_multiply_limits P : op_limits_norm (op_bls_g2_multiply P).
Proof. direct_limits ltac:(unfold op_bls_g2_multiply). Qed.

(* ================================================================== the general form
   [flags_sim f f']: the two flag sets agree on every flag except ENABLE_GC (which no operator
   reads) and, under NEW_COST_MODEL, LIMITS and DISABLE_OP (which every operator reads only in the
   form `flag && !new_cost_model && ...`). [op_mask_indep]: such flag sets are indistinguishable
   for the operator. Instances: f ~ dialect_flags f (ChiaDialect::new), f ~ f minus ENABLE_GC,
   and, under NEW_COST_MODEL or without DISABLE_OP, f ~ f minus DISABLE_OP. *)
Definition flags_sim (f f' : flagset) : Prop :=
  f_canonical_ints f = f_canonical_ints f' /\ f_no_unknown_ops f = f_no_unknown_ops f' /\
  f_limit_heap f = f_limit_heap f' /\ f_relaxed_bls f = f_relaxed_bls f' /\
  f_limit_softfork f = f_limit_softfork f' /\
  f_keccak_outside_guard f = f_keccak_outside_guard f' /\
  f_sha256_tree f = f_sha256_tree f' /\ f_secp_ops f = f_secp_ops f' /\
  f_malachite f = f_malachite f' /\ f_new_cost_model f = f_new_cost_model f' /\
  (f_new_cost_model f = false -> f_limits f = f_limits f' /\ f_disable_op f = f_disable_op f').

Definition op_mask_indep (op : opfn) : Prop := forall f f' a m, flags_sim f f' -> op f a m = op f' a m.

Lemma flags_sim_refl f : flags_sim f f.
Proof. repeat split; reflexivity. Qed.
Lemma flags_sim_sym f f' : flags_sim f f' -> flags_sim f' f.
Proof.
  intros (H1&H2&H3&H4&H5&H6&H7&H8&H9&H10&H11). repeat split; try (symmetry; assumption);
  rewrite <- H10 in H; destruct (H11 H) as [A B]; symmetry; assumption.
Qed.
Lemma flags_sim_trans f f' f'' : flags_sim f f' -> flags_sim f' f'' -> flags_sim f f''.
Proof.
  intros (H1&H2&H3&H4&H5&H6&H7&H8&H9&H10&H11) (G1&G2&G3&G4&G5&G6&G7&G8&G9&G10&G11).
  repeat split; try congruence;
  destruct (H11 H) as [A B]; rewrite H10 in H; destruct (G11 H) as [A' B']; congruence.
Qed.

Lemma flags_sim_dialect_flags f : flags_sim f (dialect_flags f).
Proof.
  unfold dialect_flags. destruct (f_new_cost_model f) eqn:E; [|apply flags_sim_refl].
  repeat split; try reflexivity; try assumption; cbn; congruence.
Qed.

Lemma flags_sim_with_keccak f f' : flags_sim f f' -> flags_sim (with_keccak f) (with_keccak f').
Proof. intros (H1&H2&H3&H4&H5&H6&H7&H8&H9&H10&H11). repeat split; cbn; try assumption; apply H11; assumption. Qed.

Lemma flags_sim_op_flags f f' ext : flags_sim f f' -> flags_sim (op_flags f ext) (op_flags f' ext).
Proof. intros H. destruct ext; cbn [op_flags]; try exact H; apply flags_sim_with_keccak, H. Qed.

Lemma reads_ncm_mask op : reads_ncm op -> op_mask_indep op.
Proof. intros H f f' a m Hs. apply H. apply Hs. Qed.

(* the operators that read LIMITS / DISABLE_OP: case NEW_COST_MODEL off = all the flags they read
   are equal; case on = both sides are the operator on the flag set without the masked bits *)
Ltac sim_parts Hs :=
  let H1 := fresh in let H2 := fresh in let H3 := fresh in let H4 := fresh in let H5 := fresh in
  let H6 := fresh in let H7 := fresh in let H8 := fresh in let H9 := fresh in
  destruct Hs as (H1&H2&H3&H4&H5&H6&H7&H8&H9&Hn&Hlim).

Ltac mask_direct :=
  match goal with Hn : f_new_cost_model ?f = f_new_cost_model ?f', Hlim : _ -> _ |- _ =>
    rewrite Hn in *; destruct (f_new_cost_model f') eqn:En;
    [ destruct (f_limits f), (f_limits f'), (f_disable_op f), (f_disable_op f'); cbn [andb negb]; reflexivity
    | destruct (Hlim eq_refl) as [El Ed]; rewrite ?El, ?Ed; reflexivity ]
  end.

Lemma mul_loop_mask l1 l2 ncm sq args : (ncm = false -> l1 = l2) -> forall cost total l0 m,
  mul_loop l1 ncm sq args cost total l0 m = mul_loop l2 ncm sq args cost total l0 m.
Proof.
  intros H. destruct ncm; [|rewrite (H eq_refl); reflexivity].
  destruct l1, l2; intros; try reflexivity; [symmetry|]; apply mul_loop_limits.
Qed.

Lemma multiply_mask : op_mask_indep op_multiply.
Proof.
  intros f f' a m Hs. sim_parts Hs.
  destruct (f_new_cost_model f') eqn:En; rewrite ?En in Hn.
  - (* both sides equal the operator without LIMITS *)
    rewrite <- (multiply_limits f a m), <- (multiply_limits f' a m).
    apply multiply_flags; unfold dialect_flags; rewrite ?Hn, ?En; reflexivity.
  - destruct (Hlim Hn) as [El _]. apply multiply_flags; congruence.
Qed.

Lemma div_mask : op_mask_indep op_div.
Proof. intros f f' a m Hs. sim_parts Hs. rewrite !div_is_num. unfold op_div_num. mask_direct. Qed.
Lemma divmod_mask : op_mask_indep op_divmod.
Proof. intros f f' a m Hs. sim_parts Hs. rewrite !divmod_is_num. unfold op_divmod_num. mask_direct. Qed.
Lemma mod_mask : op_mask_indep op_mod.
Proof. intros f f' a m Hs. sim_parts Hs. rewrite !mod_is_num. unfold op_mod_num. mask_direct. Qed.
Lemma modpow_mask : op_mask_indep op_modpow.
Proof. intros f f' a m Hs. sim_parts Hs. rewrite !modpow_is_num. unfold op_modpow_num. cbv zeta. mask_direct. Qed.
Lemma bls_g1_multiply_mask P : op_mask_indep (op_bls_g1_multiply P).
Proof. intros f f' a m Hs. sim_parts Hs. unfold op_bls_g1_multiply. mask_direct. Qed.
Lemma bls_g2_multiply_mask P : op_mask_indep (op_bls_g2_multiply P).
Proof. intros f f' a m Hs. sim_parts Hs. unfold op_bls_g2_multiply. mask_direct. Qed.

Lemma negate_op_mask size base valid : op_mask_indep (negate_op size base valid).
Proof. intros f f' a m Hs. apply negate_op_flags, Hs. Qed.

Lemma unknown_operator_mask o : op_mask_indep (unknown_operator o).
Proof.
  intros f f' a m Hs. unfold unknown_operator.
  rewrite (unknown_reads o f f' a m) by apply Hs. destruct Hs as (_ & H2 & _). rewrite H2. reflexivity.
Qed.

Lemma all_ops_mask_indep P : Forall op_mask_indep (all_ops P).
Proof.
  unfold all_ops.
  repeat (constructor; [first
    [ apply multiply_mask | apply div_mask | apply divmod_mask | apply mod_mask | apply modpow_mask
    | apply bls_g1_multiply_mask | apply bls_g2_multiply_mask | apply negate_op_mask
    | apply reads_ncm_mask; first
      [ apply if_reads | apply cons_reads | apply first_reads | apply rest_reads | apply listp_reads
      | apply raise_reads | apply eq_reads | apply add_reads | apply subtract_reads | apply gr_reads
      | apply substr_reads | apply binop_reads | apply sha256_reads | apply sha256_tree_reads
      | apply coinid_ncm | apply keccak256_ncm | apply bls_map_to_g1_ncm | apply bls_map_to_g2_ncm
      | apply bls_pairing_identity_ncm | apply bls_verify_ncm
      | apply reads_none_ncm; first
        [ apply gr_bytes_reads | apply strlen_reads | apply concat_reads | apply ash_reads | apply lsh_reads
        | apply lognot_reads | apply not_reads | apply any_reads | apply all_reads ]
      | intros f f' a m _; reflexivity ] ]|]).
  constructor.
Qed.

(* ------------------------------------------------------------------ lifted through the dispatch *)
Lemma runtime_op_mask P f f' o a m ext : flags_sim f f' ->
  runtime_op P f o a m ext = runtime_op P f' o a m ext.
Proof.
  intros Hs. unfold runtime_op. destruct o as [b|]; [|reflexivity].
  pose proof (all_ops_mask_indep P) as HA. rewrite Forall_forall in HA.
  destruct b as [|x [|y r]]; try (apply unknown_operator_mask; exact Hs).
  destruct (runtime_table P x) as [g|] eqn:T.
  - apply runtime_table_in in T. apply (HA _ T). exact Hs.
  - apply unknown_operator_mask; exact Hs.
Qed.

Lemma chia_table_mask P f f' op : flags_sim f f' -> chia_table P f op = chia_table P f' op.
Proof.
  intros Hs. sim_parts Hs.
  assert (Ed : f_disable_op f && negb (f_new_cost_model f) = f_disable_op f' && negb (f_new_cost_model f')).
  { rewrite <- Hn. destruct (f_new_cost_model f) eqn:En; [rewrite !andb_false_r; reflexivity|].
    destruct (Hlim eq_refl) as [_ ->]. reflexivity. }
  unfold chia_table.
  repeat match goal with H : _ = _ |- _ => rewrite H; clear H end.
  reflexivity.
Qed.

Lemma chia_op_mask P know4 f f' o a m ext : flags_sim f f' ->
  chia_op P know4 f o a m ext = chia_op P know4 f' o a m ext.
Proof.
  intros Hs0. pose proof (flags_sim_op_flags f f' ext Hs0) as Hs. unfold chia_op.
  destruct o as [b|]; [|reflexivity].
  pose proof (all_ops_mask_indep P) as HA. rewrite Forall_forall in HA.
  destruct (length b =? 4)%nat.
  - destruct (know4 && bytes_eqb b SECP256K1_OPCODE)%bool; [reflexivity|].
    destruct (know4 && bytes_eqb b SECP256R1_OPCODE)%bool; [reflexivity|].
    apply unknown_operator_mask; exact Hs.
  - destruct (negb (length b =? 1)%nat); [apply unknown_operator_mask; exact Hs|].
    destruct (small_number (Atom b)) as [op|]; [|apply unknown_operator_mask; exact Hs].
    rewrite <- (chia_table_mask P _ _ op Hs).
    destruct (chia_table P (op_flags f ext) op) as [[g|e]|] eqn:T.
    + apply chia_table_in in T. apply (HA _ T). exact Hs.
    + reflexivity.
    + apply unknown_operator_mask; exact Hs.
Qed.
