(* ChiaDialect::new clears LIMITS when NEW_COST_MODEL is set; RuntimeDialect::new does not. Every
   operator reads LIMITS only in the form `limits && !new_cost_model && ...`, so the
   normalisation is unobservable at operator level:  op (dialect_flags f) = op f.  (Used to make
   C30 unconditional in the flag set.) *)
From Coq Require Import Lia.
From Clvm Require Import Model.Dialect Proofs.OpContractDefs Proofs.OpContractsCrypto Proofs.OpContractsMore
  Proofs.OpContractsMore2 Proofs.DialectContracts.
Open Scope N_scope.

Definition op_limits_norm (op : opfn) : Prop := forall f a m, op (dialect_flags f) a m = op f a m.

Ltac crack_flags f :=
  destruct f as [ci nu lh rb ls gc lim kk dis sha secp mal ncm];
  unfold dialect_flags; cbn [f_new_cost_model]; destruct ncm; [|reflexivity];
  destruct lim; [|reflexivity].

Ltac flag_cbn :=
  cbn [f_canonical_ints f_no_unknown_ops f_limit_heap f_relaxed_bls f_limit_softfork f_enable_gc f_limits
       f_keccak_outside_guard f_disable_op f_sha256_tree f_secp_ops f_malachite f_new_cost_model andb negb orb].

(* operators that read no flag but NEW_COST_MODEL (or none at all) *)
Lemma reads_ncm_limits op : reads_ncm op -> op_limits_norm op.
Proof.
  intros H f a m. apply H. unfold dialect_flags. destruct (f_new_cost_model f) eqn:E; cbn; congruence.
Qed.

Lemma mul_loop_limits sq args : forall cost total l0 m,
  mul_loop false true sq args cost total l0 m = mul_loop true true sq args cost total l0 m.
Proof.
  induction args as [b|arg _ rest IH]; intros cost total l0 m; cbn [mul_loop]; [reflexivity|].
  destruct arg as [b|]; [|reflexivity]. cbn [andb negb].
  destruct (check_cost _ m); cbn [bind]; [|reflexivity]. apply IH.
Qed.

Lemma multiply_limits : op_limits_norm op_multiply.
Proof.
  intros f a m. crack_flags f. unfold op_multiply. flag_cbn.
  destruct a as [b|arg rest]; [reflexivity|]. destruct arg as [b|]; [|reflexivity].
  destruct (do _ <- check_cost _ m; Ok _); cbn [bind]; [|reflexivity].
  rewrite mul_loop_limits. reflexivity.
Qed.

Ltac direct_limits unf := intros f a m; crack_flags f; unf; flag_cbn; reflexivity.

Lemma div_limits : op_limits_norm op_div.
Proof. direct_limits ltac:(unfold op_div, op_div_num, op_div_malachite, op_div_malachite_with). Qed.
Lemma divmod_limits : op_limits_norm op_divmod.
Proof. direct_limits ltac:(unfold op_divmod, op_divmod_num, op_divmod_malachite, op_divmod_malachite_with). Qed.
Lemma mod_limits : op_limits_norm op_mod.
Proof. direct_limits ltac:(unfold op_mod, op_mod_num, op_mod_malachite, op_mod_malachite_with). Qed.
Lemma modpow_limits : op_limits_norm op_modpow.
Proof. direct_limits ltac:(unfold op_modpow, op_modpow_num, op_modpow_malachite, op_modpow_malachite_with). Qed.
