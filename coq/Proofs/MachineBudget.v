(* C02: how the cost budget influences a run. One simulation between the run under a budget A and
   the run under a larger budget B: the two runs go through the same states (up to the expected
   cost recorded in cost-exempt guards, which is the budget itself) until the smaller budget is
   exceeded. Everything the property says about two budgets follows from [run_loop_sim]. *)
From Coq Require Import Lia ZifyBool ZifyN ZifyNat.
From Clvm Require Import Model.Machine Proofs.MachineBasics.
Open Scope N_scope.

(* the dialect's operator function obeys the budget contract: a success stays the same success
   under every larger budget, and a different budget can only turn it into CostExceeded *)
Definition dop_budget (d : dialect) : Prop :=
  forall o a m ext c v, d_op d o a m ext = Ok (c, v) ->
  forall m', (m <= m' -> d_op d o a m' ext = Ok (c, v)) /\
             (d_op d o a m' ext = Ok (c, v) \/ d_op d o a m' ext = Err CostExceeded).

(* ... and a success needs no more budget than the cost it reports (used for tightness only;
   finding F6 - the pre-hard-fork unknown-operator cost wrapping 64 bits - violates it) *)
Definition dop_tight (d : dialect) : Prop :=
  forall o a m ext c v, d_op d o a m ext = Ok (c, v) ->
  forall m', c <= m' -> d_op d o a m' ext = Ok (c, v).

Section TwoBudgets.
  Variable d : dialect.
  Hypothesis Hop : dop_budget d.
  Variables A B : N.
  Hypothesis HAB : A <= B.

  Definition grel (g1 g2 : guard) : Prop :=
    g_opset g1 = g_opset g2 /\
    (g_expected g1 = g_expected g2 \/
     (g_opset g1 = OsPreHardFork /\ g_expected g1 = A /\ g_expected g2 = B)).

  Definition R (s1 s2 : mstate) : Prop :=
    s2 = set_guards s1 (guards s2) /\ Forall2 grel (guards s1) (guards s2).

  (* outcome of the smaller budget vs outcome of the larger one *)
  Definition rel_res {X} (P : X -> X -> Prop) (r1 r2 : res X) : Prop :=
    match r1, r2 with
    | Ok a, Ok b => P a b
    | Err e, Ok _ => e = CostExceeded
    | Err _, Err _ => True
    | Ok _, Err _ => False
    end.

  Definition Rcs (x y : N * mstate) : Prop := fst x = fst y /\ R (snd x) (snd y).

  Lemma rel_res_cost_exceeded {X} (P : X -> X -> Prop) r2 : rel_res P (Err CostExceeded) r2.
  Proof. destruct r2; cbn; auto. Qed.

  Lemma R_refl s : R s s.
  Proof.
    split; [symmetry; apply set_guards_id|].
    induction (guards s) as [|g gs IH]; constructor; [|exact IH]. split; [reflexivity|left; reflexivity].
  Qed.

  Lemma R_set s gs1 gs2 : Forall2 grel gs1 gs2 -> R (set_guards s gs1) (set_guards s gs2).
  Proof. intros H; split; [reflexivity|exact H]. Qed.

  Lemma R_inv s1 s2 : R s1 s2 -> exists s gs1 gs2, s1 = set_guards s gs1 /\ s2 = set_guards s gs2 /\ Forall2 grel gs1 gs2.
  Proof.
    intros [E F]. exists s1, (guards s1), (guards s2). split; [symmetry; apply set_guards_id|]. split; assumption.
  Qed.

  (* a guard-oblivious function lifts to R-related results *)
  Lemma lift_related (f : mstate -> res (N * mstate)) :
    (forall s gs, f (set_guards s gs) = lift_s gs (f s)) ->
    (forall s c s', f s = Ok (c, s') -> guards s' = guards s) ->
    forall s1 s2, R s1 s2 -> rel_res Rcs (f s1) (f s2).
  Proof.
    intros Hl Hg s1 s2 HR. destruct (R_inv _ _ HR) as (s & gs1 & gs2 & -> & -> & F).
    rewrite !Hl. destruct (f s) as [[c s']|e] eqn:E; cbn; [|exact I].
    split; [reflexivity|]. cbn. apply R_set. exact F.
  Qed.

  Lemma emax_rel s1 s2 : R s1 s2 ->
    (effective_max s1 A = effective_max s2 B \/ (effective_max s1 A = A /\ effective_max s2 B = B)) /\
    (guards s1 = [] -> effective_max s1 A = A /\ effective_max s2 B = B).
  Proof.
    intros [_ F]. unfold effective_max. inversion F as [|g1 g2 l1 l2 Hg Hl E1 E2]; cbn.
    - split; [right; split; reflexivity|intros _; split; reflexivity].
    - split; [|discriminate]. destruct Hg as [_ [Hg|(_ & -> & ->)]]; [left; exact Hg|right; split; reflexivity].
  Qed.

  Lemma emax_le s1 s2 : R s1 s2 -> effective_max s1 A <= effective_max s2 B.
  Proof. intros H. destruct (emax_rel _ _ H) as [[E|[-> ->]] _]; lia. Qed.

  (* ---------------------------------------------------------------- enter_guard *)
  Lemma enter_guard_sim s gs1 gs2 ol cost m1 m2 :
    Forall2 grel gs1 gs2 -> m1 <= m2 ->
    (gs1 = [] -> cost + m1 = A /\ cost + m2 = B) ->
    rel_res Rcs (enter_guard d (set_guards s gs1) ol cost m1) (enter_guard d (set_guards s gs2) ol cost m2).
  Proof.
    intros F Hm Hnil. unfold enter_guard.
    destruct (first ol) as [fa|e]; cbn [bind]; [|exact I].
    destruct (uint_atom 8 _ fa) as [ec|e]; cbn [bind]; [|exact I].
    destruct (m1 <? ec) eqn:E1; [apply rel_res_cost_exceeded|].
    destruct (m2 <? ec) eqn:E2; [lia|].
    destruct (ec =? 0); [exact I|].
    destruct (parse_softfork_arguments d ol) as [[[ext prg] env]|err].
    2:{ destruct (d_allow_unknown d); cbn; [|exact I]. split; [reflexivity|]. cbn.
        change (push nil_s (set_guards s gs1)) with (set_guards (push nil_s s) gs1).
        change (push nil_s (set_guards s gs2)) with (set_guards (push nil_s s) gs2).
        apply R_set; exact F. }
    cbn [guards set_guards].
    rewrite (Forall2_len _ _ _ F).
    destruct (f_limit_softfork (d_flags d) && _)%bool; [exact I|].
    set (x1 := match ext with OsPreHardFork => match gs1 with g :: _ => g_expected g | [] => cost + m1 end | _ => cost + ec end).
    set (x2 := match ext with OsPreHardFork => match gs2 with g :: _ => g_expected g | [] => cost + m2 end | _ => cost + ec end).
    assert (Hg : grel {| g_expected := x1; g_opset := ext |} {| g_expected := x2; g_opset := ext |}).
    { split; [reflexivity|]. cbn. subst x1 x2. destruct ext; try (left; reflexivity).
      inversion F as [|g1 g2 l1 l2 Hg Hl E1' E2']; subst.
      - destruct (Hnil eq_refl) as [-> ->]. right; repeat split; reflexivity.
      - destruct Hg as [Ho [Hg|(Hp & Ha & Hb)]]; [left; exact Hg|right; repeat split; assumption]. }
    cbn [vals envs ops set_guards].
    match goal with |- rel_res _ (do '(c, s5) <- eval_pair d ?S1 prg env; _) (do '(c, s5) <- eval_pair d ?S2 prg env; _) =>
      change S1 with (set_guards (push_op OExitGuard s) ({| g_expected := x1; g_opset := ext |} :: gs1));
      change S2 with (set_guards (push_op OExitGuard s) ({| g_expected := x2; g_opset := ext |} :: gs2)) end.
    rewrite !eval_pair_set_guards.
    destruct (eval_pair d (push_op OExitGuard s) prg env) as [[c s5]|e]; cbn; [|exact I].
    split; [reflexivity|]. apply R_set. constructor; assumption.
  Qed.

  (* ---------------------------------------------------------------- apply_op *)
  Lemma current_extensions_rel s gs1 gs2 : Forall2 grel gs1 gs2 ->
    current_extensions (set_guards s gs1) = current_extensions (set_guards s gs2).
  Proof.
    intros F. unfold current_extensions; cbn. inversion F as [|g1 g2 l1 l2 [Hg _] Hl]; [reflexivity|exact Hg].
  Qed.

  Lemma dop_sim o a ext m1 m2 : m1 <= m2 ->
    rel_res eq (d_op d o a m1 ext) (d_op d o a m2 ext).
  Proof.
    intros Hm. destruct (d_op d o a m1 ext) as [[c v]|e] eqn:E1.
    - destruct (Hop _ _ _ _ _ _ E1 m2) as (H1 & _). rewrite (H1 Hm). reflexivity.
    - destruct (d_op d o a m2 ext) as [[c v]|e2] eqn:E2; cbn; [|exact I].
      destruct (Hop _ _ _ _ _ _ E2 m1) as (_ & [H|H]); congruence.
  Qed.

  Lemma apply_op_sim s1 s2 cost m1 m2 :
    R s1 s2 -> m1 <= m2 ->
    (guards s1 = [] -> cost + m1 = A /\ cost + m2 = B) ->
    rel_res Rcs (apply_op d s1 cost m1) (apply_op d s2 cost m2).
  Proof.
    intros HR Hm Hnil. destruct (R_inv _ _ HR) as (s & gs1 & gs2 & -> & -> & F). cbn [guards set_guards] in Hnil.
    unfold apply_op. rewrite !pop_set_guards.
    destruct (pop s) as [[ol sa]|e]; cbn [lift_s bind]; [|exact I].
    rewrite !pop_set_guards.
    destruct (pop sa) as [[opr sb]|e]; cbn [lift_s bind]; [|exact I].
    cbn [envs set_guards]. destruct (envs sb) as [|e0 envs']; [exact I|].
    cbn [vals ops guards set_guards].
    set (s3 := {| vals := vals sb; envs := envs'; ops := ops sb; guards := guards sb |}).
    change {| vals := vals sb; envs := envs'; ops := ops sb; guards := gs1 |} with (set_guards s3 gs1).
    change {| vals := vals sb; envs := envs'; ops := ops sb; guards := gs2 |} with (set_guards s3 gs2).
    destruct (is_kw opr (d_apply d)).
    - destruct (get_args2 ol) as [[no env]|e]; cbn [bind]; [|exact I].
      rewrite !eval_pair_set_guards.
      destruct (eval_pair d s3 no env) as [[c s4]|e]; cbn; [|exact I].
      split; [reflexivity|]. apply R_set; exact F.
    - destruct (is_kw opr (d_softfork d)).
      + apply enter_guard_sim; assumption.
      + rewrite (current_extensions_rel s3 gs1 gs2 F).
        pose proof (dop_sim opr ol (current_extensions (set_guards s3 gs2)) m1 m2 Hm) as Hd.
        destruct (d_op d opr ol m1 _) as [[c1 v1]|e1]; destruct (d_op d opr ol m2 _) as [[c2 v2]|e2]; cbn in Hd |- *; try assumption.
        injection Hd as -> ->. split; [reflexivity|]. cbn.
        change (push v2 (set_guards s3 gs1)) with (set_guards (push v2 s3) gs1).
        change (push v2 (set_guards s3 gs2)) with (set_guards (push v2 s3) gs2).
        apply R_set; exact F.
  Qed.

  (* ---------------------------------------------------------------- exit_guard *)
  Lemma exit_guard_sim s1 s2 cost : R s1 s2 -> rel_res Rcs (exit_guard s1 cost) (exit_guard s2 cost).
  Proof.
    intros HR. destruct (R_inv _ _ HR) as (s & gs1 & gs2 & -> & -> & F).
    unfold exit_guard; cbn [guards set_guards vals envs ops].
    inversion F as [|g1 g2 l1 l2 [Ho Hg] Hl E1 E2]; [exact I|].
    unfold cost_exempt. rewrite <- Ho.
    destruct Hg as [Hg|(Hp & _ & _)].
    - rewrite <- Hg. destruct (negb _ && negb _)%bool; [exact I|].
      destruct (vals s); cbn; [exact I|]. split; [reflexivity|]. cbn.
      split; [reflexivity|exact Hl].
    - rewrite Hp. cbn [opset_eqb negb andb].
      destruct (vals s); cbn; [exact I|]. split; [reflexivity|]. cbn.
      split; [reflexivity|exact Hl].
  Qed.

  (* ---------------------------------------------------------------- step *)
  Definition Rstep (x y : (N * mstate) + (N * mstate)) : Prop :=
    match x, y with
    | inl a, inl b => Rcs a b
    | inr a, inr b => Rcs a b
    | _, _ => False
    end.

  Lemma step_sim s1 s2 cost : R s1 s2 ->
    rel_res Rstep (step d A cost s1) (step d B cost s2).
  Proof.
    intros HR. unfold step.
    pose proof (emax_le _ _ HR) as Hle. pose proof (emax_rel _ _ HR) as [Hrel Hnil].
    destruct (effective_max s1 A <? cost) eqn:E1; [apply rel_res_cost_exceeded|].
    destruct (effective_max s2 B <? cost) eqn:E2; [lia|].
    destruct (R_inv _ _ HR) as (s & gs1 & gs2 & Es1 & Es2 & F).
    assert (Eops : ops s1 = ops s2) by (subst; reflexivity).
    rewrite <- Eops. destruct (ops s1) as [|o rest_ops] eqn:Eo.
    - cbn. split; [reflexivity|exact HR].
    - set (s1' := {| vals := vals s1; envs := envs s1; ops := rest_ops; guards := guards s1 |}).
      set (s2' := {| vals := vals s2; envs := envs s2; ops := rest_ops; guards := guards s2 |}).
      assert (HR' : R s1' s2').
      { subst s1' s2' s1 s2; cbn. split; [reflexivity|exact F]. }
      assert (Hsim : rel_res Rcs
        (match o with
         | OApply => apply_op d s1' cost (effective_max s1 A - cost)
         | OExitGuard => exit_guard s1' cost
         | OCons => cons_op s1'
         | OSwapEval => swap_eval_op d s1'
         | ORestore => match vals s1' with [] => Err (InternalError 5) | _ :: _ => Ok (0, s1') end
         end)
        (match o with
         | OApply => apply_op d s2' cost (effective_max s2 B - cost)
         | OExitGuard => exit_guard s2' cost
         | OCons => cons_op s2'
         | OSwapEval => swap_eval_op d s2'
         | ORestore => match vals s2' with [] => Err (InternalError 5) | _ :: _ => Ok (0, s2') end
         end)).
      { destruct o.
        - apply apply_op_sim; [exact HR'|lia|].
          intros Hg. assert (Hg1 : guards s1 = []) by exact Hg.
          destruct (Hnil Hg1) as [Ha Hb]. rewrite Ha, Hb in *. lia.
        - apply (lift_related cons_op cons_op_set_guards); [|exact HR'].
          intros x c x' Hc. unfold cons_op in Hc.
          destruct (pop x) as [[v1 xa]|] eqn:P1; cbn [bind] in Hc; [|discriminate].
          destruct (pop xa) as [[v2 xb]|] eqn:P2; cbn [bind] in Hc; [|discriminate].
          injection Hc as _ <-. cbn. rewrite (pop_guards _ _ _ P2), (pop_guards _ _ _ P1). reflexivity.
        - apply exit_guard_sim; exact HR'.
        - apply (lift_related (swap_eval_op d) (swap_eval_op_set_guards d)); [|exact HR'].
          intros x c x' Hc. unfold swap_eval_op in Hc.
          destruct (pop x) as [[v1 xa]|] eqn:P1; cbn [bind] in Hc; [|discriminate].
          destruct (pop xa) as [[v2 xb]|] eqn:P2; cbn [bind] in Hc; [|discriminate].
          destruct (envs xb); [discriminate|].
          apply eval_pair_guards in Hc. cbn in Hc. rewrite Hc, (pop_guards _ _ _ P2), (pop_guards _ _ _ P1). reflexivity.
        - assert (Ev : vals s1' = vals s2') by (subst s1' s2' s1 s2; reflexivity).
          rewrite <- Ev. destruct (vals s1'); cbn; [exact I|]. split; [reflexivity|exact HR']. }
      match goal with |- rel_res _ (do '(c, s'') <- ?X; _) (do '(c, s'') <- ?Y; _) =>
        destruct X as [[c1 x1]|e1]; destruct Y as [[c2 x2]|e2]; cbn in Hsim |- *; try assumption end.
      destruct Hsim as [Hc Hx]; cbn in Hc, Hx. subst c2. split; [reflexivity|exact Hx].
  Qed.

  (* ---------------------------------------------------------------- the loop *)
  Lemma run_loop_sim fuel : forall cost s1 s2, R s1 s2 ->
    rel_res eq (run_loop d fuel A cost s1) (run_loop d fuel B cost s2).
  Proof.
    induction fuel as [|fuel IH]; intros cost s1 s2 HR; [exact I|].
    cbn [run_loop]. pose proof (step_sim s1 s2 cost HR) as Hs.
    destruct (step d A cost s1) as [r1|e1]; destruct (step d B cost s2) as [r2|e2]; cbn [bind]; cbn in Hs.
    - destruct r1 as [[c1 x1]|[c1 x1]]; destruct r2 as [[c2 x2]|[c2 x2]]; cbn in Hs; try contradiction.
      + destruct Hs as [Hc Hx]; cbn in Hc, Hx; subst c2. apply IH; exact Hx.
      + destruct Hs as [Hc Hx]; cbn in Hc, Hx; subst c2.
        destruct (R_inv _ _ Hx) as (s & gs1 & gs2 & -> & -> & F). rewrite !pop_set_guards.
        destruct (pop s) as [[v s']|e]; cbn; [reflexivity|exact I].
    - contradiction.
    - subst e1. apply rel_res_cost_exceeded.
    - exact I.
  Qed.
End TwoBudgets.

(* ------------------------------------------------------------------ run_program level *)
Definition eff (M : N) : N := if M =? 0 then COST_MAX else M.

Lemma run_program_sim d (Hop : dop_budget d) fuel p e M1 M2 : eff M1 <= eff M2 ->
  rel_res eq (run_program d fuel p e M1) (run_program d fuel p e M2).
Proof.
  intros H. unfold run_program. fold (eff M1) (eff M2).
  destruct (eval_pair d init_state p e) as [[c s]|err]; cbn [bind]; [|exact I].
  apply (run_loop_sim d Hop (eff M1) (eff M2) H). apply R_refl.
Qed.

(* a run that succeeds stays within its budget *)
Definition n_exit (o : list operation) : nat :=
  length (filter (fun x => match x with OExitGuard => true | _ => false end) o).
Definition balanced (s : mstate) : Prop := n_exit (ops s) = length (guards s).

Lemma push_operands_nexit o : forall s s', push_operands o s = Ok s' -> n_exit (ops s') = n_exit (ops s).
Proof.
  induction o as [b | a _ r IHr]; intros s s' H; cbn [push_operands] in H.
  - destruct b; [|discriminate]. injection H as <-. reflexivity.
  - apply IHr in H. exact H.
Qed.

Lemma eval_pair_balanced d s p e c s' : eval_pair d s p e = Ok (c, s') -> balanced s -> balanced s'.
Proof.
  intros H Hb. unfold balanced. rewrite (eval_pair_guards _ _ _ _ _ _ H). rewrite <- Hb. clear Hb.
  unfold eval_pair in H. destruct p as [b | opn opl].
  - destruct (traverse_path b e) as [[c0 v]|]; cbn in H; [|discriminate]. injection H as _ <-. reflexivity.
  - destruct opn as [b | no tl].
    + unfold eval_op_atom in H. destruct (is_kw _ _).
      * injection H as _ <-. reflexivity.
      * destruct (push_operands opl _) eqn:E; cbn in H; [|discriminate].
        injection H as _ <-. apply push_operands_nexit in E. rewrite E.
        destruct (d_gc d (Atom b)); reflexivity.
    + destruct tl; [destruct no|]; try discriminate.
      injection H as _ <-. reflexivity.
Qed.

Lemma pop_balanced s v s' : pop s = Ok (v, s') -> balanced s -> balanced s'.
Proof. unfold pop, balanced. destruct (vals s); [discriminate|]. intros H; injection H as _ <-. exact (fun x => x). Qed.

Lemma step_balanced d M cost s r : step d M cost s = Ok r -> balanced s ->
  match r with inl (_, s') => balanced s' | inr (_, s') => balanced s' /\ ops s' = [] end.
Proof.
  unfold step. destruct (_ <? _); [discriminate|].
  destruct (ops s) as [|o rest_ops] eqn:Eo.
  - intros H Hb; injection H as <-. split; assumption.
  - intros H Hb.
    set (s0 := {| vals := vals s; envs := envs s; ops := rest_ops; guards := guards s |}) in *.
    assert (Hb0 : (n_exit (ops s0) + (match o with OExitGuard => 1 | _ => 0 end) = length (guards s0))%nat).
    { unfold balanced in Hb. rewrite Eo in Hb. cbn in *. destruct o; cbn in Hb; lia. }
    destruct o; cbn [bind] in H.
    + (* apply *)
      assert (Hbb : balanced s0) by (unfold balanced; lia).
      destruct (apply_op d s0 cost _) as [[c s'']|] eqn:E; cbn [bind] in H; [|discriminate]. injection H as <-.
      unfold apply_op in E.
      destruct (pop s0) as [[ol sa]|] eqn:P1; cbn [bind] in E; [|discriminate].
      destruct (pop sa) as [[opr sb]|] eqn:P2; cbn [bind] in E; [|discriminate].
      pose proof (pop_balanced _ _ _ P2 (pop_balanced _ _ _ P1 Hbb)) as Hsb.
      destruct (envs sb) as [|e0 envs']; [discriminate|].
      set (s3 := {| vals := vals sb; envs := envs'; ops := ops sb; guards := guards sb |}) in *.
      assert (H3 : balanced s3) by exact Hsb.
      destruct (is_kw opr (d_apply d)).
      * destruct (get_args2 ol) as [[no env]|]; cbn [bind] in E; [|discriminate].
        destruct (eval_pair d s3 no env) as [[c0 s4]|] eqn:EP; cbn [bind] in E; [|discriminate].
        injection E as _ <-. eapply eval_pair_balanced; eassumption.
      * destruct (is_kw opr (d_softfork d)).
        -- unfold enter_guard in E.
           destruct (first ol); cbn [bind] in E; [|discriminate].
           destruct (uint_atom 8 _ _); cbn [bind] in E; [|discriminate].
           destruct (_ <? _); [discriminate|]. destruct (_ =? 0); [discriminate|].
           destruct (parse_softfork_arguments d ol) as [[[ext prg] env]|].
           2:{ destruct (d_allow_unknown d); [|discriminate]. injection E as _ <-. exact H3. }
           destruct (_ && _)%bool; [discriminate|].
           match type of E with (do '(c, s5) <- eval_pair d ?S prg env; _) = _ =>
             destruct (eval_pair d S prg env) as [[c0 s5]|] eqn:EP; cbn [bind] in E; [|discriminate];
             injection E as _ <-; eapply eval_pair_balanced; [exact EP|] end.
           unfold balanced, n_exit in *; cbn in *; lia.
        -- destruct (d_op d opr ol _ _) as [[c0 v]|]; cbn [bind] in E; [|discriminate].
           injection E as _ <-. exact H3.
    + (* cons *)
      assert (Hbb : balanced s0) by (unfold balanced; lia).
      destruct (cons_op s0) as [[c s'']|] eqn:E; cbn [bind] in H; [|discriminate]. injection H as <-.
      unfold cons_op in E.
      destruct (pop s0) as [[v1 sa]|] eqn:P1; cbn [bind] in E; [|discriminate].
      destruct (pop sa) as [[v2 sb]|] eqn:P2; cbn [bind] in E; [|discriminate].
      injection E as _ <-. exact (pop_balanced _ _ _ P2 (pop_balanced _ _ _ P1 Hbb)).
    + (* exit guard *)
      destruct (exit_guard s0 cost) as [[c s'']|] eqn:E; cbn [bind] in H; [|discriminate]. injection H as <-.
      unfold exit_guard in E. destruct (guards s0) as [|g gs] eqn:Eg; [discriminate|].
      destruct (_ && _)%bool; [discriminate|]. destruct (vals s0); [discriminate|].
      injection E as _ <-. unfold balanced; cbn. cbn in Hb0. lia.
    + (* swap eval *)
      assert (Hbb : balanced s0) by (unfold balanced; lia).
      destruct (swap_eval_op d s0) as [[c s'']|] eqn:E; cbn [bind] in H; [|discriminate]. injection H as <-.
      unfold swap_eval_op in E.
      destruct (pop s0) as [[v1 sa]|] eqn:P1; cbn [bind] in E; [|discriminate].
      destruct (pop sa) as [[v2 sb]|] eqn:P2; cbn [bind] in E; [|discriminate].
      destruct (envs sb); [discriminate|].
      eapply eval_pair_balanced; [exact E|].
      exact (pop_balanced _ _ _ P2 (pop_balanced _ _ _ P1 Hbb)).
    + (* restore *)
      assert (Hbb : balanced s0) by (unfold balanced; lia).
      destruct (vals s0); cbn [bind] in H; [discriminate|]. injection H as <-. exact Hbb.
Qed.

Lemma run_loop_sound d fuel : forall M cost s C v, balanced s ->
  run_loop d fuel M cost s = Ok (C, v) -> C <= M.
Proof.
  induction fuel as [|fuel IH]; intros M cost s C v Hb H; [discriminate|].
  cbn [run_loop] in H. destruct (step d M cost s) as [[[c' s']|[c' s']]|] eqn:E; cbn [bind] in H; try discriminate.
  - apply (step_balanced _ _ _ _ _ E) in Hb. eapply IH; eassumption.
  - pose proof (step_balanced _ _ _ _ _ E Hb) as [Hb' Ho].
    destruct (pop s') as [[v0 s0]|]; cbn [bind] in H; [|discriminate]. injection H as <- _.
    unfold step in E. destruct (effective_max s M <? cost) eqn:Em; [discriminate|].
    destruct (ops s) eqn:Eo.
    + injection E as <- <-. unfold balanced in Hb. rewrite Eo in Hb. cbn in Hb.
      unfold effective_max in Em. destruct (guards s); [lia|discriminate].
    + match type of E with (do '(c, s'') <- ?X ; _) = _ => destruct X as [[c0 x0]|]; cbn [bind] in E; discriminate end.
Qed.

Lemma run_program_sound d fuel p e M C v : run_program d fuel p e M = Ok (C, v) -> C <= eff M.
Proof.
  unfold run_program. fold (eff M).
  destruct (eval_pair d init_state p e) as [[c s]|] eqn:E; cbn [bind]; [|discriminate].
  apply run_loop_sound. eapply eval_pair_balanced; [exact E|reflexivity].
Qed.

(* ------------------------------------------------------------------ corollaries (C02) *)
Lemma run_program_upward d (Hop : dop_budget d) fuel p e M1 M2 r :
  eff M1 <= eff M2 -> run_program d fuel p e M1 = Ok r -> run_program d fuel p e M2 = Ok r.
Proof.
  intros H H1. pose proof (run_program_sim d Hop fuel p e M1 M2 H) as S. rewrite H1 in S.
  destruct (run_program d fuel p e M2); cbn in S; [subst; reflexivity|contradiction].
Qed.

Lemma run_program_fail_kind d (Hop : dop_budget d) fuel p e M1 M2 r :
  eff M1 <= eff M2 -> run_program d fuel p e M2 = Ok r ->
  run_program d fuel p e M1 = Ok r \/ run_program d fuel p e M1 = Err CostExceeded.
Proof.
  intros H H2. pose proof (run_program_sim d Hop fuel p e M1 M2 H) as S. rewrite H2 in S.
  destruct (run_program d fuel p e M1); cbn in S; [left; subst; reflexivity|right; subst; reflexivity].
Qed.

Lemma run_program_same d (Hop : dop_budget d) fuel p e M1 M2 r1 r2 :
  run_program d fuel p e M1 = Ok r1 -> run_program d fuel p e M2 = Ok r2 -> r1 = r2.
Proof.
  intros H1 H2. destruct (N.le_ge_cases (eff M1) (eff M2)) as [H|H].
  - pose proof (run_program_upward d Hop fuel p e M1 M2 r1 H H1). congruence.
  - pose proof (run_program_upward d Hop fuel p e M2 M1 r2 H H2). congruence.
Qed.

Lemma run_program_zero d fuel p e :
  run_program d fuel p e 0 = run_program d fuel p e COST_MAX.
Proof. reflexivity. Qed.
