(* C25: no operator of either dispatch table, and not the unknown-operator rule, ever reports an
   internal error or a panic; with the stack discipline of Proofs/MachineTotal.v this makes every
   InternalError / panic site of the interpreter loop and of the dialects unreachable. *)
From Coq Require Import Lia ZifyBool ZifyN ZifyNat.
From Clvm Require Import Model.Dialect Proofs.OpContractDefs Proofs.OpContractsCore Proofs.OpContractsMore
  Proofs.OpContractsMore2 Proofs.OpContractsMore3 Proofs.OpContractsCrypto Proofs.DialectContracts
  Proofs.MachineTotal.
Open Scope N_scope.

Lemma all_ops_total P : Forall (op_total (fun _ _ => True)) (all_ops P).
Proof.
  unfold all_ops.
  repeat (constructor; [first
    [ apply if_total | apply cons_total | apply first_total | apply rest_total | apply listp_total
    | apply raise_total | apply eq_total | apply gr_bytes_total | apply sha256_total | apply substr_total
    | apply strlen_total | apply concat_total | apply add_total | apply subtract_total | apply multiply_total
    | apply div_total | apply divmod_total | apply gr_total | apply ash_total | apply lsh_total
    | apply logand_total | apply logior_total | apply logxor_total | apply lognot_total
    | apply point_add_total | apply pubkey_for_exp_total | apply not_total | apply any_total | apply all_total
    | apply coinid_p_total | apply bls_g1_subtract_total | apply bls_g1_multiply_total | apply bls_g1_negate_total
    | apply bls_g2_add_total | apply bls_g2_subtract_total | apply bls_g2_multiply_total | apply bls_g2_negate_total
    | apply bls_map_to_g1_total | apply bls_map_to_g2_total | apply bls_pairing_identity_total | apply bls_verify_total
    | apply modpow_total | apply mod_total | apply keccak256_total | apply sha256_tree_total
    | apply secp256k1_verify_total | apply secp256r1_verify_total ]|]).
  constructor.
Qed.


Lemma user_error_nobug e : user_error e = true -> machine_bug e = false.
Proof. destruct e; cbn; intros H; try reflexivity; discriminate. Qed.

Lemma unknown_operator_nobug o f a m e : unknown_operator o f a m = Err e -> machine_bug e = false.
Proof.
  unfold unknown_operator. destruct (f_no_unknown_ops f); [intros H; injection H as <-; reflexivity|].
  unfold op_unknown. destruct (unknown_cost o (arg_lens a) (f_new_cost_model f) m) as [c|e0] eqn:U; cbn [bind]; [discriminate|].
  intros H; injection H as <-.
  destruct (unknown_cost_errors _ _ _ _ _ U) as [Hu|[s ->]]; [apply user_error_nobug; exact Hu|reflexivity].
Qed.

Lemma chia_op_nobug P know4 f0 b a m ext e :
  chia_op P know4 f0 (Atom b) a m ext = Err e -> machine_bug e = false.
Proof.
  unfold chia_op. intros H.
  pose proof (all_ops_total P) as HA. rewrite Forall_forall in HA.
  destruct (length b =? 4)%nat.
  - destruct (know4 && bytes_eqb b SECP256K1_OPCODE)%bool.
    { apply user_error_nobug. exact (secp256k1_verify_total P _ _ _ _ I H). }
    destruct (know4 && bytes_eqb b SECP256R1_OPCODE)%bool.
    { apply user_error_nobug. exact (secp256r1_verify_total P _ _ _ _ I H). }
    eapply unknown_operator_nobug; exact H.
  - destruct (negb (length b =? 1)%nat); [eapply unknown_operator_nobug; exact H|].
    destruct (small_number (Atom b)) as [op|]; [|eapply unknown_operator_nobug; exact H].
    destruct (chia_table P (op_flags f0 ext) op) as [[fn|e0]|] eqn:T.
    + apply chia_table_in in T. apply user_error_nobug. exact (HA _ T _ _ _ _ I H).
    + injection H as <-. unfold chia_table in T. crack_table T; injection T as <-; reflexivity.
    + eapply unknown_operator_nobug; exact H.
Qed.

Lemma runtime_op_nobug P flags b a m ext e :
  runtime_op P flags (Atom b) a m ext = Err e -> machine_bug e = false.
Proof.
  unfold runtime_op. intros H.
  pose proof (all_ops_total P) as HA. rewrite Forall_forall in HA.
  destruct b as [|x [|y r]]; try (eapply unknown_operator_nobug; exact H).
  destruct (runtime_table P x) as [fn|] eqn:T.
  - apply runtime_table_in in T. apply user_error_nobug. exact (HA _ T _ _ _ _ I H).
  - eapply unknown_operator_nobug; exact H.
Qed.

Theorem chia_total P flags fuel p e M err :
  run_program (chia_dialect P flags) fuel p e M = Err err -> machine_bug err = false.
Proof. apply run_program_total. intros b a m ext e0. apply chia_op_nobug. Qed.

Theorem hiding_total P flags fuel p e M err :
  run_program (hiding_dialect P flags) fuel p e M = Err err -> machine_bug err = false.
Proof. apply run_program_total. intros b a m ext e0. apply chia_op_nobug. Qed.

Theorem runtime_total P flags fuel p e M err :
  run_program (runtime_dialect P flags) fuel p e M = Err err -> machine_bug err = false.
Proof. apply run_program_total. intros b a m ext e0. apply runtime_op_nobug. Qed.
