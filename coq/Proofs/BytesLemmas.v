From Clvm Require Import Model.Bstr.
From Coq Require Import Lia ZifyBool ZifyN ZifyNat.
Ltac Zify.zify_post_hook ::= Z.div_mod_to_equations.

Lemma wf_bytes_app a b : wf_bytes (a ++ b) = wf_bytes a && wf_bytes b.
Proof. unfold wf_bytes. apply forallb_app. Qed.

Lemma wf_bytes_cons x a : wf_bytes (x :: a) = wf_byte x && wf_bytes a.
Proof. reflexivity. Qed.

Lemma take_exact_app {A} (a b : list A) : take_exact (length a) (a ++ b) = Some (a, b).
Proof. induction a as [|x a IH]; cbn; [reflexivity|]. now rewrite IH. Qed.

Lemma take_exact_spec {A} n (l a b : list A) :
  take_exact n l = Some (a, b) -> l = a ++ b /\ length a = n.
Proof.
  revert l a b. induction n as [|n IH]; intros l a b H; cbn in H.
  - inversion H; subst. split; reflexivity.
  - destruct l as [|x r]; [discriminate|].
    destruct (take_exact n r) as [[a' b']|] eqn:E; [|discriminate].
    inversion H; subst. apply IH in E. destruct E as [-> <-]. split; reflexivity.
Qed.

Lemma take_exact_none {A} n (l : list A) : take_exact n l = None -> (length l < n)%nat.
Proof.
  revert l. induction n as [|n IH]; intros l H; cbn in H; [discriminate|].
  destruct l as [|x r]; cbn; [lia|].
  destruct (take_exact n r) as [[a' b']|] eqn:E; [discriminate|].
  apply IH in E. lia.
Qed.

Lemma be_acc_app acc a b : be_acc acc (a ++ b) = be_acc (be_acc acc a) b.
Proof. revert acc. induction a as [|x a IH]; intros acc; cbn; [reflexivity|apply IH]. Qed.

Lemma be_acc_shift acc a :
  be_acc acc a = (acc * 256 ^ N.of_nat (length a) + be_value a)%N.
Proof.
  unfold be_value. revert acc. induction a as [|x a IH]; intros acc.
  - cbn. lia.
  - cbn [be_acc length]. rewrite IH. rewrite (IH (256 * 0 + x)%N).
    rewrite Nat2N.inj_succ, N.pow_succ_r'. lia.
Qed.

Lemma be_value_bound a : wf_bytes a = true -> (be_value a < 256 ^ N.of_nat (length a))%N.
Proof.
  induction a as [|x a IH] using rev_ind; intros H.
  - cbn. lia.
  - rewrite wf_bytes_app in H. apply andb_prop in H. destruct H as [Ha Hx].
    cbn in Hx. rewrite andb_true_r in Hx. unfold wf_byte in Hx.
    unfold be_value in *. rewrite be_acc_app. cbn [be_acc].
    rewrite app_length. cbn [length]. rewrite Nat.add_1_r, Nat2N.inj_succ, N.pow_succ_r'.
    specialize (IH Ha). lia.
Qed.

Lemma bytes_eqb_eq a b : bytes_eqb a b = true <-> a = b.
Proof.
  revert b. induction a as [|x a IH]; intros [|y b]; cbn; split; intros H; try reflexivity; try discriminate.
  - apply andb_prop in H. destruct H as [H1 H2]. apply N.eqb_eq in H1. apply IH in H2. now subst.
  - inversion H; subst. rewrite N.eqb_refl. cbn. now apply IH.
Qed.
