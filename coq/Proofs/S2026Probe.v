(* Proofs about Model/S2026.v, part 2: the length probe follows the decoder in lock-step. *)
From Clvm Require Import Model.S2026 Model.Classic Proofs.BytesLemmas Proofs.VarintProofs Proofs.ClassicProofs
  Proofs.S2026Proofs.
From Coq Require Import Lia ZifyBool ZifyN ZifyNat.
Local Open Scope Z_scope.

Lemma skipn_app_ge {A} (a r : list A) k : skipn (length a + k) (a ++ r) = skipn k r.
Proof.
  rewrite skipn_app. rewrite skipn_all2 by lia. cbn [app]. f_equal. lia.
Qed.

Lemma atoms_loop_skip {V} (mk_atom : bytes -> V) len : 1 <= len ->
  forall fuel count atoms r atoms' r', 0 <= count ->
  count_loop (atom_step mk_atom len) fuel count atoms r = Ok (atoms', r') ->
  len * count <= Z.of_nat (length r) /\ r' = skipn (Z.to_nat (len * count)) r.
Proof.
  intros Hlen. induction fuel as [|f IH]; intros count atoms r atoms' r' Hc H; cbn [count_loop] in H.
  - destruct (Z.leb_spec count 0); [|discriminate]. apply Ok_inj in H. inversion H; subst.
    assert (count = 0) by lia. subst. rewrite Z.mul_0_r. cbn. split; [lia|reflexivity].
  - destruct (Z.leb_spec count 0).
    + apply Ok_inj in H. inversion H; subst.
      assert (count = 0) by lia. subst. rewrite Z.mul_0_r. cbn. split; [lia|reflexivity].
    + unfold atom_step at 1 in H.
      destruct (take_n (Z.to_N len) r) as [[a r1]|] eqn:E; cbn [bind] in H; [|discriminate].
      apply take_n_spec in E. destruct E as [-> Hb]. unfold blen in Hb.
      destruct (IH (count - 1) _ r1 atoms' r' ltac:(lia) H) as [H1 H2].
      assert (Hla : Z.of_nat (length a) = len) by (clear - Hb Hlen; lia).
      assert (Hm : len * count = Z.of_nat (length a) + len * (count - 1)) by (rewrite Hla; ring).
      split.
      * rewrite Hm, app_length. lia.
      * assert (0 <= len * (count - 1)) by (apply Z.mul_nonneg_nonneg; lia).
        rewrite Hm. rewrite Z2Nat.inj_add by lia. rewrite Nat2Z.id.
        rewrite skipn_app_ge. exact H2.
Qed.

Section Sim.
  Context {S1 S2 : Type}.
  Variable step1 : S1 -> bytes -> res (S1 * bytes).
  Variable step2 : S2 -> bytes -> res (S2 * bytes).
  Variable Q : bytes -> Prop.
  Hypothesis step_sim : forall s1 s2 bs s1' bs', Q bs -> step1 s1 bs = Ok (s1', bs') ->
    Q bs' /\ exists s2', step2 s2 bs = Ok (s2', bs').

  Lemma count_loop_sim : forall fuel n s1 s2 bs s1' bs', Q bs ->
    count_loop step1 fuel n s1 bs = Ok (s1', bs') ->
    Q bs' /\ exists s2', count_loop step2 fuel n s2 bs = Ok (s2', bs').
  Proof.
    induction fuel as [|f IH]; intros n s1 s2 bs s1' bs' HQ H; cbn [count_loop] in *.
    - destruct (n <=? 0); [|discriminate]. apply Ok_inj in H. inversion H; subst.
      split; [exact HQ|now exists s2].
    - destruct (n <=? 0).
      + apply Ok_inj in H. inversion H; subst. split; [exact HQ|now exists s2].
      + destruct (step1 s1 bs) as [[t1 b1]|] eqn:E; cbn [bind] in H; [|discriminate].
        destruct (step_sim _ s2 _ _ _ HQ E) as [HQ1 [t2 E2]]. rewrite E2. cbn [bind].
        exact (IH _ _ _ _ _ _ HQ1 H).
  Qed.
End Sim.

(* the probe's group step is the decoder's header followed by one bounded skip *)
Lemma probe_group_via_header strict m total u bs :
  probe_group strict m total u bs =
    match read_group_header strict m bs with
    | Ok (len, count, r2) =>
        if u64_lim <=? len * count then Err SerializationError
        else
          let new_pos := total - Z.of_nat (length r2) + len * count in
          if u64_lim <=? new_pos then Err SerializationError
          else if total <? new_pos then Err SerializationError
          else Ok (tt, skipn (Z.to_nat (len * count)) r2)
    | Err e => Err e
    end.
Proof.
  unfold probe_group, read_group_header.
  destruct (rv strict bs) as [[lv r1]|e]; cbn [bind]; [|reflexivity].
  destruct (lv <? 0).
  - destruct (lv =? i64_min); cbn [bind]; [reflexivity|].
    destruct (checked_bounded_usize (- lv) m) as [l|e]; cbn [bind]; [|reflexivity].
    destruct (rv strict r1) as [[c r2]|e]; cbn [bind]; [|reflexivity].
    destruct (checked_usize c) as [cnt|e]; cbn [bind]; [|reflexivity].
    destruct ((l =? 0) || (cnt =? 0)); cbn [bind]; [reflexivity|].
    destruct (u64_lim <=? l * cnt); cbn [bind]; reflexivity.
  - destruct (checked_bounded_usize lv m) as [l|e] eqn:E; cbn [bind]; [|reflexivity].
    assert (Hl : l <= usize_max).
    { unfold checked_bounded_usize, checked_usize in E.
      destruct (lv <? 0); cbn [bind] in E; [discriminate|].
      destruct (Z.ltb_spec usize_max lv); cbn [bind] in E; [discriminate|].
      destruct (m <? lv); [discriminate|]. apply Ok_inj in E. lia. }
    replace ((l =? 0) || (1 =? 0)) with (l =? 0) by (now rewrite orb_false_r).
    destruct (l =? 0); cbn [bind]; [reflexivity|].
    rewrite Z.mul_1_r. destruct (Z.leb_spec u64_lim l); [unfold usize_max, u64_lim in *; lia|reflexivity].
Qed.

Section ProbeConsumed.
  Context {V : Type} (mk_atom : bytes -> V) (mk_pair : V -> V -> V) (strict : bool) (m : Z).

  Definition Qp (total : Z) (bs : bytes) : Prop :=
    wf_bytes bs = true /\ Z.of_nat (length bs) <= total /\ total < u64_lim.

  Lemma group_sim total atoms (u : unit) bs atoms' bs' : Qp total bs ->
    group_step mk_atom strict m atoms bs = Ok (atoms', bs') ->
    Qp total bs' /\ exists u', probe_group strict m total u bs = Ok (u', bs').
  Proof.
    intros [Hwf [Hle Hlim]] H.
    destruct (group_step_ok mk_atom strict m _ _ _ _ Hwf H) as [Hwf' Hlt].
    split; [split; [exact Hwf'|split; [lia|exact Hlim]]|].
    unfold group_step in H.
    destruct (read_group_header strict m bs) as [[[len count] r]|] eqn:E; cbn [bind] in H; [|discriminate].
    destruct (read_group_header_ok _ _ _ _ _ _ Hwf E) as [Hwfr [Hlr [Hlen Hc]]].
    assert (H1len : 1 <= len) by lia. assert (H0c : 0 <= count) by lia.
    destruct (atoms_loop_skip mk_atom len H1len _ _ _ _ _ _ H0c H) as [Hsk ->].
    exists tt. rewrite probe_group_via_header, E.
    destruct (Z.leb_spec u64_lim (len * count)); [lia|]. cbv zeta.
    destruct (Z.leb_spec u64_lim (total - Z.of_nat (length r) + len * count)); [lia|].
    destruct (Z.ltb_spec total (total - Z.of_nat (length r) + len * count)); [lia|]. reflexivity.
  Qed.

  Lemma instr_sim total atoms st (u : unit) bs st' bs' : Qp total bs ->
    instr_step mk_atom mk_pair strict atoms st bs = Ok (st', bs') ->
    Qp total bs' /\ exists u', probe_instr strict u bs = Ok (u', bs').
  Proof.
    intros [Hwf [Hle Hlim]] H.
    destruct (instr_step_ok mk_atom mk_pair strict _ _ _ _ _ Hwf H) as [Hwf' Hlt].
    split; [split; [exact Hwf'|split; [lia|exact Hlim]]|].
    destruct (instr_step_rest _ _ _ _ _ _ _ _ H) as [inst Hr].
    exists tt. unfold probe_instr. rewrite Hr. reflexivity.
  Qed.

  Theorem probe_consumed blob v rest : wf_bytes blob = true -> Z.of_nat (length blob) < u64_lim ->
    de_2026 mk_atom mk_pair strict m blob = Ok (v, rest) ->
    probe_2026 strict m blob = Ok (Z.of_nat (length blob) - Z.of_nat (length rest)).
  Proof.
    intros Hwf Hlim H. unfold de_2026 in H.
    destruct (take_exact 6 blob) as [[p body]|] eqn:Et; [|discriminate].
    apply take_exact_spec in Et. destruct Et as [-> Hp].
    destruct (bytes_eqb p magic) eqn:Em; [|discriminate]. apply bytes_eqb_eq in Em. subst p.
    unfold probe_2026.
    assert (Hsw : starts_with magic (magic ++ body) = true).
    { unfold starts_with. rewrite take_exact_app. now apply bytes_eqb_eq. }
    rewrite Hsw. cbn [negb].
    change (skipn 6 (magic ++ body)) with body. cbv zeta.
    pose proof (wf_suffix _ _ Hwf) as Hwfb.
    set (total := Z.of_nat (length body)).
    assert (Htot : total < u64_lim) by (rewrite app_length in Hlim; unfold total; lia).
    unfold de_body in H.
    destruct (rv strict body) as [[gc r0]|] eqn:E0; cbn [bind] in H |- *; [|discriminate].
    destruct (rv_shrinks _ _ _ _ Hwfb E0) as [Hwf0 Hl0].
    destruct (checked_usize gc) as [group_count|] eqn:E1; cbn [bind] in H |- *; [|discriminate].
    destruct (count_loop (group_step mk_atom strict m) (S (length r0)) group_count [] r0) as [[atoms r1]|] eqn:Eg;
      cbn [bind] in H; [|discriminate].
    assert (HQ0 : Qp total r0) by (split; [exact Hwf0|split; [unfold total; lia|exact Htot]]).
    destruct (count_loop_sim _ (probe_group strict m total) (Qp total)
                (fun s1 s2 b s1' b' HQ Hs => group_sim total s1 s2 b s1' b' HQ Hs)
                _ _ _ tt _ _ _ HQ0 Eg) as [HQ1 [u1 Ep1]].
    rewrite Ep1. cbn [bind].
    destruct HQ1 as [Hwf1 [Hle1 _]].
    destruct (rv strict r1) as [[ic r2]|] eqn:E2; cbn [bind] in H |- *; [|discriminate].
    destruct (rv_shrinks _ _ _ _ Hwf1 E2) as [Hwf2 Hl2].
    destruct (checked_usize ic) as [icount|] eqn:E3; cbn [bind] in H |- *; [|discriminate].
    destruct (icount =? 0); [discriminate|].
    destruct (count_loop (instr_step mk_atom mk_pair strict atoms) (S (length r2)) icount ([], []) r2)
      as [[st r3]|] eqn:Ei; cbn [bind] in H; [|discriminate].
    assert (HQ2 : Qp total r2) by (split; [exact Hwf2|split; [lia|exact Htot]]).
    destruct (count_loop_sim _ (probe_instr strict) (Qp total)
                (fun s1 s2 b s1' b' HQ Hs => instr_sim total atoms s1 s2 b s1' b' HQ Hs)
                _ _ _ tt _ _ _ HQ2 Ei) as [HQ3 [u3 Ep3]].
    rewrite Ep3. cbn [bind].
    destruct (snd st) as [|w [|w2 s]]; try discriminate.
    apply Ok_inj in H. inversion H; subst. f_equal.
    rewrite app_length. cbn [length magic]. unfold total. lia.
  Qed.
End ProbeConsumed.

(* ------------------------------------------------------------------ the magic prefix *)
Theorem classic_rejects_magic r : node_from_stream (magic ++ r) = Err SerializationError.
Proof. vm_compute. reflexivity. Qed.

(* the back-reference decoders hand a first byte other than 0xff / 0xfe to the same parse_atom *)
Theorem parse_atom_rejects_magic r :
  match magic ++ r with
  | b :: rest => b <> 0xff%N /\ b <> 0xfe%N /\ parse_atom_node b rest = Err SerializationError
  | [] => False
  end.
Proof. cbn [magic app]. split; [discriminate|]. split; [discriminate|]. vm_compute. reflexivity. Qed.
