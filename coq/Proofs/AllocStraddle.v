(* No atom straddles the heap mark of a live checkpoint: an atom that starts below the mark ends at
   or below it. Invariant of every history (new atoms start at the end of the byte vector or lie
   inside an existing atom; restores only drop atoms or re-add one that existed). Consequence:
   maybe_restore_with_node never reports "invalid atom byte range" ([mr_no_ie5]). *)
From Coq Require Import Lia ZifyBool ZifyN ZifyNat List.
From Clvm Require Import Model.AllocHist Proofs.BytesLemmas Proofs.IntEncBasics Proofs.AllocHeap Proofs.AllocOps
  Proofs.AllocRestore Proofs.AllocBasics Proofs.AllocInv.
Import ListNotations.
Open Scope N_scope.
Arguments N.add : simpl never.
Arguments N.sub : simpl never.
Arguments N.mul : simpl never.
Arguments N.eqb : simpl never.
Arguments N.ltb : simpl never.
Arguments N.leb : simpl never.

Definition astr (c : tcheckpoint) (se : N * N) : Prop := fst se < c_u8s c -> snd se <= c_u8s c.

Definition NS (h : heap) (cps : list cpent) : Prop :=
  forall e, In e cps -> Forall (astr (cp_tcp e)) (atoms h).

Definition NSI (st : ast) : Prop := NS (hp (a_al st)) (a_cps st).

(* every atom of h' is an atom of h, or starts at or after B, or lies inside an atom of h *)
Definition grown (B : N) (h h' : heap) : Prop :=
  forall se, In se (atoms h') ->
    In se (atoms h) \/ B <= fst se \/
    exists se0, In se0 (atoms h) /\ fst se0 <= fst se /\ snd se <= snd se0.

Lemma grown_same B h h' : atoms h' = atoms h -> grown B h h'.
Proof. intros E se Hin. left. rewrite <- E. exact Hin. Qed.

Lemma grown_incl B h h' : incl (atoms h') (atoms h) -> grown B h h'.
Proof. intros Hi se Hin. left. apply Hi. exact Hin. Qed.

Lemma grown_push B h se1 : B <= fst se1 -> forall h', atoms h' = atoms h ++ [se1] -> grown B h h'.
Proof.
  intros Hb h' E se Hin. rewrite E in Hin. apply in_app_or in Hin.
  destruct Hin as [Hin|[<-|[]]]; [now left|right; now left].
Qed.

Lemma grown_trans B h1 h2 h3 : incl (atoms h2) (atoms h1) -> grown B h2 h3 -> grown B h1 h3.
Proof.
  intros Hi Hg se Hin. destruct (Hg se Hin) as [H|[H|(se0 & H0 & H1)]].
  - left. apply Hi. exact H.
  - right. now left.
  - right. right. exists se0. split; [apply Hi; exact H0|exact H1].
Qed.

Lemma ns_grown B h h' cps : (forall e, In e cps -> c_u8s (cp_tcp e) <= B) -> grown B h h' ->
  NS h cps -> NS h' cps.
Proof.
  intros Hb Hg Hn e He. specialize (Hn e He). specialize (Hb e He). rewrite Forall_forall in *.
  intros se Hin. destruct (Hg se Hin) as [H|[H|(se0 & H0 & H1 & H2)]].
  - apply Hn. exact H.
  - unfold astr. lia.
  - specialize (Hn se0 H0). unfold astr in *. lia.
Qed.

Lemma ns_sub h cps cps' : incl cps' cps -> NS h cps -> NS h cps'.
Proof. intros Hi Hn e He. apply Hn. apply Hi. exact He. Qed.

Lemma incl_take {A} n (l : list A) : incl (take_N n l) l.
Proof. intros x Hx. unfold take_N in Hx. eapply In_firstn_l; eauto. Qed.

Lemma incl_skipn {A} k (l : list A) : incl (skipn k l) l.
Proof. intros x Hx. eapply In_skipn_l; eauto. Qed.

(* ------------------------------------------------------------------ what the operations do to the atom vector *)

Lemma new_atom_grown a v a' n : counts_ok a -> new_atom a v = Ok (a', n) -> grown (u8_len a) (hp a) (hp a').
Proof.
  intros Hc. destruct (counts_u32 a Hc) as (U1 & _). unfold new_atom, check_atom_limit. rewrite U1.
  destruct (heap_limit a <? _); [discriminate|].
  destruct (atoms_len a + ghost_atoms a =? MAX_NUM_ATOMS); cbn [bind]; [discriminate|].
  destruct (fits_in_small_atom v).
  - intros H. apply Ok_inj in H. inversion H; subst. apply grown_same. reflexivity.
  - intros H. apply Ok_inj in H. inversion H; subst.
    eapply (grown_push _ _ (u8_len a, _)); [cbn [fst]; lia|reflexivity].
Qed.

Lemma new_small_hp a v a' n : new_small_number a v = Ok (a', n) -> hp a' = hp a.
Proof.
  unfold new_small_number, check_atom_limit. destruct (NODE_PTR_IDX_MASK <? v); [discriminate|].
  destruct (heap_limit a <? _); [discriminate|].
  destruct (atoms_len a + ghost_atoms a =? MAX_NUM_ATOMS); cbn [bind]; [discriminate|].
  intros H. apply Ok_inj in H. inversion H; subst. reflexivity.
Qed.

Lemma new_number_grown a z a' n : counts_ok a -> new_number a z = Ok (a', n) -> grown (u8_len a) (hp a) (hp a').
Proof.
  intros Hc. unfold new_number. destruct (_ && _)%bool.
  - intros H. apply grown_same. rewrite (new_small_hp _ _ _ _ H). reflexivity.
  - apply new_atom_grown. exact Hc.
Qed.

Lemma new_pair_atoms a l r a' n : new_pair a l r = Ok (a', n) -> atoms (hp a') = atoms (hp a).
Proof.
  unfold new_pair. destruct (MAX_NUM_PAIRS <? ghost_pairs a); [discriminate|].
  destruct (_ <=? _); [discriminate|]. intros H. apply Ok_inj in H. inversion H; subst. reflexivity.
Qed.

Lemma new_substr_grown fx a x s e a' m path : WF (hp a) -> counts_ok a ->
  new_substr_gen fx a x s e = Ok (a', m, path) -> grown (u8_len a) (hp a) (hp a').
Proof.
  intros Hw Hc. destruct (counts_u32 a Hc) as (U1 & _). unfold new_substr_gen, check_atom_limit.
  destruct (atoms_len a + ghost_atoms a =? MAX_NUM_ATOMS); cbn [bind]; [discriminate|].
  destruct x as [i|i|v]; [discriminate| |].
  - unfold get_atom. destruct (nth_N (atoms (hp a)) i) as [[s0 e0]|] eqn:En; cbn [bind]; [|discriminate].
    unfold buf_len. cbn [fst snd]. destruct (e0 <? s0) eqn:E0; cbn [bind]; [discriminate|].
    unfold bounds_check. destruct (e0 - s0 <? s) eqn:E1; [discriminate|]. destruct (e0 - s0 <? e) eqn:E2; [discriminate|].
    destruct (e <? s) eqn:E3; cbn [bind]; [discriminate|].
    intros H. apply Ok_inj in H. inversion H; subst. intros se Hin. cbn in Hin.
    apply in_app_or in Hin. destruct Hin as [Hin|[<-|[]]]; [now left|].
    right. right. exists (s0, e0). split; [eapply nth_N_In; exact En|]. cbn [fst snd]. lia.
  - destruct (bounds_check s e (len_for_value v)); cbn [bind]; [|discriminate].
    destruct (small_bytes v) as [buf|]; cbn [bind]; [|discriminate].
    destruct (slice buf s e) as [sub|]; [|discriminate].
    destruct (fits_in_small_atom sub).
    + intros H. apply Ok_inj in H. inversion H; subst. apply grown_same. reflexivity.
    + destruct (fx && _)%bool; [discriminate|].
      intros H. apply Ok_inj in H. inversion H; subst. rewrite U1.
      eapply (grown_push _ _ (u8_len a, _)); [cbn [fst]; lia|reflexivity].
Qed.

Lemma new_concat_grown a size nodes a' n : counts_ok a ->
  new_concat a size nodes = Ok (a', n) -> grown (u8_len a) (hp a) (hp a').
Proof.
  intros Hc. destruct (counts_u32 a Hc) as (U1 & _). unfold new_concat, check_atom_limit.
  destruct (atoms_len a + ghost_atoms a =? MAX_NUM_ATOMS); cbn [bind]; [discriminate|].
  destruct (heap_limit a <? _); [discriminate|].
  destruct nodes as [|x [|y rest]].
  - destruct (negb _); [discriminate|]. intros H. apply Ok_inj in H. inversion H; subst. apply grown_same. reflexivity.
  - destruct (atom_len a x) as [l|]; cbn [bind]; [|discriminate]. destruct (negb _); [discriminate|].
    intros H. apply Ok_inj in H. inversion H; subst. apply grown_same. reflexivity.
  - destruct (concat_loop a size (x :: y :: rest) (u8 (hp a)) 0) as [[acc counter]|]; cbn [bind]; [|discriminate].
    destruct (negb _); [discriminate|]. rewrite U1.
    intros H. apply Ok_inj in H. inversion H; subst.
    eapply (grown_push _ _ (u8_len a, _)); [cbn [fst]; lia|reflexivity].
Qed.

Lemma restore_t_hp a c a1 : restore_transparent_checkpoint a c = Ok a1 -> hp a1 = trunc (hp a) c.
Proof.
  unfold restore_transparent_checkpoint. destruct (_ || _)%bool; [discriminate|].
  intros H. apply Ok_inj in H. subst a1. reflexivity.
Qed.

Lemma restore_hp a c a1 : restore_checkpoint a c = Ok a1 -> hp a1 = trunc (hp a) (c_inner c).
Proof.
  unfold restore_checkpoint. destruct (restore_transparent_checkpoint a (c_inner c)) as [a0|] eqn:E; cbn [bind]; [|discriminate].
  intros H. apply Ok_inj in H. subst a1. cbn [hp set_ghosts]. apply restore_t_hp. exact E.
Qed.

Lemma trunc_atoms_incl h c : incl (atoms (trunc h c)) (atoms h).
Proof. unfold trunc. cbn [atoms]. apply incl_take. Qed.

(* maybe_restore_with_node: whatever the outcome *)
Lemma mr_grown a c x : AOK a -> tcp_le c (hp a) ->
  grown (c_u8s c) (hp a) (hp (fst (maybe_restore_with_node a c x))).
Proof.
  intros [Hw Hc] Hle. pose proof Hle as (A & B & C).
  assert (Hsame : grown (c_u8s c) (hp a) (hp a)) by (apply grown_same; reflexivity).
  assert (Htr : forall a1, restore_transparent_checkpoint a c = Ok a1 -> grown (c_u8s c) (hp a) (hp a1)).
  { intros a1 E. rewrite (restore_t_hp _ _ _ E). apply grown_incl, trunc_atoms_incl. }
  unfold maybe_restore_with_node.
  destruct (_ || _)%bool; [exact Hsame|]. destruct (_ <? MIN_SAVINGS); [exact Hsame|].
  destruct (checkpoint_node_status a c x) as [[| |s e]|] eqn:Est; [| | |exact Hsame].
  - destruct (restore_transparent_checkpoint a c) as [a1|] eqn:E1; [|exact Hsame]. cbn [fst]. auto.
  - destruct (node_of a x) as [[buf|v|l r]|]; try exact Hsame.
    destruct (CLONE_ATOM_LIMIT <? blen buf); [exact Hsame|].
    destruct (restore_transparent_checkpoint a c) as [a1|] eqn:E1; [|exact Hsame].
    pose proof (Htr a1 eq_refl) as G1. pose proof (restore_t_hp _ _ _ E1) as Hh1.
    destruct (ghost_atoms a1 =? 0); [exact G1|].
    destruct (ghost_heap (set_ghosts a1 (ghost_atoms a1 - 1) (ghost_pairs a1) (ghost_heap a1)) <? blen buf); [exact G1|].
    match goal with |- context [new_atom ?A3 buf] => set (a3 := A3) end.
    destruct (new_atom a3 buf) as [[a4 n]|] eqn:E4; [|exact G1]. cbn [fst].
    assert (Hh3 : hp a3 = trunc (hp a) c) by (subst a3; cbn [hp set_ghosts]; exact Hh1).
    apply (grown_trans _ _ (hp a3)); [rewrite Hh3; apply trunc_atoms_incl|].
    (* new_atom on the truncated heap: the new atom starts at its end *)
    clear -E4 Hh3 Hle Hc. revert E4. unfold new_atom, check_atom_limit.
    destruct (heap_limit a3 <? _); [discriminate|].
    destruct (atoms_len a3 + ghost_atoms a3 =? MAX_NUM_ATOMS); cbn [bind]; [discriminate|].
    assert (Hu : u8_len a3 = c_u8s c).
    { unfold u8_len. rewrite Hh3. destruct (trunc_lens _ _ Hle) as (L1 & _). exact L1. }
    assert (Hu32 : u32 (u8_len a3) = c_u8s c).
    { rewrite Hu. apply u32_id. destruct Hle as (A & _). unf. lia. }
    destruct (fits_in_small_atom buf).
    + intros H. apply Ok_inj in H. inversion H; subst. apply grown_same. reflexivity.
    + intros H. apply Ok_inj in H. inversion H; subst. rewrite Hu32.
      eapply (grown_push _ _ (c_u8s c, _)); [cbn [fst]; lia|reflexivity].
  - (* created after the checkpoint over old bytes: the same (s, e) is pushed again *)
    destruct (restore_transparent_checkpoint a c) as [a1|] eqn:E1; [|exact Hsame].
    pose proof (Htr a1 eq_refl) as G1. pose proof (restore_t_hp _ _ _ E1) as Hh1.
    destruct (ghost_atoms a1 =? 0); [exact G1|].
    destruct (_ || _)%bool; [exact G1|]. cbn [fst hp set_hp set_ghosts].
    intros se Hin. cbn [atoms push_atom] in Hin. apply in_app_or in Hin.
    destruct Hin as [Hin|[<-|[]]].
    + left. rewrite Hh1 in Hin. apply trunc_atoms_incl in Hin. exact Hin.
    + left. unfold checkpoint_node_status in Est. destruct x as [i|i|v].
      * destruct (i <? c_pairs c); discriminate.
      * destruct (i <? c_atoms c); [discriminate|]. unfold get_atom in Est.
        destruct (nth_N (atoms (hp a)) i) as [[s0 e0]|] eqn:En; cbn [bind fst snd] in Est; [|discriminate].
        destruct (s0 <? c_u8s c); [|discriminate]. apply Ok_inj in Est. inversion Est; subst.
        eapply nth_N_In; exact En.
      * discriminate.
Qed.

(* ------------------------------------------------------------------ one step *)

Lemma cps_marks_le st e : AINV st -> In e (a_cps st) -> c_u8s (cp_tcp e) <= u8_len (a_al st).
Proof.
  intros Hi He. destruct (In_nth_error _ _ He) as [k Hk].
  destruct (cps_ok_nth _ _ _ _ _ _ (ai_cps _ Hi) Hk) as ((A & _) & _). exact A.
Qed.

Lemma nsi_fail st e : NSI st -> NSI (fst (a_fail st e)).
Proof. unfold a_fail. destruct (is_panic e); exact (fun H => H). Qed.

Lemma nsi_alloc st al' ns f2 d : AINV st -> NSI st -> grown (u8_len (a_al st)) (hp (a_al st)) (hp al') ->
  NSI (mkA al' ns (a_cps st) f2 d).
Proof.
  intros Hi Hn Hg. unfold NSI. cbn [a_al a_cps]. eapply ns_grown; [|exact Hg|exact Hn].
  intros e He. apply cps_marks_le; assumption.
Qed.

Lemma nsi_ret_node st r : AINV st -> NSI st ->
  (forall al n, r = Ok (al, n) -> grown (u8_len (a_al st)) (hp (a_al st)) (hp al)) ->
  NSI (fst (a_ret_node st r)).
Proof.
  intros Hi Hn Hg. unfold a_ret_node. destruct r as [[al n]|e]; [|apply nsi_fail; exact Hn].
  cbn [fst]. apply nsi_alloc; auto. eapply Hg. reflexivity.
Qed.

Lemma nsi_ret_unit st r : AINV st -> NSI st -> (forall al, r = Ok al -> hp al = hp (a_al st)) ->
  NSI (fst (a_ret_unit st r)).
Proof.
  intros Hi Hn Hg. unfold a_ret_unit. destruct r as [al|e]; [|apply nsi_fail; exact Hn].
  cbn [fst]. apply nsi_alloc; auto. apply grown_same. rewrite (Hg al eq_refl). reflexivity.
Qed.

Lemma nsi_ret_read st r : NSI st -> NSI (fst (a_ret_read st r)).
Proof. intros Hn. unfold a_ret_read. destruct r; [exact Hn|apply nsi_fail; exact Hn]. Qed.

(* a new checkpoint: every atom ends inside the byte vector *)
Lemma astr_current a : AOK a -> Forall (astr (transparent_checkpoint a)) (atoms (hp a)).
Proof.
  intros [Hw Hc]. destruct (counts_u32 a Hc) as (U1 & _). pose proof (wf_atoms _ Hw) as W.
  eapply Forall_impl; [|exact W]. intros se [_ B] _. cbn [transparent_checkpoint c_u8s]. rewrite U1. exact B.
Qed.

Lemma ns_incl h h' cps : incl (atoms h') (atoms h) -> NS h cps -> NS h' cps.
Proof.
  intros Hi Hn e He. specialize (Hn e He). rewrite Forall_forall in *. intros se Hin. apply Hn, Hi, Hin.
Qed.

Lemma nsi_restore st (c : tcheckpoint) k al' ns f2 : NSI st -> hp al' = trunc (hp (a_al st)) c ->
  NSI (mkA al' ns (skipn k (a_cps st)) f2 false).
Proof.
  intros Hn Hh. unfold NSI. cbn [a_al a_cps]. eapply ns_sub; [apply incl_skipn|].
  eapply ns_incl; [|exact Hn]. rewrite Hh. apply trunc_atoms_incl.
Qed.

(* the checkpoints that stay live after going back to entry k have marks at or below its mark *)
Lemma skipn_marks_le st k e0 e : AINV st -> nth_error (a_cps st) k = Some e0 -> In e (skipn k (a_cps st)) ->
  c_u8s (cp_tcp e) <= c_u8s (cp_tcp e0).
Proof.
  intros Hi Hk He. destruct (cps_ok_nth _ _ _ _ _ _ (ai_cps _ Hi) Hk) as (A & _ & _ & _ & _ & F).
  destruct (In_nth_error _ _ He) as [j Hj].
  destruct (cps_ok_nth _ _ _ _ _ _ F Hj) as ((A' & _) & _).
  destruct (trunc_lens _ _ A) as (L1 & _). rewrite L1 in A'. exact A'.
Qed.

Theorem ns_step fx st o : AINV st -> NSI st -> NSI (fst (a_step fx st o)).
Proof.
  intros Hi Hn. unfold a_step. destruct (a_dead st); [exact Hn|].
  pose proof (ai_ok _ Hi) as Hok. pose proof (aok_counts _ Hok) as Hc. pose proof (aok_wf _ Hok) as Hw.
  destruct o; cbn [a_step_live].
  - apply nsi_ret_node; auto. intros al nd E. eapply new_atom_grown; eauto.
  - apply nsi_ret_node; auto. intros al nd E. apply grown_same. rewrite (new_small_hp _ _ _ _ E). reflexivity.
  - apply nsi_ret_node; auto. intros al nd E. eapply new_atom_grown; eauto.
  - apply nsi_ret_node; auto. intros al nd E. eapply new_atom_grown; eauto.
  - apply nsi_ret_node; auto. intros al nd E. eapply new_number_grown; eauto.
  - apply nsi_ret_node; auto. intros al nd E. eapply new_number_grown; eauto.
  - destruct (nth_N (a_nodes st) i); [|exact Hn]. destruct (nth_N (a_nodes st) j); [|exact Hn].
    apply nsi_ret_node; auto. intros al nd E. apply grown_same. eapply new_pair_atoms; eauto.
  - destruct (nth_N (a_nodes st) i) as [x|]; [|exact Hn].
    destruct (new_substr_gen fx (a_al st) x s e) as [[[al n] path]|er] eqn:E; [|apply nsi_fail; exact Hn].
    cbn [fst]. apply nsi_alloc; auto. eapply new_substr_grown; eauto.
  - destruct (get_all (a_nodes st) is); [|exact Hn].
    apply nsi_ret_node; auto. intros al nd E. eapply new_concat_grown; eauto.
  - apply nsi_ret_unit; auto. intros al E. unfold add_ghost_atom in E.
    destruct (_ <? _); [discriminate|]. destruct (_ <? n); [discriminate|]. apply Ok_inj in E. subst al. reflexivity.
  - apply nsi_ret_unit; auto. intros al E. unfold add_ghost_pair in E.
    destruct (_ <? _); [discriminate|]. destruct (_ <? n); [discriminate|]. apply Ok_inj in E. subst al. reflexivity.
  - apply nsi_ret_unit; auto. intros al E. unfold remove_ghost_pair in E.
    destruct (_ <? n); [discriminate|]. apply Ok_inj in E. subst al. reflexivity.
  - cbn [fst]. unfold NSI. cbn [a_al a_cps]. intros e [<-|He]; [|apply Hn; exact He].
    cbn [cp_tcp checkpoint_of c_inner]. apply astr_current. exact Hok.
  - cbn [fst]. unfold NSI. cbn [a_al a_cps]. intros e [<-|He]; [|apply Hn; exact He].
    cbn [cp_tcp]. apply astr_current. exact Hok.
  - destruct (nth_N (a_cps st) k) as [[c nl|c nl]|]; try exact Hn.
    destruct (restore_checkpoint (a_al st) c) as [al'|er] eqn:E; [|apply nsi_fail; exact Hn].
    cbn [fst]. eapply nsi_restore; [exact Hn|]. eapply restore_hp; eauto.
  - destruct (nth_N (a_cps st) k) as [[c nl|c nl]|]; try exact Hn.
    destruct (restore_transparent_checkpoint (a_al st) c) as [al'|er] eqn:E; [|apply nsi_fail; exact Hn].
    cbn [fst]. eapply nsi_restore; [exact Hn|]. eapply restore_t_hp; eauto.
  - destruct (nth_N (a_cps st) k) as [[c nl|c nl]|] eqn:Ek; try exact Hn.
    destruct (nth_N (a_nodes st) i) as [x|]; [|exact Hn].
    destruct (cps_ok_nth _ _ _ _ _ _ (ai_cps _ Hi) Ek) as (A & _). cbn [cp_tcp] in A.
    pose proof (mr_grown (a_al st) c x Hok A) as G.
    destruct (maybe_restore_with_node (a_al st) c x) as [al' r]. cbn [fst] in G.
    assert (K : forall ns f2, NSI (mkA al' ns (skipn (N.to_nat k) (a_cps st)) f2 false)).
    { intros ns f2. unfold NSI. cbn [a_al a_cps]. eapply ns_grown; [|exact G|eapply ns_sub; [apply incl_skipn|exact Hn]].
      intros e He. apply (skipn_marks_le st (N.to_nat k) (CTrans c nl) e Hi Ek He). }
    destruct r as [[| n |]|er]; cbn [fst]; try apply K.
    destruct (is_panic er); [apply nsi_fail; exact Hn|]. cbn [fst]. apply K.
  - destruct (nth_N (a_nodes st) i); [|exact Hn]. apply nsi_ret_read. exact Hn.
  - destruct (nth_N (a_nodes st) i); [|exact Hn]. apply nsi_ret_read. exact Hn.
  - destruct (nth_N (a_nodes st) i); [|exact Hn]. destruct (nth_N (a_nodes st) j); [|exact Hn]. apply nsi_ret_read. exact Hn.
  - destruct (nth_N (a_nodes st) i); [|exact Hn]. apply nsi_ret_read. exact Hn.
  - destruct (nth_N (a_nodes st) i); [|exact Hn]. apply nsi_ret_read. exact Hn.
  - destruct (nth_N (a_nodes st) i); [|exact Hn]. apply nsi_ret_read. exact Hn.
  - destruct (nth_N (a_nodes st) i); [|exact Hn]. apply nsi_ret_read. exact Hn.
Qed.

(* with the invariant, maybe_restore_with_node has no "invalid atom byte range" exit *)
Theorem mr_no_ie5 fx st k i : AINV st -> NSI st ->
  snd (a_step fx st (OMaybeRestore k i)) <> ObErr (InternalError 5).
Proof.
  intros Hi Hn. unfold a_step. destruct (a_dead st); [discriminate|]. cbn [a_step_live].
  destruct (nth_N (a_cps st) k) as [[c nl|c nl]|] eqn:Ek; try discriminate.
  destruct (nth_N (a_nodes st) i) as [x|] eqn:Ex; [|discriminate].
  destruct (cps_ok_nth _ _ _ _ _ _ (ai_cps _ Hi) Ek) as (A & _ & _ & D & _). cbn [cp_tcp] in *.
  assert (Hx : vnode (hp (a_al st)) x).
  { pose proof (ai_nodes _ Hi) as H. rewrite Forall_forall in H. apply H. eapply nth_N_In; eauto. }
  assert (Hns : no_straddle (a_al st) c).
  { intros j s e En Hs. assert (Hin : In (CTrans c nl) (a_cps st)) by (eapply nth_error_In; exact Ek).
    specialize (Hn _ Hin). rewrite Forall_forall in Hn. cbn [cp_tcp] in Hn.
    apply (Hn (s, e)); [eapply nth_N_In; exact En|exact Hs]. }
  destruct (maybe_restore_ok (a_al st) c x (ai_ok _ Hi) A D Hx Hns) as (a' & r & E & _).
  rewrite E. destruct r; discriminate.
Qed.

(* ------------------------------------------------------------------ the whole-history theorem without the
   premise on maybe_restore_with_node *)
From Clvm Require Import Proofs.AllocSim.

Definition substr_ok (fx : bool) (o : op) (ob : obs) : Prop :=
  match o with
  | ONewSubstr _ _ _ => fx = false \/ ob <> ObErr OutOfMemory
  | _ => True
  end.

Fixpoint substr_clean (fx : bool) (st : ast) (h : list op) : Prop :=
  match h with
  | [] => True
  | o :: r => substr_ok fx o (snd (a_step fx st o)) /\ substr_clean fx (fst (a_step fx st o)) r
  end.

Lemma step_ok_of fx st o : AINV st -> NSI st -> substr_ok fx o (snd (a_step fx st o)) ->
  step_ok fx o (snd (a_step fx st o)).
Proof.
  intros Hi Hn Hs. destruct o; try exact I; [exact Hs|]. cbn [step_ok]. apply mr_no_ie5; assumption.
Qed.

Theorem sim_run_ns fx : forall h st rs, SIM st rs -> NSI st -> Forall wf_op2 h ->
  a_dead (fst (a_run fx st h)) = false -> a_f2 (fst (a_run fx st h)) = false -> substr_clean fx st h ->
  SIM (fst (a_run fx st h)) (fst (r_run rs h)) /\ NSI (fst (a_run fx st h)).
Proof.
  induction h as [|o r IH]; intros st rs HS Hn Hwf; cbn [a_run r_run substr_clean].
  - intros _ _ _. split; assumption.
  - inversion Hwf as [|? ? Ho Hr]; subst.
    pose proof (sim_step fx st rs o HS Ho) as S. pose proof (a_run_dead fx r (fst (a_step fx st o))) as Dd.
    pose proof (a_run_f2 fx r (fst (a_step fx st o))) as Df.
    pose proof (ns_step fx st o (sim_inv _ _ HS) Hn) as N1.
    pose proof (step_ok_of fx st o (sim_inv _ _ HS) Hn) as K.
    destruct (a_step fx st o) as [st1 ob]. destruct (r_step rs o) as [rs1 rob]. cbn [fst snd] in *.
    specialize (IH st1 rs1). destruct (a_run fx st1 r) as [st2 obs]. destruct (r_run rs1 r) as [rs2 robs].
    cbn [fst] in *. intros Hd Hf [Hc1 Hc2].
    assert (Hd1 : a_dead st1 = false).
    { destruct (a_dead st1) eqn:E; [|reflexivity]. rewrite (Dd eq_refl) in Hd. congruence. }
    assert (Hf1 : a_f2 st1 = false).
    { destruct (a_f2 st1) eqn:E; [|reflexivity]. rewrite (Df eq_refl) in Hf. discriminate. }
    apply IH; auto.
Qed.

Lemma nsi_init limit st : a_init limit = Ok st -> NSI st.
Proof.
  unfold a_init. destruct (new_limited limit) as [al|]; cbn [bind]; [|discriminate].
  intros H. apply Ok_inj in H. subst st. intros e He. destruct He.
Qed.

Theorem history_counts_ns fx limit h st : 1 <= limit -> Forall wf_op2 h ->
  a_final fx limit h = Some st -> a_dead st = false -> a_f2 st = false ->
  (forall st0, a_init limit = Ok st0 -> substr_clean fx st0 h) ->
  a_counts st = rs_counts (r_final limit h) /\ r_dead (r_final limit h) = false /\
  heap_limit (a_al st) = r_limit (r_st (r_final limit h)) /\
  Forall2 (fun n t => denote (hp (a_al st)) n = Some t) (a_nodes st) (r_nodes (r_final limit h)).
Proof.
  intros Hl Hwf. unfold a_final, r_final. destruct (a_init limit) as [st0|e] eqn:E; [|discriminate].
  intros H Hd Hf Hc. apply Some_inj in H. subst st.
  destruct (sim_run_ns fx h st0 (r_init limit) (sim_init _ _ Hl E) (nsi_init _ _ E) Hwf Hd Hf (Hc st0 eq_refl))
    as [[_ [S1 S2 S3 S4 _]] _].
  unfold a_counts, rs_counts. auto.
Qed.

Lemma substr_clean_unrepaired : forall h st, substr_clean false st h.
Proof.
  induction h as [|o r IH]; intros st; cbn [substr_clean]; [exact I|]. split; [|apply IH].
  destruct o; cbn [substr_ok]; auto.
Qed.

(* the code without the heap-limit check in new_substr's copy branch: nothing but panics and the F2
   copy itself is excluded *)
Corollary history_counts_unrepaired limit h st : 1 <= limit -> Forall wf_op2 h ->
  a_final false limit h = Some st -> a_dead st = false -> a_f2 st = false ->
  a_counts st = rs_counts (r_final limit h).
Proof.
  intros Hl Hwf H Hd Hf.
  apply (history_counts_ns false limit h st Hl Hwf H Hd Hf). intros st0 _. apply substr_clean_unrepaired.
Qed.
