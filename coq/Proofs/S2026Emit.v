(* Proofs about Model/S2026.v, part 3: the instruction stream the serializer emits, executed by the
   decoder's instruction semantics over the atom table the serializer writes, rebuilds the tree. *)
From Clvm Require Import Model.S2026 Model.Classic Proofs.BytesLemmas Proofs.InternProofs Proofs.TreeHashProofs.
From Coq Require Import Lia.
Local Open Scope Z_scope.

(* the decoder's instruction semantics (instr_step of Model/S2026.v with V = sexp) without the
   byte layer; None = SerializationError *)
Definition exec1 (atoms : list sexp) (st : list sexp * list sexp) (inst : Z) : option (list sexp * list sexp) :=
  let '(pairs, stack) := st in
  if inst =? 0 then Some (pairs, Atom [] :: stack)
  else if inst =? 1 then
    match stack with rgt :: lft :: s => Some (pairs ++ [Cons lft rgt], Cons lft rgt :: s) | _ => None end
  else if inst =? -1 then
    match stack with lft :: rgt :: s => Some (pairs ++ [Cons lft rgt], Cons lft rgt :: s) | _ => None end
  else if 2 <=? inst then
    match get_z atoms (inst - 2) with Some a => Some (pairs, a :: stack) | None => None end
  else
    match get_z pairs (- inst - 2) with Some p => Some (pairs, p :: stack) | None => None end.

Fixpoint exec_all (atoms : list sexp) (l : list Z) (st : list sexp * list sexp) : option (list sexp * list sexp) :=
  match l with
  | [] => Some st
  | i :: r => match exec1 atoms st i with Some st' => exec_all atoms r st' | None => None end
  end.

Lemma exec_all_app atoms a b st :
  exec_all atoms (a ++ b) st = match exec_all atoms a st with Some st' => exec_all atoms b st' | None => None end.
Proof.
  revert st. induction a as [|x a IH]; intros st; cbn; [reflexivity|].
  destruct (exec1 atoms st x); [apply IH|reflexivity].
Qed.

(* instr_step is exec1 behind one varint, for every instruction value a varint can carry *)
Lemma instr_step_exec1 strict atoms st bs inst r : rv strict bs = Ok (inst, r) -> - 2 ^ 55 <= inst ->
  instr_step Atom Cons strict atoms st bs =
    match exec1 atoms st inst with Some st' => Ok (st', r) | None => Err SerializationError end.
Proof.
  intros Hr Hlo. change (2 ^ 55) with 36028797018963968 in Hlo. unfold instr_step. rewrite Hr. cbn [bind]. destruct st as [pairs stack]. unfold exec1.
  destruct (inst =? 0); [reflexivity|].
  destruct (inst =? 1).
  { destruct stack as [|a [|b s]]; reflexivity. }
  destruct (inst =? -1).
  { destruct stack as [|a [|b s]]; reflexivity. }
  destruct (Z.leb_spec 2 inst) as [_|Hlt2].
  { destruct (get_z atoms (inst - 2)); reflexivity. }
  destruct (Z.eqb_spec inst i64_min) as [E|_]; [unfold i64_min in E; lia|].
  destruct (Z.ltb_spec (- inst - 2) i64_min) as [E|_].
  { unfold i64_min in E. lia. }
  destruct (get_z pairs (- inst - 2)); reflexivity.
Qed.

Lemma lookup_atoms_nth atoms idxs : forall table, lookup_atoms atoms idxs = Ok table ->
  forall k i, nth_error idxs k = Some i ->
  exists b, nth_error atoms i = Some b /\ nth_error table k = Some b.
Proof.
  induction idxs as [|i0 idxs IH]; intros table Hl k i Hk; [destruct k; discriminate|].
  cbn in Hl. destruct (nth_error atoms i0) as [a|] eqn:Ea; [|discriminate].
  destruct (lookup_atoms atoms idxs) as [rest|] eqn:Er; cbn [bind] in Hl; [|discriminate].
  inversion Hl; subst table. destruct k as [|k]; cbn in Hk.
  - inversion Hk; subst. exists a. split; [exact Ea|reflexivity].
  - cbn. exact (IH rest eq_refl k i Hk).
Qed.

Section Emit.
  Variable it : itree.
  Variable pts : list sexp.
  Hypothesis Hpts : pair_trees it = Some pts.
  Variable sorted : list nat.
  Variable table : list bytes.
  Hypothesis Htable : lookup_atoms (it_atoms it) sorted = Ok table.
  Notation NT := (node_tree (it_atoms it) pts).
  Notation datoms := (map Atom table).

  Definition OrdInv (order : list nat) (dp : list sexp) : Prop :=
    length order = length dp /\
    forall ci pi, nth_error order ci = Some pi -> exists tp, NT (IP pi) = Some tp /\ nth_error dp ci = Some tp.

  Lemma atom_instr_exec i b x : nth_error (it_atoms it) i = Some b -> atom_instr it sorted i = Ok x ->
    forall dp stack, exec1 datoms (dp, stack) x = Some (dp, Atom b :: stack).
  Proof.
    intros Hi Hx dp stack. unfold atom_instr in Hx.
    destruct (match nil_old_idx it with Some n => Nat.eqb i n | None => false end) eqn:En.
    - inversion Hx; subst x. unfold nil_old_idx in En.
      match type of En with match ?F with _ => _ end = _ => destruct F as [n|] eqn:Ef end; [|discriminate].
      apply Nat.eqb_eq in En. subst n. apply find_index_some in Ef. destruct Ef as [a [Ha Hnil]].
      assert (Hab : Some a = Some b) by (transitivity (nth_error (it_atoms it) i); [symmetry; exact Ha|exact Hi]).
      inversion Hab; subst a. destruct b; [|discriminate]. reflexivity.
    - destruct (find_index (Nat.eqb i) sorted) as [new|] eqn:Ef; [|discriminate].
      inversion Hx; subst x. apply find_index_some in Ef. destruct Ef as [j [Hj Hij]].
      apply Nat.eqb_eq in Hij. subst j.
      destruct (lookup_atoms_nth _ _ _ Htable _ _ Hj) as [b' [Hb' Ht]].
      assert (b' = b) by congruence. subst b'.
      assert (Hlt : (new < length table)%nat) by (apply nth_error_Some; now rewrite Ht).
      unfold exec1.
      destruct (Z.eqb_spec (Z.of_nat new + 2) 0); [lia|].
      destruct (Z.eqb_spec (Z.of_nat new + 2) 1); [lia|].
      destruct (Z.eqb_spec (Z.of_nat new + 2) (-1)); [lia|].
      destruct (Z.leb_spec 2 (Z.of_nat new + 2)); [|lia].
      unfold get_z. rewrite map_length.
      destruct (Z.ltb_spec (Z.of_nat new + 2 - 2) (Z.of_nat (length table))); [|lia].
      replace (Z.to_nat (Z.of_nat new + 2 - 2)) with new by lia.
      rewrite (map_nth_error Atom _ _ Ht). reflexivity.
  Qed.

  Lemma emit_node : forall t n, NT n = Some t -> forall fuel w order acc res,
    emit_loop it sorted fuel (EBuild n :: w) order acc = Ok res ->
    exists fuel' l order', emit_loop it sorted fuel' w order' (rev l ++ acc) = Ok res /\
      forall dp stack, OrdInv order dp ->
        exists dp', exec_all datoms l (dp, stack) = Some (dp', t :: stack) /\ OrdInv order' dp'.
  Proof.
    induction t as [b|tl IHl tr IHr]; intros n Hn fuel w order acc res He.
    - destruct (NT_atom it pts Hpts _ _ Hn) as [i [-> Hi]].
      destruct fuel as [|f]; [discriminate|]. cbn [emit_loop] in He.
      destruct (atom_instr it sorted i) as [x|] eqn:Ex; cbn [bind] in He; [|discriminate].
      exists f, [x], order. split; [exact He|].
      intros dp stack HO. exists dp. split; [|exact HO].
      cbn [exec_all]. now rewrite (atom_instr_exec i b x Hi Ex).
    - destruct (NT_pair it pts Hpts _ _ _ Hn) as [j [l [r [-> [Hj [Hl Hr]]]]]].
      destruct fuel as [|f]; [discriminate|]. cbn [emit_loop] in He.
      destruct (find_index (Nat.eqb j) order) as [ci|] eqn:Ef.
      + exists f, [- (Z.of_nat ci + 2)], order. split; [exact He|].
        intros dp stack [HOl HOk]. exists dp. split; [|split; assumption].
        apply find_index_some in Ef. destruct Ef as [j' [Hci Hjj]]. apply Nat.eqb_eq in Hjj. subst j'.
        destruct (HOk _ _ Hci) as [tp [Htp Hdp]].
        assert (tp = Cons tl tr) by congruence. subst tp.
        assert (Hlt : (ci < length dp)%nat) by (apply nth_error_Some; now rewrite Hdp).
        cbn [exec_all]. unfold exec1.
        destruct (Z.eqb_spec (- (Z.of_nat ci + 2)) 0); [lia|].
        destruct (Z.eqb_spec (- (Z.of_nat ci + 2)) 1); [lia|].
        destruct (Z.eqb_spec (- (Z.of_nat ci + 2)) (-1)); [lia|].
        destruct (Z.leb_spec 2 (- (Z.of_nat ci + 2))); [lia|].
        unfold get_z.
        destruct (Z.ltb_spec (- - (Z.of_nat ci + 2) - 2) (Z.of_nat (length dp))); [|lia].
        replace (Z.to_nat (- - (Z.of_nat ci + 2) - 2)) with ci by lia.
        rewrite Hdp. reflexivity.
      + rewrite Hj in He.
        destruct (IHl l Hl f _ order acc res He) as [f1 [l1 [order1 [He1 Hx1]]]].
        destruct (IHr r Hr f1 _ order1 _ res He1) as [f2 [l2 [order2 [He2 Hx2]]]].
        destruct f2 as [|f3]; [discriminate|]. cbn [emit_loop] in He2.
        exists f3, (l1 ++ l2 ++ [1]), (order2 ++ [j]). split.
        * rewrite !rev_app_distr. cbn [rev app]. rewrite <- !app_assoc. cbn [app]. exact He2.
        * intros dp stack HO.
          destruct (Hx1 dp stack HO) as [dp1 [E1 HO1]].
          destruct (Hx2 dp1 (tl :: stack) HO1) as [dp2 [E2 HO2]].
          exists (dp2 ++ [Cons tl tr]). split.
          -- rewrite exec_all_app, E1, exec_all_app, E2. reflexivity.
          -- destruct HO2 as [HOl HOk]. split; [rewrite !app_length, HOl; reflexivity|].
             intros ci pi Hci.
             destruct (Nat.lt_ge_cases ci (length order2)) as [Hlt|Hge].
             ++ rewrite nth_error_app1 in Hci by exact Hlt.
                destruct (HOk _ _ Hci) as [tp [Htp Hdp]]. exists tp. split; [exact Htp|].
                now apply nth_error_ext.
             ++ rewrite nth_error_app2 in Hci by exact Hge.
                destruct (ci - length order2)%nat as [|d] eqn:Ed; [|destruct d; discriminate].
                cbn in Hci. inversion Hci; subst pi.
                assert (ci = length dp2) by lia. subst ci.
                exists (Cons tl tr). split; [exact Hn|apply nth_error_snoc_len].
  Qed.

  Theorem emit_exec t instrs : node_tree (it_atoms it) pts (it_root it) = Some t ->
    emit_instructions it sorted = Ok instrs ->
    exists dp, exec_all datoms instrs ([], []) = Some (dp, [t]).
  Proof.
    intros Hroot He. unfold emit_instructions in He.
    assert (HO0 : OrdInv [] []).
    { split; [reflexivity|]. intros ci pi Hci. destruct ci; discriminate. }
    destruct (it_pairs it) as [|p0 ps] eqn:Eps.
    - destruct (it_root it) as [i|j] eqn:Er; [|discriminate].
      destruct (atom_instr it sorted i) as [x|] eqn:Ex; cbn [bind] in He; [|discriminate].
      inversion He; subst instrs. cbn in Hroot.
      destruct (nth_error (it_atoms it) i) as [b|] eqn:Ei; [|discriminate]. inversion Hroot; subst t.
      exists []. cbn [exec_all]. now rewrite (atom_instr_exec i b x Ei Ex).
    - destruct (emit_node t (it_root it) Hroot _ _ _ _ _ He) as [f' [l [order' [He' Hx]]]].
      destruct f' as [|f'']; [discriminate|]. cbn [emit_loop] in He'.
      rewrite app_nil_r, rev_involutive in He'. inversion He'; subst instrs.
      destruct (Hx [] [] HO0) as [dp [E _]]. now exists dp.
  Qed.
End Emit.

(* for the interned tree of t: whatever atom order the sort produces, if the serializer emits an
   instruction list, executing it over the table it writes yields t *)
Theorem emit_exec_intern t table instrs :
  lookup_atoms (it_atoms (intern_tree t)) (sorted_no_nil (intern_tree t)) = Ok table ->
  emit_instructions (intern_tree t) (sorted_no_nil (intern_tree t)) = Ok instrs ->
  exists dp, exec_all (map Atom table) instrs ([], []) = Some (dp, [t]).
Proof.
  intros Ht He.
  destruct (intern_tree_spec t) as [HI [_ Hn]].
  exact (emit_exec (intern_tree t) (distinct_pairs t) (inv_build _ _ _ HI) _ table Ht t instrs Hn He).
Qed.
