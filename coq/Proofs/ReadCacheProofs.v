(* ReadCacheLookup (Model/ReadCache.v): the invariant that ties it to the decoder's stack, and
   soundness of the breadth-first path search under tree-hash injectivity (DESIGN.md B.2).
   Every parent edge is intrinsic — "p is the hash of a pair whose dir-child has hash h" — so a
   chain of edges that ends in the current root hash is a real path in the current stack list,
   whatever the reference counts say (they only prune the search). *)
From Clvm Require Import Model.BackRef Model.ReadCache Proofs.BytesLemmas Proofs.ClassicAtoms Proofs.ClassicProofs.
From Coq Require Import Lia ZifyBool ZifyN ZifyNat.
Ltac Zify.zify_post_hook ::= Z.div_mod_to_equations.
Open Scope N_scope.
Arguments N.add : simpl never.
Arguments N.sub : simpl never.
Arguments N.mul : simpl never.
Arguments N.eqb : simpl never.
Arguments N.ltb : simpl never.
Arguments N.leb : simpl never.
Arguments N.div : simpl never.
Arguments N.modulo : simpl never.
Arguments stack_list : simpl never.

Lemma bytes_eqb_refl a : bytes_eqb a a = true.
Proof. apply bytes_eqb_eq. reflexivity. Qed.

Lemma bytes_eqb_neq a b : a <> b -> bytes_eqb a b = false.
Proof. intros Hn. destruct (bytes_eqb a b) eqn:E; [|reflexivity]. apply bytes_eqb_eq in E. contradiction. Qed.

(* ------------------------------------------------------------------ association lists *)
Lemma alist_get_update {V} (m : list (bytes * V)) k d f k' :
  alist_get (alist_update m k d f) k' =
    if bytes_eqb k k' then Some (f (match alist_get m k with Some v => v | None => d end))
    else alist_get m k'.
Proof.
  induction m as [|[k0 v0] m IH]; cbn [alist_update alist_get].
  - destruct (bytes_eqb k k'); reflexivity.
  - destruct (bytes_eqb k0 k) eqn:E0.
    + apply bytes_eqb_eq in E0. subst k0. cbn [alist_get]. destruct (bytes_eqb k k'); reflexivity.
    + cbn [alist_get]. destruct (bytes_eqb k0 k') eqn:E1.
      * apply bytes_eqb_eq in E1. subst k0. destruct (bytes_eqb k k') eqn:E2; [|reflexivity].
        apply bytes_eqb_eq in E2. subst k. rewrite bytes_eqb_refl in E0. discriminate.
      * exact IH.
Qed.

Section Sound.
  Variable H : bytes -> bytes.
  Notation th := (treehash H).
  Hypothesis th_inj : forall t1 t2, th t1 = th t2 -> t1 = t2.

  (* ------------------------------------------------------------------ the invariant *)
  Definition edge_ok (h : bytes) (e : bytes * bool) : Prop :=
    exists l r, fst e = th (Cons l r) /\ h = th (if snd e then r else l).

  Definition parents_ok (p : list (bytes * list (bytes * bool))) : Prop :=
    forall h items e, alist_get p h = Some items -> In e items -> edge_ok h e.

  Lemma parents_ok_add p k e : parents_ok p -> edge_ok k e -> parents_ok (parent_add p k e).
  Proof.
    intros Hp He h items e0 Hg Hin. unfold parent_add in Hg. rewrite alist_get_update in Hg.
    destruct (bytes_eqb k h) eqn:Ek.
    - apply bytes_eqb_eq in Ek. subst h. injection Hg as <-. apply in_app_or in Hin.
      destruct Hin as [Hin|[<-|[]]]; [|exact He].
      destruct (alist_get p k) as [old|] eqn:Eo; [|destruct Hin]. eapply Hp; eassumption.
    - eapply Hp; eassumption.
  Qed.

  Fixpoint mirror (stk : list sexp) : list (bytes * bytes) :=
    match stk with
    | [] => []
    | x :: s => (th x, th (stack_list s)) :: mirror s
    end.

  Definition Inv (s : rcl) (stk : list sexp) : Prop :=
    root_hash s = th (stack_list stk) /\ read_stack s = mirror stk /\ parents_ok (parent_lookup s).

  Lemma Inv_new : Inv (rcl_new H) [].
  Proof. split; [reflexivity|]. split; [reflexivity|]. intros h items e Hg. discriminate. Qed.

  Lemma Inv_push s stk x s' : Inv s stk -> rcl_push H s (th x) = Ok s' -> Inv s' (x :: stk).
  Proof.
    intros (Hr & Hs & Hp) Hpush. unfold rcl_push in Hpush.
    destruct (count_inc (count s) (th x)) as [c1|]; cbn [bind] in Hpush; [|discriminate].
    destruct (count_inc c1 _) as [c2|]; cbn [bind] in Hpush; [|discriminate].
    injection Hpush as <-. cbn [root_hash read_stack parent_lookup].
    split; [rewrite Hr; reflexivity|]. split; [rewrite Hs, Hr; reflexivity|].
    apply parents_ok_add; [apply parents_ok_add; [exact Hp|]|].
    - exists x, (stack_list stk). split; [rewrite Hr; reflexivity|reflexivity].
    - exists x, (stack_list stk). split; [rewrite Hr; reflexivity|exact Hr].
  Qed.

  Lemma Inv_pop s stk x item s' : Inv s (x :: stk) -> rcl_pop s = Ok (item, s') ->
    item = (th x, th (stack_list stk)) /\ Inv s' stk.
  Proof.
    intros (Hr & Hs & Hp) Hpop. unfold rcl_pop in Hpop. rewrite Hs in Hpop. cbn [mirror] in Hpop.
    destruct (count_dec (count s) _) as [c1|]; cbn [bind] in Hpop; [|discriminate].
    destruct (count_dec c1 _) as [c2|]; cbn [bind] in Hpop; [|discriminate].
    injection Hpop as <- <-. split; [reflexivity|].
    split; [reflexivity|]. split; [reflexivity|exact Hp].
  Qed.

  Lemma Inv_pop2_and_cons s stk l r s' : Inv s (r :: l :: stk) -> rcl_pop2_and_cons H s = Ok s' ->
    Inv s' (Cons l r :: stk).
  Proof.
    intros HI Hrun. unfold rcl_pop2_and_cons in Hrun.
    destruct (rcl_pop s) as [[rgt s1]|] eqn:E1; cbn [bind] in Hrun; [|discriminate].
    destruct (Inv_pop _ _ _ _ _ HI E1) as [-> HI1].
    destruct (rcl_pop s1) as [[lft s2]|] eqn:E2; cbn [bind] in Hrun; [|discriminate].
    destruct (Inv_pop _ _ _ _ _ HI1 E2) as [-> (Hr2 & Hs2 & Hp2)]. cbn [fst] in Hrun.
    destruct (count_inc (count s2) (th l)) as [c1|]; cbn [bind] in Hrun; [|discriminate].
    destruct (count_inc c1 (th r)) as [c2|]; cbn [bind] in Hrun; [|discriminate].
    eapply (Inv_push _ stk (Cons l r)); [|exact Hrun].
    split; [exact Hr2|]. split; [exact Hs2|]. cbn [parent_lookup].
    apply parents_ok_add; [apply parents_ok_add; [exact Hp2|]|].
    - exists l, r. split; reflexivity.
    - exists l, r. split; reflexivity.
  Qed.

  (* ------------------------------------------------------------------ the path search *)
  (* (node, path): from any tree with hash [node], [path] leads to a tree with hash [id] *)
  Definition reach (id node : bytes) (path : list bool) : Prop :=
    forall u c, th u = node -> exists c' v, follow path u c = Ok (c', v) /\ th v = id.

  Definition good (id : bytes) (l : list (bytes * list bool)) : Prop :=
    Forall (fun np => reach id (fst np) (snd np)) l.

  Lemma reach_nil id : reach id id [].
  Proof. intros u c Hu. exists c, u. split; [reflexivity|exact Hu]. Qed.

  Lemma reach_step id node path parent d :
    edge_ok node (parent, d) -> reach id node path -> reach id parent (d :: path).
  Proof.
    intros (l & r & Hp & Hn) Hr u c Hu. cbn [fst snd] in Hp, Hn.
    rewrite Hp in Hu. apply th_inj in Hu. subst u. cbn [follow].
    apply Hr. symmetry. exact Hn.
  Qed.

  Lemma scan_parents_good id cnt mpl node path : reach id node path ->
    forall items seen acc seen' acc', (forall e, In e items -> edge_ok node e) -> good id acc ->
    scan_parents cnt mpl path items seen acc = Some (seen', acc') -> good id acc'.
  Proof.
    intros Hr. induction items as [|[parent d] items IH]; intros seen acc seen' acc' He Hg Hs; cbn [scan_parents] in Hs.
    - injection Hs as _ <-. exact Hg.
    - assert (He' : forall e, In e items -> edge_ok node e) by (intros e Hin; apply He; right; exact Hin).
      destruct ((0 <? count_of cnt parent) && negb (seen_contains seen parent)).
      + destruct (mpl <? N.of_nat (length path)); [discriminate|].
        eapply IH; [exact He'| |exact Hs].
        destruct (N.of_nat (length path) <? mpl); [|exact Hg].
        apply Forall_app. split; [exact Hg|]. constructor; [|constructor]. cbn [fst snd].
        eapply reach_step; [|exact Hr]. apply He. left. reflexivity.
      + eapply IH; [exact He'|exact Hg|exact Hs].
  Qed.

  Definition resp_ok (mb : N) (id root : bytes) (pb : bytes) : Prop :=
    exists path, pb = path_to_bytes path /\ reach id root path /\
      exists pl, atom_length_bits (N.of_nat (length path) + 1) = Some pl /\ pl <= mb.

  Lemma scan_level_good id s mb mpl : parents_ok (parent_lookup s) ->
    forall partial seen responses next, good id partial -> good id next -> Forall (resp_ok mb id (root_hash s)) responses ->
    match scan_level s mb mpl partial seen responses next with
    | inl (_, responses', next') => good id next' /\ Forall (resp_ok mb id (root_hash s)) responses'
    | inr resp => Forall (resp_ok mb id (root_hash s)) resp
    end.
  Proof.
    intros Hp. induction partial as [|[node path] partial IH]; intros seen responses next Hgp Hgn Hresp; cbn [scan_level].
    - split; assumption.
    - inversion Hgp as [|? ? Hnp Hgp']; subst. cbn [fst snd] in Hnp.
      destruct (bytes_eqb node (root_hash s)) eqn:Er.
      + apply bytes_eqb_eq in Er. subst node. apply IH; try assumption.
        destruct (atom_length_bits _) as [pl|] eqn:Epl; [|exact Hresp].
        destruct (N.leb_spec pl mb) as [Hle|_]; [|exact Hresp].
        apply Forall_app. split; [exact Hresp|]. constructor; [|constructor].
        exists path. split; [reflexivity|]. split; [exact Hnp|]. exists pl. split; [exact Epl|exact Hle].
      + destruct (alist_get (parent_lookup s) node) as [items|] eqn:Eg; [|apply IH; assumption].
        destruct (scan_parents (count s) mpl path items seen next) as [[seen' next']|] eqn:Es; [|exact Hresp].
        apply IH; try assumption.
        eapply scan_parents_good; [exact Hnp| |exact Hgn|exact Es].
        intros e Hin. eapply Hp; eassumption.
  Qed.

  Lemma bfs_good id s mb mpl : parents_ok (parent_lookup s) ->
    forall fuel partial seen responses out, good id partial -> Forall (resp_ok mb id (root_hash s)) responses ->
    bfs fuel s mb mpl partial seen responses = Ok out -> Forall (resp_ok mb id (root_hash s)) out.
  Proof.
    intros Hp. induction fuel as [|fuel IH]; intros partial seen responses out Hg Hr Hb; cbn [bfs] in Hb; [discriminate|].
    destruct partial as [|p0 partial']; [injection Hb as <-; exact Hr|].
    pose proof (scan_level_good id s mb mpl Hp (p0 :: partial') seen responses [] Hg (Forall_nil _) Hr) as Hl.
    destruct (scan_level s mb mpl (p0 :: partial') seen responses []) as [[[seen' responses'] next]|resp].
    - destruct Hl as [Hgn Hr']. destruct responses' as [|r0 rs]; [|injection Hb as <-; exact Hr'].
      eapply IH; [exact Hgn|exact Hr'|exact Hb].
    - injection Hb as <-. exact Hl.
  Qed.

  Lemma min_bytes_in : forall l cur, In (min_bytes cur l) (cur :: l).
  Proof.
    induction l as [|x l IH]; intros cur; cbn [min_bytes]; [left; reflexivity|].
    destruct (IH (if bytes_lt x cur then x else cur)) as [Hi|Hi].
    - destruct (bytes_lt x cur); [right; left|left]; exact Hi.
    - right. right. exact Hi.
  Qed.

  Lemma find_path_sound s id len p : parents_ok (parent_lookup s) ->
    find_path s id len = Ok (Some p) -> 4 <= len /\ resp_ok (len - 1) id (root_hash s) p.
  Proof.
    intros Hp Hf. unfold find_path in Hf.
    destruct (find_paths s id len) as [paths|] eqn:Ep; cbn [bind] in Hf; [|discriminate].
    destruct paths as [|x r]; [discriminate|]. injection Hf as <-.
    unfold find_paths in Ep. destruct (N.ltb_spec len 4) as [|Hlen]; [discriminate|]. split; [exact Hlen|].
    assert (Hall : Forall (resp_ok (len - 1) id (root_hash s)) (x :: r)).
    { eapply bfs_good; [exact Hp| |constructor|exact Ep].
      constructor; [|constructor]. apply reach_nil. }
    rewrite Forall_forall in Hall. apply Hall. apply min_bytes_in.
  Qed.

  (* ------------------------------------------------------------------ the path atom *)
  Lemma be_bytes_eq c v : be_bytes c v = be_bytes_of c v.
  Proof. revert v. induction c as [|c IH]; intros v; cbn; [reflexivity|]. now rewrite IH. Qed.

  Lemma path_value_bounds trav : 2 ^ N.of_nat (length trav) <= path_value trav < 2 ^ N.of_nat (S (length trav)).
  Proof.
    induction trav as [|b r IH]; [cbn; lia|].
    cbn [path_value length]. rewrite !Nat2N.inj_succ, !N.pow_succ_r' in *.
    destruct b; lia.
  Qed.

  Lemma bits_of_path_value trav : bits_lsb_first (length trav) (path_value trav) = trav.
  Proof.
    induction trav as [|b r IH]; [reflexivity|].
    cbn [length bits_lsb_first path_value]. f_equal.
    - destruct b.
      + replace (2 * path_value r + 1) with (1 + 2 * path_value r) by lia. rewrite N.odd_add_mul_2. reflexivity.
      + replace (2 * path_value r + 0) with (0 + 2 * path_value r) by lia. rewrite N.odd_add_mul_2. reflexivity.
    - rewrite N.div2_div. replace ((2 * path_value r + (if b then 1 else 0)) / 2) with (path_value r); [exact IH|].
      destruct b; lia.
  Qed.

  Lemma path_to_bytes_value trav : be_value (path_to_bytes trav) = path_value trav.
  Proof.
    unfold path_to_bytes. rewrite be_bytes_eq, be_bytes_of_value.
    apply N.mod_small. destruct (path_value_bounds trav) as [_ Hlt].
    eapply N.lt_le_trans; [exact Hlt|].
    set (k := ((length trav + 8) / 8)%nat).
    replace 256 with (2 ^ 8) by reflexivity. rewrite <- N.pow_mul_r.
    apply N.pow_le_mono_r; [lia|].
    assert (Hk : (length trav + 8 < 8 * k + 8)%nat).
    { subst k. pose proof (Nat.div_mod (length trav + 8) 8). pose proof (Nat.mod_upper_bound (length trav + 8) 8). lia. }
    lia.
  Qed.

  Lemma path_to_bytes_wf trav : wf_bytes (path_to_bytes trav) = true.
  Proof. unfold path_to_bytes. rewrite be_bytes_eq. apply be_bytes_of_wf. Qed.

  Lemma path_bits_path_to_bytes trav : path_bits (path_to_bytes trav) = trav.
  Proof.
    unfold path_bits. rewrite path_to_bytes_value.
    destruct (path_value_bounds trav) as [Hlo Hhi].
    assert (Hpos : path_value trav <> 0).
    { assert (0 < 2 ^ N.of_nat (length trav)) by (apply N.neq_0_lt_0, N.pow_nonzero; lia). lia. }
    rewrite N.size_log2 by exact Hpos.
    rewrite (N.log2_unique (path_value trav) (N.of_nat (length trav))).
    - replace (N.to_nat (N.succ (N.of_nat (length trav))) - 1)%nat with (length trav) by lia.
      apply bits_of_path_value.
    - lia.
    - split; [exact Hlo|]. rewrite <- Nat2N.inj_succ. exact Hhi.
  Qed.

  (* a path found by the search, read by traverse_path against the decoder's stack, is the node *)
  Theorem found_path_valid s stk t len p : Inv s stk ->
    find_path s (th t) len = Ok (Some p) ->
    wf_bytes p = true /\ (exists c, traverse_path p (stack_list stk) = Ok (c, t)) /\
    4 <= len /\ exists path pl, p = path_to_bytes path /\
      atom_length_bits (N.of_nat (length path) + 1) = Some pl /\ pl <= len - 1.
  Proof.
    intros (Hr & _ & Hp) Hf. destruct (find_path_sound _ _ _ _ Hp Hf) as (Hlen & path & -> & Hreach & pl & Hpl & Hle).
    split; [apply path_to_bytes_wf|]. split; [|split; [exact Hlen|exists path, pl; repeat split; assumption]].
    unfold traverse_path. rewrite path_to_bytes_value, path_bits_path_to_bytes.
    destruct (path_value_bounds path) as [Hlo _].
    assert (0 < 2 ^ N.of_nat (length path)) by (apply N.neq_0_lt_0, N.pow_nonzero; lia).
    destruct (N.eqb_spec (path_value path) 0); [lia|].
    destruct (Hreach (stack_list stk) (TRAVERSE_BASE_COST + N.of_nat (first_non_zero (path_to_bytes path)) * TRAVERSE_COST_PER_ZERO_BYTE + TRAVERSE_COST_PER_BIT) (eq_sym Hr)) as (c' & v & Hfo & Hv).
    apply th_inj in Hv. subst v. exists c'. exact Hfo.
  Qed.
End Sound.
