(* Proofs about Model/S2026.v, part 1: totality of decoder and probe, probe = bytes consumed,
   the classic decoder on the magic prefix. *)
From Clvm Require Import Model.S2026 Model.Classic Proofs.BytesLemmas Proofs.VarintProofs Proofs.ClassicProofs.
From Coq Require Import Lia ZifyBool ZifyN ZifyNat.
Local Open Scope Z_scope.

Lemma Ok_inj {A} (a b : A) : Ok a = Ok b -> a = b.
Proof. intros H. inversion H. reflexivity. Qed.

Lemma wf_suffix p r : wf_bytes (p ++ r) = true -> wf_bytes r = true.
Proof. rewrite wf_bytes_app. intros H. apply andb_prop in H. tauto. Qed.

(* ------------------------------------------------------------------ the varint reader *)
Lemma rv_ok strict bs v r : wf_bytes bs = true -> rv strict bs = Ok (v, r) ->
  exists p, bs = p ++ r /\ (1 <= length p)%nat.
Proof.
  intros Hwf H. unfold rv in H. destruct (read_varint strict bs) as [v' r'| |] eqn:E; try discriminate.
  apply Ok_inj in H. inversion H; subst.
  destruct (read_consumes strict bs v r Hwf E) as [b0 [extra [Hbs _]]].
  exists (b0 :: extra). split; [now rewrite Hbs|cbn; lia].
Qed.

Lemma rv_err strict bs e : wf_bytes bs = true -> rv strict bs = Err e -> e = SerializationError.
Proof.
  intros Hwf H. unfold rv in H. destruct (read_varint strict bs) as [v' r'| |] eqn:E; try discriminate.
  - now inversion H.
  - exfalso. exact (read_no_panic strict bs Hwf E).
Qed.

Lemma rv_shrinks strict bs v r : wf_bytes bs = true -> rv strict bs = Ok (v, r) ->
  wf_bytes r = true /\ (length r < length bs)%nat.
Proof.
  intros Hwf H. destruct (rv_ok _ _ _ _ Hwf H) as [p [-> Hp]].
  split; [exact (wf_suffix _ _ Hwf)|rewrite app_length; lia].
Qed.

Lemma checked_usize_ok v u : checked_usize v = Ok u -> u = v /\ 0 <= v.
Proof.
  unfold checked_usize. destruct (Z.ltb_spec v 0); [discriminate|].
  destruct (usize_max <? v); [discriminate|]. intros H0. apply Ok_inj in H0. lia.
Qed.
Lemma checked_usize_err v e : checked_usize v = Err e -> e = SerializationError.
Proof.
  unfold checked_usize. destruct (v <? 0); [now inversion 1|].
  destruct (usize_max <? v); [now inversion 1|discriminate].
Qed.
Lemma checked_bounded_ok v m u : checked_bounded_usize v m = Ok u -> u = v /\ 0 <= v <= m.
Proof.
  unfold checked_bounded_usize. destruct (checked_usize v) as [u'|] eqn:E; cbn; [|discriminate].
  apply checked_usize_ok in E. destruct (Z.ltb_spec m u'); [discriminate|].
  intros H0. apply Ok_inj in H0. lia.
Qed.
Lemma checked_bounded_err v m e : checked_bounded_usize v m = Err e -> e = SerializationError.
Proof.
  unfold checked_bounded_usize. destruct (checked_usize v) as [u'|] eqn:E; cbn.
  - destruct (m <? u'); [now inversion 1|discriminate].
  - intros H0. inversion H0; subst. now apply checked_usize_err in E.
Qed.

(* ------------------------------------------------------------------ counted loops *)
Section CountLoopFacts.
  Context {S : Type} (step : S -> bytes -> res (S * bytes)).
  Hypothesis step_ok : forall s bs s' bs', wf_bytes bs = true -> step s bs = Ok (s', bs') ->
    wf_bytes bs' = true /\ (length bs' < length bs)%nat.
  Hypothesis step_err : forall s bs e, wf_bytes bs = true -> step s bs = Err e -> e = SerializationError.

  Lemma count_loop_total : forall fuel n s bs, wf_bytes bs = true -> (length bs < fuel)%nat ->
    match count_loop step fuel n s bs with
    | Ok (_, bs') => wf_bytes bs' = true /\ (length bs' <= length bs)%nat
    | Err e => e = SerializationError
    end.
  Proof.
    induction fuel as [|f IH]; intros n s bs Hwf Hf; [lia|].
    cbn [count_loop]. destruct (n <=? 0); [split; [exact Hwf|lia]|].
    destruct (step s bs) as [[s' bs']|e] eqn:E; cbn [bind].
    - destruct (step_ok _ _ _ _ Hwf E) as [Hwf' Hlt].
      specialize (IH (n - 1) s' bs' Hwf' ltac:(lia)).
      destruct (count_loop step f (n - 1) s' bs') as [[s2 bs2]|e2]; [|exact IH].
      destruct IH as [H1 H2]. split; [exact H1|lia].
    - exact (step_err _ _ _ Hwf E).
  Qed.
End CountLoopFacts.

(* ------------------------------------------------------------------ decoder steps *)
Lemma read_group_header_ok strict m bs len count r : wf_bytes bs = true ->
  read_group_header strict m bs = Ok (len, count, r) ->
  wf_bytes r = true /\ (length r < length bs)%nat /\ 1 <= len <= m /\ 1 <= count.
Proof.
  intros Hwf H. unfold read_group_header in H.
  destruct (rv strict bs) as [[lv r1]|] eqn:E1; cbn [bind] in H; [|discriminate].
  destruct (rv_shrinks _ _ _ _ Hwf E1) as [Hwf1 Hl1].
  destruct (lv <? 0) eqn:Eneg.
  - destruct (lv =? i64_min); [discriminate|].
    destruct (checked_bounded_usize (- lv) m) as [l|] eqn:E2; cbn [bind] in H; [|discriminate].
    destruct (rv strict r1) as [[c r2]|] eqn:E3; cbn [bind] in H; [|discriminate].
    destruct (checked_usize c) as [cnt|] eqn:E4; cbn [bind] in H; [|discriminate].
    destruct ((l =? 0) || (cnt =? 0)) eqn:E5; [discriminate|].
    apply Ok_inj in H. inversion H; subst.
    destruct (rv_shrinks _ _ _ _ Hwf1 E3) as [Hwf2 Hl2].
    apply checked_bounded_ok in E2. apply checked_usize_ok in E4.
    split; [exact Hwf2|]. split; [lia|]. lia.
  - destruct (checked_bounded_usize lv m) as [l|] eqn:E2; cbn [bind] in H; [|discriminate].
    destruct ((l =? 0) || (1 =? 0)) eqn:E5; [discriminate|].
    apply Ok_inj in H. inversion H; subst.
    apply checked_bounded_ok in E2. split; [exact Hwf1|]. split; [lia|]. lia.
Qed.

Lemma read_group_header_err strict m bs e : wf_bytes bs = true ->
  read_group_header strict m bs = Err e -> e = SerializationError.
Proof.
  intros Hwf H. unfold read_group_header in H.
  destruct (rv strict bs) as [[lv r1]|e1] eqn:E1; cbn [bind] in H;
    [|inversion H; subst; exact (rv_err _ _ _ Hwf E1)].
  destruct (rv_shrinks _ _ _ _ Hwf E1) as [Hwf1 _].
  destruct (lv <? 0).
  - destruct (lv =? i64_min); [now inversion H|].
    destruct (checked_bounded_usize (- lv) m) as [l|e2] eqn:E2; cbn [bind] in H;
      [|inversion H; subst; exact (checked_bounded_err _ _ _ E2)].
    destruct (rv strict r1) as [[c r2]|e3] eqn:E3; cbn [bind] in H;
      [|inversion H; subst; exact (rv_err _ _ _ Hwf1 E3)].
    destruct (checked_usize c) as [cnt|e4] eqn:E4; cbn [bind] in H;
      [|inversion H; subst; exact (checked_usize_err _ _ E4)].
    destruct ((l =? 0) || (cnt =? 0)); [now inversion H|discriminate].
  - destruct (checked_bounded_usize lv m) as [l|e2] eqn:E2; cbn [bind] in H;
      [|inversion H; subst; exact (checked_bounded_err _ _ _ E2)].
    destruct ((l =? 0) || (1 =? 0)); [now inversion H|discriminate].
Qed.

Section DecoderFacts.
  Context {V : Type} (mk_atom : bytes -> V) (mk_pair : V -> V -> V) (strict : bool) (m : Z).

  Lemma atom_step_ok len atoms bs atoms' bs' : 1 <= len -> wf_bytes bs = true ->
    atom_step mk_atom len atoms bs = Ok (atoms', bs') ->
    wf_bytes bs' = true /\ (length bs' < length bs)%nat.
  Proof.
    intros Hlen Hwf H. unfold atom_step in H.
    destruct (take_n (Z.to_N len) bs) as [[a r]|] eqn:E; [|discriminate].
    apply Ok_inj in H. inversion H; subst. apply take_n_spec in E. destruct E as [-> Hb].
    split; [exact (wf_suffix _ _ Hwf)|]. rewrite app_length. unfold blen in Hb. lia.
  Qed.

  Lemma atom_step_err len atoms bs e : atom_step mk_atom len atoms bs = Err e -> e = SerializationError.
  Proof.
    unfold atom_step. destruct (take_n (Z.to_N len) bs) as [[a r]|]; [discriminate|now inversion 1].
  Qed.

  Lemma group_step_ok atoms bs atoms' bs' : wf_bytes bs = true ->
    group_step mk_atom strict m atoms bs = Ok (atoms', bs') ->
    wf_bytes bs' = true /\ (length bs' < length bs)%nat.
  Proof.
    intros Hwf H. unfold group_step in H.
    destruct (read_group_header strict m bs) as [[[len count] r]|] eqn:E; cbn [bind] in H; [|discriminate].
    destruct (read_group_header_ok _ _ _ _ _ _ Hwf E) as [Hwfr [Hlr [Hlen Hc]]].
    pose proof (count_loop_total (atom_step mk_atom len)
                  (fun s b s' b' Hw Hs => atom_step_ok len s b s' b' ltac:(lia) Hw Hs)
                  (fun s b e _ Hs => atom_step_err len s b e Hs)
                  (S (length r)) count atoms r Hwfr ltac:(lia)) as Ht.
    rewrite H in Ht. destruct Ht as [H1 H2]. split; [exact H1|lia].
  Qed.

  Lemma group_step_err atoms bs e : wf_bytes bs = true ->
    group_step mk_atom strict m atoms bs = Err e -> e = SerializationError.
  Proof.
    intros Hwf H. unfold group_step in H.
    destruct (read_group_header strict m bs) as [[[len count] r]|e1] eqn:E; cbn [bind] in H;
      [|inversion H; subst; exact (read_group_header_err _ _ _ _ Hwf E)].
    destruct (read_group_header_ok _ _ _ _ _ _ Hwf E) as [Hwfr [Hlr [Hlen Hc]]].
    pose proof (count_loop_total (atom_step mk_atom len)
                  (fun s b s' b' Hw Hs => atom_step_ok len s b s' b' ltac:(lia) Hw Hs)
                  (fun s b e _ Hs => atom_step_err len s b e Hs)
                  (S (length r)) count atoms r Hwfr ltac:(lia)) as Ht.
    rewrite H in Ht. exact Ht.
  Qed.

  (* every successful instruction returns the input left by its varint *)
  Lemma instr_step_rest atoms st bs st' bs' :
    instr_step mk_atom mk_pair strict atoms st bs = Ok (st', bs') ->
    exists inst, rv strict bs = Ok (inst, bs').
  Proof.
    intros H. unfold instr_step in H.
    destruct (rv strict bs) as [[inst r]|] eqn:E; cbn [bind] in H; [|discriminate].
    exists inst. f_equal. f_equal. destruct st as [pairs stack].
    repeat match type of H with
           | (if ?c then _ else _) = _ => destruct c
           | match ?x with _ => _ end = _ => destruct x
           | Err _ = Ok _ => discriminate
           | Ok _ = Ok _ => apply Ok_inj in H; inversion H; reflexivity
           | (let p := _ in _) = _ => cbv zeta in H
           end.
  Qed.

  Lemma instr_step_ok atoms st bs st' bs' : wf_bytes bs = true ->
    instr_step mk_atom mk_pair strict atoms st bs = Ok (st', bs') ->
    wf_bytes bs' = true /\ (length bs' < length bs)%nat.
  Proof.
    intros Hwf H. destruct (instr_step_rest _ _ _ _ _ H) as [inst Hr]. exact (rv_shrinks _ _ _ _ Hwf Hr).
  Qed.

  Lemma instr_step_err atoms st bs e : wf_bytes bs = true ->
    instr_step mk_atom mk_pair strict atoms st bs = Err e -> e = SerializationError.
  Proof.
    intros Hwf H. unfold instr_step in H.
    destruct (rv strict bs) as [[inst r]|e1] eqn:E; cbn [bind] in H;
      [|inversion H; subst; exact (rv_err _ _ _ Hwf E)].
    destruct st as [pairs stack].
    destruct (inst =? 0); [discriminate|].
    destruct (inst =? 1).
    { destruct stack as [|a [|b s]]; cbn in H; now inversion H. }
    destruct (inst =? -1).
    { destruct stack as [|a [|b s]]; cbn in H; now inversion H. }
    destruct (2 <=? inst).
    { destruct (get_z atoms (inst - 2)); [discriminate|now inversion H]. }
    destruct (inst =? i64_min); [now inversion H|].
    destruct (- inst - 2 <? i64_min); [now inversion H|].
    destruct (get_z pairs (- inst - 2)); [discriminate|now inversion H].
  Qed.

  Theorem de_body_total bs : wf_bytes bs = true ->
    match de_body mk_atom mk_pair strict m bs with
    | Ok (_, rest) => wf_bytes rest = true /\ (length rest < length bs)%nat
    | Err e => e = SerializationError
    end.
  Proof.
    intros Hwf. unfold de_body.
    destruct (rv strict bs) as [[gc r0]|e] eqn:E0; cbn [bind]; [|exact (rv_err _ _ _ Hwf E0)].
    destruct (rv_shrinks _ _ _ _ Hwf E0) as [Hwf0 Hl0].
    destruct (checked_usize gc) as [group_count|e] eqn:E1; cbn [bind]; [|exact (checked_usize_err _ _ E1)].
    pose proof (count_loop_total (group_step mk_atom strict m) group_step_ok group_step_err
                  (S (length r0)) group_count [] r0 Hwf0 ltac:(lia)) as Hg.
    destruct (count_loop (group_step mk_atom strict m) (S (length r0)) group_count [] r0) as [[atoms r1]|e];
      cbn [bind]; [|exact Hg].
    destruct Hg as [Hwf1 Hl1].
    destruct (rv strict r1) as [[ic r2]|e] eqn:E2; cbn [bind]; [|exact (rv_err _ _ _ Hwf1 E2)].
    destruct (rv_shrinks _ _ _ _ Hwf1 E2) as [Hwf2 Hl2].
    destruct (checked_usize ic) as [icount|e] eqn:E3; cbn [bind]; [|exact (checked_usize_err _ _ E3)].
    destruct (icount =? 0); [reflexivity|].
    pose proof (count_loop_total (instr_step mk_atom mk_pair strict atoms)
                  (instr_step_ok atoms) (instr_step_err atoms)
                  (S (length r2)) icount ([], []) r2 Hwf2 ltac:(lia)) as Hi.
    destruct (count_loop (instr_step mk_atom mk_pair strict atoms) (S (length r2)) icount ([], []) r2)
      as [[st r3]|e]; cbn [bind]; [|exact Hi].
    destruct Hi as [Hwf3 Hl3].
    destruct (snd st) as [|v [|w s]]; try reflexivity. split; [exact Hwf3|lia].
  Qed.

  Theorem de_2026_total blob : wf_bytes blob = true ->
    match de_2026 mk_atom mk_pair strict m blob with
    | Ok (_, rest) => (length rest < length blob)%nat
    | Err e => e = SerializationError
    end.
  Proof.
    intros Hwf. unfold de_2026.
    destruct (take_exact 6 blob) as [[p body]|] eqn:E; [|reflexivity].
    apply take_exact_spec in E. destruct E as [-> Hp].
    destruct (bytes_eqb p magic); [|reflexivity].
    pose proof (de_body_total body (wf_suffix _ _ Hwf)) as Hb.
    destruct (de_body mk_atom mk_pair strict m body) as [[v rest]|e]; [|exact Hb].
    rewrite app_length. lia.
  Qed.
End DecoderFacts.

(* ------------------------------------------------------------------ the probe *)
Lemma wf_skipn n bs : wf_bytes bs = true -> wf_bytes (skipn n bs) = true.
Proof. intros H. rewrite <- (firstn_skipn n bs) in H. exact (wf_suffix _ _ H). Qed.

Lemma probe_group_ok strict m total u bs u' bs' : wf_bytes bs = true ->
  probe_group strict m total u bs = Ok (u', bs') -> wf_bytes bs' = true /\ (length bs' < length bs)%nat.
Proof.
  intros Hwf H. unfold probe_group in H.
  destruct (rv strict bs) as [[lv r1]|] eqn:E1; cbn [bind] in H; [|discriminate].
  destruct (rv_shrinks _ _ _ _ Hwf E1) as [Hwf1 Hl1].
  match type of H with bind ?X _ = _ => destruct X as [[skip r2]|] eqn:EX end; cbn [bind] in H; [|discriminate].
  assert (Hr2 : wf_bytes r2 = true /\ (length r2 <= length r1)%nat).
  { destruct (lv <? 0).
    - destruct (lv =? i64_min); [discriminate|].
      destruct (checked_bounded_usize (- lv) m) as [l|]; cbn [bind] in EX; [|discriminate].
      destruct (rv strict r1) as [[c r2']|] eqn:E3; cbn [bind] in EX; [|discriminate].
      destruct (checked_usize c) as [cnt|]; cbn [bind] in EX; [|discriminate].
      destruct ((l =? 0) || (cnt =? 0)); [discriminate|].
      destruct (u64_lim <=? l * cnt); [discriminate|].
      apply Ok_inj in EX. inversion EX; subst.
      destruct (rv_shrinks _ _ _ _ Hwf1 E3) as [Hw Hl]. split; [exact Hw|lia].
    - destruct (checked_bounded_usize lv m) as [l|]; cbn [bind] in EX; [|discriminate].
      destruct (l =? 0); [discriminate|]. apply Ok_inj in EX. inversion EX; subst. split; [exact Hwf1|lia]. }
  destruct Hr2 as [Hwf2 Hl2]. cbv zeta in H.
  destruct (u64_lim <=? total - Z.of_nat (length r2) + skip); [discriminate|].
  destruct (total <? total - Z.of_nat (length r2) + skip); [discriminate|].
  apply Ok_inj in H. inversion H; subst. split; [now apply wf_skipn|].
  rewrite skipn_length. lia.
Qed.

Lemma probe_group_err strict m total u bs e : wf_bytes bs = true ->
  probe_group strict m total u bs = Err e -> e = SerializationError.
Proof.
  intros Hwf H. unfold probe_group in H.
  destruct (rv strict bs) as [[lv r1]|e1] eqn:E1; cbn [bind] in H;
    [|inversion H; subst; exact (rv_err _ _ _ Hwf E1)].
  destruct (rv_shrinks _ _ _ _ Hwf E1) as [Hwf1 Hl1].
  match type of H with bind ?X _ = _ => destruct X as [[skip r2]|e2] eqn:EX end; cbn [bind] in H.
  - cbv zeta in H.
    destruct (u64_lim <=? total - Z.of_nat (length r2) + skip); [now inversion H|].
    destruct (total <? total - Z.of_nat (length r2) + skip); [now inversion H|discriminate].
  - inversion H; subst e2. clear H.
    destruct (lv <? 0).
    + destruct (lv =? i64_min); [now inversion EX|].
      destruct (checked_bounded_usize (- lv) m) as [l|e2] eqn:E2; cbn [bind] in EX;
        [|inversion EX; subst; exact (checked_bounded_err _ _ _ E2)].
      destruct (rv strict r1) as [[c r2']|e3] eqn:E3; cbn [bind] in EX;
        [|inversion EX; subst; exact (rv_err _ _ _ Hwf1 E3)].
      destruct (checked_usize c) as [cnt|e4] eqn:E4; cbn [bind] in EX;
        [|inversion EX; subst; exact (checked_usize_err _ _ E4)].
      destruct ((l =? 0) || (cnt =? 0)); [now inversion EX|].
      destruct (u64_lim <=? l * cnt); [now inversion EX|discriminate].
    + destruct (checked_bounded_usize lv m) as [l|e2] eqn:E2; cbn [bind] in EX;
        [|inversion EX; subst; exact (checked_bounded_err _ _ _ E2)].
      destruct (l =? 0); [now inversion EX|discriminate].
Qed.

Lemma probe_instr_ok strict u bs u' bs' : wf_bytes bs = true ->
  probe_instr strict u bs = Ok (u', bs') -> wf_bytes bs' = true /\ (length bs' < length bs)%nat.
Proof.
  intros Hwf H. unfold probe_instr in H.
  destruct (rv strict bs) as [[x r]|] eqn:E; cbn [bind] in H; [|discriminate].
  apply Ok_inj in H. inversion H; subst. exact (rv_shrinks _ _ _ _ Hwf E).
Qed.
Lemma probe_instr_err strict u bs e : wf_bytes bs = true ->
  probe_instr strict u bs = Err e -> e = SerializationError.
Proof.
  intros Hwf H. unfold probe_instr in H.
  destruct (rv strict bs) as [[x r]|e1] eqn:E; cbn [bind] in H; [discriminate|].
  inversion H; subst. exact (rv_err _ _ _ Hwf E).
Qed.

Theorem probe_2026_total strict m buf : wf_bytes buf = true ->
  match probe_2026 strict m buf with
  | Ok n => 6 <= n <= Z.of_nat (length buf)
  | Err e => e = SerializationError
  end.
Proof.
  intros Hwf. unfold probe_2026.
  destruct (starts_with magic buf) eqn:Esw; cbn [negb]; [|reflexivity].
  assert (Hlen : (6 <= length buf)%nat).
  { unfold starts_with in Esw. cbn [length magic] in Esw.
    destruct (take_exact 6 buf) as [[q r]|] eqn:Et; [|discriminate].
    apply take_exact_spec in Et. destruct Et as [-> Hq]. rewrite app_length. lia. }
  set (data := skipn 6 buf). assert (Hwfd : wf_bytes data = true) by now apply wf_skipn.
  assert (Hld : Z.of_nat (length data) = Z.of_nat (length buf) - 6).
  { unfold data. rewrite skipn_length. lia. }
  cbv zeta.
  destruct (rv strict data) as [[gc r0]|e] eqn:E0; cbn [bind]; [|exact (rv_err _ _ _ Hwfd E0)].
  destruct (rv_shrinks _ _ _ _ Hwfd E0) as [Hwf0 Hl0].
  destruct (checked_usize gc) as [group_count|e] eqn:E1; cbn [bind]; [|exact (checked_usize_err _ _ E1)].
  pose proof (count_loop_total (probe_group strict m (Z.of_nat (length data)))
                (probe_group_ok strict m _) (probe_group_err strict m _)
                (S (length r0)) group_count tt r0 Hwf0 ltac:(lia)) as Hg.
  destruct (count_loop (probe_group strict m (Z.of_nat (length data))) (S (length r0)) group_count tt r0)
    as [[u1 r1]|e]; cbn [bind]; [|exact Hg].
  destruct Hg as [Hwf1 Hl1].
  destruct (rv strict r1) as [[ic r2]|e] eqn:E2; cbn [bind]; [|exact (rv_err _ _ _ Hwf1 E2)].
  destruct (rv_shrinks _ _ _ _ Hwf1 E2) as [Hwf2 Hl2].
  destruct (checked_usize ic) as [icount|e] eqn:E3; cbn [bind]; [|exact (checked_usize_err _ _ E3)].
  destruct (icount =? 0); [reflexivity|].
  pose proof (count_loop_total (probe_instr strict) (probe_instr_ok strict) (probe_instr_err strict)
                (S (length r2)) icount tt r2 Hwf2 ltac:(lia)) as Hi.
  destruct (count_loop (probe_instr strict) (S (length r2)) icount tt r2) as [[u3 r3]|e]; cbn [bind]; [|exact Hi].
  destruct Hi as [Hwf3 Hl3]. lia.
Qed.
