(* Back-reference format: basic facts about the path reader, and the generic lock-step
   simulation between two instances of the ParseOp loop [br_loop]. *)
From Clvm Require Import Model.BackRef Proofs.BytesLemmas Proofs.DecoderGeneric Proofs.ClassicProofs.
From Coq Require Import Lia ZifyBool ZifyN ZifyNat.
Open Scope N_scope.
Arguments N.add : simpl never.
Arguments N.sub : simpl never.
Arguments N.mul : simpl never.
Arguments N.eqb : simpl never.
Arguments N.ltb : simpl never.
Arguments N.leb : simpl never.

Lemma Ok_inj {A} (a b : A) : Ok a = Ok b -> a = b.
Proof. intros H. injection H as H. exact H. Qed.
Lemma Err_inj {A} (a b : errkind) : @Err A a = Err b -> a = b.
Proof. intros H. injection H as H. exact H. Qed.

Lemma take_n_shrinks n l a b : take_n n l = Some (a, b) -> (length b <= length l)%nat.
Proof.
  unfold take_n. destruct (n <=? blen l); [|discriminate].
  intros H. injection H as <- <-. rewrite skipn_length. lia.
Qed.

Lemma parse_atom_ptr_shrinks b r p r' : parse_atom_ptr b r = Ok (p, r') -> (length r' <= length r)%nat.
Proof.
  unfold parse_atom_ptr. destruct (b <=? 127).
  - intros H. injection H as _ <-. lia.
  - destruct (decode_size b r) as [[s r0]|] eqn:E; cbn; [|discriminate].
    destruct (take_n s r0) as [[blob r1]|] eqn:T; [|discriminate].
    intros H. injection H as _ <-. apply decode_size_shrinks in E. apply take_n_shrinks in T. lia.
Qed.

Lemma parse_atom_ptr_err b r e : parse_atom_ptr b r = Err e -> ~ bad_err e.
Proof.
  unfold parse_atom_ptr. destruct (b <=? 127); [discriminate|].
  destruct (decode_size b r) as [[s r0]|] eqn:E; cbn.
  - destruct (take_n s r0) as [[blob r1]|]; [discriminate|].
    intros H. injection H as <-. intros [Hc|[n Hc]]; discriminate.
  - intros H. injection H as <-. apply decode_size_err in E.
    intros [Hc|[n Hc]]; destruct E as [->|[-> _]]; discriminate.
Qed.

(* a path consumes at least its first byte *)
Lemma parse_path_shrinks bs p r' : parse_path bs = Ok (p, r') -> (length r' < length bs)%nat.
Proof.
  destruct bs as [|b r]; cbn; [discriminate|]. intros H. apply parse_atom_ptr_shrinks in H. lia.
Qed.

Lemma parse_path_err bs e : parse_path bs = Err e -> ~ bad_err e.
Proof.
  destruct bs as [|b r]; cbn.
  - intros H. injection H as <-. intros [Hc|[n Hc]]; discriminate.
  - apply parse_atom_ptr_err.
Qed.

Lemma follow_err bits t c e : follow bits t c = Err e -> e = PathIntoAtom.
Proof.
  revert t c. induction bits as [|b bits IH]; intros t c; cbn; [discriminate|].
  destruct t as [a|l r]; [intros H; injection H as <-; reflexivity|]. apply IH.
Qed.

Lemma traverse_path_err p t e : traverse_path p t = Err e -> e = PathIntoAtom.
Proof.
  unfold traverse_path. destruct (be_value p =? 0); [discriminate|]. apply follow_err.
Qed.

Lemma backref_lookup_err p stk e : backref_lookup p stk = Err e -> e = PathIntoAtom.
Proof.
  unfold backref_lookup. destruct (traverse_path p (stack_list stk)) as [[c t]|e'] eqn:E; cbn; [discriminate|].
  intros H. injection H as <-. eapply traverse_path_err; eassumption.
Qed.

(* ------------------------------------------------------------------ lock-step simulation *)
Section Sim.
  Context {S1 S2 : Type}.
  Variable at1 : N -> bytes -> S1 -> res (S1 * bytes).
  Variable br1 : bytes -> S1 -> res (S1 * bytes).
  Variable cs1 : S1 -> res S1.
  Variable at2 : N -> bytes -> S2 -> res (S2 * bytes).
  Variable br2 : bytes -> S2 -> res (S2 * bytes).
  Variable cs2 : S2 -> res S2.
  Variable R : S1 -> S2 -> Prop.
  Variable E : errkind -> errkind -> Prop.

  Definition rel_step (x : res (S1 * bytes)) (y : res (S2 * bytes)) : Prop :=
    match x, y with
    | Ok (s1, r1), Ok (s2, r2) => R s1 s2 /\ r1 = r2
    | Err e1, Err e2 => E e1 e2
    | _, _ => False
    end.
  Definition rel_cons (x : res S1) (y : res S2) : Prop :=
    match x, y with
    | Ok s1, Ok s2 => R s1 s2
    | Err e1, Err e2 => E e1 e2
    | _, _ => False
    end.
  Definition rel_status (x y : res bytes) : Prop :=
    match x, y with
    | Ok r1, Ok r2 => r1 = r2
    | Err e1, Err e2 => E e1 e2
    | _, _ => False
    end.
  Definition rel_out (x : S1 * res bytes) (y : S2 * res bytes) : Prop :=
    R (fst x) (fst y) /\ rel_status (snd x) (snd y).

  Hypothesis H_at : forall b r s1 s2, R s1 s2 -> rel_step (at1 b r s1) (at2 b r s2).
  Hypothesis H_br : forall r s1 s2, R s1 s2 -> rel_step (br1 r s1) (br2 r s2).
  Hypothesis H_cs : forall s1 s2, R s1 s2 -> rel_cons (cs1 s1) (cs2 s2).
  Hypothesis E_fuel : E OutOfFuel OutOfFuel.
  Hypothesis E_ser : E SerializationError SerializationError.

  Lemma br_loop_sim : forall f ops s1 s2 bs, R s1 s2 ->
    rel_out (br_loop at1 br1 cs1 f ops s1 bs) (br_loop at2 br2 cs2 f ops s2 bs).
  Proof.
    induction f as [|f IH]; intros ops s1 s2 bs HR; cbn [br_loop].
    - split; [exact HR|exact E_fuel].
    - destruct ops as [|[|] ops'].
      + split; [exact HR|reflexivity].
      + destruct bs as [|b r]; [split; [exact HR|exact E_ser]|].
        destruct (b =? 255); [apply IH; exact HR|].
        destruct (b =? 254).
        * pose proof (H_br r s1 s2 HR) as Hs. unfold rel_step in Hs.
          destruct (br1 r s1) as [[s1' r1]|e1], (br2 r s2) as [[s2' r2]|e2]; try contradiction.
          -- destruct Hs as [HR' <-]. apply IH; exact HR'.
          -- split; [exact HR|exact Hs].
        * pose proof (H_at b r s1 s2 HR) as Hs. unfold rel_step in Hs.
          destruct (at1 b r s1) as [[s1' r1]|e1], (at2 b r s2) as [[s2' r2]|e2]; try contradiction.
          -- destruct Hs as [HR' <-]. apply IH; exact HR'.
          -- split; [exact HR|exact Hs].
      + pose proof (H_cs s1 s2 HR) as Hs. unfold rel_cons in Hs.
        destruct (cs1 s1) as [s1'|e1], (cs2 s2) as [s2'|e2]; try contradiction.
        * apply IH; exact Hs.
        * split; [exact HR|exact Hs].
  Qed.
End Sim.
