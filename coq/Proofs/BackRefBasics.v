(* Back-reference format: basic facts about the path reader and the stack-as-a-list. *)
From Clvm Require Import Model.BackRef Proofs.BytesLemmas.
From Coq Require Import Lia ZifyBool ZifyN ZifyNat.
Open Scope N_scope.
Arguments N.add : simpl never.
Arguments N.sub : simpl never.
Arguments N.mul : simpl never.
Arguments N.eqb : simpl never.
Arguments N.ltb : simpl never.
Arguments N.leb : simpl never.

Lemma take_n_shrinks n l a b : take_n n l = Some (a, b) -> (length b <= length l)%nat.
Proof.
  unfold take_n. destruct (n <=? blen l); [|discriminate].
  intros H. injection H as <- <-. rewrite skipn_length. lia.
Qed.

Lemma decode_size_with_offset_shrinks b r k s r' :
  decode_size_with_offset b r = Ok (k, s, r') -> (length r' <= length r)%nat.
Proof.
  unfold decode_size_with_offset.
  destruct (N.land b 128 =? 0); [discriminate|].
  destruct (8 <=? leading_ones8 b); [discriminate|].
  destruct (take_exact _ r) as [[more rest]|] eqn:E; [|discriminate].
  destruct (6 <? leading_ones8 b); [discriminate|].
  destruct (17179869184 <=? _); [discriminate|].
  intros H. injection H as _ _ <-. apply take_exact_spec in E. destruct E as [-> _].
  rewrite app_length. lia.
Qed.

Lemma decode_size_shrinks b r s r' : decode_size b r = Ok (s, r') -> (length r' <= length r)%nat.
Proof.
  unfold decode_size. destruct (decode_size_with_offset b r) as [[[k s0] r0]|] eqn:E; cbn; [|discriminate].
  intros H. injection H as _ <-. eapply decode_size_with_offset_shrinks; eassumption.
Qed.

Lemma parse_atom_ptr_shrinks b r p r' : parse_atom_ptr b r = Ok (p, r') -> (length r' <= length r)%nat.
Proof.
  unfold parse_atom_ptr. destruct (b <=? 127).
  - intros H. injection H as _ <-. lia.
  - destruct (decode_size b r) as [[s r0]|] eqn:E; cbn; [|discriminate].
    destruct (take_n s r0) as [[blob r1]|] eqn:T; [|discriminate].
    intros H. injection H as _ <-. apply decode_size_shrinks in E. apply take_n_shrinks in T. lia.
Qed.

(* a path consumes at least its first byte *)
Lemma parse_path_shrinks bs p r' : parse_path bs = Ok (p, r') -> (length r' < length bs)%nat.
Proof.
  destruct bs as [|b r]; cbn; [discriminate|]. intros H. apply parse_atom_ptr_shrinks in H. lia.
Qed.
