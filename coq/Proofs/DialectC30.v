(* C30: RuntimeDialect built from the standard operator-name table vs ChiaDialect.
   The two dispatch functions are compared opcode by opcode (one-byte opcodes by a finite case
   analysis, multi-byte opcodes structurally); a "common" barrier dialect that fails with
   Err Unsupported on every opcode the two do not share (and on the softfork keyword) is a
   restriction of both, so by the lock-step theorem of MachineRestrict every run that does not
   hit the barrier has the same outcome on both dialects. *)
From Coq Require Import Lia ZifyBool ZifyN ZifyNat.
From Clvm Require Import Model.Dialect Proofs.MachineBasics Proofs.MachineRestrict.
Open Scope N_scope.

Definition RUNTIME_CODES : list N :=
  [3; 4; 5; 6; 7; 8; 9; 10; 11; 12; 13; 14; 16; 17; 18; 19; 20; 21; 22; 23; 24; 25; 26; 27; 29; 30; 32; 33; 34;
   49; 50; 51; 52; 53; 54; 55; 56; 57; 58; 59; 60; 61].
Definition CHIA_EXTRA_CODES : list N := [48; 62; 63; 64; 65].

Definition inb (x : N) (l : list N) : bool := existsb (N.eqb x) l.

(* opcodes on which the two dialects agree under [flags] (DISABLE_OP off) *)
Definition common_b (flags : flagset) (b : bytes) : bool :=
  match b with
  | [x] =>
      if inb x RUNTIME_CODES then true
      else if x =? 48 then false
      else if x =? 62 then negb (f_keccak_outside_guard flags)
      else if x =? 63 then negb (f_sha256_tree flags)
      else if (x =? 64) || (x =? 65) then negb (f_secp_ops flags)
      else true
  | _ => negb (bytes_eqb b SECP256K1_OPCODE || bytes_eqb b SECP256R1_OPCODE)
  end.

Ltac crackN x :=
  destruct x as [|x]; [try reflexivity; try discriminate|];
  repeat (destruct x as [x|x|]; try reflexivity; try discriminate).

Lemma runtime_table_none P x : inb x RUNTIME_CODES = false -> runtime_table P x = None.
Proof. unfold runtime_table, inb, RUNTIME_CODES. cbn [existsb]. intros H. crackN x. Qed.

Lemma chia_table_none P flags x : inb x RUNTIME_CODES = false -> inb x CHIA_EXTRA_CODES = false ->
  chia_table P flags x = None.
Proof. unfold chia_table, inb, RUNTIME_CODES, CHIA_EXTRA_CODES. cbn [existsb]. intros H H2. crackN x. Qed.

Lemma tables_agree P flags x : f_disable_op flags = false -> inb x RUNTIME_CODES = true ->
  exists f, chia_table P flags x = Some (Ok f) /\ runtime_table P x = Some f.
Proof.
  intros Hd H. unfold inb, RUNTIME_CODES in H. cbn [existsb] in H.
  repeat (apply orb_prop in H; destruct H as [H|H];
          [apply N.eqb_eq in H; subst x; unfold chia_table; try rewrite Hd; cbn [andb]; eexists; split; reflexivity|]).
  discriminate.
Qed.

Lemma small_number_byte x : small_number (Atom [x]) = if (x =? 0) || (128 <=? x) then None else Some x.
Proof.
  unfold small_number. cbn [length Nat.ltb Nat.leb canonical_int].
  destruct (x =? 0) eqn:Z; cbn [negb orb]; [reflexivity|].
  destruct (128 <=? x) eqn:L; [reflexivity|].
  unfold be_value; cbn [be_acc]. replace (256 * 0 + x) with x by lia.
  destruct (x <? 67108864) eqn:B; [reflexivity|lia].
Qed.

Lemma codes_small x : inb x RUNTIME_CODES = true \/ inb x CHIA_EXTRA_CODES = true -> (x =? 0) || (128 <=? x) = false.
Proof.
  unfold inb, RUNTIME_CODES, CHIA_EXTRA_CODES. cbn [existsb]. intros [H|H];
  repeat (apply orb_prop in H; destruct H as [H|H]; [apply N.eqb_eq in H; subst x; reflexivity|]); discriminate.
Qed.

Lemma dispatch_agree P flags b a m ext : f_disable_op flags = false -> common_b flags b = true ->
  chia_op P true flags (Atom b) a m OsDefault = runtime_op P flags (Atom b) a m ext.
Proof.
  intros Hd Hc. unfold chia_op, runtime_op. cbn [op_flags].
  destruct b as [|x [|y r]].
  - reflexivity.
  - cbn [length Nat.eqb negb]. rewrite small_number_byte.
    unfold common_b in Hc.
    destruct (inb x RUNTIME_CODES) eqn:R.
    + rewrite (codes_small x (or_introl R)).
      destruct (tables_agree P flags x Hd R) as (f & -> & ->). reflexivity.
    + rewrite (runtime_table_none P x R).
      destruct ((x =? 0) || (128 <=? x)); [reflexivity|].
      destruct (inb x CHIA_EXTRA_CODES) eqn:X.
      * (* a ChiaDialect-only opcode: common only when its flag is off, and then it is unknown *)
        unfold inb, CHIA_EXTRA_CODES in X. cbn [existsb] in X.
        destruct (x =? 48) eqn:E48; [discriminate|].
        destruct (x =? 62) eqn:E62.
        { apply N.eqb_eq in E62; subst x. unfold chia_table. destruct (f_keccak_outside_guard flags); [discriminate|reflexivity]. }
        destruct (x =? 63) eqn:E63.
        { apply N.eqb_eq in E63; subst x. unfold chia_table. destruct (f_sha256_tree flags); [discriminate|reflexivity]. }
        destruct (x =? 64) eqn:E64.
        { apply N.eqb_eq in E64; subst x. unfold chia_table. destruct (f_secp_ops flags); [discriminate|reflexivity]. }
        destruct (x =? 65) eqn:E65.
        { apply N.eqb_eq in E65; subst x. unfold chia_table. destruct (f_secp_ops flags); [discriminate|reflexivity]. }
        cbn in X. discriminate.
      * rewrite (chia_table_none P flags x R X). reflexivity.
  - (* two or more bytes *)
    unfold common_b in Hc. apply negb_true_iff in Hc. apply orb_false_iff in Hc as [H1 H2].
    cbn [andb]. rewrite H1, H2.
    destruct (length (x :: y :: r) =? 4)%nat; [reflexivity|].
    destruct (negb (length (x :: y :: r) =? 1)%nat) eqn:L; [reflexivity|].
    cbn in L. discriminate.
Qed.

(* the barrier dialect *)
Definition NO_KEYWORD : N := 67108864.     (* 2^26: small_number never returns it *)

Definition common_op (P : prims) (flags : flagset) (o a : sexp) (m : N) (ext : opset) : res (N * sexp) :=
  match ext, o with
  | OsDefault, Atom b =>
      if common_b flags b && negb (bytes_eqb b [36]) then runtime_op P flags o a m ext
      else Err Unsupported
  | _, _ => Err Unsupported
  end.

Definition common_dialect (P : prims) (flags : flagset) : dialect :=
  {| d_flags := flags; d_quote := 1; d_apply := 2; d_softfork := NO_KEYWORD;
     d_ext := fun _ => OsDefault;
     d_allow_unknown := negb (f_no_unknown_ops flags);
     d_gc := fun _ => false;
     d_op := common_op P flags |}.

Lemma small_number_lt t v : small_number t = Some v -> v < 67108864.
Proof.
  unfold small_number. destruct t as [b|]; [|discriminate].
  destruct (_ <? _)%nat; [discriminate|]. destruct (canonical_int b); [|discriminate].
  destruct b as [|x r]; [intros H; injection H as <-; lia|].
  destruct (128 <=? x); [discriminate|]. destruct (_ <? 67108864) eqn:L; [|discriminate].
  intros H; injection H as <-. lia.
Qed.

Lemma is_kw_no_keyword t : is_kw t NO_KEYWORD = false.
Proof.
  unfold is_kw. destruct (small_number t) as [v|] eqn:S; [|reflexivity].
  apply small_number_lt in S. unfold NO_KEYWORD. lia.
Qed.

Lemma is_kw_36 t : is_kw t 36 = true -> t = Atom [36].
Proof.
  unfold is_kw, small_number. destruct t as [b|]; [|discriminate].
  destruct b as [|x [|y r]].
  - cbn. discriminate.
  - cbn [length Nat.ltb Nat.leb canonical_int].
    destruct (negb (x =? 0)); [|discriminate]. destruct (128 <=? x); [discriminate|].
    unfold be_value; cbn [be_acc]. replace (256 * 0 + x) with x by lia.
    destruct (x <? 67108864); [|discriminate]. intros H. apply N.eqb_eq in H. subst. reflexivity.
  - destruct (_ <? _)%nat; [discriminate|]. destruct (canonical_int _) eqn:C; [|discriminate].
    destruct (128 <=? x) eqn:L; [discriminate|]. destruct (_ <? 67108864); [|discriminate].
    intros H. apply N.eqb_eq in H.
    (* a canonical encoding with two or more bytes has value >= 128 *)
    exfalso. cbn [canonical_int] in C. unfold be_value in H. cbn [be_acc] in H.
    assert (G : forall l acc, acc <= be_acc acc l).
    { induction l as [|z l IH]; intros acc; cbn [be_acc]; [lia|]. specialize (IH (256 * acc + z)). lia. }
    specialize (G r (256 * (256 * 0 + x) + y)).
    destruct (x =? 0) eqn:Z; cbn [andb orb negb] in C.
    + destruct (y <? 128) eqn:Y; [discriminate|]. lia.
    + lia.
Qed.

Section C30.
  Variable P : prims.
  Variable flags : flagset.
  Hypothesis Hgc : f_enable_gc flags = false.
  Hypothesis Hdis : f_disable_op flags = false.
  Hypothesis Hnorm : dialect_flags flags = flags.

  Definition barrier (e : errkind) : Prop := e = Unsupported.

  Lemma common_barred d2 : d_softfork d2 = 36 -> guards_barred (common_dialect P flags) d2 barrier.
  Proof.
    intros H36. split.
    - intros opr. apply is_kw_no_keyword.
    - intros opr a m ext K. rewrite H36 in K. apply is_kw_36 in K. subst opr.
      exists Unsupported. split; [|reflexivity].
      cbn [d_op common_dialect]. unfold common_op. destruct ext; reflexivity.
  Qed.

  Lemma common_vs_runtime fuel p e M :
    rr barrier (run_program (common_dialect P flags) fuel p e M) (run_program (runtime_dialect P flags) fuel p e M).
  Proof.
    apply run_program_rel; try reflexivity.
    - intros o a m ext. cbn [d_op common_dialect runtime_dialect]. unfold common_op.
      destruct ext; try (left; reflexivity). destruct o as [b|]; [|left; reflexivity].
      destruct (_ && _)%bool; [apply rr_refl|left; reflexivity].
    - left. apply common_barred. reflexivity.
  Qed.

  Lemma common_vs_chia fuel p e M :
    rr barrier (run_program (common_dialect P flags) fuel p e M) (run_program (chia_dialect P flags) fuel p e M).
  Proof.
    apply run_program_rel; try reflexivity.
    - intros o. cbn [d_gc common_dialect chia_dialect]. rewrite Hnorm. unfold gc_candidate. rewrite Hgc. reflexivity.
    - intros o a m ext. cbn [d_op common_dialect chia_dialect]. rewrite Hnorm. unfold common_op.
      destruct ext; try (left; reflexivity). destruct o as [b|]; [|left; reflexivity].
      destruct (common_b flags b && negb (bytes_eqb b [36]))%bool eqn:C; [|left; reflexivity].
      apply andb_prop in C as [C _].
      rewrite (dispatch_agree P flags b a m OsDefault Hdis C). apply rr_refl.
    - left. apply common_barred. reflexivity.
  Qed.

  Theorem runtime_matches_chia fuel p e M :
    run_program (common_dialect P flags) fuel p e M <> Err Unsupported ->
    run_program (runtime_dialect P flags) fuel p e M = run_program (common_dialect P flags) fuel p e M /\
    run_program (chia_dialect P flags) fuel p e M = run_program (common_dialect P flags) fuel p e M.
  Proof.
    intros H. pose proof (common_vs_runtime fuel p e M) as R1. pose proof (common_vs_chia fuel p e M) as R2.
    destruct (run_program (common_dialect P flags) fuel p e M) as [r|err]; cbn in R1, R2.
    - split; assumption.
    - destruct R1 as [B|R1]; [unfold barrier in B; subst; contradiction|].
      destruct R2 as [B|R2]; [unfold barrier in B; subst; contradiction|]. split; assumption.
  Qed.
End C30.
