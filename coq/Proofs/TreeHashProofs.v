(* Every modelled tree hasher computes the recursive [treehash], for any function H (C22). *)
From Clvm Require Import Model.TreeHashOp Model.Classic Proofs.BytesLemmas Proofs.InternProofs.
From Coq Require Import Lia ZifyBool ZifyN ZifyNat.
Local Open Scope N_scope.

Section Proofs.
  Variable H : bytes -> bytes.
  Variable table : list bytes.
  Notation th := (treehash H).

  (* ---------------------------------------------------------------- tree_hash_costed *)
  Definition table_ok : Prop := forall i h, get_n table i = Some h -> h = H (1 :: small_bytes i).

  Fixpoint tree_cost (cpb : N) (t : rtree) : N :=
    match t with
    | RBuf b => (blen b + 1) * cpb
    | RSmall v => (blen (small_bytes v) + 1) * cpb
    | RPair l r => SHA256TREE_PAIR_COST + tree_cost cpb r + tree_cost cpb l
    end.

  Lemma get_n_some {A} (l : list A) i : i < N.of_nat (length l) -> exists x, get_n l i = Some x.
  Proof.
    intros Hi. unfold get_n. destruct (N.ltb_spec i (N.of_nat (length l))); [|lia].
    destruct (nth_error l (N.to_nat i)) as [x|] eqn:E; [now exists x|].
    apply nth_error_None in E. lia.
  Qed.

  Lemma thc_loop_spec : table_ok -> forall t cpb max ops hashes cost fuel,
    thc_loop H table (steps t + fuel) cpb max (TSExp t :: ops) hashes cost =
      if max <? cost + tree_cost cpb t then Err CostExceeded
      else thc_loop H table fuel cpb max ops (th (erase t) :: hashes) (cost + tree_cost cpb t).
  Proof.
    intros Htab. induction t as [b|v|l IHl r IHr]; intros cpb max ops hashes cost fuel.
    - change (steps (RBuf b) + fuel)%nat with (S fuel). cbn [thc_loop tree_cost erase treehash]. reflexivity.
    - change (steps (RSmall v) + fuel)%nat with (S fuel). cbn [thc_loop tree_cost erase treehash].
      cbv zeta. destruct (max <? cost + (blen (small_bytes v) + 1) * cpb); [reflexivity|].
      destruct (N.ltb_spec v (N.of_nat (length table))) as [Hlt|Hge]; [|reflexivity].
      destruct (get_n_some table v Hlt) as [h Eh]. rewrite Eh. rewrite (Htab v h Eh). reflexivity.
    - change (steps (RPair l r) + fuel)%nat with (S (S (steps l + steps r) + fuel)).
      cbn [thc_loop tree_cost erase treehash]. cbv zeta.
      replace (S (steps l + steps r) + fuel)%nat with (steps r + (steps l + S fuel))%nat by lia.
      destruct (N.ltb_spec max (cost + SHA256TREE_PAIR_COST)) as [H1|H1].
      { destruct (N.ltb_spec max (cost + (SHA256TREE_PAIR_COST + tree_cost cpb r + tree_cost cpb l))); [reflexivity|lia]. }
      rewrite IHr.
      destruct (N.ltb_spec max (cost + SHA256TREE_PAIR_COST + tree_cost cpb r)) as [H2|H2].
      { destruct (N.ltb_spec max (cost + (SHA256TREE_PAIR_COST + tree_cost cpb r + tree_cost cpb l))); [reflexivity|lia]. }
      rewrite IHl.
      destruct (N.ltb_spec max (cost + SHA256TREE_PAIR_COST + tree_cost cpb r + tree_cost cpb l)) as [H3|H3].
      { destruct (N.ltb_spec max (cost + (SHA256TREE_PAIR_COST + tree_cost cpb r + tree_cost cpb l))); [reflexivity|lia]. }
      destruct (N.ltb_spec max (cost + (SHA256TREE_PAIR_COST + tree_cost cpb r + tree_cost cpb l))); [lia|].
      cbn [thc_loop]. unfold hash_pair.
      replace (cost + SHA256TREE_PAIR_COST + tree_cost cpb r + tree_cost cpb l)
        with (cost + (SHA256TREE_PAIR_COST + tree_cost cpb r + tree_cost cpb l)) by lia.
      reflexivity.
  Qed.

  Definition native_cost (new_cost_model : bool) (t : rtree) : N :=
    SHA256TREE_BASE_COST
    + tree_cost (if new_cost_model then NEW_SHA256TREE_COST_PER_BYTE else SHA256TREE_COST_PER_BYTE) t
    + MALLOC_COST_PER_BYTE * 32.

  Theorem tree_hash_costed_spec : table_ok -> forall ncm t max,
    tree_hash_costed H table ncm t max =
      if max <? native_cost ncm t then Err CostExceeded else Ok (native_cost ncm t, th (erase t)).
  Proof.
    intros Htab ncm t max. unfold tree_hash_costed, native_cost.
    set (cpb := if ncm then NEW_SHA256TREE_COST_PER_BYTE else SHA256TREE_COST_PER_BYTE).
    replace (S (steps t)) with (steps t + 1)%nat by lia. rewrite (thc_loop_spec Htab).
    destruct (N.ltb_spec max (SHA256TREE_BASE_COST + tree_cost cpb t)) as [H1|H1]; cbn [bind].
    - destruct (N.ltb_spec max (SHA256TREE_BASE_COST + tree_cost cpb t + MALLOC_COST_PER_BYTE * 32)); [reflexivity|lia].
    - cbn [thc_loop bind]. reflexivity.
  Qed.

  (* ---------------------------------------------------------------- arenas *)
  Lemma build_pairs_key atoms ps : forall pts, build_pairs atoms [] ps = Some pts ->
    length pts = length ps /\
    forall j l r, nth_error ps j = Some (l, r) ->
      exists a b, node_tree atoms pts l = Some a /\ node_tree atoms pts r = Some b /\
                  nth_error pts j = Some (Cons a b).
  Proof.
    induction ps as [|[l0 r0] ps IH] using rev_ind; intros pts Hb.
    - cbn in Hb. inversion Hb; subst. split; [reflexivity|]. intros j l r Hj. destruct j; discriminate.
    - rewrite build_pairs_snoc in Hb.
      destruct (build_pairs atoms [] ps) as [pts'|] eqn:E; [|discriminate].
      destruct (node_tree atoms pts' l0) as [a0|] eqn:El; [|discriminate].
      destruct (node_tree atoms pts' r0) as [b0|] eqn:Er; [|discriminate].
      inversion Hb; subst pts. destruct (IH pts' eq_refl) as [Hlen Hkey].
      split; [rewrite !app_length, Hlen; reflexivity|].
      intros j l r Hj.
      destruct (Nat.lt_ge_cases j (length ps)) as [Hlt|Hge].
      + rewrite nth_error_app1 in Hj by exact Hlt.
        destruct (Hkey j l r Hj) as [a [b [Ha [Hb' Hp]]]]. exists a, b. split; [|split].
        * pose proof (node_tree_ext _ _ [] [Cons a0 b0] _ _ Ha) as Hx. now rewrite app_nil_r in Hx.
        * pose proof (node_tree_ext _ _ [] [Cons a0 b0] _ _ Hb') as Hx. now rewrite app_nil_r in Hx.
        * now apply nth_error_ext.
      + rewrite nth_error_app2 in Hj by exact Hge.
        destruct (j - length ps)%nat as [|d] eqn:Ed; [|destruct d; discriminate].
        cbn in Hj. inversion Hj; subst l r.
        assert (j = length pts') by lia. subst j.
        exists a0, b0. split; [|split].
        * pose proof (node_tree_ext _ _ [] [Cons a0 b0] _ _ El) as Hx. now rewrite app_nil_r in Hx.
        * pose proof (node_tree_ext _ _ [] [Cons a0 b0] _ _ Er) as Hx. now rewrite app_nil_r in Hx.
        * apply nth_error_snoc_len.
  Qed.

  Section Arena.
    Variable it : itree.
    Variable pts : list sexp.
    Hypothesis Hpts : pair_trees it = Some pts.
    Notation NT := (node_tree (it_atoms it) pts).

    Lemma NT_atom n b : NT n = Some (Atom b) -> exists i, n = IA i /\ nth_error (it_atoms it) i = Some b.
    Proof.
      destruct n as [i|j]; cbn; intros Hn.
      - destruct (nth_error (it_atoms it) i) as [c|] eqn:E; [|discriminate]. inversion Hn; subst. now exists i.
      - exfalso. destruct (build_pairs_key _ _ _ Hpts) as [Hlen Hkey].
        assert (Hj : (j < length (it_pairs it))%nat) by (rewrite <- Hlen; apply nth_error_Some; now rewrite Hn).
        destruct (nth_error (it_pairs it) j) as [[l r]|] eqn:E; [|apply nth_error_Some in Hj; contradiction].
        destruct (Hkey j l r E) as [a [b' [_ [_ Hp]]]]. congruence.
    Qed.

    Lemma NT_pair n tl tr : NT n = Some (Cons tl tr) ->
      exists j l r, n = IP j /\ nth_error (it_pairs it) j = Some (l, r) /\ NT l = Some tl /\ NT r = Some tr.
    Proof.
      destruct n as [i|j]; cbn; intros Hn.
      - destruct (nth_error (it_atoms it) i); discriminate.
      - destruct (build_pairs_key _ _ _ Hpts) as [Hlen Hkey].
        assert (Hj : (j < length (it_pairs it))%nat) by (rewrite <- Hlen; apply nth_error_Some; now rewrite Hn).
        destruct (nth_error (it_pairs it) j) as [[l r]|] eqn:E; [|apply nth_error_Some in Hj; contradiction].
        destruct (Hkey j l r E) as [a [b [Ha [Hb Hp]]]].
        assert (a = tl /\ b = tr) as [-> ->] by (split; congruence).
        exists j, l, r. repeat split; assumption.
    Qed.

    Definition cache_ok (c : list (inode * bytes)) : Prop :=
      forall n h, lookup n c = Some h -> exists t, NT n = Some t /\ h = th t.
    Definition cache_le (c c' : list (inode * bytes)) : Prop :=
      forall n h, lookup n c = Some h -> lookup n c' = Some h.

    Lemma inode_eqb_refl n : inode_eqb n n = true.
    Proof. now apply inode_eqb_eq. Qed.

    Lemma cache_add n h c t : cache_ok c -> NT n = Some t -> h = th t ->
      cache_ok ((n, h) :: c) /\ cache_le c ((n, h) :: c) /\ lookup n ((n, h) :: c) = Some h.
    Proof.
      intros Hok Hn Hh. split; [|split].
      - intros m g Hm. cbn in Hm. destruct (inode_eqb m n) eqn:E.
        + apply inode_eqb_eq in E. subst m. inversion Hm; subst g. now exists t.
        + now apply Hok.
      - intros m g Hm. cbn. destruct (inode_eqb m n) eqn:E; [|exact Hm].
        apply inode_eqb_eq in E. subst m. destruct (Hok _ _ Hm) as [t' [Ht' ->]]. congruence.
      - cbn. now rewrite inode_eqb_refl.
    Qed.

    (* ObjectCache: one node on top of the work stack *)
    Lemma oc_node : forall t n cache st, NT n = Some t -> cache_ok cache ->
      exists k cache', (1 <= k <= n_nodes t + n_pairs t)%nat /\ cache_ok cache' /\ cache_le cache cache' /\
        lookup n cache' = Some (th t) /\
        forall fuel, oc_loop H it (k + fuel) cache (n :: st) = oc_loop H it fuel cache' st.
    Proof.
      induction t as [b|tl IHl tr IHr]; intros n cache st Hn Hok.
      - destruct (lookup n cache) as [h|] eqn:El.
        + exists 1%nat, cache. split; [cbn; lia|]. split; [exact Hok|]. split; [intros m g Hm; exact Hm|].
          split; [destruct (Hok _ _ El) as [t' [Ht' ->]]; congruence|].
          intros fuel. cbn [Nat.add oc_loop]. now rewrite El.
        + destruct (NT_atom _ _ Hn) as [i [-> Hi]].
          destruct (cache_add (IA i) (H (1 :: b)) cache (Atom b) Hok Hn eq_refl) as [Hok' [Hle' Hlk']].
          exists 1%nat, ((IA i, H (1 :: b)) :: cache). split; [cbn; lia|]. repeat split; try assumption.
          intros fuel. cbn [Nat.add oc_loop]. now rewrite El, Hi.
      - destruct (lookup n cache) as [h|] eqn:El.
        + exists 1%nat, cache. split; [cbn; lia|]. split; [exact Hok|]. split; [intros m g Hm; exact Hm|].
          split; [destruct (Hok _ _ El) as [t' [Ht' ->]]; congruence|].
          intros fuel. cbn [Nat.add oc_loop]. now rewrite El.
        + destruct (NT_pair _ _ _ Hn) as [j [l [r [-> [Hj [Hl Hr]]]]]].
          (* the expansion path: right child, left child, then the node again *)
          assert (Hexp : exists k cache', (1 <= k /\ S k <= n_nodes (Cons tl tr) + n_pairs (Cons tl tr))%nat /\
                    cache_ok cache' /\ cache_le cache cache' /\ lookup (IP j) cache' = Some (th (Cons tl tr)) /\
                    forall fuel, oc_loop H it (k + fuel) cache (r :: l :: IP j :: st) = oc_loop H it fuel cache' st).
          { destruct (IHr r cache (l :: IP j :: st) Hr Hok) as [kr [c1 [Hkr [Hok1 [Hle1 [Hlr1 Hrun1]]]]]].
            destruct (IHl l c1 (IP j :: st) Hl Hok1) as [kl [c2 [Hkl [Hok2 [Hle2 [Hll2 Hrun2]]]]]].
            pose proof (Hle2 _ _ Hlr1) as Hlr2.
            destruct (lookup (IP j) c2) as [h|] eqn:E2.
            - exists (kr + (kl + 1))%nat, c2. split; [cbn [n_nodes n_pairs]; lia|]. split; [exact Hok2|].
              split; [intros m g Hm; apply Hle2, Hle1, Hm|].
              split; [destruct (Hok2 _ _ E2) as [t' [Ht' ->]]; congruence|].
              intros fuel. replace (kr + (kl + 1) + fuel)%nat with (kr + (kl + S fuel))%nat by lia.
              rewrite Hrun1, Hrun2. cbn [oc_loop]. now rewrite E2.
            - destruct (cache_add (IP j) (H (2 :: th tl ++ th tr)) c2 (Cons tl tr) Hok2 Hn eq_refl) as [Hok' [Hle' Hlk']].
              exists (kr + (kl + 1))%nat, ((IP j, H (2 :: th tl ++ th tr)) :: c2).
              split; [cbn [n_nodes n_pairs]; lia|]. split; [exact Hok'|].
              split; [intros m g Hm; apply Hle', Hle2, Hle1, Hm|]. split; [exact Hlk'|].
              intros fuel. replace (kr + (kl + 1) + fuel)%nat with (kr + (kl + S fuel))%nat by lia.
              rewrite Hrun1, Hrun2. cbn [oc_loop]. now rewrite E2, Hj, Hll2, Hlr2. }
          destruct Hexp as [k [c' [Hk [Hok' [Hle' [Hlk' Hrun']]]]]].
          destruct (lookup l cache) as [hl|] eqn:Ell; [destruct (lookup r cache) as [hr|] eqn:Elr|].
          * destruct (Hok _ _ Ell) as [t1 [Ht1 ->]]. destruct (Hok _ _ Elr) as [t2 [Ht2 ->]].
            assert (t1 = tl) by congruence. assert (t2 = tr) by congruence. subst t1 t2.
            destruct (cache_add (IP j) (H (2 :: th tl ++ th tr)) cache (Cons tl tr) Hok Hn eq_refl) as [Hok2 [Hle2 Hlk2]].
            exists 1%nat, ((IP j, H (2 :: th tl ++ th tr)) :: cache). split; [cbn; lia|]. repeat split; try assumption.
            intros fuel. cbn [Nat.add oc_loop]. now rewrite El, Hj, Ell, Elr.
          * exists (S k), c'. split; [lia|]. repeat split; try assumption.
            intros fuel. cbn [Nat.add oc_loop]. rewrite El, Hj, Ell, Elr. apply Hrun'.
          * exists (S k), c'. split; [lia|]. repeat split; try assumption.
            intros fuel. cbn [Nat.add oc_loop]. rewrite El, Hj, Ell. apply Hrun'.
    Qed.

    (* Python Treehasher: one handle_obj on top of the op stack *)
    Lemma py_node can_cache : forall t n cache ops objs hashes, NT n = Some t -> cache_ok cache ->
      exists k cache', (1 <= k <= n_nodes t + n_pairs t)%nat /\ cache_ok cache' /\ cache_le cache cache' /\
        forall fuel, py_loop H it can_cache (k + fuel) (PObj :: ops) (n :: objs) hashes cache =
                     py_loop H it can_cache fuel ops objs (th t :: hashes) cache'.
    Proof.
      induction t as [b|tl IHl tr IHr]; intros n cache ops objs hashes Hn Hok.
      - destruct (lookup n cache) as [h|] eqn:El.
        + exists 1%nat, cache. split; [cbn; lia|]. split; [exact Hok|]. split; [intros m g Hm; exact Hm|].
          intros fuel. cbn [Nat.add py_loop]. rewrite El.
          destruct (Hok _ _ El) as [t' [Ht' ->]]. assert (t' = Atom b) by congruence. now subst.
        + destruct (NT_atom _ _ Hn) as [i [-> Hi]].
          destruct (cache_add (IA i) (H (1 :: b)) cache (Atom b) Hok Hn eq_refl) as [Hok' [Hle' _]].
          exists 1%nat, (if can_cache then (IA i, H (1 :: b)) :: cache else cache).
          split; [cbn; lia|]. split; [destruct can_cache; assumption|].
          split; [destruct can_cache; [exact Hle'|intros m g Hm; exact Hm]|].
          intros fuel. cbn [Nat.add py_loop]. rewrite El, Hi. reflexivity.
      - destruct (lookup n cache) as [h|] eqn:El.
        + exists 1%nat, cache. split; [cbn; lia|]. split; [exact Hok|]. split; [intros m g Hm; exact Hm|].
          intros fuel. cbn [Nat.add py_loop]. rewrite El.
          destruct (Hok _ _ El) as [t' [Ht' ->]]. assert (t' = Cons tl tr) by congruence. now subst.
        + destruct (NT_pair _ _ _ Hn) as [j [l [r [-> [Hj [Hl Hr]]]]]].
          destruct (IHr r cache (PObj :: PPair :: ops) (l :: IP j :: objs) hashes Hr Hok)
            as [kr [c1 [Hkr [Hok1 [Hle1 Hrun1]]]]].
          destruct (IHl l c1 (PPair :: ops) (IP j :: objs) (th tr :: hashes) Hl Hok1)
            as [kl [c2 [Hkl [Hok2 [Hle2 Hrun2]]]]].
          destruct (cache_add (IP j) (H (2 :: th tl ++ th tr)) c2 (Cons tl tr) Hok2 Hn eq_refl) as [Hok' [Hle' _]].
          exists (S (kr + (kl + 1)))%nat, (if can_cache then (IP j, H (2 :: th tl ++ th tr)) :: c2 else c2).
          split; [cbn [n_nodes n_pairs]; lia|]. split; [destruct can_cache; assumption|].
          split; [destruct can_cache; intros m g Hm; [apply Hle', Hle2, Hle1, Hm|apply Hle2, Hle1, Hm]|].
          intros fuel. cbn [Nat.add py_loop]. rewrite El, Hj.
          replace (kr + (kl + 1) + fuel)%nat with (kr + (kl + S fuel))%nat by lia.
          rewrite Hrun1, Hrun2. cbn [py_loop]. reflexivity.
    Qed.
  End Arena.

  Theorem oc_treehash_spec it t : tree_of it = Some t -> forall fuel,
    (n_nodes t + n_pairs t < fuel)%nat ->
    exists cache, oc_loop H it fuel [] [it_root it] = Ok cache /\ lookup (it_root it) cache = Some (th t).
  Proof.
    unfold tree_of. intros Ht fuel Hf. destruct (pair_trees it) as [pts|] eqn:Ep; [|discriminate].
    assert (Hok0 : cache_ok it pts []) by (intros n h Hn; discriminate).
    destruct (oc_node it pts Ep t (it_root it) [] [] Ht Hok0) as [k [c' [Hk [_ [_ [Hlk Hrun]]]]]].
    exists c'. split; [|exact Hlk].
    replace fuel with (k + S (fuel - k - 1))%nat by lia. rewrite Hrun. reflexivity.
  Qed.

  Theorem py_treehash_spec it can_cache t : tree_of it = Some t -> forall fuel,
    (n_nodes t + n_pairs t < fuel)%nat -> py_treehash H it can_cache fuel = Ok (th t).
  Proof.
    unfold tree_of. intros Ht fuel Hf. destruct (pair_trees it) as [pts|] eqn:Ep; [|discriminate].
    assert (Hok0 : cache_ok it pts []) by (intros n h Hn; discriminate).
    destruct (py_node it pts Ep can_cache t (it_root it) [] [] [] [] Ht Hok0) as [k [c' [Hk [_ [_ Hrun]]]]].
    unfold py_treehash. replace fuel with (k + S (fuel - k - 1))%nat by lia. rewrite Hrun. reflexivity.
  Qed.
End Proofs.
