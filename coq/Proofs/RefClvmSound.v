(* C01, evaluator level, second direction: whenever run_program (big-step form, ChiaDialect with
   no flags) succeeds, the reference either meets an operator application outside the compared
   domain ([Unsupported]: an operator outside the classic set, an atom the allocator cannot hold,
   the wrap class of F6) or succeeds with the same cost and value. Together with
   Proofs/RefClvmEval.v: on classic programs both succeed on the same inputs with the same
   result. *)
From Coq Require Import Lia ZifyBool ZifyN ZifyNat.
From Clvm Require Import Model.Dialect Model.BigStep Model.RefClvm Proofs.RefClvmBasics
  Proofs.IntEncBasics Proofs.RefClvmUnknown Proofs.RefClvmDispatch Proofs.UnknownProofs
  Proofs.BigStepEquiv Proofs.DialectContracts Proofs.RefClvmEval.
Open Scope N_scope.
Arguments check_cost : simpl never.

Definition lim_le (lim : option N) (c : N) : Prop :=
  match lim with Some m => c <= m | None => True end.

Lemma cap_intro lim c v : lim_le lim c -> cap lim (Ok (c, v)) = Ok (c, v).
Proof.
  unfold cap, lim_le. destruct lim as [m|]; [|reflexivity]. intros Hc.
  destruct (m <? c) eqn:E; [lia|reflexivity].
Qed.

Lemma lim_le_mono lim a b : a <= b -> lim_le lim b -> lim_le lim a.
Proof. unfold lim_le. destruct lim; [lia|auto]. Qed.

Lemma lim_le_tighter lim d c : lim_le lim d -> c <= d -> lim_le (tighter lim d) c.
Proof. unfold lim_le, tighter. destruct lim as [m|]; lia. Qed.

(* the outcome of the reference for a successful run of the interpreter from [cost] to [c'] *)
Definition refines (r : res (N * sexp)) (cost c' : N) (v : sexp) : Prop :=
  r = Err Unsupported \/ exists c, c' = cost + c /\ r = Ok (c, v).

Definition refines_list (r : res (N * list sexp)) (cost c' : N) (tl : sexp) : Prop :=
  r = Err Unsupported \/ exists c vals, c' = cost + c /\ tl = list_tree vals /\ r = Ok (c, vals).

Section Sound.
  Variable P : prims.
  Variable dom : bytes -> list sexp -> bool.
  Hypothesis Hdom : dom_sound dom.
  Variable M : N.
  Hypothesis HM : M < two64.
  Notation H := (p_sha256 P).
  Notation cur := current_adapters.
  Notation d := (chia_dialect P no_flags).

  Lemma chk_inv gs cost : chk gs M cost = Ok tt -> cost <= gs_emax gs M.
  Proof. unfold chk. destruct (gs_emax gs M <? cost) eqn:E; [discriminate|lia]. Qed.

  (* ---- costs only grow ---- *)
  Section Mono.
    Variable ev : list guard -> N -> sexp -> sexp -> res (N * sexp).
    Hypothesis ev_mono : forall gs cost p e c' v, ev gs cost p e = Ok (c', v) -> cost <= c'.

    Lemma eval_args_cost gs e : forall l cost c' tl,
      eval_args M ev gs cost l e = Ok (c', tl) -> cost <= c'.
    Proof.
      induction l as [b|a _ r IHr]; intros cost c' tl E; cbn [eval_args] in E.
      - apply Ok_inj in E. injection E as <- _. lia.
      - destruct (eval_args M ev gs cost r e) as [[c1 t1]|] eqn:Er; [|discriminate]. cbn [bind] in E.
        destruct (chk gs M c1); [|discriminate]. cbn [bind] in E.
        destruct (ev gs c1 a e) as [[c2 v2]|] eqn:Ea; [|discriminate]. cbn [bind] in E.
        destruct (chk gs M c2); [|discriminate]. cbn [bind] in E.
        apply Ok_inj in E. injection E as <- _.
        apply IHr in Er. apply ev_mono in Ea. lia.
    Qed.

    Lemma guard_big_cost gs cost args c' v :
      guard_big d M ev gs cost args = Ok (c', v) -> cost <= c'.
    Proof.
      unfold guard_big. intros E.
      destruct (first args) as [fa|]; [|discriminate]. cbn [bind] in E.
      destruct (uint_atom 8 _ fa) as [ec|]; [|discriminate]. cbn [bind] in E.
      destruct (gs_emax gs M - cost <? ec); [discriminate|].
      destruct (ec =? 0); [discriminate|].
      destruct (parse_softfork_arguments d args) as [[[ext prg] env]|].
      - destruct (f_limit_softfork (d_flags d) && _)%bool; [discriminate|].
        match type of E with context [ev ?g ?c prg env] => destruct (ev g c prg env) as [[c1 v1]|] eqn:Eb end;
          [|discriminate]. cbn [bind] in E.
        match type of E with context [chk ?g M c1] => destruct (chk g M c1) end; [|discriminate].
        cbn [bind] in E.
        match type of E with context [if ?b then _ else _] => destruct b end; [discriminate|].
        apply Ok_inj in E. injection E as <- _. apply ev_mono in Eb.
        destruct (f_new_cost_model (d_flags d)); lia.
      - destruct (d_allow_unknown d); [|discriminate]. apply Ok_inj in E. injection E as <- _. lia.
    Qed.

    Lemma apply_big_cost gs cost operator args c' v :
      apply_big d M ev gs cost operator args = Ok (c', v) -> cost <= c'.
    Proof.
      unfold apply_big. intros E. destruct (chk gs M cost); [|discriminate]. cbn [bind] in E.
      destruct (is_kw operator (d_apply d)).
      - destruct (get_args2 args) as [[no env]|]; [|discriminate]. cbn [bind] in E.
        apply ev_mono in E. lia.
      - destruct (is_kw operator (d_softfork d)); [apply guard_big_cost in E; exact E|].
        destruct (d_op d operator args _ _) as [[c v0]|]; [|discriminate]. cbn [bind] in E.
        apply Ok_inj in E. injection E as <- _. lia.
    Qed.

    Lemma eval_body_cost gs cost p e c' v :
      eval_body d M ev gs cost p e = Ok (c', v) -> cost <= c'.
    Proof.
      unfold eval_body. intros E. destruct p as [b|[b|no tl] ol].
      - destruct (traverse_path b e) as [[c v0]|]; [|discriminate]. cbn [bind] in E.
        apply Ok_inj in E. injection E as <- _. lia.
      - destruct (is_kw (Atom b) (d_quote d)).
        + apply Ok_inj in E. injection E as <- _. lia.
        + destruct (nil_terminated ol); [|discriminate]. cbn [bind] in E.
          destruct (eval_args M ev gs (cost + OP_COST) ol e) as [[c1 args]|] eqn:Ea; [|discriminate].
          cbn [bind] in E.
          destruct (apply_big d M ev gs c1 (Atom b) args) as [[c2 v2]|] eqn:Eap; [|discriminate].
          cbn [bind] in E. apply eval_args_cost in Ea. apply apply_big_cost in Eap.
          destruct (d_gc d (Atom b)).
          * destruct (chk gs M c2); [|discriminate]. cbn [bind] in E.
            apply Ok_inj in E. injection E as <- _. lia.
          * apply Ok_inj in E. injection E as <- _. lia.
      - destruct tl as [tb|]; [|discriminate]. destruct no as [nb|]; [|discriminate].
        apply apply_big_cost in E. lia.
    Qed.
  End Mono.

  Lemma eval_cost : forall n gs cost p e c' v, eval d M n gs cost p e = Ok (c', v) -> cost <= c'.
  Proof.
    induction n as [|n IHn]; intros gs cost p e c' v E; [discriminate|].
    cbn [eval] in E. exact (eval_body_cost (eval d M n) IHn gs cost p e c' v E).
  Qed.

  (* ---- the step ---- *)
  Section Step.
    Variable n : nat.
    Hypothesis IH : forall gs cost p e c' v, eval d M n gs cost p e = Ok (c', v) -> gs_ok gs ->
      forall lim, lim_le lim (c' - cost) ->
      refines (ref_eval H cur dom n lim (ext_kec (gs_ext gs)) p e) cost c' v.

    (* an operator of the dialect that succeeded: the reference gives the same, or has no opinion *)
    Lemma op_sound gs opc args B co v :
      gs_ok gs -> B < two64 ->
      chia_op P true no_flags (Atom opc) args B (gs_ext gs) = Ok (co, v) ->
      ref_op H cur dom (ext_kec (gs_ext gs)) opc (items args) (ending args) = Err Unsupported \/
      ref_op H cur dom (ext_kec (gs_ext gs)) opc (items args) (ending args) = Ok (co, v).
    Proof.
      intros Hg HB E.
      destruct (non_classic (ext_kec (gs_ext gs)) opc || negb (dom opc (items args))) eqn:Enc.
      { left. unfold ref_op. rewrite Enc. reflexivity. }
      right.
      assert (Hd : dom opc (items args) = true).
      { destruct (dom opc (items args)); [reflexivity|]. rewrite orb_true_r in Enc. discriminate. }
      destruct (Hdom opc args Hd) as [Hsz Hw].
      destruct (ref_op H cur dom (ext_kec (gs_ext gs)) opc (items args) (ending args)) as [[c2 v2]|e] eqn:Er.
      - (* unknown operators cost less than 2^32 *)
        assert (Hc2 : classic_code opc = false -> c2 < 4294967296).
        { intros Hcc. unfold ref_op in Er. rewrite Enc in Er.
          cbn [ad_literal_operands_any_terminator cur negb andb] in Er.
          assert (Eu : ref_unknown cur opc (items args) = Ok (c2, v2)).
          { destruct opc as [|b [|c opc']]; try exact Er.
            unfold classic_code in Hcc.
            destruct (lookup b (ref_table H cur)) eqn:El; [|exact Er].
            exfalso. clear Er. revert El Hcc. unfold ref_table, classic_codes. cbn [lookup existsb].
            repeat match goal with |- context [N.eqb b ?c] =>
              destruct (N.eqb_spec b c) as [->|_]; [intros _ Hcc; discriminate Hcc|] end.
            intros El; discriminate El. }
          unfold ref_unknown in Eu. destruct (rev opc) as [|lb rp]; [discriminate|].
          destruct (reserved_prefix opc); [discriminate|].
          cbn [ad_unknown_u32_cap cur andb] in Eu.
          destruct (4 <? length (rev rp))%nat; [discriminate|].
          destruct (unknown_base_cost _ _) as [base|]; [|discriminate].
          destruct (4294967296 <=? base * (uint_of_bytes (rev rp) + 1)) eqn:Ecap; [discriminate|].
          apply Ok_inj in Eu. injection Eu as <- _. lia. }
        set (M2 := N.max B c2).
        assert (Ha : agrees (chia_op P true no_flags (Atom opc) args M2 (gs_ext gs))
                            (ref_op H cur dom (ext_kec (gs_ext gs)) opc (items args) (ending args))).
        { apply chia_op_agrees_dom.
          - apply (gs_ok_ext gs Hg).
          - intros Hcc. specialize (Hc2 Hcc). unfold M2, two64 in *. lia.
          - intros Hcc. apply Hw; [exact Hcc|]. specialize (Hc2 Hcc). unfold M2, two64 in *. lia.
          - exact Hsz.
          - exact Enc.
          - rewrite Er. intros c0 v0 E0. apply Ok_inj in E0. injection E0 as <- _. unfold M2. lia. }
        rewrite Er in Ha. cbn [agrees] in Ha.
        destruct (chia_op_budget P true no_flags _ _ _ _ _ _ E M2) as [Hup _].
        rewrite Hup in Ha by (unfold M2; lia). exact (eq_sym Ha).
      - (* the reference fails: so does the operator, under any budget *)
        exfalso.
        assert (Ha : agrees (chia_op P true no_flags (Atom opc) args B (gs_ext gs))
                            (ref_op H cur dom (ext_kec (gs_ext gs)) opc (items args) (ending args))).
        { apply chia_op_agrees_dom.
          - apply (gs_ok_ext gs Hg).
          - intros _; exact HB.
          - intros Hcc. apply Hw; [exact Hcc|exact HB].
          - exact Hsz.
          - exact Enc.
          - rewrite Er. intros c0 v0 E0. discriminate E0. }
        rewrite Er in Ha. cbn [agrees] in Ha. destruct Ha as [e' Ha]. rewrite E in Ha. discriminate Ha.
    Qed.

    Lemma softfork_sound gs cost args c' v :
      guard_big d M (eval d M n) gs cost args = Ok (c', v) -> gs_ok gs ->
      forall lim, lim_le lim (c' - cost) ->
      refines (ref_softfork cur (ref_eval H cur dom n) lim args) cost c' v.
    Proof.
      intros E Hg lim Hl. unfold guard_big in E. unfold ref_softfork. cbn [ad_softfork_guard cur].
      change (f_canonical_ints (d_flags d)) with false in E.
      destruct args as [t|declared more]; [discriminate|]. cbn [items first bind] in E |- *.
      rewrite uint_atom_small in E. destruct (small_uint 8 declared) as [dc|]; [|discriminate].
      cbn [bind] in E.
      destruct (gs_emax gs M - cost <? dc) eqn:E3; [discriminate|].
      destruct (dc =? 0) eqn:E0; [discriminate|].
      unfold parse_softfork_arguments in E. rewrite get_args4_items in E. cbn [items] in E.
      change (f_canonical_ints (d_flags d)) with false in E.
      change (d_allow_unknown d) with true in E.
      change (f_limit_softfork (d_flags d)) with false in E.
      change (f_new_cost_model (d_flags d)) with false in E.
      assert (Hskip : Ok (cost + dc, nil_s) = Ok (c', v) ->
                      refines (Ok (dc, nil_s)) cost c' v).
      { intros E2. apply Ok_inj in E2. injection E2 as <- <-. right. exists dc. auto. }
      destruct (items more) as [|ext [|prog [|env [|x5 l5]]]] eqn:Em; cbn [bind] in E;
        try (exact (Hskip E)).
      rewrite uint_atom_small in E. destruct (small_uint 4 ext) as [x|]; cbn [bind] in E; [|exact (Hskip E)].
      change (d_ext d x) with (softfork_extension no_flags x) in E. unfold softfork_extension in E.
      change (f_new_cost_model no_flags) with false in E. cbv iota in E. cbn [andb] in E.
      pose proof (gs_ok_emax M HM gs Hg) as Hemax.
      destruct (x =? 0) eqn:Ex0.
      - assert (Ex1 : (x =? 1) = false) by lia. rewrite Ex1. cbn [orb opset_eqb bind] in E |- *.
        set (g := {| g_expected := cost + dc; g_opset := OsBls |}) in *.
        destruct (eval d M n (g :: gs) (cost + GUARD_COST) prog env) as [[c1 v1]|] eqn:Eb; [|discriminate].
        cbn [bind] in E. destruct (chk (g :: gs) M c1) eqn:Ek; [|discriminate]. cbn [bind] in E.
        cbn [cost_exempt g_opset g opset_eqb negb andb g_expected] in E.
        destruct (c1 =? cost + dc) eqn:Ec1; [|discriminate]. cbn [negb] in E.
        apply Ok_inj in E. injection E as <- <-.
        assert (Hg' : gs_ok (g :: gs)).
        { constructor; [|exact Hg]. cbn. split; [auto|]. lia. }
        pose proof (eval_cost _ _ _ _ _ _ _ Eb) as Hmono. unfold GUARD_COST in *.
        assert (Hl' : lim_le (tighter lim dc) (c1 - (cost + 140))).
        { apply lim_le_tighter; [|lia]. apply (lim_le_mono lim dc (c1 - cost)); [lia|exact Hl]. }
        destruct (IH _ _ _ _ _ _ Eb Hg' _ Hl') as [Eu|(cb & Ecb & Er)].
        + cbn [ext_kec gs_ext g g_opset] in Eu. rewrite Eu. left. reflexivity.
        + cbn [ext_kec gs_ext g g_opset] in Er. rewrite Er. unfold rc_guard.
          assert (E4 : (cb + 140 =? dc) = true) by lia. rewrite E4. right. exists dc. split; [lia|reflexivity].
      - destruct (x =? 1) eqn:Ex1.
        + cbn [orb opset_eqb bind] in E |- *.
          set (g := {| g_expected := cost + dc; g_opset := OsKeccak |}) in *.
          destruct (eval d M n (g :: gs) (cost + GUARD_COST) prog env) as [[c1 v1]|] eqn:Eb; [|discriminate].
          cbn [bind] in E. destruct (chk (g :: gs) M c1) eqn:Ek; [|discriminate]. cbn [bind] in E.
          cbn [cost_exempt g_opset g opset_eqb negb andb g_expected] in E.
          destruct (c1 =? cost + dc) eqn:Ec1; [|discriminate]. cbn [negb] in E.
          apply Ok_inj in E. injection E as <- <-.
          assert (Hg' : gs_ok (g :: gs)).
          { constructor; [|exact Hg]. cbn. split; [auto|]. lia. }
          pose proof (eval_cost _ _ _ _ _ _ _ Eb) as Hmono. unfold GUARD_COST in *.
          assert (Hl' : lim_le (tighter lim dc) (c1 - (cost + 140))).
          { apply lim_le_tighter; [|lia]. apply (lim_le_mono lim dc (c1 - cost)); [lia|exact Hl]. }
          destruct (IH _ _ _ _ _ _ Eb Hg' _ Hl') as [Eu|(cb & Ecb & Er)].
          * cbn [ext_kec gs_ext g g_opset] in Eu. rewrite Eu. left. reflexivity.
          * cbn [ext_kec gs_ext g g_opset] in Er. rewrite Er. unfold rc_guard.
            assert (E4 : (cb + 140 =? dc) = true) by lia. rewrite E4. right. exists dc. split; [lia|reflexivity].
        + cbn [orb opset_eqb] in E |- *. exact (Hskip E).
    Qed.

    Lemma apply_sound gs cost opc args c' v :
      apply_big d M (eval d M n) gs cost (Atom opc) args = Ok (c', v) -> gs_ok gs ->
      forall lim, lim_le lim (c' - cost) ->
      refines (ref_apply H cur dom (ref_eval H cur dom n) lim (ext_kec (gs_ext gs)) opc args) cost c' v.
    Proof.
      intros E Hg lim Hl. unfold apply_big in E. destruct (chk gs M cost) as [[]|] eqn:Ek; [|discriminate].
      cbn [bind] in E. apply chk_inv in Ek.
      change (d_apply d) with 2 in E. change (d_softfork d) with 36 in E.
      rewrite !is_kw_bytes in E by lia. unfold ref_apply.
      destruct (bytes_eqb opc [2]).
      - rewrite get_args2_items in E.
        destruct (items args) as [|prog [|env [|x l]]]; try discriminate. cbn [bind] in E.
        pose proof (eval_cost _ _ _ _ _ _ _ E) as Hmono. unfold APPLY_COST in *.
        assert (Hl' : lim_le lim (c' - (cost + 90))) by (apply (lim_le_mono lim _ (c' - cost)); [lia|exact Hl]).
        destruct (IH _ _ _ _ _ _ E Hg _ Hl') as [Eu|(c & Ec & Er)].
        + rewrite Eu. left. reflexivity.
        + rewrite Er. cbn [bind]. right. exists (rc_apply + c). unfold rc_apply. split; [lia|reflexivity].
      - destruct (bytes_eqb opc [36]).
        + exact (softfork_sound gs cost args c' v E Hg lim Hl).
        + change (d_op d) with (chia_op P true no_flags) in E.
          destruct (chia_op P true no_flags (Atom opc) args (gs_emax gs M - cost) (gs_ext gs))
            as [[co v0]|] eqn:Eo; [|discriminate]. cbn [bind] in E.
          apply Ok_inj in E. injection E as <- <-.
          pose proof (gs_ok_emax M HM gs Hg) as Hemax.
          destruct (op_sound gs opc args (gs_emax gs M - cost) co v0 Hg ltac:(lia) Eo) as [Eu|Er].
          * left. exact Eu.
          * right. exists co. split; [reflexivity|exact Er].
    Qed.

    Lemma operands_sound gs e : forall l cost c' tl,
      eval_args M (eval d M n) gs cost l e = Ok (c', tl) -> nil_terminated l = Ok tt -> gs_ok gs ->
      forall lim, lim_le lim (c' - cost) ->
      refines_list (ref_operands cur (ref_eval H cur dom n) lim (ext_kec (gs_ext gs)) l e) cost c' tl.
    Proof.
      induction l as [b|a _ r IHr]; intros cost c' tl E Hnt Hg lim Hl.
      - cbn in E. apply Ok_inj in E. injection E as <- <-.
        destruct b as [|x b]; [|discriminate]. cbn. right. exists 0, []. repeat split. lia.
      - cbn [eval_args] in E. cbn [nil_terminated] in Hnt.
        destruct (eval_args M (eval d M n) gs cost r e) as [[c1 t1]|] eqn:Er; [|discriminate].
        cbn [bind] in E. destruct (chk gs M c1); [|discriminate]. cbn [bind] in E.
        destruct (eval d M n gs c1 a e) as [[c2 v2]|] eqn:Ea; [|discriminate]. cbn [bind] in E.
        destruct (chk gs M c2); [|discriminate]. cbn [bind] in E.
        apply Ok_inj in E. injection E as <- <-.
        pose proof (eval_args_cost (eval d M n) (eval_cost n) _ _ _ _ _ _ Er) as Hm1.
        pose proof (eval_cost _ _ _ _ _ _ _ Ea) as Hm2.
        cbn [ref_operands].
        destruct (IHr _ _ _ Er Hnt Hg lim ltac:(apply (lim_le_mono lim _ (c2 - cost)); [lia|exact Hl]))
          as [Eu|(cr & vr & Ecr & Et & Err)].
        + rewrite Eu. left. reflexivity.
        + rewrite Err. cbn [bind].
          destruct (IH _ _ _ _ _ _ Ea Hg lim ltac:(apply (lim_le_mono lim _ (c2 - cost)); [lia|exact Hl]))
            as [Eu|(ca & Eca & Era)].
          * rewrite Eu. left. reflexivity.
          * rewrite Era. cbn [bind]. right. exists (ca + cr), (v2 :: vr). subst t1. repeat split. lia.
    Qed.

    Lemma body_sound gs cost p e c' v :
      eval_body d M (eval d M n) gs cost p e = Ok (c', v) -> gs_ok gs ->
      forall lim, lim_le lim (c' - cost) ->
      refines (ref_body H cur dom (ref_eval H cur dom n) lim (ext_kec (gs_ext gs)) p e) cost c' v.
    Proof.
      intros E Hg lim Hl. unfold eval_body in E. unfold ref_body.
      destruct p as [path|[opc|x t] operands].
      - rewrite path_agrees in E. destruct (ref_path path e) as [[c v0]|]; [|discriminate].
        cbn [bind] in E. apply Ok_inj in E. injection E as <- <-.
        rewrite cap_intro by (apply (lim_le_mono lim _ (cost + c - cost)); [lia|exact Hl]).
        right. exists c. auto.
      - change (d_quote d) with 1 in E. rewrite is_kw_bytes in E by lia.
        destruct (bytes_eqb opc [1]).
        + apply Ok_inj in E. injection E as <- <-. unfold QUOTE_COST in *.
          rewrite cap_intro by (apply (lim_le_mono lim _ (cost + 20 - cost)); [unfold rc_quote; lia|exact Hl]).
          right. exists rc_quote. auto.
        + destruct (nil_terminated operands) as [[]|] eqn:Hnt; [|discriminate]. cbn [bind] in E.
          destruct (eval_args M (eval d M n) gs (cost + OP_COST) operands e) as [[c1 args]|] eqn:Ea;
            [|discriminate]. cbn [bind] in E.
          destruct (apply_big d M (eval d M n) gs c1 (Atom opc) args) as [[c2 v2]|] eqn:Eap;
            [|discriminate]. cbn [bind] in E.
          change (d_gc d (Atom opc)) with false in E. cbv iota in E.
          apply Ok_inj in E. injection E as <- <-.
          pose proof (eval_args_cost (eval d M n) (eval_cost n) _ _ _ _ _ _ Ea) as Hm1.
          pose proof (apply_big_cost (eval d M n) (eval_cost n) _ _ _ _ _ _ Eap) as Hm2.
          unfold OP_COST in *.
          destruct (operands_sound gs e _ _ _ _ Ea Hnt Hg lim
                      ltac:(apply (lim_le_mono lim _ (c2 - cost)); [lia|exact Hl]))
            as [Eu|(ca & vals & Eca & Et & Ero)].
          * rewrite Eu. cbn. left. destruct lim; reflexivity.
          * rewrite Ero. cbn [bind]. subst args.
            destruct (apply_sound gs _ opc _ _ _ Eap Hg lim
                        ltac:(apply (lim_le_mono lim _ (c2 - cost)); [lia|exact Hl]))
              as [Eu|(co & Eco & Era)].
            -- rewrite Eu. cbn. left. destruct lim; reflexivity.
            -- rewrite Era. cbn [bind]. unfold rc_op.
               rewrite cap_intro by (apply (lim_le_mono lim _ (c2 - cost)); [lia|exact Hl]).
               right. exists (1 + ca + co). split; [lia|reflexivity].
      - destruct t as [tb|]; [|discriminate]. destruct x as [opc|]; [|discriminate].
        cbn [ad_head_any_terminator cur orb].
        pose proof (apply_big_cost (eval d M n) (eval_cost n) _ _ _ _ _ _ E) as Hm. unfold APPLY_COST in *.
        destruct (apply_sound gs _ opc _ _ _ E Hg lim
                    ltac:(apply (lim_le_mono lim _ (c' - cost)); [lia|exact Hl]))
          as [Eu|(co & Eco & Era)].
        + rewrite Eu. cbn. left. destruct lim; reflexivity.
        + rewrite Era. cbn [bind]. unfold rc_apply.
          rewrite cap_intro by (apply (lim_le_mono lim _ (c' - cost)); [lia|exact Hl]).
          right. exists (90 + co). split; [lia|reflexivity].
    Qed.
  End Step.

  Theorem ref_eval_sound : forall n gs cost p e c' v,
    eval d M n gs cost p e = Ok (c', v) -> gs_ok gs ->
    forall lim, lim_le lim (c' - cost) ->
    refines (ref_eval H cur dom n lim (ext_kec (gs_ext gs)) p e) cost c' v.
  Proof.
    induction n as [|n IHn]; intros gs cost p e c' v E; [discriminate|].
    cbn [ref_eval eval] in *. intros Hg lim Hl.
    exact (body_sound n IHn gs cost p e c' v E Hg lim Hl).
  Qed.
End Sound.

(* run level *)
Theorem ref_run_sound P dom p e max_cost r :
  dom_sound dom -> max_cost < two64 ->
  (exists fuel, run_chia P fuel 0 p e max_cost = Ok r) ->
  exists fuel, ref_run (p_sha256 P) current_adapters dom fuel p e max_cost = Err Unsupported \/
               ref_run (p_sha256 P) current_adapters dom fuel p e max_cost = Ok r.
Proof.
  intros Hdom HM Hrun.
  apply (proj1 (run_program_big_equiv (chia_dialect P no_flags) p e max_cost r)) in Hrun.
  destruct Hrun as [fuel Hb]. exists fuel. destruct r as [c v].
  unfold run_program_big, run_big in Hb. change COST_MAX with 18446744073709551615 in Hb.
  fold (ref_budget max_cost) in Hb.
  assert (HB : ref_budget max_cost < two64).
  { unfold ref_budget. destruct (max_cost =? 0); [reflexivity|exact HM]. }
  destruct (eval (chia_dialect P no_flags) (ref_budget max_cost) fuel [] 0 p e) as [[c1 v1]|] eqn:Ee;
    [|discriminate]. cbn [bind] in Hb.
  destruct (chk [] (ref_budget max_cost) c1) eqn:Ek; [|discriminate]. cbn [bind] in Hb.
  apply Ok_inj in Hb. injection Hb as <- <-.
  unfold chk in Ek. cbn [gs_emax] in Ek.
  destruct (ref_budget max_cost <? c1) eqn:Ec; [discriminate|].
  destruct (ref_eval_sound P dom Hdom (ref_budget max_cost) HB fuel [] 0 p e c1 v1 Ee (Forall_nil _)
              (Some (ref_budget max_cost)) ltac:(cbn; lia)) as [Eu|(c & Ec1 & Er)].
  - left. exact Eu.
  - right. unfold ref_run. cbn [ext_kec gs_ext] in Er. rewrite Er. rewrite N.add_0_l in Ec1. subst. reflexivity.
Qed.

(* both directions *)
Theorem ref_run_refines P dom p e max_cost r :
  dom_sound dom -> max_cost < two64 ->
  (forall fuel, ref_run (p_sha256 P) current_adapters dom fuel p e max_cost <> Err Unsupported) ->
  ((exists fuel, run_chia P fuel 0 p e max_cost = Ok r) <->
   (exists fuel, ref_run (p_sha256 P) current_adapters dom fuel p e max_cost = Ok r)).
Proof.
  intros Hdom HM Hcl. split.
  - intros Hrun. destruct (ref_run_sound P dom p e max_cost r Hdom HM Hrun) as [fuel [Eu|Er]].
    + destruct (Hcl fuel Eu).
    + exists fuel. exact Er.
  - intros [fuel Er]. exact (ref_run_complete P dom fuel p e max_cost r Hdom HM Er).
Qed.
