(* Contracts every operator model must satisfy. They are what the machine-level theorems
   (C02 budget, C07 restriction flags, C11 cost model, C06 bignum backend, C25 totality) need
   from an operator; each operator's proof of each contract lives next to its model's lemmas. *)
From Clvm Require Export Model.OpUtils.
Open Scope N_scope.

(* f' is at least as restrictive as f: restriction flags may only be added, RELAXED_BLS may only
   be removed, every other flag is equal *)
Definition flag_le (f f' : flagset) : Prop :=
  (f_canonical_ints f = true -> f_canonical_ints f' = true) /\
  (f_no_unknown_ops f = true -> f_no_unknown_ops f' = true) /\
  (f_limit_heap f = true -> f_limit_heap f' = true) /\
  (f_limit_softfork f = true -> f_limit_softfork f' = true) /\
  (f_limits f = true -> f_limits f' = true) /\
  (f_disable_op f = true -> f_disable_op f' = true) /\
  (f_relaxed_bls f' = true -> f_relaxed_bls f = true) /\
  f_enable_gc f = f_enable_gc f' /\
  f_keccak_outside_guard f = f_keccak_outside_guard f' /\
  f_sha256_tree f = f_sha256_tree f' /\
  f_secp_ops f = f_secp_ops f' /\
  f_malachite f = f_malachite f' /\
  f_new_cost_model f = f_new_cost_model f'.

(* equal except possibly for one named flag *)
Definition same_but_cost_model (f f' : flagset) : Prop :=
  f_canonical_ints f = f_canonical_ints f' /\ f_no_unknown_ops f = f_no_unknown_ops f' /\
  f_limit_heap f = f_limit_heap f' /\ f_relaxed_bls f = f_relaxed_bls f' /\
  f_limit_softfork f = f_limit_softfork f' /\ f_enable_gc f = f_enable_gc f' /\
  f_keccak_outside_guard f = f_keccak_outside_guard f' /\ f_disable_op f = f_disable_op f' /\
  f_sha256_tree f = f_sha256_tree f' /\ f_secp_ops f = f_secp_ops f' /\
  f_malachite f = f_malachite f'.
  (* f_limits and f_new_cost_model are free: ChiaDialect::new clears LIMITS under NEW_COST_MODEL *)

Definition same_but_malachite (f f' : flagset) : Prop :=
  f_canonical_ints f = f_canonical_ints f' /\ f_no_unknown_ops f = f_no_unknown_ops f' /\
  f_limit_heap f = f_limit_heap f' /\ f_relaxed_bls f = f_relaxed_bls f' /\
  f_limit_softfork f = f_limit_softfork f' /\ f_enable_gc f = f_enable_gc f' /\
  f_limits f = f_limits f' /\
  f_keccak_outside_guard f = f_keccak_outside_guard f' /\ f_disable_op f = f_disable_op f' /\
  f_sha256_tree f = f_sha256_tree f' /\ f_secp_ops f = f_secp_ops f' /\
  f_new_cost_model f = f_new_cost_model f'.

Definition same_but_gc (f f' : flagset) : Prop :=
  f_canonical_ints f = f_canonical_ints f' /\ f_no_unknown_ops f = f_no_unknown_ops f' /\
  f_limit_heap f = f_limit_heap f' /\ f_relaxed_bls f = f_relaxed_bls f' /\
  f_limit_softfork f = f_limit_softfork f' /\ f_limits f = f_limits f' /\
  f_keccak_outside_guard f = f_keccak_outside_guard f' /\ f_disable_op f = f_disable_op f' /\
  f_sha256_tree f = f_sha256_tree f' /\ f_secp_ops f = f_secp_ops f' /\
  f_malachite f = f_malachite f' /\ f_new_cost_model f = f_new_cost_model f'.

(* C02: the budget only decides between the budget-free outcome and CostExceeded; a success
   stays a success under every larger budget, and needs no more budget than the cost it reports *)
Definition op_budget (op : opfn) : Prop :=
  forall f a m c v, op f a m = Ok (c, v) ->
  forall m', (m <= m' -> op f a m' = Ok (c, v)) /\
             (c <= m' -> op f a m' = Ok (c, v)) /\
             (op f a m' = Ok (c, v) \/ op f a m' = Err CostExceeded).

(* C07: a more restrictive flag set can only turn a success into a failure *)
Definition op_restrict (op : opfn) : Prop :=
  forall f f' a m r, flag_le f f' -> op f' a m = Ok r -> op f a m = Ok r.

(* C11: the cost model changes the cost, never the value *)
Definition op_cm_indep (op : opfn) : Prop :=
  forall f f' a m m' c v c' v', same_but_cost_model f f' ->
  op f a m = Ok (c, v) -> op f' a m' = Ok (c', v') -> v = v'.

(* C06: the MALACHITE flag is unobservable *)
Definition op_malachite_indep (op : opfn) : Prop :=
  forall f f' a m, same_but_malachite f f' -> op f a m = op f' a m.

(* C04 (operator level): ENABLE_GC is not read by any operator *)
Definition op_gc_indep (op : opfn) : Prop :=
  forall f f' a m, same_but_gc f f' -> op f a m = op f' a m.

(* C25: an operator never panics, never reports an internal error, never runs out of fuel.
   Overflow sites (plain u64 arithmetic that would wrap) are excluded under a size bound that
   the theorem states explicitly: [bounded a] *)
Definition user_error (e : errkind) : bool :=
  match e with
  | InternalError _ | Panic _ | Overflow _ | OutOfFuel | Unsupported => false
  | _ => true
  end.

Definition op_total (bounded : sexp -> N -> Prop) (op : opfn) : Prop :=
  forall f a m e, bounded a m -> op f a m = Err e -> user_error e = true.
