(* The operator contracts of Proofs/OpContractDefs.v for the core operators of Model/OpsCore.v
   (op_if op_cons op_first op_rest op_listp op_raise op_eq). None of them reads its budget; op_if
   and op_listp read NEW_COST_MODEL for the cost only. *)
From Coq Require Import Lia ZifyBool ZifyN ZifyNat.
From Clvm Require Import Model.OpsCore Proofs.OpContractDefs Proofs.OpContractsCrypto.
Open Scope N_scope.

Lemma core_budget_const (op : opfn) : (forall f a m m', op f a m = op f a m') -> op_budget op.
Proof. intros H f a m c v E m'. rewrite (H f a m' m). auto. Qed.

Lemma if_budget : op_budget op_if. Proof. apply core_budget_const. reflexivity. Qed.
Lemma cons_budget : op_budget op_cons. Proof. apply core_budget_const. reflexivity. Qed.
Lemma first_budget : op_budget op_first. Proof. apply core_budget_const. reflexivity. Qed.
Lemma rest_budget : op_budget op_rest. Proof. apply core_budget_const. reflexivity. Qed.
Lemma listp_budget : op_budget op_listp. Proof. apply core_budget_const. reflexivity. Qed.
Lemma raise_budget : op_budget op_raise. Proof. apply core_budget_const. reflexivity. Qed.
Lemma eq_budget : op_budget op_eq. Proof. apply core_budget_const. reflexivity. Qed.

(* flags *)
Lemma if_reads : reads_ncm op_if.
Proof. intros f f' a m H. unfold op_if. rewrite H. reflexivity. Qed.
Lemma listp_reads : reads_ncm op_listp.
Proof. intros f f' a m H. unfold op_listp. rewrite H. reflexivity. Qed.
Lemma cons_reads : reads_ncm op_cons. Proof. intros f f' a m _. reflexivity. Qed.
Lemma first_reads : reads_ncm op_first. Proof. intros f f' a m _. reflexivity. Qed.
Lemma rest_reads : reads_ncm op_rest. Proof. intros f f' a m _. reflexivity. Qed.
Lemma raise_reads : reads_ncm op_raise. Proof. intros f f' a m _. reflexivity. Qed.
Lemma eq_reads : reads_ncm op_eq. Proof. intros f f' a m _. reflexivity. Qed.

Lemma if_restrict : op_restrict op_if. Proof. apply reads_ncm_restrict, if_reads. Qed.
Lemma cons_restrict : op_restrict op_cons. Proof. apply reads_ncm_restrict, cons_reads. Qed.
Lemma first_restrict : op_restrict op_first. Proof. apply reads_ncm_restrict, first_reads. Qed.
Lemma rest_restrict : op_restrict op_rest. Proof. apply reads_ncm_restrict, rest_reads. Qed.
Lemma listp_restrict : op_restrict op_listp. Proof. apply reads_ncm_restrict, listp_reads. Qed.
Lemma raise_restrict : op_restrict op_raise. Proof. apply reads_ncm_restrict, raise_reads. Qed.
Lemma eq_restrict : op_restrict op_eq. Proof. apply reads_ncm_restrict, eq_reads. Qed.

Lemma if_malachite_indep : op_malachite_indep op_if. Proof. apply reads_ncm_malachite, if_reads. Qed.
Lemma cons_malachite_indep : op_malachite_indep op_cons. Proof. apply reads_ncm_malachite, cons_reads. Qed.
Lemma first_malachite_indep : op_malachite_indep op_first. Proof. apply reads_ncm_malachite, first_reads. Qed.
Lemma rest_malachite_indep : op_malachite_indep op_rest. Proof. apply reads_ncm_malachite, rest_reads. Qed.
Lemma listp_malachite_indep : op_malachite_indep op_listp. Proof. apply reads_ncm_malachite, listp_reads. Qed.
Lemma raise_malachite_indep : op_malachite_indep op_raise. Proof. apply reads_ncm_malachite, raise_reads. Qed.
Lemma eq_malachite_indep : op_malachite_indep op_eq. Proof. apply reads_ncm_malachite, eq_reads. Qed.

Lemma if_gc_indep : op_gc_indep op_if. Proof. apply reads_ncm_gc, if_reads. Qed.
Lemma cons_gc_indep : op_gc_indep op_cons. Proof. apply reads_ncm_gc, cons_reads. Qed.
Lemma first_gc_indep : op_gc_indep op_first. Proof. apply reads_ncm_gc, first_reads. Qed.
Lemma rest_gc_indep : op_gc_indep op_rest. Proof. apply reads_ncm_gc, rest_reads. Qed.
Lemma listp_gc_indep : op_gc_indep op_listp. Proof. apply reads_ncm_gc, listp_reads. Qed.
Lemma raise_gc_indep : op_gc_indep op_raise. Proof. apply reads_ncm_gc, raise_reads. Qed.
Lemma eq_gc_indep : op_gc_indep op_eq. Proof. apply reads_ncm_gc, eq_reads. Qed.

(* the value does not depend on the cost model *)
Ltac core_cm :=
  apply valrel_op; intros f f' a _; cbv beta delta [op_if op_cons op_first op_rest op_listp op_raise op_eq];
  repeat vstep.

Lemma if_cm_indep : op_cm_indep op_if. Proof. core_cm. Qed.
Lemma cons_cm_indep : op_cm_indep op_cons. Proof. core_cm. Qed.
Lemma first_cm_indep : op_cm_indep op_first. Proof. core_cm. Qed.
Lemma rest_cm_indep : op_cm_indep op_rest. Proof. core_cm. Qed.
Lemma listp_cm_indep : op_cm_indep op_listp. Proof. core_cm. Qed.
Lemma raise_cm_indep : op_cm_indep op_raise. Proof. core_cm. Qed.
Lemma eq_cm_indep : op_cm_indep op_eq. Proof. core_cm. Qed.

(* totality: the only errors are InvalidOpArg and Raise *)
Ltac core_tot :=
  apply tot_op; intros f a; cbv beta delta [op_if op_cons op_first op_rest op_listp op_raise op_eq];
  repeat tstep.

Lemma if_total : op_total (fun _ _ => True) op_if. Proof. core_tot. Qed.
Lemma cons_total : op_total (fun _ _ => True) op_cons. Proof. core_tot. Qed.
Lemma first_total : op_total (fun _ _ => True) op_first. Proof. core_tot. Qed.
Lemma rest_total : op_total (fun _ _ => True) op_rest. Proof. core_tot. Qed.
Lemma listp_total : op_total (fun _ _ => True) op_listp. Proof. core_tot. Qed.
Lemma raise_total : op_total (fun _ _ => True) op_raise. Proof. core_tot. Qed.
Lemma eq_total : op_total (fun _ _ => True) op_eq. Proof. core_tot. Qed.
