(* Classic format: round trip, decoder agreement, limited writer. *)
From Clvm Require Import Model.Classic Proofs.BytesLemmas Proofs.DecoderGeneric Proofs.ClassicAtoms.
From Coq Require Import Lia ZifyBool ZifyN ZifyNat.
Ltac Zify.zify_post_hook ::= Z.div_mod_to_equations.
Open Scope N_scope.

Lemma be_bytes_of_length c v : length (be_bytes_of c v) = c.
Proof. revert v. induction c as [|c IH]; intros v; cbn; [reflexivity|]. rewrite app_length, IH. cbn. lia. Qed.

Lemma be_bytes_of_wf c v : wf_bytes (be_bytes_of c v) = true.
Proof.
  revert v. induction c as [|c IH]; intros v; cbn; [reflexivity|].
  rewrite wf_bytes_app, IH. cbn. unfold wf_byte. 
  assert (v mod 256 < 256) by (apply N.mod_lt; lia). rewrite andb_true_r. lia.
Qed.

Lemma be_bytes_of_value c v : be_value (be_bytes_of c v) = v mod 256 ^ N.of_nat c.
Proof.
  revert v. induction c as [|c IH]; intros v.
  - cbn. rewrite N.mod_1_r. reflexivity.
  - cbn [be_bytes_of]. unfold be_value. rewrite be_acc_app. cbn [be_acc]. fold (be_value (be_bytes_of c (v / 256))).
    rewrite IH. rewrite Nat2N.inj_succ, N.pow_succ_r'.
    assert (0 < 256 ^ N.of_nat c) by (apply N.neq_0_lt_0, N.pow_nonzero; lia).
    set (P := 256 ^ N.of_nat c) in *.
    rewrite N.mod_mul_r by lia. lia.
Qed.

Lemma take_n_app b rest : take_n (blen b) (b ++ rest) = Some (b, rest).
Proof.
  unfold take_n, blen. rewrite app_length. 
  destruct (N.leb_spec (N.of_nat (length b)) (N.of_nat (length b + length rest))); [|lia].
  rewrite Nat2N.id. rewrite firstn_app, Nat.sub_diag, firstn_all, firstn_O, app_nil_r.
  rewrite skipn_app, Nat.sub_diag, skipn_all. reflexivity.
Qed.

Lemma take_n_spec n l a b : take_n n l = Some (a, b) -> l = a ++ b /\ blen a = n.
Proof.
  unfold take_n, blen. destruct (N.leb_spec n (N.of_nat (length l))); [|discriminate].
  intros H0. injection H0 as <- <-. split; [symmetry; apply firstn_skipn|].
  rewrite firstn_length. lia.
Qed.

Lemma wf_atom_0 b : wf_bytes b = true -> atom_0 b < 256.
Proof. destruct b as [|x r]; cbn; [lia|]. intros H. apply andb_prop in H. unfold wf_byte in H. lia. Qed.

(* ---------- one atom: the shape of its canonical encoding ---------- *)
Definition min_size (c : N) : N :=
  if c =? 1 then 1 else if c =? 2 then 0x40 else if c =? 3 then 0x2000 else if c =? 4 then 0x100000 else 0x8000000.

Inductive atom_shape (b e : bytes) : Prop :=
| ShapeNil : b = [] -> e = [0x80] -> atom_shape b e
| ShapeByte x : b = [x] -> x < 0x80 -> e = [x] -> atom_shape b e
| ShapePrefixed c hi more :
    1 <= c <= 5 -> hi < hibound c -> length more = N.to_nat (c - 1) -> wf_bytes more = true ->
    e = (tag_of c + hi) :: more ++ b -> blen b = hi * 256 ^ (c - 1) + be_value more ->
    min_size c <= blen b < 0x400000000 -> (blen b = 1 -> 0x80 <= atom_0 b) ->
    0x80 < tag_of c + hi < 0xfc -> atom_shape b e.

Lemma ser_atom_shape b e : wf_bytes b = true -> ser_atom b = Some e -> atom_shape b e.
Proof.
  intros Hwf Hs. unfold ser_atom in Hs.
  destruct (atom_prefix (atom_0 b) (blen b)) as [p|] eqn:Ep; [|discriminate]. injection Hs as <-.
  assert (Hlt : blen b < 0x400000000).
  { destruct (N.lt_ge_cases (blen b) 0x400000000); [assumption|]. rewrite atom_prefix_none in Ep by assumption. discriminate. }
  rewrite atom_prefix_arith in Ep by assumption. injection Ep as <-.
  destruct (N.eqb_spec (blen b) 0) as [E0|E0].
  { destruct b; [|unfold blen in E0; cbn [length] in E0; lia]. apply ShapeNil; reflexivity. }
  destruct ((blen b =? 1) && (atom_0 b <? 128)) eqn:E1.
  { apply andb_prop in E1. destruct E1 as [E1 E2].
    destruct b as [|x [|y r]]; try (unfold blen in E1; cbn [length] in E1; lia). cbn in E2.
    apply (ShapeByte _ _ x); [reflexivity|lia|reflexivity]. }
  cbv zeta. set (size := blen b) in *. set (c := prefix_class (atom_0 b) size).
  assert (Hc : 1 <= c <= 5 /\ size / 256 ^ (c - 1) < hibound c /\ min_size c <= size).
  { subst c. unfold prefix_class. rewrite E1. destruct (N.eqb_spec size 0); [lia|].
    unfold hibound.
    destruct (size <? 64) eqn:C1; [cbn; split; [lia|]; split; [rewrite N.div_1_r; lia|lia]|].
    destruct (size <? 8192) eqn:C2; [cbn; lia|].
    destruct (size <? 1048576) eqn:C3; [cbn; lia|].
    destruct (size <? 134217728) eqn:C4; [cbn; lia|]. cbn. lia. }
  destruct Hc as (Hc & Hhi & Hmin). clearbody c.
  assert (Hp : 0 < 256 ^ (c - 1)) by (apply N.neq_0_lt_0, N.pow_nonzero; lia).
  apply (ShapePrefixed _ _ c (size / 256 ^ (c - 1)) (be_bytes_of (N.to_nat (c - 1)) (size mod 256 ^ (c - 1)))).
  - lia.
  - assumption.
  - apply be_bytes_of_length.
  - apply be_bytes_of_wf.
  - reflexivity.
  - rewrite be_bytes_of_value, N2Nat.id. rewrite N.mod_mod by lia.
    fold size. pose proof (N.div_mod size (256 ^ (c - 1)) ltac:(lia)) as Hdm.
    rewrite N.mul_comm in Hdm. exact Hdm.
  - lia.
  - intros H1. apply andb_false_iff in E1. destruct E1 as [E1|E1]; lia.
  - set (hi := size / 256 ^ (c - 1)) in *. unfold hibound in Hhi. 
    assert (Hc1 : c = 1 -> 1 <= hi).
    { intros ->. subst hi. change (256 ^ (1 - 1)) with 1. rewrite N.div_1_r. change (min_size 1) with 1 in Hmin. lia. }
    clearbody hi.
    assert (Hcc : c = 1 \/ c = 2 \/ c = 3 \/ c = 4 \/ c = 5) by lia.
    destruct Hcc as [->|[->|[->|[->| ->]]]];
      [change (tag_of 1) with 128; change (2 ^ (7 - 1)) with 64 in Hhi
      |change (tag_of 2) with 192; change (2 ^ (7 - 2)) with 32 in Hhi
      |change (tag_of 3) with 224; change (2 ^ (7 - 3)) with 16 in Hhi
      |change (tag_of 4) with 240; change (2 ^ (7 - 4)) with 8 in Hhi
      |change (tag_of 5) with 248; change (2 ^ (7 - 5)) with 4 in Hhi]; lia.
Qed.

Lemma parse_ser_atom b e rest : wf_bytes b = true -> ser_atom b = Some e ->
  exists first tl, e ++ rest = first :: tl /\ first < 0xfc /\ parse_atom_node first tl = Ok (b, rest).
Proof.
  intros Hwf Hs. destruct (ser_atom_shape b e Hwf Hs) as [-> ->|x -> Hx ->|c hi more Hc Hhi Hl Hw -> Hsz Hmin H1 Hf].
  - exists 0x80, rest. split; [reflexivity|]. split; [lia|]. reflexivity.
  - exists x, rest. split; [reflexivity|]. split; [lia|]. unfold parse_atom_node.
    destruct (N.eqb_spec x 1) as [->|]; [reflexivity|].
    destruct (N.eqb_spec x 128); [lia|]. destruct (N.leb_spec x 127); [reflexivity|lia].
  - exists (tag_of c + hi), (more ++ b ++ rest). split; [cbn; rewrite <- app_assoc; reflexivity|].
    split; [lia|]. unfold parse_atom_node.
    destruct (N.eqb_spec (tag_of c + hi) 1); [lia|]. destruct (N.eqb_spec (tag_of c + hi) 128); [lia|].
    destruct (N.leb_spec (tag_of c + hi) 127); [lia|]. unfold decode_size.
    rewrite decode_size_arith by (assumption || lia).
    destruct (N.ltb_spec 6 c); [lia|]. cbv zeta. rewrite <- Hsz.
    destruct (N.leb_spec 17179869184 (blen b)); [lia|]. cbn [bind].
    rewrite take_n_app. reflexivity.
Qed.

(* ---------- trees: parse (ser t ++ rest) = (t, rest) ---------- *)
Fixpoint depth (t : sexp) : nat :=
  match t with Atom _ => 1%nat | Cons l r => S (Nat.max (depth l) (depth r)) end.

Lemma parse_rec_ser : forall t e rest fuel, wf_sexp t = true -> ser t = Some e -> (depth t <= fuel)%nat ->
  parse_rec read_atom_node Cons fuel (e ++ rest) = Ok (t, rest).
Proof.
  induction t as [b|l IHl r IHr]; intros e rest fuel Hwf Hs Hf.
  - cbn in Hs, Hwf, Hf. destruct fuel as [|f]; [lia|]. cbn [parse_rec].
    destruct (parse_ser_atom b e rest Hwf Hs) as (first & tl & -> & Hne & Hp).
    destruct (N.eqb_spec first 255); [lia|]. unfold read_atom_node. rewrite Hp. reflexivity.
  - cbn in Hs, Hwf, Hf. apply andb_prop in Hwf. destruct Hwf as [Hwl Hwr].
    destruct (ser l) as [a|] eqn:El; [|discriminate]. destruct (ser r) as [c|] eqn:Er; [|discriminate].
    injection Hs as <-. destruct fuel as [|f]; [lia|]. cbn [parse_rec app]. 
    rewrite N.eqb_refl. rewrite <- app_assoc.
    rewrite (IHl a (c ++ rest) f Hwl eq_refl) by lia. cbn [bind].
    rewrite (IHr c rest f Hwr eq_refl) by lia. reflexivity.
Qed.

Lemma ser_length_ge_depth : forall t e, ser t = Some e -> (depth t <= length e)%nat.
Proof.
  induction t as [b|l IHl r IHr]; intros e Hs; cbn in Hs.
  - unfold ser_atom in Hs. destruct (atom_prefix _ _) as [p|] eqn:Ep; [|discriminate]. injection Hs as <-.
    cbn. rewrite app_length. unfold atom_prefix in Ep.
    destruct b as [|x b']; [|cbn; lia]. cbn in Ep. injection Ep as <-. cbn. lia.
  - destruct (ser l) as [a|] eqn:El; [|discriminate]. destruct (ser r) as [c|] eqn:Er; [|discriminate].
    injection Hs as <-. specialize (IHl a eq_refl). specialize (IHr c eq_refl). cbn. rewrite app_length. lia.
Qed.

Theorem parse_ser : forall t e rest, wf_sexp t = true -> ser t = Some e -> parse (e ++ rest) = Ok (t, rest).
Proof.
  intros t e rest Hwf Hs. unfold parse. apply parse_rec_ser; try assumption.
  pose proof (ser_length_ge_depth t e Hs). rewrite app_length. lia.
Qed.

(* ---------- atom readers satisfy the generic side conditions ---------- *)
Lemma decode_size_wo_shrinks b r k size r' :
  decode_size_with_offset b r = Ok (k, size, r') -> (length r' <= length r)%nat.
Proof.
  unfold decode_size_with_offset. destruct (N.land b 128 =? 0); [discriminate|].
  destruct (8 <=? leading_ones8 b); [discriminate|].
  destruct (take_exact _ r) as [[more rest']|] eqn:Et; [|discriminate].
  destruct (6 <? _); [discriminate|]. destruct (_ <=? _); [discriminate|].
  intros H. injection H as _ _ <-. apply take_exact_spec in Et. destruct Et as [-> _]. rewrite app_length. lia.
Qed.

Lemma decode_size_wo_err b r e : decode_size_with_offset b r = Err e ->
  e = SerializationError \/ (e = InternalError 1 /\ N.land b 128 = 0).
Proof.
  unfold decode_size_with_offset. destruct (N.eqb_spec (N.land b 128) 0); [intros H; injection H as <-; right; tauto|].
  destruct (8 <=? leading_ones8 b); [intros H; injection H as <-; left; reflexivity|].
  destruct (take_exact _ r) as [[more rest']|]; [|intros H; injection H as <-; left; reflexivity].
  destruct (6 <? _); [intros H; injection H as <-; left; reflexivity|].
  destruct (_ <=? _); [intros H; injection H as <-; left; reflexivity|discriminate].
Qed.

Lemma decode_size_shrinks b r size r' : decode_size b r = Ok (size, r') -> (length r' <= length r)%nat.
Proof.
  unfold decode_size. destruct (decode_size_with_offset b r) as [[[k s] r0]|] eqn:E; cbn; [|discriminate].
  intros H. injection H as _ <-. eapply decode_size_wo_shrinks; eassumption.
Qed.

Lemma decode_size_err b r e : decode_size b r = Err e ->
  e = SerializationError \/ (e = InternalError 1 /\ N.land b 128 = 0).
Proof.
  unfold decode_size. destruct (decode_size_with_offset b r) as [[[k s] r0]|] eqn:E; cbn; [discriminate|].
  intros H. injection H as <-. eapply decode_size_wo_err; eassumption.
Qed.

Lemma read_atom_node_shrinks b r a r' : read_atom_node b r = Ok (a, r') -> (length r' <= length r)%nat.
Proof.
  unfold read_atom_node, parse_atom_node.
  destruct (b =? 1); [cbn; intros H; injection H as _ <-; lia|].
  destruct (b =? 128); [cbn; intros H; injection H as _ <-; lia|].
  destruct (b <=? 127); [cbn; intros H; injection H as _ <-; lia|].
  destruct (decode_size b r) as [[size r0]|] eqn:E; cbn; [|discriminate].
  apply decode_size_shrinks in E.
  destruct (take_n size r0) as [[blob r1]|] eqn:Et; cbn; [|discriminate].
  intros H. injection H as _ <-. apply take_n_spec in Et. destruct Et as [-> _]. rewrite app_length in E. lia.
Qed.

Lemma read_atom_node_err b r e : read_atom_node b r = Err e -> ~ bad_err e.
Proof.
  unfold read_atom_node, parse_atom_node.
  destruct (b =? 1); [discriminate|]. destruct (b =? 128); [discriminate|]. destruct (b <=? 127); [discriminate|].
  destruct (decode_size b r) as [[size r0]|] eqn:E; cbn.
  - destruct (take_n size r0) as [[blob r1]|]; cbn; [discriminate|].
    intros H. injection H as <-. intros [Hc|[n Hc]]; discriminate.
  - intros H. injection H as <-. apply decode_size_err in E.
    intros [Hc|[n Hc]]; destruct E as [->|[-> _]]; discriminate.
Qed.

(* ---------- node_from_stream = parse ---------- *)
Theorem node_from_stream_parse : forall bs, node_from_stream bs = parse bs.
Proof.
  intros bs. unfold node_from_stream, parse.
  apply de_loop_refines; [exact read_atom_node_shrinks|exact read_atom_node_err].
Qed.

Theorem node_from_stream_total : forall bs e, node_from_stream bs = Err e -> ~ bad_err e.
Proof.
  intros bs e. unfold node_from_stream.
  apply de_loop_total; [exact read_atom_node_shrinks|exact read_atom_node_err].
Qed.

(* ---------- tree_hash_from_stream = treehash after parse ---------- *)
Section HashAgree.
  Variable H : bytes -> bytes.

  Lemma read_atom_hash_map b r :
    read_atom_hash H b r = res_map (lift (treehash H)) (read_atom_node b r).
  Proof.
    unfold read_atom_hash, read_atom_node, parse_atom_node, lift.
    destruct (N.eqb_spec b 1) as [->|N1]; [reflexivity|].
    destruct (N.eqb_spec b 128) as [->|N80]; [reflexivity|].
    destruct (N.leb_spec b 127); [reflexivity|].
    destruct (decode_size b r) as [[size r0]|] eqn:E; cbn [bind res_map]; [|reflexivity].
    unfold take_n. destruct (N.ltb_spec (blen r0) size); destruct (N.leb_spec size (blen r0)); try lia; reflexivity.
  Qed.

  Lemma read_atom_hash_shrinks b r a r' : read_atom_hash H b r = Ok (a, r') -> (length r' <= length r)%nat.
  Proof.
    rewrite read_atom_hash_map. destruct (read_atom_node b r) as [[t r0]|] eqn:E; cbn; [|discriminate].
    intros H0. injection H0 as _ <-. eapply read_atom_node_shrinks; eassumption.
  Qed.

  Lemma read_atom_hash_err b r e : read_atom_hash H b r = Err e -> ~ bad_err e.
  Proof.
    rewrite read_atom_hash_map. destruct (read_atom_node b r) as [[t r0]|] eqn:E; cbn; [discriminate|].
    intros H0. injection H0 as <-. eapply read_atom_node_err; eassumption.
  Qed.

  Theorem tree_hash_from_stream_parse : forall bs,
    tree_hash_from_stream H bs = res_map (lift (treehash H)) (parse bs).
  Proof.
    intros bs. unfold tree_hash_from_stream, parse.
    rewrite de_loop_refines by (exact read_atom_hash_shrinks || exact read_atom_hash_err).
    apply parse_rec_map; [exact read_atom_hash_map|reflexivity].
  Qed.
End HashAgree.
