(* The allocator's integer <-> bytes helpers (Model/Alloc.v: fits_in_small_atom, len_for_value,
   small_bytes, u64_bytes, i64_bytes, strip_leading_zeros . to_signed_bytes_be) agree with the
   canonical encoding bytes_of_int of Model/IntEnc.v and with the reference's r_small_number. *)
From Clvm Require Import Model.Alloc Model.AllocRef Proofs.BytesLemmas Proofs.IntEncBasics Proofs.IntEncProofs.
From Coq Require Import Lia ZifyBool ZifyN ZifyNat.
Ltac Zify.zify_post_hook ::= Z.div_mod_to_equations.
Open Scope N_scope.
Arguments pow256 : simpl never.


Lemma Zp256_1 : Zp256 1 = 256%Z. Proof. reflexivity. Qed.
Lemma Zp256_2 : Zp256 2 = 65536%Z. Proof. reflexivity. Qed.
Lemma Zp256_3 : Zp256 3 = 16777216%Z. Proof. reflexivity. Qed.
Lemma Zp256_4 : Zp256 4 = 4294967296%Z. Proof. reflexivity. Qed.
Lemma Zp256_5 : Zp256 5 = 1099511627776%Z. Proof. reflexivity. Qed.
Lemma Zp256_6 : Zp256 6 = 281474976710656%Z. Proof. reflexivity. Qed.
Lemma Zp256_7 : Zp256 7 = 72057594037927936%Z. Proof. reflexivity. Qed.
Lemma Zp256_8 : Zp256 8 = 18446744073709551616%Z. Proof. reflexivity. Qed.
Lemma Zp256_9 : Zp256 9 = 4722366482869645213696%Z. Proof. reflexivity. Qed.
Lemma pow256_3 : pow256 3 = 16777216. Proof. reflexivity. Qed.
Lemma pow256_8 : pow256 8 = 18446744073709551616. Proof. reflexivity. Qed.

Ltac p256 := rewrite ?Zp256_0, ?Zp256_1, ?Zp256_2, ?Zp256_3, ?Zp256_4, ?Zp256_5, ?Zp256_6,
                     ?Zp256_7, ?Zp256_8, ?Zp256_9.

(* non-negative values: the n-byte encoding, n least with 2v < 256^n *)
Lemma bytes_of_int_nonneg v n :
  (2 * Z.of_N v < Zp256 n)%Z -> (n = 0%nat \/ Zp256 (n - 1) <= 2 * Z.of_N v)%Z ->
  bytes_of_int (Z.of_N v) = be_bytes n v.
Proof.
  intros H1 H2. apply bytes_of_int_char.
  - unfold sfits. pose proof (Zp256_pos n). lia.
  - destruct H2 as [H2|H2]; [left; exact H2|right]. unfold sfits. lia.
  - reflexivity.
Qed.

Lemma len_for_value_spec v :
  v < 2 ^ 26 -> N.to_nat (len_for_value v) = length (bytes_of_int (Z.of_N v)).
Proof.
  change (2 ^ 26) with 67108864. intros Hv. unfold len_for_value.
  destruct (N.eqb_spec v 0) as [E0|E0]; [subst v; reflexivity|].
  destruct (N.ltb_spec v 128) as [E1|E1].
  { rewrite (bytes_of_int_nonneg v 1), be_bytes_length; [reflexivity| |right]; cbn [Nat.sub]; p256; lia. }
  destruct (N.ltb_spec v 32768) as [E2|E2].
  { rewrite (bytes_of_int_nonneg v 2), be_bytes_length; [reflexivity| |right]; cbn [Nat.sub]; p256; lia. }
  destruct (N.ltb_spec v 8388608) as [E3|E3].
  { rewrite (bytes_of_int_nonneg v 3), be_bytes_length; [reflexivity| |right]; cbn [Nat.sub]; p256; lia. }
  destruct (N.ltb_spec v 2147483648) as [E4|E4].
  { rewrite (bytes_of_int_nonneg v 4), be_bytes_length; [reflexivity| |right]; cbn [Nat.sub]; p256; lia. }
  lia.
Qed.

Lemma small_bytes_spec v :
  v <= NODE_PTR_IDX_MASK -> be_bytes (N.to_nat (len_for_value v)) v = bytes_of_int (Z.of_N v).
Proof.
  unfold NODE_PTR_IDX_MASK. intros Hv. unfold len_for_value.
  destruct (N.eqb_spec v 0) as [E0|E0]; [subst v; reflexivity|].
  destruct (N.ltb_spec v 128) as [E1|E1].
  { rewrite (bytes_of_int_nonneg v 1); [reflexivity| |right]; cbn [Nat.sub]; p256; lia. }
  destruct (N.ltb_spec v 32768) as [E2|E2].
  { rewrite (bytes_of_int_nonneg v 2); [reflexivity| |right]; cbn [Nat.sub]; p256; lia. }
  destruct (N.ltb_spec v 8388608) as [E3|E3].
  { rewrite (bytes_of_int_nonneg v 3); [reflexivity| |right]; cbn [Nat.sub]; p256; lia. }
  destruct (N.ltb_spec v 2147483648) as [E4|E4].
  { rewrite (bytes_of_int_nonneg v 4); [reflexivity| |right]; cbn [Nat.sub]; p256; lia. }
  lia.
Qed.


Lemma Some_inj {A} (x y : A) : Some x = Some y -> x = y.
Proof. intros H. congruence. Qed.

Definition small_reject (x0 : N) (rest : bytes) : bool :=
  (4 <? blen (x0 :: rest))
  || ((blen (x0 :: rest) =? 1) && (x0 =? 0))
  || (128 <=? x0)
  || ((x0 =? 0) && match rest with y :: _ => y <? 128 | [] => false end)
  || ((blen (x0 :: rest) =? 4) && (3 <? x0)).

Lemma fits_in_small_atom_cons x0 rest :
  fits_in_small_atom (x0 :: rest) =
  if small_reject x0 rest then None else Some (be_value (x0 :: rest)).
Proof. reflexivity. Qed.

Lemma small_reject_false x0 rest :
  small_reject x0 rest = false <->
  ((length rest <= 3)%nat /\ x0 < 128 /\ canonical_int (x0 :: rest) = true
   /\ (length rest = 3%nat -> x0 <= 3)).
Proof.
  unfold small_reject, blen. cbn [length]. rewrite !orb_false_iff.
  destruct rest as [|y r]; cbn [length canonical_int].
  - destruct (N.eqb_spec x0 0); destruct (N.leb_spec 128 x0); cbn [andb negb];
      rewrite ?andb_false_r; split; intros; repeat split; try discriminate; try lia; try tauto.
    all: try (destruct H as [? [? [? ?]]]; try discriminate; lia).
  - destruct (N.eqb_spec x0 0); destruct (N.eqb_spec x0 255); destruct (N.leb_spec 128 x0);
      destruct (N.ltb_spec y 128); destruct (N.leb_spec 128 y); try lia; cbn [andb orb negb].
    all: split; [intros [[[[A B] C] D] E]|intros [A [B [C D]]]]; try discriminate; try lia.
    all: repeat split; try reflexivity; try lia.
Qed.

Lemma int_of_bytes_lt128 x0 rest :
  x0 < 128 -> int_of_bytes (x0 :: rest) = Z.of_N (be_value (x0 :: rest)).
Proof.
  intros H. rewrite int_of_bytes_eq. destruct (N.leb_spec 128 x0); [lia|reflexivity].
Qed.

Lemma int_of_bytes_nonneg_first x0 rest :
  wf_bytes (x0 :: rest) = true -> (0 <= int_of_bytes (x0 :: rest))%Z -> x0 < 128.
Proof.
  intros W H. rewrite int_of_bytes_eq, <- pow256_pow in H. pose proof (be_value_lt _ W) as Hv.
  destruct (N.leb_spec 128 x0); lia.
Qed.

Lemma be_value_small_bound x0 rest :
  wf_bytes (x0 :: rest) = true -> (length rest <= 3)%nat ->
  (be_value (x0 :: rest) < 67108864 <-> (length rest = 3%nat -> x0 <= 3)).
Proof.
  intros W L. apply wf_cons_inv in W. destruct W as [Hx Wr].
  pose proof (be_value_lt rest Wr) as Hv. rewrite be_value_cons.
  rewrite <- pow256_pow.
  assert (length rest = 3 \/ length rest <= 2)%nat as [E|E] by lia.
  - rewrite E in *. rewrite pow256_3 in *. split; [intros; lia|intros H; specialize (H eq_refl); lia].
  - pose proof (pow256_mono (length rest) 2 E) as M. change (pow256 2) with 65536 in M.
    pose proof (pow256_pos (length rest)).
    split; [intros; lia|intros _].
    assert (x0 * pow256 (length rest) <= 255 * pow256 (length rest)) by (apply N.mul_le_mono_r; lia).
    lia.
Qed.

Lemma fits_in_small_atom_spec b v :
  wf_bytes b = true ->
  (fits_in_small_atom b = Some v <-> (b = bytes_of_int (Z.of_N v) /\ v < 2 ^ 26)).
Proof.
  change (2 ^ 26) with 67108864. intros W. split.
  - intros H. destruct b as [|x0 rest].
    + cbn in H. apply Some_inj in H. subst v. split; [reflexivity|lia].
    + rewrite fits_in_small_atom_cons in H.
      destruct (small_reject x0 rest) eqn:R; [discriminate|]. apply Some_inj in H.
      apply small_reject_false in R. destruct R as [L [X [C T]]].
      split.
      * rewrite <- (canonical_unique _ W C), (int_of_bytes_lt128 _ _ X), H. reflexivity.
      * rewrite <- H. apply (be_value_small_bound x0 rest W L). exact T.
  - intros [E Hv].
    pose proof (bytes_of_int_canonical (Z.of_N v)) as C.
    pose proof (int_of_bytes_of_int (Z.of_N v)) as I.
    assert (length (bytes_of_int (Z.of_N v)) <= 4)%nat as L.
    { apply bytes_of_int_length_le. unfold sfits. rewrite Zp256_4. lia. }
    rewrite <- E in C, I, L. clear E.
    destruct b as [|x0 rest].
    + cbn in I. cbn. f_equal. lia.
    + assert (x0 < 128) as X by (apply (int_of_bytes_nonneg_first x0 rest W); lia).
      rewrite (int_of_bytes_lt128 _ _ X) in I. cbn [length] in L.
      assert (length rest <= 3)%nat as L' by lia.
      rewrite fits_in_small_atom_cons.
      assert (small_reject x0 rest = false) as ->.
      { apply small_reject_false. repeat split; try assumption.
        apply (be_value_small_bound x0 rest W L'). lia. }
      f_equal. lia.
Qed.

Lemma fits_small_roundtrip v :
  v <= NODE_PTR_IDX_MASK -> fits_in_small_atom (bytes_of_int (Z.of_N v)) = Some v.
Proof.
  unfold NODE_PTR_IDX_MASK. intros H. apply fits_in_small_atom_spec.
  - apply bytes_of_int_wf.
  - split; [reflexivity|]. change (2 ^ 26) with 67108864. lia.
Qed.

Lemma fits_in_small_atom_ref b :
  wf_bytes b = true -> fits_in_small_atom b = r_small_number (Atom b).
Proof.
  intros W. unfold r_small_number, R_SMALL_LIMIT.
  destruct (fits_in_small_atom b) as [v|] eqn:F.
  - apply (fits_in_small_atom_spec b v W) in F. destruct F as [E Hv].
    change (2 ^ 26) with 67108864 in Hv.
    rewrite E, bytes_of_int_canonical, int_of_bytes_of_int.
    destruct (Z.leb_spec 0 (Z.of_N v)); [|lia].
    destruct (Z.ltb_spec (Z.of_N v) (Z.of_N 67108864)); [|lia].
    cbn [andb]. rewrite N2Z.id. reflexivity.
  - destruct (canonical_int b) eqn:C; [|reflexivity].
    destruct (Z.leb_spec 0 (int_of_bytes b)) as [H0|H0]; [|reflexivity].
    destruct (Z.ltb_spec (int_of_bytes b) (Z.of_N 67108864)) as [H1|H1]; [|reflexivity].
    exfalso. assert (fits_in_small_atom b = Some (Z.to_N (int_of_bytes b))) as F'.
    { apply (fits_in_small_atom_spec b _ W). rewrite Z2N.id by exact H0.
      split; [symmetry; apply canonical_unique; assumption|]. change (2 ^ 26) with 67108864. lia. }
    congruence.
Qed.

Lemma strip_canonical b : canonical_int b = true -> strip_leading_zeros b = b.
Proof.
  intros C. destruct b as [|x rest]; [reflexivity|].
  destruct x as [|p]; [|reflexivity].
  destruct rest as [|y r]; [discriminate|].
  cbn [canonical_int] in C. cbn [strip_leading_zeros].
  destruct (N.leb_spec 128 y) as [Y|Y]; [reflexivity|].
  exfalso. destruct (N.ltb_spec y 128); [|lia]. cbn in C. discriminate.
Qed.

Lemma strip_to_signed z : strip_leading_zeros (to_signed_bytes_be z) = bytes_of_int z.
Proof.
  destruct z as [|p|p]; [reflexivity| |]; unfold to_signed_bytes_be;
    apply strip_canonical, bytes_of_int_canonical.
Qed.


Lemma u64_buf_skipn v j n :
  v < pow256 8 -> (j + n = 9)%nat -> skipn j (0 :: be_bytes 8 v) = be_bytes n v.
Proof.
  intros Hv E. rewrite (be_bytes_cons0 8 v Hv). rewrite <- E. apply be_bytes_skipn.
Qed.

Lemma u64_bytes_spec v : v < 2 ^ 64 -> u64_bytes v = bytes_of_int (Z.of_N v).
Proof.
  change (2 ^ 64) with 18446744073709551616. intros Hv.
  assert (v < pow256 8) as Hv' by (rewrite pow256_8; exact Hv).
  unfold u64_bytes, u64_start.
  destruct (N.eqb_spec v 0) as [E0|E0]; [subst v; reflexivity|].
  destruct (N.ltb_spec v 128) as [E1|E1].
  { rewrite (bytes_of_int_nonneg v 1); [apply u64_buf_skipn; [exact Hv'|reflexivity]| |right]; cbn [Nat.sub]; p256; lia. }
  destruct (N.ltb_spec v 32768) as [E2|E2].
  { rewrite (bytes_of_int_nonneg v 2); [apply u64_buf_skipn; [exact Hv'|reflexivity]| |right]; cbn [Nat.sub]; p256; lia. }
  destruct (N.ltb_spec v 8388608) as [E3|E3].
  { rewrite (bytes_of_int_nonneg v 3); [apply u64_buf_skipn; [exact Hv'|reflexivity]| |right]; cbn [Nat.sub]; p256; lia. }
  destruct (N.ltb_spec v 2147483648) as [E4|E4].
  { rewrite (bytes_of_int_nonneg v 4); [apply u64_buf_skipn; [exact Hv'|reflexivity]| |right]; cbn [Nat.sub]; p256; lia. }
  destruct (N.ltb_spec v 549755813888) as [E5|E5].
  { rewrite (bytes_of_int_nonneg v 5); [apply u64_buf_skipn; [exact Hv'|reflexivity]| |right]; cbn [Nat.sub]; p256; lia. }
  destruct (N.ltb_spec v 140737488355328) as [E6|E6].
  { rewrite (bytes_of_int_nonneg v 6); [apply u64_buf_skipn; [exact Hv'|reflexivity]| |right]; cbn [Nat.sub]; p256; lia. }
  destruct (N.ltb_spec v 36028797018963968) as [E7|E7].
  { rewrite (bytes_of_int_nonneg v 7); [apply u64_buf_skipn; [exact Hv'|reflexivity]| |right]; cbn [Nat.sub]; p256; lia. }
  destruct (N.ltb_spec v 9223372036854775808) as [E8|E8].
  { rewrite (bytes_of_int_nonneg v 8); [apply u64_buf_skipn; [exact Hv'|reflexivity]| |right]; cbn [Nat.sub]; p256; lia. }
  rewrite (bytes_of_int_nonneg v 9); [apply u64_buf_skipn; [exact Hv'|reflexivity]| |right]; cbn [Nat.sub]; p256; lia.
Qed.

Lemma i64_neg_char z n :
  (z < 0)%Z -> (n <= 8)%nat -> (- Zp256 n <= 2 * z)%Z -> (n = 0%nat \/ 2 * z < - Zp256 (n - 1))%Z ->
  bytes_of_int z = be_bytes n (Z.to_N (z + 18446744073709551616)).
Proof.
  intros Hz Hn H1 H2. apply bytes_of_int_char.
  - unfold sfits. pose proof (Zp256_pos n). lia.
  - destruct H2 as [H2|H2]; [left; exact H2|right]. unfold sfits. lia.
  - pose proof (Zp256_pos n) as Hp.
    assert (- 18446744073709551616 <= 2 * z)%Z as Hlow.
    { pose proof (Zp256_mono n 8 Hn) as M. rewrite Zp256_8 in M. lia. }
    rewrite Z2N.id by lia.
    assert (18446744073709551616 = Zp256 (8 - n) * Zp256 n)%Z as ->.
    { rewrite <- Zp256_8. rewrite !Zp256_Zpow, <- Z.pow_add_r by lia. f_equal. lia. }
    apply Z.mod_add. lia.
Qed.

Lemma i64_bytes_spec z : (- 2 ^ 63 <= z < 2 ^ 63)%Z -> i64_bytes z = bytes_of_int z.
Proof.
  change (2 ^ 63)%Z with 9223372036854775808%Z. intros Hz. unfold i64_bytes.
  destruct (Z.leb_spec 0 z) as [P|Ng].
  - rewrite u64_bytes_spec by (change (2 ^ 64) with 18446744073709551616; lia).
    rewrite Z2N.id by exact P. reflexivity.
  - unfold i64_start. set (w := Z.to_N (z + 18446744073709551616)).
    destruct (Z.leb_spec (-128) z) as [E1|E1].
    { rewrite (i64_neg_char z 1 Ng); [apply (be_bytes_skipn 7 1)|lia| |right]; cbn [Nat.sub]; p256; lia. }
    destruct (Z.leb_spec (-32768) z) as [E2|E2].
    { rewrite (i64_neg_char z 2 Ng); [apply (be_bytes_skipn 6 2)|lia| |right]; cbn [Nat.sub]; p256; lia. }
    destruct (Z.leb_spec (-8388608) z) as [E3|E3].
    { rewrite (i64_neg_char z 3 Ng); [apply (be_bytes_skipn 5 3)|lia| |right]; cbn [Nat.sub]; p256; lia. }
    destruct (Z.leb_spec (-2147483648) z) as [E4|E4].
    { rewrite (i64_neg_char z 4 Ng); [apply (be_bytes_skipn 4 4)|lia| |right]; cbn [Nat.sub]; p256; lia. }
    destruct (Z.leb_spec (-549755813888) z) as [E5|E5].
    { rewrite (i64_neg_char z 5 Ng); [apply (be_bytes_skipn 3 5)|lia| |right]; cbn [Nat.sub]; p256; lia. }
    destruct (Z.leb_spec (-140737488355328) z) as [E6|E6].
    { rewrite (i64_neg_char z 6 Ng); [apply (be_bytes_skipn 2 6)|lia| |right]; cbn [Nat.sub]; p256; lia. }
    destruct (Z.leb_spec (-36028797018963968) z) as [E7|E7].
    { rewrite (i64_neg_char z 7 Ng); [apply (be_bytes_skipn 1 7)|lia| |right]; cbn [Nat.sub]; p256; lia. }
    rewrite (i64_neg_char z 8 Ng); [apply (be_bytes_skipn 0 8)|lia| |right]; cbn [Nat.sub]; p256; lia.
Qed.
