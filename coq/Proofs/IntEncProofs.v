(* Integer encodings (Model/IntEnc.v): be_bytes / be_value are inverse, bytes_of_int is the unique
   canonical (minimal two's-complement) encoding and int_of_bytes its inverse.

   Working notion: [sfits n z] = "z is representable in n bytes two's complement"
   (-256^n <= 2z < 256^n; for n = 0 this is z = 0).  The minimal encoding of z has the least
   length n with [sfits n z] ([bytes_of_int_char]). *)
From Clvm Require Import Model.IntEnc Proofs.BytesLemmas Proofs.IntEncBasics.
From Coq Require Import Lia ZifyBool ZifyN ZifyNat.
Ltac Zify.zify_post_hook ::= Z.div_mod_to_equations.
Open Scope N_scope.
Arguments pow256 : simpl never.


(* ---------------------------------------------------------------- be_bytes *)

Lemma be_bytes_acc_app n v acc : be_bytes_acc n v acc = be_bytes n v ++ acc.
Proof.
  unfold be_bytes. revert v acc. induction n as [|n IH]; intros v acc.
  - reflexivity.
  - rewrite !be_bytes_acc_S. rewrite IH. rewrite (IH (v / 256) [v mod 256]). rewrite <- app_assoc. reflexivity.
Qed.

Lemma be_bytes_S n v : be_bytes (S n) v = be_bytes n (v / 256) ++ [v mod 256].
Proof. unfold be_bytes at 1. rewrite be_bytes_acc_S. apply be_bytes_acc_app. Qed.

Lemma be_bytes_0 v : be_bytes 0 v = [].
Proof. reflexivity. Qed.

Lemma be_bytes_length n v : length (be_bytes n v) = n.
Proof.
  revert v. induction n as [|n IH]; intros v; [reflexivity|].
  rewrite be_bytes_S, app_length, IH. cbn [length]. lia.
Qed.

Lemma be_bytes_wf n v : wf_bytes (be_bytes n v) = true.
Proof.
  revert v. induction n as [|n IH]; intros v; [reflexivity|].
  rewrite be_bytes_S, wf_bytes_app, IH. cbn [wf_bytes forallb andb]. unfold wf_byte.
  rewrite andb_true_r. apply N.ltb_lt. apply N.mod_lt. lia.
Qed.

Lemma be_value_snoc a x : be_value (a ++ [x]) = be_value a * 256 + x.
Proof. unfold be_value. rewrite be_acc_app. cbn [be_acc]. lia. Qed.

Lemma be_value_cons x r : be_value (x :: r) = x * 256 ^ N.of_nat (length r) + be_value r.
Proof.
  unfold be_value at 1. cbn [be_acc]. rewrite be_acc_shift. f_equal.
Qed.

Lemma pow256_S n : pow256 (S n) = 256 * pow256 n.
Proof. rewrite !pow256_pow. rewrite Nat2N.inj_succ, N.pow_succ_r'. reflexivity. Qed.

Lemma pow256_0 : pow256 0 = 1.
Proof. reflexivity. Qed.

Lemma pow256_pos n : 0 < pow256 n.
Proof. induction n as [|n IH]; [rewrite pow256_0|rewrite pow256_S]; lia. Qed.

Lemma pow256_mono m n : (m <= n)%nat -> pow256 m <= pow256 n.
Proof. intros H. rewrite !pow256_pow. apply N.pow_le_mono_r; lia. Qed.

Lemma be_value_be_bytes n v : be_value (be_bytes n v) = (v mod pow256 n)%N.
Proof.
  revert v. induction n as [|n IH]; intros v.
  - rewrite pow256_0, N.mod_1_r. reflexivity.
  - rewrite be_bytes_S, be_value_snoc, IH, pow256_S.
    pose proof (pow256_pos n) as Hp.
    rewrite N.mod_mul_r by lia. lia.
Qed.

Lemma be_value_lt b : wf_bytes b = true -> be_value b < pow256 (length b).
Proof. rewrite pow256_pow. apply be_value_bound. Qed.

Lemma be_bytes_be_value b : wf_bytes b = true -> be_bytes (length b) (be_value b) = b.
Proof.
  induction b as [|x a IH] using rev_ind; intros H; [reflexivity|].
  rewrite wf_bytes_app in H. apply andb_prop in H. destruct H as [Ha Hx].
  cbn in Hx. rewrite andb_true_r in Hx. unfold wf_byte in Hx. apply N.ltb_lt in Hx.
  rewrite app_length. cbn [length]. rewrite Nat.add_1_r, be_bytes_S, be_value_snoc.
  replace ((be_value a * 256 + x) / 256) with (be_value a) by lia.
  replace ((be_value a * 256 + x) mod 256) with x by lia.
  rewrite IH by exact Ha. reflexivity.
Qed.

Lemma be_value_inj a b :
  wf_bytes a = true -> wf_bytes b = true -> length a = length b -> be_value a = be_value b -> a = b.
Proof.
  intros Ha Hb Hl Hv. rewrite <- (be_bytes_be_value a Ha), <- (be_bytes_be_value b Hb), Hl, Hv.
  reflexivity.
Qed.

Lemma be_bytes_mod n v : be_bytes n (v mod pow256 n) = be_bytes n v.
Proof.
  apply be_value_inj; try apply be_bytes_wf.
  - now rewrite !be_bytes_length.
  - rewrite !be_value_be_bytes. pose proof (pow256_pos n). rewrite N.mod_mod by lia. reflexivity.
Qed.

Lemma be_bytes_congr n v w : v mod pow256 n = w mod pow256 n -> be_bytes n v = be_bytes n w.
Proof. intros H. rewrite <- (be_bytes_mod n v), <- (be_bytes_mod n w), H. reflexivity. Qed.

Lemma be_bytes_skipn j n v : skipn j (be_bytes (j + n) v) = be_bytes n v.
Proof.
  revert v. induction n as [|n IH]; intros v.
  - rewrite Nat.add_0_r. rewrite <- (be_bytes_length j v) at 1. apply skipn_all.
  - rewrite Nat.add_succ_r, !be_bytes_S, skipn_app, IH, be_bytes_length.
    replace (j - (j + n))%nat with 0%nat by lia. reflexivity.
Qed.

Lemma be_bytes_cons0 n v : v < pow256 n -> 0 :: be_bytes n v = be_bytes (S n) v.
Proof.
  intros H. apply be_value_inj.
  - rewrite wf_bytes_cons, be_bytes_wf. reflexivity.
  - apply be_bytes_wf.
  - cbn [length]. now rewrite !be_bytes_length.
  - rewrite be_value_cons, !be_value_be_bytes, pow256_S.
    pose proof (pow256_pos n). rewrite !N.mod_small by lia. lia.
Qed.


(* 2 * be_value b reaches 256^len exactly when the first byte has its top bit set *)
Lemma first_byte_test x r :
  wf_bytes (x :: r) = true ->
  (128 <=? x) = (pow256 (length (x :: r)) <=? 2 * be_value (x :: r)).
Proof.
  intros H. rewrite wf_bytes_cons in H. apply andb_prop in H. destruct H as [Hx Hr].
  unfold wf_byte in Hx. apply N.ltb_lt in Hx.
  pose proof (be_value_lt r Hr) as Hv.
  cbn [length]. rewrite pow256_S, be_value_cons. rewrite <- pow256_pow.
  set (Q := pow256 (length r)) in *. set (V := be_value r) in *.
  destruct (N.leb_spec 128 x) as [Hc|Hc]; symmetry.
  - apply N.leb_le. pose proof (N.mul_le_mono_r 128 x Q Hc). lia.
  - apply N.leb_gt. assert (x <= 127) as Hc' by lia.
    pose proof (N.mul_le_mono_r x 127 Q Hc'). lia.
Qed.

Definition Zp256 (n : nat) : Z := Z.of_N (pow256 n).
Definition sfits (n : nat) (z : Z) : Prop := (- Zp256 n <= 2 * z < Zp256 n)%Z.

Lemma Zp256_S n : Zp256 (S n) = (256 * Zp256 n)%Z.
Proof. unfold Zp256. rewrite pow256_S. lia. Qed.
Lemma Zp256_0 : Zp256 0 = 1%Z.
Proof. reflexivity. Qed.
Lemma Zp256_pos n : (0 < Zp256 n)%Z.
Proof. unfold Zp256. pose proof (pow256_pos n). lia. Qed.
Lemma Zp256_mono m n : (m <= n)%nat -> (Zp256 m <= Zp256 n)%Z.
Proof. intros H. unfold Zp256. pose proof (pow256_mono m n H). lia. Qed.
Lemma Zp256_Zpow n : Zp256 n = (256 ^ Z.of_nat n)%Z.
Proof. unfold Zp256. rewrite pow256_pow. rewrite N2Z.inj_pow. f_equal. lia. Qed.

Lemma sfits_mono m n z : (m <= n)%nat -> sfits m z -> sfits n z.
Proof. unfold sfits. intros H F. pose proof (Zp256_mono m n H). lia. Qed.

Lemma int_of_bytes_alt b :
  wf_bytes b = true ->
  int_of_bytes b =
  (if (Zp256 (length b) <=? 2 * Z.of_N (be_value b))%Z then Z.of_N (be_value b) - Zp256 (length b)
   else Z.of_N (be_value b))%Z.
Proof.
  intros H. destruct b as [|x r]; [reflexivity|].
  rewrite int_of_bytes_eq, <- pow256_pow. rewrite (first_byte_test x r H). fold (Zp256 (length (x :: r))).
  unfold Zp256.
  destruct (N.leb_spec (pow256 (length (x :: r))) (2 * be_value (x :: r))) as [Hc|Hc];
  destruct (Z.leb_spec (Z.of_N (pow256 (length (x :: r)))) (2 * Z.of_N (be_value (x :: r)))) as [Hd|Hd];
  try reflexivity; lia.
Qed.

Lemma int_of_bytes_fits b : wf_bytes b = true -> sfits (length b) (int_of_bytes b).
Proof.
  intros H. rewrite (int_of_bytes_alt b H). pose proof (be_value_lt b H) as Hv.
  unfold sfits. fold (Zp256 (length b)).
  assert (Z.of_N (be_value b) < Zp256 (length b))%Z as Hv' by (unfold Zp256; lia).
  destruct (Z.leb_spec (Zp256 (length b)) (2 * Z.of_N (be_value b))); lia.
Qed.

Lemma int_of_bytes_mod b :
  wf_bytes b = true -> (int_of_bytes b mod Zp256 (length b))%Z = Z.of_N (be_value b).
Proof.
  intros H. rewrite (int_of_bytes_alt b H). pose proof (be_value_lt b H) as Hv.
  pose proof (Zp256_pos (length b)) as Hp.
  assert (Z.of_N (be_value b) < Zp256 (length b))%Z as Hv' by (unfold Zp256; lia).
  destruct (Z.leb_spec (Zp256 (length b)) (2 * Z.of_N (be_value b))).
  - symmetry. apply (Z.mod_unique _ _ (-1)); lia.
  - apply Z.mod_small. lia.
Qed.

(* equal length + equal signed value -> equal *)
Lemma int_of_bytes_inj_len a b :
  wf_bytes a = true -> wf_bytes b = true -> length a = length b ->
  int_of_bytes a = int_of_bytes b -> a = b.
Proof.
  intros Ha Hb Hl Hi. apply be_value_inj; try assumption.
  pose proof (int_of_bytes_mod a Ha) as Ma. pose proof (int_of_bytes_mod b Hb) as Mb.
  rewrite Hl, Hi in Ma. lia.
Qed.

(* the value of an n-byte encoding *)
Lemma int_of_be_bytes n z w :
  sfits n z -> (Z.of_N w mod Zp256 n = z mod Zp256 n)%Z -> int_of_bytes (be_bytes n w) = z.
Proof.
  intros F Hw. rewrite int_of_bytes_alt by apply be_bytes_wf.
  rewrite be_bytes_length, be_value_be_bytes.
  pose proof (Zp256_pos n) as Hp. pose proof (pow256_pos n) as Hq.
  assert (Z.of_N (w mod pow256 n) = z mod Zp256 n)%Z as E.
  { rewrite N2Z.inj_mod. fold (Zp256 n). exact Hw. }
  rewrite E. unfold sfits in F.
  destruct (Z.leb_spec (Zp256 n) (2 * (z mod Zp256 n))) as [Hc|Hc].
  - assert (z < 0)%Z as Hz.
    { destruct (Z.lt_ge_cases z 0) as [|Hge]; [assumption|].
      rewrite Z.mod_small in Hc by lia. lia. }
    assert (z mod Zp256 n = z + Zp256 n)%Z as E2.
    { symmetry. apply (Z.mod_unique _ _ (-1)); lia. }
    lia.
  - destruct (Z.lt_ge_cases z 0) as [Hz|Hz].
    + assert (z mod Zp256 n = z + Zp256 n)%Z as E2.
      { symmetry. apply (Z.mod_unique _ _ (-1)); lia. }
      lia.
    + apply Z.mod_small. lia.
Qed.


Lemma wf_cons_inv x r : wf_bytes (x :: r) = true -> x < 256 /\ wf_bytes r = true.
Proof.
  rewrite wf_bytes_cons. intros H. apply andb_prop in H. destruct H as [Hx Hr].
  unfold wf_byte in Hx. apply N.ltb_lt in Hx. split; assumption.
Qed.

Lemma canonical_iff b n :
  wf_bytes b = true -> length b = S n ->
  (canonical_int b = true <-> ~ sfits n (int_of_bytes b)).
Proof.
  intros H L. rewrite (int_of_bytes_alt b H). rewrite L.
  destruct b as [|x [|y r]]; [discriminate| |].
  - cbn in L. assert (n = 0)%nat as -> by lia.
    apply wf_cons_inv in H. destruct H as [Hx _].
    unfold canonical_int, sfits. rewrite Zp256_S, Zp256_0.
    replace (be_value [x]) with x by (unfold be_value; cbn [be_acc]; lia).
    destruct (Z.leb_spec (256 * 1) (2 * Z.of_N x)); destruct (N.eqb_spec x 0); cbn [negb]; split; intros; try discriminate; try reflexivity; try lia.
  - cbn [length] in L. destruct n as [|m]; [discriminate|]. assert (length r = m) as Lr by lia.
    apply wf_cons_inv in H. destruct H as [Hx H]. apply wf_cons_inv in H. destruct H as [Hy Hr].
    pose proof (be_value_lt r Hr) as Hv. rewrite Lr in Hv.
    rewrite !be_value_cons. cbn [length]. rewrite Lr.
    rewrite <- !pow256_pow. rewrite pow256_S.
    unfold sfits. rewrite !Zp256_S. unfold Zp256.
    pose proof (pow256_pos m) as Hq.
    set (Q := pow256 m) in *. set (V := be_value r) in *.
    unfold canonical_int.
    assert (forall k, x <= k -> x * (256 * Q) <= k * (256 * Q)) as Ux
      by (intros k Hk; apply N.mul_le_mono_r; exact Hk).
    assert (forall k, k <= x -> k * (256 * Q) <= x * (256 * Q)) as Lx
      by (intros k Hk; apply N.mul_le_mono_r; exact Hk).
    assert (forall k, y <= k -> y * Q <= k * Q) as Uy
      by (intros k Hk; apply N.mul_le_mono_r; exact Hk).
    assert (forall k, k <= y -> k * Q <= y * Q) as Ly
      by (intros k Hk; apply N.mul_le_mono_r; exact Hk).
    pose proof (Ux 127) as U1. pose proof (Ux 254) as U2. pose proof (Lx 1) as L1.
    pose proof (Lx 128) as L2. pose proof (Uy 127) as U3. pose proof (Ly 128) as L3.
    pose proof (Uy 255) as U4. clear Ux Lx Uy Ly.
    destruct (Z.leb_spec (256 * (256 * Z.of_N Q)) (2 * Z.of_N (x * (256 * Q) + (y * Q + V)))) as [C|C];
    destruct (N.eqb_spec x 0) as [X0|X0]; destruct (N.eqb_spec x 255) as [X255|X255];
    destruct (N.ltb_spec y 128) as [Y|Y]; destruct (N.leb_spec 128 y) as [Y'|Y']; try lia;
    cbn [andb orb negb]; (split; [intros E; try discriminate E; clear E | intros E; try reflexivity; exfalso]); timeout 30 lia.
Qed.


Lemma pow256_pow2 n : pow256 n = 2 ^ (8 * N.of_nat n).
Proof. rewrite pow256_pow. change 256 with (2 ^ 8). rewrite <- N.pow_mul_r. reflexivity. Qed.

Lemma size_lower v : v <> 0 -> 2 ^ (N.size v - 1) <= v.
Proof.
  intros H. rewrite N.size_log2 by exact H.
  replace (N.succ (N.log2 v) - 1) with (N.log2 v) by lia.
  apply N.log2_spec. lia.
Qed.

Lemma nbytes_u_spec v :
  v <> 0 -> (1 <= nbytes_u v)%nat /\ pow256 (nbytes_u v - 1) <= v < pow256 (nbytes_u v).
Proof.
  intros H. pose proof (size_lower v H) as Hl. pose proof (N.size_gt v) as Hu.
  assert (1 <= N.size v) as Hs by (rewrite N.size_log2 by exact H; lia).
  unfold nbytes_u. set (s := N.size v) in *.
  set (k := ((N.to_nat s + 7) / 8)%nat).
  assert (8 * k <= N.to_nat s + 7 < 8 * k + 8)%nat as Hk by (unfold k; lia).
  split; [lia|]. rewrite !pow256_pow2. split.
  - eapply N.le_trans; [|exact Hl]. apply N.pow_le_mono_r; lia.
  - eapply N.lt_le_trans; [exact Hu|]. apply N.pow_le_mono_r; lia.
Qed.

Lemma neg_len_spec p :
  let m := Pos.pred_N p in
  let j := (N.to_nat (N.size m) / 8)%nat in
  pow256 j < 2 * Npos p <= pow256 (S j).
Proof.
  intros m j. pose proof (N.succ_pos_pred p) as Hp. fold m in Hp.
  pose proof (N.size_gt m) as Hu. pose proof (N.size_le m) as Hl.
  rewrite N.succ_double_spec in Hl.
  set (s := N.size m) in *.
  assert (8 * j <= N.to_nat s < 8 * j + 8)%nat as Hj by (unfold j; lia).
  rewrite !pow256_pow2. split.
  - assert (2 ^ (8 * N.of_nat j) <= 2 ^ s) by (apply N.pow_le_mono_r; lia). lia.
  - assert (2 ^ s <= 2 ^ (8 * N.of_nat j + 7)) as H1 by (apply N.pow_le_mono_r; lia).
    replace (8 * N.of_nat (S j)) with (N.succ (8 * N.of_nat j + 7)) by lia.
    rewrite N.pow_succ_r'. lia.
Qed.

Lemma bytes_of_int_repr z :
  exists n, bytes_of_int z = be_bytes n (Z.to_N (z mod Zp256 n))
            /\ sfits n z /\ (n = 0%nat \/ ~ sfits (n - 1) z).
Proof.
  destruct z as [|p|p].
  - exists 0%nat. split; [reflexivity|]. split; [unfold sfits; rewrite Zp256_0; lia|left; reflexivity].
  - unfold bytes_of_int.
    destruct (nbytes_u_spec (Npos p)) as [K1 [K2 K3]]; [discriminate|].
    set (v := Npos p) in *. set (k := nbytes_u v) in *.
    assert (Z.pos p = Z.of_N v) as Ez by reflexivity. rewrite Ez.
    assert (v <> 0) as Hv0 by (unfold v; discriminate). clearbody k. clearbody v. clear Ez.
    pose proof (be_bytes_length k v) as Lk. pose proof (be_bytes_wf k v) as Wk.
    pose proof (be_value_be_bytes k v) as Vk. rewrite N.mod_small in Vk by exact K3.
    destruct (be_bytes k v) as [|x r] eqn:E; [cbn in Lk; lia|].
    rewrite (first_byte_test x r Wk), Lk, Vk. rewrite <- E.
    pose proof (Zp256_pos k) as Pk.
    destruct (N.leb_spec (pow256 k) (2 * v)) as [C|C].
    + exists (S k). assert (sfits (S k) (Z.of_N v)) as F.
      { unfold sfits. rewrite Zp256_S. unfold Zp256. lia. }
      split; [|split; [exact F|right]].
      * rewrite Z.mod_small by (unfold sfits in F; rewrite Zp256_S in *; unfold Zp256 in *; lia).
        rewrite N2Z.id. apply be_bytes_cons0. exact K3.
      * replace (S k - 1)%nat with k by lia. unfold sfits, Zp256. lia.
    + exists k. assert (sfits k (Z.of_N v)) as F.
      { unfold sfits, Zp256. lia. }
      split; [|split; [exact F|right]].
      * rewrite Z.mod_small by (unfold sfits, Zp256 in *; lia). rewrite N2Z.id. reflexivity.
      * unfold sfits, Zp256. pose proof (pow256_pos (k - 1)). lia.
  - unfold bytes_of_int. pose proof (neg_len_spec p) as H. cbv zeta in H.
    set (j := (N.to_nat (N.size (Pos.pred_N p)) / 8)%nat) in *.
    destruct H as [H1 H2].
    exists (S j). split; [|split; [|right]].
    + apply be_bytes_congr. 
      pose proof (pow256_pos (S j)) as Hq.
      assert (Z.neg p mod Zp256 (S j) = Zp256 (S j) - Z.pos p)%Z as E.
      { symmetry. apply (Z.mod_unique _ _ (-1)); unfold Zp256; lia. }
      rewrite E. f_equal. unfold Zp256. lia.
    + unfold sfits, Zp256. lia.
    + replace (S j - 1)%nat with j by lia. unfold sfits, Zp256. lia.
Qed.


Lemma to_N_mod_P z n : (Z.of_N (Z.to_N (z mod Zp256 n)) mod Zp256 n = z mod Zp256 n)%Z.
Proof.
  pose proof (Zp256_pos n) as Hp.
  rewrite Z2N.id by (apply Z.mod_pos_bound; exact Hp).
  apply Z.mod_mod. lia.
Qed.

Lemma bytes_of_int_wf z : wf_bytes (bytes_of_int z) = true.
Proof. destruct (bytes_of_int_repr z) as [n [E _]]. rewrite E. apply be_bytes_wf. Qed.

Lemma int_of_bytes_of_int z : int_of_bytes (bytes_of_int z) = z.
Proof.
  destruct (bytes_of_int_repr z) as [n [E [F _]]]. rewrite E.
  apply int_of_be_bytes; [exact F|apply to_N_mod_P].
Qed.

(* the length of the minimal encoding is the least n that sfits *)
Lemma bytes_of_int_length_fits z :
  sfits (length (bytes_of_int z)) z
  /\ (length (bytes_of_int z) = 0%nat \/ ~ sfits (length (bytes_of_int z) - 1) z).
Proof.
  destruct (bytes_of_int_repr z) as [n [E [F G]]]. rewrite E, be_bytes_length. split; assumption.
Qed.

Lemma bytes_of_int_length_le z n : sfits n z -> (length (bytes_of_int z) <= n)%nat.
Proof.
  intros F. destruct (bytes_of_int_length_fits z) as [_ [G|G]]; [lia|].
  destruct (Nat.le_gt_cases (length (bytes_of_int z)) n) as [|Hgt]; [assumption|].
  exfalso. apply G. apply (sfits_mono n); [lia|exact F].
Qed.

Lemma bytes_of_int_canonical z : canonical_int (bytes_of_int z) = true.
Proof.
  destruct (bytes_of_int_length_fits z) as [_ G].
  destruct (bytes_of_int z) as [|x r] eqn:E; [reflexivity|].
  rewrite <- E in *. 
  assert (length (bytes_of_int z) = S (length r)) as L by (rewrite E; reflexivity).
  apply (canonical_iff _ (length r)); [apply bytes_of_int_wf|exact L|].
  rewrite int_of_bytes_of_int. destruct G as [G|G]; [lia|].
  rewrite L in G. replace (S (length r) - 1)%nat with (length r) in G by lia. exact G.
Qed.

Lemma canonical_length_eq a b :
  wf_bytes a = true -> wf_bytes b = true -> canonical_int a = true -> canonical_int b = true ->
  int_of_bytes a = int_of_bytes b -> length a = length b.
Proof.
  assert (forall a b, wf_bytes a = true -> wf_bytes b = true -> canonical_int a = true ->
                      int_of_bytes a = int_of_bytes b -> (length a <= length b)%nat) as Hle.
  { clear. intros a b Ha Hb Ca E.
    destruct a as [|x r]; [cbn [length]; lia|].
    destruct (Nat.le_gt_cases (length (x :: r)) (length b)) as [|Hgt]; [assumption|exfalso].
    pose proof (proj1 (canonical_iff (x :: r) (length r) Ha eq_refl) Ca) as NF.
    apply NF. rewrite E. apply (sfits_mono (length b)); [cbn [length] in Hgt; lia|].
    apply int_of_bytes_fits. exact Hb. }
  intros Ha Hb Ca Cb E. apply Nat.le_antisymm; [apply Hle|apply Hle]; auto.
Qed.

Lemma int_of_bytes_inj_canonical a b :
  wf_bytes a = true -> wf_bytes b = true -> canonical_int a = true -> canonical_int b = true ->
  int_of_bytes a = int_of_bytes b -> a = b.
Proof.
  intros Ha Hb Ca Cb E. apply int_of_bytes_inj_len; try assumption.
  apply canonical_length_eq; assumption.
Qed.

Lemma canonical_unique b :
  wf_bytes b = true -> canonical_int b = true -> bytes_of_int (int_of_bytes b) = b.
Proof.
  intros H C. apply int_of_bytes_inj_canonical; try assumption.
  - apply bytes_of_int_wf.
  - apply bytes_of_int_canonical.
  - apply int_of_bytes_of_int.
Qed.

Lemma bytes_of_int_minimal b :
  wf_bytes b = true -> (length (bytes_of_int (int_of_bytes b)) <= length b)%nat.
Proof. intros H. apply bytes_of_int_length_le. apply int_of_bytes_fits. exact H. Qed.

(* characterisation: the n-byte encoding with n minimal *)
Lemma bytes_of_int_char z n w :
  sfits n z -> (n = 0%nat \/ ~ sfits (n - 1) z) -> (Z.of_N w mod Zp256 n = z mod Zp256 n)%Z ->
  bytes_of_int z = be_bytes n w.
Proof.
  intros F G Hw.
  assert (int_of_bytes (be_bytes n w) = z) as E by (apply int_of_be_bytes; assumption).
  rewrite <- E at 1. apply canonical_unique; [apply be_bytes_wf|].
  destruct n as [|m]; [reflexivity|].
  apply (canonical_iff _ m); [apply be_bytes_wf|apply be_bytes_length|].
  rewrite E. destruct G as [G|G]; [discriminate|].
  replace (S m - 1)%nat with m in G by lia. exact G.
Qed.

(* range lemmas in the 256^n / 2 form *)
Lemma int_of_bytes_range b :
  wf_bytes b = true -> (0 < length b)%nat ->
  (- (256 ^ Z.of_nat (length b) / 2) <= int_of_bytes b < 256 ^ Z.of_nat (length b) / 2)%Z.
Proof.
  intros H L. pose proof (int_of_bytes_fits b H) as F. unfold sfits in F.
  rewrite <- Zp256_Zpow. destruct (length b) as [|m]; [lia|]. rewrite Zp256_S in *. lia.
Qed.

Lemma canonical_range b :
  wf_bytes b = true -> (1 <= length b)%nat -> canonical_int b = true ->
  ~ (- 256 ^ Z.of_nat (length b - 1) <= 2 * int_of_bytes b < 256 ^ Z.of_nat (length b - 1))%Z.
Proof.
  intros H L C. destruct b as [|x r]; [cbn in L; lia|].
  pose proof (proj1 (canonical_iff (x :: r) (length r) H eq_refl) C) as NF.
  cbn [length]. replace (S (length r) - 1)%nat with (length r) by lia.
  rewrite <- Zp256_Zpow. exact NF.
Qed.
