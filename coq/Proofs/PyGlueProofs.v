(* The API glue (Model/PyGlue.v): which bits of the flag word reach the dialect, the heap limit,
   composition with the classic decoder, format dispatch. *)
From Clvm Require Import Model.PyGlue Proofs.BytesLemmas Proofs.ClassicProofs Proofs.ClassicWriter.
From Coq Require Import Lia.
Open Scope N_scope.

Lemma has_truncate w b : N.land ALL_FLAG_BITS b = b -> has (from_bits_truncate w) b = has w b.
Proof. intros H. unfold has, from_bits_truncate. rewrite <- N.land_assoc, H. reflexivity. Qed.

(* the dialect sees exactly the defined flags of the word *)
Theorem flags_truncate w : flags_of_N (from_bits_truncate w) = flags_of_N w.
Proof. unfold flags_of_N. rewrite !has_truncate by reflexivity. reflexivity. Qed.

(* no undefined bit survives *)
Theorem truncate_defined_only w b : N.land ALL_FLAG_BITS b = 0 -> N.land (from_bits_truncate w) b = 0.
Proof. intros H. unfold from_bits_truncate. rewrite <- N.land_assoc, H. apply N.land_0_r. Qed.

Theorem truncate_idem w : from_bits_truncate (from_bits_truncate w) = from_bits_truncate w.
Proof. unfold from_bits_truncate. rewrite <- N.land_assoc, N.land_diag. reflexivity. Qed.

Theorem heap_limit_spec w :
  api_heap_limit (from_bits_truncate w) = if N.testbit w 2 then 500000000 else 4294967295.
Proof.
  unfold api_heap_limit. rewrite has_truncate by reflexivity. unfold has, BIT_LIMIT_HEAP.
  change 4 with (2 ^ 2). destruct (N.testbit w 2) eqn:E.
  - assert (H : N.land w (2 ^ 2) <> 0).
    { intros Hc. assert (Hb : N.testbit (N.land w (2 ^ 2)) 2 = true) by (rewrite N.land_spec, E, N.pow2_bits_true; reflexivity).
      rewrite Hc in Hb. discriminate. }
    destruct (N.eqb_spec (N.land w (2 ^ 2)) 0); [contradiction|reflexivity].
  - assert (H : N.land w (2 ^ 2) = 0).
    { apply N.bits_inj. intros i. rewrite N.land_spec, N.bits_0.
      destruct (N.eq_dec i 2) as [->|Hi]; [rewrite E; reflexivity|].
      rewrite N.pow2_bits_false by congruence. apply andb_false_r. }
    rewrite H. reflexivity.
Qed.

Section RunProofs.
  Variable core_run : N -> N -> sexp -> sexp -> N -> (N * sexp) + (errkind * sexp).

  Lemma node_from_bytes_ser t e : wf_sexp t = true -> ser t = Some e -> node_from_bytes e = Ok t.
  Proof.
    intros Hwf Hs. unfold node_from_bytes. rewrite <- (app_nil_r e).
    rewrite (node_from_stream_ser t e [] Hwf Hs). reflexivity.
  Qed.

  (* on serialized program and environment the API is the adapted core run with the truncated
     flags and the chosen heap limit *)
  Theorem api_run_spec : forall p a pe ae max_cost flags,
    wf_sexp p = true -> wf_sexp a = true -> ser p = Some pe -> ser a = Some ae ->
    flags < 2 ^ 32 -> max_cost < 2 ^ 64 ->
    run_serialized_chia_program core_run pe ae max_cost flags =
      adapt_response (core_run (from_bits_truncate flags)
                               (if N.testbit flags 2 then 500000000 else 4294967295) p a max_cost).
  Proof.
    intros p a pe ae max_cost flags Hwp Hwa Hp Ha Hf Hc. unfold run_serialized_chia_program.
    change (2 ^ 32) with 4294967296 in Hf. change (2 ^ 64) with 18446744073709551616 in Hc.
    destruct (N.leb_spec 4294967296 flags); [lia|]. destruct (N.leb_spec 18446744073709551616 max_cost); [lia|].
    cbn [orb]. rewrite (node_from_bytes_ser p pe Hwp Hp), (node_from_bytes_ser a ae Hwa Ha), heap_limit_spec.
    reflexivity.
  Qed.

  Theorem api_run_undecodable : forall pe ae max_cost flags e,
    flags < 2 ^ 32 -> max_cost < 2 ^ 64 -> node_from_bytes pe = Err e ->
    run_serialized_chia_program core_run pe ae max_cost flags = ApiRaise e.
  Proof.
    intros pe ae max_cost flags e Hf Hc He. unfold run_serialized_chia_program.
    change (2 ^ 32) with 4294967296 in Hf. change (2 ^ 64) with 18446744073709551616 in Hc.
    destruct (N.leb_spec 4294967296 flags); [lia|]. destruct (N.leb_spec 18446744073709551616 max_cost); [lia|].
    cbn [orb]. rewrite He. reflexivity.
  Qed.
End RunProofs.

Lemma strip_prefix_app p b : strip_prefix p (p ++ b) = Some b.
Proof. induction p as [|x p IH]; cbn; [reflexivity|]. rewrite N.eqb_refl. exact IH. Qed.

Lemma strip_prefix_some p b body : strip_prefix p b = Some body -> b = p ++ body.
Proof.
  revert b. induction p as [|x p IH]; intros b H; cbn in H; [injection H as <-; reflexivity|].
  destruct b as [|y b]; [discriminate|]. destruct (N.eqb_spec x y) as [->|]; [|discriminate].
  cbn. f_equal. apply IH. exact H.
Qed.

Section DispatchProofs.
  Context {V : Type}.
  Variables de_2026 de_2026_body de_backrefs : bytes -> res V.

  Theorem deser_auto_2026 body :
    deser_auto de_2026_body de_backrefs (MAGIC_2026 ++ body) =
      match de_2026_body body with Ok v => inl v | Err e => inr (MsgEval e) end.
  Proof. unfold deser_auto. rewrite strip_prefix_app. reflexivity. Qed.

  Theorem deser_auto_other blob : (forall body, blob <> MAGIC_2026 ++ body) ->
    deser_auto de_2026_body de_backrefs blob =
      match de_backrefs blob with Ok v => inl v | Err e => inr (MsgEval e) end.
  Proof.
    intros H. unfold deser_auto. destruct (strip_prefix MAGIC_2026 blob) as [body|] eqn:E; [|reflexivity].
    apply strip_prefix_some in E. exfalso. exact (H body E).
  Qed.
End DispatchProofs.
