(* C11 at run level: the value of a run does not depend on the cost model. Proved on the big-step
   evaluator (Model/BigStep.v, equivalent to the machine by Proofs/BigStepEquiv.v) by induction
   on the evaluation: paths, quotes and `a` are cost-model free, operators by their contracts
   (X_cm_indep, lifted to ChiaDialect::op here), and a completed softfork guard yields nil
   whatever happens inside it - which matters, because inside a guard the two cost models do run
   different operator sets (extension 0 gains keccak under NEW_COST_MODEL). *)
From Coq Require Import Lia ZifyBool ZifyN ZifyNat.
From Clvm Require Import Model.Dialect Model.BigStep Proofs.OpContractDefs Proofs.OpContractsCore
  Proofs.OpContractsMore Proofs.OpContractsMore2 Proofs.OpContractsCrypto Proofs.DialectContracts
  Proofs.BigStepEquiv.
Open Scope N_scope.

(* ------------------------------------------------------------------ operators *)
Lemma all_ops_cm P : Forall op_cm_indep (all_ops P).
Proof.
  unfold all_ops.
  repeat (constructor; [first
    [ apply if_cm_indep | apply cons_cm_indep | apply first_cm_indep | apply rest_cm_indep | apply listp_cm_indep
    | apply raise_cm_indep | apply eq_cm_indep | apply gr_bytes_cm_indep | apply sha256_cm_indep | apply substr_cm_indep
    | apply strlen_cm_indep | apply concat_cm_indep | apply add_cm_indep | apply subtract_cm_indep | apply multiply_cm_indep
    | apply div_cm_indep | apply divmod_cm_indep | apply gr_cm_indep | apply ash_cm_indep | apply lsh_cm_indep
    | apply logand_cm_indep | apply logior_cm_indep | apply logxor_cm_indep | apply lognot_cm_indep
    | apply point_add_cm_indep | apply pubkey_for_exp_cm_indep | apply not_cm_indep | apply any_cm_indep | apply all_cm_indep
    | apply coinid_p_cm_indep | apply bls_g1_subtract_cm_indep | apply bls_g1_multiply_cm_indep | apply bls_g1_negate_cm_indep
    | apply bls_g2_add_cm_indep | apply bls_g2_subtract_cm_indep | apply bls_g2_multiply_cm_indep | apply bls_g2_negate_cm_indep
    | apply bls_map_to_g1_cm_indep | apply bls_map_to_g2_cm_indep | apply bls_pairing_identity_cm_indep | apply bls_verify_cm_indep
    | apply modpow_cm_indep | apply mod_cm_indep | apply keccak256_cm_indep | apply sha256_tree_cm_indep
    | apply secp256k1_verify_cm_indep | apply secp256r1_verify_cm_indep ]|]).
  constructor.
Qed.

(* the dispatch table under two flag sets that differ in the cost model (and LIMITS) only: the
   same operator function, or one of the two is a dispatch error *)
Definition table_rel (x y : option (res opfn)) : Prop :=
  match x, y with
  | Some (Ok g), Some (Ok g') => g = g'
  | None, None => True
  | Some (Err _), _ | _, Some (Err _) => True
  | _, _ => False
  end.

Lemma chia_table_cm P f f' op : same_but_cost_model f f' ->
  table_rel (chia_table P f op) (chia_table P f' op).
Proof.
  intros (_ & _ & _ & _ & _ & _ & Hk & Hd & Hs & Hc & _).
  unfold chia_table. rewrite Hk, Hd, Hs, Hc.
  destruct op as [|p]; [exact I|].
  do 7 (try (destruct p as [p|p|]; try exact I; try reflexivity));
    repeat match goal with |- context [if ?c then _ else _] => destruct c end;
    try exact I; reflexivity.
Qed.

Lemma chia_op_cm P know4 f0 f0' o a m m' c v c' v' : same_but_cost_model f0 f0' ->
  chia_op P know4 f0 o a m OsDefault = Ok (c, v) ->
  chia_op P know4 f0' o a m' OsDefault = Ok (c', v') -> v = v'.
Proof.
  intros Hf. unfold chia_op. cbn [op_flags]. destruct o as [b|]; [|discriminate].
  destruct (length b =? 4)%nat.
  { destruct (know4 && bytes_eqb b SECP256K1_OPCODE)%bool; [apply secp256k1_verify_cm_indep; exact Hf|].
    destruct (know4 && bytes_eqb b SECP256R1_OPCODE)%bool; [apply secp256r1_verify_cm_indep; exact Hf|].
    apply unknown_operator_cm_indep; exact Hf. }
  destruct (negb _); [apply unknown_operator_cm_indep; exact Hf|].
  destruct (small_number (Atom b)) as [op|]; [|apply unknown_operator_cm_indep; exact Hf].
  pose proof (chia_table_cm P f0 f0' op Hf) as T. unfold table_rel in T.
  destruct (chia_table P f0 op) as [[g|]|] eqn:E1; destruct (chia_table P f0' op) as [[g'|]|] eqn:E2;
    try contradiction; try discriminate.
  - subst g'. apply chia_table_in in E1.
    pose proof (all_ops_cm P) as A. rewrite Forall_forall in A. apply (A g E1). exact Hf.
  - apply unknown_operator_cm_indep; exact Hf.
Qed.

(* ------------------------------------------------------------------ the evaluator *)
Section TwoModels.
  Variables d1 d2 : dialect.
  Variables M1 M2 : N.
  Hypothesis Hq : d_quote d1 = d_quote d2.
  Hypothesis Ha : d_apply d1 = d_apply d2.
  Hypothesis Hs : d_softfork d1 = d_softfork d2.
  (* operators outside every guard: both succeed -> same value *)
  Hypothesis Hop : forall o a m m' c v c' v',
    d_op d1 o a m OsDefault = Ok (c, v) -> d_op d2 o a m' OsDefault = Ok (c', v') -> v = v'.

  Definition ev_rel (ev1 ev2 : list guard -> N -> sexp -> sexp -> res (N * sexp)) : Prop :=
    forall cost1 cost2 p e c1 v1 c2 v2,
    ev1 [] cost1 p e = Ok (c1, v1) -> ev2 [] cost2 p e = Ok (c2, v2) -> v1 = v2.

  Lemma guard_big_nil d M ev gs cost args c v : guard_big d M ev gs cost args = Ok (c, v) -> v = nil_s.
  Proof.
    unfold guard_big. destruct (first args); cbn [bind]; [|discriminate].
    destruct (uint_atom 8 _ _); cbn [bind]; [|discriminate].
    destruct (_ <? _); [discriminate|]. destruct (_ =? 0); [discriminate|].
    destruct (parse_softfork_arguments d args) as [[[ext prg] env]|].
    2:{ destruct (d_allow_unknown d); [|discriminate]. intros H; injection H as _ <-. reflexivity. }
    destruct (_ && _)%bool; [discriminate|].
    match goal with |- context [ev ?G ?C prg env] => destruct (ev G C prg env) as [[c1 v0]|]; cbn [bind]; [|discriminate] end.
    destruct (chk _ _ _); cbn [bind]; [|discriminate].
    destruct (_ && _)%bool; [discriminate|]. intros H; injection H as _ <-. reflexivity.
  Qed.

  Section Rel.
    Variables ev1 ev2 : list guard -> N -> sexp -> sexp -> res (N * sexp).
    Hypothesis Hrel : ev_rel ev1 ev2.

    Lemma eval_args_rel env : forall ol cost1 cost2 c1 tl1 c2 tl2,
      eval_args M1 ev1 [] cost1 ol env = Ok (c1, tl1) ->
      eval_args M2 ev2 [] cost2 ol env = Ok (c2, tl2) -> tl1 = tl2.
    Proof.
      induction ol as [b|a _ r IH]; intros cost1 cost2 c1 tl1 c2 tl2 H1 H2; cbn [eval_args] in *.
      - injection H1 as _ <-. injection H2 as _ <-. reflexivity.
      - destruct (eval_args M1 ev1 [] cost1 r env) as [[x1 t1]|] eqn:E1; cbn [bind] in H1; [|discriminate].
        destruct (eval_args M2 ev2 [] cost2 r env) as [[x2 t2]|] eqn:E2; cbn [bind] in H2; [|discriminate].
        destruct (chk [] M1 x1); cbn [bind] in H1; [|discriminate].
        destruct (chk [] M2 x2); cbn [bind] in H2; [|discriminate].
        destruct (ev1 [] x1 a env) as [[y1 w1]|] eqn:A1; cbn [bind] in H1; [|discriminate].
        destruct (ev2 [] x2 a env) as [[y2 w2]|] eqn:A2; cbn [bind] in H2; [|discriminate].
        destruct (chk [] M1 y1); cbn [bind] in H1; [|discriminate].
        destruct (chk [] M2 y2); cbn [bind] in H2; [|discriminate].
        injection H1 as _ <-. injection H2 as _ <-.
        rewrite (IH _ _ _ _ _ _ E1 E2), (Hrel _ _ _ _ _ _ _ _ A1 A2). reflexivity.
    Qed.

    Lemma apply_big_rel cost1 cost2 operator args c1 v1 c2 v2 :
      apply_big d1 M1 ev1 [] cost1 operator args = Ok (c1, v1) ->
      apply_big d2 M2 ev2 [] cost2 operator args = Ok (c2, v2) -> v1 = v2.
    Proof.
      unfold apply_big. rewrite <- Ha, <- Hs.
      destruct (chk [] M1 cost1); cbn [bind]; [|discriminate].
      destruct (chk [] M2 cost2); cbn [bind]; [|discriminate].
      destruct (is_kw operator (d_apply d1)).
      - destruct (get_args2 args) as [[no env]|]; cbn [bind]; [|discriminate]. apply Hrel.
      - destruct (is_kw operator (d_softfork d1)).
        + intros H1 H2. rewrite (guard_big_nil _ _ _ _ _ _ _ _ H1), (guard_big_nil _ _ _ _ _ _ _ _ H2). reflexivity.
        + cbn [gs_ext].
          destruct (d_op d1 operator args _ _) as [[x1 w1]|] eqn:E1; cbn [bind]; [|discriminate].
          destruct (d_op d2 operator args _ _) as [[x2 w2]|] eqn:E2; cbn [bind]; [|discriminate].
          intros H1 H2. injection H1 as _ <-. injection H2 as _ <-. eapply Hop; eassumption.
    Qed.

    Lemma eval_body_rel : ev_rel (eval_body d1 M1 ev1) (eval_body d2 M2 ev2).
    Proof.
      intros cost1 cost2 p e c1 v1 c2 v2. unfold eval_body. destruct p as [b|opn opl].
      - destruct (traverse_path b e) as [[c v]|]; cbn [bind]; [|discriminate].
        intros H1 H2. injection H1 as _ <-. injection H2 as _ <-. reflexivity.
      - destruct opn as [b|no tl].
        + rewrite <- Hq. destruct (is_kw (Atom b) (d_quote d1)).
          * intros H1 H2. injection H1 as _ <-. injection H2 as _ <-. reflexivity.
          * destruct (nil_terminated opl); cbn [bind]; [|discriminate].
            destruct (eval_args M1 ev1 [] _ opl e) as [[x1 a1]|] eqn:E1; cbn [bind]; [|discriminate].
            destruct (eval_args M2 ev2 [] _ opl e) as [[x2 a2]|] eqn:E2; cbn [bind]; [|discriminate].
            rewrite <- (eval_args_rel _ _ _ _ _ _ _ _ E1 E2).
            destruct (apply_big d1 M1 ev1 [] x1 (Atom b) a1) as [[y1 w1]|] eqn:A1; cbn [bind]; [|discriminate].
            destruct (apply_big d2 M2 ev2 [] x2 (Atom b) a1) as [[y2 w2]|] eqn:A2; cbn [bind]; [|discriminate].
            pose proof (apply_big_rel _ _ _ _ _ _ _ _ A1 A2) as ->.
            intros H1 H2.
            assert (v1 = w2).
            { destruct (d_gc d1 (Atom b)); [destruct (chk [] M1 y1); cbn [bind] in H1; [|discriminate]|];
                injection H1 as _ <-; reflexivity. }
            assert (v2 = w2).
            { destruct (d_gc d2 (Atom b)); [destruct (chk [] M2 y2); cbn [bind] in H2; [|discriminate]|];
                injection H2 as _ <-; reflexivity. }
            congruence.
        + destruct tl; [destruct no|]; try discriminate. apply apply_big_rel.
    Qed.
  End Rel.

  Lemma eval_rel f1 : forall f2, ev_rel (eval d1 M1 f1) (eval d2 M2 f2).
  Proof.
    induction f1 as [|f1 IH]; intros f2 cost1 cost2 p e c1 v1 c2 v2 H1 H2; [discriminate|].
    destruct f2 as [|f2]; [discriminate|]. cbn [eval] in *.
    exact (eval_body_rel _ _ (IH f2) _ _ _ _ _ _ _ _ H1 H2).
  Qed.

  Lemma run_big_rel f1 f2 p e c1 v1 c2 v2 :
    run_big d1 M1 f1 p e = Ok (c1, v1) -> run_big d2 M2 f2 p e = Ok (c2, v2) -> v1 = v2.
  Proof.
    unfold run_big.
    destruct (eval d1 M1 f1 [] 0 p e) as [[x1 w1]|] eqn:E1; cbn [bind]; [|discriminate].
    destruct (eval d2 M2 f2 [] 0 p e) as [[x2 w2]|] eqn:E2; cbn [bind]; [|discriminate].
    destruct (chk [] M1 x1); cbn [bind]; [|discriminate].
    destruct (chk [] M2 x2); cbn [bind]; [|discriminate].
    intros H1 H2. injection H1 as _ <-. injection H2 as _ <-.
    exact (eval_rel _ _ _ _ _ _ _ _ _ _ E1 E2).
  Qed.
End TwoModels.

(* the machine: two dialects that agree on the keywords and whose operators outside guards are
   value-equal when both succeed give value-equal runs when both succeed - any budgets, any fuel *)
Theorem run_program_value_indep d1 d2 :
  d_quote d1 = d_quote d2 -> d_apply d1 = d_apply d2 -> d_softfork d1 = d_softfork d2 ->
  (forall o a m m' c v c' v',
     d_op d1 o a m OsDefault = Ok (c, v) -> d_op d2 o a m' OsDefault = Ok (c', v') -> v = v') ->
  forall fuel1 fuel2 p e M1 M2 c1 v1 c2 v2,
  run_program d1 fuel1 p e M1 = Ok (c1, v1) -> run_program d2 fuel2 p e M2 = Ok (c2, v2) -> v1 = v2.
Proof.
  intros Hq Ha Hs Hop fuel1 fuel2 p e M1 M2 c1 v1 c2 v2 H1 H2.
  destruct (proj1 (run_program_big_equiv d1 p e M1 (c1, v1)) (ex_intro _ fuel1 H1)) as (f1 & B1).
  destruct (proj1 (run_program_big_equiv d2 p e M2 (c2, v2)) (ex_intro _ fuel2 H2)) as (f2 & B2).
  unfold run_program_big in B1, B2.
  exact (run_big_rel d1 d2 _ _ Hq Ha Hs Hop f1 f2 p e c1 v1 c2 v2 B1 B2).
Qed.

(* ChiaDialect under two flag sets that differ in NEW_COST_MODEL (and LIMITS) only *)
Lemma dialect_flags_same f f' : same_but_cost_model f f' ->
  same_but_cost_model (dialect_flags f) (dialect_flags f').
Proof.
  intros H. unfold dialect_flags. destruct (f_new_cost_model f), (f_new_cost_model f'); exact H.
Qed.

Theorem chia_run_cm_indep P f f' : same_but_cost_model f f' ->
  forall fuel1 fuel2 p e M1 M2 c1 v1 c2 v2,
  run_program (chia_dialect P f) fuel1 p e M1 = Ok (c1, v1) ->
  run_program (chia_dialect P f') fuel2 p e M2 = Ok (c2, v2) -> v1 = v2.
Proof.
  intros Hf. apply run_program_value_indep; try reflexivity.
  intros o a m m' c v c' v'. cbn [chia_dialect d_op]. apply chia_op_cm. apply dialect_flags_same. exact Hf.
Qed.

(* F and F + NEW_COST_MODEL *)
Definition with_new_cost_model (f : flagset) : flagset :=
  {| f_canonical_ints := f_canonical_ints f; f_no_unknown_ops := f_no_unknown_ops f;
     f_limit_heap := f_limit_heap f; f_relaxed_bls := f_relaxed_bls f;
     f_limit_softfork := f_limit_softfork f; f_enable_gc := f_enable_gc f;
     f_limits := f_limits f; f_keccak_outside_guard := f_keccak_outside_guard f;
     f_disable_op := f_disable_op f; f_sha256_tree := f_sha256_tree f;
     f_secp_ops := f_secp_ops f; f_malachite := f_malachite f;
     f_new_cost_model := true |}.

Lemma with_ncm_same f : same_but_cost_model f (with_new_cost_model f).
Proof. repeat split. Qed.

Theorem chia_run_new_cost_model P f fuel1 fuel2 p e M1 M2 c1 v1 c2 v2 :
  run_program (chia_dialect P f) fuel1 p e M1 = Ok (c1, v1) ->
  run_program (chia_dialect P (with_new_cost_model f)) fuel2 p e M2 = Ok (c2, v2) -> v1 = v2.
Proof. apply chia_run_cm_indep. apply with_ncm_same. Qed.

(* RuntimeDialect (does not normalise its flags; its table does not read them) *)
Lemma runtime_op_cm P f f' o a m m' ext ext' c v c' v' : same_but_cost_model f f' ->
  runtime_op P f o a m ext = Ok (c, v) -> runtime_op P f' o a m' ext' = Ok (c', v') -> v = v'.
Proof.
  intros Hf. unfold runtime_op. destruct o as [b|]; [|discriminate].
  destruct b as [|x [|y r]]; try (apply unknown_operator_cm_indep; exact Hf).
  destruct (runtime_table P x) as [g|] eqn:E; [|apply unknown_operator_cm_indep; exact Hf].
  apply runtime_table_in in E. pose proof (all_ops_cm P) as A. rewrite Forall_forall in A.
  apply (A g E). exact Hf.
Qed.

Theorem runtime_run_cm_indep P f f' : same_but_cost_model f f' ->
  forall fuel1 fuel2 p e M1 M2 c1 v1 c2 v2,
  run_program (runtime_dialect P f) fuel1 p e M1 = Ok (c1, v1) ->
  run_program (runtime_dialect P f') fuel2 p e M2 = Ok (c2, v2) -> v1 = v2.
Proof.
  intros Hf. apply run_program_value_indep; try reflexivity.
  intros o a m m' c v c' v'. cbn [runtime_dialect d_op]. apply runtime_op_cm. exact Hf.
Qed.
