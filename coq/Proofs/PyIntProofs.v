(* casts.py int_to_bytes (Model/PyCodec.v py_int_to_bytes) = the canonical encoding bytes_of_int,
   for every integer. Uses the characterisation of canonical encodings of Proofs/IntEncProofs.v
   (canonical_unique, int_of_be_bytes); nothing about the round trip is re-proved here. *)
From Clvm Require Import Model.PyCodec Proofs.BytesLemmas Proofs.IntEncBasics Proofs.IntEncProofs Proofs.ClassicAtoms.
From Coq Require Import Lia ZifyBool ZifyN ZifyNat.
Ltac Zify.zify_post_hook ::= Z.div_mod_to_equations.
Open Scope N_scope.
Arguments pow256 : simpl never.
Arguments N.add : simpl never.
Arguments N.mul : simpl never.
Arguments N.eqb : simpl never.
Arguments N.ltb : simpl never.
Arguments N.leb : simpl never.

Lemma land80_sweep : forallb (fun y => Bool.eqb (negb (N.land y 0x80 =? 0)) (128 <=? y)) (nrange 256) = true.
Proof. vm_compute. reflexivity. Qed.

Lemma land80 y : y < 256 -> negb (N.land y 0x80 =? 0) = (128 <=? y).
Proof.
  intros Hy. pose proof (proj1 (forallb_forall _ _) land80_sweep y (nrange_in 256 y ltac:(lia))) as H.
  apply eqb_prop in H. exact H.
Qed.

Lemma pow_len_cons {A} (x : A) (r : list A) : 256 ^ N.of_nat (length (x :: r)) = 256 * 256 ^ N.of_nat (length r).
Proof. cbn [length]. rewrite Nat2N.inj_succ, N.pow_succ_r'. reflexivity. Qed.

(* dropping a redundant leading sign byte does not change the number *)
Lemma sign_ext_0 y t : y < 128 -> int_of_bytes (0 :: y :: t) = int_of_bytes (y :: t).
Proof.
  intros Hy. rewrite !int_of_bytes_eq. rewrite (be_value_cons 0).
  destruct (N.leb_spec 128 0); [lia|]. destruct (N.leb_spec 128 y); [lia|]. lia.
Qed.

Lemma sign_ext_ff y t : wf_bytes (y :: t) = true -> 128 <= y ->
  int_of_bytes (255 :: y :: t) = int_of_bytes (y :: t).
Proof.
  intros Hwf Hy. rewrite !int_of_bytes_eq. rewrite (be_value_cons 255), (pow_len_cons 255).
  destruct (N.leb_spec 128 255); [|lia]. destruct (N.leb_spec 128 y); [|lia].
  pose proof (be_value_bound (y :: t) Hwf) as Hb.
  set (Q := 256 ^ N.of_nat (length (y :: t))) in *. set (B := be_value (y :: t)) in *. lia.
Qed.

(* the `while` loop of int_to_bytes yields the canonical encoding of the number it is given *)
Lemma py_strip_spec : forall r, wf_bytes r = true -> int_of_bytes r <> 0%Z ->
  py_strip r = bytes_of_int (int_of_bytes r).
Proof.
  induction r as [|x r IH]; intros Hwf Hnz; [exfalso; apply Hnz; reflexivity|].
  destruct r as [|y t].
  - cbn [py_strip]. symmetry. apply canonical_unique; [exact Hwf|].
    cbn [canonical_int]. destruct (N.eqb_spec x 0) as [->|]; [exfalso; apply Hnz; reflexivity|reflexivity].
  - apply wf_cons_inv in Hwf. destruct Hwf as [Hx Hwf']. pose proof Hwf' as Hwf2.
    apply wf_cons_inv in Hwf2. destruct Hwf2 as [Hy _].
    cbn [py_strip]. rewrite (land80 y Hy).
    assert (Hwf : wf_bytes (x :: y :: t) = true).
    { rewrite wf_bytes_cons. apply andb_true_intro. split; [unfold wf_byte; lia|exact Hwf']. }
    destruct (N.leb_spec 128 y) as [Hy128|Hy128].
    + destruct (N.eqb_spec x 255) as [->|Hne].
      * rewrite (sign_ext_ff y t Hwf' Hy128) in *. apply IH; assumption.
      * symmetry. apply canonical_unique; [exact Hwf|]. cbn [canonical_int].
        destruct (N.eqb_spec x 0); destruct (N.eqb_spec x 255); destruct (N.ltb_spec y 128);
          destruct (N.leb_spec 128 y); try lia; reflexivity.
    + destruct (N.eqb_spec x 0) as [->|Hne].
      * rewrite (sign_ext_0 y t Hy128) in *. apply IH; assumption.
      * symmetry. apply canonical_unique; [exact Hwf|]. cbn [canonical_int].
        destruct (N.eqb_spec x 0); destruct (N.eqb_spec x 255); destruct (N.ltb_spec y 128);
          destruct (N.leb_spec 128 y); try lia; reflexivity.
Qed.

(* byte_count = (bit_length + 8) // 8 bytes always hold the number *)
Lemma byte_count_fits v : v <> 0%Z ->
  let bc := N.to_nat ((py_bit_length v + 8) / 8) in
  (1 <= bc)%nat /\ 2 * Z.abs_N v < pow256 bc.
Proof.
  intros Hv bc. unfold py_bit_length in bc.
  set (a := Z.abs_N v) in *. pose proof (N.size_gt a) as Hs. set (s := N.size a) in *.
  assert (Hbc : 8 * N.of_nat bc <= s + 8 < 8 * N.of_nat bc + 8) by (unfold bc; lia).
  split; [lia|]. rewrite pow256_pow2.
  assert (H2 : 2 ^ (s + 1) <= 2 ^ (8 * N.of_nat bc)) by (apply N.pow_le_mono_r; lia).
  rewrite N.pow_add_r in H2. change (2 ^ 1) with 2 in H2. lia.
Qed.

Theorem py_int_to_bytes_spec : forall v, py_int_to_bytes v = PyOk (bytes_of_int v).
Proof.
  intros v. unfold py_int_to_bytes. destruct (Z.eqb_spec v 0) as [->|Hv]; [reflexivity|].
  destruct (byte_count_fits v Hv) as [Hbc Hfit].
  set (bc := N.to_nat ((py_bit_length v + 8) / 8)) in *.
  unfold py_to_bytes_signed.
  (* pow256 bc is even and v lies in the signed range: no OverflowError *)
  destruct bc as [|k] eqn:Ebc; [lia|]. rewrite <- Ebc in *.
  assert (HP : pow256 bc = 256 * pow256 k) by (rewrite Ebc; apply pow256_S).
  pose proof (pow256_pos k) as Hk.
  assert (Hhalf : Z.of_N (pow256 bc / 2) = (128 * Z.of_N (pow256 k))%Z) by lia.
  assert (Hrange : ((- Z.of_N (pow256 bc / 2) <=? v) && (v <? Z.of_N (pow256 bc / 2)))%Z = true).
  { rewrite Hhalf. apply andb_true_intro. split; lia. }
  rewrite Hrange. cbn [pybind]. f_equal.
  set (w := Z.to_N (v mod Z.of_N (pow256 bc))).
  assert (Hs : sfits bc v) by (unfold sfits, Zp256; lia).
  assert (Hval : int_of_bytes (be_bytes bc w) = v).
  { apply int_of_be_bytes; [exact Hs|]. unfold w. apply (to_N_mod_P v bc). }
  rewrite (py_strip_spec (be_bytes bc w)); [rewrite Hval; reflexivity|apply be_bytes_wf|rewrite Hval; exact Hv].
Qed.
