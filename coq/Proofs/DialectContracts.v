(* The operator contracts lifted from the single operators (Proofs/OpContracts*.v) to the
   dispatch functions of ChiaDialect, the extension-hiding dialect and RuntimeDialect, for every
   flag set and every set of cryptographic primitives. *)
From Coq Require Import Lia ZifyBool ZifyN ZifyNat.
From Clvm Require Import Model.Dialect Proofs.OpContractDefs Proofs.OpContractsCore Proofs.OpContractsMore
  Proofs.OpContractsCrypto Proofs.MachineBudget.
Open Scope N_scope.

(* every operator function either dispatch table can return *)
Definition all_ops (P : prims) : list opfn :=
  [op_if; op_cons; op_first; op_rest; op_listp; op_raise; op_eq; op_gr_bytes; op_sha256 (p_sha256 P);
   op_substr; op_strlen; op_concat; op_add; op_subtract; op_multiply; op_div; op_divmod; op_gr; op_ash;
   op_lsh; op_logand; op_logior; op_logxor; op_lognot; op_point_add P; op_pubkey_for_exp P; op_not;
   op_any; op_all; op_coinid_p P; op_bls_g1_subtract P; op_bls_g1_multiply P; op_bls_g1_negate P;
   op_bls_g2_add P; op_bls_g2_subtract P; op_bls_g2_multiply P; op_bls_g2_negate P; op_bls_map_to_g1 P;
   op_bls_map_to_g2 P; op_bls_pairing_identity P; op_bls_verify P; op_modpow; op_mod; op_keccak256 P;
   op_sha256_tree (p_sha256 P); op_secp256k1_verify P; op_secp256r1_verify P].

Ltac in_all_ops := unfold all_ops; cbn [In]; tauto.

Ltac crack_table H :=
  repeat match type of H with
         | (if ?c then _ else _) = _ => destruct c
         | match ?p with xH => _ | xO _ => _ | xI _ => _ end = _ => destruct p
         | match ?n with N0 => _ | Npos _ => _ end = _ => destruct n
         end; try discriminate H.

Lemma chia_table_in P flags op f : chia_table P flags op = Some (Ok f) -> In f (all_ops P).
Proof.
  unfold chia_table. intros H. crack_table H; injection H as <-; in_all_ops.
Qed.

Lemma runtime_table_in P op f : runtime_table P op = Some f -> In f (all_ops P).
Proof.
  unfold runtime_table. intros H. crack_table H; injection H as <-; in_all_ops.
Qed.

(* ------------------------------------------------------------------ budget *)
Lemma all_ops_budget P : Forall op_budget (all_ops P).
Proof.
  unfold all_ops.
  repeat (constructor; [first
    [ apply if_budget | apply cons_budget | apply first_budget | apply rest_budget | apply listp_budget
    | apply raise_budget | apply eq_budget | apply gr_bytes_budget | apply sha256_budget | apply substr_budget
    | apply strlen_budget | apply concat_budget | apply add_budget | apply subtract_budget | apply multiply_budget
    | apply div_budget | apply divmod_budget | apply gr_budget | apply ash_budget | apply lsh_budget
    | apply logand_budget | apply logior_budget | apply logxor_budget | apply lognot_budget
    | apply point_add_budget | apply pubkey_for_exp_budget | apply not_budget | apply any_budget | apply all_budget
    | apply coinid_p_budget | apply bls_g1_subtract_budget | apply bls_g1_multiply_budget | apply bls_g1_negate_budget
    | apply bls_g2_add_budget | apply bls_g2_subtract_budget | apply bls_g2_multiply_budget | apply bls_g2_negate_budget
    | apply bls_map_to_g1_budget | apply bls_map_to_g2_budget | apply bls_pairing_identity_budget | apply bls_verify_budget
    | apply modpow_budget | apply mod_budget | apply keccak256_budget | apply sha256_tree_budget
    | apply secp256k1_verify_budget | apply secp256r1_verify_budget ]|]).
  constructor.
Qed.

Lemma op_budget_weaken op : op_budget op -> op_budget_mono op.
Proof. intros H f a m c v E m'. destruct (H f a m c v E m') as (H1 & _ & H3). split; assumption. Qed.

Lemma chia_op_budget P know4 f0 : forall o a m ext c v,
  chia_op P know4 f0 o a m ext = Ok (c, v) ->
  forall m', (m <= m' -> chia_op P know4 f0 o a m' ext = Ok (c, v)) /\
             (chia_op P know4 f0 o a m' ext = Ok (c, v) \/ chia_op P know4 f0 o a m' ext = Err CostExceeded).
Proof.
  intros o a m ext c v H m'. unfold chia_op in *. destruct o as [b|]; [|discriminate].
  pose proof (all_ops_budget P) as HA. rewrite Forall_forall in HA.
  destruct (length b =? 4)%nat.
  - destruct (know4 && bytes_eqb b SECP256K1_OPCODE)%bool.
    { apply (op_budget_weaken _ (secp256k1_verify_budget P) _ _ _ _ _ H). }
    destruct (know4 && bytes_eqb b SECP256R1_OPCODE)%bool.
    { apply (op_budget_weaken _ (secp256r1_verify_budget P) _ _ _ _ _ H). }
    apply (unknown_operator_budget_mono b _ _ _ _ _ H).
  - destruct (negb (length b =? 1)%nat); [apply (unknown_operator_budget_mono b _ _ _ _ _ H)|].
    destruct (small_number (Atom b)) as [op|]; [|apply (unknown_operator_budget_mono b _ _ _ _ _ H)].
    destruct (chia_table P (op_flags f0 ext) op) as [[f|e]|] eqn:T.
    + apply chia_table_in in T. apply (op_budget_weaken _ (HA _ T) _ _ _ _ _ H).
    + discriminate.
    + apply (unknown_operator_budget_mono b _ _ _ _ _ H).
Qed.

Theorem chia_dop_budget P flags : dop_budget (chia_dialect P flags).
Proof. intros o a m ext c v H. apply chia_op_budget. exact H. Qed.

Theorem hiding_dop_budget P flags : dop_budget (hiding_dialect P flags).
Proof. intros o a m ext c v H. apply chia_op_budget. exact H. Qed.

Theorem runtime_dop_budget P flags : dop_budget (runtime_dialect P flags).
Proof.
  intros o a m ext c v H m'. cbn [d_op runtime_dialect] in *. unfold runtime_op in *.
  destruct o as [b|]; [|discriminate].
  pose proof (all_ops_budget P) as HA. rewrite Forall_forall in HA.
  destruct b as [|x [|y r]]; try apply (unknown_operator_budget_mono _ _ _ _ _ _ H).
  destruct (runtime_table P x) as [f|] eqn:T.
  - apply runtime_table_in in T. apply (op_budget_weaken _ (HA _ T) _ _ _ _ _ H).
  - apply (unknown_operator_budget_mono _ _ _ _ _ _ H).
Qed.

(* tightness: every operator except the unknown-operator rule under the pre-hard-fork cost model
   (finding F6); so the contract holds for every dialect with NEW_COST_MODEL *)
Lemma unknown_tight_new o f a m c v : f_new_cost_model f = true ->
  unknown_operator o f a m = Ok (c, v) -> forall m', c <= m' -> unknown_operator o f a m' = Ok (c, v).
Proof.
  intros Hn H m' Hc.
  destruct (unknown_operator_budget_if o f a m c v (or_introl Hn) H m') as (_ & H2 & _). exact (H2 Hc).
Qed.

Theorem runtime_dop_tight_new P flags : f_new_cost_model flags = true -> dop_tight (runtime_dialect P flags).
Proof.
  intros Hn o a m ext c v H m' Hc. cbn [d_op runtime_dialect] in *. unfold runtime_op in *.
  destruct o as [b|]; [|discriminate].
  pose proof (all_ops_budget P) as HA. rewrite Forall_forall in HA.
  destruct b as [|x [|y r]]; try (eapply unknown_tight_new; eassumption).
  destruct (runtime_table P x) as [f|] eqn:T.
  - apply runtime_table_in in T. destruct (HA _ T _ _ _ _ _ H m') as (_ & H2 & _). exact (H2 Hc).
  - eapply unknown_tight_new; eassumption.
Qed.

(* ------------------------------------------------------------------ tightness outside the F6 class *)
From Clvm Require Import Proofs.MachineRestrict Proofs.MachineTight Proofs.MachineBasics.

(* the "barrier" dialect: ChiaDialect, except that an operator call whose unknown-operator cost
   product would wrap 64 bits pre-hard-fork (finding F6) is reported as Err (Overflow 64). A run
   on this dialect that does not end in that error is a run of ChiaDialect that never meets the
   F6 class. (The test is applied to every opcode; for assigned one-byte opcodes the multiplier is
   0 and the test can only fire on operand sizes beyond 2^60 bytes.) *)
Definition nowrap_op (P : prims) (know4 : bool) (f0 : flagset) (o args : sexp) (m : N) (ext : opset) :=
  match o with
  | Atom b => if unknown_no_wrap_b b (op_flags f0 ext) args then chia_op P know4 f0 o args m ext
              else Err (Overflow 64)
  | Cons _ _ => chia_op P know4 f0 o args m ext
  end.

Definition nowrap_dialect (P : prims) (flags : flagset) : dialect :=
  let f0 := dialect_flags flags in
  {| d_flags := f0; d_quote := 1; d_apply := 2; d_softfork := 36;
     d_ext := softfork_extension f0;
     d_allow_unknown := negb (f_no_unknown_ops f0);
     d_gc := gc_candidate f0;
     d_op := nowrap_op P true f0 |}.

Lemma nowrap_dop_budget P flags : dop_budget (nowrap_dialect P flags).
Proof.
  intros o a m ext c v H m'. cbn [d_op nowrap_dialect] in *. unfold nowrap_op in *.
  destruct o as [b|]; [|apply chia_op_budget; exact H].
  destruct (unknown_no_wrap_b b _ a); [apply chia_op_budget; exact H|discriminate].
Qed.

Lemma nowrap_dop_tight P flags : dop_tight (nowrap_dialect P flags).
Proof.
  intros o a m ext c v H m' Hc. cbn [d_op nowrap_dialect] in *. unfold nowrap_op in *.
  destruct o as [b|]; [|discriminate].
  destruct (unknown_no_wrap_b b _ a) eqn:NW; [|discriminate].
  apply unknown_no_wrap_b_sound in NW.
  assert (U : forall f, f = op_flags (dialect_flags flags) ext ->
              unknown_operator b f a m = Ok (c, v) -> unknown_operator b f a m' = Ok (c, v)).
  { intros f -> HU. destruct (unknown_operator_budget_if b _ a m c v NW HU m') as (_ & H2 & _). exact (H2 Hc). }
  unfold chia_op in *.
  pose proof (all_ops_budget P) as HA. rewrite Forall_forall in HA.
  destruct (length b =? 4)%nat.
  - destruct (true && bytes_eqb b SECP256K1_OPCODE)%bool.
    { destruct (secp256k1_verify_budget P _ _ _ _ _ H m') as (_ & H2 & _). exact (H2 Hc). }
    destruct (true && bytes_eqb b SECP256R1_OPCODE)%bool.
    { destruct (secp256r1_verify_budget P _ _ _ _ _ H m') as (_ & H2 & _). exact (H2 Hc). }
    apply (U _ eq_refl H).
  - destruct (negb (length b =? 1)%nat); [apply (U _ eq_refl H)|].
    destruct (small_number (Atom b)) as [op|]; [|apply (U _ eq_refl H)].
    destruct (chia_table P (op_flags (dialect_flags flags) ext) op) as [[f|e]|] eqn:T.
    + apply chia_table_in in T. destruct (HA _ T _ _ _ _ _ H m') as (_ & H2 & _). exact (H2 Hc).
    + discriminate.
    + apply (U _ eq_refl H).
Qed.

(* a success of the barrier dialect is the same success of ChiaDialect *)
Lemma nowrap_restricts P flags fuel p e M r :
  run_program (nowrap_dialect P flags) fuel p e M = Ok r ->
  run_program (chia_dialect P flags) fuel p e M = Ok r.
Proof.
  intros H.
  assert (Hop : forall o a m ext, rr (fun e => e = Overflow 64) (nowrap_op P true (dialect_flags flags) o a m ext)
                                     (chia_op P true (dialect_flags flags) o a m ext)).
  { intros o a m ext. unfold nowrap_op. destruct o as [b|]; [|apply rr_refl].
    destruct (unknown_no_wrap_b b _ a); [apply rr_refl|left; reflexivity]. }
  pose proof (run_program_rel (nowrap_dialect P flags) (chia_dialect P flags) (fun e => e = Overflow 64)
    eq_refl eq_refl (fun _ => eq_refl) Hop) as R.
  assert (HG : guards_agree (nowrap_dialect P flags) (chia_dialect P flags) (fun e => e = Overflow 64)).
  { repeat split; try reflexivity; try (left; reflexivity). intros size t. apply rr_refl. }
  specialize (R (or_intror HG) fuel p e M). rewrite H in R. exact R.
Qed.

(* C02 tightness for ChiaDialect under the pre-hard-fork cost model, outside the F6 class *)
Theorem chia_tight_outside_F6 P flags : f_new_cost_model flags = false ->
  forall fuel p e M1 M2 C v,
  run_program (nowrap_dialect P flags) fuel p e M1 = Ok (C, v) ->
  (run_program (chia_dialect P flags) fuel p e M2 = Ok (C, v) <-> C <= eff M2).
Proof.
  intros Hn fuel p e M1 M2 C v H1. split.
  - apply run_program_sound.
  - intros HC. apply nowrap_restricts.
    refine (proj2 (run_program_tight (nowrap_dialect P flags) (nowrap_dop_budget P flags) (nowrap_dop_tight P flags) _
                     fuel p e M1 M2 C v H1) HC).
    intros x. cbn [d_ext nowrap_dialect]. unfold softfork_extension, dialect_flags. rewrite Hn. rewrite Hn.
    destruct (x =? 0); [discriminate|]. destruct (x =? 1); discriminate.
Qed.
