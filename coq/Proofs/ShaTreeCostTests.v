(* C23: TESTS (not theorems): the hand-derived recurrences [native_cost] / [clvm_cost] of
   Model/ShaTreeCost.v against the machine [run_chia], by computation, on small trees of every
   shape under both cost models; and the hex string of the tool against the program tree. *)
From Clvm Require Import Model.ShaTreeCost Model.Sha256 Proofs.IntEncProofs.
Open Scope N_scope.

(* a cheap stand-in hash with 32-byte results (the statements are generic in the hash) *)
Definition toy_hash (b : bytes) : bytes := be_bytes 32 (be_value b * 2654435761 + 97).

Lemma toy_hash_len b : blen (toy_hash b) = 32.
Proof. unfold toy_hash, blen. rewrite be_bytes_length. reflexivity. Qed.

Definition test_prims (H : bytes -> bytes) : prims :=
  {| p_sha256 := H; p_keccak256 := fun _ => [];
     p_g1_valid := fun _ => false; p_g2_valid := fun _ => false;
     p_g1_add := fun _ _ => []; p_g1_neg := fun _ => []; p_g1_mul := fun _ _ => [];
     p_g1_gen_mul := fun _ => [];
     p_g2_add := fun _ _ => []; p_g2_neg := fun _ => []; p_g2_mul := fun _ _ => [];
     p_g1_map := fun _ _ => []; p_g2_map := fun _ _ => [];
     p_pairing_identity := fun _ => false; p_aggregate_verify := fun _ _ => false;
     p_k1_pubkey_ok := fun _ => false; p_k1_sig_ok := fun _ => false; p_k1_verify := fun _ _ _ => false;
     p_r1_pubkey_ok := fun _ => false; p_r1_sig_ok := fun _ => false; p_r1_verify := fun _ _ _ => false |}.

Definition test_fuel : nat := (300 * 300)%nat.

(* both programs on t under both models: costs = closed forms, value = treehash *)
Definition agree (H : bytes -> bytes) (t : sexp) : bool :=
  forallb (fun ncm =>
    match run_chia (test_prims H) test_fuel (c23_flags ncm) (native_prog t) nil_s 0,
          run_chia (test_prims H) test_fuel (c23_flags ncm) sha256tree_prog t 0 with
    | Ok (c1, v1), Ok (c2, v2) =>
        (c1 =? native_cost ncm t) && (c2 =? clvm_cost ncm t)
        && sexp_eqb v1 (Atom (treehash H t)) && sexp_eqb v2 (Atom (treehash H t))
        && (c1 <? c2)
    | _, _ => false
    end) [false; true].

Definition A (l : bytes) := Atom l.
Fixpoint complete (d : nat) (leaf : sexp) : sexp :=
  match d with O => leaf | S k => Cons (complete k leaf) (complete k leaf) end.
Fixpoint rlist (n : nat) (x : sexp) : sexp :=
  match n with O => nil_s | S k => Cons x (rlist k x) end.
Fixpoint llist (n : nat) (x : sexp) : sexp :=
  match n with O => nil_s | S k => Cons (llist k x) x end.

Definition test_trees : list sexp :=
  [ A []; A [0]; A [1]; A [36]; A [37]; A [0x80]; A [1;2;3]; A (repeat 0xff 100); A (repeat 0 1000);
    Cons (A []) (A []); Cons (A [1]) (A [2;3]); Cons (Cons (A [1]) (A [])) (A [5;6;7]);
    Cons (A [9]) (Cons (A [8]) (A [7]));
    complete 2 (A [0xff; 0xff]); complete 3 (A []); complete 4 (A [1]);
    rlist 7 (A [1;2]); llist 7 (A [3]); rlist 3 (complete 2 (A [4]));
    Cons (llist 4 (A (repeat 7 70))) (rlist 4 (Cons (A [1]) (A (repeat 9 33)))) ].

Example clvm_cost_agrees_with_machine : forallb (agree toy_hash) test_trees = true.
Proof. vm_compute. reflexivity. Qed.

(* with the real SHA-256 (slow under vm_compute: two small trees) *)
Example clvm_cost_agrees_sha256 :
  forallb (agree sha256) [A [1;2;3]; Cons (A [1]) (Cons (A []) (A [2;3]))] = true.
Proof. vm_compute. reflexivity. Qed.

(* the tool's hex string is the classic serialization of the program tree *)
Example prog_hex_decodes : node_from_bytes sha256tree_prog_hex = Ok sha256tree_prog.
Proof. vm_compute. reflexivity. Qed.
Example prog_hex_encodes : ser sha256tree_prog = Some sha256tree_prog_hex.
Proof. vm_compute. reflexivity. Qed.

(* the numbers of docs/sha256tree.md ("cost for hashing complete tree", 2^9 leaves;
   leaf size 0 / 2 / 1000; pre-hard-fork model): all six figures are reproduced exactly. *)
Example doc_figures :
  let t0 := complete 9 (A []) in let t2 := complete 9 (A [0xff;0xff]) in
  let t1000 := complete 9 (A (repeat 0xff 1000)) in
  (clvm_cost false t0, clvm_cost false t2, clvm_cost false t1000) = (1560188, 1562236, 2584188) /\
  (native_cost false t0, native_cost false t2, native_cost false t1000) = (236695, 238743, 1260695).
Proof. vm_compute. split; reflexivity. Qed.
