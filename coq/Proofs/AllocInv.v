(* The invariant of allocator histories (arena side): well-formed heap, the three caps, every
   live node valid, every live checkpoint restorable. Preserved by every operation of every
   history, provided new_substr's copy-to-heap branch (finding F2) is either repaired (fx = true)
   or not taken. Consequences: the caps of C13 and the immutability of C14. *)
From Clvm Require Import Model.AllocHist Proofs.BytesLemmas Proofs.IntEncBasics Proofs.AllocHeap Proofs.AllocOps.
From Coq Require Import Lia ZifyBool ZifyN ZifyNat.
Open Scope N_scope.
Arguments N.add : simpl never.
Arguments N.sub : simpl never.
Arguments N.mul : simpl never.
Arguments N.eqb : simpl never.
Arguments N.ltb : simpl never.
Arguments N.leb : simpl never.

Definition cp_tcp (e : cpent) : tcheckpoint := match e with CFull c _ => c_inner c | CTrans c _ => c end.
Definition cp_nl (e : cpent) : N := match e with CFull _ nl | CTrans _ nl => nl end.
Definition cp_counts_ok (limit : N) (e : cpent) : Prop :=
  match e with
  | CFull c _ => c_atoms (c_inner c) + c_ga c <= MAX_NUM_ATOMS /\ c_pairs (c_inner c) + c_gp c <= MAX_NUM_PAIRS /\
                 c_u8s (c_inner c) + c_gh c <= limit
  | CTrans _ _ => True
  end.

(* live checkpoints, newest first: each can be restored to, and what it leaves is again a good state *)
Fixpoint cps_ok (limit : N) (h : heap) (ns : list nodeptr) (cps : list cpent) : Prop :=
  match cps with
  | [] => True
  | e :: rest =>
      tcp_le (cp_tcp e) h /\ cp_nl e <= nlen ns /\ cp_counts_ok limit e /\
      WF (trunc h (cp_tcp e)) /\ Forall (vnode (trunc h (cp_tcp e))) (take_N (cp_nl e) ns) /\
      cps_ok limit (trunc h (cp_tcp e)) (take_N (cp_nl e) ns) rest
  end.

Record AINV (st : ast) : Prop := mkAINV {
  ai_live : a_dead st = false;
  ai_ok : AOK (a_al st);
  ai_nodes : Forall (vnode (hp (a_al st))) (a_nodes st);
  ai_cps : cps_ok (heap_limit (a_al st)) (hp (a_al st)) (a_nodes st) (a_cps st) }.

Lemma tcp_le_ext c h h' : ext h h' -> tcp_le c h -> tcp_le c h'.
Proof.
  intros ((x & Hx) & (y & Hy) & (z & Hz)) (A & B & C). unfold tcp_le.
  rewrite Hx, Hy, Hz, blen_nlen, !nlen_app. unfold blen, nlen in *. lia.
Qed.

Lemma cps_ok_ext L h h' ns ns' cps : ext h h' -> cps_ok L h ns cps -> cps_ok L h' (ns ++ ns') cps.
Proof.
  intros He H. destruct cps as [|e rest]; [exact I|]. cbn [cps_ok] in *.
  destruct H as (A & B & C & D & E & F).
  rewrite (trunc_of_ext _ _ _ He A), (take_N_app _ _ _ B).
  refine (conj (tcp_le_ext _ _ _ He A) (conj _ (conj C (conj D (conj E F))))).
  rewrite nlen_app. lia.
Qed.

Lemma cps_ok_nth L : forall k h ns cps e, cps_ok L h ns cps -> nth_error cps k = Some e ->
  tcp_le (cp_tcp e) h /\ cp_nl e <= nlen ns /\ cp_counts_ok L e /\ WF (trunc h (cp_tcp e)) /\
  Forall (vnode (trunc h (cp_tcp e))) (take_N (cp_nl e) ns) /\
  cps_ok L (trunc h (cp_tcp e)) (take_N (cp_nl e) ns) (skipn k cps).
Proof.
  induction k as [|k IH]; intros h ns cps e H Hn.
  - destruct cps as [|e0 rest]; [discriminate|]. cbn in Hn. apply Some_inj in Hn. subst e0.
    cbn [cps_ok] in H. destruct H as (A & B & C & D & E & F).
    refine (conj A (conj B (conj C (conj D (conj E _))))).
    cbn [skipn cps_ok]. destruct (trunc_lens _ _ A) as (L1 & L2 & L3).
    rewrite trunc_trunc by lia. rewrite take_N_take by lia.
    refine (conj _ (conj _ (conj C (conj D (conj E F))))).
    + unfold tcp_le. rewrite L1, L2, L3. lia.
    + rewrite nlen_take. lia.
  - destruct cps as [|e0 rest]; [discriminate|]. cbn in Hn. cbn [cps_ok] in H.
    destruct H as (A & B & C & D & E & F).
    destruct (IH _ _ _ _ F Hn) as (A' & B' & C' & D' & E' & F').
    destruct (trunc_lens _ _ A) as (L1 & L2 & L3).
    assert (Hle : c_u8s (cp_tcp e) <= c_u8s (cp_tcp e0) /\ c_atoms (cp_tcp e) <= c_atoms (cp_tcp e0) /\
                  c_pairs (cp_tcp e) <= c_pairs (cp_tcp e0)).
    { destruct A' as (X & Y & Z). rewrite L1 in X. rewrite L2 in Y. rewrite L3 in Z. lia. }
    destruct Hle as (X & Y & Z).
    rewrite trunc_trunc in D', E', F' by assumption.
    rewrite nlen_take in B'.
    rewrite take_N_take in E', F' by lia.
    refine (conj _ (conj _ (conj C' (conj D' (conj E' F'))))).
    + destruct A as (A1 & A2 & A3). unfold tcp_le. lia.
    + lia.
Qed.

(* ------------------------------------------------------------------ the generic preservation steps *)

Lemma ainv_alloc st al' n f2 : AINV st -> AOK al' -> ext (hp (a_al st)) (hp al') ->
  heap_limit al' = heap_limit (a_al st) -> vnode (hp al') n ->
  AINV (mkA al' (a_nodes st ++ [n]) (a_cps st) f2 false).
Proof.
  intros [H1 H2 H3 H4] Hok He Hl Hn. split; cbn; [reflexivity|exact Hok| |].
  - apply Forall_app. split; [|constructor; [exact Hn|constructor]].
    eapply Forall_impl; [|exact H3]. intros x Hx. eapply vnode_ext; eauto.
  - rewrite Hl. eapply cps_ok_ext; eauto.
Qed.

Lemma ainv_ghost st al' f2 : AINV st -> AOK al' -> hp al' = hp (a_al st) ->
  heap_limit al' = heap_limit (a_al st) -> AINV (mkA al' (a_nodes st) (a_cps st) f2 false).
Proof.
  intros [H1 H2 H3 H4] Hok Hh Hl. split; cbn; [reflexivity|exact Hok| |]; rewrite ?Hh, ?Hl; assumption.
Qed.

(* immutability: what one step leaves of the node list denotes what it denoted before *)
Definition keeps (st st' : ast) : Prop :=
  exists m, m <= nlen (a_nodes st) /\ (exists extra, a_nodes st' = take_N m (a_nodes st) ++ extra) /\
            forall n, In n (take_N m (a_nodes st)) ->
                      vnode (hp (a_al st')) n /\ denote (hp (a_al st')) n = denote (hp (a_al st)) n.

Lemma keeps_ext st st' extra : AINV st -> ext (hp (a_al st)) (hp (a_al st')) ->
  a_nodes st' = a_nodes st ++ extra -> keeps st st'.
Proof.
  intros [H1 [Hw _] H3 H4] He Hn. exists (nlen (a_nodes st)). split; [lia|]. rewrite take_N_all by lia.
  split; [exists extra; exact Hn|]. intros n Hin. rewrite Forall_forall in H3.
  split; [eapply vnode_ext; eauto|]. apply denote_stable; auto.
Qed.

Lemma keeps_same st st' : AINV st -> hp (a_al st') = hp (a_al st) -> a_nodes st' = a_nodes st -> keeps st st'.
Proof.
  intros Hi Hh Hn. eapply (keeps_ext st st' []); [exact Hi|rewrite Hh; apply ext_refl|now rewrite app_nil_r].
Qed.

Lemma keeps_trunc st st' c nl extra h2 : AINV st ->
  WF (trunc (hp (a_al st)) c) -> Forall (vnode (trunc (hp (a_al st)) c)) (take_N nl (a_nodes st)) ->
  nl <= nlen (a_nodes st) ->
  ext (trunc (hp (a_al st)) c) h2 -> hp (a_al st') = h2 ->
  a_nodes st' = take_N nl (a_nodes st) ++ extra -> keeps st st'.
Proof.
  intros Hi Hw Hv Hnl He Hh Hn. exists nl. split; [exact Hnl|]. split; [exists extra; exact Hn|].
  intros n Hin. rewrite Forall_forall in Hv. specialize (Hv _ Hin). rewrite Hh. split.
  - eapply vnode_ext; eauto.
  - rewrite (denote_stable _ _ _ Hw He Hv).
    symmetry. apply denote_stable; [exact Hw|apply trunc_ext|exact Hv].
Qed.
