(* The invariant of allocator histories (arena side): well-formed heap, the three caps, every
   live node valid, every live checkpoint restorable. Preserved by every operation of every
   history, provided new_substr's copy-to-heap branch (finding F2) is either repaired (fx = true)
   or not taken. Consequences: the caps of C13 and the immutability of C14. *)
From Clvm Require Import Model.AllocHist Proofs.BytesLemmas Proofs.IntEncBasics Proofs.AllocHeap Proofs.AllocOps.
From Coq Require Import Lia ZifyBool ZifyN ZifyNat.
Open Scope N_scope.
Arguments N.add : simpl never.
Arguments N.sub : simpl never.
Arguments N.mul : simpl never.
Arguments N.eqb : simpl never.
Arguments N.ltb : simpl never.
Arguments N.leb : simpl never.

Definition cp_tcp (e : cpent) : tcheckpoint := match e with CFull c _ => c_inner c | CTrans c _ => c end.
Definition cp_nl (e : cpent) : N := match e with CFull _ nl | CTrans _ nl => nl end.
Definition cp_counts_ok (limit : N) (e : cpent) : Prop :=
  match e with
  | CFull c _ => c_atoms (c_inner c) + c_ga c <= MAX_NUM_ATOMS /\ c_pairs (c_inner c) + c_gp c <= MAX_NUM_PAIRS /\
                 c_u8s (c_inner c) + c_gh c <= limit
  | CTrans _ _ => True
  end.

(* live checkpoints, newest first: each can be restored to, and what it leaves is again a good state *)
Fixpoint cps_ok (limit : N) (h : heap) (ns : list nodeptr) (cps : list cpent) : Prop :=
  match cps with
  | [] => True
  | e :: rest =>
      tcp_le (cp_tcp e) h /\ cp_nl e <= nlen ns /\ cp_counts_ok limit e /\
      WF (trunc h (cp_tcp e)) /\ Forall (vnode (trunc h (cp_tcp e))) (take_N (cp_nl e) ns) /\
      cps_ok limit (trunc h (cp_tcp e)) (take_N (cp_nl e) ns) rest
  end.

Record AINV (st : ast) : Prop := mkAINV {
  ai_live : a_dead st = false;
  ai_ok : AOK (a_al st);
  ai_nodes : Forall (vnode (hp (a_al st))) (a_nodes st);
  ai_cps : cps_ok (heap_limit (a_al st)) (hp (a_al st)) (a_nodes st) (a_cps st) }.

Lemma tcp_le_ext c h h' : ext h h' -> tcp_le c h -> tcp_le c h'.
Proof.
  intros ((x & Hx) & (y & Hy) & (z & Hz)) (A & B & C). unfold tcp_le.
  rewrite Hx, Hy, Hz, blen_nlen, !nlen_app. unfold blen, nlen in *. lia.
Qed.

Lemma cps_ok_ext L h h' ns ns' cps : ext h h' -> cps_ok L h ns cps -> cps_ok L h' (ns ++ ns') cps.
Proof.
  intros He H. destruct cps as [|e rest]; [exact I|]. cbn [cps_ok] in *.
  destruct H as (A & B & C & D & E & F).
  rewrite (trunc_of_ext _ _ _ He A), (take_N_app _ _ _ B).
  refine (conj (tcp_le_ext _ _ _ He A) (conj _ (conj C (conj D (conj E F))))).
  rewrite nlen_app. lia.
Qed.

Lemma cps_ok_nth L : forall k h ns cps e, cps_ok L h ns cps -> nth_error cps k = Some e ->
  tcp_le (cp_tcp e) h /\ cp_nl e <= nlen ns /\ cp_counts_ok L e /\ WF (trunc h (cp_tcp e)) /\
  Forall (vnode (trunc h (cp_tcp e))) (take_N (cp_nl e) ns) /\
  cps_ok L (trunc h (cp_tcp e)) (take_N (cp_nl e) ns) (skipn k cps).
Proof.
  induction k as [|k IH]; intros h ns cps e H Hn.
  - destruct cps as [|e0 rest]; [discriminate|]. cbn in Hn. apply Some_inj in Hn. subst e0.
    cbn [cps_ok] in H. destruct H as (A & B & C & D & E & F).
    refine (conj A (conj B (conj C (conj D (conj E _))))).
    cbn [skipn cps_ok]. destruct (trunc_lens _ _ A) as (L1 & L2 & L3).
    rewrite trunc_trunc by lia. rewrite take_N_take by lia.
    refine (conj _ (conj _ (conj C (conj D (conj E F))))).
    + unfold tcp_le. rewrite L1, L2, L3. lia.
    + rewrite nlen_take. lia.
  - destruct cps as [|e0 rest]; [discriminate|]. cbn in Hn. cbn [cps_ok] in H.
    destruct H as (A & B & C & D & E & F).
    destruct (IH _ _ _ _ F Hn) as (A' & B' & C' & D' & E' & F').
    destruct (trunc_lens _ _ A) as (L1 & L2 & L3).
    assert (Hle : c_u8s (cp_tcp e) <= c_u8s (cp_tcp e0) /\ c_atoms (cp_tcp e) <= c_atoms (cp_tcp e0) /\
                  c_pairs (cp_tcp e) <= c_pairs (cp_tcp e0)).
    { destruct A' as (X & Y & Z). rewrite L1 in X. rewrite L2 in Y. rewrite L3 in Z. lia. }
    destruct Hle as (X & Y & Z).
    rewrite trunc_trunc in D', E', F' by assumption.
    rewrite nlen_take in B'.
    rewrite take_N_take in E', F' by lia.
    refine (conj _ (conj _ (conj C' (conj D' (conj E' F'))))).
    + destruct A as (A1 & A2 & A3). unfold tcp_le. lia.
    + lia.
Qed.

(* ------------------------------------------------------------------ the generic preservation steps *)

Lemma ainv_alloc st al' n f2 : AINV st -> AOK al' -> ext (hp (a_al st)) (hp al') ->
  heap_limit al' = heap_limit (a_al st) -> vnode (hp al') n ->
  AINV (mkA al' (a_nodes st ++ [n]) (a_cps st) f2 false).
Proof.
  intros [H1 H2 H3 H4] Hok He Hl Hn. split; cbn; [reflexivity|exact Hok| |].
  - apply Forall_app. split; [|constructor; [exact Hn|constructor]].
    eapply Forall_impl; [|exact H3]. intros x Hx. eapply vnode_ext; eauto.
  - rewrite Hl. eapply cps_ok_ext; eauto.
Qed.

Lemma ainv_ghost st al' f2 : AINV st -> AOK al' -> hp al' = hp (a_al st) ->
  heap_limit al' = heap_limit (a_al st) -> AINV (mkA al' (a_nodes st) (a_cps st) f2 false).
Proof.
  intros [H1 H2 H3 H4] Hok Hh Hl. split; cbn; [reflexivity|exact Hok| |]; rewrite ?Hh, ?Hl; assumption.
Qed.

(* immutability: what one step leaves of the node list denotes what it denoted before *)
Definition keeps (st st' : ast) : Prop :=
  exists m, m <= nlen (a_nodes st) /\ (exists extra, a_nodes st' = take_N m (a_nodes st) ++ extra) /\
            forall n, In n (take_N m (a_nodes st)) ->
                      vnode (hp (a_al st')) n /\ denote (hp (a_al st')) n = denote (hp (a_al st)) n.

Lemma keeps_ext st st' extra : AINV st -> ext (hp (a_al st)) (hp (a_al st')) ->
  a_nodes st' = a_nodes st ++ extra -> keeps st st'.
Proof.
  intros [H1 [Hw _] H3 H4] He Hn. exists (nlen (a_nodes st)). split; [lia|]. rewrite take_N_all by lia.
  split; [exists extra; exact Hn|]. intros n Hin. rewrite Forall_forall in H3.
  split; [eapply vnode_ext; eauto|]. apply denote_stable; auto.
Qed.

Lemma keeps_same st st' : AINV st -> hp (a_al st') = hp (a_al st) -> a_nodes st' = a_nodes st -> keeps st st'.
Proof.
  intros Hi Hh Hn. eapply (keeps_ext st st' []); [exact Hi|rewrite Hh; apply ext_refl|now rewrite app_nil_r].
Qed.

Lemma keeps_trunc st st' c nl extra h2 : AINV st ->
  WF (trunc (hp (a_al st)) c) -> Forall (vnode (trunc (hp (a_al st)) c)) (take_N nl (a_nodes st)) ->
  nl <= nlen (a_nodes st) ->
  ext (trunc (hp (a_al st)) c) h2 -> hp (a_al st') = h2 ->
  a_nodes st' = take_N nl (a_nodes st) ++ extra -> keeps st st'.
Proof.
  intros Hi Hw Hv Hnl He Hh Hn. exists nl. split; [exact Hnl|]. split; [exists extra; exact Hn|].
  intros n Hin. rewrite Forall_forall in Hv. specialize (Hv _ Hin). rewrite Hh. split.
  - eapply vnode_ext; eauto.
  - rewrite (denote_stable _ _ _ Hw He Hv).
    symmetry. apply denote_stable; [exact Hw|apply trunc_ext|exact Hv].
Qed.

Lemma keeps_trunc0 st st' c nl : AINV st ->
  WF (trunc (hp (a_al st)) c) -> Forall (vnode (trunc (hp (a_al st)) c)) (take_N nl (a_nodes st)) ->
  nl <= nlen (a_nodes st) -> hp (a_al st') = trunc (hp (a_al st)) c ->
  a_nodes st' = take_N nl (a_nodes st) -> keeps st st'.
Proof.
  intros Hi Hw Hv Hnl Hh Hn. eapply (keeps_trunc st st' c nl []); eauto using ext_refl.
  now rewrite app_nil_r.
Qed.

(* ------------------------------------------------------------------ one step *)

From Clvm Require Import Proofs.IntEncProofs Proofs.AllocRestore.

Definition wf_op (o : op) : Prop := match o with ONewAtom b => wf_bytes b = true | _ => True end.

Lemma a_fail_inv st e : AINV st -> a_dead (fst (a_fail st e)) = false ->
  AINV (fst (a_fail st e)) /\ keeps st (fst (a_fail st e)).
Proof.
  intros Hi. unfold a_fail. destruct (is_panic e); cbn; [discriminate|]. intros _.
  split; [exact Hi|]. apply keeps_same; auto.
Qed.

Lemma nth_N_In {A} (l : list A) i x : nth_N l i = Some x -> In x l.
Proof. unfold nth_N. apply nth_error_In. Qed.

Lemma get_all_Forall {A} (P : A -> Prop) (l : list A) : Forall P l -> forall is xs, get_all l is = Some xs -> Forall P xs.
Proof.
  intros Hl. induction is as [|i r IH]; intros xs H; cbn in H.
  - apply Some_inj in H. subst. constructor.
  - destruct (nth_N l i) eqn:E; [|discriminate]. destruct (get_all l r) eqn:G; [|discriminate].
    apply Some_inj in H. subst. constructor; [|now apply IH].
    rewrite Forall_forall in Hl. apply Hl. eapply nth_N_In; eauto.
Qed.

Lemma wf_skipn k (b : bytes) : wf_bytes b = true -> wf_bytes (skipn k b) = true.
Proof.
  intros H. unfold wf_bytes in *. rewrite forallb_forall in *. intros x Hx. apply H. eapply In_skipn_l; eauto.
Qed.

Lemma strip_suffix s : exists k, strip_leading_zeros s = skipn k s.
Proof.
  induction s as [|x r IH]; [exists O; reflexivity|].
  cbn [strip_leading_zeros]. destruct x; [|exists O; reflexivity].
  destruct r as [|y r']; [exists 1%nat; reflexivity|].
  destruct (128 <=? y); [exists O; reflexivity|]. destruct IH as [k Hk]. exists (S k). exact Hk.
Qed.

Lemma wf_u64_bytes v : wf_bytes (u64_bytes v) = true.
Proof. unfold u64_bytes. apply wf_skipn. cbn [wf_bytes forallb]. fold (wf_bytes (be_bytes 8 v)). now rewrite AllocOps.be_bytes_wf. Qed.

Lemma wf_i64_bytes z : wf_bytes (i64_bytes z) = true.
Proof. unfold i64_bytes. destruct (0 <=? z)%Z; [apply wf_u64_bytes|]. apply wf_skipn, AllocOps.be_bytes_wf. Qed.

Lemma wf_number_bytes z : wf_bytes (strip_leading_zeros (to_signed_bytes_be z)) = true.
Proof.
  destruct (strip_suffix (to_signed_bytes_be z)) as [k ->]. apply wf_skipn.
  unfold to_signed_bytes_be. destruct z; [reflexivity| |]; apply bytes_of_int_wf.
Qed.

(* every allocation of an atom from well-formed bytes *)
Lemma step_new_atom st b : AINV st -> wf_bytes b = true ->
  a_dead (fst (a_ret_node st (new_atom (a_al st) b))) = false ->
  AINV (fst (a_ret_node st (new_atom (a_al st) b))) /\ keeps st (fst (a_ret_node st (new_atom (a_al st) b))).
Proof.
  intros Hi Hb. pose proof (new_atom_spec (a_al st) b (ai_ok _ Hi) Hb) as S. unfold a_ret_node.
  destruct (new_atom (a_al st) b) as [[al n]|e]; [|apply a_fail_inv; exact Hi].
  destruct S as (_ & _ & S3 & S4 & S5 & _ & (S7 & _)). cbn [fst]. intros _. split.
  - apply ainv_alloc; assumption.
  - eapply keeps_ext; [exact Hi|exact S4|reflexivity].
Qed.

Lemma step_new_small st v : AINV st ->
  a_dead (fst (a_ret_node st (new_small_number (a_al st) v))) = false ->
  AINV (fst (a_ret_node st (new_small_number (a_al st) v))) /\ keeps st (fst (a_ret_node st (new_small_number (a_al st) v))).
Proof.
  intros Hi. destruct (NODE_PTR_IDX_MASK <? v) eqn:E.
  - unfold new_small_number. rewrite E. unfold a_ret_node. apply a_fail_inv. exact Hi.
  - rewrite new_small_number_spec by (try apply (ai_ok _ Hi); lia).
    apply step_new_atom; [exact Hi|apply AllocOps.be_bytes_wf].
Qed.

Lemma substr_pair_err fx a i s e : exists er, new_substr_gen fx a (PairP i) s e = Err er /\ is_panic er = false.
Proof.
  unfold new_substr_gen, check_atom_limit. destruct (atoms_len a + ghost_atoms a =? MAX_NUM_ATOMS); cbn; eauto.
Qed.

Theorem ainv_step fx st o : AINV st -> wf_op o ->
  a_dead (fst (a_step fx st o)) = false -> (fx = true \/ a_f2 (fst (a_step fx st o)) = false) ->
  AINV (fst (a_step fx st o)) /\ keeps st (fst (a_step fx st o)).
Proof.
  intros Hi Hwf. unfold a_step. rewrite (ai_live _ Hi).
  pose proof (ai_ok _ Hi) as Hok. pose proof (ai_nodes _ Hi) as Hns. pose proof (ai_cps _ Hi) as Hcps.
  assert (Hskip : AINV st /\ keeps st st) by (split; [exact Hi|apply keeps_same; auto]).
  rewrite Forall_forall in Hns.
  destruct o; cbn [a_step_live].
  - (* new_atom *) intros Hd _. apply step_new_atom; assumption.
  - intros Hd _. apply step_new_small; assumption.
  - intros Hd _. apply step_new_atom; [assumption|apply wf_u64_bytes|assumption].
  - intros Hd _. apply step_new_atom; [assumption|apply wf_i64_bytes|assumption].
  - (* new_number *) intros Hd _. unfold new_number in *.
    destruct ((0 <=? z)%Z && (z <=? Z.of_N NODE_PTR_IDX_MASK)%Z).
    + apply step_new_small; assumption.
    + apply step_new_atom; [assumption|apply wf_number_bytes|assumption].
  - intros Hd _. unfold new_malachite_number, new_number in *.
    destruct ((0 <=? z)%Z && (z <=? Z.of_N NODE_PTR_IDX_MASK)%Z).
    + apply step_new_small; assumption.
    + apply step_new_atom; [assumption|apply wf_number_bytes|assumption].
  - (* new_pair *)
    destruct (nth_N (a_nodes st) i) as [x|] eqn:Ex; [|intros; exact Hskip].
    destruct (nth_N (a_nodes st) j) as [y|] eqn:Ey; [|intros; exact Hskip].
    pose proof (new_pair_spec (a_al st) x y Hok (Hns _ (nth_N_In _ _ _ Ex)) (Hns _ (nth_N_In _ _ _ Ey))) as S.
    unfold a_ret_node. destruct (new_pair (a_al st) x y) as [[al n]|e]; [|intros Hd _; apply a_fail_inv; assumption].
    destruct S as (_ & S2 & S3 & S4 & _ & _ & (S7 & _)). cbn [fst]. intros _ _. split.
    + apply ainv_alloc; assumption.
    + eapply keeps_ext; [exact Hi|exact S3|reflexivity].
  - (* new_substr *)
    destruct (nth_N (a_nodes st) i) as [x|] eqn:Ex; [|intros; exact Hskip].
    pose proof (Hns _ (nth_N_In _ _ _ Ex)) as Hx.
    destruct (denote_total _ _ (aok_wf _ Hok) Hx) as [t Ht].
    destruct t as [b|tl tr].
    + pose proof (new_substr_spec fx (a_al st) x b s e Hok Hx Ht) as S.
      destruct (new_substr_gen fx (a_al st) x s e) as [[[al n] path]|er]; [|intros Hd _; apply a_fail_inv; assumption].
      cbn [fst a_f2]. intros _ Hf2. destruct S as (_ & _ & _ & S).
      assert (S' : ext (hp (a_al st)) (hp al) /\ vnode (hp al) n /\ AOK al /\ heap_limit al = heap_limit (a_al st)).
      { destruct path.
        - destruct S as (S1 & S2 & _ & S4 & (S5 & _)). auto.
        - destruct S as (S1 & S2 & _ & S4 & (S5 & _)). auto.
        - destruct Hf2 as [->|Hf2]; [|rewrite orb_true_r in Hf2; discriminate].
          destruct (S eq_refl) as (S1 & S2 & _ & S4 & (S5 & _)). auto. }
      destruct S' as (S1 & S2 & S4 & S5). split.
      * apply ainv_alloc; assumption.
      * eapply keeps_ext; [exact Hi|exact S1|reflexivity].
    + pose proof (denote_atom_or_pair _ _ _ Ht) as K. destruct x as [k|k|k]; try (destruct K as [b K]; discriminate).
      destruct (substr_pair_err fx (a_al st) k s e) as (er & -> & Hp).
      intros _ _. unfold a_fail. rewrite Hp. exact Hskip.
  - (* new_concat *)
    destruct (get_all (a_nodes st) is) as [xs|] eqn:Ex; [|intros; exact Hskip].
    assert (Hxs : Forall (vnode (hp (a_al st))) xs).
    { eapply get_all_Forall; [|exact Ex]. apply Forall_forall. exact Hns. }
    pose proof (new_concat_spec (a_al st) size xs Hok Hxs) as S.
    unfold a_ret_node. destruct (new_concat (a_al st) size xs) as [[al n]|e]; [|intros Hd _; apply a_fail_inv; assumption].
    destruct S as (_ & _ & S3 & S4 & S5 & (S6 & _) & _). cbn [fst]. intros _ _. split.
    + apply ainv_alloc; assumption.
    + eapply keeps_ext; [exact Hi|exact S4|reflexivity].
  - (* add_ghost_atom *)
    pose proof (add_ghost_atom_spec (a_al st) n Hok) as S. unfold a_ret_unit.
    destruct (add_ghost_atom (a_al st) n) as [al|e]; [|intros Hd _; apply a_fail_inv; assumption].
    destruct S as (_ & S2 & S3 & (S4 & _)). cbn [fst]. intros _ _. split.
    + apply ainv_ghost; assumption.
    + apply keeps_same; auto.
  - pose proof (add_ghost_pair_spec (a_al st) n Hok) as S. unfold a_ret_unit.
    destruct (add_ghost_pair (a_al st) n) as [al|e]; [|intros Hd _; apply a_fail_inv; assumption].
    destruct S as (_ & S2 & S3 & (S4 & _)). cbn [fst]. intros _ _. split.
    + apply ainv_ghost; assumption.
    + apply keeps_same; auto.
  - pose proof (remove_ghost_pair_spec (a_al st) n Hok) as S. unfold a_ret_unit.
    destruct (remove_ghost_pair (a_al st) n) as [al|e]; [|intros Hd _; apply a_fail_inv; assumption].
    destruct S as (S2 & S3 & S4 & _). cbn [fst]. intros _ _. split.
    + apply ainv_ghost; assumption.
    + apply keeps_same; auto.
  - (* checkpoint *)
    cbn [fst]. intros _ _. split; [|apply keeps_same; auto].
    destruct (checkpoint_of_counts (a_al st) (aok_counts _ Hok)) as (C1 & C2 & C3 & C4).
    split; cbn [a_dead a_al a_nodes a_cps]; [reflexivity|exact Hok|apply Forall_forall; exact Hns|].
    cbn [cps_ok cp_tcp cp_nl cp_counts_ok].
    assert (Hid : trunc (hp (a_al st)) (c_inner (checkpoint_of (a_al st))) = hp (a_al st)).
    { apply trunc_id; rewrite ?C2, ?C3, ?C4; unfold u8_len, atoms_len, pairs_len; lia. }
    rewrite Hid, take_N_all by lia.
    refine (conj _ (conj _ (conj _ (conj (aok_wf _ Hok) (conj _ Hcps))))).
    + unfold tcp_le. rewrite C2, C3, C4. unfold u8_len, atoms_len, pairs_len. lia.
    + lia.
    + destruct (aok_counts _ Hok) as (Q1 & Q2 & Q3 & Q4). unfold counts in C1.
      apply pair_equal_spec in C1. destruct C1 as [C1 X3].
      apply pair_equal_spec in C1. destruct C1 as [X1 X2]. lia.
    + apply Forall_forall. exact Hns.
  - (* transparent checkpoint *)
    cbn [fst]. intros _ _. split; [|apply keeps_same; auto].
    destruct (counts_u32 _ (aok_counts _ Hok)) as (U1 & U2 & U3).
    split; cbn [a_dead a_al a_nodes a_cps]; [reflexivity|exact Hok|apply Forall_forall; exact Hns|].
    cbn [cps_ok cp_tcp cp_nl cp_counts_ok].
    assert (Hid : trunc (hp (a_al st)) (transparent_checkpoint (a_al st)) = hp (a_al st)).
    { apply trunc_id; cbn; rewrite ?U1, ?U2, ?U3; unfold u8_len, atoms_len, pairs_len; lia. }
    rewrite Hid, take_N_all by lia.
    refine (conj _ (conj _ (conj I (conj (aok_wf _ Hok) (conj _ Hcps))))).
    + unfold tcp_le. cbn. rewrite U1, U2, U3. unfold u8_len, atoms_len, pairs_len. lia.
    + lia.
    + apply Forall_forall. exact Hns.
  - (* restore_checkpoint *)
    destruct (nth_N (a_cps st) k) as [[c nl|c nl]|] eqn:Ek; try (intros; exact Hskip).
    destruct (cps_ok_nth _ _ _ _ _ _ Hcps Ek) as (A & B & (C1 & C2 & C3) & D & E & F).
    cbn [cp_tcp cp_nl] in *.
    destruct (restore_spec (a_al st) c Hok A D C1 C2 C3) as (a1 & R1 & R2 & R3 & R4 & _).
    rewrite R1. cbn [fst]. intros _ _. split.
    + split; cbn [a_dead a_al a_nodes a_cps]; [reflexivity|exact R3|rewrite R2; exact E|rewrite R2, R4; exact F].
    + apply (keeps_trunc0 st _ (c_inner c) nl Hi D E B); [cbn; exact R2|reflexivity].
  - (* restore_transparent_checkpoint *)
    destruct (nth_N (a_cps st) k) as [[c nl|c nl]|] eqn:Ek; try (intros; exact Hskip).
    destruct (cps_ok_nth _ _ _ _ _ _ Hcps Ek) as (A & B & _ & D & E & F).
    cbn [cp_tcp cp_nl] in *.
    destruct (restore_t_spec (a_al st) c Hok A D) as (a1 & R1 & R2 & R3 & (R4 & _) & _).
    rewrite R1. cbn [fst]. intros _ _. split.
    + split; cbn [a_dead a_al a_nodes a_cps]; [reflexivity|exact R3|rewrite R2; exact E|rewrite R2, R4; exact F].
    + apply (keeps_trunc0 st _ c nl Hi D E B); [cbn; exact R2|reflexivity].
  - (* maybe_restore_with_node *)
    destruct (nth_N (a_cps st) k) as [[c nl|c nl]|] eqn:Ek; try (intros; exact Hskip).
    destruct (nth_N (a_nodes st) i) as [x|] eqn:Ex; [|intros; exact Hskip].
    pose proof (Hns _ (nth_N_In _ _ _ Ex)) as Hx.
    destruct (cps_ok_nth _ _ _ _ _ _ Hcps Ek) as (A & B & _ & D & E & F).
    cbn [cp_tcp cp_nl] in *.
    pose proof (maybe_restore_spec (a_al st) c x Hok A D Hx) as S.
    destruct (maybe_restore_with_node (a_al st) c x) as [al' r]. cbn [fst snd] in S.
    destruct r as [[| n |]|er]; cbn [mr_post] in S.
    + (* NoReplace *)
      destruct S as (S1 & S2 & (S3 & _) & S4 & S5). cbn [fst]. intros _ _. split.
      * split; cbn [a_dead a_al a_nodes a_cps]; [reflexivity|exact S1| |].
        -- apply Forall_app. split; [rewrite S2; exact E|constructor; [exact S4|constructor]].
        -- rewrite S3. rewrite S2. rewrite <- (app_nil_r (skipn (N.to_nat k) (a_cps st))) at 1.
           rewrite app_nil_r. eapply cps_ok_ext; [apply ext_refl|exact F].
      * apply (keeps_trunc st _ c nl [x] (trunc (hp (a_al st)) c) Hi D E B (ext_refl _)); [cbn; exact S2|reflexivity].
    + (* Replace *)
      destruct S as (S1 & S2 & (S3 & _) & S4 & S5). cbn [fst]. intros _ _. split.
      * split; cbn [a_dead a_al a_nodes a_cps]; [reflexivity|exact S1| |].
        -- apply Forall_app. split; [|constructor; [exact S4|constructor]].
           eapply Forall_impl; [|exact E]. intros y Hy. eapply vnode_ext; eauto.
        -- rewrite S3. eapply cps_ok_ext; [exact S2|exact F].
      * apply (keeps_trunc st _ c nl [n] (hp al') Hi D E B S2); reflexivity.
    + (* Aborted: nothing restored, the newer nodes and checkpoints are given up *)
      subst al'. cbn [fst]. intros _ _. split.
      * split; cbn [a_dead a_al a_nodes a_cps]; [reflexivity|exact Hok| |].
        -- apply Forall_app. split; [|constructor; [exact Hx|constructor]].
           apply Forall_take. apply Forall_forall. exact Hns.
        -- eapply cps_ok_ext; [apply trunc_ext|exact F].
      * exists nl. split; [exact B|]. split; [exists [x]; reflexivity|].
        intros y Hy. cbn [a_al]. split; [|reflexivity]. apply Hns.
        destruct (take_N_split nl (a_nodes st)) as [r Hr]. rewrite Hr. apply in_or_app. now left.
    + (* "invalid atom byte range": the restored state *)
      destruct S as (-> & S1 & S2 & S3 & _). cbn [is_panic fst]. intros _ _. split.
      * split; cbn [a_dead a_al a_nodes a_cps]; [reflexivity|exact S1|rewrite S2; exact E|rewrite S2, S3; exact F].
      * apply (keeps_trunc0 st _ c nl Hi D E B); [cbn; exact S2|reflexivity].
  - (* reads *)
    destruct (nth_N (a_nodes st) i); [|intros; exact Hskip]. unfold a_ret_read.
    destruct (bind _ _); [intros; exact Hskip|intros Hd _; apply a_fail_inv; assumption].
  - destruct (nth_N (a_nodes st) i); [|intros; exact Hskip]. unfold a_ret_read.
    destruct (bind _ _); [intros; exact Hskip|intros Hd _; apply a_fail_inv; assumption].
  - destruct (nth_N (a_nodes st) i); [|intros; exact Hskip].
    destruct (nth_N (a_nodes st) j); [|intros; exact Hskip]. unfold a_ret_read.
    destruct (bind _ _); [intros; exact Hskip|intros Hd _; apply a_fail_inv; assumption].
  - destruct (nth_N (a_nodes st) i); [|intros; exact Hskip]. unfold a_ret_read.
    destruct (bind _ _); [intros; exact Hskip|intros Hd _; apply a_fail_inv; assumption].
  - destruct (nth_N (a_nodes st) i); [|intros; exact Hskip]. unfold a_ret_read.
    destruct (bind _ _); [intros; exact Hskip|intros Hd _; apply a_fail_inv; assumption].
  - destruct (nth_N (a_nodes st) i); [|intros; exact Hskip]. unfold a_ret_read.
    destruct (bind _ _); [intros; exact Hskip|intros Hd _; apply a_fail_inv; assumption].
  - destruct (nth_N (a_nodes st) i); [|intros; exact Hskip]. unfold a_ret_read.
    destruct (bind _ _); [intros; exact Hskip|intros Hd _; apply a_fail_inv; assumption].
Qed.

(* ------------------------------------------------------------------ whole histories *)

Lemma a_dead_sticky fx st o : a_dead st = true -> fst (a_step fx st o) = st.
Proof. intros H. unfold a_step. rewrite H. reflexivity. Qed.

Lemma a_run_dead fx h : forall st, a_dead st = true -> fst (a_run fx st h) = st.
Proof.
  induction h as [|o r IH]; intros st H; cbn; [reflexivity|].
  pose proof (a_dead_sticky fx st o H) as E. destruct (a_step fx st o) as [st1 ob]. cbn in E. subst st1.
  specialize (IH st H). destruct (a_run fx st r). cbn in *. exact IH.
Qed.

Lemma a_f2_sticky fx st o : a_f2 st = true -> a_f2 (fst (a_step fx st o)) = true.
Proof.
  intros H. unfold a_step. destruct (a_dead st); [exact H|].
  destruct o; cbn [a_step_live]; unfold a_ret_node, a_ret_unit, a_ret_read, a_fail;
    repeat (match goal with
            | |- context [match ?x with _ => _ end] => destruct x
            | |- context [if ?x then _ else _] => destruct x
            end; cbn [fst a_f2]); rewrite ?H; auto.
Qed.

Lemma a_run_f2 fx h : forall st, a_f2 st = true -> a_f2 (fst (a_run fx st h)) = true.
Proof.
  induction h as [|o r IH]; intros st H; cbn; [exact H|].
  pose proof (a_f2_sticky fx st o H) as E. destruct (a_step fx st o) as [st1 ob]. cbn in E.
  specialize (IH st1 E). destruct (a_run fx st1 r). cbn in *. exact IH.
Qed.

Lemma keeps_refl st : AINV st -> keeps st st.
Proof. intros Hi. apply keeps_same; auto. Qed.

Lemma take_N_app_ge {A} n (l m : list A) : nlen l <= n -> take_N n (l ++ m) = l ++ take_N (n - nlen l) m.
Proof.
  unfold take_N, nlen. intros H. rewrite firstn_app. rewrite firstn_all2 by lia.
  f_equal. f_equal. lia.
Qed.

Lemma keeps_trans a b c : keeps a b -> keeps b c -> keeps a c.
Proof.
  intros (m1 & M1 & (e1 & E1) & K1) (m2 & M2 & (e2 & E2) & K2).
  assert (L1 : nlen (take_N m1 (a_nodes a)) = m1) by (rewrite nlen_take; lia).
  destruct (N.le_gt_cases m2 m1) as [Hle|Hgt].
  - exists m2. split; [lia|].
    assert (T : take_N m2 (a_nodes b) = take_N m2 (a_nodes a)).
    { rewrite E1, take_N_app by lia. apply take_N_take. exact Hle. }
    split; [exists e2; rewrite E2, T; reflexivity|].
    intros n Hn. rewrite <- T in Hn. destruct (K2 n Hn) as [V2 D2]. split; [exact V2|]. rewrite D2.
    apply K1. rewrite T in Hn. rewrite <- (take_N_take m2 m1) in Hn by exact Hle.
    destruct (take_N_split m2 (take_N m1 (a_nodes a))) as [r Hr]. rewrite Hr. apply in_or_app. now left.
  - exists m1. split; [exact M1|].
    assert (T : take_N m2 (a_nodes b) = take_N m1 (a_nodes a) ++ take_N (m2 - m1) e1).
    { rewrite E1, take_N_app_ge by lia. rewrite L1. reflexivity. }
    split; [exists (take_N (m2 - m1) e1 ++ e2); rewrite E2, T, app_assoc; reflexivity|].
    intros n Hn. destruct (K1 n Hn) as [V1 D1].
    assert (Hn2 : In n (take_N m2 (a_nodes b))) by (rewrite T; apply in_or_app; now left).
    destruct (K2 n Hn2) as [V2 D2]. split; [exact V2|]. rewrite D2. exact D1.
Qed.

Theorem ainv_run fx : forall h st, AINV st -> Forall wf_op h ->
  a_dead (fst (a_run fx st h)) = false -> (fx = true \/ a_f2 (fst (a_run fx st h)) = false) ->
  AINV (fst (a_run fx st h)) /\ keeps st (fst (a_run fx st h)).
Proof.
  induction h as [|o r IH]; intros st Hi Hwf; cbn.
  - intros _ _. split; [exact Hi|apply keeps_refl; exact Hi].
  - inversion Hwf as [|? ? Ho Hr]; subst.
    pose proof (ainv_step fx st o Hi Ho) as S. pose proof (a_run_dead fx r (fst (a_step fx st o))) as Dd.
    pose proof (a_run_f2 fx r (fst (a_step fx st o))) as Df.
    destruct (a_step fx st o) as [st1 ob]. cbn [fst] in *.
    specialize (IH st1). destruct (a_run fx st1 r) as [st2 obs]. cbn [fst] in *.
    intros Hd Hf.
    assert (Hd1 : a_dead st1 = false).
    { destruct (a_dead st1) eqn:E; [|reflexivity]. rewrite (Dd eq_refl) in Hd. congruence. }
    assert (Hf1 : fx = true \/ a_f2 st1 = false).
    { destruct Hf as [->|Hf]; [now left|]. right. destruct (a_f2 st1) eqn:E; [|reflexivity].
      rewrite (Df eq_refl) in Hf. discriminate. }
    destruct (S Hd1 Hf1) as [I1 K1]. destruct (IH I1 Hr Hd Hf) as [I2 K2].
    split; [exact I2|eapply keeps_trans; eauto].
Qed.

Lemma a_init_inv limit st : 1 <= limit -> a_init limit = Ok st -> AINV st /\ heap_limit (a_al st) = limit.
Proof.
  intros Hl. unfold a_init. destruct (new_limited limit) as [al|e] eqn:E; [|discriminate].
  cbn. intros H. apply Ok_inj in H. subst st. destruct (new_limited_ok _ _ E Hl) as (A & B & C).
  split; [|exact B]. split; cbn; [reflexivity|exact A|constructor|exact I].
Qed.

(* ------------------------------------------------------------------ failed operations *)

(* an operation that reports an error leaves the allocator, its nodes and its checkpoints exactly
   as they were (maybe_restore_with_node excepted: its only reachable error, see AllocRestore, is
   raised after the restore) *)
Lemma a_step_err_unchanged fx st o st' e :
  a_step fx st o = (st', ObErr e) -> is_panic e = false ->
  (forall k i, o <> OMaybeRestore k i) -> st' = st.
Proof.
  unfold a_step. destruct (a_dead st); [discriminate|].
  intros H Hp Hm.
  assert (F : forall e0, a_fail st e0 = (st', ObErr e) -> st' = st).
  { intros e0 H0. unfold a_fail in H0. destruct (is_panic e0) eqn:P0.
    - inversion H0; subst. rewrite P0 in Hp. discriminate.
    - inversion H0. reflexivity. }
  destruct o; cbn [a_step_live] in H; unfold a_ret_node, a_ret_unit, a_ret_read in H;
    try (exfalso; eapply Hm; reflexivity);
    repeat (match type of H with
            | context [match ?x with _ => _ end] => destruct x
            end; try discriminate; try (now apply F in H); try (inversion H; subst; reflexivity));
    try discriminate.
Qed.

(* ------------------------------------------------------------------ the caps after any history (C13) *)

From Clvm Require Import Proofs.AllocBasics.

Theorem caps_after_history fx limit h st : 1 <= limit -> Forall wf_op h ->
  a_final fx limit h = Some st -> a_dead st = false -> (fx = true \/ a_f2 st = false) ->
  atom_count (a_al st) <= 62500000 /\ pair_count (a_al st) <= 62500000 /\
  heap_size (a_al st) <= heap_limit (a_al st) /\ heap_limit (a_al st) <= 4294967295.
Proof.
  intros Hl Hwf. unfold a_final. destruct (a_init limit) as [st0|e] eqn:E; [|discriminate].
  intros H Hd Hf. apply Some_inj in H. subst st.
  destruct (a_init_inv _ _ Hl E) as [I0 L0].
  destruct (ainv_run fx h st0 I0 Hwf Hd Hf) as [[_ [_ (Q1 & Q2 & Q3 & Q4)] _ _] _].
  unfold MAX_NUM_ATOMS, MAX_NUM_PAIRS, U32_MAX in *. repeat split; assumption.
Qed.

Lemma f2_cap_refuted :
  exists limit h st, 1 <= limit /\ Forall wf_op h /\ a_final false limit h = Some st /\ a_dead st = false /\
                     heap_limit (a_al st) < heap_size (a_al st).
Proof.
  exists 3, f2_history. eexists. split; [lia|]. split; [repeat constructor|].
  split; [vm_compute; reflexivity|]. split; [reflexivity|]. vm_compute. reflexivity.
Qed.

Theorem immutable_run fx h st : AINV st -> Forall wf_op h ->
  a_dead (fst (a_run fx st h)) = false -> (fx = true \/ a_f2 (fst (a_run fx st h)) = false) ->
  exists m, m <= nlen (a_nodes st) /\
    (exists extra, a_nodes (fst (a_run fx st h)) = take_N m (a_nodes st) ++ extra) /\
    forall n, In n (take_N m (a_nodes st)) ->
      vnode (hp (a_al (fst (a_run fx st h)))) n /\
      denote (hp (a_al (fst (a_run fx st h)))) n = denote (hp (a_al st)) n.
Proof. intros Hi Hw Hd Hf. exact (proj2 (ainv_run fx h st Hi Hw Hd Hf)). Qed.
