(* C07 / C25 / C11 / C04: the remaining operator contracts lifted to the dispatch tables. *)
From Coq Require Import Lia ZifyBool ZifyN ZifyNat.
From Clvm Require Import Model.Dialect Proofs.OpContractDefs Proofs.OpContractsCore Proofs.OpContractsMore
  Proofs.OpContractsMore2 Proofs.OpContractsMore3 Proofs.OpContractsCrypto Proofs.DialectContracts.
Open Scope N_scope.

Lemma all_ops_restrict P : Forall op_restrict (all_ops P).
Proof.
  unfold all_ops.
  repeat (constructor; [first
    [ apply if_restrict | apply cons_restrict | apply first_restrict | apply rest_restrict | apply listp_restrict
    | apply raise_restrict | apply eq_restrict | apply gr_bytes_restrict | apply sha256_restrict | apply substr_restrict
    | apply strlen_restrict | apply concat_restrict | apply add_restrict | apply subtract_restrict | apply multiply_restrict
    | apply div_restrict | apply divmod_restrict | apply gr_restrict | apply ash_restrict | apply lsh_restrict
    | apply logand_restrict | apply logior_restrict | apply logxor_restrict | apply lognot_restrict
    | apply point_add_restrict | apply pubkey_for_exp_restrict | apply not_restrict | apply any_restrict | apply all_restrict
    | apply coinid_p_restrict | apply bls_g1_subtract_restrict | apply bls_g1_multiply_restrict | apply bls_g1_negate_restrict
    | apply bls_g2_add_restrict | apply bls_g2_subtract_restrict | apply bls_g2_multiply_restrict | apply bls_g2_negate_restrict
    | apply bls_map_to_g1_restrict | apply bls_map_to_g2_restrict | apply bls_pairing_identity_restrict | apply bls_verify_restrict
    | apply modpow_restrict | apply mod_restrict | apply keccak256_restrict | apply sha256_tree_restrict
    | apply secp256k1_verify_restrict | apply secp256r1_verify_restrict ]|]).
  constructor.
Qed.


Lemma all_ops_cm_indep P : Forall op_cm_indep (all_ops P).
Proof.
  unfold all_ops.
  repeat (constructor; [first
    [ apply if_cm_indep | apply cons_cm_indep | apply first_cm_indep | apply rest_cm_indep | apply listp_cm_indep
    | apply raise_cm_indep | apply eq_cm_indep | apply gr_bytes_cm_indep | apply sha256_cm_indep | apply substr_cm_indep
    | apply strlen_cm_indep | apply concat_cm_indep | apply add_cm_indep | apply subtract_cm_indep | apply multiply_cm_indep
    | apply div_cm_indep | apply divmod_cm_indep | apply gr_cm_indep | apply ash_cm_indep | apply lsh_cm_indep
    | apply logand_cm_indep | apply logior_cm_indep | apply logxor_cm_indep | apply lognot_cm_indep
    | apply point_add_cm_indep | apply pubkey_for_exp_cm_indep | apply not_cm_indep | apply any_cm_indep | apply all_cm_indep
    | apply coinid_p_cm_indep | apply bls_g1_subtract_cm_indep | apply bls_g1_multiply_cm_indep | apply bls_g1_negate_cm_indep
    | apply bls_g2_add_cm_indep | apply bls_g2_subtract_cm_indep | apply bls_g2_multiply_cm_indep | apply bls_g2_negate_cm_indep
    | apply bls_map_to_g1_cm_indep | apply bls_map_to_g2_cm_indep | apply bls_pairing_identity_cm_indep | apply bls_verify_cm_indep
    | apply modpow_cm_indep | apply mod_cm_indep | apply keccak256_cm_indep | apply sha256_tree_cm_indep
    | apply secp256k1_verify_cm_indep | apply secp256r1_verify_cm_indep ]|]).
  constructor.
Qed.


Lemma all_ops_gc_indep P : Forall op_gc_indep (all_ops P).
Proof.
  unfold all_ops.
  repeat (constructor; [first
    [ apply if_gc_indep | apply cons_gc_indep | apply first_gc_indep | apply rest_gc_indep | apply listp_gc_indep
    | apply raise_gc_indep | apply eq_gc_indep | apply gr_bytes_gc_indep | apply sha256_gc_indep | apply substr_gc_indep
    | apply strlen_gc_indep | apply concat_gc_indep | apply add_gc_indep | apply subtract_gc_indep | apply multiply_gc_indep
    | apply div_gc_indep | apply divmod_gc_indep | apply gr_gc_indep | apply ash_gc_indep | apply lsh_gc_indep
    | apply logand_gc_indep | apply logior_gc_indep | apply logxor_gc_indep | apply lognot_gc_indep
    | apply point_add_gc_indep | apply pubkey_for_exp_gc_indep | apply not_gc_indep | apply any_gc_indep | apply all_gc_indep
    | apply coinid_p_gc_indep | apply bls_g1_subtract_gc_indep | apply bls_g1_multiply_gc_indep | apply bls_g1_negate_gc_indep
    | apply bls_g2_add_gc_indep | apply bls_g2_subtract_gc_indep | apply bls_g2_multiply_gc_indep | apply bls_g2_negate_gc_indep
    | apply bls_map_to_g1_gc_indep | apply bls_map_to_g2_gc_indep | apply bls_pairing_identity_gc_indep | apply bls_verify_gc_indep
    | apply modpow_gc_indep | apply mod_gc_indep | apply keccak256_gc_indep | apply sha256_tree_gc_indep
    | apply secp256k1_verify_gc_indep | apply secp256r1_verify_gc_indep ]|]).
  constructor.
Qed.


Lemma all_ops_malachite_indep P : Forall op_malachite_indep (all_ops P).
Proof.
  unfold all_ops.
  repeat (constructor; [first
    [ apply if_malachite_indep | apply cons_malachite_indep | apply first_malachite_indep | apply rest_malachite_indep | apply listp_malachite_indep
    | apply raise_malachite_indep | apply eq_malachite_indep | apply gr_bytes_malachite_indep | apply sha256_malachite_indep | apply substr_malachite_indep
    | apply strlen_malachite_indep | apply concat_malachite_indep | apply add_malachite_indep | apply subtract_malachite_indep | apply multiply_malachite_indep
    | apply div_malachite_indep | apply divmod_malachite_indep | apply gr_malachite_indep | apply ash_malachite_indep | apply lsh_malachite_indep
    | apply logand_malachite_indep | apply logior_malachite_indep | apply logxor_malachite_indep | apply lognot_malachite_indep
    | apply point_add_malachite_indep | apply pubkey_for_exp_malachite_indep | apply not_malachite_indep | apply any_malachite_indep | apply all_malachite_indep
    | apply coinid_p_malachite_indep | apply bls_g1_subtract_malachite_indep | apply bls_g1_multiply_malachite_indep | apply bls_g1_negate_malachite_indep
    | apply bls_g2_add_malachite_indep | apply bls_g2_subtract_malachite_indep | apply bls_g2_multiply_malachite_indep | apply bls_g2_negate_malachite_indep
    | apply bls_map_to_g1_malachite_indep | apply bls_map_to_g2_malachite_indep | apply bls_pairing_identity_malachite_indep | apply bls_verify_malachite_indep
    | apply modpow_malachite_indep | apply mod_malachite_indep | apply keccak256_malachite_indep | apply sha256_tree_malachite_indep
    | apply secp256k1_verify_malachite_indep | apply secp256r1_verify_malachite_indep ]|]).
  constructor.
Qed.


