(* The current decoder (vector stack, lazily materialised stack lists, ghost-pair accounting)
   simulates the abstract stack decoder step for step (DESIGN.md Appendix B.3):
     - the vector [(v0,c0); ...; (vk,ck)] denotes the stack vk ... v0;
     - ci = Some n  ->  n is the list (vi ... v0);
     - ghost_pairs >= number of entries without a cached list (so remove_ghost_pair cannot
       underflow), and pair_vec.len() + ghost_pairs = the legacy decoder's pair count;
     - traverse_path_with_vec = traverse_path on the denoted list. *)
From Clvm Require Import Model.BackRef Proofs.BytesLemmas Proofs.DecoderGeneric Proofs.ClassicProofs
  Proofs.BackRefBasics Proofs.BackRefSpec.
From Coq Require Import Lia ZifyBool ZifyN ZifyNat.
Open Scope N_scope.
Arguments N.add : simpl never.
Arguments N.sub : simpl never.
Arguments N.mul : simpl never.
Arguments N.eqb : simpl never.
Arguments N.ltb : simpl never.
Arguments N.leb : simpl never.
Arguments stack_list : simpl never.

(* the list denoted by a vector prefix in push order, on top of [acc] *)
Definition vlist_from (acc : sexp) (l : list sexp) : sexp := fold_left (fun a v => Cons v a) l acc.

Lemma vlist_from_cons acc x l : vlist_from acc (x :: l) = vlist_from (Cons x acc) l.
Proof. reflexivity. Qed.

Lemma vlist_from_app acc a b : vlist_from acc (a ++ b) = vlist_from (vlist_from acc a) b.
Proof. unfold vlist_from. apply fold_left_app. Qed.

Lemma vlist_from_snoc acc a x : vlist_from acc (a ++ [x]) = Cons x (vlist_from acc a).
Proof. rewrite vlist_from_app. reflexivity. Qed.

Lemma stack_list_rev l : stack_list (rev l) = vlist_from nil_s l.
Proof.
  induction l as [|x l IH] using rev_ind; [reflexivity|].
  rewrite rev_app_distr, vlist_from_snoc, <- IH. reflexivity.
Qed.

Fixpoint count_none (v : vec) : N :=
  match v with
  | [] => 0
  | (_, None) :: r => 1 + count_none r
  | (_, Some _) :: r => count_none r
  end.

Fixpoint cache_ok_from (acc : sexp) (v : vec) : Prop :=
  match v with
  | [] => True
  | (x, c) :: r =>
      match c with Some n => n = Cons x acc | None => True end /\ cache_ok_from (Cons x acc) r
  end.

Lemma count_none_app a b : count_none (a ++ b) = count_none a + count_none b.
Proof.
  induction a as [|[x [n|]] a IH]; cbn [app count_none]; [lia|exact IH|rewrite IH; lia].
Qed.

Lemma cache_ok_app : forall a acc b,
  cache_ok_from acc (a ++ b) <-> cache_ok_from acc a /\ cache_ok_from (vlist_from acc (map fst a)) b.
Proof.
  induction a as [|[x c] a IH]; intros acc b; cbn [app cache_ok_from map fst].
  - cbn. tauto.
  - rewrite vlist_from_cons, IH. tauto.
Qed.

(* ------------------------------------------------------------------ the materialising loop *)
Lemma materialise_ok : forall pre acc p g, cache_ok_from acc pre -> count_none pre <= g ->
  exists pre',
    materialise pre acc p g =
      Ok (pre', vlist_from acc (map fst pre), p + count_none pre, g - count_none pre) /\
    map fst pre' = map fst pre /\ cache_ok_from acc pre' /\ count_none pre' = 0.
Proof.
  induction pre as [|[v [n|]] r IH]; intros acc p g Hc Hg.
  - exists []. cbn. replace (p + 0) with p by lia. replace (g - 0) with g by lia. repeat split.
  - cbn [cache_ok_from] in Hc. destruct Hc as [-> Hc]. cbn [count_none] in Hg.
    destruct (IH (Cons v acc) p g Hc Hg) as (r' & Hm & Hf & Hk & Hz).
    exists ((v, Some (Cons v acc)) :: r'). cbn [materialise]. rewrite Hm. cbn [bind map fst count_none].
    rewrite vlist_from_cons, Hf. repeat split; assumption.
  - cbn [cache_ok_from] in Hc. destruct Hc as [_ Hc]. cbn [count_none] in Hg.
    assert (Hg' : count_none r <= g - 1) by lia.
    destruct (IH (Cons v acc) (p + 1) (g - 1) Hc Hg') as (r' & Hm & Hf & Hk & Hz).
    exists ((v, Some (Cons v acc)) :: r'). cbn [materialise].
    destruct (N.ltb_spec g 1) as [Hlt|_]; [lia|].
    rewrite Hm. cbn [bind map fst count_none]. rewrite vlist_from_cons, Hf.
    replace (p + 1 + count_none r) with (p + (1 + count_none r)) by lia.
    replace (g - 1 - count_none r) with (g - (1 + count_none r)) by lia.
    repeat split; assumption.
Qed.

(* ------------------------------------------------------------------ the bit loop *)
Definition node_of (l : list sexp) (w : wstate) : sexp :=
  match w with
  | WSexp t => t
  | WVec i => vlist_from nil_s (firstn (S i) l)
  end.
Definition wf_w (l : list sexp) (w : wstate) : Prop :=
  match w with WSexp _ => True | WVec i => (i < length l)%nat end.

Lemma firstn_S_nth {A} : forall (l : list A) i x, nth_error l i = Some x -> firstn (S i) l = firstn i l ++ [x].
Proof.
  induction l as [|y l IH]; intros [|i] x H; cbn in H; try discriminate.
  - injection H as ->. reflexivity.
  - cbn [firstn app]. f_equal. apply IH. exact H.
Qed.

Lemma walk_follow : forall bits vals w c, wf_w (map fst vals) w ->
  match follow bits (node_of (map fst vals) w) c with
  | Ok (_, t) => exists w', walk_vec bits vals w = Ok w' /\ node_of (map fst vals) w' = t /\ wf_w (map fst vals) w'
  | Err _ => walk_vec bits vals w = Err SerializationBackrefError
  end.
Proof.
  induction bits as [|bit bits IH]; intros vals w c Hw.
  - cbn. exists w. repeat split. exact Hw.
  - destruct w as [i|t].
    + cbn [wf_w] in Hw. cbn [node_of].
      destruct (nth_error (map fst vals) i) as [x|] eqn:En; [|apply nth_error_None in En; lia].
      rewrite (firstn_S_nth _ _ _ En), vlist_from_snoc. cbn [follow walk_vec].
      destruct bit.
      * destruct i as [|j].
        -- apply (IH vals (WSexp nil_s)). exact I.
        -- apply (IH vals (WVec j)). cbn. lia.
      * rewrite nth_error_map in En. destruct (nth_error vals i) as [[v cc]|]; [|discriminate].
        cbn in En. injection En as ->. apply (IH vals (WSexp x)). exact I.
    + cbn [node_of follow walk_vec]. destruct t as [a|l r]; [reflexivity|].
      apply (IH vals (WSexp (if bit then r else l))). exact I.
Qed.

(* ------------------------------------------------------------------ traverse_path_with_vec *)
Lemma tpwv_spec : forall path stk vals p g,
  map fst vals = rev stk -> cache_ok_from nil_s vals -> count_none vals <= g ->
  match traverse_path path (stack_list stk) with
  | Ok (_, t) => exists vals' p' g',
      traverse_path_with_vec path vals p g = Ok (t, vals', p', g') /\
      map fst vals' = map fst vals /\ cache_ok_from nil_s vals' /\ count_none vals' <= g' /\ p' + g' = p + g
  | Err _ => traverse_path_with_vec path vals p g = Err SerializationBackrefError
  end.
Proof.
  intros path stk vals p g Hm Hc Hg. unfold traverse_path, traverse_path_with_vec.
  destruct (be_value path =? 0).
  { exists vals, p, g. repeat split; try assumption. }
  set (start := match vals with [] => WSexp nil_s | _ => WVec (length vals - 1) end).
  assert (Hstart : node_of (map fst vals) start = stack_list stk /\ wf_w (map fst vals) start).
  { subst start. destruct vals as [|e vals'] eqn:Ev.
    - cbn in Hm. destruct stk as [|x s]; [split; [reflexivity|exact I]|].
      cbn in Hm. symmetry in Hm. apply app_eq_nil in Hm. destruct Hm as [_ Hm]. discriminate.
    - rewrite <- Ev in *. assert (Hl : (0 < length vals)%nat) by (rewrite Ev; cbn; lia).
      cbn [node_of wf_w]. rewrite map_length. split; [|lia].
      replace (S (length vals - 1)) with (length (map fst vals)) by (rewrite map_length; lia).
      rewrite firstn_all, Hm, <- stack_list_rev, rev_involutive. reflexivity. }
  destruct Hstart as [Hn Hw]. rewrite <- Hn.
  pose proof (walk_follow (path_bits path) vals start
    (TRAVERSE_BASE_COST + N.of_nat (first_non_zero path) * TRAVERSE_COST_PER_ZERO_BYTE + TRAVERSE_COST_PER_BIT) Hw) as Hwf.
  destruct (follow (path_bits path) (node_of (map fst vals) start) _) as [[c' t]|e].
  - destruct Hwf as (w' & Hwalk & Hnode & Hw'). rewrite Hwalk. cbn [bind].
    destruct w' as [i|t'].
    + cbn [node_of wf_w] in Hnode, Hw'.
      pose proof (firstn_skipn (S i) vals) as Hsplit.
      assert (Hc2 := Hc). rewrite <- Hsplit in Hc2. apply cache_ok_app in Hc2. destruct Hc2 as [Hc_pre Hc_post].
      assert (Hcount : count_none vals = count_none (firstn (S i) vals) + count_none (skipn (S i) vals)).
      { rewrite <- count_none_app, Hsplit. reflexivity. }
      assert (Hg_pre : count_none (firstn (S i) vals) <= g) by lia.
      destruct (materialise_ok (firstn (S i) vals) nil_s p g Hc_pre Hg_pre) as (pre' & Hmat & Hf & Hk & Hz).
      rewrite Hmat. cbn [bind].
      exists (pre' ++ skipn (S i) vals), (p + count_none (firstn (S i) vals)), (g - count_none (firstn (S i) vals)).
      split; [|split; [|split; [|split]]].
      * rewrite <- firstn_map, Hnode. reflexivity.
      * rewrite map_app, Hf, <- map_app, Hsplit. reflexivity.
      * apply cache_ok_app. split; [exact Hk|]. rewrite Hf. exact Hc_post.
      * rewrite count_none_app, Hz. lia.
      * lia.
    + cbn [node_of] in Hnode. subst t'. exists vals, p, g. repeat split; assumption.
  - rewrite Hwf. reflexivity.
Qed.

(* ------------------------------------------------------------------ the simulation *)
Definition R_new (a : abs_state) (n : new_state) : Prop :=
  let '(stk, c) := a in
  let '(vals, p, g) := n in
  map fst vals = rev stk /\ p + g = c /\ cache_ok_from nil_s vals /\ count_none vals <= g.

(* the only difference in error kinds: a path into an atom *)
Definition E_new (e1 e2 : errkind) : Prop :=
  e1 = e2 \/ (e1 = PathIntoAtom /\ e2 = SerializationBackrefError).

Lemma vpop_snoc {A} (l : list A) x : vpop (l ++ [x]) = Some (x, l).
Proof. unfold vpop. rewrite rev_app_distr. cbn. rewrite rev_involutive. reflexivity. Qed.

Lemma map_fst_snoc {A B} : forall (vals : list (A * B)) a x, map fst vals = a ++ [x] ->
  exists v' e, vals = v' ++ [e] /\ map fst v' = a /\ fst e = x.
Proof.
  intros vals a x H. destruct vals as [|e0 vals0] using rev_ind.
  - cbn in H. destruct a; discriminate.
  - clear IHvals0. rewrite map_app in H. cbn in H. apply app_inj_tail in H. destruct H as [H1 H2].
    exists vals0, e0. repeat split; assumption.
Qed.

Lemma push_inv vals stk p g c v :
  map fst vals = rev stk -> p + g = c -> cache_ok_from nil_s vals -> count_none vals <= g ->
  R_new (v :: stk, c + 1) (vals ++ [(v, None)], p, g + 1).
Proof.
  intros Hm Hp Hc Hg. unfold R_new. split; [|split; [|split]].
  - rewrite map_app, Hm. reflexivity.
  - lia.
  - apply cache_ok_app. split; [exact Hc|]. cbn. tauto.
  - rewrite count_none_app. cbn [count_none]. lia.
Qed.

Lemma new_sim : forall f ops a n bs, R_new a n ->
  rel_out R_new E_new (abs_loop f ops a bs) (new_loop f ops n bs).
Proof.
  intros f ops a n bs HR. unfold abs_loop, new_loop.
  apply br_loop_sim; try (left; reflexivity); try exact HR; clear.
  - intros b r [stk c] [[vals p] g] (Hm & Hp & Hc & Hg). unfold rel_step, abs_on_atom, new_on_atom.
    destruct (read_atom_node b r) as [[a r']|e]; cbn [bind]; [|left; reflexivity].
    split; [|reflexivity]. apply push_inv; assumption.
  - intros r [stk c] [[vals p] g] (Hm & Hp & Hc & Hg). unfold rel_step, abs_on_backref, new_on_backref.
    destruct (parse_path r) as [[path r1]|e]; cbn [bind]; [|left; reflexivity].
    pose proof (tpwv_spec path stk vals p g Hm Hc Hg) as Ht. unfold backref_lookup.
    destruct (traverse_path path (stack_list stk)) as [[cost t]|e] eqn:Et; cbn [bind].
    + destruct Ht as (vals' & p' & g' & -> & Hm' & Hc' & Hg' & Hp'). cbn [bind].
      split; [|reflexivity]. apply push_inv; try assumption; [congruence|lia].
    + rewrite Ht. cbn [bind]. right. split; [|reflexivity]. eapply traverse_path_err; eassumption.
  - intros [stk c] [[vals p] g] (Hm & Hp & Hc & Hg). unfold rel_cons, abs_on_cons, new_on_cons.
    destruct stk as [|x [|y rest]].
    + cbn in Hm. apply map_eq_nil in Hm. subst vals. cbn. left; reflexivity.
    + cbn in Hm. destruct (map_fst_snoc vals [] x Hm) as (v' & e & -> & Hv' & He).
      apply map_eq_nil in Hv'. subst v'. cbn. left; reflexivity.
    + cbn [rev] in Hm. destruct (map_fst_snoc vals _ x Hm) as (v1 & ex & -> & Hv1 & Hex).
      destruct (map_fst_snoc v1 _ y Hv1) as (v2 & ey & -> & Hv2 & Hey).
      rewrite vpop_snoc, vpop_snoc. subst x y.
      apply cache_ok_app in Hc. destruct Hc as [Hc _]. apply cache_ok_app in Hc. destruct Hc as [Hc _].
      rewrite !count_none_app in Hg.
      unfold R_new. split; [|split; [|split]].
      * rewrite map_app, Hv2. reflexivity.
      * lia.
      * apply cache_ok_app. split; [exact Hc|]. cbn. tauto.
      * rewrite count_none_app. cbn [count_none]. lia.
Qed.

(* outcome of the current decoder against the abstract decoder: same pair count (also when the
   run fails), same tree and remaining input; errors equal except PathIntoAtom, which the
   current decoder reports as SerializationBackrefError *)
Theorem new_vs_abs : forall bs,
  fst (node_from_stream_backrefs bs) = fst (de_br_abs bs) /\
  match snd (de_br_abs bs), snd (node_from_stream_backrefs bs) with
  | Ok x, Ok y => x = y
  | Err e1, Err e2 => E_new e1 e2
  | _, _ => False
  end.
Proof.
  intros bs. unfold node_from_stream_backrefs, de_br_abs.
  assert (HR : R_new ([], 0) ([], 0, 0)) by (cbn; repeat split; lia).
  pose proof (new_sim (de_fuel bs) [OpSExp] _ _ bs HR) as [H1 H2].
  destruct (abs_loop (de_fuel bs) [OpSExp] ([], 0) bs) as [[stk c] oa].
  destruct (new_loop (de_fuel bs) [OpSExp] ([], 0, 0) bs) as [[[vals p] g] on].
  cbn [fst snd] in H1, H2. destruct H1 as (Hm & Hp & Hc & Hg). unfold rel_status in H2.
  unfold new_finish, abs_finish. cbn [fst snd]. split; [exact Hp|].
  destruct oa as [ra|ea], on as [rn|en]; try contradiction; [|exact H2]. subst rn.
  destruct stk as [|v s].
  - cbn in Hm. apply map_eq_nil in Hm. subst vals. cbn. left; reflexivity.
  - cbn [rev] in Hm. destruct (map_fst_snoc vals _ v Hm) as (v1 & e & -> & _ & He).
    rewrite vpop_snoc, He. reflexivity.
Qed.
