(* C01 is FALSE on the wrap class of finding F6, reached through run_program: the program
   (0x7fd0110580 (q . A) (q . B)) with two 1 MiB atoms succeeds under ChiaDialect with no flags
   (pre-hard-fork op_unknown: wrapping_mul) with cost 2375088143, while the published
   unknown-operator rule, hence the reference with the full domain, makes it fail. Every sound
   domain (RefClvmEval.dom_sound) excludes this operator application. *)
From Clvm Require Import Model.Dialect Model.RefClvm.
Open Scope N_scope.

Definition f6_atom (x : N) : sexp := Atom (repeat x (N.to_nat 1048576)).
Definition f6_program : sexp :=
  Cons (Atom [127; 208; 17; 5; 128])
       (Cons (Cons (Atom [1]) (f6_atom 65)) (Cons (Cons (Atom [1]) (f6_atom 66)) nil_s)).

Lemma f6_run : forall P : prims, run_chia P 10 0 f6_program nil_s 0 = Ok (2375088143, nil_s).
Proof. intros P. vm_compute. reflexivity. Qed.

Lemma f6_ref : forall H : bytes -> bytes,
  ref_run H current_adapters (fun _ _ => true) 10 f6_program nil_s 0 = Err Invalid.
Proof. intros H. vm_compute. reflexivity. Qed.

Lemma f6_refutes_c01 : exists p e, forall P : prims,
  run_chia P 10 0 p e 0 = Ok (2375088143, nil_s) /\
  ref_run (p_sha256 P) current_adapters (fun _ _ => true) 10 p e 0 = Err Invalid.
Proof. exists f6_program, nil_s. intros P. split; [apply f6_run|apply f6_ref]. Qed.
