(* C19, undo claim: in every state reachable by add / restore calls (any oracles, any nodes),
   the output cursor stands at the end of the Vec, add only appends, and restoring ANY undo state
   that is still live gives back exactly the state in which it was taken. *)
From Clvm Require Import Model.Incremental.
From Coq Require Import Lia ZifyBool ZifyN ZifyNat.
Open Scope N_scope.
Arguments N.add : simpl never.
Arguments N.sub : simpl never.
Arguments N.mul : simpl never.
Arguments N.eqb : simpl never.
Arguments N.ltb : simpl never.
Arguments N.leb : simpl never.

Definition cursor_ok (c : cursor) : Prop := c_pos c = blen (c_vec c).

Lemma cursor_write_end c d : cursor_ok c ->
  cursor_write c d = {| c_vec := c_vec c ++ d; c_pos := c_pos c + blen d |}.
Proof.
  intros Hc. destruct c as [v p]. unfold cursor_ok in Hc. cbn [c_vec c_pos] in *. subst p.
  destruct d as [|x d].
  - unfold cursor_write. cbn [c_vec c_pos]. rewrite app_nil_r. change (blen (@nil N)) with 0. rewrite N.add_0_r. reflexivity.
  - assert (Hp : N.to_nat (blen v) = length v) by (unfold blen; apply Nat2N.id).
    unfold cursor_write. cbn [c_vec c_pos]. rewrite !Hp.
    rewrite Nat.sub_diag. cbn [repeat]. rewrite app_nil_r.
    rewrite firstn_all. rewrite skipn_all2 by lia. rewrite app_nil_r. reflexivity.
Qed.

Lemma cursor_ok_app v p d : p = blen v -> cursor_ok {| c_vec := v ++ d; c_pos := p + blen d |}.
Proof. intros ->. unfold cursor_ok, blen. cbn [c_vec c_pos]. rewrite app_length. lia. Qed.

Lemma cursor_write_ok c d : cursor_ok c ->
  cursor_ok (cursor_write c d) /\ c_vec (cursor_write c d) = c_vec c ++ d.
Proof.
  intros Hc. rewrite (cursor_write_end c d Hc). split; [apply cursor_ok_app; exact Hc|reflexivity].
Qed.

Lemma write_atom_c_end c b c' : cursor_ok c -> write_atom_c c b = Ok c' ->
  exists e, ser_atom b = Some e /\ cursor_ok c' /\ c_vec c' = c_vec c ++ e.
Proof.
  intros Hc Hw. unfold write_atom_c in Hw. unfold ser_atom.
  destruct (atom_prefix (atom_0 b) (blen b)) as [p|]; [|discriminate].
  injection Hw as <-. exists (p ++ b). split; [reflexivity|].
  destruct (cursor_write_ok c p Hc) as [H1 E1].
  destruct (cursor_write_ok (cursor_write c p) b H1) as [H2 E2].
  split; [exact H2|]. rewrite E2, E1, app_assoc. reflexivity.
Qed.

(* what one node does to the state: only the output grows *)
Lemma emit_node_out orc s node s3 : cursor_ok (out s) -> emit_node orc s node = Ok s3 ->
  cursor_ok (out s3) /\ exists suf, c_vec (out s3) = c_vec (out s) ++ suf.
Proof.
  intros Hc He. unfold emit_node in He. destruct (find_path orc s node) as [path|].
  - destruct (cursor_write_ok (out s) [254] Hc) as [H1 E1].
    destruct (write_atom_c (cursor_write (out s) [254]) path) as [c|] eqn:Hw; [|discriminate].
    cbn [bind] in He. injection He as <-. cbn [out].
    destruct (write_atom_c_end _ _ _ H1 Hw) as (e & _ & H2 & E2).
    split; [exact H2|]. exists ([254] ++ e). rewrite E2, E1, app_assoc. reflexivity.
  - destruct node as [b|l r|]; [| |discriminate].
    + destruct (write_atom_c (out s) b) as [c|] eqn:Hw; [|discriminate].
      cbn [bind] in He. injection He as <-. cbn [out].
      destruct (write_atom_c_end _ _ _ Hc Hw) as (e & _ & H2 & E2).
      split; [exact H2|]. exists e. exact E2.
    + injection He as <-. cbn [out]. destruct (cursor_write_ok (out s) [255] Hc) as [H1 E1].
      split; [exact H1|]. exists [255]. exact E1.
Qed.

Lemma add_loop_out : forall f orc s d s', add_loop f orc s = Ok (d, s') -> cursor_ok (out s) ->
  cursor_ok (out s') /\ exists suf, c_vec (out s') = c_vec (out s) ++ suf.
Proof.
  induction f as [|f IH]; intros orc s d s' Hl Hc; [discriminate|].
  cbn [add_loop] in Hl. destruct (write_stk s) as [|node ws].
  - injection Hl as <- <-. split; [exact Hc|]. exists []. rewrite app_nil_r. reflexivity.
  - destruct (is_hole node).
    + injection Hl as <- <-. cbn [out]. split; [exact Hc|]. exists []. rewrite app_nil_r. reflexivity.
    + destruct (read_ops s) as [|[|n0] ops1]; try discriminate.
      destruct (emit_node orc _ node) as [s3|] eqn:He; [|discriminate]. cbn [bind] in Hl.
      destruct (pop_conses (read_ops s3) (tc_stk s3)) as [[ops3 tc3]|] eqn:Hp; [|discriminate].
      cbn [bind] in Hl.
      destruct (emit_node_out orc {| read_ops := ops1; write_stk := ws; tc_stk := tc_stk s; out := out s |} node s3 Hc He)
        as [H3 (suf1 & E3)]. cbn [out] in E3.
      destruct (IH _ _ _ _ Hl H3) as [H4 (suf2 & E4)]. cbn [out] in E4.
      split; [exact H4|]. exists (suf1 ++ suf2). rewrite E4, E3, app_assoc. reflexivity.
Qed.

(* Serializer::add appends *)
Lemma add_out orc s node d u s' : add orc s node = Ok (d, u, s') -> cursor_ok (out s) ->
  u = undo_of s /\ cursor_ok (out s') /\ exists suf, get_ref s' = get_ref s ++ suf.
Proof.
  intros Ha Hc. unfold add in Ha. destruct (read_ops s) as [|o ops] eqn:Hr; [discriminate|].
  match type of Ha with context [add_loop ?f ?o ?s0] => destruct (add_loop f o s0) as [[d0 s0']|] eqn:Hl end;
    [|discriminate].
  cbn [bind] in Ha. injection Ha as <- <- <-.
  destruct (add_loop_out _ _ _ _ _ Hl Hc) as [H1 (suf & E)]. cbn [out] in E.
  split; [reflexivity|]. split; [exact H1|]. exists suf. exact E.
Qed.

(* restore of the undo state taken in s0, applied to any state whose bytes extend those of s0 *)
Lemma restore_undo_of s0 s suf : cursor_ok (out s0) -> get_ref s = get_ref s0 ++ suf ->
  restore (undo_of s0) s = s0.
Proof.
  intros Hc E. destruct s0 as [ro ws tc [v p]]. unfold cursor_ok in Hc. cbn [out c_vec c_pos] in Hc.
  unfold restore, undo_of, get_ref in *. cbn [u_read_ops u_write_stk u_tc_stk u_pos out c_vec c_pos read_ops write_stk tc_stk] in *.
  rewrite E. subst p. unfold blen. rewrite Nat2N.id, firstn_app, Nat.sub_diag, firstn_all. cbn [firstn].
  rewrite app_nil_r. reflexivity.
Qed.

(* ------------------------------------------------------------------ reachable states.
   [live]: the undo states that may still be used, newest first, each with the state in which it
   was taken. Restoring the i-th one discards the newer ones (their additions are undone); the
   restored one stays usable (UndoState is Clone; the upstream test restores one state twice). *)
Inductive reach : ser -> list (undo_state * ser) -> Prop :=
| reach_new : reach ser_new []
| reach_add s live orc node d u s' :
    reach s live -> add orc s node = Ok (d, u, s') -> reach s' ((u, s) :: live)
| reach_restore s live i u s0 :
    reach s live -> nth_error live i = Some (u, s0) -> reach (restore u s) (skipn i live).

Definition is_prefix (a b : bytes) : Prop := exists suf, b = a ++ suf.

Lemma is_prefix_refl a : is_prefix a a.
Proof. exists []. rewrite app_nil_r. reflexivity. Qed.

Lemma is_prefix_trans a b c : is_prefix a b -> is_prefix b c -> is_prefix a c.
Proof. intros [x ->] [y ->]. exists (x ++ y). rewrite app_assoc. reflexivity. Qed.

(* the live undo states form a chain of prefixes of the current output *)
Fixpoint chain (live : list (undo_state * ser)) (v : bytes) : Prop :=
  match live with
  | [] => True
  | (u, s0) :: rest => u = undo_of s0 /\ cursor_ok (out s0) /\ is_prefix (get_ref s0) v /\ chain rest (get_ref s0)
  end.

Lemma chain_weaken live v w : chain live v -> is_prefix v w -> chain live w.
Proof.
  destruct live as [|[u s0] rest]; [intros; exact I|].
  cbn [chain]. intros (Hu & Hc & Hp & Hr) Hvw.
  split; [exact Hu|]. split; [exact Hc|]. split; [eapply is_prefix_trans; eassumption|exact Hr].
Qed.

Lemma chain_nth : forall live v i u s0, chain live v -> nth_error live i = Some (u, s0) ->
  u = undo_of s0 /\ cursor_ok (out s0) /\ is_prefix (get_ref s0) v /\ chain (skipn i live) (get_ref s0).
Proof.
  induction live as [|[u1 s1] rest IH]; intros v i u s0 Hch Hn; [destruct i; discriminate|].
  cbn [chain] in Hch. destruct Hch as (Hu & Hc & Hp & Hr).
  destruct i as [|i]; cbn [nth_error] in Hn.
  - injection Hn as <- <-. split; [exact Hu|]. split; [exact Hc|]. split; [exact Hp|].
    cbn [skipn chain]. split; [exact Hu|]. split; [exact Hc|]. split; [apply is_prefix_refl|exact Hr].
  - destruct (IH _ _ _ _ Hr Hn) as (Hu' & Hc' & Hp' & Hr').
    split; [exact Hu'|]. split; [exact Hc'|]. split; [eapply is_prefix_trans; eassumption|exact Hr'].
Qed.

Theorem reach_inv : forall s live, reach s live -> cursor_ok (out s) /\ chain live (get_ref s).
Proof.
  intros s live Hr. induction Hr as [|s live orc node d u s' Hr [Hc Hch] Ha|s live i u s0 Hr [Hc Hch] Hn].
  - split; [reflexivity|exact I].
  - destruct (add_out _ _ _ _ _ _ Ha Hc) as (-> & Hc' & suf & E).
    split; [exact Hc'|]. cbn [chain].
    split; [reflexivity|]. split; [exact Hc|]. split; [exists suf; exact E|exact Hch].
  - destruct (chain_nth _ _ _ _ _ Hch Hn) as (-> & Hc0 & [suf E] & Hch0).
    rewrite (restore_undo_of s0 s suf Hc0 E). split; assumption.
Qed.

(* the undo theorem: any live undo state restores exactly the state it was taken in *)
Theorem restore_live : forall s live u s0, reach s live -> In (u, s0) live -> restore u s = s0.
Proof.
  intros s live u s0 Hr Hin. destruct (reach_inv _ _ Hr) as [Hc Hch].
  destruct (In_nth_error _ _ Hin) as [i Hn].
  destruct (chain_nth _ _ _ _ _ Hch Hn) as (-> & Hc0 & [suf E] & _).
  exact (restore_undo_of s0 s suf Hc0 E).
Qed.

(* the immediate form: add then restore *)
Theorem add_then_restore : forall s live orc node d u s', reach s live ->
  add orc s node = Ok (d, u, s') ->
  restore u s' = s /\ get_ref (restore u s') = get_ref s /\ size (restore u s') = size s.
Proof.
  intros s live orc node d u s' Hr Ha.
  assert (E : restore u s' = s).
  { apply (restore_live s' ((u, s) :: live)); [eapply reach_add; eassumption|left; reflexivity]. }
  rewrite E. repeat split.
Qed.

(* output is append-only under add; size is the length; restore truncates *)
Theorem add_appends : forall s live orc node d u s', reach s live ->
  add orc s node = Ok (d, u, s') ->
  (exists suf, get_ref s' = get_ref s ++ suf) /\ size s' = blen (get_ref s').
Proof.
  intros s live orc node d u s' Hr Ha. destruct (reach_inv _ _ Hr) as [Hc _].
  destruct (add_out _ _ _ _ _ _ Ha Hc) as (_ & Hc' & Hs). split; [exact Hs|exact Hc'].
Qed.

Theorem restore_truncates : forall s live u s0, reach s live -> In (u, s0) live ->
  is_prefix (get_ref (restore u s)) (get_ref s) /\ get_ref (restore u s) = firstn (N.to_nat (u_pos u)) (get_ref s).
Proof.
  intros s live u s0 Hr Hin. split; [|reflexivity].
  rewrite (restore_live _ _ _ _ Hr Hin). destruct (reach_inv _ _ Hr) as [Hc Hch].
  destruct (In_nth_error _ _ Hin) as [i Hn].
  destruct (chain_nth _ _ _ _ _ Hch Hn) as (_ & _ & Hp & _). exact Hp.
Qed.

(* a restored state is a reachable state, and behaves as the original for every later call *)
Theorem restored_behaves : forall s live u s0 orc node, reach s live -> In (u, s0) live ->
  add orc (restore u s) node = add orc s0 node.
Proof. intros. erewrite restore_live by eassumption. reflexivity. Qed.
